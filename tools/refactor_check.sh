#!/bin/bash
# tools/refactor_check.sh <patch.diff> <check-id>...
# Applies a behaviour-preserving refactoring patch to a fresh worktree of /repo HEAD, runs the repository suite and the
# given checks against it. Every check must exit 0 (a non-zero exit on a behaviour-preserving change is a false alarm
# of the machinery - or the patch is not behaviour-preserving: inspect the replay file).
set -uo pipefail
PATCH=$1; shift
export GOFLAGS=-mod=mod GOPROXY=off GOSUMDB=off GOTOOLCHAIN=local
WT=$(mktemp -d /tmp/refwt-XXXXXX); rmdir "$WT"
git -C /repo worktree add -q "$WT" HEAD
cleanup() { git -C /repo worktree remove --force "$WT" >/dev/null 2>&1; rm -rf "$WT"; }
trap cleanup EXIT
git -C "$WT" apply "$PATCH" || { echo "patch does not apply"; exit 3; }
(cd "$WT" && go build ./... && go build -tags verif ./deploy && go test -vet=off -count=1 ./... >/tmp/ref_suite.log 2>&1); echo "suite with patch: exit=$? (want 0)"
for id in "$@"; do
  (cd /verif && VERIF_REPO="$WT" ./check "$id" >/tmp/ref_check_$id.log 2>&1); rc=$?
  echo "check $id on refactored tree: exit=$rc  $(grep -c '^VIOLATION' /tmp/ref_check_$id.log) VIOLATION, $(grep -o 'DRIFT: [0-9]* ' /tmp/ref_check_$id.log | head -1) $(grep -m1 '^VIOLATION' /tmp/ref_check_$id.log | cut -c1-170)"
  [ $rc -eq 2 ] && tail -4 /tmp/ref_check_$id.log
done
