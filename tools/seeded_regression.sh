#!/bin/bash
# tools/seeded_regression.sh [pattern]
# Re-applies every stored seeded change (seeded/<name>/patch.diff) to a fresh worktree of /repo HEAD and runs the check of
# the property it breaks (meta.json: breaks_property). Every line must end with exit=1. Results: out/seeded_regression.log
set -uo pipefail
cd /verif
mkdir -p out
LOG=out/seeded_regression.log; : > $LOG
for d in seeded/${1:-C}*/; do
  n=$(basename $d); [ -f $d/patch.diff ] || continue
  id=$(python3 -c "import json;print(json.load(open('$d/meta.json'))['breaks_property'])")
  WT=$(mktemp -d /tmp/sregwt-XXXXXX); rmdir $WT
  git -C /repo worktree add -q $WT HEAD
  if git -C $WT apply /verif/$d/patch.diff 2>/dev/null; then
    VERIF_REPO=$WT ./check $id > /tmp/sreg_$n.log 2>&1; rc=$?
    echo "$n $id exit=$rc $(grep -c '^VIOLATION' /tmp/sreg_$n.log) VIOLATION lines" | tee -a $LOG
  else
    echo "$n $id patch does not apply to HEAD (repo moved on)" | tee -a $LOG
  fi
  git -C /repo worktree remove --force $WT >/dev/null 2>&1; rm -rf $WT
done
