#!/bin/bash
# Regenerates contracts/<c>/contract.nef and manifest.json (and rpc/<c>/rpcbinding.go) of /repo exactly as the
# repository's Makefile does, with the `neo-go contract` command group of the pinned release built from the module
# cache (harness/cmd/neogo). Usage: tools/regen.sh <contract>... ; REPO=<dir> overrides /repo.
set -euo pipefail
REPO=${REPO:-/repo}
export GOFLAGS=-mod=mod GOPROXY=off GOSUMDB=off GOTOOLCHAIN=local CGO_ENABLED=0
BIN=${NEOGO_BIN:-$(mktemp -d)/neogo}
if [ ! -x "$BIN" ]; then
  (cd /verif/harness && go build -trimpath -ldflags "-X 'github.com/nspcc-dev/neo-go/pkg/config.Version=0.107.0'" -o "$BIN" ./cmd/neogo)
fi
cd "$REPO"
for c in "$@"; do
  "$BIN" contract compile -i contracts/$c -c contracts/$c/config.yml -m contracts/$c/manifest.json -o contracts/$c/contract.nef --bindings contracts/$c/bindings_config.yml
  "$BIN" contract generate-rpcwrapper -o rpc/$c/rpcbinding.go -m contracts/$c/manifest.json --config contracts/$c/bindings_config.yml
  rm -f contracts/$c/bindings_config.yml
done
