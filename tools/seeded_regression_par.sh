#!/bin/bash
# tools/seeded_regression_par.sh <seed> <jobs> [pattern]
# Like seeded_regression.sh but with VERIF_SEED=<seed> and <jobs> seeded changes in parallel: every stored seeded change is
# applied to its own fresh worktree of /repo HEAD and the quick check of the property it breaks is run against it.
# Every line of out/seeded_regression_seed<seed>.log must end with exit=1 (a line with exit=0 is a seed-dependent miss).
set -uo pipefail
cd /verif; mkdir -p out
SEED=$1; JOBS=$2; PAT=${3:-C}
LOG=out/seeded_regression_seed$SEED.log; : > $LOG
one() {
  d=$1; n=$(basename $d); [ -f $d/patch.diff ] || exit 0
  id=$(python3 -c "import json;print(json.load(open('$d/meta.json'))['breaks_property'])")
  WT=$(mktemp -d /tmp/sregwt-XXXXXX); rmdir $WT
  git -C /repo worktree add -q $WT HEAD
  if git -C $WT apply /verif/$d/patch.diff 2>/dev/null; then
    VERIF_SEED=$SEED VERIF_REPO=$WT ./check $id > /tmp/sreg${SEED}_$n.log 2>&1; rc=$?
    echo "$n $id seed=$SEED exit=$rc $(grep -c '^VIOLATION' /tmp/sreg${SEED}_$n.log) VIOLATION lines; $(grep -m1 '^VIOLATION' /tmp/sreg${SEED}_$n.log | cut -c1-120)" >> $LOG
    [ $rc -eq 1 ] && rm -f /tmp/sreg${SEED}_$n.log
  else
    echo "$n $id patch does not apply to HEAD (repo moved on)" >> $LOG
  fi
  git -C /repo worktree remove --force $WT >/dev/null 2>&1; rm -rf $WT
}
export -f one; export SEED LOG
ls -d seeded/${PAT}*/ | xargs -P $JOBS -I{} bash -c 'one {}'
sort -o $LOG $LOG
echo "done: $(grep -c 'exit=1' $LOG) caught, $(grep -vc 'exit=1' $LOG) not"
