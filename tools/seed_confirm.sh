#!/bin/bash
# tools/seed_confirm.sh <name> <out-dir> <demo-pkg-dir> <check-id>...
# Confirms a seeded change produced by an independent agent in its own scratch worktree and runs checks against it:
#   1. fresh worktree of /repo HEAD + patch.diff  -> go build + full test suite must pass (demo absent)
#   2. demo test FAILS with the patch, PASSES without
#   3. VERIF_REPO=<worktree> ./check <id> for each given id (exit codes reported)
# The worktree is removed afterwards. Results are printed; nothing is written under /verif except out/.
set -uo pipefail
NAME=$1; OUT=$2; PKG=$3; shift 3
export GOFLAGS=-mod=mod GOPROXY=off GOSUMDB=off GOTOOLCHAIN=local
WT=$(mktemp -d /tmp/seedwt-XXXXXX); rmdir "$WT"
git -C /repo worktree add -q "$WT" HEAD
cleanup() { git -C /repo worktree remove --force "$WT" >/dev/null 2>&1; rm -rf "$WT"; }
trap cleanup EXIT
DEMO=$(ls "$OUT"/*_test.go | head -1)
DEMOFN=$(grep -o 'func TestDemo[A-Za-z0-9_]*' "$DEMO" | head -1 | sed 's/func //')
# without the patch: the demo passes
cp "$DEMO" "$WT/$PKG/zz_demo_test.go"
(cd "$WT" && go test -vet=off -count=1 -run "$DEMOFN" ./$PKG/ >/tmp/seed_${NAME}_demo_clean.log 2>&1); echo "demo on unchanged tree: exit=$? (want 0)"
rm "$WT/$PKG/zz_demo_test.go"
git -C "$WT" apply "$OUT/patch.diff" || { echo "patch does not apply"; exit 3; }
(cd "$WT" && go build ./... && go test -vet=off -count=1 ./... >/tmp/seed_${NAME}_suite.log 2>&1); echo "suite with patch: exit=$? (want 0)"
cp "$DEMO" "$WT/$PKG/zz_demo_test.go"
(cd "$WT" && go test -vet=off -count=1 -run "$DEMOFN" ./$PKG/ >/tmp/seed_${NAME}_demo_patched.log 2>&1); echo "demo with patch: exit=$? (want 1)"
rm "$WT/$PKG/zz_demo_test.go"
for id in "$@"; do
  (cd ${VERIF_DIR:-/verif} && VERIF_REPO="$WT" ./check "$id" >/tmp/seed_${NAME}_check_$id.log 2>&1); rc=$?
  echo "check $id on seeded tree: exit=$rc  $(grep -c '^VIOLATION' /tmp/seed_${NAME}_check_$id.log) VIOLATION lines; first: $(grep -m1 '^VIOLATION' /tmp/seed_${NAME}_check_$id.log | cut -c1-160)"
  [ $rc -eq 2 ] && tail -5 /tmp/seed_${NAME}_check_$id.log
done
