#!/bin/bash
# tools/seeded_regression_list.sh <seed> <jobs> <regex>
# As seeded_regression_par.sh, for the stored seeded changes whose directory name matches <regex> (e.g. 'C[0-9]+[e-h]-').
set -uo pipefail
cd /verif; mkdir -p out
SEED=$1; JOBS=$2; RE=$3
LOG=out/seeded_regression_list_seed$SEED.log; : > $LOG
one() {
  d=$1; n=$(basename $d); [ -f $d/patch.diff ] || exit 0
  id=$(python3 -c "import json;print(json.load(open('$d/meta.json'))['breaks_property'])")
  WT=$(mktemp -d /tmp/sregwt-XXXXXX); rmdir $WT
  git -C /repo worktree add -q $WT HEAD
  if git -C $WT apply /verif/$d/patch.diff 2>/dev/null; then
    VERIF_SEED=$SEED VERIF_REPO=$WT ./check $id > /tmp/sregl${SEED}_$n.log 2>&1; rc=$?
    echo "$n $id seed=$SEED exit=$rc $(grep -c '^VIOLATION' /tmp/sregl${SEED}_$n.log) VIOLATION lines; $(grep -m1 '^VIOLATION' /tmp/sregl${SEED}_$n.log | cut -c1-120)" >> $LOG
    [ $rc -eq 1 ] && rm -f /tmp/sregl${SEED}_$n.log
  else
    echo "$n $id patch does not apply to HEAD (repo moved on)" >> $LOG
  fi
  git -C /repo worktree remove --force $WT >/dev/null 2>&1; rm -rf $WT
}
export -f one; export SEED LOG
ls -d seeded/C*/ | grep -E "$RE" | xargs -P $JOBS -I{} bash -c 'one {}'
sort -o $LOG $LOG
echo "done: $(grep -c 'exit=1' $LOG) caught, $(grep -vc 'exit=1' $LOG) not"
