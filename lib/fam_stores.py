"""Family `stores`: C20 — spec/Stores.tla, monitor spec/StoresTrace.tla, driver harness/stores.

Reputation, Audit, container size estimations, NeoFSID and the configuration maps of Netmap and of the
main-chain NeoFS contract as exact stores (incl. epochs / keys whose byte encodings are prefixes of one another).
"""
import vcheck as V


class Stores(V.Family):
    name = "stores"
    props = ("C20",)
    driver_pkg = "stores"
    monitor = ("StoresTrace.tla", "StoresTrace.cfg")
    step_keys = ("act", "S", "e", "x", "a", "b", "v", "ks", "var")
    reset_keys = ("n", "src", "qe", "nk")
    assume = [
        "neo-go v0.107.0 compiler/VM/ledger/neotest are faithful to the production platform (transaction atomicity on FAULT, "
        "witness checks, storage.Find over a byte prefix, role designation effective from the next block)",
        "identifiers have their production lengths (33-byte keys / peer ids, 32-byte container ids, 25-byte owners), so that "
        "storage keys of different entries never coincide; epochs are non-negative and below 2^31",
        "the harness maps model values injectively to real keys / ids / byte strings and decodes raw storage by the documented "
        "key layout (anything it cannot decode is reported, never dropped)",
        "every read method is a function of its own contract's storage: the query sweep of a contract is repeated only when "
        "that contract's raw storage digest has changed",
        "TLC 1.8.0 evaluates the property predicates correctly on the recorded steps",
    ]
    rule = ("one evaluation = one transaction executed on the real contracts (Reputation, Audit, Container, NeoFSID, Netmap, NeoFS "
            "deployed together) and judged by the TLA+ monitor against the ghost exact maps; after every step every read method is "
            "queried for every epoch/container/node/peer/owner/key of the scenario's universe; distinct_nontrivial counts distinct "
            "(action, outcome, signer class, epoch encoding length, state changed) tuples among steps that changed state or were "
            "refused for a reason other than a missing witness")
    tiers = {
        "quick": dict(mc=[("StoresMC.tla", "Stores_quick.cfg"), ("StoresMC.tla", "Stores_quick_aud.cfg"),
                          ("StoresMC.tla", "Stores_quick_est.cfg"), ("StoresMC.tla", "Stores_quick_env.cfg"),
                          ("StoresMC.tla", "Stores_quick_idcfg.cfg")], mc_timeout=600,
                      mc_heavy=("Stores_quick_est.cfg",),
                      sim=("StoresMC.tla", "Stores_sim.cfg", 40, 26), sim_keep=60, nrand=90, shards=8),
        "thorough": dict(mc=[("StoresMC.tla", "Stores_thorough.cfg"), ("StoresMC.tla", "Stores_thorough_aud.cfg"),
                             ("StoresMC.tla", "Stores_thorough_est.cfg"), ("StoresMC.tla", "Stores_thorough_env.cfg"),
                             ("StoresMC.tla", "Stores_thorough_id.cfg"), ("StoresMC.tla", "Stores_thorough_cfg.cfg")], mc_timeout=3000,
                         mc_heavy=("Stores_thorough_est.cfg", "Stores_thorough_env.cfg"),
                         sim=("StoresMC.tla", "Stores_sim.cfg", 700, 26), sim_keep=1200, nrand=1500, shards=14),
    }

    def nontrivial_key(self, r, prev):
        if prev is None:
            return None
        changed = r["obs"]["st"] != prev["obs"]["st"]
        S = set(r["S"])
        need = r["b"] if r["act"] in ("est.put", "aud.put") else ("CMT" if r["act"] == "ir.set" else "ALPHA")
        sc = "ok" if need in S else ("other" if S else "none")
        if not changed and r["res"] == "FAULT" and sc != "ok":
            return None
        e = r["e"]
        elen = 0 if e <= 0 else (e.bit_length() + 8) // 8      # length of the VM encoding of the epoch
        return (r["act"], r["res"], sc, elen, changed, len(r["ks"]), len(r["ntf"]))

    def extra_coverage(self, trace_all, flags_all):
        import collections
        sites = collections.Counter((f["act"], ",".join(f["tags"])) for f in flags_all if f["prop"] == "C20")
        eps = set()
        for r in trace_all:
            if r["act"] == "reset":
                eps.update(r["qe"])
        return dict(committee_sizes=sorted(set(r["n"] for r in trace_all if r["act"] == "reset")),
                    query_epochs=len(eps), flags_by_site_and_tag={"%s|%s" % k: v for k, v in sorted(sites.items())})


def decide(pid, flags, trace, known, seed, scenario_of, drift_ok=True):
    """Replacement of vcheck.decide for this family (work-around, see notes/reports/stores.md).

    vcheck.decide judges only the first offending line of a trace, because in the other families a violated
    invariant corrupts the state and every later flag is a consequence.  Here a flag explained by a known finding
    is a *read* that returned surplus ids; it corrupts nothing, and it occurs early in almost every trace
    (listByEpoch(0) answers with everything).  So known-finding flags are reported and skipped, and the first
    flag of a trace that is NOT explained by a known finding is decisive for that trace.
    """
    mine = sorted([f for f in flags if f["prop"] == pid], key=lambda f: f["line"])
    drift = [f for f in flags if f["prop"] == "DRIFT"]
    violations, known_seen, done = [], {}, set()
    for f in mine:
        if f["trace"] in done:
            continue
        k = V.is_known(f, known)
        if k:
            known_seen.setdefault(k["text"], []).append(f)
            continue
        done.add(f["trace"])
        rec = trace[f["line"] - 1]
        path = V.save_replay(pid, seed, "t%s" % f["trace"], dict(property=pid, pred=f["pred"], site=f["act"], line=f["line"],
                                                                 step=V.compact_step(rec, Stores.step_keys + ("res",)),
                                                                 tags=f["tags"], scenario=scenario_of(f["trace"])))
        violations.append((f, path))
    for text, fs in known_seen.items():
        print("KNOWN-FINDING: property=%s %s (seen on %d steps, e.g. pred=%s site=%s)" %
              (pid, text.split(" ", 2)[2], len(fs), fs[0]["pred"], fs[0]["act"]))
    seen = set()
    for f, path in violations:
        key = (f["pred"], f["act"], tuple(f["tags"]))
        if key in seen:          # one line per distinct (predicate, site, tags); every violation has its replay file
            continue
        seen.add(key)
        print("VIOLATION property=%s replay=%s pred=%s site=%s tags=%s" % (pid, path, f["pred"], f["act"], ",".join(f["tags"])))
    if drift:
        acts = sorted(set((f["pred"], f["act"]) for f in drift))
        print("DRIFT: %d recorded steps are not steps of the Spec (model drift, not an alarm): %s" % (len(drift), acts[:8]))
    return violations, known_seen, len(drift)


def run(pid, tier, seed, replay=None):
    import os
    V.decide = decide
    F = Stores()
    if os.environ.get("VERIF_STORES_FAST"):
        # development aid (mutation runs): skip S1/S2, keep traps + random scenarios + S4; writes no evidence worth keeping
        F.tiers = {t: dict(c, mc=[], sim=None) for t, c in F.tiers.items()}
    if os.environ.get("VERIF_STORES_DEV"):
        # deviation switches of the monitor's Spec (binding only, never the verdict), e.g. after notes/reports/stores-fix-1.diff:
        #   VERIF_STORES_DEV='{"PrefixAlias", "Exact:aud.listByEpoch", "Exact:est.list"}'
        F.monitor_constants = {"Dev": os.environ["VERIF_STORES_DEV"]}
    V.spec_dir()      # populate the scratch copy of the specs before the monitor threads race for it
    mcs = F.tiers[tier].get("mc", [])
    if replay is None and len(mcs) > 1:
        # S1 consists of independent configurations (one per sub-store); run_family checks them one after the other,
        # each paying TLC's start-up.  Run them side by side and hand the results to run_family in its own order.
        import concurrent.futures as cf
        import time
        orig = V.tlc_modelcheck
        timeout = F.tiers[tier].get("mc_timeout", 900)
        heavy = F.tiers[tier].get("mc_heavy", ())
        # the big configurations start first and get more workers; at most 3 TLC processes at a time in the thorough
        # tier (every TLC process reserves memory in proportion to its 25 %-of-RAM heap), 5 in quick
        order = sorted(range(len(mcs)), key=lambda i: (mcs[i][1] not in heavy, i))
        slots = min(len(mcs), 5 if tier == "quick" else 3)

        def one(k):
            i = order[k]
            time.sleep(0.4 * (k % 5))    # V.tlc numbers its metadirs with an unlocked counter
            w = 6 if mcs[i][1] in heavy else max(2, min(4, V.NCPU // slots))
            try:
                return i, orig(mcs[i][0], mcs[i][1], timeout=timeout, workers=w)
            except Exception as e:       # re-raised when run_family asks for this configuration
                return i, e
        with cf.ThreadPoolExecutor(max_workers=slots) as ex:
            res = {mcs[i]: r for i, r in ex.map(one, range(len(mcs)))}

        def prefetched(module, c, timeout=900, workers=None, cfg_text=None, **kw):
            r = res.get((module, c))
            if r is None:
                return orig(module, c, timeout=timeout, workers=workers, cfg_text=cfg_text, **kw)
            if isinstance(r, Exception):
                raise r
            return r
        V.tlc_modelcheck = prefetched
    return V.run_family(F, pid, tier, seed, replay)
