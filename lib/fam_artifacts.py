"""Family `artifacts`: C15 — shipped executables / manifests / bindings vs. the sources of the same tree.

Decision procedure (DESIGN.md §6 C15):
  * spec/Artifacts.tla: deployment-order model, checked exhaustively by TLC over all 9! orders (S1)
  * harness/artifacts records: embedded vs in-process compilation (script, tokens, manifest shape), package
    contracts vs tree files, deployment of the embedded set in GetFS() order, dependency probes, version() of all
    contracts, a reflection sweep over every generated binding method (name/arity actually sent) and live decoding
  * a script that differs from the compilation of the sources is decided by DIFFERENTIAL REPLAY: the scenario drivers
    of the other families run once on the embedded artifacts and once on the compiled sources; recorded traces must be
    equal line by line (identical scripts make this unnecessary: identical programs behave identically)
  * byte-level regeneration with the pinned `neo-go contract compile / generate-rpcwrapper` (harness/cmd/neogo) is
    reported in the evidence (sound shortcut and staleness note), it is not what decides
  * spec/ArtifactsTrace.tla judges every recorded line
"""
import json
import os
import shutil
import time

import vcheck as V

CONTRACTS = ["alphabet", "audit", "balance", "container", "neofs", "neofsid", "netmap", "nns", "processing", "proxy", "reputation"]
DIFF_FAMILIES = ["balance", "netmap", "container", "nns", "stores", "mainchain"]
# driver modes of the families (extra environment), each mode is replayed
DIFF_MODES = {
    "container": [dict(), dict(VERIF_FAMMODE="roster")],
    "mainchain": [dict(VERIF_MC_FAM="vote"), dict(VERIF_MC_FAM="gas")],
    "netmap": [dict(VERIF_NRING=6, VERIF_NSYS=12)],
}
ASSUME = [
    "the pinned compiler is neo-go v0.107.0 from the module cache (the version the Makefile pins)",
    "identical NEF scripts and method tokens behave identically; differing scripts are judged by differential replay on the scenario sets of the other families (held on everything replayed, not a proof)",
    "manifest comparison ignores parameter names and the `extra` field (the statement speaks of ABI, events, permissions)",
]


def build_neogo():
    out = os.path.join(V.scratch(), "neogo")
    env = dict(V.GOENV, CGO_ENABLED="0")
    modfile = os.path.join(V.scratch(), "go.mod")
    if not os.path.exists(modfile):
        V.go_build_test("artifacts")  # creates the private modfile
    V.run(["go", "build", "-modfile", modfile, "-trimpath", "-ldflags",
           "-X 'github.com/nspcc-dev/neo-go/pkg/config.Version=0.107.0'", "-o", out, "./cmd/neogo"], cwd=V.HARNESS, env=env, timeout=1200)
    return out


def regenerate(neogo):
    """Byte-level regeneration of the three shipped files per contract. Returns list of dict(name, nef, manifest, binding)."""
    res = []
    d = os.path.join(V.scratch(), "regen")
    os.makedirs(d, exist_ok=True)
    for c in CONTRACTS:
        src = os.path.join(V.REPO, "contracts", c)
        nef, man, bcfg, bind = (os.path.join(d, c + x) for x in (".nef", ".manifest.json", ".bindings.yml", ".rpcbinding.go"))
        V.run([neogo, "contract", "compile", "-i", src, "-c", os.path.join(src, "config.yml"), "-m", man, "-o", nef, "--bindings", bcfg],
              cwd=V.REPO, env=V.GOENV, timeout=600)
        # the binding is generated from the SHIPPED manifest (what the Makefile does) and the fresh bindings config
        V.run([neogo, "contract", "generate-rpcwrapper", "-o", bind, "-m", os.path.join(src, "manifest.json"), "--config", bcfg],
              cwd=V.REPO, env=V.GOENV, timeout=600)
        same = lambda a, b: open(a, "rb").read() == open(b, "rb").read()
        res.append(dict(name=c, nef=same(nef, os.path.join(src, "contract.nef")), manifest=same(man, os.path.join(src, "manifest.json")),
                        binding=same(bind, os.path.join(V.REPO, "rpc", c, "rpcbinding.go"))))
    return res


def diff_replay(seed, nrand):
    """Runs each available family driver on compiled sources and on embedded artifacts; traces must be equal."""
    out = []
    for fam in DIFF_FAMILIES:
        if not os.path.exists(os.path.join(V.HARNESS, fam, "drive_test.go")):
            continue
        try:
            binary, _ = V.go_build_test(fam)
        except V.Inconclusive as e:
            V.log("differential replay: driver %s does not build, skipped (%s)" % (fam, str(e)[:80]))
            continue
        for mi, mode_env in enumerate(DIFF_MODES.get(fam, [dict()])):
            paths = {}
            envs = []
            for mode in ("source", "embedded"):
                p = os.path.join(V.scratch(), "diff_%s%d_%s.ndjson" % (fam, mi, mode))
                paths[mode] = p
                e = dict(VERIF_OUT=p, VERIF_SEED=seed, VERIF_NRAND=nrand, VERIF_SHARD=0, VERIF_NSHARD=1, VERIF_TIER="quick",
                         VERIF_ARTIFACTS="embedded" if mode == "embedded" else "", VERIF_SCEN="")
                e.update(mode_env)
                envs.append(e)
            try:
                V.go_drive(binary, envs, timeout=1500)
            except V.Inconclusive as e:
                V.log("differential replay: driver %s %s failed, skipped (%s)" % (fam, mode_env, str(e)[:200]))
                continue

            def canon(x, in_obs=False):
                # observations of the state are sets (drivers enumerate Go maps): compare them order-insensitively;
                # everything else (results, notifications) keeps its order
                if isinstance(x, dict):
                    return {k: canon(v, in_obs or k == "obs") for k, v in x.items()}
                if isinstance(x, list):
                    ys = [canon(v, in_obs) for v in x]
                    return sorted(ys, key=lambda v: json.dumps(v, sort_keys=True)) if in_obs else ys
                return x

            def norm(p):
                rows = []
                for l in open(p):
                    r = json.loads(l)
                    for k in list(r):
                        if k.startswith(("fault", "flt")) or k in ("err", "msg", "why"):
                            r.pop(k)     # fault texts carry instruction offsets of the script (and texts are no
                                         # part of any property, DESIGN.md §8)
                    rows.append(json.dumps(canon(r), sort_keys=True))
                return rows
            a, b = norm(paths["source"]), norm(paths["embedded"])
            first = next((i for i, (x, y) in enumerate(zip(a, b)) if x != y), None)
            same = a == b
            if not same:
                # a difference only counts if the driver is deterministic: run the source mode once more
                p2 = paths["source"] + ".again"
                e2 = dict(envs[0], VERIF_OUT=p2)
                try:
                    V.go_drive(binary, [e2], timeout=1500)
                    if norm(p2) != a:
                        V.log("differential replay %s %s: the driver is not deterministic for one seed (source run differs from "
                              "itself) - skipped, no verdict from this driver" % (fam, mode_env))
                        continue
                except V.Inconclusive:
                    pass
            name = fam if len(DIFF_MODES.get(fam, [1])) == 1 else "%s#%d" % (fam, mi)
            out.append(dict(act="diffreplay", name=name, same=same, lines=len(a), res="HALT", t=0,
                            firstDiff=-1 if first is None else first + 1))
            V.log("differential replay %s: %d lines, %s" % (name, len(a), "equal" if same else "DIFFERENT at line %s" % (first,)))
    return out


def run(pid, tier, seed, replay=None):
    t0 = time.time()
    known = V.known_findings()
    mc = V.tlc_modelcheck("Artifacts.tla", "Artifacts_mc.cfg", timeout=900, workers=min(V.NCPU, 8))
    V.log("S1 Artifacts.tla: %d distinct states (all deployment orders), %.0fs" % (mc["states"], mc["wall_s"]))
    binary, _ = V.go_build_test("artifacts")
    trace_path = os.path.join(V.scratch(), "trace0.ndjson")
    stats, dt = V.go_drive(binary, [dict(VERIF_OUT=trace_path, VERIF_SEED=seed, VERIF_SHARD=0, VERIF_NSHARD=1)])
    trace = V.read_trace(trace_path)
    V.log("S3: %d comparison lines recorded (%.0fs)" % (len(trace), dt))
    neogo = build_neogo()
    regen = regenerate(neogo)
    stale = [r for r in regen if not (r["nef"] and r["manifest"] and r["binding"])]
    for r in stale:
        print("NOTE: regeneration with the pinned tools is not byte-identical for %s: nef=%s manifest=%s binding=%s" %
              (r["name"], r["nef"], r["manifest"], r["binding"]))
    differs = [r["name"] for r in trace if r["act"] == "artifact" and not (r["scriptEq"] and r["tokensEq"])]
    extra = []
    if differs or tier == "thorough":
        extra = diff_replay(seed, 400 if tier == "thorough" else 120)
        if differs and not extra:
            raise V.Inconclusive("scripts differ for %s but no differential replay driver is available" % differs)
    for r in regen:
        extra.append(dict(act="regeninfo", name=r["name"], nef=r["nef"], manifest=r["manifest"], binding=r["binding"], res="HALT", t=0))
    with open(trace_path, "a") as f:
        for r in extra:
            f.write(json.dumps(r) + "\n")
    trace += extra
    flags, done, dt = V.tlc_monitor("ArtifactsTrace.tla", "ArtifactsTrace.cfg", trace_path)
    if done != len(trace):
        raise V.Inconclusive("S4: monitor consumed %s of %d lines" % (done, len(trace)))
    # a differing script is decided by the differential replay lines, not by the byte comparison
    decisive = []
    for f in flags:
        if f["pred"] == "ExecutableMatchesSource":
            name = trace[f["line"] - 1]["name"]
            print("STALE-ARTIFACT: contracts/%s/contract.nef is not what the sources compile to; decided by differential replay" % name)
            continue
        decisive.append(f)
    # every flagged line is its own finding here (the lines are independent comparisons)
    for i, f in enumerate(decisive):
        f["trace"] = "%s-%d" % (f["trace"], i)
    for i, r in enumerate(trace):
        pass
    violations, known_seen, drift = V.decide(pid, decisive, trace, known, seed,
                                             lambda tid: dict(note="re-run ./check C15; the offending line is in `step`"))
    ncmp = sum(1 for r in trace if r["act"] in ("artifact", "embedded", "deploy", "version", "binding", "decode", "diffreplay"))
    kinds = {}
    for r in trace:
        kinds[r["act"]] = kinds.get(r["act"], 0) + 1
    samples = [r for r in trace if r["act"] in ("artifact", "deploy", "binding", "version", "probe", "diffreplay")][:1] + \
              [r for r in trace if r["act"] == "binding"][:2] + [r for r in trace if r["act"] == "diffreplay"][:2]
    cov = dict(programs=len(CONTRACTS), disagreements_checked=ncmp, samples=samples,
               evaluations=ncmp, distinct_nontrivial=len(set((r["act"], r.get("name"), r.get("gomethod"), r.get("method")) for r in trace)),
               rule="one evaluation = one recorded comparison between a shipped artifact and the sources/real behaviour "
                    "(script, tokens, manifest shape, embedded copy, deployment in GetFS() order, version, every binding "
                    "method's contract method name+arity, live result decoding, differential replay per family); all distinct",
               states=mc["states"], transitions=mc["transitions"], traces_validated_against_impl=1 + len([r for r in extra if r["act"] == "diffreplay"]),
               s1=[mc], lines_by_kind=kinds, drift_steps=drift, byte_identical_regeneration={
                   "nef": sum(r["nef"] for r in regen), "manifest": sum(r["manifest"] for r in regen),
                   "binding": sum(r["binding"] for r in regen), "of": len(regen)},
               scripts_differing_from_sources=differs, exhaustive=True)
    V.write_evidence(pid, tier, seed, "translation_validation", cov, time.time() - t0, len(violations), ASSUME)
    return 1 if violations else 0
