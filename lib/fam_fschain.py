"""Family `fschain`: X01 (extension beyond the listed properties) - the COMPOSITION of the FS-chain contracts as they
interact inside single transactions. Spec spec/FSChain.tla (+ fragments FSChainBalance/Netmap/Container/NNS/NeoFSID/
Alphabet.tla), monitor spec/FSChainTrace.tla, driver harness/fschain (all real contracts deployed together)."""
import vcheck as V


class FSChain(V.Family):
    name = "fschain"
    props = ("X01",)
    driver_pkg = "fschain"
    monitor = ("FSChainTrace.tla", "FSChainTrace.cfg")
    step_keys = ("act", "S", "a", "b", "c", "v", "nm", "amt", "x", "ks")
    assume = [
        "neo-go v0.107.0 compiler/VM/ledger/neotest are faithful to the production platform (a FAULT discards the writes of every "
        "contract of the call tree, witness checks, storage.Find order = byte order of keys over a snapshot of the key set); "
        "notifications listed in the log of a FAULTed transaction are not events",
        "the harness maps model values injectively to real script hashes / ids / keys / amounts; amounts and fees are scaled by "
        "U in {1,1e8,2^70} and must divide exactly",
        "lock targets are fresh addresses and lock parents / container owners are ordinary accounts (quantifiers of C01/C05/C09); "
        "alias domains are free or owned by the Container contract; one storage node (in the network map since epoch 1) reports sizes",
        "deployment transactions are sent by the validators' account, which is the Alphabet account of the generated committees",
        "TLC 1.8.0 evaluates the property predicates correctly on the recorded steps",
    ]
    rule = ("one evaluation = one transaction executed on ALL real FS-chain contracts deployed together (NNS, Netmap x2, Balance, "
            "NeoFSID, Container, Reputation, Audit, Proxy, Alphabet, probe subscribers) and judged by the TLA+ monitor on the projected "
            "state of every contract (raw storage + read API); distinct_nontrivial counts distinct (action, outcome, signer class, "
            "#subscribers, rejecting probe, #locks expiring, #estimations swept, named, charge class, record target, changed) tuples")
    tiers = {
        "quick": dict(mc=[("FSChainMC.tla", "FSChainT_quick.cfg"), ("FSChainMC.tla", "FSChainF_quick.cfg"),
                          ("FSChainMC.tla", "FSChainW_quick.cfg"), ("FSChainMC.tla", "FSChainN_quick.cfg")], mc_timeout=600,
                      sim=("FSChainMC.tla", "FSChain_sim.cfg", 150, 31), sim_keep=150, nrand=300, shards=6),
        "thorough": dict(mc=[("FSChainMC.tla", "FSChainT_thorough.cfg"), ("FSChainMC.tla", "FSChainF_thorough.cfg"),
                             ("FSChainMC.tla", "FSChainW_thorough.cfg"), ("FSChainMC.tla", "FSChainN_thorough.cfg")], mc_timeout=1500,
                         sim=("FSChainMC.tla", "FSChain_sim.cfg", 2000, 31), sim_keep=2000, nrand=4000, shards=6),
    }

    def scenario_from_tlc(self, s):
        sc = dict(steps=[{k: st[k] for k in self.step_keys if k in st} for st in s["steps"]])
        if "n" in s:
            sc["n"] = s["n"]
        return sc

    def nontrivial_key(self, r, prev):
        if prev is None:
            return None
        o, p = r["obs"], prev["obs"]
        changed = any(o[k] != p[k] for k in o if k not in ("strayBal", "strayCn"))
        S = set(r["S"])
        sc = "alpha+cmt" if {"ALPHA", "CMT"} <= S else "alpha" if "ALPHA" in S else "cmt" if "CMT" in S else ("other" if S else "none")
        act = r["act"]
        extra = ()
        if act in ("tick", "tickB", "tickC", "tick2"):
            exp = sum(1 for a in p["acc"].values() if a["ex"] and a["parent"] != "nil" and r["x"] >= a["until"])
            swept = sum(1 for q in p["est"] if r["x"] - q["e"] > 4)
            rej = any(s in p["rej"] for s in p["subs"])
            extra = (len(p["subs"]), rej, min(exp, 3), min(swept, 3), r["x"] > p["epoch"])
        elif act == "put":
            f = p["fee"] + (p["afee"] if r["nm"] != "nil" else 0)
            need = f * p["na"]
            owner = "o2" if r["c"] == "c3" else "o1"
            b = p["acc"][owner]["bal"]
            cls = ("free" if need == 0 else "short1" if b == need - 1 else "short" if b < need else "exact" if b == need
                   else "over1" if b == need + 1 else "over")
            before = "dead" if r["c"] in p["tomb"] else ("live" if p["live"][r["c"]] != "none" else "new")
            extra = (r["nm"] != "nil", r["v"], cls, before, p["ptr"])
        elif act == "vote":
            extra = (r["a"], p["azNm"].get(r["a"]), len(r["ks"]), r["x"] == p["epoch"], r["x"] == p["epoch2"])
        elif act in ("repoint", "deployLate", "sub", "rej"):
            extra = (r["a"], p["ptr"])
        elif act in ("lock", "burn", "mint"):
            b = p["acc"].get(r["a"], {}).get("bal", 0)
            extra = (r["a"][0], "=bal" if r["amt"] == b else ">bal" if r["amt"] > b else "<bal")
        return (act, r["res"], sc, changed) + extra

    def extra_coverage(self, trace_all, flags_all):
        return dict(committee_sizes=sorted(set(r["n"] for r in trace_all if r["act"] == "reset")),
                    scales=sorted(set(r["scale"] for r in trace_all if r["act"] == "reset")),
                    sources=sorted(set(r["src"].split(":")[0] + ":" + r["src"].split(":")[-1] for r in trace_all if r["act"] == "reset")))


def run(pid, tier, seed, replay=None):
    V.NCPU = min(V.NCPU, 6)     # the machine is shared: at most 6 TLC workers
    return V.run_family(FSChain(), pid, tier, seed, replay)
