"""Family `upgrade`: C16 — spec/Upgrade.tla, monitor spec/UpgradeTrace.tla, driver harness/upgrade."""
import vcheck as V


class Upgrade(V.Family):
    name = "upgrade"
    props = ("C16",)
    driver_pkg = "upgrade"
    monitor = ("UpgradeTrace.tla", "UpgradeTrace.cfg")
    step_keys = ("act", "S", "v", "op")
    reset_keys = ("n", "src", "kind", "mode", "lv", "dump", "store")
    min_halt_share = 0.1   # most attempts of the matrix are rejections by construction (signer sets x version bounds)
    assume = [
        "neo-go v0.107.0 compiler/VM/ledger/neotest are faithful to the production platform (transaction atomicity on FAULT, witness checks, ContractManagement.update)",
        "the helper contract `shell` forwards update(nef, manifest, data) verbatim; synthetic storages are generated from model items by an injective encoding (documented key layouts, layouts of the two recorded dumps)",
        "a version argument is only combined with a storage of the layout era it names (versions outside the window with any storage)",
        "NNS NEP-11 accounting of top-level domains (totalSupply/balanceOf/tokensOf of a TLD owner) changes by design in 0.18 and is not judged; audit.list() is compared without the two legacy service keys",
        "TLC 1.8.0 evaluates the property predicates correctly on the recorded steps",
    ]
    rule = ("one evaluation = one update attempt (or a 21-block wait) executed on a real contract and judged by the TLA+ monitor; "
            "distinct_nontrivial counts distinct (kind, mode, outcome, signer class, version class, legacy notary state, layout era) tuples")
    tiers = {
        "quick": dict(mc=[("UpgradeMC.tla", "Upgrade_quick.cfg")], mc_timeout=600,
                      sim=("UpgradeMC.tla", "Upgrade_sim.cfg", 400, 6), sim_keep=260, nrand=60, shards=6, drive_timeout=900),
        "thorough": dict(mc=[("UpgradeMC.tla", "Upgrade_thorough.cfg")], mc_timeout=1800,
                         sim=("UpgradeMC.tla", "Upgrade_sim.cfg", 6000, 6), sim_keep=4000, nrand=1500, shards=12, drive_timeout=2400),
    }

    def scenario_from_tlc(self, s):
        return dict(kind=s["kind"], mode=s["mode"], lv=s["lv"], store=s["store"],
                    steps=[{k: st[k] for k in self.step_keys if k in st} for st in s["steps"]])

    def nontrivial_key(self, r, prev):
        if r["act"] != "update":
            return None
        S = set(r["S"])
        sc = "gate" if (("IRMAJ" in S) if r["kind"] in ("neofs", "processing") else ("CMT" in S)) else ("other" if S else "none")
        v, new, prv = r["v"], r["new"], r["prev"]
        vc = "<prev" if v < prv else ">=new" if v >= new else "=prev" if v == prv else "=new-1" if v == new - 1 else "0.%d" % ((v // 1000) % 1000)
        items = prev["obs"]["store"] if prev else []
        nf = next((i[3] for i in items if i[0] == "notary"), "absent")
        bl = next((i[3] for i in items if i[0] == "ballots"), "none")
        return (r["kind"], r["mode"], r["res"], sc, vc, nf, bl)

    def extra_coverage(self, trace_all, flags_all):
        resets = [r for r in trace_all if r["act"] == "reset"]
        return dict(committee_sizes=sorted(set(r["n"] for r in resets)),
                    kinds=sorted(set(r["kind"] for r in resets)),
                    modes={m: sum(1 for r in resets if r["mode"] == m) for m in ("shell", "real", "dump")},
                    successful_upgrades=sum(1 for r in trace_all if r["act"] == "update" and r["res"] == "HALT"))


def run(pid, tier, seed, replay=None):
    return V.run_family(Upgrade(), pid, tier, seed, replay)
