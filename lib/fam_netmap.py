"""Family `netmap`: C06, C07, C08 — spec/Netmap.tla (+ NetmapMC.tla), monitor spec/NetmapTrace.tla, driver harness/netmap.

C06/C07 use the candidate/tick/subscriber configurations (Netmap_*.cfg) and the general scenario generator,
C08 the snapshot-ring configurations (NetmapRing_*.cfg), the ring scenario generator and the systematic sweep
of resize paths built by the driver (VERIF_NSYS).  Every recorded step is judged for all three properties by
the same monitor; `./check <id>` reports the flags of <id>.
"""
import vcheck as V


class Netmap(V.Family):
    name = "netmap"
    props = ("C06", "C07", "C08")
    driver_pkg = "netmap"
    monitor = ("NetmapTrace.tla", "NetmapTrace.cfg")
    step_keys = ("act", "S", "k", "i", "s", "x", "c", "v", "blk")
    reset_keys = ("n", "bal", "src")
    assume = [
        "neo-go v0.107.0 compiler/VM/ledger/neotest are faithful to the production platform (transaction atomicity on FAULT, "
        "witness checks, notifications of FAULTed executions are not delivered)",
        "the harness maps model values injectively to real keys / node descriptions (binary blob, Node2 structure) and "
        "decodes every stored or returned item back; anything it cannot decode is reported, not dropped",
        "the state between two transactions of one block is observed on a replica of the block's execution (same scripts, "
        "signers and block, private storage layers as in block processing); the replica's outcomes are compared with the block's",
        "C06 is judged on histories without snapshot-count changes, C08 on histories whose ticks advance the epoch by one "
        "(the quantifiers of the properties)",
        "TLC 1.8.0 evaluates the property predicates correctly on the recorded steps",
    ]
    rule = ("one evaluation = one transaction executed on the real Netmap contract and judged by the TLA+ monitor; "
            "distinct_nontrivial counts distinct (action, outcome, signer class, key kind, placement of the key in the two candidate "
            "lists before the step, state argument class | epoch relation, subscribers, rejecting, shared block | resize direction, "
            "ring position class, elapsed vs count) tuples among steps that changed state or were refused for a reason other than "
            "a missing Alphabet witness")

    def __init__(self, pid, replay=False):
        ring = pid == "C08"
        if ring:
            self.tiers = {
                "quick": dict(mc=[("NetmapMC.tla", "NetmapRing_quick.cfg")], mc_timeout=600,
                              sim=("NetmapMC.tla", "NetmapRing_sim.cfg", 40, 46), sim_keep=40, nrand=15, shards=8,
                              env=dict(VERIF_NRING=20, VERIF_NSYS=150, VERIF_NLONG=8, VERIF_NLONGRING=45, VERIF_NMARATHON=2)),
                "thorough": dict(mc=[("NetmapMC.tla", "NetmapRing_thorough.cfg"), ("NetmapMC.tla", "NetmapSubs_quick.cfg")],
                                 mc_timeout=3000,
                                 sim=("NetmapMC.tla", "NetmapRing_sim.cfg", 400, 46), sim_keep=400, nrand=200, shards=16,
                                 env=dict(VERIF_NRING=200, VERIF_NSYS=-2, VERIF_NLONG=100, VERIF_NLONGRING=300, VERIF_NMARATHON=12),
                                 drive_timeout=3400, monitor_timeout=3400),
            }
        else:
            self.tiers = {
                "quick": dict(mc=[("NetmapMC.tla", "Netmap_quick.cfg"), ("NetmapMC.tla", "NetmapDeep_quick.cfg"),
                                  ("NetmapMC.tla", "NetmapSubs_quick.cfg")], mc_timeout=900,
                              sim=("NetmapMC.tla", "Netmap_sim.cfg", 100, 31), sim_keep=100, nrand=100, shards=8,
                              env=dict(VERIF_NRING=6, VERIF_NSYS=12, VERIF_NLONG=60, VERIF_NLONGRING=12, VERIF_NMARATHON=1)),
                "thorough": dict(mc=[("NetmapMC.tla", "Netmap_thorough.cfg"), ("NetmapMC.tla", "NetmapDeep_thorough.cfg"),
                                     ("NetmapMC.tla", "NetmapSubs_thorough.cfg")], mc_timeout=3000,
                                 sim=("NetmapMC.tla", "Netmap_sim.cfg", 2000, 31), sim_keep=2000, nrand=3000, shards=14,
                                 env=dict(VERIF_NRING=100, VERIF_NSYS=-1, VERIF_NLONG=800, VERIF_NLONGRING=150, VERIF_NMARATHON=8),
                                 drive_timeout=3400, monitor_timeout=3400),
            }

        if replay:
            # run_family passes the tier's env to the driver also when replaying: only the replayed scenario is wanted
            for t in self.tiers.values():
                t["env"] = dict(VERIF_NRING=0, VERIF_NSYS=0, VERIF_NLONG=0, VERIF_NLONGRING=0, VERIF_NMARATHON=0)

    def nontrivial_key(self, r, prev):
        o, po = r["obs"], (prev or r)["obs"]
        raw = lambda x: {k: v for k, v in x.items() if k != "api"}
        changed = prev is not None and raw(o) != raw(po)
        S = set(r["S"])
        alpha = "ALPHA" in S
        act = r["act"]
        if not changed and r["res"] == "FAULT" and not alpha and act not in ("setReject",):
            return None
        k = r["k"]
        if act in ("addPeer", "addPeerIR", "addNode", "updateState", "updateStateIR", "deleteNode"):
            kind = k[0]
            place = "-"
            if kind == "k":
                l, t = po["legacy"][k], po["structured"][k]
                place = ("L%d" % l["s"] if l["ex"] else "") + ("S%d" % t["s"] if t["ex"] else "") or "none"
            st = r["s"] if r["s"] in (1, 2, 3) else "bad"
            return (act, r["res"], alpha, k in S, kind, place, st, r["blk"])
        if act in ("newEpoch", "tickB"):
            d = r["x"] - po["epoch"]
            rel = "<" if d < 0 else "=" if d == 0 else "+1" if d == 1 else "jump"
            empt = lambda lst: not any(v["ex"] for v in lst.values())
            wrapped = po["epoch"] > 0 and po["slot"][(po["cur"] + 1) % po["cnt"]]["m"] != [] if po["cnt"] > 0 else False
            return (act, r["res"], alpha, rel, min(len(po["subs"]), 2), bool(set(po["subs"]) & set(po["rej"])), r["blk"], po["cnt"] == 0,
                    empt(po["legacy"]), empt(po["structured"]), wrapped, len(str(r["x"])) if rel != "<" else 0)
        if act == "updateSnapshotCount":
            c, old, cur, ep = r["x"], po["cnt"], po["cur"], po["epoch"]
            direction = "neg" if c < 0 else "zero" if c == 0 else "same" if c == old else "grow" if c > old else "shrink"
            return (act, r["res"], alpha, direction, "K2" if cur < c else "K1", "full" if ep >= old else "young",
                    "wrapped" if cur + 1 < old and ep >= old else "flat")
        if act == "subscribe":
            return (act, r["res"], alpha, r["c"][0], r["c"] in po["subs"])
        return (act, r["res"], alpha, r.get("v"))

    def extra_coverage(self, trace_all, flags_all):
        resets = [r for r in trace_all if r["act"] == "reset"]
        return dict(committee_sizes=sorted(set(r["n"] for r in resets)),
                    with_balance_subscriber=sum(1 for r in resets if r.get("bal") == 1),
                    sources=sorted(set(str(r.get("src", "")).split(":")[0] for r in resets)),
                    steps_inside_shared_blocks=sum(1 for r in trace_all if r.get("blk") == 1),
                    max_epoch=max([r["obs"]["epoch"] for r in trace_all] or [0]),
                    snapshot_counts_seen=sorted(set(r["obs"]["cnt"] for r in trace_all)))


def run(pid, tier, seed, replay=None):
    return V.run_family(Netmap(pid, replay is not None), pid, tier, seed, replay)
