"""Extension X02: unbounded arithmetic lemmas behind C01, C19 and C13, discharged symbolically by Apalache.

The TLC runs of the families are exhaustive only for small constants; these obligations hold for ALL integers:
  BalanceInd  SupplyIsSum /\\ NoNegative is an inductive invariant of the balance arithmetic (Init => Inv, Inv /\\ Next => Inv')
  EmitInd     the Alphabet emit split creates and loses no GAS for every balance g >= 0 and N in 1..7
  DivideInd   divideFundsEvenly's shares sum to the amount and differ by at most one for every amount and n in 1..9
plus one control that must FAIL (BalanceInd without the negative-amount guard of repair 0e58c91).
The lemmas are about the SPECIFICATION's arithmetic; the binding of that arithmetic to the code is what the trace monitors
of C01 / C19 / C13 establish on recorded executions.
"""
import os
import shutil
import subprocess
import tempfile
import time

import vcheck as V

OBLIGATIONS = [
    # name, module, args, expected outcome
    ("BalanceInd.Init=>IndInv", "BalanceInd.tla", ["--cinit=CInit", "--init=Init", "--inv=IndInv", "--length=0"], "NoError"),
    ("BalanceInd.IndInv/\\Next=>IndInv'", "BalanceInd.tla", ["--cinit=CInit", "--init=IndInit", "--inv=IndInv", "--length=1"], "NoError"),
    ("EmitInd.NoGasCreatedOrLost", "EmitInd.tla", ["--inv=NoGasCreatedOrLost", "--length=0"], "NoError"),
    ("EmitInd.TightShare", "EmitInd.tla", ["--inv=TightShare", "--length=0"], "NoError"),
    ("DivideInd.SharesExact", "DivideInd.tla", ["--inv=SharesExact", "--length=0"], "NoError"),
    ("CONTROL BalanceInd without the negative-amount guard must fail", "BalanceInd.tla",
     ["--cinit=CInitNoGuard", "--init=IndInit", "--inv=IndInv", "--length=1"], "Error"),
]


def apalache(module, args, timeout=900):
    d = tempfile.mkdtemp(prefix="apa-", dir=V.scratch())
    for f in os.listdir(os.path.join(V.SPEC, "apalache")):
        shutil.copy(os.path.join(V.SPEC, "apalache", f), d)
    try:
        p = subprocess.run(["apalache-mc", "check"] + args + [module], cwd=d, timeout=timeout, stdout=subprocess.PIPE,
                           stderr=subprocess.STDOUT, text=True)
    except subprocess.TimeoutExpired:
        return "Timeout"
    finally:
        pass
    out = p.stdout
    if "The outcome is: NoError" in out:
        return "NoError"
    if "The outcome is: Error" in out:
        return "Error"
    return "Failed: " + out[-300:]


def run_all():
    res = []
    for name, module, args, want in OBLIGATIONS:
        t0 = time.time()
        got = apalache(module, args)
        res.append(dict(obligation=name, cmd="apalache-mc check %s %s" % (" ".join(args), module), expected=want, outcome=got,
                        ok=(got == want), wall_s=round(time.time() - t0, 1)))
        V.log("apalache %s: %s (expected %s)" % (name, got, want))
    return res


def run(pid, tier, seed, replay=None):
    t0 = time.time()
    res = run_all()
    bad = [r for r in res if not r["ok"]]
    proofs = [r for r in res if r["expected"] == "NoError"]
    cov = dict(obligations=len(proofs), discharged=sum(1 for r in proofs if r["ok"]),
               checker_cmd="apalache-mc check --init=... --inv=... --length=0|1 <module> (spec/apalache/*.tla)",
               trusted_base=["Apalache 0.58.0", "Z3 (Apalache's SMT back end)", "SANY"],
               evaluations=len(res), distinct_nontrivial=len(res), samples=res,
               rule="one obligation = one symbolic Apalache query over unbounded integers; the control query must fail")
    V.write_evidence(pid, tier, seed, "proof", cov, time.time() - t0, 0, [
        "the lemmas are about the arithmetic of the specifications; the trace monitors of C01/C19/C13 bind that arithmetic to the code",
        "account set of 4 (BalanceInd), N in 1..7 (EmitInd), n in 1..9 (DivideInd) are enumerated; amounts are arbitrary integers"])
    if bad:
        # a lemma that does not hold is a specification-level problem, never a verdict about the code
        raise V.Inconclusive("Apalache obligations not as expected: %s" % [(r["obligation"], r["outcome"]) for r in bad])
    return 0
