"""Family `balance`: C01, C02, C09 — spec/Balance.tla, monitor spec/BalanceTrace.tla, driver harness/balance."""
import vcheck as V


class Balance(V.Family):
    name = "balance"
    props = ("C01", "C02", "C09")
    driver_pkg = "balance"
    monitor = ("BalanceTrace.tla", "BalanceTrace.cfg")
    step_keys = ("act", "S", "a", "b", "amt", "x", "d")
    reset_keys = ("n", "scale", "src", "nf", "nl")
    assume = [
        "neo-go v0.107.0 compiler/VM/ledger/neotest are faithful to the production platform (transaction atomicity on FAULT, witness checks)",
        "the harness maps model values injectively to real script hashes/amounts; amounts are scaled by U in {1,1e12,2^64,2^200} and must divide exactly",
        "Alphabet-only methods receive 20-byte addresses and lock targets are fresh addresses (quantifier of C01); for C09, whose quantifier does not ask for freshness, a share of the scenarios also locks onto lock addresses that hold an ordinary entry (never onto an existing lock) - those traces are judged by the C09 predicates only",
        "TLC 1.8.0 evaluates the property predicates correctly on the recorded steps",
    ]
    rule = ("one evaluation = one transaction executed on the real Balance contract and judged by the TLA+ monitor; "
            "distinct_nontrivial counts distinct (action,outcome,return,signer class,amount class,address kinds,#notifications,"
            "state changed) tuples among steps that changed state or were refused for a reason other than a missing Alphabet witness")
    tiers = {
        "quick": dict(mc=[("BalanceMC.tla", "Balance_quick.cfg"), ("BalanceMC.tla", "Balance_nested.cfg"),
                          ("BalanceMC.tla", "Balance_nonfresh.cfg")], mc_timeout=600,
                      sim=("BalanceMC.tla", "Balance_sim.cfg", 60, 25), sim_keep=150, nrand=150, shards=4),
        "thorough": dict(mc=[("BalanceMC.tla", "Balance_thorough.cfg"), ("BalanceMC.tla", "Balance_nested.cfg"),
                             ("BalanceMC.tla", "Balance_nonfresh.cfg")], mc_timeout=3000,
                         sim=("BalanceMC.tla", "Balance_sim.cfg", 1500, 25), sim_keep=4000, nrand=6000, shards=14),
    }

    def nontrivial_key(self, r, prev):
        changed = prev is not None and (r["obs"]["acc"] != prev["obs"]["acc"] or r["obs"]["supply"] != prev["obs"]["supply"])
        S = set(r["S"])
        sc = "alpha" if "ALPHA" in S else ("holder" if r["a"] in S else ("other" if S else "none"))
        if not changed and r["res"] == "FAULT" and sc != "alpha" and r["act"] not in ("transfer", "transferVia"):
            return None
        amt = r["amt"]
        ac = "neg" if amt < 0 else "zero" if amt == 0 else "pos"
        if prev is not None and r["a"] in prev["obs"]["api"]:
            b = prev["obs"]["api"][r["a"]]
            if amt == b:
                ac += "=bal"
            elif amt > b:
                ac += ">bal"
        kind = lambda a: a[0] if a[0] in "ul" else a
        return (r["act"], r["res"], r["ret"], sc, ac, kind(r["a"]), kind(r["b"]), len(r["ntf"]), changed)

    def extra_coverage(self, trace_all, flags_all):
        # the unbounded counterpart of S1 for the arithmetic part of C01 (Apalache, spec/apalache/BalanceInd.tla);
        # informative: a failure here is reported in the evidence, it is no verdict about the code
        lemma = []
        try:
            import fam_lemmas
            for name, module, args, want in fam_lemmas.OBLIGATIONS:
                if module == "BalanceInd.tla":
                    got = fam_lemmas.apalache(module, args, timeout=300)
                    lemma.append(dict(obligation=name, expected=want, outcome=got))
        except Exception as e:  # noqa
            lemma.append(dict(error=str(e)[:200]))
        return dict(unbounded_inductive_invariant_apalache=lemma,committee_sizes=sorted(set(r["n"] for r in trace_all if r["act"] == "reset")),
                    scales=sorted(set(r["scale"] for r in trace_all if r["act"] == "reset")))


def many_locks_pass(F, pid, seed):
    """C09 only: 40 lock accounts, 37 of them expiring at ONE tick (a bound on the work of one tick, a page size, a counter
    width would show here), judged by the same monitor with the 40-address configuration."""
    import json
    import os
    binary, _ = V.go_build_test(F.driver_pkg)
    out = os.path.join(V.scratch(), "trace_many.ndjson")
    V.go_drive(binary, [dict(VERIF_OUT=out, VERIF_SCEN="", VERIF_SEED=seed, VERIF_NRAND=0, VERIF_SHARD=0, VERIF_NSHARD=1,
                             VERIF_MANY="1")], timeout=600)
    tr = V.read_trace(out)
    flags, done, _ = V.tlc_monitor(F.monitor[0], "BalanceTraceMany.cfg", out, timeout=900)
    if done != len(tr):
        raise V.Inconclusive("many-locks pass: monitor consumed %s of %d lines" % (done, len(tr)))
    by = {}
    for r in tr:
        by.setdefault(str(r["t"]), []).append(r)

    def scenario_of(tid):
        rs = by[str(tid)]
        sc = {k: rs[0][k] for k in F.reset_keys if k in rs[0]}
        sc["steps"] = [{k: r[k] for k in F.step_keys if k in r} for r in rs[1:]]
        return sc
    violations, _, drift = V.decide(pid, flags, tr, V.known_findings(), seed, scenario_of)
    V.log("many-locks pass: %d steps with 40 lock accounts judged, %d flags" % (len(tr), len(flags)))
    evp = os.path.join(V.EVID, pid + ".json")
    if os.path.exists(evp):
        ev = json.load(open(evp))
        ev["coverage"]["many_locks_pass"] = dict(lock_accounts=40, expiring_at_one_tick=37, steps=len(tr), flags=len(flags), drift=drift)
        ev["violations"] = ev.get("violations", 0) + len(violations)
        json.dump(ev, open(evp, "w"), indent=1, sort_keys=True)
    return 1 if violations else 0


def run(pid, tier, seed, replay=None):
    F = Balance()
    rc = V.run_family(F, pid, tier, seed, replay)
    if rc == 0 and pid == "C09" and replay is None:
        rc = many_locks_pass(F, pid, seed)
    return rc
