"""Family `balance`: C01, C02, C09 — spec/Balance.tla, monitor spec/BalanceTrace.tla, driver harness/balance."""
import collections
import json
import os
import time

import vcheck as V

PROPS = ("C01", "C02", "C09")
LEVEL = "model_checking"

ASSUME = [
    "neo-go v0.107.0 compiler/VM/ledger/neotest are faithful to the production platform (transaction atomicity on FAULT, witness checks)",
    "the harness maps model values injectively to real script hashes/amounts; amounts are scaled by U in {1,1e12,2^64,2^200} and must divide exactly",
    "Alphabet-only methods receive 20-byte addresses and lock targets are fresh addresses (quantifier of the property)",
    "TLC 1.8.0 evaluates the property predicates correctly on the recorded steps",
]

TIERS = {
    "quick": dict(mc_cfg="Balance_quick.cfg", sim_num=60, sim_keep=150, nrand=150, shards=4, mc_timeout=600),
    "thorough": dict(mc_cfg="Balance_thorough.cfg", sim_num=1500, sim_keep=4000, nrand=6000, shards=14, mc_timeout=3000),
}


def nontrivial_key(r, prev):
    """A step is non-trivial if it changed the state or was refused for a reason other than the missing Alphabet
    witness; distinct = distinct (action, outcome, signer class, amount class, address class)."""
    changed = prev is not None and (r["obs"]["acc"] != prev["obs"]["acc"] or r["obs"]["supply"] != prev["obs"]["supply"])
    S = set(r["S"])
    sc = "alpha" if "ALPHA" in S else ("holder" if r["a"] in S else ("other" if S else "none"))
    if not changed and r["res"] == "FAULT" and sc != "alpha" and r["act"] not in ("transfer", "transferVia"):
        return None
    amt = r["amt"]
    ac = "neg" if amt < 0 else "zero" if amt == 0 else "pos"
    if prev is not None and r["a"] in prev["obs"]["api"]:
        b = prev["obs"]["api"][r["a"]]
        if amt == b:
            ac += "=bal"
        elif amt > b:
            ac += ">bal"
    kind = lambda a: a[0] if a[0] in "ul" else a
    return (r["act"], r["res"], r["ret"], sc, ac, kind(r["a"]), kind(r["b"]), len(r["ntf"]), changed)


def run(pid, tier, seed, replay=None):
    t0 = time.time()
    cfg = TIERS[tier]
    known = V.known_findings()
    # ---- S1
    if replay is None:
        mc = V.tlc_modelcheck("BalanceMC.tla", cfg["mc_cfg"], timeout=cfg["mc_timeout"], workers=min(V.NCPU, 12))
        V.log("S1 %s: %d distinct states, %d generated, %.0fs" % (cfg["mc_cfg"], mc["states"], mc["transitions"], mc["wall_s"]))
        # ---- S2
        scs, dt = V.tlc_simulate("BalanceMC.tla", "Balance_sim.cfg", cfg["sim_num"], 25, seed)
        # every printed history is a behaviour of the Spec; keep a seeded sample, all distinct
        uniq = {json.dumps(s["steps"], sort_keys=True): s for s in scs}
        keys = sorted(uniq)
        import random
        random.Random(seed).shuffle(keys)
        scs = [dict(steps=[{k: st[k] for k in ("act", "S", "a", "b", "amt", "x")} for st in uniq[k]["steps"]]) for k in keys[:cfg["sim_keep"]]]
        V.log("S2: %d TLC-generated scenarios (%.0fs)" % (len(scs), dt))
        nrand = cfg["nrand"]
    else:
        mc = None
        rp = json.load(open(replay))
        scs = [rp["scenario"]]
        nrand = 0
    scen_path = os.path.join(V.scratch(), "scenarios.json")
    json.dump(scs, open(scen_path, "w"))
    # ---- S3
    binary, dt = V.go_build_test("balance")
    V.log("driver built from %s working tree (%.0fs)" % (V.REPO, dt))
    nsh = 1 if replay else cfg["shards"]
    envs = [dict(VERIF_OUT=os.path.join(V.scratch(), "trace%d.ndjson" % i), VERIF_SCEN=scen_path, VERIF_SEED=seed,
                 VERIF_NRAND=nrand, VERIF_SHARD=i, VERIF_NSHARD=nsh, VERIF_NOTRAPS="1" if replay else "") for i in range(nsh)]
    stats, dt = V.go_drive(binary, envs)
    acts = collections.Counter()
    for s in stats:
        acts.update(s["acts"])
    V.log("S3: %d steps executed on the real contract (%.0fs)" % (sum(s["lines"] for s in stats), dt))
    # ---- S4 (one monitor run per shard, sequentially: each is a single linear behaviour)
    flags_all, trace_all, nlines = [], [], 0
    import concurrent.futures as cf
    def mon(i):
        p = os.path.join(V.scratch(), "trace%d.ndjson" % i)
        tr = V.read_trace(p)
        if not tr:
            return [], tr
        fl, done, dt = V.tlc_monitor("BalanceTrace.tla", "BalanceTrace.cfg", p)
        if done != len(tr):
            raise V.Inconclusive("S4: monitor consumed %s of %d lines of shard %d" % (done, len(tr), i))
        return fl, tr
    with cf.ThreadPoolExecutor(max_workers=min(nsh, 8)) as ex:
        results = list(ex.map(mon, range(nsh)))
    scen_of = {}
    for fl, tr in results:
        base = len(trace_all)
        for f in fl:
            f["line"] += base
        flags_all += fl
        trace_all += tr
    by_trace = collections.defaultdict(list)
    for r in trace_all:
        by_trace[str(r["t"])].append(r)
    def scenario_of(tid):
        rs = by_trace[str(tid)]
        return dict(n=rs[0]["n"], scale=rs[0]["scale"], src=rs[0].get("src", ""),
                    steps=[{k: r[k] for k in ("act", "S", "a", "b", "amt", "x")} for r in rs[1:]])
    # vacuity guards
    halts = sum(v for k, v in acts.items() if k.endswith("|HALT") and not k.startswith("reset"))
    total = sum(v for k, v in acts.items() if not k.startswith("reset"))
    if replay is None and (total == 0 or halts * 5 < total):
        raise V.Inconclusive("too few successful steps (%d of %d): the harness is not exercising the contract" % (halts, total))
    violations, known_seen, drift = V.decide(pid, flags_all, trace_all, known, seed, scenario_of)
    # ---- evidence
    distinct = set()
    prev = None
    for r in trace_all:
        if r["act"] == "reset":
            prev = r
            continue
        k = nontrivial_key(r, prev)
        if k:
            distinct.add(k)
        prev = r
    samples = []
    for tid in list(by_trace)[:2]:
        samples.append(dict(trace=tid, n=by_trace[tid][0]["n"], scale=by_trace[tid][0]["scale"], src=by_trace[tid][0].get("src"),
                            steps=[V.compact_step(r) for r in by_trace[tid][1:13]]))
    cov = dict(states=mc["states"] if mc else 1, transitions=mc["transitions"] if mc else 1,
               traces_validated_against_impl=len(by_trace), evaluations=len(trace_all) - len(by_trace),
               distinct_nontrivial=len(distinct),
               rule="one evaluation = one transaction executed on the real Balance contract and judged by the TLA+ monitor; "
                    "distinct_nontrivial counts distinct (action,outcome,return,signer class,amount class,address kinds,#notifications,state changed) "
                    "tuples among steps that changed state or were refused for a reason other than a missing Alphabet witness",
               samples=samples, exhaustive=False,
               s1=mc, actions=dict(acts), drift_steps=drift,
               known_findings_seen=sorted(known_seen), tlc_scenarios=len(scs), random_scenarios=nrand,
               committee_sizes=sorted(set(r["n"] for r in trace_all if r["act"] == "reset")),
               scales=sorted(set(r["scale"] for r in trace_all if r["act"] == "reset")),
               monitor_flags_total=len([f for f in flags_all if f["prop"] == pid]))
    if replay is None:
        V.write_evidence(pid, tier, seed, LEVEL, cov, time.time() - t0, len(violations), ASSUME)
    return 1 if violations else 0
