"""Family `nns`: C10, C11, C12 and the extension X03 (registration price) — spec/NNS.tla, monitor spec/NNSTrace.tla,
driver harness/nns."""
import os

import vcheck as V


class NNS(V.Family):
    name = "nns"
    props = ("C10", "C11", "C12", "X03")
    driver_pkg = "nns"
    monitor = ("NNSTrace.tla", "NNSTrace.cfg")
    step_keys = ("act", "S", "via", "n", "o", "m", "x", "ty", "d", "aux")
    reset_keys = ("cn", "src")
    assume = [
        "neo-go v0.107.0 compiler/VM/ledger/neotest are faithful to the production platform (transaction atomicity on FAULT, "
        "witness checks, block time as seen by runtime.GetTime, test invocations at top timestamp + 1 ms)",
        "model time: 1 unit = 1/4 year = 7 884 000 000 ms; every block gets a strictly increasing sub-unit offset, so "
        "`now >= expiration` in ms coincides with the comparison in units at t = exp-1, exp, exp+1",
        "only well-formed names and record data are used (syntax is C18); the model TLDs t/u stand for ttt/uuu",
        "owners are three single-key users, the committee account and one helper contract with onNEP11Payment "
        "(harness/contracts/nnsproxy)",
        "registration price (extension X03): prices are counted in price units (16 units = 1 GAS, the remainder mod 16 = "
        "fractions of 10^-8 GAS), so 0, 1, the default (10 GAS), maxRegisterPrice (10 000 GAS) and maxRegisterPrice + 1 are "
        "exact; a transaction of the driver carries a system fee of at most 5 000 GAS (the ledger's MaxBlockSystemFee is "
        "9 000 GAS), so a register / renew that has to burn more FAULTs (GasCap of the Spec); the GAS a call consumes "
        "besides the burnt price is far below 10 GAS and burns within 10 GAS below the cap are not generated",
        "TLC 1.8.0 evaluates the property predicates correctly on the recorded steps",
    ]
    rule = ("one evaluation = one transaction (or one time advance) executed on the real NameService contract, followed by every "
            "read method for every model name, judged by the TLA+ monitor; distinct_nontrivial counts distinct (action, outcome, "
            "return, signer class, name level, record type, via-contract, state changed) tuples")
    tiers = {
        "quick": dict(mc=[("NNSMC.tla", "NNS_quick.cfg")], mc_timeout=900,
                      sim=("NNSMC.tla", "NNS_sim.cfg", 150, 31), sim_keep=60, nrand=140, shards=6),
        "thorough": dict(mc=[("NNSMC.tla", "NNS_thorough.cfg"), ("NNSMC.tla", "NNS_thorough_own.cfg"),
                             ("NNSMC.tla", "NNS_thorough_rec.cfg")], mc_timeout=3000,
                         sim=("NNSMC.tla", "NNS_sim.cfg", 3000, 31), sim_keep=1500, nrand=3500, shards=14),
    }

    def nontrivial_key(self, r, prev):
        if r["act"] == "tick":
            return None
        o, p = r["obs"], (prev or r)["obs"]
        changed = any(o[k] != p[k] for k in ("ns", "rec", "soa", "idx", "supply", "roots", "price"))
        S = set(r["S"])
        st = p["ns"].get(r["n"])
        if st and st["ex"] and (st["owner"] in S or (st["owner"] == "kc" and r["via"])):
            sc = "owner"
        elif st and st["ex"] and st["admin"] != "nil" and (st["admin"] in S or (st["admin"] == "kc" and r["via"])):
            sc = "admin"
        elif "CMT" in S:
            sc = "cmt"
        else:
            sc = "other" if S else "none"
        pc = ""    # price class of the steps the price matters for (extension X03)
        if r["act"] in ("setPrice", "register", "renew"):
            pc = "zero" if p["price"] == 0 else "usable" if p["price"] <= 80000 else "beyond"
        if r["act"] == "setPrice":
            pc += "/neg" if r["x"] < 0 else "/over" if r["x"] > 160000 else "/in"
        return (r["act"], r["res"], r["ret"], sc, r["n"].count(".") + 1, r["ty"], r["via"], changed, pc)

    def extra_coverage(self, trace_all, flags_all):
        return dict(committee_sizes=sorted(set(r["cn"] for r in trace_all if r["act"] == "reset")),
                    sources=sorted(set(r["src"].split(":")[0] for r in trace_all if r["act"] == "reset")))


def run(pid, tier, seed, replay=None):
    F = NNS()
    if os.environ.get("NNS_NOTRAPS"):  # measurement knob: generated scenarios only (no hand-written traps)
        F.tiers = {k: dict(v, env={"VERIF_NOTRAPS": "1"}) for k, v in F.tiers.items()}
    return V.run_family(F, pid, tier, seed, replay)
