"""Family `access`: C03 — spec/Access.tla (+AccessMC, AccessTrace), driver harness/access.

The family is a matrix rather than a random walk, so the pipeline differs from V.run_family in S1/S2:
  S1+S2  ONE exhaustive TLC run of AccessMC checks the property predicates on every cell of
         Methods x signer-set descriptors x committee sizes ({1,3,4,7} quick, 1..7 thorough) and prints the cells with the expected kind of
         outcome (`SCEN` lines) - the printed table IS the test matrix
  S3     harness/access executes the cells of one committee size per process on one chain with all eleven contracts
         (quick: n = 3 and n = 4 completely (an odd and an even size: threshold formulas differ in parity) + seeded samples of the
         methods on n = 1 (every 2nd), n = 6 (every 3rd) and n = 7 (every 4th);
         thorough: n = 1..7 completely)
  S4     spec/AccessTrace.tla judges every recorded cell (C03_Inert / C03_Succeeds / C03_SafeInert / C03_Verify) and
         compares it with the Spec action (drift)
"""
import collections
import concurrent.futures as cf
import json
import os
import re
import time

import vcheck as V

PID = "C03"
MONITOR = ("AccessTrace.tla", "AccessTrace.cfg")
STEP_KEYS = ("act", "c", "m", "a", "v", "safe", "cls", "S", "n", "kind")
ASSUME = [
    "neo-go v0.107.0 compiler/VM/ledger/neotest are faithful to the production platform (witness verification, atomicity on FAULT, read-only call flags of safe methods)",
    "the authorisation class of a method is what its doc comment says (DESIGN.md Appendix A); where the comment is silent about witnesses (most NNS methods, netmap.updateSnapshotCount) the class of Appendix A / C11 is used",
    "`world` = raw storage + update counter + NEF checksum of every deployed (non-native) contract; `tok` = native GAS/NEO balances of all contracts, multi-signature accounts, designated keys and scenario accounts plus the NEO votes of the contracts; the fee payer and the GAS of the validators' single-key accounts (network fees, block rewards) are excluded",
    "the NeoFS contract runs in notary mode and stores the chain committee's keys; the keys designated NeoFSAlphabet are a separate set of n keys",
    "update is exercised on a separate deployment of the same sources compiled with the version constant lowered by one (the version check makes an update to the same version fail for everybody)",
    "TLC 1.8.0 evaluates the property predicates correctly on the recorded steps",
]
RULE = ("one evaluation = one cell (method, signer set, committee size) executed as a real transaction on the real contracts and judged by "
        "the TLA+ monitor; distinct_nontrivial counts distinct (contract, method, arity, variant, normalised signer set, n, outcome) tuples among "
        "mutating-method cells and verify cells")
TIERS = {
    "quick": dict(cfg="Access_quick.cfg", runs=[(3, 0), (4, 0), (1, 2), (6, 3), (7, 4)], mc_timeout=600, drive_timeout=1500),
    "thorough": dict(cfg="Access_thorough.cfg", runs=[(n, 0) for n in (1, 2, 3, 4, 5, 6, 7)], mc_timeout=900, drive_timeout=3000),
}


def doc_facts():
    """Facts about the doc comments of the working tree that decide an authorisation class (Access!ClassOf)."""
    facts = []
    try:
        src = open(os.path.join(V.REPO, "contracts", "balance", "contract.go")).read()
        m = re.search(r"((?:^//.*\n)+)func TransferX\(", src, re.M)
        if m and re.search(r"invoked\s+by\s+the\s+account\s+owner\s+or", m.group(1).replace("//", " ")):
            facts.append("balance.transferX:owner-or-alphabet")
    except OSError:
        pass
    return facts


def dev_switches(facts):
    """Deviation switches of Access.tla that describe the code of the working tree (they only steer the DRIFT report:
    the monitor compares with the Spec *as the code is*, the properties never look at them)."""
    dev = []
    if "balance.transferX:owner-or-alphabet" in facts:
        dev.append("TransferXOwnerDenied")
    try:
        src = open(os.path.join(V.REPO, "contracts", "neofs", "contract.go")).read()
        m = re.search(r"func SetConfig\(.*?\n}\n", src, re.S)
        if m and re.search(r"InnerRingInvoker\(alphabet\)\s*if len\(key\) == 0", m.group(0)):
            dev.append("StrangerVotes")
    except OSError:
        pass
    return dev


def with_docfacts(cfg_name, facts):
    text = open(os.path.join(V.spec_dir(), cfg_name)).read()
    return re.sub(r"(?m)^\s*DocFacts\s*=.*$", "  DocFacts = {%s}" % ", ".join(json.dumps(f) for f in facts), text)


def matrix(cfg_name, facts, timeout):
    """S1+S2: exhaustive TLC run; returns (mc stats, cells)."""
    out, dt = V.tlc("AccessMC.tla", cfg_name, workers=1, timeout=timeout, ok_codes=(0, 10, 11, 12, 13, 14),
                    cfg_text=with_docfacts(cfg_name, facts))
    m = re.search(r"(\d+) states generated, (\d+) distinct states found", out)
    if "No error has been found" not in out or not m:
        tail = "\n".join(l for l in out.splitlines() if not l.startswith(("Parsing", "Semantic", "Linting", '"SCEN')))[-3000:]
        raise V.Inconclusive("S1: TLC did not accept AccessMC/%s (specification-level problem, not a verdict):\n%s" % (cfg_name, tail))
    cells = {}
    for line in out.splitlines():
        line = line.strip()
        if line.startswith('"SCEN '):
            c = json.loads(json.loads(line)[5:])
            c["S"] = sorted(c["S"])
            cells[json.dumps(c, sort_keys=True)] = c
    mc = dict(states=int(m.group(2)), transitions=int(m.group(1)), wall_s=round(dt, 1), cmd="tlc -config %s AccessMC.tla" % cfg_name,
              module="AccessMC.tla", cfg=cfg_name, cells=len(cells))
    return mc, [cells[k] for k in sorted(cells)]


def run(pid, tier, seed, replay=None):
    t0 = time.time()
    cfg = TIERS[tier]
    known = V.known_findings()
    facts = doc_facts()
    mcs = []
    if replay is None:
        mc, cells = matrix(cfg["cfg"], facts, cfg["mc_timeout"])
        V.log("S1 AccessMC/%s: %d distinct states, %d generated, %.0fs; S2: matrix of %d cells (doc facts: %s)" %
              (cfg["cfg"], mc["states"], mc["transitions"], mc["wall_s"], len(cells), facts or "none"))
        mcs.append(mc)
        runs = cfg["runs"]
    else:
        rp = json.load(open(replay))
        cells = rp["scenario"]["steps"]
        runs = [(rp["scenario"]["n"], 0)]
    scen_path = os.path.join(V.scratch(), "scenarios.json")
    json.dump(cells, open(scen_path, "w"))
    binary, dt = V.go_build_test("access")
    V.log("driver harness/access built against %s working tree (%.0fs)" % (V.REPO, dt))
    envs = []
    for i, (n, sample) in enumerate(runs):
        envs.append(dict(VERIF_OUT=os.path.join(V.scratch(), "trace%d.ndjson" % i), VERIF_SCEN=scen_path, VERIF_SEED=seed,
                         VERIF_TIER=tier, VERIF_ACCESS_N=n, VERIF_ACCESS_SAMPLE=sample, VERIF_SHARD=i, VERIF_NSHARD=len(runs), VERIF_NOTRAPS="1" if replay else ""))
    stats, dt = V.go_drive(binary, envs, timeout=cfg["drive_timeout"])
    acts = collections.Counter()
    for s in stats:
        acts.update(s.get("acts", {}))
    V.log("S3: %d lines recorded on the real code (%.0fs)" % (sum(s["lines"] for s in stats), dt))
    dev = dev_switches(facts)
    consts = {"DocFacts": "{%s}" % ", ".join(json.dumps(f) for f in facts), "Dev": "{%s}" % ", ".join(json.dumps(f) for f in dev)}

    def mon(i):
        p = os.path.join(V.scratch(), "trace%d.ndjson" % i)
        tr = V.read_trace(p)
        fl, done, _ = V.tlc_monitor(MONITOR[0], MONITOR[1], p, constants=consts, timeout=1800)
        if done != len(tr):
            raise V.Inconclusive("S4: monitor consumed %s of %d lines of run %d" % (done, len(tr), i))
        return fl, tr
    with cf.ThreadPoolExecutor(max_workers=min(len(runs), 6)) as ex:
        results = list(ex.map(mon, range(len(runs))))
    flags_all, trace_all = [], []
    for fl, tr in results:
        base = len(trace_all)
        for f in fl:
            f["line"] += base
        flags_all += fl
        trace_all += tr
    V.log("S4: %d recorded lines judged by the TLA+ monitor %s, %d flags" % (len(trace_all), MONITOR[0], len(flags_all)))

    # cells are independent one-step scenarios; the flags of one method on one chain form a "trace" so that only the
    # first offending cell of the method is reported (the replay file holds that cell)
    cell_of = {}
    for f in sorted(flags_all, key=lambda f: f["line"]):
        r = trace_all[f["line"] - 1]
        f["trace"] = "n%s-%s.%s-%s%s" % (r["t"], r["c"], r["m"], r["a"], r["v"])
        f["act"] = "%s.%s" % (r["c"], r["m"])
        if f["prop"] == pid:
            cell_of.setdefault(f["trace"], r)

    def scenario_of(tid):
        r = cell_of[tid]
        return dict(n=r["n"], steps=[dict({k: r[k] for k in STEP_KEYS if k in r}, S=r["S0"])])
    judged = [r for r in trace_all if r["act"] in ("invoke", "verify")]
    halts = sum(1 for r in judged if r["res"] == "HALT")
    succeed = [r for r in judged if r["kind"] == "succeed"]
    if replay is None:
        if not judged or halts < 0.2 * len(judged):
            raise V.Inconclusive("too few successful steps (%d of %d): the harness is not exercising the code" % (halts, len(judged)))
        if not succeed or sum(1 for r in succeed if r["res"] == "HALT" and (r["wch"] or r["tch"] or r["ntf"])) < 0.5 * len(succeed):
            raise V.Inconclusive("fewer than half of the must-succeed cells had a visible effect: the canonical scenarios are broken")
    violations, known_seen, drift = V.decide(pid, flags_all, trace_all, known, seed, scenario_of)
    uncovered = sorted(set("%s.%s/%d%s" % (r["c"], r["m"], r["a"], ("/" + r["v"]) if r["v"] else "") for r in trace_all if r["act"] == "uncovered"))
    for u in uncovered:
        print("UNCOVERED method=%s (in the compiled manifest, no row in Access!Methods or no canonical scenario)" % u)
    distinct = set((r["c"], r["m"], r["a"], r["v"], tuple(r["S"]), r["n"], r["res"], r["ret"], r["wch"], r["tch"], r["ntf"], r.get("valid"))
                   for r in judged if not r["safe"] or r["act"] == "verify")
    kinds = collections.Counter("%s|%s" % (r["kind"], r["res"]) for r in judged)
    samples = []
    for n in sorted(set(r["n"] for r in judged))[:2]:
        rs = [r for r in judged if r["n"] == n and not r["safe"]][:12]
        samples.append(dict(trace=n, setup=dict(n=n), steps=[V.compact_step(r, STEP_KEYS + ("res", "ret", "wch", "tch", "nntf")) for r in rs]))
    cov = dict(states=sum(m["states"] for m in mcs) or 1, transitions=sum(m["transitions"] for m in mcs) or 1,
               traces_validated_against_impl=len(runs), evaluations=len(judged), distinct_nontrivial=len(distinct), rule=RULE,
               samples=samples, exhaustive=(tier == "thorough"), s1=mcs, actions=dict(acts), drift_steps=drift,
               known_findings_seen=sorted(known_seen), matrix_cells=len(cells), cells_by_kind_and_result=dict(kinds),
               committee_sizes=sorted(set(r["n"] for r in judged)), uncovered_methods=uncovered,
               methods_in_manifests=len(set((r["c"], r["m"], r["a"]) for r in trace_all if r["act"] in ("declared", "uncovered"))),
               methods_exercised=len(set((r["c"], r["m"], r["a"]) for r in judged)), doc_facts=facts, deviation_switches_in_monitor=dev,
               monitor_flags_total=len([f for f in flags_all if f["prop"] == pid]))
    if replay is None:
        V.write_evidence(pid, tier, seed, "model_checking", cov, time.time() - t0, len(violations), ASSUME)
    return 1 if violations else 0
