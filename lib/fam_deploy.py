"""Family `deploy`: C13 - spec/Deploy*.tla, monitor spec/DeployTrace.tla, driver harness/deploy.

The system under test is ordinary concurrent Go (deploy.Deploy), so the pipeline differs from run_family:

S1  TLC: DeployHelpersMC (all small instances of the pure helpers), DeployMC / DeployNotaryMC / DeploySyncMC
    (design-level protocol, safety + liveness under weak fairness).  Configurations named *_code carry the
    code's literal arithmetic (deviation switches on) and are EXPECTED to produce a counterexample: that is a
    prediction about the code, confirmed or refuted by S3/S4 - never a verdict.
S2  the helper table printed by TLC; seeded end-to-end schedules (start order, pauses, absences, cancel/restart)
S3  harness/deploy: TestDrive evaluates the real helpers; TestE2E runs the unmodified deploy.Deploy for every
    committee member on one in-process chain, one OS process per scenario, and records the chain projection
S4  spec/DeployTrace.tla judges every recorded line
"""
import collections
import concurrent.futures as cf
import json
import os
import random
import re
import subprocess
import time

import vcheck as V

PID = "C13"

ASSUME = [
    "neo-go v0.107.0 (ledger, native contracts, notary service, RPC server/client) is faithful to the production platform; "
    "there is no consensus service in the sandbox: blocks are produced by the harness from the node's mempool and signed with "
    "the validators' multi-signature (equivalent for the ledger)",
    "one in-process node serves all committee members; the members' notary requests meet in that node's pool",
    "base64 and SHA-256 of the Go standard library are trusted (the codec monitor checks layout, round trip and checksum handling)",
    "a run that does not converge is a violation only if its chain projection stood still for >= 360 blocks (three lifetimes "
    "of the shared transaction data) while every member that has to take part was running (refusals for lack of GAS count as "
    "pending progress only before the NNS contract exists: the first deployment is paid out of block rewards); otherwise it is "
    "inconclusive (exit 2)",
    "lossy delivery (a submission acknowledged to the member but never pooled) is a fault model beyond the literal quantifier of "
    "C13; convergence failures of such runs are reported under the predicate names ConvergesLossy / RunsSucceedLossy",
    "TLC 1.8.0 evaluates the predicates correctly on the recorded lines",
]
RULE = ("helpers: one evaluation = one call of the real function judged by the TLA+ monitor, distinct_nontrivial counts distinct "
        "(function, receivers, #callbacks, limb length / window edge / outcome) classes; end-to-end: one evaluation = one recorded "
        "chain projection (after a block that changed it) of a run of deploy.Deploy by all members, distinct_nontrivial counts "
        "distinct (committee size, abstract projection) pairs")

# exhaustive design-level configurations: (module, cfg, expect) - expect "ok" or "cex" (a deviation switch is on - behaviour the
# code had, or a regression it could acquire: TLC must produce the counterexample, i.e. the property is sensitive to it)
MC = {
    "quick": [
        ("DeployMC.tla", "Deploy_n1.cfg", "ok"),
        ("DeployMC.tla", "Deploy_n2.cfg", "ok"),
        ("DeployMC.tla", "Deploy_n3maj.cfg", "ok"),
        ("DeployMC.tla", "Deploy_n2_code.cfg", "cex"),
        ("DeployMC.tla", "Deploy_n3maj_code.cfg", "cex"),
        ("DeployMC.tla", "Deploy_n1loss.cfg", "ok"),               # lossy delivery, Converges under finitely many losses
        ("DeployMC.tla", "Deploy_n1loss_sticky.cfg", "cex"),       # a monitor that stays pending after an expiry hangs
    ],
    "thorough": [
        ("DeployMC.tla", "Deploy_n1.cfg", "ok"),
        ("DeployMC.tla", "Deploy_n2.cfg", "ok"),
        ("DeployMC.tla", "Deploy_n2c.cfg", "ok"),
        ("DeployMC.tla", "Deploy_n3maj.cfg", "ok"),
        ("DeployMC.tla", "Deploy_n2_code.cfg", "cex"),
        ("DeployMC.tla", "Deploy_n3maj_code.cfg", "cex"),
        ("DeployMC.tla", "Deploy_n1loss.cfg", "ok"),
        ("DeployMC.tla", "Deploy_n2loss.cfg", "ok"),
        ("DeployMC.tla", "Deploy_n1loss_sticky.cfg", "cex"),
        ("DeployMC.tla", "Deploy_n2loss_sticky.cfg", "cex"),
    ],
}
# random simulation of the whole procedure for committee sizes whose state space is too large for exhaustive search
# (safety only): (module, cfg, traces per worker, depth)
SIM = {
    "quick": [("DeployMC.tla", "Deploy_n3sim.cfg", 60, 400)],
    "thorough": [("DeployMC.tla", "Deploy_n3sim.cfg", 1500, 400), ("DeployMC.tla", "Deploy_n5sim.cfg", 300, 700)],
}
EXTRA_MC = os.path.join(V.SPEC, "cfg", "Deploy_mc.json")   # further configurations (DeployNotary / DeploySync), see there


def mc_list(tier):
    out = list(MC[tier])
    if os.path.exists(EXTRA_MC):
        out += [tuple(x) for x in json.load(open(EXTRA_MC)).get(tier, [])]
    return out


def modelcheck(module, cfg, timeout=2400, workers=4):
    """V.tlc_modelcheck with the counters taken from TLC's final summary line (the regular expression of lib/vcheck.py also
    matches the tail of a Progress line such as `2,256 states generated` and then under-reports)."""
    out, dt = V.tlc(module, cfg, workers=workers, timeout=timeout, ok_codes=(0, 10, 11, 12, 13, 14))
    m = re.search(r"(?m)^(\d+) states generated, (\d+) distinct states found", out)
    if "No error has been found" not in out or not m:
        tail = "\n".join(l for l in out.splitlines() if not l.startswith(("Parsing", "Semantic", "Linting")))[-3000:]
        raise V.Inconclusive("S1: TLC did not accept %s/%s (specification-level problem, not a verdict):\n%s" % (module, cfg, tail))
    return dict(states=int(m.group(2)), transitions=int(m.group(1)), wall_s=round(dt, 1),
                cmd="tlc -config %s %s" % (cfg, module), module=module, cfg=cfg)


def s1_helpers(tier):
    out, dt = V.tlc("DeployHelpersMC.tla", "DeployHelpers_%s.cfg" % tier, workers=1, timeout=900, ok_codes=(0, 10, 11, 12, 13, 14))
    m = re.search(r"(?m)^(\d+) states generated, (\d+) distinct states found", out)
    if "No error has been found" not in out or not m:
        raise V.Inconclusive("S1: TLC did not accept DeployHelpersMC (specification-level problem):\n" + out[-3000:])
    table = []
    for line in out.splitlines():
        line = V.unquote(line)
        if line.startswith("SCEN "):
            table.append(json.loads(line[5:]))
    if not table:
        raise V.Inconclusive("S2: TLC printed no helper table")
    mc = dict(states=int(m.group(2)), transitions=int(m.group(1)), wall_s=round(dt, 1), module="DeployHelpersMC.tla",
              cfg="DeployHelpers_%s.cfg" % tier, cmd="tlc -config DeployHelpers_%s.cfg DeployHelpersMC.tla" % tier)
    return mc, table


def s1_design(tier, seed):
    mcs, preds = [], []

    def one(item):
        module, cfg, expect = item
        time.sleep(0.7 * mc_list(tier).index(item))     # V.tlc numbers its metadirs without a lock
        if expect == "ok":
            mc = modelcheck(module, cfg)
            V.log("S1 %s/%s: %d distinct states, %d generated, %.0fs" % (module, cfg, mc["states"], mc["transitions"], mc["wall_s"]))
            return ("ok", mc)
        out, dt = V.tlc(module, cfg, workers=2, timeout=1200, ok_codes=(0, 10, 11, 12, 13, 14))
        m = re.search(r"(Temporal property|Invariant) (\w+) (was|is) violated", out)
        if not m:
            raise V.Inconclusive("S1: %s/%s carries the code's literal arithmetic and was expected to yield a counterexample, "
                                 "but TLC found none - the specification no longer exhibits the predicted behaviour" % (module, cfg))
        V.log("S1 %s/%s: predicted counterexample of %s (to be confirmed or refuted on the real code)" % (module, cfg, m.group(2)))
        return ("cex", dict(module=module, cfg=cfg, violated=m.group(2), wall_s=round(dt, 1)))
    with cf.ThreadPoolExecutor(max_workers=3) as ex:
        for kind, r in ex.map(one, mc_list(tier)):
            (mcs if kind == "ok" else preds).append(r)
    sims = []
    for module, cfg, num, depth in SIM[tier]:
        out, dt = V.tlc(module, cfg, extra=["-simulate", "num=%d" % num, "-depth", str(depth), "-seed", str(seed), "-deadlock"],
                        workers=4, timeout=1500, ok_codes=(0, 10, 11, 12, 13, 14))
        m = re.search(r"(\d+) states checked, (\d+) traces generated", out)
        if "violated" in out or "Error:" in out or not m:
            raise V.Inconclusive("S1: simulation of %s/%s found a specification-level problem:\n%s" % (module, cfg, out[-3000:]))
        V.log("S1 %s/%s: simulation, %s traces, %s states checked (%.0fs)" % (module, cfg, m.group(2), m.group(1), dt))
        sims.append(dict(module=module, cfg=cfg, traces=int(m.group(2)), states_checked=int(m.group(1)), wall_s=round(dt, 1)))
    return mcs, preds, sims


# ----------------------------------------------------------------------------- schedules

def plan(**kw):
    d = dict(start=0, afterNotary=False, afterBoot=0, pauses=[], cancels=[], losses=[], cancelAfterBoot=[], pauseAfterBoot=[], cancelAfterNotary=[])
    d.update(kw)
    return d


def scenarios(tier, seed):
    rnd = random.Random(seed * 7919 + 13)
    scs = []

    def add(n, src, members=None, rerun=True, budget=None, goal="all"):
        ms = members or [plan() for _ in range(n)]
        scs.append(dict(n=n, seed=seed * 1000 + len(scs), budget=budget or 1200 + 300 * n, blockMs=20 if n <= 4 else 30,
                        members=ms, rerun=rerun, src=src, id=100 + len(scs), goal=goal))

    def stagger(n):
        return [plan(start=rnd.randrange(0, 40)) for _ in range(n)]

    def cancel(n, who=None):
        ms = [plan() for _ in range(n)]
        i = rnd.randrange(n) if who is None else who
        exp = 45 * n + 25          # rough length of a healthy run in blocks
        b = rnd.randrange(3, exp)
        ms[i]["cancels"] = [[b, b + rnd.randrange(1, 30)]]
        return ms

    def pauses(n):
        ms = [plan() for _ in range(n)]
        for _ in range(rnd.randrange(1, 3)):
            ms[rnd.randrange(n)]["pauses"].append([rnd.randrange(0, 50 * n), rnd.randrange(5, 60)])
        return ms

    def absent(n, who):
        return [plan(afterNotary=(i in who)) for i in range(n)]

    # lossy delivery: the k-th submission of a class by one member is acknowledged by the wrapper but never reaches the node.
    # `critical` lists the submissions nobody else makes up for (leader-only actions, a member's own Alphabet contract, the
    # notary deposit every co-signer needs): if the stage does not send again after the expiry, the run hangs.
    def critical(n):
        out = [(0, "tx:deploy", k) for k in range(1, 8)] + [(0, "tx:transfer", 1), (0, "nr:deploy", 1), (0, "nr:deploy", 2)]
        if n == 1:
            out += [(0, "tx:register", k) for k in range(1, 9)] + [(0, "tx:designate", 1), (0, "nr:designate", 1), (0, "nr:candidate", 1)]
        else:
            out += [(0, "tx:register", 1), (0, "tx:register", 2), (0, "nr:transfer", 1)]
            out += [(j, "tx:deploy", 1) for j in range(1, n)]
            if n == 3:      # validators' multi-signature is 3 of 3: every member's deposit is needed
                out += [(j, "tx:transfer", 1) for j in range(1, n)]
        return out

    def lossy(n, losses):
        ms = [plan() for _ in range(n)]
        for (i, cls, k) in losses:
            ms[i]["losses"].append(dict(cls=cls, k=k))
        return ms

    def add_lossy(n, losses):
        add(n, "lossy:" + ",".join("m%d:%s#%d" % l for l in losses), lossy(n, losses), budget=2400 + 300 * n)

    # stale signatures: the shared transaction data (lifetime 120 blocks) expires and is re-created by the leader while a
    # signer that is still needed for the majority has already published its signature for the old data, so that signer has to
    # REPLACE its record.  kinds: the leader is cancelled right after publishing the data and restarted > 120 blocks later; the
    # leader is paused for that long; a needed signer starts > 120 blocks after the data appeared (the other needed one signed at
    # once); members that would make the late/stale one unnecessary are absent until the Notary role exists.
    def stale(n, kind):
        ms = [plan() for _ in range(n)]
        late = 124 + rnd.randrange(0, 25)
        need = n - ((n - 1) // 2) - 1                 # remote signatures the leader needs
        for i in range(need + 1, n):                  # members 1..need stay, the rest is absent
            ms[i]["afterNotary"] = True
        if kind == "leader-restart":
            ms[0]["cancelAfterBoot"] = [1, late]
        elif kind == "leader-pause":
            ms[0]["pauseAfterBoot"] = [1, late]
        else:                                         # "late-signer": the last needed member comes late
            ms[need]["afterBoot"] = late
        return ms

    def add_stale(n, kind):
        add(n, "stale:" + kind, stale(n, kind), budget=2000 + 300 * n)

    # "interrupted at any point and restarted": EVERY member is cancelled in the same block and restarted a little later.
    # (a) relative to the block in which the Notary role appears (the window in which Notary is designated and NeoFSAlphabet
    # is not yet - ninth seeded batch, C13f); (b) at an absolute height b (the thorough tier sweeps b over the whole run)
    def restart_all_after_notary(n, d1, d2):
        return [plan(cancelAfterNotary=[d1, d2]) for _ in range(n)]

    def restart_all_at(n, b, gap):
        return [plan(cancels=[[b, b + gap]]) for _ in range(n)]

    # trap for the witness-order defect: the signatures arrive in descending index order (member 2 at once, member 1 fifteen
    # blocks after the shared data appeared, member 3 absent), so the leader's map holds them in that insertion order and only
    # a lucky rotation of the map iteration (1/8) sorts them
    add(4, "trap:witness-order", [plan(), plan(afterBoot=15), plan(), plan(afterNotary=True)], goal="notary")
    if tier == "quick":
        add(1, "plain")
        add(2, "plain")
        add(3, "stagger", stagger(3))
        add(4, "plain")
        add(3, "cancel", cancel(3))
        add(1, "cancel", cancel(1, 0))
        add(3, "absent:2", absent(3, {2}))
        add(3, "absent:1", absent(3, {1}))
        for n in (4, 5, 6, 7):       # witness assembly from >= 2 remote signatures (Notary bootstrap only)
            add(n, "notary-only", goal="notary")
        for n in (1, 3):             # one loss each, placed by the seed over the critical submissions
            add_lossy(n, [rnd.choice(critical(n))])
        add_stale(*rnd.choice([(2, "leader-restart"), (2, "leader-pause"), (3, "leader-restart"), (4, "late-signer")]))
        add(1, "restart-all:notary+1", restart_all_after_notary(1, 1, 3))
        add(2, "restart-all:notary+%d" % (seed % 3), restart_all_after_notary(2, seed % 3, 2 + seed % 3 + rnd.randrange(1, 4)))
        for b in rnd.sample(range(3, 75), 3):
            add(1, "restart-all:@%d" % b, restart_all_at(1, b, rnd.randrange(1, 6)))
    else:
        for b in range(2, 84):                           # the whole healthy single-member run (about 80 blocks)
            add(1, "restart-all:@%d" % b, restart_all_at(1, b, 1 + b % 4))
        for b in range(3, 130, 3):
            add(2, "restart-all:@%d" % b, restart_all_at(2, b, 1 + b % 5))
        for n in (1, 2, 3, 4):
            for d1 in (0, 1, 2, 3, 5):
                add(n, "restart-all:notary+%d" % d1, restart_all_after_notary(n, d1, d1 + 2))
        for n in range(1, 8):
            add(n, "plain")
            add(n, "stagger", stagger(n))
        for n in range(1, 8):
            for _ in range(2 if n <= 5 else 1):
                add(n, "cancel", cancel(n))
            add(n, "cancel:leader", cancel(n, 0))
            add(n, "pause", pauses(n))
        for n in range(3, 8):
            minority = (n - 1) // 2
            add(n, "absent:last", absent(n, {n - 1}))
            add(n, "absent:first", absent(n, {1}))
            who = set(rnd.sample(range(1, n), minority))
            add(n, "absent:" + ",".join(map(str, sorted(who))), absent(n, who))
        for n in (4, 5, 6, 7):
            for _ in range(3):
                add(n, "notary-only", goal="notary")
        # lossy delivery: classes x members (first submission of every class by every member, later ones by seed), n = 1..4
        classes = ["tx:deploy", "tx:register", "tx:transfer", "tx:designate", "nr:transfer", "nr:designate", "nr:deploy", "nr:candidate"]
        for n in (1, 2, 3, 4):
            for i in range(n):
                for cls in classes:
                    if cls == "tx:designate" and (i > 0 or n == 4):
                        continue                       # only the leader designates by plain transaction; n=4 sampled below
                    if n == 4 and i in (1, 2) and cls not in ("tx:deploy", "nr:transfer", "tx:transfer"):
                        continue
                    add_lossy(n, [(i, cls, 1)])
            for _ in range(4):                          # a later submission of a critical class
                add_lossy(n, [rnd.choice(critical(n))])
            for _ in range(2):                          # two losses in one run
                add_lossy(n, rnd.sample(critical(n), 2))
        for n in (2, 3, 4, 5):
            for kind in ("leader-restart", "leader-pause") + (("late-signer",) if n >= 4 else ()):
                for _ in range(2 if n <= 4 else 1):
                    add_stale(n, kind)
        for n in (5, 7):
            add_lossy(n, [(0, "nr:transfer", 1)])
            add_lossy(n, [(n - 1, "tx:deploy", 1)])
    return scs


def run_e2e(binary, scs, par):
    """One OS process per scenario. Returns list of (scenario, trace path, log text)."""
    sdir = V.scratch()
    jobs = []
    for sc in scs:
        sp = os.path.join(sdir, "e2e%d.json" % sc["id"])
        json.dump(sc, open(sp, "w"))
        jobs.append((sc, sp, os.path.join(sdir, "e2e%d.ndjson" % sc["id"])))

    def one(job):
        sc, sp, tp = job
        env = dict(V.GOENV, VERIF_E2E=sp, VERIF_OUT=tp)
        if os.environ.get("VERIF_E2E_LOGDIR"):
            d = os.path.join(os.environ["VERIF_E2E_LOGDIR"], "run%d" % sc["id"])
            os.makedirs(d, exist_ok=True)
            env["VERIF_E2E_LOGDIR"] = d
        try:
            p = subprocess.run([binary, "-test.run", "TestE2E", "-test.timeout", "900s"], cwd=sdir, env=env, timeout=960,
                               stdout=subprocess.PIPE, stderr=subprocess.STDOUT, text=True)
        except subprocess.TimeoutExpired:
            raise V.Inconclusive("S3: end-to-end run %s timed out" % sc["src"])
        if p.returncode != 0 or "DRIVER-STATS" not in p.stdout:
            raise V.Inconclusive("S3: end-to-end run n=%d %s failed (%d):\n%s" % (sc["n"], sc["src"], p.returncode,
                                                                                "\n".join(p.stdout.splitlines()[-30:])))
        for line in p.stdout.splitlines():
            if line.startswith("E2E "):
                V.log("S3 run %d %s: %s" % (sc["id"], sc["src"], line[4:]))
        return sc, tp
    with cf.ThreadPoolExecutor(max_workers=par) as ex:
        return list(ex.map(one, jobs))


def helper_key(r):
    a = r["act"]
    if a == "divide":
        return (a, min(r["n"], 10), len(r["calls"]) == r["n"], len(r["calls"]) == 0, len(r["amount"]))
    if a == "window":
        return (a, len(r["h"]), r["vub"] == [42, 9496, 7295], r["h"][-1] % 100 in (0, 99))
    if a == "ckrej":
        return (a, r["kind"], r["out"]["ok"])
    if a == "declen":
        return (a, r["ok"], r["b64"])
    return (a,)


def e2e_key(r):
    o = r["obs"]
    return (r["n"], len(o["notary"]), len(o["alpha"]), tuple((c["sys"], c["dep"]) for c in o["contracts"]),
            tuple((d["dom"], d["n"], d["sys"]) for d in o["neofs"]), tuple((d["dom"], d["st"]) for d in o["boot"]), o["cand"],
            o["gas"]["proxy"] > 0, o["neo"]["cmt"] > 0, tuple(m["st"] for m in r["mem"]))


def run(pid, tier, seed, replay=None):
    t0 = time.time()
    known = V.known_findings()
    mcs, preds, sims, table = [], [], [], []
    do_helpers, scs = True, None
    if replay is None:
        mc, table = s1_helpers(tier)
        V.log("S1 DeployHelpersMC: %d instances enumerated, table of %d lines (%.0fs)" % (mc["states"], len(table), mc["wall_s"]))
        mcs.append(mc)
        if not os.environ.get("VERIF_DEPLOY_FAST"):     # development switch for code-mutation runs: the Spec is unchanged
            d_mcs, preds, sims = s1_design(tier, seed)
            mcs += d_mcs
        scs = scenarios(tier, seed)
    else:
        rp = json.load(open(replay))
        sc = rp["scenario"]
        if sc.get("kind") == "helpers":
            scs = []
            _, table = s1_helpers("quick")
        else:
            do_helpers = False
            scs = [sc]
    binary, dt = V.go_build_test("deploy")
    V.log("driver harness/deploy built against %s working tree (%.0fs)" % (V.REPO, dt))
    sdir = V.scratch()
    traces = []
    acts = collections.Counter()
    if do_helpers:
        scen_path = os.path.join(sdir, "helpers.json")
        json.dump(table, open(scen_path, "w"))
        hp = os.path.join(sdir, "helpers.ndjson")
        stats, dt = V.go_drive(binary, [dict(VERIF_OUT=hp, VERIF_SCEN=scen_path, VERIF_SEED=seed,
                                             VERIF_NRAND=600 if tier == "quick" else 20000, VERIF_TIER=tier)], timeout=1500)
        acts.update(stats[0].get("acts", {}))
        V.log("S3 helpers: %d evaluations of the real functions (%.0fs)" % (stats[0]["lines"], dt))
        traces.append(hp)
    if scs:
        te = time.time()
        res = run_e2e(binary, scs, par=max(2, min(8, V.NCPU // 2)))
        ep = os.path.join(sdir, "e2e.ndjson")
        with open(ep, "w") as f:
            for sc, tp in res:
                f.write(open(tp).read())
        traces.append(ep)
        V.log("S3 end-to-end: %d runs of deploy.Deploy by all members (%.0fs)" % (len(res), time.time() - te))

    def mon(p):
        time.sleep(0.7 * traces.index(p))
        tr = V.read_trace(p)
        fl, done, dt = V.tlc_monitor("DeployTrace.tla", "DeployTrace.cfg", p, timeout=2400)
        if done != len(tr):
            raise V.Inconclusive("S4: monitor consumed %s of %d lines of %s" % (done, len(tr), os.path.basename(p)))
        return fl, tr
    with cf.ThreadPoolExecutor(max_workers=2) as ex:
        results = list(ex.map(mon, traces))
    flags_all, trace_all = [], []
    for fl, tr in results:
        base = len(trace_all)
        for f in fl:
            f["line"] += base
        flags_all += fl
        trace_all += tr
    V.log("S4: %d recorded lines judged by the TLA+ monitor DeployTrace, %d flags" % (len(trace_all), len(flags_all)))
    for r in trace_all:
        if r["act"] in ("block", "end", "rerun"):
            acts[r["act"] + "|HALT"] += 1
    by_trace = collections.defaultdict(list)
    for r in trace_all:
        by_trace[str(r["t"])].append(r)
    sc_by_id = {str(sc["id"]): sc for sc in (scs or [])}

    def scenario_of(tid):
        if tid in sc_by_id:
            return sc_by_id[tid]
        bad = [trace_all[f["line"] - 1] for f in flags_all if f["trace"] == tid][:5]
        return dict(kind="helpers", src=by_trace[tid][0].get("src"), seed=seed, lines=bad)
    violations, known_seen, drift = V.decide(pid, flags_all, trace_all, known, seed, scenario_of)
    # runs that neither converged nor were judged a convergence violation
    flagged_end = set(f["trace"] for f in flags_all if f["prop"] == pid and f["act"] == "end")
    inconcl = []
    ends = {}
    for r in trace_all:
        if r["act"] == "end":
            ends[str(r["t"])] = r
            if not r["done"] and str(r["t"]) not in flagged_end:
                inconcl.append("run %s n=%d src=%s ended by %s after %d blocks without progress for %d" %
                               (r["t"], r["n"], sc_by_id.get(str(r["t"]), {}).get("src"), r["why"], r["h"], r["stag"]))
    distinct = set()
    for r in trace_all:
        if r["act"] == "reset":
            continue
        distinct.add(e2e_key(r) if "obs" in r else helper_key(r))
    samples = []
    for tid, rs in by_trace.items():
        if rs[0].get("kind") == "helpers" and len(samples) < 2 and len(rs) > 3:
            samples.append(dict(trace=tid, src=rs[0].get("src"), steps=[{k: v for k, v in r.items() if k not in ("t", "l")} for r in rs[1:4]]))
    for tid, rs in by_trace.items():
        if rs[0].get("kind") == "e2e":
            samples.append(dict(trace=tid, n=rs[0]["n"], src=rs[0].get("src"), plan=rs[0].get("plan"),
                                steps=[dict(act=r["act"], h=r["h"], notary=r["obs"]["notary"], alpha=r["obs"]["alpha"],
                                            contracts=[c["sys"] for c in r["obs"]["contracts"]],
                                            recorded=[d["dom"] for d in r["obs"]["neofs"] if d["n"]],
                                            members=[m["st"] for m in r["mem"]], why=r.get("why")) for r in rs[1:]][-12:]))
            if len(samples) >= 4:
                break
    runs = [dict(id=t, n=r["n"], src=sc_by_id.get(t, {}).get("src"), why=r["why"], blocks=r["h"], wall_s=r.get("wall"))
            for t, r in ends.items()]
    cov = dict(states=sum(m["states"] for m in mcs) or 1, transitions=sum(m["transitions"] for m in mcs) or 1,
               traces_validated_against_impl=len(by_trace), evaluations=len(trace_all) - len(by_trace),
               distinct_nontrivial=len(distinct), rule=RULE, samples=samples, exhaustive=False, s1=mcs,
               s1_predictions=preds, s1_simulation=sims, actions=dict(acts), drift_steps=drift, known_findings_seen=sorted(known_seen),
               e2e_runs=runs, e2e_inconclusive=inconcl, helper_table=len(table),
               committee_sizes=sorted(set(r["n"] for r in ends.values())),
               monitor_flags_total=len([f for f in flags_all if f["prop"] == pid]))
    if replay is None:
        V.write_evidence(pid, tier, seed, "model_checking", cov, time.time() - t0, len(violations), ASSUME)
    if violations:
        return 1
    if inconcl:
        raise V.Inconclusive("end-to-end runs without a verdict: " + "; ".join(inconcl))
    return 0
