"""Family `mainchain`: C17 (spec/MainChainVote*.tla) and C19 (spec/MainChainGas*.tla), driver harness/mainchain.

The two properties have separate Spec modules, monitors and driver modes (VERIF_MC_FAM=vote|gas) inside one Go package.
"""
import os

import vcheck as V


class Vote(V.Family):
    name = "mainchain-vote"
    props = ("C17",)
    driver_pkg = "mainchain"
    monitor = ("MainChainVoteTrace.tla", "MainChainVoteTrace.cfg")
    step_keys = ("act", "S", "id", "key", "val", "lst", "cand", "payee", "amt", "gap", "x")
    reset_keys = ("n", "src", "strangerCfg", "x")
    assume = [
        "neo-go v0.107.0 compiler/VM/ledger/neotest are faithful to the production platform (transaction atomicity on FAULT, "
        "witness checks, ledger.CurrentIndex() = block index - 1, sequential execution of the transactions of a block)",
        "the NeoFS contract is deployed with notaryDisabled=true and n generated single-key accounts as the stored Alphabet list; "
        "every voter signs its own transaction (at most one Alphabet key per transaction)",
        "a repeated vote of a key does not refresh the 20-block window (DESIGN.md §6 C17 reading of 'consecutive votes'); rounds that "
        "are open while the stored list changes are not judged until they end or expire",
        "the state after a transaction in the middle of a block is read by a probe transaction placed right after it in the same "
        "block (API getters and GAS balances); the raw ballots of such a state are not observable and not used by the property",
        "TLC 1.8.0 evaluates the property predicates correctly on the recorded steps",
    ]
    rule = ("one evaluation = one transaction executed on the real NeoFS contract (non-notary mode) and judged by the TLA+ monitor; "
            "distinct_nontrivial counts distinct (method, outcome, signer class, #stored keys, #voters in the stored ballot before, "
            "block gap class, effect happened) tuples")
    tiers = {
        "quick": dict(mc=[("MainChainVoteMC.tla", "MainChainVote_quick_n1.cfg"), ("MainChainVoteMC.tla", "MainChainVote_quick_n2.cfg"),
                          ("MainChainVoteMC.tla", "MainChainVote_quick_n3.cfg")], mc_timeout=900,
                      sim=("MainChainVoteMC.tla", "MainChainVote_sim.cfg", 40, 25), sim_keep=120, nrand=200, shards=4,
                      env=dict(VERIF_MC_FAM="vote")),
        "thorough": dict(mc=[("MainChainVoteMC.tla", "MainChainVote_thorough_n1.cfg"), ("MainChainVoteMC.tla", "MainChainVote_thorough_n2.cfg"),
                             ("MainChainVoteMC.tla", "MainChainVote_thorough_n3.cfg"), ("MainChainVoteMC.tla", "MainChainVote_thorough_n4.cfg")],
                         mc_timeout=3000,
                         sim=("MainChainVoteMC.tla", "MainChainVote_sim.cfg", 800, 25), sim_keep=3000, nrand=6000, shards=12,
                         env=dict(VERIF_MC_FAM="vote")),
    }

    def scenario_from_tlc(self, s):
        return dict(n=s.get("n", 0), steps=[{k: st[k] for k in self.step_keys if k in st} for st in s["steps"]])

    def nontrivial_key(self, r, prev):
        if prev is None:
            return None
        alpha = prev["obs"]["alpha"]
        S = set(r["S"])
        sc = "member" if S & set(alpha) else ("owner" if r["cand"] in S else ("nobody" if not S else "stranger"))
        if len(S) > 1:
            sc += "+"
        vid = "del:" + r["cand"] if r["act"] == "candRemove" else r["id"]
        nv = -1
        if prev["obs"]["blk"]:
            nv = 0
            for b in prev["obs"]["bl"]:
                if b["id"] == vid:
                    nv = len(b["voters"])
        g = r["gap"]
        gc = "0" if g == 0 else "<20" if g < 20 else str(g) if g <= 21 else ">21"
        po, o = prev["obs"], r["obs"]
        eff = bool(r["ntf"]) or any(po[k] != o[k] for k in ("alphaApi", "cfgApi", "candsApi", "gasC", "gasP"))
        return (r["act"], r["res"], sc, len(alpha), nv, gc, eff)

    def extra_coverage(self, trace_all, flags_all):
        return dict(alphabet_sizes=sorted(set(r["n"] for r in trace_all if r["act"] == "reset")),
                    mid_block_steps=sum(1 for r in trace_all if r["act"] != "reset" and not r["obs"]["blk"]))


class Gas(V.Family):
    name = "mainchain-gas"
    props = ("C19",)
    driver_pkg = "mainchain"
    monitor = ("MainChainGasTrace.tla", "MainChainGasTrace.cfg")
    step_keys = ("act", "S", "u", "v", "amt", "w", "k", "id", "gap", "x")
    reset_keys = ("notary", "ns", "nc", "idx", "src", "x")
    assume = [
        "neo-go v0.107.0 compiler/VM/ledger/native contracts/neotest are faithful to the production platform",
        "GAS amounts are exact: the driver splits every native balance / notification amount into three base-10^6 limbs "
        "(values < 10^18) and the TLA+ predicates compute on limbs; the limb operators are validated against TLC integers in S1 (B = 10)",
        "all fees of the driving transactions are paid by a separate account, so tracked accounts change only through the contracts; "
        "GAS minted by NEO transfers inside a transaction is read from the native Transfer notifications of that transaction",
        "without Notary cheque, setConfig of the fees, alphabetUpdate (to the list already stored) and candidate removal are driven "
        "through the ballot code too (votes of the 1..4 stored keys, each signing its own transaction, interleaved decisions, late and "
        "repeated votes, window gaps); 'the Alphabet approves' is then the abstract round machine of C17 per decision id, and within a "
        "scenario the receiver and amount of a cheque are a function of its id (first use fixes them)",
        "a GAS payment to NeoFS whose data is the candidate-fee marker 0x570b is accepted silently by the contract; the statement is "
        "silent about it, the Spec models it and Conservation counts it as an unreported receipt",
        "TLC 1.8.0 evaluates the property predicates correctly on the recorded steps",
    ]
    rule = ("one evaluation = one transaction executed on the real NeoFS/Processing/Proxy/Alphabet contracts and judged by the TLA+ "
            "monitor; distinct_nontrivial counts distinct (action, outcome, return, notary mode, kind/token, target, signer class, "
            "amount class, #Inner Ring nodes for emit) tuples")
    tiers = {
        "quick": dict(mc=[("MainChainGasMC.tla", "MainChainGas_quick_notary.cfg"), ("MainChainGasMC.tla", "MainChainGas_quick_nonotary.cfg"),
                          ("MainChainGasMC.tla", "MainChainGas_quick_vote.cfg"), ("MainChainGasMC.tla", "MainChainGas_quick_emit.cfg")], mc_timeout=900,
                      sim=("MainChainGasMC.tla", "MainChainGas_sim.cfg", 40, 25), sim_keep=120, nrand=250, shards=4,
                      env=dict(VERIF_MC_FAM="gas")),
        "thorough": dict(mc=[("MainChainGasMC.tla", "MainChainGas_thorough_notary.cfg"), ("MainChainGasMC.tla", "MainChainGas_thorough_nonotary.cfg"),
                             ("MainChainGasMC.tla", "MainChainGas_thorough_vote.cfg"), ("MainChainGasMC.tla", "MainChainGas_thorough_emit.cfg")], mc_timeout=3000,
                         sim=("MainChainGasMC.tla", "MainChainGas_sim.cfg", 800, 25), sim_keep=3000, nrand=6000, shards=12,
                         env=dict(VERIF_MC_FAM="gas")),
    }

    def scenario_from_tlc(self, s):
        sc = {k: s[k] for k in ("notary", "ns", "nc", "idx") if k in s}
        sc["steps"] = [{k: st[k] for k in self.step_keys if k in st} for st in s["steps"]]
        return sc

    @staticmethod
    def _val(l):
        return l[0] + 10**6 * l[1] + 10**12 * l[2]

    def nontrivial_key(self, r, prev):
        if prev is None:
            return None
        S = set(r["S"])
        sc = "alpha" if "ALPHA" in S else "owner" if (r["u"] in S or r["v"] in S) else "member" if any(x.startswith("m") for x in S) \
            else "other" if S else "none"
        a = self._val(r["amt"])
        ac = "0" if a == 0 else "1" if a == 1 else "<max" if a < 9000 * 10**8 else "max" if a == 9000 * 10**8 else ">max"
        n = prev["obs"]["irN"] if r["act"] == "emit" else 0
        if not prev["obs"]["notary"] and r["act"] in ("cheque", "setFee", "alphaSame", "candRemove"):
            # vote-collected: #ballots stored before, position and size of this decision's ballot, gap class
            vid = "del:" + r["v"] if r["act"] == "candRemove" else r["id"]
            bl = prev["obs"]["bl"]
            pos = [i for i, b in enumerate(bl) if b["id"] == vid]
            g = r["gap"]
            n = (len(bl), pos[0] if pos else -1, len(bl[pos[0]]["voters"]) if pos else 0, "<=20" if g <= 20 else ">20")
            if any(x.startswith("k") for x in S):
                sc = "key"
        return (r["act"], r["res"], r["ret"], prev["obs"]["notary"], r["k"], r["v"] if r["act"] == "pay" else "", sc, ac, n, len(r["ntf"]))

    def extra_coverage(self, trace_all, flags_all):
        emits = [(p["obs"]["irN"], self._val(p["obs"]["gas"]["alph"]) + self._val(r["mint"]["alph"]))
                 for p, r in zip(trace_all, trace_all[1:]) if r["act"] == "emit" and r["res"] == "HALT"]
        votepaid, notary = 0, True
        for r in trace_all:
            if r["act"] == "reset":
                notary = r["notary"]
            elif r["act"] == "cheque" and not notary and r["ntf"]:
                votepaid += 1
        return dict(vote_collected_cheques_paid=votepaid,
                    committee_sizes=sorted(set(r["nc"] for r in trace_all if r["act"] == "reset")),
                    stored_keys=sorted(set(r["ns"] for r in trace_all if r["act"] == "reset")),
                    notary_modes=sorted(set(r["notary"] for r in trace_all if r["act"] == "reset")),
                    emit_halts=len(emits), emit_ir_sizes=sorted(set(n for n, g in emits)),
                    emit_max_balance=max([g for n, g in emits] or [0]),
                    emit_residues_mod_16N=len(set((n, g % (16 * n)) for n, g in emits if n)))


def _fam(cls):
    f = cls()
    if os.environ.get("VERIF_MC_SKIP_S1"):
        # development aid (mutation runs): S1 does not depend on the code under test
        f.tiers = {t: dict(c, mc=[]) for t, c in f.tiers.items()}
    return f


def run(pid, tier, seed, replay=None):
    if pid == "C17":
        return V.run_family(_fam(Vote), pid, tier, seed, replay)
    if pid == "C19":
        return V.run_family(_fam(Gas), pid, tier, seed, replay)
    raise V.Inconclusive("fam_mainchain serves C17 and C19 only")
