"""Family `mainchain`: C17 (spec/MainChainVote*.tla) and C19 (spec/MainChainGas*.tla), driver harness/mainchain.

The two properties have separate Spec modules, monitors and driver modes (VERIF_MC_FAM=vote|gas) inside one Go package.
"""
import vcheck as V


class Vote(V.Family):
    name = "mainchain-vote"
    props = ("C17",)
    driver_pkg = "mainchain"
    monitor = ("MainChainVoteTrace.tla", "MainChainVoteTrace.cfg")
    step_keys = ("act", "S", "id", "key", "val", "lst", "cand", "payee", "amt", "gap")
    reset_keys = ("n", "src", "strangerCfg")
    assume = [
        "neo-go v0.107.0 compiler/VM/ledger/neotest are faithful to the production platform (transaction atomicity on FAULT, "
        "witness checks, ledger.CurrentIndex() = block index - 1, sequential execution of the transactions of a block)",
        "the NeoFS contract is deployed with notaryDisabled=true and n generated single-key accounts as the stored Alphabet list; "
        "every voter signs its own transaction (at most one Alphabet key per transaction)",
        "a repeated vote of a key does not refresh the 20-block window (DESIGN.md §6 C17 reading of 'consecutive votes'); rounds that "
        "are open while the stored list changes are not judged until they end or expire",
        "the state after a transaction in the middle of a block is read by a probe transaction placed right after it in the same "
        "block (API getters and GAS balances); the raw ballots of such a state are not observable and not used by the property",
        "TLC 1.8.0 evaluates the property predicates correctly on the recorded steps",
    ]
    rule = ("one evaluation = one transaction executed on the real NeoFS contract (non-notary mode) and judged by the TLA+ monitor; "
            "distinct_nontrivial counts distinct (method, outcome, signer class, #stored keys, #voters in the stored ballot before, "
            "block gap class, effect happened) tuples")
    tiers = {
        "quick": dict(mc=[("MainChainVoteMC.tla", "MainChainVote_quick_n1.cfg"), ("MainChainVoteMC.tla", "MainChainVote_quick_n2.cfg"),
                          ("MainChainVoteMC.tla", "MainChainVote_quick_n3.cfg")], mc_timeout=900,
                      sim=("MainChainVoteMC.tla", "MainChainVote_sim.cfg", 40, 25), sim_keep=120, nrand=200, shards=4,
                      env=dict(VERIF_MC_FAM="vote")),
        "thorough": dict(mc=[("MainChainVoteMC.tla", "MainChainVote_thorough_n1.cfg"), ("MainChainVoteMC.tla", "MainChainVote_thorough_n2.cfg"),
                             ("MainChainVoteMC.tla", "MainChainVote_thorough_n3.cfg"), ("MainChainVoteMC.tla", "MainChainVote_thorough_n4.cfg")],
                         mc_timeout=3000,
                         sim=("MainChainVoteMC.tla", "MainChainVote_sim.cfg", 800, 25), sim_keep=3000, nrand=6000, shards=12,
                         env=dict(VERIF_MC_FAM="vote")),
    }

    def scenario_from_tlc(self, s):
        return dict(n=s.get("n", 0), steps=[{k: st[k] for k in self.step_keys if k in st} for st in s["steps"]])

    def nontrivial_key(self, r, prev):
        if prev is None:
            return None
        alpha = prev["obs"]["alpha"]
        S = set(r["S"])
        sc = "member" if S & set(alpha) else ("owner" if r["cand"] in S else ("nobody" if not S else "stranger"))
        if len(S) > 1:
            sc += "+"
        vid = "del:" + r["cand"] if r["act"] == "candRemove" else r["id"]
        nv = -1
        if prev["obs"]["blk"]:
            nv = 0
            for b in prev["obs"]["bl"]:
                if b["id"] == vid:
                    nv = len(b["voters"])
        g = r["gap"]
        gc = "0" if g == 0 else "<20" if g < 20 else str(g) if g <= 21 else ">21"
        po, o = prev["obs"], r["obs"]
        eff = bool(r["ntf"]) or any(po[k] != o[k] for k in ("alphaApi", "cfgApi", "candsApi", "gasC", "gasP"))
        return (r["act"], r["res"], sc, len(alpha), nv, gc, eff)

    def extra_coverage(self, trace_all, flags_all):
        return dict(alphabet_sizes=sorted(set(r["n"] for r in trace_all if r["act"] == "reset")),
                    mid_block_steps=sum(1 for r in trace_all if r["act"] != "reset" and not r["obs"]["blk"]))


def run(pid, tier, seed, replay=None):
    if pid == "C17":
        return V.run_family(Vote(), pid, tier, seed, replay)
    if pid == "C19":
        from fam_mainchain_gas import Gas  # noqa
        return V.run_family(Gas(), pid, tier, seed, replay)
    raise V.Inconclusive("fam_mainchain serves C17 and C19 only")
