"""Family `container`: C04, C05 (spec/Container.tla, monitor spec/ContainerTrace.tla) and C14
(spec/ContainerRoster.tla, monitor spec/ContainerRosterTrace.tla); one Go driver package harness/container
with two modes selected by VERIF_FAMMODE."""
import os

import vcheck as V

# The trace monitors describe the code as it is: their cfg files switch on the deviations the current tree has
# (Dev = {"StaleAlias"} / {"DupSig"}), so that recorded steps are steps of the Spec (zero drift). After the repairs
# notes/reports/container-fix-*.diff are applied, run with VERIF_CONTAINER_FIXED=1 (or set Dev = {} in the two
# *Trace.cfg files): the Spec then describes the repaired behaviour.
FIXED = {"Dev": "{}"} if os.environ.get("VERIF_CONTAINER_FIXED") else None

COMMON_ASSUME = [
    "neo-go v0.107.0 compiler/VM/ledger/neotest are faithful to the production platform (transaction atomicity on FAULT, "
    "witness checks, storage.Find order = byte order of keys); notifications listed in the log of a FAULTed transaction are not events",
    "the harness maps model values injectively to real ids/keys/names (container id = sha256 of the generated blob, owner at "
    "offset 2+L+4 with version-field lengths L in {0,1,5,17,250})",
    "TLC 1.8.0 evaluates the property predicates correctly on the recorded steps",
]


class Registry(V.Family):
    name = "container"
    props = ("C04", "C05")
    driver_pkg = "container"
    monitor = ("ContainerTrace.tla", "ContainerTrace.cfg")
    monitor_constants = FIXED
    step_keys = ("act", "S", "c", "v", "nm", "meta", "c2", "v2", "nm2", "meta2", "kb", "rb", "ash", "o", "k", "amt")
    reset_keys = ("n", "scale", "src", "verlen")
    assume = COMMON_ASSUME + [
        "the Container alias TLD is registered by the committee before Container is deployed (the deploy transaction of "
        "harness/chain carries no committee witness for n in {3,7}); alias domains never expire during a scenario (10 years)",
        "fees, balances and mint amounts are scaled by U in {1,1e8,2^40,1e30} and must divide exactly; fees are >= 0",
        "container owners are ordinary accounts (o1, o2) or the standard account of the middle Alphabet node (oa); put2 steps are two "
        "puts of different containers executed as two transactions of one block; roster/estimation methods are not part of C04 "
        "scenarios (quantifier: create/delete/eACL operations)",
    ]
    rule = ("one evaluation = one transaction executed on the real Container/NNS/Balance/Netmap/NeoFSID contracts and judged by the "
            "TLA+ monitor on the full observed state (read API of every model id incl. a never-used one, raw Container storage decoded "
            "by key layout, NNS owner+TXT records of every alias name, NEOFS balances of owners and of every Alphabet node); "
            "distinct_nontrivial counts distinct (action,outcome,return,signer class,named,meta,registry state of the id before, "
            "fee class, state changed) tuples")
    tiers = {
        "quick": dict(mc=[("ContainerMC.tla", "Container_quick.cfg"), ("ContainerMC.tla", "ContainerFee_quick.cfg")], mc_timeout=600,
                      sim=("ContainerMC.tla", "Container_sim.cfg", 80, 31), sim_keep=120, nrand=120, shards=6),
        "thorough": dict(mc=[("ContainerMC.tla", "Container_thorough.cfg"), ("ContainerMC.tla", "ContainerFee_thorough.cfg")],
                         mc_timeout=3000, sim=("ContainerMC.tla", "Container_sim.cfg", 1000, 31), sim_keep=2000, nrand=3000, shards=14),
    }

    def scenario_from_tlc(self, s):
        sc = dict(steps=[{k: st[k] for k in self.step_keys if k in st} for st in s["steps"]])
        if "n" in s:
            sc["n"] = s["n"]
        return sc

    def nontrivial_key(self, r, prev):
        if prev is None:
            return None
        o, p = r["obs"], prev["obs"]
        changed = any(o[k] != p[k] for k in ("x", "oidx", "tomb", "meta", "eacl", "alias", "dom", "txt", "bal", "abal", "fee", "afee"))
        S = set(r["S"])
        sc = "alpha+cmt" if {"ALPHA", "CMT"} <= S else "alpha" if "ALPHA" in S else "cmt" if "CMT" in S else ("other" if S else "none")
        c = r["c"]
        before = "-"
        if c in p["x"]:
            before = "dead" if c in p["tomb"] else ("live" if p["x"][c] != "none" else "new")
            if before == "live" and p["alias"][c] != "none":
                before = "live+alias"
        feec = "-"
        if r["act"] in ("put", "put2"):
            f = p["fee"] + (p["afee"] if r["nm"] != "nil" else 0)
            need = f * p["n"]
            owner = {"c0": "o1", "c1": "o1", "c2": "o1", "c3": "o2", "c4": "o2", "c5": "oa"}[c]
            b = p["bal"][owner]
            feec = ("free" if need == 0 else "short1" if b == need - 1 else "short" if b < need else "exact" if b == need
                    else "over1" if b == need + 1 else "over")
        domc = p["dom"].get(r["nm"], "-") if r["nm"] != "nil" else "-"
        role = "node-owner" if c == "c5" or r.get("c2") == "c5" else "user"
        return (r["act"], r["res"], r.get("res2", "nil"), r["ret"], sc, r["nm"] != "nil", r.get("nm2", "nil") != "nil", r["meta"], before,
                feec, domc, role, changed)

    def extra_coverage(self, trace_all, flags_all):
        return dict(committee_sizes=sorted(set(r["n"] for r in trace_all if r["act"] == "reset")),
                    scales=sorted(set(r["scale"] for r in trace_all if r["act"] == "reset")),
                    sources=sorted(set(r["src"].split(":")[0] for r in trace_all if r["act"] == "reset")))


class Roster(V.Family):
    name = "container-roster"
    props = ("C14",)
    driver_pkg = "container"
    monitor = ("ContainerRosterTrace.tla", "ContainerRosterTrace.cfg")
    monitor_constants = FIXED
    step_keys = ("act", "S", "c", "v", "from", "len", "bk", "dup", "ash", "rs", "m", "sigs")
    reset_keys = ("n", "src")
    assume = COMMON_ASSUME + [
        "roster keys are real secp256r1 keys (chain.DetKey); signatures are real ECDSA/SHA-256 signatures (RFC 6979) of the message, "
        "'mal' = the (r, n-s) twin, 'junk' = a 63-byte string, 'wrong message' = a valid signature of another message",
        "REP numbers are 1..4 and a roster vector holds at most 32767 keys (two-byte counter), as in the property's quantifier",
    ]
    rule = ("one evaluation = one transaction (addNextEpochNodes, commitContainerListUpdate, submitObjectPut) or one test invocation "
            "(verifyPlacementSignatures) on the real Container contract, judged by the TLA+ monitor against the abstract roster rebuilt "
            "from the successful calls; distinct_nontrivial counts distinct (action,outcome,return,signer class,vector,batch size class,"
            "REP list,signature-matrix class) tuples")
    tiers = {
        "quick": dict(mc=[("ContainerRosterMC.tla", "ContainerRoster_quick.cfg"), ("ContainerRosterMC.tla", "ContainerRoster_long.cfg")],
                      mc_timeout=600, sim=("ContainerRosterMC.tla", "ContainerRoster_sim.cfg", 60, 21), sim_keep=80, nrand=60, shards=6,
                      env=dict(VERIF_FAMMODE="roster")),
        "thorough": dict(mc=[("ContainerRosterMC.tla", "ContainerRoster_quick.cfg"), ("ContainerRosterMC.tla", "ContainerRoster_thorough.cfg"),
                             ("ContainerRosterMC.tla", "ContainerRoster_long.cfg")],
                         mc_timeout=3000, sim=("ContainerRosterMC.tla", "ContainerRoster_sim.cfg", 800, 21), sim_keep=1500, nrand=1000,
                         shards=14, env=dict(VERIF_FAMMODE="roster")),
    }

    def nontrivial_key(self, r, prev):
        if prev is None:
            return None
        S = set(r["S"])
        sc = "alpha" if "ALPHA" in S else ("other" if S else "none")
        ln = r.get("len", 0)
        lc = "0" if ln == 0 else "1" if ln == 1 else "<127" if ln < 127 else "127-129" if ln <= 129 else "<254" if ln < 254 \
            else "254-257" if ln <= 257 else ">257"
        kinds = tuple(tuple(sorted(set((s["f"], s["m"]) for s in vec))) for vec in r.get("sigs", []))
        nsig = tuple(len(vec) for vec in r.get("sigs", []))
        rept = False   # does the committed roster of the addressed container list a key twice in one vector?
        if r["act"] in ("verify", "submit"):
            rept = any(len(set(v)) < len(v) for v in r["obs"]["comm"][r["c"]])
        return (r["act"], r["res"], r["ret"], sc, r.get("v"), lc, r.get("dup", False), tuple(r.get("rs", [])), kinds, nsig, rept)

    def extra_coverage(self, trace_all, flags_all):
        mx = 0
        for r in trace_all:
            for c, vs in r["obs"]["comm"].items():
                for v in vs:
                    mx = max(mx, len(v))
        return dict(committee_sizes=sorted(set(r["n"] for r in trace_all if r["act"] == "reset")), longest_committed_vector=mx,
                    steps_on_rosters_with_repeated_keys=sum(1 for r in trace_all if r["act"] in ("verify", "submit") and
                                                            any(len(set(v)) < len(v) for v in r["obs"]["comm"][r["c"]])),
                    accepted_nonvacuous=sum(1 for r in trace_all if r["act"] in ("verify", "submit") and r["res"] == "HALT" and
                                            (r["ret"] == "true" or r["act"] == "submit") and len(r["obs"]["reps"][r["c"]]) > 0),
                    accepted_matrices=sum(1 for r in trace_all if r["act"] in ("verify", "submit") and
                                          (r["ret"] == "true" or (r["act"] == "submit" and r["res"] == "HALT"))),
                    rejected_matrices=sum(1 for r in trace_all if (r["act"] == "verify" and r["ret"] == "false") or
                                          (r["act"] == "submit" and r["res"] == "FAULT")))


def run(pid, tier, seed, replay=None):
    fam = Roster() if pid == "C14" else Registry()
    if pid in ("C04", "C05") and tier == "quick":
        # quick S1: C05's arithmetic (fees, node-owner, two puts per block) lives in the Fee configuration, C04's registry/NNS
        # interplay in Container_quick (both fees 0); the thorough tier checks all properties on both
        cfgname = "ContainerFee_quick.cfg" if pid == "C05" else "Container_quick.cfg"
        fam.tiers = dict(fam.tiers, quick=dict(fam.tiers["quick"], mc=[("ContainerMC.tla", cfgname)]))
    return V.run_family(fam, pid, tier, seed, replay)
