"""Family `nnssyntax`: C18 — spec/NNSSyntax.tla (+MC, +Trace), driver harness/nnssyntax.

C18 is a pure function over strings, so the pipeline differs from the stateful families in S1/S2:

S1  (a) TLC checks the contract methods over a small abstract storage against the C18 predicates
        (NNSSyntax_<tier>.cfg);
    (b) TLC enumerates every string up to a small length over the reduced alphabets of the property and
        every short sequence of label / decimal-group / hex-group tokens, and compares the scanners
        transcribed from the contract with the reference grammars written from the statement
        (NNSSyntax_enum.cfg, constants substituted here).  A disagreement that no deviation tag explains
        fails S1 (exit 2: the specification is wrong); a tagged one is printed (PRED) and becomes a
        must-run input of S3 - a prediction to be confirmed or refuted on the real contract.
S2  the strings enumerated in (b) (all of them; a seeded sample of the biggest enumeration in the quick
    tier) and `tlc -simulate` runs of the stateful Spec are the inputs of the driver.
S3  harness/nnssyntax offers them to the real NNS contract: test invocations for the enumerations and
    the seeded structured mutations, real transactions with storage observation for the TLC walks,
    the seeded random walks and the traps.
S4  spec/NNSSyntaxTrace.tla judges every recorded invocation.
"""
import collections
import concurrent.futures as cf
import json
import os
import random
import re
import time

import vcheck as V

ALL_DEV = ("SignedOctet", "HexGroupSign", "TailCompression")


def dev_set():
    """Deviation switches of the Spec: the listed deviations minus those recorded as repaired
    (`fixed: property=C18 ... <Tag> ...` in the known-findings file)."""
    fixed = set()
    if os.path.exists(V.KNOWN_FILE):
        for line in open(V.KNOWN_FILE):
            if line.startswith("fixed:") and "property=C18" in line:
                for d in ALL_DEV:
                    if re.search(r"\b%s\b" % d, line):
                        fixed.add(d)
    env = os.environ.get("VERIF_NNSSYNTAX_DEV")
    if env is not None:
        return [d for d in ALL_DEV if d in env.split(",")]
    return [d for d in ALL_DEV if d not in fixed]


def dev_text(dev):
    return "{" + ", ".join('"%s"' % d for d in dev) + "}"


def cfg_with(name, **consts):
    with open(os.path.join(V.SPEC, "cfg", name)) as f:
        text = f.read()
    for k, v in consts.items():
        text, n = re.subn(r"(?m)^\s*%s\s*=.*$" % re.escape(k), "  %s = %s" % (k, v), text)
        if n != 1:
            raise V.Inconclusive("cfg %s has no constant %s" % (name, k))
    return text


TUPLE_RE = re.compile(r"<<(.*)>>")


def parse_tuple(s):
    m = TUPLE_RE.search(s)
    body = m.group(1).strip() if m else ""
    return [int(x) for x in body.split(",")] if body else []


def enum_check(enum, maxlen, tier_letter, dev, timeout, workers):
    """S1(b): one enumeration. Returns (mc dict, strings [(kind, chars)], predictions [(typ, chars)])."""
    text = cfg_with("NNSSyntax_enum.cfg", Dev=dev_text(dev), Enum='"%s"' % enum, MaxLen=maxlen,
                    Tier='"%s"' % tier_letter, EmitStr="TRUE")
    out, dt = V.tlc("NNSSyntaxMC.tla", "NNSSyntax_enum_%s.cfg" % enum, workers=workers, timeout=timeout,
                    ok_codes=(0, 10, 11, 12, 13, 14), cfg_text=text, java_opts="-Xss64m")
    m = re.search(r"(\d+) states generated, (\d+) distinct states found", out)
    if "No error has been found" not in out or not m:
        tail = "\n".join(l for l in out.splitlines()
                         if not l.startswith(("Parsing", "Semantic", "Linting", '"STR|', '"PRED|')))[-3000:]
        raise V.Inconclusive("S1: enumeration %s: the transcribed scanners and the reference grammars disagree on a string "
                             "that no deviation tag explains (specification-level problem, not a verdict):\n%s" % (enum, tail))
    strs, preds = [], []
    for line in out.splitlines():
        line = V.unquote(line)
        if line.startswith("STR|"):
            _, k, tup = line.split("|", 2)
            strs.append((k, parse_tuple(tup)))
        elif line.startswith("PRED|"):
            _, typ, tup = line.split("|", 2)
            preds.append((int(typ), parse_tuple(tup)))
    mc = dict(states=int(m.group(2)), transitions=int(m.group(1)), wall_s=round(dt, 1), module="NNSSyntaxMC.tla",
              cfg="NNSSyntax_enum.cfg[Enum=%s,MaxLen=%s,Tier=%s]" % (enum, maxlen, tier_letter),
              cmd="tlc -config NNSSyntax_enum.cfg NNSSyntaxMC", predicted_disagreements=len(preds))
    return mc, strs, preds


TIERS = {
    # enums: (Enum, MaxLen, full, keep) - every enumerated string of at most `full` bytes goes to the real
    #        contract (None: all of them), plus a seeded sample of `keep` of the longer ones, plus every
    #        predicted disagreement
    "quick": dict(letter="Q", mc=("NNSSyntaxMC.tla", "NNSSyntax_quick.cfg"), mc_timeout=600,
                  enums=[("namechars", 4, 3, 5000), ("addrchars", 4, 3, 2000), ("labels", 3, None, 0), ("octets", 5, None, 0),
                         ("hexgroups", 9, 0, 8000)],
                  sim=(40, 31), sim_keep=40, nrand=12, shards=6, batch=1500, drive_timeout=900),
    "thorough": dict(letter="T", mc=("NNSSyntaxMC.tla", "NNSSyntax_thorough.cfg"), mc_timeout=3000,
                     enums=[("namechars", 6, 5, 150000), ("addrchars", 6, 5, 100000), ("labels", 4, None, 0), ("octets", 5, None, 0),
                            ("hexgroups", 9, 0, 250000)],
                     sim=(1500, 31), sim_keep=1500, nrand=400, shards=14, batch=4000, drive_timeout=3000),
}

STEP_KEYS = ("act", "S", "name", "typ", "id", "s")
KIND_OF_TYP = {1: "A", 28: "6"}

ASSUME = [
    "neo-go v0.107.0 compiler/VM/ledger/neotest are faithful to the production platform (transaction atomicity on FAULT, std.atoi/std.stringSplit semantics)",
    "the reference grammar for address RANGES follows the exclusion lists written in checkIPv4/checkIPv6 (IANA is not second-guessed); syntax and arithmetic are judged",
    "AAAA texts with an embedded dotted quad (RFC 4291 form 3) are outside the input space",
    "a rejection for a reason other than syntax (unregistered TLD, missing parent, wrong method for a TLD, used record slot, missing witness) is not judged: the predicate AllValid "
    "is conditioned on the observed storage allowing the call; record types other than A/AAAA/CNAME/TXT must be rejected",
    "no domain expires during a run (the clock is never advanced by years); all domains are owned by the committee account",
    "fault messages are used only to classify the refusing guard for the binding (DRIFT), never by a property predicate",
    "TLC evaluates the property predicates correctly on the recorded steps",
]
RULE = ("one evaluation = one string offered to the real NNS contract through one method (test invocation on a fixed base "
        "storage, or a real transaction with storage observation) and judged by the TLA+ monitor; distinct_nontrivial counts "
        "distinct (method, record type, outcome, refusing-guard class, reference verdict class, length class, mode) tuples")


def scenario_of_factory(trace_all, resets):
    by = collections.defaultdict(list)
    for r in trace_all:
        by[str(r["t"])].append(r)

    def scenario_of(tid):
        tid = str(tid)
        rs = [r for r in by[tid] if r.get("src") != "setup"]     # the setup steps are re-executed by the driver itself
        rst = resets.get(tid.split(".")[0], {})
        return dict(n=rst.get("n", 1), mode=rst.get("mode", "tx"), src=rst.get("src", "replay"),
                    steps=[{k: r[k] for k in STEP_KEYS} for r in rs])
    return scenario_of, by


def chars(s):
    return "".join(chr(c) if 32 <= c < 127 else "\\x%02x" % c for c in s)


def nontrivial_key(r):
    n = len(r["s"])
    lc = "0" if n == 0 else "<3" if n < 3 else "<=16" if n <= 16 else "<=63" if n <= 63 else "<=255" if n <= 255 else ">255"
    return (r["act"], r["typ"], r["res"], r["ret"], r["why"], lc, r["mode"], len(r.get("pre", [])))


def run(pid, tier, seed, replay=None):
    t0 = time.time()
    cfg = TIERS[tier]
    os.environ["JAVA_TOOL_OPTIONS"] = "-Xss64m"   # the scanners recurse over strings of up to 256+ bytes
    dev = dev_set()
    known = V.known_findings()
    workers = min(V.NCPU, 12)
    mcs, scs, preds_all = [], [], []
    n_enum = 0
    if replay is None:
        # ---- S1 (a): the methods over a small storage
        mc = V.tlc_modelcheck(cfg["mc"][0], cfg["mc"][1], timeout=cfg["mc_timeout"], workers=workers,
                              cfg_text=cfg_with(cfg["mc"][1], Dev=dev_text(dev)))
        V.log("S1 %s/%s: %d distinct states, %d generated, %.0fs (Dev = %s)" % (cfg["mc"][0], cfg["mc"][1], mc["states"],
                                                                              mc["transitions"], mc["wall_s"], dev_text(dev)))
        mcs.append(mc)
        # ---- S1 (b) + S2: enumerations
        rnd = random.Random(seed)
        items = []
        for enum, maxlen, full, keep in cfg["enums"]:
            mc, strs, preds = enum_check(enum, maxlen, cfg["letter"], dev, cfg["mc_timeout"], workers)
            V.log("S1 enum %s<=%d: %d strings, scanners = reference grammars except %d tagged predictions, %.0fs" %
                  (enum, maxlen, mc["states"], len(preds), mc["wall_s"]))
            mcs.append(mc)
            strs.sort()
            if full is not None:
                longer = [x for x in strs if len(x[1]) > full]
                strs = [x for x in strs if len(x[1]) <= full] + (rnd.sample(longer, keep) if len(longer) > keep else longer)
            items += [dict(k=k, s=s) for k, s in strs]
            preds_all += preds
            n_enum += len(strs)
        seen = set()
        pred_items = []
        for typ, s in preds_all:
            key = (typ, tuple(s))
            if key not in seen:
                seen.add(key)
                pred_items.append(dict(k=KIND_OF_TYP[typ], s=s))
        rnd.shuffle(items)
        B = cfg["batch"]
        for i in range(0, len(pred_items), B):
            scs.append(dict(mode="call", src="tlc-pred", items=pred_items[i:i + B]))
        for i in range(0, len(items), B):
            scs.append(dict(mode="call", src="tlc-enum", items=items[i:i + B]))
        # ---- S2: walks of the stateful Spec
        num, depth = cfg["sim"]
        raw, dt = V.tlc_simulate("NNSSyntaxMC.tla", "NNSSyntax_sim.cfg", num, depth, seed,
                                 cfg_text=cfg_with("NNSSyntax_sim.cfg", Dev=dev_text(dev)))
        uniq = {json.dumps(s, sort_keys=True): s for s in raw}
        keys = sorted(uniq)
        random.Random(seed).shuffle(keys)
        sims = [dict(mode="tx", src="tlc", steps=[{k: st[k] for k in STEP_KEYS} for st in uniq[k]["steps"]])
                for k in keys[:cfg["sim_keep"]]]
        V.log("S2: %d enumerated strings (+%d predicted disagreements) and %d TLC walks (%.0fs) go to the real contract" %
              (n_enum, len(pred_items), len(sims), dt))
        # interleave so that every shard gets walks and batches
        scs = scs + sims
        nrand = cfg["nrand"]
    else:
        rp = json.load(open(replay))
        scs = [rp["scenario"]]
        nrand = 0
    scen_path = os.path.join(V.scratch(), "scenarios.json")
    json.dump(scs, open(scen_path, "w"))
    binary, dt = V.go_build_test("nnssyntax")
    V.log("driver harness/nnssyntax built against %s working tree (%.0fs)" % (V.REPO, dt))
    nsh = 1 if replay else cfg["shards"]
    envs = []
    for i in range(nsh):
        envs.append(dict(VERIF_OUT=os.path.join(V.scratch(), "trace%d.ndjson" % i), VERIF_SCEN=scen_path, VERIF_SEED=seed,
                         VERIF_NRAND=nrand, VERIF_SHARD=i, VERIF_NSHARD=nsh, VERIF_TIER=tier,
                         VERIF_NOTRAPS="1" if replay else ""))
    stats, dt = V.go_drive(binary, envs, timeout=cfg["drive_timeout"])
    acts = collections.Counter()
    for s in stats:
        acts.update(s.get("acts", {}))
    V.log("S3: %d invocations executed on the real code (%.0fs)" % (sum(s["lines"] for s in stats), dt))

    # ---- S4: every part file is judged by its own monitor run (bounded heap, at most 6 at a time) and
    # then streamed once; only the lines of flagged traces are kept in memory
    import glob
    parts = []
    for i in range(nsh):
        base = os.path.join(V.scratch(), "trace%d.ndjson" % i)
        parts += [base] + sorted(glob.glob(base + ".*"), key=lambda x: int(x.rsplit(".", 1)[1]))
    parts = [x for x in parts if os.path.exists(x) and os.path.getsize(x) > 0]

    def light(r):
        return {k: v for k, v in r.items() if k not in ("obs", "fault")}

    def judge_part(path):
        fl, done, _ = V.tlc_monitor("NNSSyntaxTrace.tla", "NNSSyntaxTrace.cfg", path, constants={"Dev": dev_text(dev)},
                                    timeout=cfg.get("monitor_timeout", 2400))
        flagged = set(f["trace"] for f in fl)
        n, keys, resets, keep, modes, first = 0, set(), {}, collections.defaultdict(list), collections.Counter(), []
        with open(path) as f:
            for ln, line in enumerate(f, 1):
                if not line.strip():
                    continue
                r = json.loads(line)
                n += 1
                tid = str(r["t"])
                if r["act"] == "reset":
                    resets[tid] = light(r)
                    continue
                keys.add(nontrivial_key(r))
                modes[r["mode"]] += 1
                if tid in flagged:
                    keep[tid].append((ln, light(r)))
                elif len(first) < 60:
                    first.append(light(r))
        if done != n:
            raise V.Inconclusive("S4: monitor consumed %s of %d lines of %s" % (done, n, os.path.basename(path)))
        return dict(flags=fl, n=n, keys=keys, resets=resets, keep=keep, modes=modes, first=first)
    tm = time.time()
    os.environ["JDK_JAVA_OPTIONS"] = "-Xmx3g"
    with cf.ThreadPoolExecutor(max_workers=6) as ex:
        results = list(ex.map(judge_part, parts))
    os.environ.pop("JDK_JAVA_OPTIONS", None)
    flags_all, trace_all, resets_all = [], [], {}
    distinct, modes, n_lines, first = set(), collections.Counter(), 0, []
    for res in results:
        index = {}
        for tid, lst in res["keep"].items():
            for ln, r in lst:
                trace_all.append(r)
                index[ln] = len(trace_all)
        for f in res["flags"]:
            f["line"] = index[f["line"]]
        flags_all += res["flags"]
        resets_all.update(res["resets"])
        distinct |= res["keys"]
        modes.update(res["modes"])
        n_lines += res["n"]
        first += res["first"][:60 - len(first)] if len(first) < 60 else []
    V.log("S4: %d recorded invocations judged by the TLA+ monitor NNSSyntaxTrace in %d parts, %d flags (%.0fs)" %
          (n_lines, len(parts), len(flags_all), time.time() - tm))
    # vacuity guard: every method must have accepted and rejected strings
    if replay is None:
        for a in ("isAvailable", "register", "registerTLD", "addRecord", "setRecord"):
            if acts.get(a + "|HALT", 0) < 20 or acts.get(a + "|FAULT", 0) < 20:
                raise V.Inconclusive("too few accepted/rejected strings for %s (%d/%d): the harness is not exercising the code" %
                                     (a, acts.get(a + "|HALT", 0), acts.get(a + "|FAULT", 0)))
    scenario_of, by = scenario_of_factory(trace_all, resets_all)
    mine = [f for f in flags_all if f["prop"] == pid]
    # the enumerations produce many witnesses of the same deviation: print/save a few per (pred, act, tags)
    per = collections.defaultdict(list)
    for f in sorted(mine, key=lambda f: f["line"]):
        per[(f["pred"], f["act"], tuple(f["tags"]))].append(f)
    shown = []
    for key, fs in per.items():
        traces = []
        for f in fs:
            if f["trace"] not in traces:
                traces.append(f["trace"])
            if len(traces) > 3:
                break
        shown += [f for f in fs if f["trace"] in traces[:3]]
    shown += [f for f in flags_all if f["prop"] == "DRIFT"]
    violations, known_seen, drift = V.decide(pid, shown, trace_all, known, seed, scenario_of)
    classes = {}
    for (pred, act, tags), fs in sorted(per.items()):
        k = "%s/%s/%s" % (pred, act, "+".join(tags) or "untagged")
        classes[k] = len(fs)
        r = trace_all[fs[0]["line"] - 1]
        print("C18 flagged: %-50s %6d invocations, e.g. %s(%s\"%s\") -> %s" %
              (k, len(fs), r["act"], ("typ %d, " % r["typ"]) if r["typ"] else "", chars(r["s"]), r["res"]))
    samples = []
    by_first = collections.defaultdict(list)
    for r in first:
        by_first[str(r["t"])].append(r)
    for tid in [x for x in by_first if "." not in x][:1] + [x for x in by_first if "." in x][:8]:
        samples.append(dict(trace=tid, steps=[dict(act=r["act"], typ=r["typ"], s=chars(r["s"]), pre=[chars(x) for x in r["pre"]],
                                                   res=r["res"], ret=r["ret"], why=r["why"], mode=r["mode"]) for r in by_first[tid][:12]]))
    cov = dict(states=sum(m["states"] for m in mcs) or 1, transitions=sum(m["transitions"] for m in mcs) or 1,
               traces_validated_against_impl=modes.get("call", 0) + len(resets_all),
               evaluations=n_lines - len(resets_all),
               distinct_nontrivial=len(distinct), rule=RULE, samples=samples, exhaustive=False, s1=mcs,
               actions=dict(acts), drift_steps=drift, known_findings_seen=sorted(known_seen),
               enumerated_strings=n_enum, predicted_disagreements=len(preds_all), tlc_walks=len([s for s in scs if s.get("mode") == "tx"]),
               random_scenarios=nrand, monitor_flags_total=len(mine), flag_classes=classes, dev=dev,
               committee_sizes=sorted(set(r["n"] for r in resets_all.values())), modes=dict(modes))
    if replay is None:
        V.write_evidence(pid, tier, seed, "model_checking", cov, time.time() - t0, len(violations), ASSUME)
    return 1 if violations else 0
