"""Generic pipeline for the model-based checks of /verif.

S1  TLC exhaustive check of the Spec against the Props (design level, small constants)
S2  TLC simulation of the Spec -> scenarios (action sequences) for the Go driver
S3  Go driver executes scenarios (+ its own seeded/random/trap scenarios) on the real
    code compiled from /repo's working tree and records ndjson traces
S4  TLC trace monitor evaluates Props (deciding) and Spec actions (binding) on every
    recorded step; FLAG lines are turned into verdicts here

Exit codes: 0 held (possibly with KNOWN-FINDING lines), 1 violation, 2 inconclusive /
infrastructure failure (never a verdict).
"""
import atexit
import glob
import json
import os
import re
import shutil
import subprocess
import sys
import tempfile
import time

VERIF = os.path.dirname(os.path.dirname(os.path.abspath(__file__)))
REPO = os.environ.get("VERIF_REPO", "/repo")
SPEC = os.path.join(VERIF, "spec")
HARNESS = os.path.join(VERIF, "harness")
# evidence of runs against a scratch tree (seeded changes, mutation runs) never overwrites the committed evidence
EVID = os.path.join(VERIF, "evidence") if os.path.realpath(REPO) == "/repo" else os.path.join(VERIF, "out", "evidence-scratch")
REPLAYS = os.path.join(VERIF, "out", "replay")
KNOWN_FILE = os.environ.get("VERIF_KNOWN_FILE") or os.path.join(VERIF, "KNOWN_FINDINGS.txt")
NCPU = os.cpu_count() or 4

GOENV = dict(os.environ, GOFLAGS="-mod=mod", GOPROXY="off", GOSUMDB="off", GOTOOLCHAIN="local",
             VERIF_REPO=REPO, VERIF_HARNESS=HARNESS)


class Inconclusive(Exception):
    pass


def log(*a):
    print("[check]", *a, file=sys.stderr, flush=True)


_scratch = None


def scratch():
    """Scratch directory outside /repo and /verif, removed at exit."""
    global _scratch
    if _scratch is None:
        base = os.environ.get("VERIF_TMP", tempfile.gettempdir())
        _scratch = tempfile.mkdtemp(prefix="verif-", dir=base)
        if not os.environ.get("VERIF_KEEP"):
            atexit.register(shutil.rmtree, _scratch, ignore_errors=True)
        else:
            log("keeping scratch", _scratch)
    return _scratch


def run(cmd, cwd=None, env=None, timeout=None, ok_codes=(0,), stdin=None):
    t0 = time.time()
    try:
        p = subprocess.run(cmd, cwd=cwd, env=env, timeout=timeout, stdout=subprocess.PIPE, stderr=subprocess.STDOUT,
                           text=True, input=stdin)
    except subprocess.TimeoutExpired as e:
        raise Inconclusive("timeout after %ss: %s" % (timeout, " ".join(cmd[:6]))) from e
    if p.returncode not in ok_codes:
        tail = "\n".join(p.stdout.splitlines()[-40:])
        raise Inconclusive("command failed (%d): %s\n%s" % (p.returncode, " ".join(cmd[:8]), tail))
    return p.stdout, time.time() - t0


# ----------------------------------------------------------------------------- TLC

def spec_dir():
    d = os.path.join(scratch(), "spec")
    if not os.path.isdir(d):
        os.makedirs(d)
        for f in glob.glob(os.path.join(SPEC, "*.tla")) + glob.glob(os.path.join(SPEC, "lib", "*.tla")) + \
                glob.glob(os.path.join(SPEC, "cfg", "*.cfg")):
            shutil.copy(f, d)
    return d


_meta = [0]


def tlc(module, cfg, extra=(), workers=None, timeout=600, ok_codes=(0,), cfg_text=None, java_opts=None):
    d = spec_dir()
    _meta[0] += 1
    meta = os.path.join(scratch(), "meta%d" % _meta[0])
    if cfg_text is not None:
        cfg = "gen%d_%s" % (_meta[0], cfg)
        with open(os.path.join(d, cfg), "w") as f:
            f.write(cfg_text)
    cmd = ["tlc", "-workers", str(workers or min(NCPU, 8)), "-metadir", meta, "-config", cfg] + list(extra) + [module]
    env = dict(os.environ)
    if java_opts:
        env["JAVA_TOOL_OPTIONS"] = java_opts
    out, dt = run(cmd, cwd=d, env=env, timeout=timeout, ok_codes=ok_codes)
    shutil.rmtree(meta, ignore_errors=True)
    return out, dt


COV_RE = re.compile(r"^\s*\|*line (\d+), col (\d+) to line (\d+), col (\d+) of module (\w+): (\d+)\s*$")


def tlc_modelcheck(module, cfg, timeout=900, workers=None, cfg_text=None, coverage=False):
    """S1. Returns dict(states, transitions, wall_s, cmd). Spec |/= Props is a spec bug -> Inconclusive.
    coverage=True adds `-coverage 1` and reports the expressions of the Spec modules that TLC never evaluated
    (vacuity guard: a guard branch or effect that is never reached in the bounded model was never checked)."""
    out, dt = tlc(module, cfg, workers=workers, timeout=timeout, ok_codes=(0, 10, 11, 12, 13, 14), cfg_text=cfg_text,
                  extra=(["-coverage", "1"] if coverage else []))
    m = re.search(r"(\d+) states generated, (\d+) distinct states found", out)
    if "No error has been found" not in out or not m:
        tail = "\n".join(l for l in out.splitlines() if not l.startswith(("Parsing", "Semantic", "Linting")))[-3000:]
        raise Inconclusive("S1: TLC did not accept %s/%s (specification-level problem, not a verdict):\n%s" % (module, cfg, tail))
    res = dict(states=int(m.group(2)), transitions=int(m.group(1)), wall_s=round(dt, 1),
               cmd="tlc -config %s %s" % (cfg, module), module=module, cfg=cfg)
    if coverage:
        last = {}
        for line in out.splitlines():      # TLC prints cumulative coverage several times: keep the last count per site
            c = COV_RE.match(line)
            if c:
                last[(c.group(5), int(c.group(1)), int(c.group(2)), int(c.group(3)), int(c.group(4)))] = int(c.group(6))
        zero = sorted(k for k, v in last.items() if v == 0)
        res["coverage"] = dict(sites=len(last), never_evaluated=len(zero),
                               never_evaluated_sites=["%s:%d.%d-%d.%d" % k for k in zero[:40]])
    return res


def tlc_simulate(module, cfg, num, depth, seed, timeout=600, marker="SCEN ", cfg_text=None):
    """S2. The spec prints `SCEN <json>` lines (one scenario each) from a constraint; returns the parsed list."""
    out, dt = tlc(module, cfg, extra=["-simulate", "num=%d" % num, "-depth", str(depth), "-seed", str(seed), "-deadlock"],
                  workers=1, timeout=timeout, ok_codes=(0, 10, 11, 12, 13, 14), cfg_text=cfg_text)
    scs = []
    for line in out.splitlines():
        line = line.strip()
        if line.startswith('"' + marker):
            # PrintT of a string prints it quoted with escapes
            try:
                s = json.loads(line)
                scs.append(json.loads(s[len(marker):]))
            except Exception:
                pass
        elif line.startswith(marker):
            try:
                scs.append(json.loads(line[len(marker):]))
            except Exception:
                pass
    if not scs:
        tail = "\n".join(out.splitlines()[-30:])
        raise Inconclusive("S2: TLC simulation produced no scenarios:\n" + tail)
    return scs, dt


FLAG_RE = re.compile(r'^FLAG\|(\d+)\|([^|]*)\|([^|]*)\|([^|]*)\|([^|]*)\|(.*)$')
DONE_RE = re.compile(r'^DONE\|(\d+)$')


def unquote(line):
    """PrintT prints strings quoted with escapes."""
    line = line.strip()
    if line.startswith('"') and line.endswith('"'):
        try:
            return json.loads(line)
        except Exception:
            return line[1:-1]
    return line


def tlc_monitor(module, cfg, trace_path, timeout=1800, constants=None):
    """S4. Runs the trace monitor on one ndjson file. Returns (flags, nlines, wall)."""
    d = spec_dir()
    with open(os.path.join(d, cfg)) as f:
        text = f.read()
    text = text.replace('"trace.ndjson"', json.dumps(trace_path))
    if constants:
        for k, v in constants.items():
            text = re.sub(r"(?m)^\s*%s\s*=.*$" % re.escape(k), "  %s = %s" % (k, v), text)
    # bounded heap: several monitors run side by side (the JVM default would be 25 % of RAM each)
    out, dt = tlc(module, cfg, workers=1, timeout=timeout, ok_codes=(0,), cfg_text=text,
                  java_opts="-Xss512m -Xmx%dg" % int(os.environ.get("VERIF_MONITOR_HEAP_GB", "10")))
    flags, done = [], None
    for line in out.splitlines():
        line = unquote(line)
        m = FLAG_RE.match(line)
        if m:
            tags = re.findall(r'[A-Za-z0-9_:.-]+', m.group(6))
            flags.append(dict(line=int(m.group(1)), prop=m.group(2), pred=m.group(3), act=m.group(4),
                              trace=m.group(5), tags=sorted(tags)))
            continue
        m = DONE_RE.match(line)
        if m:
            done = int(m.group(1))
    if "Error:" in out or "error" in out.lower() and "No error has been found" not in out:
        tail = "\n".join(l for l in out.splitlines() if not l.startswith(("Parsing", "Semantic", "Linting")))[-3000:]
        raise Inconclusive("S4: TLC monitor run failed:\n" + tail)
    return flags, done, dt


# ----------------------------------------------------------------------------- Go driver

def go_build_test(pkg, tags="verif"):
    """Builds the driver test binary of harness/<pkg> against /repo's working tree."""
    outbin = os.path.join(scratch(), pkg.replace("/", "_") + ".test")
    # a private copy of go.mod/go.sum: concurrent checks never rewrite the committed files, and the
    # `replace` follows VERIF_REPO (scratch worktrees used for mutation runs)
    modfile = os.path.join(scratch(), "go.mod")
    if not os.path.exists(modfile):
        with open(os.path.join(HARNESS, "go.mod")) as f:
            mod = f.read()
        mod = re.sub(r"(?m)^replace github.com/nspcc-dev/neofs-contract => .*$",
                     "replace github.com/nspcc-dev/neofs-contract => " + REPO, mod)
        with open(modfile, "w") as f:
            f.write(mod)
        shutil.copy(os.path.join(HARNESS, "go.sum"), os.path.join(scratch(), "go.sum"))
    out, dt = run(["go", "test", "-modfile", modfile, "-c", "-tags", tags, "-o", outbin, "./" + pkg], cwd=HARNESS, env=GOENV,
                  timeout=1200)
    return outbin, dt


def go_drive(binary, env_list, timeout=3000, run_name="TestDrive"):
    """Runs the driver once per env dict (in parallel). Each writes its own VERIF_OUT. Returns stats list."""
    procs = []
    for i, e in enumerate(env_list):
        env = dict(GOENV)
        env.update({k: str(v) for k, v in e.items()})
        logf = open(os.path.join(scratch(), "drive%d.log" % i), "w+")
        p = subprocess.Popen([binary, "-test.run", run_name, "-test.timeout", "%ds" % timeout], cwd=scratch(), env=env,
                             stdout=logf, stderr=subprocess.STDOUT)
        procs.append((p, logf))
    stats = []
    t0 = time.time()
    for p, logf in procs:
        try:
            p.wait(timeout=max(1, timeout + 30 - (time.time() - t0)))
        except subprocess.TimeoutExpired:
            p.kill()
            raise Inconclusive("S3: driver timeout")
        logf.seek(0)
        out = logf.read()
        logf.close()
        if p.returncode != 0:
            raise Inconclusive("S3: driver failed (%d):\n%s" % (p.returncode, "\n".join(out.splitlines()[-40:])))
        st = None
        for line in out.splitlines():
            if line.startswith("DRIVER-STATS "):
                st = json.loads(line[len("DRIVER-STATS "):])
        if st is None:
            raise Inconclusive("S3: driver printed no statistics:\n" + "\n".join(out.splitlines()[-20:]))
        stats.append(st)
    return stats, time.time() - t0


def read_trace(path):
    with open(path) as f:
        return [json.loads(l) for l in f if l.strip()]


# ----------------------------------------------------------------------------- known findings

def known_findings():
    """Lines: known: property=<id> site=<act> tag=<Tag> <text>   |   fixed: property=<id> <commit> <text>"""
    known = []
    if os.path.exists(KNOWN_FILE):
        for line in open(KNOWN_FILE):
            line = line.strip()
            if line.startswith("known:"):
                kv = dict(re.findall(r"(\w+)=(\S+)", line))
                known.append(dict(prop=kv.get("property"), site=kv.get("site"), tag=kv.get("tag"), text=line))
    return known


def is_known(flag, known):
    for k in known:
        if k["prop"] == flag["prop"] and k["tag"] in flag["tags"] and (k["site"] in ("*", flag["act"])):
            return k
    return None


# ----------------------------------------------------------------------------- evidence / verdict

def write_evidence(pid, tier, seed, level, coverage, wall, violations, assumptions):
    os.makedirs(EVID, exist_ok=True)
    ev = dict(property_id=pid, tier=tier, seed=int(seed), level=level, coverage=coverage, assumptions=assumptions,
              wall_s=round(wall, 1), violations=violations)
    with open(os.path.join(EVID, pid + ".json"), "w") as f:
        json.dump(ev, f, indent=1, sort_keys=True)
        f.write("\n")


def save_replay(pid, seed, idx, obj):
    os.makedirs(REPLAYS, exist_ok=True)
    p = os.path.join(REPLAYS, "%s-seed%s-%s.json" % (pid, seed, idx))
    with open(p, "w") as f:
        json.dump(obj, f, indent=1)
    return p


def compact_step(r, keys=("act", "S", "a", "b", "amt", "x", "res", "ret")):
    return {k: r[k] for k in keys if k in r}


def decide(pid, flags, trace, known, seed, scenario_of, drift_ok=True):
    """Turns monitor flags into KNOWN-FINDING / VIOLATION lines.

    flags: list of flag dicts for all properties of the family; trace: list of records (1-based lines);
    scenario_of(trace_id) -> replayable scenario object.
    Only the first offending line of a trace for this property is decisive for that trace: later flags of
    the same trace are consequences of a state the property already rejects.
    Returns (violations, known_seen, drift_count).
    """
    mine = [f for f in flags if f["prop"] == pid]
    drift = [f for f in flags if f["prop"] == "DRIFT"]
    first = {}
    for f in sorted(mine, key=lambda f: f["line"]):
        first.setdefault(f["trace"], []).append(f)
    violations, known_seen = [], {}
    for tid, fl in first.items():
        l0 = fl[0]["line"]
        for f in fl:
            if f["line"] != l0:
                break
            k = is_known(f, known)
            if k:
                known_seen.setdefault(k["text"], []).append(f)
            else:
                rec = trace[f["line"] - 1]
                path = save_replay(pid, seed, "t%s" % tid, dict(property=pid, pred=f["pred"], line=f["line"],
                                                                step=compact_step(rec), tags=f["tags"],
                                                                scenario=scenario_of(tid)))
                violations.append((f, path))
                break
    for text, fs in known_seen.items():
        print("KNOWN-FINDING: property=%s %s (seen on %d steps, e.g. pred=%s act=%s)" %
              (pid, text.split(" ", 1)[1], len(fs), fs[0]["pred"], fs[0]["act"]))
    seen = set()
    for f, path in violations:
        key = (f["pred"], f["act"])
        if key in seen and len(seen) > 5:
            continue
        seen.add(key)
        print("VIOLATION property=%s replay=%s pred=%s act=%s tags=%s" % (pid, path, f["pred"], f["act"], ",".join(f["tags"])))
    if drift:
        acts = sorted(set((f["pred"], f["act"]) for f in drift))
        print("DRIFT: %d recorded steps are not steps of the Spec (model drift, not an alarm): %s" % (len(drift), acts[:8]))
    return violations, known_seen, len(drift)



# ----------------------------------------------------------------------------- binding self-test

def _int_leaves(o, path=()):
    """Paths of integer/boolean leaves of a JSON value (bool flips, ints are incremented)."""
    out = []
    if isinstance(o, bool) or isinstance(o, int):
        out.append(path)
    elif isinstance(o, dict):
        for k in sorted(o):
            out += _int_leaves(o[k], path + (k,))
    elif isinstance(o, list):
        for i, v in enumerate(o):
            out += _int_leaves(v, path + (i,))
    return out


def _bump(o, path):
    for k in path[:-1]:
        o = o[k]
    v = o[path[-1]]
    o[path[-1]] = (not v) if isinstance(v, bool) else v + 1
    return v


def binding_selftest(F, trace, seed, k=4, timeout=300):
    """Is the monitor really bound to what was observed?  Takes k recorded traces of the run that has just been judged
    clean, corrupts ONE observed value in each (an integer/boolean leaf of `obs` of a random step: +1 / flipped; or one
    state-changing step is dropped), and runs the same TLA+ monitor on each corrupted trace.  A corruption is `rejected`
    when the monitor flags the corrupted step or the step after it (property flag or DRIFT flag) or TLC cannot evaluate
    the corrupted record at all.  Nothing here contributes to a verdict: the counts go to the evidence file, and a run in
    which no corruption at all is rejected is reported on stderr."""
    import random
    import concurrent.futures as cf
    rnd = random.Random(int(seed) * 7919 + 17)
    by = {}
    for r in trace:
        by.setdefault(str(r["t"]), []).append(r)
    tids = [t for t, rs in by.items() if len(rs) >= 3 and rs[0].get("act") == "reset"]
    rnd.shuffle(tids)
    jobs = []
    for t in tids:
        if len(jobs) >= k:
            break
        rs = json.loads(json.dumps(by[t]))
        kind = "drop" if len(jobs) == k - 1 else "bump"
        if kind == "drop":
            cand = [i for i in range(1, len(rs) - 1) if rs[i].get("res") == "HALT" and rs[i].get("obs") != rs[i - 1].get("obs")
                    and rs[i + 1].get("act") != "reset"]
            if not cand:
                continue
            i = rnd.choice(cand)
            what = "dropped step %d (%s)" % (i, rs[i].get("act"))
            del rs[i]
            lines = (i + 1,)          # 1-based line of the step that now follows the gap
        else:
            cand = [i for i in range(1, len(rs)) if isinstance(rs[i].get("obs"), (dict, list)) and _int_leaves(rs[i]["obs"])]
            if not cand:
                continue
            i = rnd.choice(cand)
            path = rnd.choice(_int_leaves(rs[i]["obs"]))
            old = _bump(rs[i]["obs"], path)
            what = "obs.%s of step %d (%s): %r corrupted" % (".".join(map(str, path)), i, rs[i].get("act"), old)
            lines = (i + 1, i + 2)
        p = os.path.join(scratch(), "selftest%d.ndjson" % len(jobs))
        with open(p, "w") as f:
            for r in rs:
                f.write(json.dumps(r) + "\n")
        jobs.append((p, kind, what, lines))

    def one(job):
        p, kind, what, lines = job
        try:
            fl, done, dt = tlc_monitor(F.monitor[0], F.monitor[1], p, constants=F.monitor_constants, timeout=timeout)
        except Inconclusive:
            return dict(kind=kind, what=what, rejected=True, how="TLC cannot evaluate the corrupted record")
        hit = [f for f in fl if f["line"] in lines]
        return dict(kind=kind, what=what, rejected=bool(hit), how=",".join(sorted(set(f["prop"] + ":" + f["pred"] for f in hit)))[:200])
    with cf.ThreadPoolExecutor(max_workers=4) as ex:
        res = list(ex.map(one, jobs))
    rej = sum(1 for r in res if r["rejected"])
    log("binding self-test: %d of %d single-value corruptions of recorded traces rejected by the monitor" % (rej, len(res)))
    if res and rej == 0:
        log("WARNING: no corruption was rejected - the monitor may not be bound to the observations")
    return dict(corruptions=len(res), rejected=rej, details=res)

# ----------------------------------------------------------------------------- generic family pipeline

class Family:
    """Description of one property family. Subclass/instantiate in lib/fam_<name>.py.

    Attributes
      name            family name (harness/<driver_pkg>, logs)
      props           tuple of property ids served
      level           evidence level (default model_checking)
      assume          list of assumption strings for the evidence file
      tiers           {"quick": {...}, "thorough": {...}} with keys
                        mc: list of (module, cfg) checked exhaustively by TLC (S1), may be []
                        mc_timeout, sim: (module, cfg, num, depth) or None, sim_keep, nrand, shards,
                        drive_timeout, env: extra environment for the driver
      driver_pkg      Go package under harness/ with TestDrive
      monitor         (module, cfg) of the trace monitor; cfg must contain TraceFile = "trace.ndjson"
      step_keys       keys of a trace record that make up a replayable scenario step
      reset_keys      keys of the reset record copied into a replay scenario (e.g. n, scale, src)
      min_halt_share  vacuity guard: minimal share of HALTed steps (default 0.2)
    Methods (override)
      nontrivial_key(r, prev) -> hashable or None
      scenario_from_tlc(s)    -> scenario dict given one TLC-printed object (default: project steps to step_keys)
      rule                    text for the evidence file
    """
    level = "model_checking"
    reset_keys = ("n", "scale", "src")
    min_halt_share = 0.2
    rule = ""
    assume = []
    monitor_constants = None

    def nontrivial_key(self, r, prev):
        return (r.get("act"), r.get("res"), r.get("ret"))

    def scenario_from_tlc(self, s):
        return dict(steps=[{k: st[k] for k in self.step_keys if k in st} for st in s["steps"]])

    def extra_coverage(self, trace_all, flags_all):
        return {}


def run_family(F, pid, tier, seed, replay=None):
    import collections
    import concurrent.futures as cf
    import random
    t0 = time.time()
    cfg = F.tiers[tier]
    known = known_findings()
    mcs = []
    scs = []
    nrand = 0
    if replay is None:
        for (module, c) in cfg.get("mc", []):
            mc = tlc_modelcheck(module, c, timeout=cfg.get("mc_timeout", 900), workers=min(NCPU, 12),
                                coverage=(tier == "thorough" and os.environ.get("VERIF_S1_COVERAGE", "1") != "0"))
            if "coverage" in mc:
                log("S1 coverage %s/%s: %d of %d expression sites never evaluated" %
                    (module, c, mc["coverage"]["never_evaluated"], mc["coverage"]["sites"]))
            log("S1 %s/%s: %d distinct states, %d generated, %.0fs" % (module, c, mc["states"], mc["transitions"], mc["wall_s"]))
            mcs.append(mc)
        if cfg.get("sim"):
            module, c, num, depth = cfg["sim"]
            raw, dt = tlc_simulate(module, c, num, depth, seed)
            uniq = {json.dumps(s, sort_keys=True): s for s in raw}
            keys = sorted(uniq)
            random.Random(seed).shuffle(keys)
            scs = [F.scenario_from_tlc(uniq[k]) for k in keys[:cfg.get("sim_keep", 200)]]
            log("S2: %d TLC-generated scenarios (%.0fs)" % (len(scs), dt))
        nrand = cfg.get("nrand", 0)
    else:
        rp = json.load(open(replay))
        scs = [rp["scenario"]]
    scen_path = os.path.join(scratch(), "scenarios.json")
    json.dump(scs, open(scen_path, "w"))
    binary, dt = go_build_test(F.driver_pkg)
    log("driver harness/%s built against %s working tree (%.0fs)" % (F.driver_pkg, REPO, dt))
    nsh = 1 if replay else cfg.get("shards", 4)
    envs = []
    for i in range(nsh):
        e = dict(VERIF_OUT=os.path.join(scratch(), "trace%d.ndjson" % i), VERIF_SCEN=scen_path, VERIF_SEED=seed,
                 VERIF_NRAND=nrand, VERIF_SHARD=i, VERIF_NSHARD=nsh, VERIF_TIER=tier, VERIF_NOTRAPS="1" if replay else "")
        e.update(cfg.get("env", {}))
        envs.append(e)
    stats, dt = go_drive(binary, envs, timeout=cfg.get("drive_timeout", 3000))
    acts = collections.Counter()
    for s in stats:
        acts.update(s.get("acts", {}))
    log("S3: %d steps executed on the real code (%.0fs)" % (sum(s["lines"] for s in stats), dt))

    def mon(i):
        p = os.path.join(scratch(), "trace%d.ndjson" % i)
        tr = read_trace(p)
        if not tr:
            return [], tr
        fl, done, dt = tlc_monitor(F.monitor[0], F.monitor[1], p, constants=F.monitor_constants,
                                   timeout=cfg.get("monitor_timeout", 1800))
        if done != len(tr):
            raise Inconclusive("S4: monitor consumed %s of %d lines of shard %d" % (done, len(tr), i))
        return fl, tr
    # memory: big traces (thorough tiers) are judged by at most 4 monitor JVMs at a time
    total_bytes = sum(os.path.getsize(os.path.join(scratch(), "trace%d.ndjson" % i)) for i in range(nsh)
                      if os.path.exists(os.path.join(scratch(), "trace%d.ndjson" % i)))
    par = 8 if total_bytes < 400 * 1024 * 1024 else 4
    with cf.ThreadPoolExecutor(max_workers=min(nsh, par)) as ex:
        results = list(ex.map(mon, range(nsh)))
    flags_all, trace_all = [], []
    for fl, tr in results:
        base = len(trace_all)
        for f in fl:
            f["line"] += base
        flags_all += fl
        trace_all += tr
    log("S4: %d recorded steps judged by the TLA+ monitor %s, %d flags" % (len(trace_all), F.monitor[0], len(flags_all)))
    by_trace = collections.defaultdict(list)
    for r in trace_all:
        by_trace[str(r["t"])].append(r)

    def scenario_of(tid):
        rs = by_trace[str(tid)]
        sc = {k: rs[0][k] for k in F.reset_keys if k in rs[0]}
        sc["steps"] = [{k: r[k] for k in F.step_keys if k in r} for r in rs[1:]]
        return sc
    halts = sum(v for k, v in acts.items() if k.endswith("|HALT") and not k.startswith("reset"))
    total = sum(v for k, v in acts.items() if not k.startswith("reset"))
    if replay is None and (total == 0 or halts < F.min_halt_share * total):
        raise Inconclusive("too few successful steps (%d of %d): the harness is not exercising the code" % (halts, total))
    violations, known_seen, drift = decide(pid, flags_all, trace_all, known, seed, scenario_of)
    distinct = set()
    prev = None
    for r in trace_all:
        if r["act"] == "reset":
            prev = r
            continue
        k = F.nontrivial_key(r, prev)
        if k is not None:
            distinct.add(k)
        prev = r
    samples = []
    for tid in list(by_trace)[:2]:
        rs = by_trace[tid]
        samples.append(dict(trace=tid, setup={k: rs[0][k] for k in F.reset_keys if k in rs[0]},
                            steps=[compact_step(r, tuple(F.step_keys) + ("res", "ret")) for r in rs[1:13]]))
    cov = dict(states=sum(m["states"] for m in mcs) or 1, transitions=sum(m["transitions"] for m in mcs) or 1,
               traces_validated_against_impl=len(by_trace), evaluations=len(trace_all) - len(by_trace),
               distinct_nontrivial=len(distinct), rule=F.rule, samples=samples, exhaustive=False, s1=mcs,
               actions=dict(acts), drift_steps=drift, known_findings_seen=sorted(known_seen),
               tlc_scenarios=len(scs), random_scenarios=nrand,
               monitor_flags_total=len([f for f in flags_all if f["prop"] == pid]))
    cov.update(F.extra_coverage(trace_all, flags_all))
    if replay is None and not violations and os.environ.get("VERIF_SELFTEST", "1") != "0":
        try:
            cov["binding_selftest"] = binding_selftest(F, trace_all, seed)
        except Exception as e:  # never part of a verdict
            cov["binding_selftest"] = dict(error=str(e)[:300])
    if replay is None:
        write_evidence(pid, tier, seed, F.level, cov, time.time() - t0, len(violations), F.assume)
    return 1 if violations else 0
