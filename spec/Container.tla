------------------------------ MODULE Container ------------------------------
(***************************************************************************)
(* Implementation-shaped specification of the registry part of             *)
(* contracts/container/contract.go (Put / PutNamed / PutMeta, Delete,      *)
(* SetEACL and the getters) together with the contracts it talks to while  *)
(* registering a container:                                                *)
(*   - NNS     (isAvailable / ownerOf / getRecords / register / addRecord / *)
(*              deleteRecords as used for container aliases, plus two      *)
(*              environment actions: somebody registers an alias domain    *)
(*              in advance / adds a foreign TXT record to it),             *)
(*   - Balance (balanceOf, the per-Alphabet-node transferX loop, mint),    *)
(*   - Netmap  (config ContainerFee / ContainerAliasFee, setConfig),       *)
(*   - NeoFSID (addKey when the container is put without session token).   *)
(*                                                                         *)
(* State = raw storage of the Container contract, decoded by key prefix:   *)
(*   x[c]     value under 'x'||cid   ("none" or the stored descriptor)      *)
(*   oidx     set of cids that have an owner-index entry 'o'||owner||cid    *)
(*   tomb     set of cids with a tombstone 'd'||cid                         *)
(*   meta     set of cids with the meta flag 'm'||cid                       *)
(*   eacl[c]  value under "eACL"||cid                                       *)
(*   alias[c] value under "nnsHasAlias"||cid (a domain name)                *)
(* plus the alias-domain view of NNS (dom, txt), NEOFS balances of owners  *)
(* (bal) and of the n Alphabet nodes (abal), the two fees and NeoFSID's    *)
(* key bindings (idk).  api is what the read API answers; the Spec derives *)
(* it from the raw state the way the getters do (get/owner/eACL/alias/     *)
(* count/list("") read 'x', list(owner)/containersOf read 'o').            *)
(*                                                                         *)
(* A container id is sha256(blob) and the blob carries its owner, so a     *)
(* model container c has the fixed owner COwner[c]; what varies between    *)
(* puts of the same container is the (signature, key, token) triple, the   *)
(* "variant" (variant "b" has an empty session token).                     *)
(*                                                                         *)
(* Properties C04 and C05 are written at the end as predicates over one    *)
(* step; they are used by TLC on this specification (ContainerMC) and by   *)
(* the trace monitor ContainerTrace on executions of the real contracts.   *)
(***************************************************************************)
EXTENDS Integers, Sequences, FiniteSets, TLC

CONSTANTS
  Owners,      \* container owners (strings)
  AlphaOwner,  \* the owner whose account IS the standard account of Alphabet node AIdx(n) ("none": no such owner)
  Cids,        \* model container ids (strings)
  COwner,      \* [Cids -> Owners]: the owner encoded in the container's blob
  PutCids,     \* ids the scenarios may put (Cids \ PutCids = never-used ids)
  Names,       \* alias names (domains <name>.container)
  Variants,    \* (signature, public key, token) triples
  SignerSets,  \* signer sets explored (subsets of {"ALPHA","CMT","M1","X"} and owners)
  Fees,        \* values offered to netmap.setConfig
  Amounts,     \* amounts offered to balance.mint
  NSet,        \* committee sizes
  NnsEnv,      \* TRUE: the environment may register / fill alias domains in advance
  Acts,        \* optional actions / argument shapes explored: subset of {"delete", "setEACL", "meta", "put2", "badkey"}
  MaxBal,      \* exploration bound
  Dev          \* deviation switches: behaviour of the code that the properties forbid
               \*   "StaleAlias": re-putNamed of a live container under another name keeps the old TXT record

Nil == "nil"
None == "none"
TokEmpty(v) == v = "b"

VARIABLES x, oidx, tomb, meta, eacl, alias, dom, txt, bal, abal, fee, afee, n, idk, api, ev
raw   == <<x, oidx, tomb, meta, eacl, alias>>
state == <<x, oidx, tomb, meta, eacl, alias, dom, txt, bal, abal, fee, afee, n, idk>>
vars  == <<x, oidx, tomb, meta, eacl, alias, dom, txt, bal, abal, fee, afee, n, idk, api, ev>>

Ntf(nm, c) == [n |-> nm, c |-> c]
Xf(f, t, a) == [from |-> f, to |-> t, amt |-> a]
ANode(k) == "A" \o ToString(k)

(***************************************************************************)
(* Accounts.  bal[o] is balanceOf(account of owner o), abal[k] is          *)
(* balanceOf(standard account of Alphabet node k).  The owner AlphaOwner   *)
(* owns the standard account of node AIdx(n) (the middle node, so that the *)
(* fee loop has transfers before and after the self-transfer): for it      *)
(* bal[AlphaOwner] and abal[AIdx(n)] are two readings of ONE account.      *)
(***************************************************************************)
AIdx(nn) == (nn + 1) \div 2
AcctOf(o, nn) == IF o = AlphaOwner THEN ANode(AIdx(nn)) ELSE o

\* An invocation.  put2 = two puts (c, v, nm, meta) and (c2, v2, nm2, meta2) of one signer set executed as two
\* transactions of ONE block; res/ntf/xfer belong to the first, res2/ntf2/xfer2 to the second transaction.
Event2(act, S, c, v, nm, mt, c2, v2, nm2, mt2, o, k, amt, res, res2, ret, ntf, ntf2, xfer, xfer2) ==
  [act |-> act, S |-> S, c |-> c, v |-> v, nm |-> nm, meta |-> mt, c2 |-> c2, v2 |-> v2, nm2 |-> nm2, meta2 |-> mt2,
   o |-> o, k |-> k, amt |-> amt, res |-> res, res2 |-> res2, ret |-> ret, ntf |-> ntf, ntf2 |-> ntf2, xfer |-> xfer, xfer2 |-> xfer2,
   kb |-> FALSE]      \* kb: the publicKey argument of put / setEACL is not 33 bytes long
Event(act, S, c, v, nm, mt, o, k, amt, res, ret, ntf, xfer) ==
  Event2(act, S, c, v, nm, mt, Nil, Nil, Nil, FALSE, o, k, amt, res, Nil, ret, ntf, <<>>, xfer, <<>>)

InSeq(e, s) == \E i \in 1..Len(s) : s[i] = e

(***************************************************************************)
(* The read API as computed by the getters from the raw storage            *)
(***************************************************************************)
ApiOf(X, O, E, A) ==
  [get   |-> [c \in Cids |-> IF X[c] # None THEN X[c] ELSE "nf"],
   owner |-> [c \in Cids |-> IF X[c] # None THEN COwner[c] ELSE "nf"],
   eacl  |-> [c \in Cids |-> IF X[c] = None THEN "nf" ELSE IF E[c] = None THEN "empty" ELSE E[c]],
   alias |-> [c \in Cids |-> IF X[c] = None THEN "nf" ELSE IF A[c] = None THEN "null" ELSE A[c]],
   list  |-> [o \in Owners \cup {"all"} |-> IF o = "all" THEN {c \in Cids : X[c] # None}
                                            ELSE {c \in O : COwner[c] = o}],
   cof   |-> [o \in Owners \cup {"all"} |-> IF o = "all" THEN O ELSE {c \in O : COwner[c] = o}],
   count |-> Cardinality({c \in Cids : X[c] # None})]

(***************************************************************************)
(* Methods                                                                 *)
(***************************************************************************)
Fault(act, S, c, v, nm, mt, o, k, amt) ==
  /\ UNCHANGED state
  /\ ev' = Event(act, S, c, v, nm, mt, o, k, amt, "FAULT", "null", <<>>, <<>>)

\* the state as one record, so that a transaction can be written as a function and two of them composed in a block
Cur == [x |-> x, oidx |-> oidx, tomb |-> tomb, meta |-> meta, eacl |-> eacl, alias |-> alias, dom |-> dom, txt |-> txt,
        bal |-> bal, abal |-> abal, fee |-> fee, afee |-> afee, n |-> n, idk |-> idk]
Assign(s) == /\ x' = s.x /\ oidx' = s.oidx /\ tomb' = s.tomb /\ meta' = s.meta /\ eacl' = s.eacl /\ alias' = s.alias
             /\ dom' = s.dom /\ txt' = s.txt /\ bal' = s.bal /\ abal' = s.abal /\ fee' = s.fee /\ afee' = s.afee
             /\ n' = s.n /\ idk' = s.idk

\* checkNiceNameAvailable: free, or owned by the committee / this contract and without TXT records
NameOK(s, nm) == s.dom[nm] = "free" \/ (s.dom[nm] \in {"self", "cmt"} /\ s.txt[nm] = <<>>)
\* NNS checkAdmin for a call made by the Container contract on domain nm
CanAdmin(s, S, nm) == s.dom[nm] \in {"free", "self"} \/ (s.dom[nm] = "cmt" /\ "CMT" \in S)
\* balanceOf(account of owner o)
BalOf(s, o) == IF o = AlphaOwner THEN s.abal[AIdx(s.n)] ELSE s.bal[o]

\* Put / PutNamed / PutMeta as a function of the state (mt: metaOnChain; the flag is written before everything
\* else, a FAULT undoes it).  The fee loop transfers f from the owner's account to the standard account of every
\* Alphabet node in committee order; when the owner's account is one of them that transfer is a self-transfer.
PutF(s, S, c, v, nm, mt) ==
  LET o    == COwner[c]
      f    == s.fee + (IF nm # Nil THEN s.afee ELSE 0)
      old  == s.alias[c]
      drop == "StaleAlias" \notin Dev /\ nm # Nil /\ old # None      \* repaired code drops the previous alias record
      ok   == /\ c \notin s.tomb                                      \* ErrorDeleted
              /\ nm # Nil => NameOK(s, nm)                            \* checkNiceNameAvailable
              /\ BalOf(s, o) >= f * s.n                               \* insufficient balance
              /\ "ALPHA" \in S                                        \* CheckAlphabetWitness
              /\ f >= 0                                               \* balance.transferX refuses negative amounts
              /\ nm # Nil => CanAdmin(s, S, nm)                       \* nns.addRecord -> checkAdmin
              /\ drop => CanAdmin(s, S, old)                          \* nns.deleteRecords -> checkAdmin
      abal2 == [k \in 1..s.n |-> s.abal[k] + f - (IF o = AlphaOwner /\ k = AIdx(s.n) THEN f * s.n ELSE 0)]
      bal2  == [p \in Owners |-> IF p = AlphaOwner THEN abal2[AIdx(s.n)]
                                 ELSE IF p = o THEN s.bal[p] - f * s.n ELSE s.bal[p]]
  IN  IF ~ok THEN [s |-> s, res |-> "FAULT", ntf |-> <<>>, xfer |-> <<>>]
      ELSE [s |-> [s EXCEPT !.x = [@ EXCEPT ![c] = v],
                            !.oidx = @ \cup {c},
                            !.meta = IF mt THEN @ \cup {c} ELSE @,
                            !.bal = bal2, !.abal = abal2,
                            !.dom = IF nm # Nil THEN [@ EXCEPT ![nm] = IF @ = "free" THEN "self" ELSE @] ELSE @,
                            !.txt = IF nm # Nil
                                    THEN [m \in Names |-> IF m = nm THEN Append(s.txt[m], c)
                                                          ELSE IF drop /\ m = old THEN <<>> ELSE s.txt[m]]
                                    ELSE @,
                            !.alias = IF nm # Nil THEN [@ EXCEPT ![c] = nm] ELSE @,
                            !.idk = IF TokEmpty(v) THEN @ \cup {o} ELSE @],
            res |-> "HALT", ntf |-> <<Ntf("PutSuccess", c)>>,
            xfer |-> [k \in 1..s.n |-> Xf(AcctOf(o, s.n), ANode(k), f)]]

\* kb: a publicKey that is not 33 bytes long.  The contract never looks at the key, but neofsid.addKey (empty token)
\* refuses it and otherwise the PutSuccess notification does not fit its manifest type PublicKey: the invocation
\* FAULTs at its very end, i.e. whatever else would have failed fails too.
Put(S, c, v, nm, mt, kb) ==
  LET r == IF kb THEN [s |-> Cur, res |-> "FAULT", ntf |-> <<>>, xfer |-> <<>>] ELSE PutF(Cur, S, c, v, nm, mt) IN
  /\ Assign(r.s)
  /\ ev' = [Event("put", S, c, v, nm, mt, Nil, Nil, 0, r.res, "null", r.ntf, r.xfer) EXCEPT !.kb = kb]

\* two puts in one block: the second transaction runs on the result of the first
Put2(S, c, v, nm, mt, c2, v2, nm2, mt2) ==
  LET r1 == PutF(Cur, S, c, v, nm, mt)
      r2 == PutF(r1.s, S, c2, v2, nm2, mt2) IN
  /\ Assign(r2.s)
  /\ ev' = Event2("put2", S, c, v, nm, mt, c2, v2, nm2, mt2, Nil, Nil, 0, r1.res, r2.res, "null", r1.ntf, r2.ntf, r1.xfer, r2.xfer)

\* Delete: a missing container is a silent no-op (no witness needed)
Delete(S, c) ==
  IF x[c] = None
  THEN /\ UNCHANGED state
       /\ ev' = Event("delete", S, c, Nil, Nil, FALSE, Nil, Nil, 0, "HALT", "null", <<>>, <<>>)
  ELSE IF "ALPHA" \in S /\ (alias[c] # None => CanAdmin(Cur, S, alias[c]))
  THEN /\ x' = [x EXCEPT ![c] = None]
       /\ oidx' = oidx \ {c}
       /\ meta' = meta \ {c}
       /\ eacl' = [eacl EXCEPT ![c] = None]
       /\ tomb' = tomb \cup {c}
       /\ alias' = [alias EXCEPT ![c] = None]
       /\ txt' = IF alias[c] # None THEN [txt EXCEPT ![alias[c]] = <<>>] ELSE txt   \* deleteRecords(domain, TXT)
       /\ UNCHANGED <<dom, bal, abal, fee, afee, n, idk>>
       /\ ev' = Event("delete", S, c, Nil, Nil, FALSE, Nil, Nil, 0, "HALT", "null", <<Ntf("DeleteSuccess", c)>>, <<>>)
  ELSE Fault("delete", S, c, Nil, Nil, FALSE, Nil, Nil, 0)

\* (kb: as for put, SetEACLSuccess carries the key as a PublicKey)
SetEACL(S, c, v, kb) ==
  IF x[c] # None /\ "ALPHA" \in S /\ ~kb
  THEN /\ eacl' = [eacl EXCEPT ![c] = v]
       /\ UNCHANGED <<x, oidx, tomb, meta, alias, dom, txt, bal, abal, fee, afee, n, idk>>
       /\ ev' = Event("setEACL", S, c, v, Nil, FALSE, Nil, Nil, 0, "HALT", "null", <<Ntf("SetEACLSuccess", c)>>, <<>>)
  ELSE /\ UNCHANGED state
       /\ ev' = [Event("setEACL", S, c, v, Nil, FALSE, Nil, Nil, 0, "FAULT", "null", <<>>, <<>>) EXCEPT !.kb = kb]

\* netmap.setConfig(id, key, val), key in {"fee","afee"}
SetConfig(S, k, val) ==
  IF "ALPHA" \in S
  THEN /\ fee' = IF k = "fee" THEN val ELSE fee
       /\ afee' = IF k = "afee" THEN val ELSE afee
       /\ UNCHANGED <<x, oidx, tomb, meta, eacl, alias, dom, txt, bal, abal, n, idk>>
       /\ ev' = Event("setConfig", S, Nil, Nil, Nil, FALSE, Nil, k, val, "HALT", "null", <<>>, <<>>)
  ELSE Fault("setConfig", S, Nil, Nil, Nil, FALSE, Nil, k, val)

\* balance.mint(account of owner o, amount, details)
Mint(S, o, m) ==
  IF "ALPHA" \in S /\ m >= 0
  THEN /\ bal' = [bal EXCEPT ![o] = @ + m]
       /\ abal' = IF o = AlphaOwner THEN [abal EXCEPT ![AIdx(n)] = @ + m] ELSE abal
       /\ UNCHANGED <<x, oidx, tomb, meta, eacl, alias, dom, txt, fee, afee, n, idk>>
       /\ ev' = Event("mint", S, Nil, Nil, Nil, FALSE, o, Nil, m, "HALT", "null", <<>>, <<Xf(Nil, AcctOf(o, n), m)>>)
  ELSE Fault("mint", S, Nil, Nil, Nil, FALSE, o, Nil, m)

\* environment: nns.register(<nm>.container, owner = committee account | stranger X)
Wit(who) == IF who = "cmt" THEN "CMT" ELSE "X"
NnsReg(S, nm, who) ==
  IF Wit(who) \notin S THEN Fault("nnsReg", S, Nil, Nil, nm, FALSE, who, Nil, 0)
  ELSE IF dom[nm] # "free"
  THEN /\ UNCHANGED state
       /\ ev' = Event("nnsReg", S, Nil, Nil, nm, FALSE, who, Nil, 0, "HALT", "false", <<>>, <<>>)
  ELSE /\ dom' = [dom EXCEPT ![nm] = who]
       /\ UNCHANGED <<x, oidx, tomb, meta, eacl, alias, txt, bal, abal, fee, afee, n, idk>>
       /\ ev' = Event("nnsReg", S, Nil, Nil, nm, FALSE, who, Nil, 0, "HALT", "true", <<>>, <<>>)

\* environment: the domain owner adds the TXT record "foreign"
NnsAdd(S, nm) ==
  IF dom[nm] \in {"cmt", "x"} /\ Wit(dom[nm]) \in S /\ ~InSeq("foreign", txt[nm])
  THEN /\ txt' = [txt EXCEPT ![nm] = Append(@, "foreign")]
       /\ UNCHANGED <<x, oidx, tomb, meta, eacl, alias, dom, bal, abal, fee, afee, n, idk>>
       /\ ev' = Event("nnsAdd", S, Nil, Nil, nm, FALSE, Nil, Nil, 0, "HALT", "null", <<>>, <<>>)
  ELSE Fault("nnsAdd", S, Nil, Nil, nm, FALSE, Nil, Nil, 0)

InitState(n0, f0, af0) ==
  /\ x = [c \in Cids |-> None] /\ oidx = {} /\ tomb = {} /\ meta = {}
  /\ eacl = [c \in Cids |-> None] /\ alias = [c \in Cids |-> None]
  /\ dom = [m \in Names |-> "free"] /\ txt = [m \in Names |-> <<>>]
  /\ bal = [o \in Owners |-> 0] /\ abal = [k \in 1..n0 |-> 0]
  /\ fee = f0 /\ afee = af0 /\ n = n0 /\ idk = {}

Init ==
  /\ \E n0 \in NSet : InitState(n0, 0, 0)
  /\ api = ApiOf(x, oidx, eacl, alias)
  /\ ev = Event("init", {}, Nil, Nil, Nil, FALSE, Nil, Nil, 0, "HALT", "null", <<>>, <<>>)

\* mint amounts that land the owner exactly below / at / above the next charge (or the next two charges of a block)
Hint(o) == LET b == BalOf(Cur, o) IN
           {d \in {fee * n - b - 1, fee * n - b, fee * n - b + 1,
                   (fee + afee) * n - b - 1, (fee + afee) * n - b, (fee + afee) * n - b + 1,
                   2 * fee * n - b - 1, 2 * fee * n - b, (2 * fee + afee) * n - b} : d > 0}

\* the "publicKey of another length" flag: both values when explored exhaustively, one invocation in eight when drawn
KBs(P(_)) == IF "badkey" \in Acts THEN {q = 1 : q \in P(1..8)} ELSE {FALSE}
NextOf(P(_), PS(_)) ==
  /\ \/ \E S \in PS(SignerSets), c \in P(PutCids), v \in P(Variants), nm \in P(Names \cup {Nil}) :
           \E kb \in KBs(P) : Put(S, c, v, nm, FALSE, kb)
     \/ "meta" \in Acts /\ \E S \in PS(SignerSets), c \in P(PutCids), v \in P(Variants) : Put(S, c, v, Nil, TRUE, FALSE)
     \/ "put2" \in Acts /\ \E S \in PS(SignerSets), c \in P(PutCids), v \in P(Variants), nm \in P(Names \cup {Nil}) :
           \E c2 \in P(PutCids \ {c}), v2 \in P(Variants), nm2 \in P(Names \cup {Nil}) : Put2(S, c, v, nm, FALSE, c2, v2, nm2, FALSE)
     \/ "delete" \in Acts /\ \E S \in PS(SignerSets), c \in P(Cids) : Delete(S, c)
     \/ "setEACL" \in Acts /\ \E S \in PS(SignerSets), c \in P(Cids), v \in P(Variants) :
           \E kb \in KBs(P) : SetEACL(S, c, v, kb)
     \/ \E S \in PS(SignerSets), k \in P({"fee", "afee"}), val \in P(Fees) : SetConfig(S, k, val)
     \/ \E S \in PS(SignerSets), o \in P(Owners) : \E m \in P(IF Amounts = {} THEN {} ELSE Amounts \cup Hint(o)) : Mint(S, o, m)
     \/ NnsEnv /\ \E S \in PS(SignerSets), nm \in P(Names), who \in P({"cmt", "x"}) : NnsReg(S, nm, who)
     \/ NnsEnv /\ \E S \in PS(SignerSets), nm \in P(Names) : NnsAdd(S, nm)
  /\ api' = ApiOf(x', oidx', eacl', alias')

All(X) == X
Next == NextOf(All, All)
Spec == Init /\ [][Next]_vars

Bounded == \A o \in Owners : bal[o] <= MaxBal

-----------------------------------------------------------------------------
(***************************************************************************)
(* Properties, as predicates over one step.  e is the invocation (ev').    *)
(* g is the abstract registry kept by whoever evaluates the predicates     *)
(* (a ghost variable, rebuilt only from the outcomes of the invocations):  *)
(*   g.live[c]  descriptor of the live container c or "none"               *)
(*   g.eacl[c]  last table set, g.alias[c] last name set                   *)
(*   g.dead     ids deleted so far, g.names[c] every name c ever carried,  *)
(*   g.last[c]  the alias c had when it was deleted                        *)
(* A put2 step is judged as its two puts in order (Sub1, Sub2).            *)
(***************************************************************************)
Sub1(e) == [e EXCEPT !.act = "put"]
Sub2(e) == [e EXCEPT !.act = "put", !.c = e.c2, !.v = e.v2, !.nm = e.nm2, !.meta = e.meta2, !.res = e.res2,
                     !.ntf = e.ntf2, !.xfer = e.xfer2]
\* the puts of a step, in execution order
Subs(e) == IF e.act = "put" THEN <<e>> ELSE IF e.act = "put2" THEN <<Sub1(e), Sub2(e)>> ELSE <<>>

GInit == [live |-> [c \in Cids |-> None], eacl |-> [c \in Cids |-> None], alias |-> [c \in Cids |-> None],
          dead |-> {}, names |-> [c \in Cids |-> {}], last |-> [c \in Cids |-> None]]

GNext1(g, e) ==
  IF e.res # "HALT" THEN g
  ELSE IF e.act = "put"
  THEN [g EXCEPT !.live[e.c] = e.v,
                 !.alias[e.c] = IF e.nm # Nil THEN e.nm ELSE @,
                 !.names[e.c] = IF e.nm # Nil THEN @ \cup {e.nm} ELSE @]
  ELSE IF e.act = "delete" /\ g.live[e.c] # None
  THEN [g EXCEPT !.live[e.c] = None, !.eacl[e.c] = None, !.alias[e.c] = None, !.dead = @ \cup {e.c},
                 !.last[e.c] = g.alias[e.c]]
  ELSE IF e.act = "setEACL"
  THEN [g EXCEPT !.eacl[e.c] = e.v]
  ELSE g
GNext(g, e) == IF e.act = "put2" THEN GNext1(GNext1(g, Sub1(e)), Sub2(e)) ELSE GNext1(g, e)

Live(g) == {c \in Cids : g.live[c] # None}

\* --- C04 --- (g2 = the abstract registry after the step)
C04_Get(g2)   == \A c \in Cids : api'.get[c] = (IF c \in Live(g2) THEN g2.live[c] ELSE "nf")
C04_Owner(g2) == \A c \in Cids : api'.owner[c] = (IF c \in Live(g2) THEN COwner[c] ELSE "nf")
\* a live container without table / name: the statement fixes no answer, except that it is no table / name never set
C04_EACL(g2)  == \A c \in Cids : IF c \notin Live(g2) THEN api'.eacl[c] = "nf"
                                 ELSE IF g2.eacl[c] # None THEN api'.eacl[c] = g2.eacl[c]
                                 ELSE api'.eacl[c] \notin Variants
C04_Alias(g2) == \A c \in Cids : IF c \notin Live(g2) THEN api'.alias[c] = "nf"
                                 ELSE IF g2.alias[c] # None THEN api'.alias[c] = g2.alias[c]
                                 ELSE api'.alias[c] \notin Names
\* "alias and its NNS record": while a container is live under a name, the TXT record of that name lists it (the record is
\* what makes the alias mean anything, and it is the trace that deletion has to remove)
C04_AliasRecord(g2) == \A c \in Live(g2) : g2.alias[c] # None => InSeq(c, txt'[g2.alias[c]])
C04_Lists(g2) == /\ \A o \in Owners : /\ api'.list[o] = {c \in Live(g2) : COwner[c] = o}
                                      /\ api'.cof[o]  = {c \in Live(g2) : COwner[c] = o}
                 /\ api'.list["all"] = Live(g2)
                 /\ api'.cof["all"] = Live(g2)
C04_Count(g2) == api'.count = Cardinality(Live(g2))
\* a deleted id can never be registered again
Final1(g, e) == e.act = "put" /\ e.c \in g.dead => e.res = "FAULT"
C04_Final(g, e) == IF e.act = "put2" THEN Final1(g, Sub1(e)) /\ Final1(GNext1(g, Sub1(e)), Sub2(e)) ELSE Final1(g, e)
\* every trace of a deleted container is gone: blob, owner index, eACL, alias and the NNS record of every name
\* it carried, meta flag (raw storage of the Container contract + NNS records)
NoRawTrace(g2) == \A c \in g2.dead : x'[c] = None /\ c \notin oidx' /\ eacl'[c] = None /\ alias'[c] = None /\ c \notin meta'
StaleRecords(g2) == {p \in g2.dead \X Names : p[2] \in g2.names[p[1]] /\ InSeq(p[1], txt'[p[2]])}
C04_NoTrace(g2) == NoRawTrace(g2) /\ StaleRecords(g2) = {}
\* deviation tag: the only traces left are TXT records under names the container carried before its last alias
OnlyFormerAliasRecords(g2) == /\ NoRawTrace(g2) /\ StaleRecords(g2) # {}
                              /\ \A p \in StaleRecords(g2) : p[2] # g2.last[p[1]]
\* exactly one PutSuccess / DeleteSuccess / SetEACLSuccess per successful put / delete / setEACL, none otherwise
\* (a HALTing delete of a missing container deletes nothing: the statement allows both zero and one notification)
Notif1(g, e) ==
  LET one(nm) == <<Ntf(nm, e.c)>> IN
  IF e.res = "HALT" /\ e.act = "put" THEN e.ntf = one("PutSuccess")
  ELSE IF e.res = "HALT" /\ e.act = "setEACL" THEN e.ntf = one("SetEACLSuccess")
  ELSE IF e.res = "HALT" /\ e.act = "delete"
       THEN IF g.live[e.c] # None THEN e.ntf = one("DeleteSuccess") ELSE e.ntf \in {<<>>, one("DeleteSuccess")}
  ELSE e.ntf = <<>>
C04_Notif(g, e) == IF e.act = "put2" THEN Notif1(g, Sub1(e)) /\ Notif1(GNext1(g, Sub1(e)), Sub2(e)) ELSE Notif1(g, e) /\ e.ntf2 = <<>>

\* --- C05 --- (fee values of the pre-state: "configured in Netmap at that moment"; no put changes them)
\* The arithmetic is stated per ACCOUNT as the sum over the fee transfers of the successful puts of the step, so
\* that it is right when roles overlap (the owner's account is an Alphabet node's account: net -F*N + F) and when
\* several puts share a block.  Accounts: ordinary owners and the n node accounts (AlphaOwner's is one of those).
NodeAccts == {ANode(k) : k \in 1..n}
Accts == (Owners \ {AlphaOwner}) \cup NodeAccts
BalA(B, A, a) == IF a \in Owners THEN B[a] ELSE A[CHOOSE k \in 1..n : ANode(k) = a]
Charge(s) == fee + (IF s.nm # Nil THEN afee ELSE 0)
\* effect of put s on account a: +F for every node account, -F*N for the owner's account, nothing if it failed
Delta(s, a) == IF s.res # "HALT" THEN 0
               ELSE (IF a \in NodeAccts THEN Charge(s) ELSE 0) - (IF a = AcctOf(COwner[s.c], n) THEN Charge(s) * n ELSE 0)
RECURSIVE SumDelta(_, _, _)
SumDelta(ss, a, k) == IF k = 0 THEN 0 ELSE Delta(ss[k], a) + SumDelta(ss, a, k - 1)

C05_Exact(e) ==
  LET ss == Subs(e) IN
  ss # <<>> =>
    /\ DOMAIN abal' = 1..n
    /\ \A a \in Accts : BalA(bal', abal', a) - BalA(bal, abal, a) = SumDelta(ss, a, Len(ss))    \* nothing else moves
    /\ \A i \in 1..Len(ss) : ss[i].res = "HALT" /\ (\A j \in (i + 1)..Len(ss) : ss[j].res # "HALT" \/ ss[j].c # ss[i].c)
                               => api'.get[ss[i].c] = ss[i].v                     \* stored in the same transaction
\* an owner who cannot pay the full amount when its transaction runs (after the earlier puts of the block) fails
C05_MustPay(e) ==
  LET ss == Subs(e) IN
  \A i \in 1..Len(ss) :
     LET a == AcctOf(COwner[ss[i].c], n) IN
     BalA(bal, abal, a) + SumDelta(ss, a, i - 1) < Charge(ss[i]) * n => ss[i].res = "FAULT"
\* a failing put changes neither balances (C05_Exact: its Delta is 0) nor the registry
CidUnchanged(c) == /\ x'[c] = x[c] /\ (c \in oidx') = (c \in oidx) /\ (c \in tomb') = (c \in tomb) /\ (c \in meta') = (c \in meta)
                   /\ eacl'[c] = eacl[c] /\ alias'[c] = alias[c]
                   /\ api'.get[c] = api.get[c] /\ api'.owner[c] = api.owner[c] /\ api'.eacl[c] = api.eacl[c]
                   /\ api'.alias[c] = api.alias[c]
C05_Atomic(e) ==
  LET ss == Subs(e) IN
  /\ ss # <<>> /\ (\A i \in 1..Len(ss) : ss[i].res = "FAULT") => bal' = bal /\ abal' = abal /\ api' = api /\ raw' = raw
  /\ \A i \in 1..Len(ss) : ss[i].res = "FAULT" /\ (\A j \in 1..Len(ss) : j # i => ss[j].c # ss[i].c) => CidUnchanged(ss[i].c)

=============================================================================
