------------------------------ MODULE Container ------------------------------
(***************************************************************************)
(* Implementation-shaped specification of the registry part of             *)
(* contracts/container/contract.go (Put / PutNamed / PutMeta, Delete,      *)
(* SetEACL and the getters) together with the contracts it talks to while  *)
(* registering a container:                                                *)
(*   - NNS     (isAvailable / ownerOf / getRecords / register / addRecord / *)
(*              deleteRecords as used for container aliases, plus two      *)
(*              environment actions: somebody registers an alias domain    *)
(*              in advance / adds a foreign TXT record to it),             *)
(*   - Balance (balanceOf, the per-Alphabet-node transferX loop, mint),    *)
(*   - Netmap  (config ContainerFee / ContainerAliasFee, setConfig),       *)
(*   - NeoFSID (addKey when the container is put without session token).   *)
(*                                                                         *)
(* State = raw storage of the Container contract, decoded by key prefix:   *)
(*   x[c]     value under 'x'||cid   ("none" or the stored descriptor)      *)
(*   oidx     set of cids that have an owner-index entry 'o'||owner||cid    *)
(*   tomb     set of cids with a tombstone 'd'||cid                         *)
(*   meta     set of cids with the meta flag 'm'||cid                       *)
(*   eacl[c]  value under "eACL"||cid                                       *)
(*   alias[c] value under "nnsHasAlias"||cid (a domain name)                *)
(* plus the alias-domain view of NNS (dom, txt), NEOFS balances of owners  *)
(* (bal) and of the n Alphabet nodes (abal), the two fees and NeoFSID's    *)
(* key bindings (idk).  api is what the read API answers; the Spec derives *)
(* it from the raw state the way the getters do (get/owner/eACL/alias/     *)
(* count/list("") read 'x', list(owner)/containersOf read 'o').            *)
(*                                                                         *)
(* A container id is sha256(blob) and the blob carries its owner, so a     *)
(* model container c has the fixed owner COwner[c]; what varies between    *)
(* puts of the same container is the (signature, key, token) triple, the   *)
(* "variant" (variant "b" has an empty session token).                     *)
(*                                                                         *)
(* Properties C04 and C05 are written at the end as predicates over one    *)
(* step; they are used by TLC on this specification (ContainerMC) and by   *)
(* the trace monitor ContainerTrace on executions of the real contracts.   *)
(***************************************************************************)
EXTENDS Integers, Sequences, FiniteSets, TLC

CONSTANTS
  Owners,      \* container owners (strings)
  Cids,        \* model container ids (strings)
  COwner,      \* [Cids -> Owners]: the owner encoded in the container's blob
  PutCids,     \* ids the scenarios may put (Cids \ PutCids = never-used ids)
  Names,       \* alias names (domains <name>.container)
  Variants,    \* (signature, public key, token) triples
  SignerSets,  \* signer sets explored (subsets of {"ALPHA","CMT","M1","X"} and owners)
  Fees,        \* values offered to netmap.setConfig
  Amounts,     \* amounts offered to balance.mint
  NSet,        \* committee sizes
  NnsEnv,      \* TRUE: the environment may register / fill alias domains in advance
  MaxBal,      \* exploration bound
  Dev          \* deviation switches: behaviour of the code that the properties forbid
               \*   "StaleAlias": re-putNamed of a live container under another name keeps the old TXT record

Nil == "nil"
None == "none"
TokEmpty(v) == v = "b"

VARIABLES x, oidx, tomb, meta, eacl, alias, dom, txt, bal, abal, fee, afee, n, idk, api, ev
raw   == <<x, oidx, tomb, meta, eacl, alias>>
nnsv  == <<dom, txt>>
money == <<bal, abal>>
conf  == <<fee, afee, n>>
state == <<x, oidx, tomb, meta, eacl, alias, dom, txt, bal, abal, fee, afee, n, idk>>
vars  == <<x, oidx, tomb, meta, eacl, alias, dom, txt, bal, abal, fee, afee, n, idk, api, ev>>

Ntf(nm, c) == [n |-> nm, c |-> c]
Xf(f, t, a) == [from |-> f, to |-> t, amt |-> a]
ANode(k) == "A" \o ToString(k)

Event(act, S, c, v, nm, mt, o, k, amt, res, ret, ntf, xfer) ==
  [act |-> act, S |-> S, c |-> c, v |-> v, nm |-> nm, meta |-> mt, o |-> o, k |-> k, amt |-> amt,
   res |-> res, ret |-> ret, ntf |-> ntf, xfer |-> xfer]

InSeq(e, s) == \E i \in 1..Len(s) : s[i] = e

(***************************************************************************)
(* The read API as computed by the getters from the raw storage            *)
(***************************************************************************)
ApiOf(X, O, E, A) ==
  [get   |-> [c \in Cids |-> IF X[c] # None THEN X[c] ELSE "nf"],
   owner |-> [c \in Cids |-> IF X[c] # None THEN COwner[c] ELSE "nf"],
   eacl  |-> [c \in Cids |-> IF X[c] = None THEN "nf" ELSE IF E[c] = None THEN "empty" ELSE E[c]],
   alias |-> [c \in Cids |-> IF X[c] = None THEN "nf" ELSE IF A[c] = None THEN "null" ELSE A[c]],
   list  |-> [o \in Owners \cup {"all"} |-> IF o = "all" THEN {c \in Cids : X[c] # None}
                                            ELSE {c \in O : COwner[c] = o}],
   cof   |-> [o \in Owners \cup {"all"} |-> IF o = "all" THEN O ELSE {c \in O : COwner[c] = o}],
   count |-> Cardinality({c \in Cids : X[c] # None})]

(***************************************************************************)
(* Methods                                                                 *)
(***************************************************************************)
Fault(act, S, c, v, nm, mt, o, k, amt) ==
  /\ UNCHANGED state
  /\ ev' = Event(act, S, c, v, nm, mt, o, k, amt, "FAULT", "null", <<>>, <<>>)

\* checkNiceNameAvailable: free, or owned by the committee / this contract and without TXT records
NameOK(nm) == dom[nm] = "free" \/ (dom[nm] \in {"self", "cmt"} /\ txt[nm] = <<>>)
\* NNS checkAdmin for a call made by the Container contract on domain nm
CanAdmin(S, nm) == dom[nm] \in {"free", "self"} \/ (dom[nm] = "cmt" /\ "CMT" \in S)
FeeOf(nm) == fee + (IF nm # Nil THEN afee ELSE 0)

\* Put / PutNamed / PutMeta (mt: metaOnChain; the flag is written before everything else, a FAULT undoes it)
Put(S, c, v, nm, mt) ==
  LET o    == COwner[c]
      f    == FeeOf(nm)
      old  == alias[c]
      drop == "StaleAlias" \notin Dev /\ nm # Nil /\ old # None      \* repaired code drops the previous alias record
      ok   == /\ c \notin tomb                                        \* ErrorDeleted
              /\ nm # Nil => NameOK(nm)                               \* checkNiceNameAvailable
              /\ bal[o] >= f * n                                      \* insufficient balance
              /\ "ALPHA" \in S                                        \* CheckAlphabetWitness
              /\ f >= 0                                               \* balance.transferX refuses negative amounts
              /\ nm # Nil => CanAdmin(S, nm)                          \* nns.addRecord -> checkAdmin
              /\ drop => CanAdmin(S, old)                             \* nns.deleteRecords -> checkAdmin
  IN  IF ok
      THEN /\ x' = [x EXCEPT ![c] = v]
           /\ oidx' = oidx \cup {c}
           /\ meta' = IF mt THEN meta \cup {c} ELSE meta
           /\ bal' = [bal EXCEPT ![o] = @ - f * n]
           /\ abal' = [k \in 1..n |-> abal[k] + f]
           /\ IF nm # Nil
              THEN /\ dom' = [dom EXCEPT ![nm] = IF @ = "free" THEN "self" ELSE @]
                   /\ txt' = [m \in Names |-> IF m = nm THEN Append(txt[m], c)
                                              ELSE IF drop /\ m = old THEN <<>> ELSE txt[m]]
                   /\ alias' = [alias EXCEPT ![c] = nm]
              ELSE UNCHANGED <<dom, txt, alias>>
           /\ idk' = IF TokEmpty(v) THEN idk \cup {o} ELSE idk
           /\ UNCHANGED <<tomb, eacl, fee, afee, n>>
           /\ ev' = Event("put", S, c, v, nm, mt, Nil, Nil, 0, "HALT", "null", <<Ntf("PutSuccess", c)>>,
                          [k \in 1..n |-> Xf(o, ANode(k), f)])
      ELSE Fault("put", S, c, v, nm, mt, Nil, Nil, 0)

\* Delete: a missing container is a silent no-op (no witness needed)
Delete(S, c) ==
  IF x[c] = None
  THEN /\ UNCHANGED state
       /\ ev' = Event("delete", S, c, Nil, Nil, FALSE, Nil, Nil, 0, "HALT", "null", <<>>, <<>>)
  ELSE IF "ALPHA" \in S /\ (alias[c] # None => CanAdmin(S, alias[c]))
  THEN /\ x' = [x EXCEPT ![c] = None]
       /\ oidx' = oidx \ {c}
       /\ meta' = meta \ {c}
       /\ eacl' = [eacl EXCEPT ![c] = None]
       /\ tomb' = tomb \cup {c}
       /\ alias' = [alias EXCEPT ![c] = None]
       /\ txt' = IF alias[c] # None THEN [txt EXCEPT ![alias[c]] = <<>>] ELSE txt   \* deleteRecords(domain, TXT)
       /\ UNCHANGED <<dom, bal, abal, fee, afee, n, idk>>
       /\ ev' = Event("delete", S, c, Nil, Nil, FALSE, Nil, Nil, 0, "HALT", "null", <<Ntf("DeleteSuccess", c)>>, <<>>)
  ELSE Fault("delete", S, c, Nil, Nil, FALSE, Nil, Nil, 0)

SetEACL(S, c, v) ==
  IF x[c] # None /\ "ALPHA" \in S
  THEN /\ eacl' = [eacl EXCEPT ![c] = v]
       /\ UNCHANGED <<x, oidx, tomb, meta, alias, dom, txt, bal, abal, fee, afee, n, idk>>
       /\ ev' = Event("setEACL", S, c, v, Nil, FALSE, Nil, Nil, 0, "HALT", "null", <<Ntf("SetEACLSuccess", c)>>, <<>>)
  ELSE Fault("setEACL", S, c, v, Nil, FALSE, Nil, Nil, 0)

\* netmap.setConfig(id, key, val), key in {"fee","afee"}
SetConfig(S, k, val) ==
  IF "ALPHA" \in S
  THEN /\ fee' = IF k = "fee" THEN val ELSE fee
       /\ afee' = IF k = "afee" THEN val ELSE afee
       /\ UNCHANGED <<x, oidx, tomb, meta, eacl, alias, dom, txt, bal, abal, n, idk>>
       /\ ev' = Event("setConfig", S, Nil, Nil, Nil, FALSE, Nil, k, val, "HALT", "null", <<>>, <<>>)
  ELSE Fault("setConfig", S, Nil, Nil, Nil, FALSE, Nil, k, val)

\* balance.mint(owner, amount, details)
Mint(S, o, m) ==
  IF "ALPHA" \in S /\ m >= 0
  THEN /\ bal' = [bal EXCEPT ![o] = @ + m]
       /\ UNCHANGED <<x, oidx, tomb, meta, eacl, alias, dom, txt, abal, fee, afee, n, idk>>
       /\ ev' = Event("mint", S, Nil, Nil, Nil, FALSE, o, Nil, m, "HALT", "null", <<>>, <<Xf(Nil, o, m)>>)
  ELSE Fault("mint", S, Nil, Nil, Nil, FALSE, o, Nil, m)

\* environment: nns.register(<nm>.container, owner = committee account | stranger X)
Wit(who) == IF who = "cmt" THEN "CMT" ELSE "X"
NnsReg(S, nm, who) ==
  IF Wit(who) \notin S THEN Fault("nnsReg", S, Nil, Nil, nm, FALSE, who, Nil, 0)
  ELSE IF dom[nm] # "free"
  THEN /\ UNCHANGED state
       /\ ev' = Event("nnsReg", S, Nil, Nil, nm, FALSE, who, Nil, 0, "HALT", "false", <<>>, <<>>)
  ELSE /\ dom' = [dom EXCEPT ![nm] = who]
       /\ UNCHANGED <<x, oidx, tomb, meta, eacl, alias, txt, bal, abal, fee, afee, n, idk>>
       /\ ev' = Event("nnsReg", S, Nil, Nil, nm, FALSE, who, Nil, 0, "HALT", "true", <<>>, <<>>)

\* environment: the domain owner adds the TXT record "foreign"
NnsAdd(S, nm) ==
  IF dom[nm] \in {"cmt", "x"} /\ Wit(dom[nm]) \in S /\ ~InSeq("foreign", txt[nm])
  THEN /\ txt' = [txt EXCEPT ![nm] = Append(@, "foreign")]
       /\ UNCHANGED <<x, oidx, tomb, meta, eacl, alias, dom, bal, abal, fee, afee, n, idk>>
       /\ ev' = Event("nnsAdd", S, Nil, Nil, nm, FALSE, Nil, Nil, 0, "HALT", "null", <<>>, <<>>)
  ELSE Fault("nnsAdd", S, Nil, Nil, nm, FALSE, Nil, Nil, 0)

InitState(n0, f0, af0) ==
  /\ x = [c \in Cids |-> None] /\ oidx = {} /\ tomb = {} /\ meta = {}
  /\ eacl = [c \in Cids |-> None] /\ alias = [c \in Cids |-> None]
  /\ dom = [m \in Names |-> "free"] /\ txt = [m \in Names |-> <<>>]
  /\ bal = [o \in Owners |-> 0] /\ abal = [k \in 1..n0 |-> 0]
  /\ fee = f0 /\ afee = af0 /\ n = n0 /\ idk = {}

Init ==
  /\ \E n0 \in NSet : InitState(n0, 0, 0)
  /\ api = ApiOf(x, oidx, eacl, alias)
  /\ ev = Event("init", {}, Nil, Nil, Nil, FALSE, Nil, Nil, 0, "HALT", "null", <<>>, <<>>)

\* mint amounts that land the owner exactly below / at / above the next charge
Hint(o) == {d \in {fee * n - bal[o] - 1, fee * n - bal[o], fee * n - bal[o] + 1,
                   (fee + afee) * n - bal[o] - 1, (fee + afee) * n - bal[o], (fee + afee) * n - bal[o] + 1} : d > 0}

NextOf(P(_), PS(_)) ==
  /\ \/ \E S \in PS(SignerSets), c \in P(PutCids), v \in P(Variants), nm \in P(Names \cup {Nil}) : Put(S, c, v, nm, FALSE)
     \/ \E S \in PS(SignerSets), c \in P(PutCids), v \in P(Variants) : Put(S, c, v, Nil, TRUE)
     \/ \E S \in PS(SignerSets), c \in P(Cids) : Delete(S, c)
     \/ \E S \in PS(SignerSets), c \in P(Cids), v \in P(Variants) : SetEACL(S, c, v)
     \/ \E S \in PS(SignerSets), k \in P({"fee", "afee"}), val \in P(Fees) : SetConfig(S, k, val)
     \/ \E S \in PS(SignerSets), o \in P(Owners) : \E m \in P(IF Amounts = {} THEN {} ELSE Amounts \cup Hint(o)) : Mint(S, o, m)
     \/ NnsEnv /\ \E S \in PS(SignerSets), nm \in P(Names), who \in P({"cmt", "x"}) : NnsReg(S, nm, who)
     \/ NnsEnv /\ \E S \in PS(SignerSets), nm \in P(Names) : NnsAdd(S, nm)
  /\ api' = ApiOf(x', oidx', eacl', alias')

All(X) == X
Next == NextOf(All, All)
Spec == Init /\ [][Next]_vars

Bounded == \A o \in Owners : bal[o] <= MaxBal

-----------------------------------------------------------------------------
(***************************************************************************)
(* Properties, as predicates over one step.  e is the invocation (ev').    *)
(* g is the abstract registry kept by whoever evaluates the predicates     *)
(* (a ghost variable, rebuilt only from the outcomes of the invocations):  *)
(*   g.live[c]  descriptor of the live container c or "none"               *)
(*   g.eacl[c]  last table set, g.alias[c] last name set                   *)
(*   g.dead     ids deleted so far, g.names[c] every name c ever carried,  *)
(*   g.last[c]  the alias c had when it was deleted                        *)
(***************************************************************************)
GInit == [live |-> [c \in Cids |-> None], eacl |-> [c \in Cids |-> None], alias |-> [c \in Cids |-> None],
          dead |-> {}, names |-> [c \in Cids |-> {}], last |-> [c \in Cids |-> None]]

GNext(g, e) ==
  IF e.res # "HALT" THEN g
  ELSE IF e.act = "put"
  THEN [g EXCEPT !.live[e.c] = e.v,
                 !.alias[e.c] = IF e.nm # Nil THEN e.nm ELSE @,
                 !.names[e.c] = IF e.nm # Nil THEN @ \cup {e.nm} ELSE @]
  ELSE IF e.act = "delete" /\ g.live[e.c] # None
  THEN [g EXCEPT !.live[e.c] = None, !.eacl[e.c] = None, !.alias[e.c] = None, !.dead = @ \cup {e.c},
                 !.last[e.c] = g.alias[e.c]]
  ELSE IF e.act = "setEACL"
  THEN [g EXCEPT !.eacl[e.c] = e.v]
  ELSE g

Live(g) == {c \in Cids : g.live[c] # None}

\* --- C04 --- (g2 = the abstract registry after the step)
C04_Get(g2)   == \A c \in Cids : api'.get[c] = (IF c \in Live(g2) THEN g2.live[c] ELSE "nf")
C04_Owner(g2) == \A c \in Cids : api'.owner[c] = (IF c \in Live(g2) THEN COwner[c] ELSE "nf")
\* a live container without table / name: the statement fixes no answer, except that it is no table / name never set
C04_EACL(g2)  == \A c \in Cids : IF c \notin Live(g2) THEN api'.eacl[c] = "nf"
                                 ELSE IF g2.eacl[c] # None THEN api'.eacl[c] = g2.eacl[c]
                                 ELSE api'.eacl[c] \notin Variants
C04_Alias(g2) == \A c \in Cids : IF c \notin Live(g2) THEN api'.alias[c] = "nf"
                                 ELSE IF g2.alias[c] # None THEN api'.alias[c] = g2.alias[c]
                                 ELSE api'.alias[c] \notin Names
C04_Lists(g2) == /\ \A o \in Owners : /\ api'.list[o] = {c \in Live(g2) : COwner[c] = o}
                                      /\ api'.cof[o]  = {c \in Live(g2) : COwner[c] = o}
                 /\ api'.list["all"] = Live(g2)
                 /\ api'.cof["all"] = Live(g2)
C04_Count(g2) == api'.count = Cardinality(Live(g2))
\* a deleted id can never be registered again
C04_Final(g, e) == e.act = "put" /\ e.c \in g.dead => e.res = "FAULT"
\* every trace of a deleted container is gone: blob, owner index, eACL, alias and the NNS record of every name
\* it carried, meta flag (raw storage of the Container contract + NNS records)
NoRawTrace(g2) == \A c \in g2.dead : x'[c] = None /\ c \notin oidx' /\ eacl'[c] = None /\ alias'[c] = None /\ c \notin meta'
StaleRecords(g2) == {p \in g2.dead \X Names : p[2] \in g2.names[p[1]] /\ InSeq(p[1], txt'[p[2]])}
C04_NoTrace(g2) == NoRawTrace(g2) /\ StaleRecords(g2) = {}
\* deviation tag: the only traces left are TXT records under names the container carried before its last alias
OnlyFormerAliasRecords(g2) == /\ NoRawTrace(g2) /\ StaleRecords(g2) # {}
                              /\ \A p \in StaleRecords(g2) : p[2] # g2.last[p[1]]
\* exactly one PutSuccess / DeleteSuccess / SetEACLSuccess per successful put / delete / setEACL, none otherwise
\* (a HALTing delete of a missing container deletes nothing: the statement allows both zero and one notification)
C04_Notif(g, e) ==
  LET one(nm) == <<Ntf(nm, e.c)>> IN
  IF e.res = "HALT" /\ e.act = "put" THEN e.ntf = one("PutSuccess")
  ELSE IF e.res = "HALT" /\ e.act = "setEACL" THEN e.ntf = one("SetEACLSuccess")
  ELSE IF e.res = "HALT" /\ e.act = "delete"
       THEN IF g.live[e.c] # None THEN e.ntf = one("DeleteSuccess") ELSE e.ntf \in {<<>>, one("DeleteSuccess")}
  ELSE e.ntf = <<>>

\* --- C05 --- (fee values of the pre-state: "configured in Netmap at that moment")
Charge(e) == fee + (IF e.nm # Nil THEN afee ELSE 0)
C05_Exact(e) ==
  e.act = "put" /\ e.res = "HALT" =>
    LET o == COwner[e.c] IN
    /\ bal'[o] = bal[o] - Charge(e) * n
    /\ \A p \in Owners \ {o} : bal'[p] = bal[p]
    /\ DOMAIN abal' = 1..n
    /\ \A k \in 1..n : abal'[k] = abal[k] + Charge(e)
    /\ api'.get[e.c] = e.v                                  \* stored in the same transaction
C05_MustPay(e) == e.act = "put" /\ bal[COwner[e.c]] < Charge(e) * n => e.res = "FAULT"
C05_Atomic(e) ==
  e.act = "put" /\ e.res = "FAULT" =>
    /\ bal' = bal /\ abal' = abal
    /\ api' = api /\ raw' = raw

=============================================================================
