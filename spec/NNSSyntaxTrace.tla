---------------------------- MODULE NNSSyntaxTrace ----------------------------
(***************************************************************************)
(* Trace monitor of C18: evaluates the property predicates of NNSSyntax    *)
(* (deciding) and its method actions with the transcribed scanners          *)
(* (binding) on the invocations recorded from the real NNS contract by     *)
(* harness/nnssyntax.                                                      *)
(*                                                                         *)
(* mode "tx":   one real transaction per line, the storage observed after  *)
(*              it is bound to the primed variables.                       *)
(* mode "call": a test invocation on top of the base storage of the        *)
(*              scenario (the reset line); r.pre lists the domains that    *)
(*              the same invocation registered before the call under test. *)
(*              Nothing persists, so only the verdict on the string is     *)
(*              judged.                                                    *)
(***************************************************************************)
EXTENDS NNSSyntax, Json, SequencesExt

CONSTANT TraceFile

VARIABLES l, sd
tvars == <<roots, names, recs, ev, l, sd>>

Trace == ndJsonDeserialize(TraceFile)

EvOf(r) == Event(r.act, ToSet(r.S), r.name, r.typ, r.id, r.s, r.res, r.ret, r.why)
RecsOf(o) == {[name |-> x.name, typ |-> x.typ, id |-> x.id, data |-> x.data] : x \in ToSet(o.recs)}

Flag(ok, prop, pred, r, tags) ==
  IF ok THEN TRUE
  ELSE PrintT("FLAG|" \o ToString(l + 1) \o "|" \o prop \o "|" \o pred \o "|" \o r.act \o "|" \o r.t
              \o "|" \o ToString(tags))

\* the storage the call under test ran on
PreState(r) ==
  LET P == ToSet(r.pre) IN
  [roots |-> roots \cup {p \in P : NumLabels(p) = 1}, names |-> names \cup P, recs |-> recs]

\* binding: the recorded outcome is the outcome of the Spec's method on that storage
\* (the class of the refusing guard is compared only when the driver could classify the fault text)
SpecOutcome(st, r) ==
  LET e == EvOf(r)
      o == DoAct(st, e.act, e.S, e.name, e.typ, e.id, e.s)
  IN  o.res = r.res /\ o.ret = r.ret /\ (r.why = "other" \/ o.why = r.why)
SpecStepTx(r) ==
  LET e == EvOf(r)
      o == DoAct(St, e.act, e.S, e.name, e.typ, e.id, e.s)
  IN  /\ roots' = o.st.roots /\ names' = o.st.names /\ recs' = o.st.recs
      /\ o.res = r.res /\ o.ret = r.ret /\ (r.why = "other" \/ o.why = r.why)

\* the raw storage agrees with what the API reports and holds nothing unknown
RawApi(o) ==
  /\ ToSet(o.roots) = ToSet(o.apiRoots)
  /\ o.stray = <<>>
  /\ \A x \in ToSet(o.apiRecs) : \E y \in ToSet(o.recs) : y.name = x.name /\ y.typ = x.typ /\ y.data = x.data

JudgeCall(r) ==
  LET e  == EvOf(r)
      st == PreState(r)
      t  == Tags(e)
  IN  /\ Flag(C18_OnlyValid(e), "C18", "OnlyValid", r, t)
      /\ Flag(C18_AllValidOn(st, e), "C18", "AllValid", r, t)
      /\ Flag(SpecOutcome(st, r), "DRIFT", "SpecStep", r, t)

JudgeTx(r) ==
  LET e == EvOf(r)
      t == Tags(e)
  IN  /\ Flag(C18_OnlyValid(e), "C18", "OnlyValid", r, t)
      /\ Flag(C18_AllValid(e), "C18", "AllValid", r, t)
      /\ Flag(C18_RejectInert(e) /\ (Refused(e) => sd' = sd), "C18", "RejectInert", r, t)
      /\ Flag(Stored(e), "DRIFT", "Stored", r, t)
      /\ Flag(RawApi(r.obs), "DRIFT", "RawApi", r, t)
      /\ Flag(SpecStepTx(r), "DRIFT", "SpecStep", r, t)

TraceInit ==
  /\ l = 0 /\ sd = ""
  /\ roots = {} /\ names = {} /\ recs = {}
  /\ ev = Event("init", {}, <<>>, 0, 0, <<>>, "HALT", "null", "")

TraceNext ==
  /\ l < Len(Trace)
  /\ l' = l + 1
  /\ LET r == Trace[l + 1] IN
     /\ ev' = EvOf(r)
     /\ IF r.act # "reset" /\ r.mode = "call"
        THEN UNCHANGED <<roots, names, recs, sd>> /\ JudgeCall(r)
        ELSE /\ roots' = ToSet(r.obs.roots) /\ names' = ToSet(r.obs.names) /\ recs' = RecsOf(r.obs)
             /\ sd' = r.obs.sd
             /\ IF r.act = "reset" THEN TRUE ELSE JudgeTx(r)
     /\ IF l' = Len(Trace) THEN PrintT("DONE|" \o ToString(l')) ELSE TRUE

TraceSpec == TraceInit /\ [][TraceNext]_tvars
=============================================================================
