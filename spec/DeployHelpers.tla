--------------------------- MODULE DeployHelpers ---------------------------
(***************************************************************************)
(* Pure helpers of /repo/deploy transcribed as TLA+ operators, and the     *)
(* properties C13 demands of them.                                         *)
(*                                                                         *)
(*   divideFundsEvenly                  deploy/funds.go:463-478            *)
(*   neoFSRuntimeTransactionModifier    deploy/deploy.go:665-686           *)
(*   sharedTransactionData codec        deploy/notary.go:740-817           *)
(*                                                                         *)
(* TLC integers are 32-bit, the helpers work on uint64 / uint32.  Every    *)
(* number that can exceed 2^31-1 is therefore a Big: a non-empty sequence  *)
(* of base-10^4 limbs, most significant first, without leading zero limbs  *)
(* (zero is <<0>>).  The Go driver records numbers in the same form, so    *)
(* the trace monitor evaluates the very same operators on 64-bit values    *)
(* that TLC enumerates exhaustively on small ones.                         *)
(*                                                                         *)
(* Spec operators (what the code computes): Divide, Window, Bytes28,       *)
(* Decode28, Unshift, Shift.  Property predicates (what C13 demands, as    *)
(* permissive as the statement): Div*, Win*, Codec*.  Both are evaluated   *)
(* by DeployHelpersMC (TLC, exhaustively on small instances) and by        *)
(* DeployTrace (on results of the real functions).                         *)
(***************************************************************************)
EXTENDS Integers, Sequences, FiniteSets, TLC

Base == 10000

\* ------------------------------------------------------------------ Big
IsBig(x) == /\ Len(x) >= 1
            /\ \A i \in 1..Len(x) : x[i] \in 0..(Base - 1)
            /\ (Len(x) > 1 => x[1] # 0)

RECURSIVE BigNorm(_)
BigNorm(x) == IF Len(x) > 1 /\ x[1] = 0 THEN BigNorm(Tail(x)) ELSE x

\* k < 2^31
BigOfNat(k) ==
  IF k < Base THEN <<k>>
  ELSE IF k < Base * Base THEN <<k \div Base, k % Base>>
  ELSE <<k \div (Base * Base), (k \div Base) % Base, k % Base>>

BigZero == <<0>>
BigIsZero(x) == x = BigZero

\* value of a Big that is known to fit (used only on small instances)
RECURSIVE BigVal(_)
BigVal(x) == IF Len(x) = 1 THEN x[1] ELSE BigVal(SubSeq(x, 1, Len(x) - 1)) * Base + x[Len(x)]

BigLt(x, y) ==
  \/ Len(x) < Len(y)
  \/ /\ Len(x) = Len(y)
     /\ \E i \in 1..Len(x) : x[i] < y[i] /\ \A j \in 1..(i - 1) : x[j] = y[j]
BigLe(x, y) == x = y \/ BigLt(x, y)

\* pad to length k with leading zeros
Pad(x, k) == [i \in 1..k |-> IF i <= k - Len(x) THEN 0 ELSE x[i - (k - Len(x))]]

\* x + y : ripple carry from the least significant limb
RECURSIVE AddLimbs(_, _, _, _)
AddLimbs(x, y, i, carry) ==   \* x, y padded to the same length; i = current limb (from Len down to 1)
  IF i = 0 THEN (IF carry = 0 THEN <<>> ELSE <<carry>>)
  ELSE LET s == x[i] + y[i] + carry
       IN  AddLimbs(x, y, i - 1, s \div Base) \o <<s % Base>>
BigAdd(x, y) ==
  LET k == IF Len(x) > Len(y) THEN Len(x) ELSE Len(y)
  IN  BigNorm(AddLimbs(Pad(x, k), Pad(y, k), k, 0))
BigAddSmall(x, k) == BigAdd(x, BigOfNat(k))

\* x - k for a small k <= x (borrow from the more significant limbs)
RECURSIVE SubSmallAt(_, _, _)
SubSmallAt(x, i, k) ==
  IF k = 0 THEN x
  ELSE IF x[i] >= k THEN [x EXCEPT ![i] = @ - k]
  ELSE SubSmallAt([x EXCEPT ![i] = @ + Base - k], i - 1, 1)
BigSubSmall(x, k) == BigNorm(SubSmallAt(x, Len(x), k))    \* requires k < Base, k <= x

\* long division by a small divisor d (1 <= d <= 10^5): [q |-> Big, r |-> 0..d-1]
RECURSIVE DivLimbs(_, _, _, _)
DivLimbs(x, d, i, r) ==
  IF i > Len(x) THEN [q |-> <<>>, r |-> r]
  ELSE LET cur  == r * Base + x[i]
           rest == DivLimbs(x, d, i + 1, cur % d)
       IN  [q |-> <<cur \div d>> \o rest.q, r |-> rest.r]
BigDivSmall(x, d) == LET z == DivLimbs(x, d, 1, 0) IN [q |-> BigNorm(z.q), r |-> z.r]

RECURSIVE BigSum(_)
BigSum(s) == IF s = <<>> THEN BigZero ELSE BigAdd(Head(s), BigSum(Tail(s)))

MaxU32 == <<42, 9496, 7295>>       \* 4 294 967 295
MaxU64 == <<1844, 6744, 737, 955, 1615>>   \* 18 446 744 073 709 551 615
IsU32(x) == IsBig(x) /\ BigLe(x, MaxU32)
IsU64(x) == IsBig(x) /\ BigLe(x, MaxU64)

\* ------------------------------------------------------- divideFundsEvenly
(***************************************************************************)
(*   quot := fullAmount / n ; rem := fullAmount % n                        *)
(*   for i := range n { amount := quot                                     *)
(*       if rem > 0 { amount++; rem-- } else if amount == 0 { return }     *)
(*       f(i, amount) }                                                    *)
(* The result is the sequence of callback invocations <<ind, amount>>.     *)
(***************************************************************************)
Divide(amount, n) ==
  LET d     == BigDivSmall(amount, n)
      quot  == d.q
      rem   == d.r
      calls == IF BigIsZero(quot) THEN rem ELSE n
  IN  [j \in 1..calls |-> <<j - 1, IF j - 1 < rem THEN BigAddSmall(quot, 1) ELSE quot>>]

\* C13: "its fund arithmetic is exact (shares sum to the input and differ by at most one)"
\* calls = the observed callback sequence; a receiver that got no callback has share 0
Shares(calls, n) == [i \in 0..(n - 1) |->
                       IF \E j \in 1..Len(calls) : calls[j][1] = i
                       THEN (LET j == CHOOSE j \in 1..Len(calls) : calls[j][1] = i IN calls[j][2])
                       ELSE BigZero]
DivSum(amount, n, calls) == BigSum([j \in 1..Len(calls) |-> calls[j][2]]) = amount
DivEven(amount, n, calls) ==
  LET sh == Shares(calls, n)
  IN  \A i, k \in 0..(n - 1) : BigLe(sh[i], BigAddSmall(sh[k], 1))
\* every receiver index is used at most once and belongs to 0..n-1, nobody is called with 0,
\* the receivers that are called form a prefix 0..k-1 (callback indices dense)
DivDense(amount, n, calls) ==
  /\ Len(calls) <= n
  /\ \A j \in 1..Len(calls) : calls[j][1] = j - 1 /\ ~BigIsZero(calls[j][2])

\* ------------------------------------------- neoFSRuntimeTransactionModifier
(***************************************************************************)
(*   n := curHeight / 100 ; tx.Nonce = n * 100                             *)
(*   if MaxUint32 - 100 > tx.Nonce { VUB = Nonce + 100 } else { VUB = MaxUint32 } *)
(* 10^4 is a multiple of 100, so h % 100 is the last limb % 100.           *)
(***************************************************************************)
Span == 100
Window(h) ==
  LET nonce == BigSubSmall(h, h[Len(h)] % Span)
  IN  [nonce |-> nonce,
       vub   |-> IF BigLt(nonce, BigSubSmall(MaxU32, Span)) THEN BigAddSmall(nonce, Span) ELSE MaxU32]

\* what the deployment needs of the window (notary requests of different members for the same
\* action must coincide, and the transaction must be acceptable now):
\*   deterministic per window of 100 blocks: nonce = 100*N <= h < 100*(N+1)
\*   valid at the current height and not longer than one span beyond the window, no uint32 overflow
WinAligned(h, r) == /\ IsU32(r.nonce) /\ r.nonce[Len(r.nonce)] % Span = 0
                    /\ BigLe(r.nonce, h) /\ BigLt(h, BigAddSmall(r.nonce, Span))
WinValid(h, r) == /\ IsU32(r.vub)
                  /\ (BigLt(h, r.vub) \/ r.vub = MaxU32)
                  /\ BigLe(r.vub, BigAddSmall(r.nonce, Span))
                  /\ (r.vub = BigAddSmall(r.nonce, Span) \/ r.vub = MaxU32)

\* ------------------------------------------------- sharedTransactionData
(***************************************************************************)
(* bytes(): sender (20 bytes, big endian) || BE32(validUntilBlock) ||      *)
(* BE32(nonce).  Base64 and SHA-256 are library functions of the trusted   *)
(* base: the driver records the decoded bytes and an independently         *)
(* computed checksum (first 4 bytes of SHA-256 of bytes()).                *)
(***************************************************************************)
BE32(x) ==
  LET d0 == BigDivSmall(x, 256)
      d1 == BigDivSmall(d0.q, 256)
      d2 == BigDivSmall(d1.q, 256)
  IN  <<BigVal(d2.q), d2.r, d1.r, d0.r>>     \* d2.q < 256 for a uint32

\* ((b1*256 + b2)*256 + b3)*256 + b4 without leaving 32-bit: via Big
BigMulSmall256(x) == \* x * 256
  LET RECURSIVE Mul(_, _)
      Mul(i, carry) == IF i = 0 THEN (IF carry = 0 THEN <<>> ELSE <<carry>>)
                       ELSE LET p == x[i] * 256 + carry IN Mul(i - 1, p \div Base) \o <<p % Base>>
  IN  BigNorm(Mul(Len(x), 0))
U32OfBytes(b) == BigAddSmall(BigMulSmall256(BigAddSmall(BigMulSmall256(BigAddSmall(BigMulSmall256(<<b[1]>>), b[2])), b[3])), b[4])

Bytes28(d) == d.sender \o BE32(d.vub) \o BE32(d.nonce)

\* decodeString after base64: length check, then the three fields
Decode28(b, senderLen) ==
  IF Len(b) # senderLen + 8 THEN [ok |-> FALSE]
  ELSE [ok |-> TRUE, sender |-> SubSeq(b, 1, senderLen),
        vub |-> U32OfBytes(SubSeq(b, senderLen + 1, senderLen + 4)),
        nonce |-> U32OfBytes(SubSeq(b, senderLen + 5, senderLen + 8))]

CkLen == 4
Unshift(sum, data) == sum \o data
Shift(sum, data) ==
  IF Len(data) < CkLen THEN [ok |-> FALSE, rest |-> data]
  ELSE IF SubSeq(data, 1, CkLen) # sum THEN [ok |-> FALSE, rest |-> <<>>]
  ELSE [ok |-> TRUE, rest |-> SubSeq(data, CkLen + 1, Len(data))]

\* properties of the codec (decided on observed values)
CodecRoundTrip(d, dec) == dec.ok /\ dec.sender = d.sender /\ dec.vub = d.vub /\ dec.nonce = d.nonce
CodecLength(len, ok, senderLen) == ok <=> (len = senderLen + 8)
CkRoundTrip(data, back) == back.ok /\ back.rest = data
\* a payload whose checksum prefix is not the checksum of the local shared data is refused
CkReject(sum, arg, res) == (Len(arg) < CkLen \/ SubSeq(arg, 1, CkLen) # sum) => ~res.ok
=============================================================================
