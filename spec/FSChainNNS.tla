------------------------------ MODULE FSChainNNS ------------------------------
(***************************************************************************)
(* Fragment: the NNS contract as the other contracts use it.               *)
(*   dom[nm], txt[nm]   alias domains "<nm>.container": owner class and the *)
(*                      container named by the TXT record (Nil: none)      *)
(*   ptr                which Netmap instance the TXT record of            *)
(*                      "netmap.neofs" names (common.ResolveFSContract)    *)
(* Reading the code: every ResolveFSContract call sits in a _deploy (or in *)
(* common.SubscribeForNewEpoch, itself only called from _deploy): Alphabet *)
(* stores netmap/proxy, Container stores netmap/balance/neofsid/nns,       *)
(* Balance and Container subscribe at the Netmap the record names at that  *)
(* moment.  No exported method resolves at call time.                      *)
(***************************************************************************)
EXTENDS FSChainBase

NRegister(dom, nm)  == [dom EXCEPT ![nm] = "self"]
NAddTxt(txt, nm, c) == [txt EXCEPT ![nm] = c]
NDelTxt(txt, nm)    == [txt EXCEPT ![nm] = Nil]
\* setRecord("netmap.neofs", TXT, 0, hash) by the owner of the domain (the committee account)
NRepointOk(S) == HasCmt(S)
=============================================================================
