----------------------------- MODULE UpgradeTrace -----------------------------
(***************************************************************************)
(* Trace monitor of property C16: evaluates the predicates of Upgrade.tla  *)
(* (deciding) and its Update action / migration operators (binding) on     *)
(* executions of the real contracts recorded by harness/upgrade.  The      *)
(* variables of the Spec are bound to the observed state of every line:    *)
(* store = raw storage decoded into abstract items, ver = version(), api = *)
(* the read API as observed (while the contract still is the helper shell: *)
(* the model state the synthetic storage stands for, OldAPI(store)).       *)
(***************************************************************************)
EXTENDS Upgrade, Json, SequencesExt

CONSTANT TraceFile

VARIABLES l, raw, pend
tvars == <<kind, mode, era, ver, store, api, ev, l, raw, pend>>

Trace == ndJsonDeserialize(TraceFile)
T_New  == Trace[1].new
T_Prev == Trace[1].prev

Flag(ok, prop, pred, r, tags) ==
  IF ok THEN TRUE
  ELSE PrintT("FLAG|" \o ToString(l + 1) \o "|" \o prop \o "|" \o pred \o "|" \o r.act \o "|" \o ToString(r.t)
              \o "|" \o ToString(tags))

\* deviation tags: predicates over one line that explain a failure by a listed known finding
Tags(r) ==
  IF \E i \in store : i[1] = "size" /\ i[2] = "big" THEN {"EstKey57"} ELSE {}

SpecStep(r, e) ==
  CASE r.act = "update" ->
         LET ok == Gate(e.S) /\ InWindow(e.v) /\ ~(e.v < 17000 /\ kind \in PurgeKinds /\ pend)
         IN  /\ (e.res = "HALT") = ok
             /\ ok => /\ ver' = New
                      /\ \/ r.mode = "dump"
                         \/ store' = Migrate(kind, e.v, store, {})
                         \/ store' = Migrate(kind, e.v, store, AllDev)
             \* (a refused attempt changes nothing; the observed age class of the ballots moves with the block height)
             /\ ~ok => ver' = ver /\ Drop(store', {"ballots"}) = Drop(store, {"ballots"})
    [] r.act = "wait" -> ver' = ver
    [] OTHER -> FALSE

\* the decoded storage must explain what the API reports (otherwise the Spec state is ambiguous)
RawApi(r) == r.obs.ver >= 0 /\ r.mode # "dump" => ToSet(r.obs.api) = NewAPI(r.kind, store')
PendBinding(r) == r.mode # "dump" =>
   (r.obs.pend = (NotaryOn(store') /\ Has(store', "ballots") /\ ValOf(store', "ballots") \in FreshBallots))

Judge(r) ==
  LET e == ev'
      t == Tags(r)
  IN  /\ Flag(C16_Gated(e, ver # -1), "C16", "Gated", r, t)
      /\ Flag(C16_Window(e), "C16", "Window", r, t)
      /\ Flag(C16_Accepts(e, ver # -1, e.v < 17000 /\ kind \in PurgeKinds /\ pend), "C16", "Accepts", r, t)
      /\ Flag(C16_Inert(e, raw' = raw), "C16", "Inert", r, t)
      /\ Flag(C16_Preserves(e), "C16", "Preserves", r, t)
      /\ Flag(\A i \in store' : i[1] # "?", "DRIFT", "UnknownKey", r, t)
      /\ Flag(RawApi(r), "DRIFT", "RawApi", r, t)
      /\ Flag(PendBinding(r), "DRIFT", "PendBinding", r, t)
      /\ Flag(SpecStep(r, e), "DRIFT", "SpecStep", r, t)

TraceInit ==
  /\ l = 0
  /\ kind = "balance" /\ mode = "shell" /\ era = 0 /\ ver = -1 /\ store = {} /\ api = {}
  /\ ev = Event("init", {}, 0, "HALT")
  /\ raw = <<>> /\ pend = FALSE

TraceNext ==
  /\ l < Len(Trace)
  /\ l' = l + 1
  /\ LET r == Trace[l + 1]
         o == r.obs
     IN  /\ kind' = r.kind /\ mode' = r.mode /\ era' = 0
         /\ ver' = o.ver
         /\ store' = ToSet(o.store)
         /\ api' = IF o.ver = -1 THEN OldAPI(r.kind, store') ELSE ToSet(o.api)
         /\ raw' = <<o.raw, o.nef, o.upd>>
         /\ pend' = o.pend
         /\ ev' = Event(r.act, ToSet(r.S), r.v, r.res)
         \* "prep" = an operation of the deployed (old) contract that sets a stored parameter: part of the pre-state
         /\ IF r.act \in {"reset", "prep"} THEN TRUE ELSE Judge(r)
         /\ IF l' = Len(Trace) THEN PrintT("DONE|" \o ToString(l')) ELSE TRUE

TraceSpec == TraceInit /\ [][TraceNext]_tvars
=============================================================================
