----------------------------- MODULE FSChainBase -----------------------------
(***************************************************************************)
(* Shared vocabulary of the FS-chain composition (family FSChain, check    *)
(* X01).  The composed state is ONE record w (one field per storage item   *)
(* of every contract that the cross-contract properties mention); a        *)
(* transaction is a function from w to a result [ok, w, x]: ok = FALSE is  *)
(* an exception somewhere in the call tree (the VM then discards every     *)
(* write of every contract: the composed step is UNCHANGED), x collects    *)
(* the TransferX notifications of Balance in execution order.              *)
(***************************************************************************)
EXTENDS Integers, Sequences, FiniteSets, TLC

Nil == "nil"
Rng(s) == {s[i] : i \in 1..Len(s)}

RECURSIVE SumOver(_, _)      \* copied from Balance.tla
SumOver(f, D) == IF D = {} THEN 0 ELSE LET x == CHOOSE y \in D : TRUE IN f[x] + SumOver(f, D \ {x})

Ok(w, x)  == [ok |-> TRUE, w |-> w, x |-> x]
Fail(w)   == [ok |-> FALSE, w |-> w, x |-> <<>>]

HasAlpha(S) == "ALPHA" \in S
HasCmt(S)   == "CMT" \in S
=============================================================================
