------------------------------ MODULE StoresMC ------------------------------
(* Model-checking wrapper of Stores: the universes of the bounded            *)
(* configurations (with the byte strings of every identifier), the ghost     *)
(* exact maps as a variable, the property as an action formula / invariant,  *)
(* and the scenario emitter used with `tlc -simulate`.                       *)
EXTENDS Stores, Json

VARIABLES g, hist
mcvars == <<U, st, api, ev, g, hist>>

CONSTANTS SimLen, MaxEnt, MaxEpoch,
          Start      \* "empty": freshly deployed contracts; "ready": an environment in which node n1 (not n2) is in
                     \* the current and previous network maps, container c1 exists and n1 is the Inner Ring

\* ---- identifiers and their bytes.  All identifiers of one kind have the same length, as on the
\*      chain (33-byte keys, 32-byte container ids, truncated hashes), so key construction is injective.
\*      The leading bytes are chosen so that every kind of prefix coincidence can happen:
\*      peer keys start with 02 / 03 like compressed public keys, container c1 starts with 01.
B_Peer == [p1 |-> <<2, 7>>, p2 |-> <<3, 1>>, p3 |-> <<2, 1>>]
B_Cid  == [c1 |-> <<1, 9>>, c2 |-> <<5, 1>>]
B_Ah   == [n1 |-> <<4>>, n2 |-> <<6>>, n3 |-> <<1>>]
B_Eh   == [n1 |-> <<8>>, n2 |-> <<1>>, n3 |-> <<3>>]

RestrictTo(f, D) == [x \in D |-> f[x]]
UOf(E, P, C, N, O, K, CK) ==
  [qe |-> E, peer |-> RestrictTo(B_Peer, P), cid |-> RestrictTo(B_Cid, C), ah |-> RestrictTo(B_Ah, N), eh |-> RestrictTo(B_Eh, N),
   owners |-> O \ {"obad"}, keys |-> K \ {"kbad"}, cfgkeys |-> CK]

\* query epochs: the offered ones plus values whose encodings are prefixes / extensions of them
QEpochs == Epochs \cup {0, 1, 2} \cup (IF "est" \in Acts THEN NearEst ELSE {})

MCU == UOf(QEpochs, Peers, Cids, Nodes, Owners, Keys, CfgKeys)

\* ---- constant sets for the cfg files
\* quick
QR_Epochs  == {0, 1, 257}
QA_Epochs  == {0, 1, 257}
QE_Epochs  == {1, 257}
QV_Epochs  == {1}
Q_Size1    == {1}
QV_Signers == {{"ALPHA"}, {"n1"}}
Q_Peers    == {"p1", "p2"}
Q_Cids1    == {"c1"}
Q_Cids     == {"c1", "c2"}
Q_Nodes    == {"n1", "n2"}
Q_Vals     == {"v1", "v2"}
Q_Sizes    == {1, 2}
Q_Owners   == {"o1", "obad"}
Q_Keys     == {"k1", "kbad"}
Q_CfgKeys  == {"", "A", "AB"}
QR_Signers == {{}, {"ALPHA"}}
QA_Signers == {{}, {"n1"}, {"n2"}, {"CMT"}, {"ALPHA", "n1"}}
QE_Signers == {{"ALPHA"}, {"n1"}, {"n2"}}
Q_IRSets   == {{"n1"}, {"n1", "n2"}}
\* thorough
T_Epochs   == {0, 1, 128, 257, 65664}
TE_Epochs  == {0, 1, 257}
TA_Epochs  == {0, 1, 257, 65664}
T_Peers    == {"p1", "p2", "p3"}
T_Nodes    == {"n1", "n2", "n3"}
T_Vals     == {"v0", "v1", "v2"}
T_Owners   == {"o1", "o2", "obad"}
T_CfgKeys  == {"", "A", "AB", "B"}
TR_Signers == {{}, {"ALPHA"}, {"CMT"}}
TA_Signers == {{"n1"}, {"n2"}, {"n3"}, {"CMT"}, {"ALPHA", "n1"}}
TE_Signers == {{}, {"ALPHA"}, {"n1"}, {"n2"}, {"CMT"}, {"ALPHA", "n1"}}
T_IRSets   == {{"n1"}, {"n2", "n3"}, {"n1", "n2", "n3"}}
\* simulation (scenario generation)
S_Epochs   == {0, 1, 2, 3, 127, 128, 255, 256, 257, 383, 513, 769, 65535, 65536, 65664, 65792}
S_Cids     == {"c1", "c2"}
S_Sizes    == {0, 1, 7, 1000}
S_Owners   == {"o1", "o2", "obad"}
S_Keys     == {"k1", "k2", "k3", "kbad"}
S_Vals     == {"v0", "v1", "v2", "v3"}
S_Signers  == {{}, {"ALPHA"}, {"CMT"}, {"M1"}, {"X"}, {"n1"}, {"n2"}, {"n3"}, {"ALPHA", "n1"}, {"n1", "n2"}, {"CMT", "n2"}}
S_IRSets   == {{"n1"}, {"n2"}, {"n1", "n2"}, {"n2", "n3"}, {"n1", "n2", "n3"}}
S_Acts     == {"rep", "aud", "ir", "est", "nm", "cn", "ntf", "id", "cfg"}

ReadySt == [EmptySt EXCEPT !.env = [epoch |-> 0, cand |-> {"n1"}, cur |-> {"n1"}, prev |-> {"n1"},
                                    cnts |-> {"c1"}, dead |-> {}, ir |-> {"n1"}]]
MCInit == InitWith(MCU, IF Start = "ready" THEN ReadySt ELSE EmptySt) /\ g = GInit /\ hist = <<>>
MCNext == Next /\ g' = GNext(g, ev') /\ hist' = <<>>
MCSpec == MCInit /\ [][MCNext]_mcvars

\* bounds of the exhaustive exploration
Bounded ==
  /\ Cardinality(st.repV) <= MaxEnt
  /\ Cardinality(st.aud) <= MaxEnt
  /\ Cardinality(st.est) <= MaxEnt
  /\ \A l \in st.estL : Len(l.l) <= MaxEnt
  /\ \A x \in st.est : x.e <= MaxEpoch
  /\ \A l \in st.estL : \A i \in 1..Len(l.l) : l.l[i] <= MaxEpoch
  /\ st.env.epoch <= MaxEpoch

MCView == <<st, g>>

P_C20    == [][C20_All(g, g', ev')]_mcvars
Inv_C20  == Inv_Exact(g)
TypeOK   == /\ \A x \in st.repC : x.c >= 1
            /\ \A x \in st.est : x.f = x.n
            /\ st.env.cnts \cap st.env.dead = {}

\* ---- scenario generation
One(X) == IF X = {} THEN {} ELSE {RandomElement(X)}
\* signer sets are drawn with a bias towards the set that makes the call succeed
\* (70 %); where the call needs a node's own witness, a foreign node signs in half of the other cases
\* (signer A, argument / header key B)
OneS(X, h) == LET k == RandomElement(1..20)
              IN  IF k <= 14 THEN {h}
                  ELSE IF k <= 17 /\ h \cap {"ALPHA", "CMT"} = {} THEN One({{n} : n \in Nodes \ h})
                  ELSE One(X)
\* every scenario starts with an environment in which estimations and audit results can be accepted
Prelude == <<
  [act |-> "cn.put", S |-> {"ALPHA"}, e |-> 0, x |-> 0, a |-> "c1", b |-> Nil, v |-> Nil, ks |-> <<>>],
  [act |-> "cn.put", S |-> {"ALPHA"}, e |-> 0, x |-> 0, a |-> "c2", b |-> Nil, v |-> Nil, ks |-> <<>>],
  [act |-> "nm.add", S |-> {"ALPHA"}, e |-> 0, x |-> 0, a |-> Nil, b |-> "n1", v |-> Nil, ks |-> <<>>],
  [act |-> "nm.add", S |-> {"ALPHA"}, e |-> 0, x |-> 0, a |-> Nil, b |-> "n2", v |-> Nil, ks |-> <<>>],
  [act |-> "nm.tick", S |-> {"ALPHA"}, e |-> 1, x |-> 0, a |-> Nil, b |-> Nil, v |-> Nil, ks |-> <<>>],
  [act |-> "nm.tick", S |-> {"ALPHA"}, e |-> 2, x |-> 0, a |-> Nil, b |-> Nil, v |-> Nil, ks |-> <<>>],
  [act |-> "ir.set", S |-> {"CMT"}, e |-> 0, x |-> 0, a |-> Nil, b |-> Nil, v |-> Nil, ks |-> <<"n1", "n2">>] >>
PreludeSt == [EmptySt EXCEPT !.env = [epoch |-> 2, cand |-> {"n1", "n2"}, cur |-> {"n1", "n2"}, prev |-> {"n1", "n2"},
                                      cnts |-> {"c1", "c2"}, dead |-> {}, ir |-> {"n1", "n2"}]]
\* (the generator needs no query sweep: the driver builds the universe of every scenario itself)
SimInit == /\ U = [MCU EXCEPT !.qe = {0, 1}] /\ st = PreludeSt /\ api = ApiOf(PreludeSt) /\ ev = InitEv /\ g = GInit /\ hist = Prelude
Strip(e) == [act |-> e.act, S |-> e.S, e |-> e.e, x |-> e.x, a |-> e.a, b |-> e.b, v |-> e.v, ks |-> e.ks]
SimNext == NextOf(One, OneS) /\ g' = GNext(g, ev') /\ hist' = Append(hist, Strip(ev'))
SimSpec == SimInit /\ [][SimNext]_mcvars

EmitScenario == IF Len(hist) = SimLen THEN PrintT("SCEN " \o ToJson([steps |-> hist])) ELSE TRUE

=============================================================================
