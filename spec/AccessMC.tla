------------------------------ MODULE AccessMC ------------------------------
(* Model-checking wrapper of Access.tla.  The exhaustive run enumerates        *)
(* Methods x signer-set descriptors x committee sizes (one step from an idle  *)
(* state: the matrix is flat, the abstract world has two values), checks the  *)
(* property predicates on every cell and PRINTS the cell with the expected    *)
(* kind of outcome - this table is the test matrix executed by harness/access. *)
EXTENDS Access, Json

VARIABLE pc
mcvars == <<world, tok, ev, pc>>

MC_Sizes  == {1, 3, 4, 6, 7}
MC_SizesT == 1..7
MC_World == {0, 1}

MCInit == Init /\ world = 0 /\ tok = 0 /\ pc = "idle"     \* one start state: only equality of world/tok matters
MCNext == pc = "idle" /\ Next /\ pc' = "done"
MCSpec == MCInit /\ [][MCNext]_mcvars

\* the printed cell: invocation, normalised signer set S, the descriptor S0 is recovered by the driver
\* from S (atoms that coincide are all listed), expected kind
Cell ==
  [act |-> ev.act, c |-> ev.c, m |-> ev.m, a |-> ev.a, v |-> ev.v, safe |-> ev.safe, io |-> ev.io, cls |-> ev.cls,
   S |-> ev.S, n |-> ev.n,
   kind |-> IF ev.act = "verify" THEN (IF VerifyAccepts(ev.cls, ev.S) THEN "accept" ELSE "reject")
            ELSE Kind(ev.safe, ev.io, ev.cls, ev.S, ev.n)]

EmitCell == IF pc = "done" THEN PrintT("SCEN " \o ToJson(Cell)) ELSE TRUE

P_C03 == [][/\ C03_Inert(ev') /\ C03_Succeeds(ev') /\ C03_SafeInert(ev') /\ C03_Verify(ev')]_mcvars

\* vacuity guards: every kind of cell exists for every committee size
HasKinds ==
  \A n \in Sizes : \A k \in {"inert", "succeed", "safe"} :
     \E m \in Methods : \E S0 \in SetsFor(m) : Kind(m.safe, m.io, ClassOf(m), Norm(S0, ClassOf(m), n), n) = k
\* every mutating method whose class can be satisfied has an exactly-sufficient cell, and every one an insufficient cell
EveryMethodDecided ==
  \A n \in Sizes : \A m \in Methods : ~m.safe =>
     /\ (~m.io /\ ClassOf(m) \notin {"never"}) => \E S0 \in SetsFor(m) : Exact(ClassOf(m), Norm(S0, ClassOf(m), n), n)
     /\ ClassOf(m) \notin {"none"}  => \E S0 \in SetsFor(m) : ~Sufficient(ClassOf(m), Norm(S0, ClassOf(m), n))
\* the committee account satisfies an Alphabet-only class exactly when the two accounts coincide
ThresholdConfusion ==
  \A n \in Sizes : Sufficient("alphabet", Norm({"CMT"}, "alphabet", n)) <=> n \in {1, 2, 4}
\* table keys are unique
UniqueKeys == \A x, y \in Methods : (x.c = y.c /\ x.m = y.m /\ x.a = y.a /\ x.v = y.v) => x = y
ASSUME HasKinds /\ EveryMethodDecided /\ ThresholdConfusion /\ UniqueKeys

=============================================================================
