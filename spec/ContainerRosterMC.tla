-------------------------- MODULE ContainerRosterMC --------------------------
(* Model-checking wrapper of ContainerRoster.tla: constants of the bounded     *)
(* configurations, the abstract roster g as a ghost variable, C14 as an        *)
(* action formula, and the scenario emitter used with `tlc -simulate`.         *)
EXTENDS ContainerRoster, Json, SequencesExt

VARIABLES g, hist
mcvars == <<pend, comm, reps, meta, api, ev, g, hist>>

Sig(k, m, f) == [k |-> k, m |-> m, f |-> f]

\* ---- exhaustive: three keys, one container, two vectors, every matrix over the signature alphabet ----
\* keys 1 and 2 can be members (key 1 also twice: <<1,1>> with dup, or added twice), key 3 never is
Q_Batches == {<<1, 2>>, <<1, 1>>, <<2, 0>>}
Q_RepSeqs == {<<>>, <<1>>, <<2>>, <<1, 1>>}
Q_SigAlphabet == {Sig(1, "m1", "ok"), Sig(1, "m1", "mal"), Sig(2, "m1", "ok"), Sig(3, "m1", "ok"), Sig(1, "m2", "ok")}
Q_SignerSets == {{}, {"ALPHA"}}

\* second exhaustive configuration: one vector, up to three signatures, REP up to 3, four keys
T_Batches == {<<1, 2>>, <<3, 1>>, <<2, 0>>, <<1, 3>>, <<4, 1>>}
T_RepSeqs == {<<>>, <<1>>, <<2>>, <<3>>}
T_SigAlphabet == Q_SigAlphabet \cup {Sig(1, "m1", "junk"), Sig(2, "m1", "mal")}
T_SignerSets == {{}, {"ALPHA"}, {"CMT"}}

\* ---- long rosters: the two-byte counter crosses 127 / 255 / 256 (no signatures) ----
L_Batches == {<<1, 1>>, <<1, 126>>, <<1, 127>>, <<1, 128>>, <<1, 129>>, <<1, 254>>, <<1, 255>>, <<1, 256>>, <<1, 257>>, <<1, 300>>, <<200, 2>>, <<7, 0>>}
L_RepSeqs == {<<>>, <<1>>}

\* ---- simulation ----
S_Batches == {<<1, 1>>, <<1, 2>>, <<2, 3>>, <<5, 4>>, <<1, 0>>, <<7, 1>>, <<3, 5>>, <<1, 127>>, <<100, 128>>, <<1, 129>>, <<20, 255>>, <<1, 256>>}
S_RepSeqs == {<<0>>, <<2, 0>>, <<>>, <<1>>, <<2>>, <<2>>, <<3>>, <<4>>, <<1, 1>>, <<2, 1>>, <<1, 2>>, <<2, 2>>, <<3, 2>>, <<1, 2, 3>>, <<4, 1>>, <<1, 1, 1, 1>>}
S_SignerSets == {{}, {"ALPHA"}, {"CMT"}, {"M1"}, {"X"}, {"ALPHA", "X"}}

MCInit == Init /\ g = GInit /\ hist = <<>>
MCNext == Next /\ g' = GNext(g, ev') /\ hist' = <<>>
MCSpec == MCInit /\ [][MCNext]_mcvars

One(X) == IF X = {} THEN {} ELSE {RandomElement(X)}
OneS(X) == IF RandomElement(1..3) = 1 THEN One(X) ELSE {{"ALPHA"}}
Pick(s) == s[RandomElement(1..Len(s))]
\* a random signature for vector i (zero-based) of container c, biased towards members and well-formed signatures
RandSig(c, i) ==
  LET mem == IF RandomElement(1..5) = 1 THEN NodesOf(c, RandomElement(Vecs)) ELSE NodesOf(c, i)   \* sometimes another vector's members
      kk  == IF mem # <<>> /\ RandomElement(1..6) > 1 THEN mem[RandomElement(1..Len(mem))] ELSE RandomElement(1..K)
  IN  [k |-> kk, m |-> Pick(<<"m1", "m1", "m1", "m1", "m1", "m2">>), f |-> Pick(<<"ok", "ok", "ok", "ok", "mal", "mal", "junk">>)]
\* every fourth signature repeats the signer of the one before it (as produced, or as its malleated twin)
RECURSIVE RandVec(_, _, _)
RandVec(c, i, k) ==
  IF k = 0 THEN <<>>
  ELSE LET prev == RandVec(c, i, k - 1) IN
       IF prev # <<>> /\ RandomElement(1..4) = 1
       THEN Append(prev, [prev[Len(prev)] EXCEPT !.f = Pick(<<"ok", "mal">>)])
       ELSE Append(prev, RandSig(c, i))
\* a vector aimed at a member that is listed twice in vector i: its signature, the same again or its malleated twin,
\* and REP_i - 2 (sometimes - 1) other members
RepKeys(c, i) == LET nd == NodesOf(c, i) IN
                 IF Len(nd) > 40 THEN {}            \* (quadratic; long rosters get ordinary random vectors)
                 ELSE {nd[p] : p \in {q \in 1..Len(nd) : \E r \in 1..Len(nd) : r # q /\ nd[r] = nd[q]}}
RECURSIVE TakeSigs(_, _)
TakeSigs(ks, k) == IF k <= 0 \/ ks = <<>> THEN <<>> ELSE <<[k |-> Head(ks), m |-> "m1", f |-> "ok"]>> \o TakeSigs(Tail(ks), k - 1)
TwiceVec(c, i) ==
  LET nd  == NodesOf(c, i)
      kk  == RandomElement(RepKeys(c, i))
      rp  == IF i < Len(reps[c]) THEN reps[c][i + 1] ELSE 2
      oth == SetToSeq({nd[p] : p \in 1..Len(nd)} \ {kk})
  IN  <<[k |-> kk, m |-> "m1", f |-> "ok"], [k |-> kk, m |-> "m1", f |-> Pick(<<"ok", "mal">>)]>>
      \o TakeSigs(oth, rp - Pick(<<2, 2, 1>>))
\* REP_i distinct members of vector i (as far as there are that many), each signing the message once
HonestVec(c, i) ==
  LET nd == NodesOf(c, i)
      rp == IF i < Len(reps[c]) THEN reps[c][i + 1] ELSE 1
  IN  IF Len(nd) > 40 THEN TakeSigs(SubSeq(nd, 1, rp), rp) ELSE TakeSigs(SetToSeq({nd[p] : p \in 1..Len(nd)}), rp)
RECURSIVE RandMat(_, _)
RandMat(c, k) == IF k = 0 THEN <<>>
                 ELSE Append(RandMat(c, k - 1),
                             IF RepKeys(c, k - 1) # {} /\ RandomElement(1..2) = 1 THEN TwiceVec(c, k - 1)
                             ELSE IF RandomElement(1..2) = 1 THEN HonestVec(c, k - 1)
                             ELSE RandVec(c, k - 1, RandomElement(0..5)))
OneM(c) == {RandMat(c, IF RandomElement(1..5) = 1 THEN RandomElement(0..3) ELSE Len(reps[c]))}
\* Simulation draws the arguments with a bias towards calls that get somewhere: the next contiguous vector, a
\* well-formed batch, a REP list that fits the pending roster, signatures for containers that have REP numbers
\* (without them everything verifies vacuously) and of the message that is verified.
MinOf(a, b) == IF a < b THEN a ELSE b
NPend(c) == Cardinality({v \in Vecs : \A w \in 0..v : pend[c][w] # <<>>})       \* leading non-empty pending vectors
OneC(X) == LET Y == {c \in X : reps[c] # <<>>} IN IF Y # {} /\ RandomElement(1..8) > 1 THEN One(Y) ELSE One(X)
SimAdd ==
  \E S \in OneS(SignerSets), c \in One(Cids), b \in One(Batches) :
    \E v \in {IF RandomElement(1..8) = 1 THEN RandomElement(Vecs) ELSE RandomElement(0..MinOf(NPend(c), MaxVec))},
       bk \in {RandomElement(1..10) = 1}, dup \in {RandomElement(1..3) = 1} :
      Add(S, c, v, b[1], b[2], bk, dup /\ b[2] > 0)
SimCommit ==
  \E S \in OneS(SignerSets), c \in One(Cids) :
    /\ pend[c][0] # <<>> \/ RandomElement(1..6) = 1                               \* empty commits are rare
    /\ LET fit == {rs \in RepSeqs : Len(rs) = NPend(c)} IN
       \E rs \in (IF fit # {} /\ RandomElement(1..5) > 1 THEN One(fit) ELSE One(RepSeqs)) : Commit(S, c, rs)
SomeReps == (\E c \in Cids : reps[c] # <<>>) \/ RandomElement(1..10) = 1
SimVerify == SomeReps /\ \E c \in OneC(Cids), m \in {Pick(<<"m1", "m1", "m1", "m1", "m2">>)} : \E sg \in OneM(c) : Verify(c, m, sg)
SimSubmit == SomeReps /\ \E S \in One({T \in SignerSets : "ALPHA" \notin T}), c \in OneC(Cids), m \in {Pick(<<"m1", "m1", "m1", "m1", "m2">>)} :
               \E sg \in OneM(c) : Submit(S, c, m, sg)
SimNext == /\ SimAdd \/ SimAdd \/ SimCommit \/ SimVerify \/ SimVerify \/ SimSubmit
           /\ api' = ApiOf(comm', reps')
           /\ g' = GNext(g, ev') /\ hist' = Append(hist, [ev' EXCEPT !.ntf = <<>>])
SimSpec == MCInit /\ [][SimNext]_mcvars

\* long rosters are explored to a bounded number of calls (breadth-first, so the bound is exact)
LongNext == Next /\ g' = GNext(g, ev') /\ hist' = Append(hist, ev'.act)
LongSpec == MCInit /\ [][LongNext]_mcvars
LongBound == Len(hist) <= 3

MCView == <<pend, comm, reps, meta, g>>

CONSTANT SimLen
EmitScenario == IF Len(hist) = SimLen THEN PrintT("SCEN " \o ToJson([steps |-> hist])) ELSE TRUE

P_C14 == [][LET g2 == GNext(g, ev') IN C14_Roster(g2) /\ C14_CommitEmpties(ev') /\ C14_Sound(g, ev')]_mcvars

Inv_Ghost == g.pend = pend /\ g.comm = comm /\ g.reps = reps
\* vector contiguity of the pending roster
Inv_Contiguous == \A c \in Cids, v \in Vecs : v > 0 /\ pend[c][v] # <<>> => pend[c][v - 1] # <<>>
=============================================================================
