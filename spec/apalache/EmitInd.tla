------------------------------- MODULE EmitInd -------------------------------
(***************************************************************************)
(* Unbounded arithmetic lemma behind C19 (Apalache): for every contract     *)
(* balance g >= 0 and every Inner Ring size N in 1..7 the emit split        *)
(*   proxy = g \div 2,  per = ((g - proxy) * 7 \div 8) \div N               *)
(* creates and loses no GAS: proxy + N*per + kept = g with kept >= 0, and    *)
(* nobody receives a negative amount.  N is enumerated (keeps the           *)
(* arithmetic linear), g is symbolic.                                       *)
(***************************************************************************)
EXTENDS Integers

VARIABLES
  \* @type: Int;
  g,
  \* @type: Int;
  n,
  \* @type: Int;
  proxy,
  \* @type: Int;
  per,
  \* @type: Int;
  kept

Split(N) ==
  /\ n = N
  /\ proxy = g \div 2
  /\ per = (((g - proxy) * 7) \div 8) \div N
  /\ kept = g - proxy - N * per

Init == /\ g \in Int /\ g >= 0
        /\ \/ Split(1) \/ Split(2) \/ Split(3) \/ Split(4) \/ Split(5) \/ Split(6) \/ Split(7)
Next == UNCHANGED <<g, n, proxy, per, kept>>

NoGasCreatedOrLost ==
  /\ proxy >= 0 /\ per >= 0 /\ kept >= 0
  /\ proxy + n * per + kept = g
  /\ 2 * proxy <= g /\ g <= 2 * proxy + 1                 \* proxy is floor(g/2)
  /\ 8 * n * per <= 7 * (g - proxy)                        \* per is at most the exact 7/8 share divided by N
\* control: a wrong share (3/4 instead of 7/8) must violate the upper bound below
TightShare == 7 * (g - proxy) < 8 * n * (per + 1) + 8 * n
=============================================================================
