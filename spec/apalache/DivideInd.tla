------------------------------ MODULE DivideInd ------------------------------
(***************************************************************************)
(* Unbounded arithmetic lemma behind C13's fund helper (Apalache): for every *)
(* amount >= 0 and n in 1..9, the shares q + 1 (first r receivers) and q    *)
(* (the others) with q = amount \div n, r = amount % n sum to the amount and *)
(* differ by at most one.  n is enumerated, the amount is symbolic.         *)
(***************************************************************************)
EXTENDS Integers

VARIABLES
  \* @type: Int;
  amount,
  \* @type: Int;
  n,
  \* @type: Int;
  q,
  \* @type: Int;
  r

Div(N) == n = N /\ q = amount \div N /\ r = amount % N

Init == /\ amount \in Int /\ amount >= 0
        /\ \/ Div(1) \/ Div(2) \/ Div(3) \/ Div(4) \/ Div(5) \/ Div(6) \/ Div(7) \/ Div(8) \/ Div(9)
Next == UNCHANGED <<amount, n, q, r>>

SharesExact ==
  /\ 0 <= r /\ r < n /\ q >= 0
  /\ r * (q + 1) + (n - r) * q = amount      \* r receivers get q+1, the other n-r get q
=============================================================================
