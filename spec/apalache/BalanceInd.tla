----------------------------- MODULE BalanceInd -----------------------------
(***************************************************************************)
(* Unbounded design-level argument behind C01 (Apalache, symbolic):        *)
(* SupplyIsSum /\ NoNegative is an INDUCTIVE invariant of the balance      *)
(* arithmetic of spec/Balance.tla - amounts range over all integers, the   *)
(* account set is a finite constant.  Discharged by                        *)
(*   apalache-mc check --cinit=CInit --init=Init    --inv=IndInv --length=0*)
(*   apalache-mc check --cinit=CInit --init=IndInit --inv=IndInv --length=1*)
(* With Guard = FALSE (the code before repair 0e58c91: negative amounts    *)
(* accepted) the second obligation must FAIL - the non-vacuity control.    *)
(***************************************************************************)
EXTENDS Integers, FiniteSets, Apalache

CONSTANTS
  \* @type: Set(Str);
  Acc,
  \* @type: Bool;
  Guard

VARIABLES
  \* @type: Str -> Int;
  bal,
  \* @type: Int;
  supply

\* @type: (Str -> Int, Set(Str)) => Int;
SumOf(f, D) == LET \* @type: (Int, Str) => Int;
                   Add(s, a) == s + f[a]
               IN  ApaFoldSet(Add, 0, D)

CInit        == Acc = {"a1", "a2", "a3", "a4"} /\ Guard = TRUE
CInitNoGuard == Acc = {"a1", "a2", "a3", "a4"} /\ Guard = FALSE

Init == bal = [a \in Acc |-> 0] /\ supply = 0

Ok(m) == Guard => m >= 0

\* token.transfer: debit then credit (from and to may be the same account)
Transfer(f, t, m) ==
  /\ Ok(m) /\ bal[f] >= m
  /\ bal' = [a \in Acc |-> (IF a = t THEN m ELSE 0) + (IF a = f THEN bal[a] - m ELSE bal[a])]
  /\ UNCHANGED supply
Mint(t, m) == Ok(m) /\ bal' = [bal EXCEPT ![t] = @ + m] /\ supply' = supply + m
Burn(f, m) == Ok(m) /\ bal[f] >= m /\ supply >= m /\ bal' = [bal EXCEPT ![f] = @ - m] /\ supply' = supply - m

Next == \E f \in Acc, t \in Acc : \E m \in Int : Transfer(f, t, m) \/ Mint(t, m) \/ Burn(f, m)

IndInv == /\ bal \in [Acc -> Int]
          /\ supply = SumOf(bal, Acc)
          /\ \A a \in Acc : bal[a] >= 0
IndInit == bal \in [Acc -> Int] /\ supply \in Int /\ IndInv
=============================================================================
