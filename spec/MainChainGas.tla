----------------------------- MODULE MainChainGas -----------------------------
(***************************************************************************)
(* Implementation-shaped specification of the GAS handling of the          *)
(* governance contracts: contracts/neofs (OnNEP17Payment, Withdraw, Cheque,*)
(* InnerRingCandidateAdd/Remove, SetConfig of the two fees) in both notary *)
(* modes, contracts/alphabet (Emit, OnNEP17Payment), contracts/proxy and   *)
(* contracts/processing (OnNEP17Payment).                                  *)
(*                                                                         *)
(* Amounts.  GAS has 8 decimals; 9000 GAS = 9*10^11 and contract balances  *)
(* up to 10^12 and more exceed TLC's 32-bit integers and Emit's floors do  *)
(* not commute with scaling, so every GAS amount is a little-endian        *)
(* 3-limb number in base B (B = 10^6 on recorded executions: < 10^18;      *)
(* B = 10 in the exhaustive configurations, which exercises every carry    *)
(* and borrow with tiny values).  The limb operators are validated against *)
(* TLC's integers by ASSUMEs in MainChainGasMC.                            *)
(*                                                                         *)
(* State:                                                                  *)
(*   notary  TRUE = the contract runs with Notary (notaryDisabled = false) *)
(*   gas[a]  native GAS of every tracked account (contracts "neofs",       *)
(*           "proc", "proxy", "alph"; users; candidates; the standard      *)
(*           accounts of the keys stored in NeoFS; the Inner Ring nodes)   *)
(*   neo[a]  native NEO of the users and of the Alphabet contract          *)
(*   wfee, cfee   config values WithdrawFee / InnerRingCandidateFee        *)
(*   cands   registered candidates;  irN: r1..r<irN> hold the NeoFSAlphabet*)
(*           role (what common.InnerRingNodes() returns)                   *)
(*   dep     the deployment: skeys (keys stored in the NeoFS contract),    *)
(*           nc (size of the chain committee), aidx (index of the Alphabet *)
(*           contract); never changes                                      *)
(*                                                                         *)
(*   ballots, cur   without Notary: the stored ballot list and the height  *)
(*           seen by the last transaction; cheque, the fee decisions,      *)
(*           alphabetUpdate (to the list already stored) and candidate     *)
(*           removal are then collected by common.Vote / RemoveVotes       *)
(*           (MainChainBallot), interleaved, exactly as in MainChainVote   *)
(*                                                                         *)
(* Every invocation record e carries e.mint: the GAS the native contract   *)
(* minted to tracked accounts inside the same transaction (NEO transfers   *)
(* claim GAS; read from the GAS Transfer notifications with from = null).  *)
(* It is an input of the step: the Spec cannot know it.                    *)
(***************************************************************************)
EXTENDS Integers, Sequences, FiniteSets, TLC, MainChainBallot      \* MainChainBallot: common/vote.go

CONSTANTS
  B,           \* limb base
  UnitL,       \* 1 GAS in limbs (10^8)
  MaxW,        \* maxBalanceAmount: largest withdrawal / deposit in whole GAS (9000)
  Users, Cands, KeyU, IRSeq,          \* KeyU: universe of keys storable in NeoFS; IRSeq: <<"r1",...>> designation prefixes
  KeySeq,                             \* KeyU in the order in which the keys are stored
  SignerSets, Amounts, Wholes, Mints, Acts, Gaps,
  Ids, FeeIds, AlphaIds               \* decision ids offered to cheque / setConfig / alphabetUpdate

Nil == "nil"
Contracts == {"neofs", "proc", "proxy", "alph"}
IRAll == {IRSeq[i] : i \in 1..Len(IRSeq)}
Acct  == Contracts \cup Users \cup Cands \cup KeyU \cup IRAll
NeoAcct == Users \cup {"alph"}
MemberName(i) == "m" \o ToString(i)          \* committee member with index i (order of neo.getCommittee)
DelId(c) == "del:" \o c                      \* sha256(key || "delete")
AllIds   == Ids \cup FeeIds \cup AlphaIds \cup {DelId(c) : c \in Cands}

-----------------------------------------------------------------------------
\* limb arithmetic (3 limbs, base B, little endian); all operands are normalised
Z == <<0, 0, 0>>
L(x) == <<x % B, (x \div B) % B, (x \div B) \div B>>                  \* 0 <= x < 2^31
Leq(a, b) == \/ a[3] < b[3]
             \/ a[3] = b[3] /\ a[2] < b[2]
             \/ a[3] = b[3] /\ a[2] = b[2] /\ a[1] <= b[1]
Lt(a, b)  == ~Leq(b, a)
Add(a, b) == LET s1 == a[1] + b[1]  s2 == a[2] + b[2] + s1 \div B  s3 == a[3] + b[3] + s2 \div B
             IN  <<s1 % B, s2 % B, s3>>
Sub(a, b) == LET d1 == a[1] - b[1]  w1 == IF d1 < 0 THEN 1 ELSE 0       \* a >= b
                 d2 == a[2] - b[2] - w1  w2 == IF d2 < 0 THEN 1 ELSE 0
             IN  <<d1 + w1 * B, d2 + w2 * B, a[3] - b[3] - w2>>
MulS(a, k) == LET t1 == a[1] * k  t2 == a[2] * k + t1 \div B  t3 == a[3] * k + t2 \div B   \* small k
              IN  <<t1 % B, t2 % B, t3>>
DivS(a, d) == LET q3 == a[3] \div d  t2 == (a[3] % d) * B + a[2]                         \* small d > 0
                  q2 == t2 \div d    t1 == (t2 % d) * B + a[1]
              IN  <<t1 \div d, q2, q3>>
MaxDep == MulS(UnitL, MaxW)                  \* maxBalanceAmountGAS

-----------------------------------------------------------------------------
VARIABLES notary, dep, gas, neo, wfee, cfee, cands, irN, ballots, cur, ev
vars == <<notary, dep, gas, neo, wfee, cfee, cands, irN, ballots, cur, ev>>
\* ballots: the value under "ballots" (only without Notary); cur: ledger.CurrentIndex() seen by the last
\* transaction, a step with gap g runs at cur+g (every step is a block of its own here, g >= 1)
\* dep = [skeys, nc, aidx]: the deployment (never changes)
StoredKeys == dep.skeys
NC         == dep.nc
AlphIdx    == dep.aidx
AlphaSeq   == SelectSeq(KeySeq, LAMBDA k : k \in StoredKeys)          \* the stored list
Invoker(S) == InvokerOf(AlphaSeq, S, Nil)
ThrS       == Thr(Cardinality(StoredKeys))

NoNtf == <<>>
Ntf(n, a, b, amt, id) == [n |-> n, a |-> a, b |-> b, amt |-> amt, id |-> id]
NoMint == [a \in Acct |-> Z]

\* act, signers, u = paying/owning account, v = receiver / target / candidate, amt (limbs), w (whole GAS or small
\* integer argument), k = kind (deposit data kind / token / fee name), id, gap (blocks since the last step), mint
Event(act, S, u, v, amt, w, k, id, gap, mint, res, ret, ntf) ==
  [act |-> act, S |-> S, u |-> u, v |-> v, amt |-> amt, w |-> w, k |-> k, id |-> id, gap |-> gap, mint |-> mint,
   res |-> res, ret |-> ret, ntf |-> ntf]

Keep == [res |-> "HALT", ret |-> "null", gas |-> gas, neo |-> neo, wfee |-> wfee, cfee |-> cfee, cands |-> cands,
         irN |-> irN, ballots |-> ballots, ntf |-> NoNtf]
FaultR == [Keep EXCEPT !.res = "FAULT"]

\* without Notary: the common tail of the vote-collected methods (as in MainChainVote): vote, return below the
\* threshold, otherwise RemoveVotes and act
Voting(e, id, from, Effect(_)) ==
  LET v == VoteOp(ballots, cur + e.gap, id, from)
  IN  IF v.n < ThrS THEN [Keep EXCEPT !.ballots = v.bl]
      ELSE IF Len(v.bl) = 0 THEN FaultR
      ELSE Effect(RemoveVotes(v.bl, id))

Move(G, from, to, a) == [[G EXCEPT ![from] = Sub(@, a)] EXCEPT ![to] = Add(@, a)]
Minted(e) == [a \in Acct |-> Add(gas[a], e.mint[a])]

\* native GAS transfer u -> neofs with data; then neofs.OnNEP17Payment(from, amount, data)
DepositR(e) ==
  LET u == e.u  a == e.amt  dk == e.k
  IN  IF u \notin e.S \/ Lt(gas[u], a) THEN [Keep EXCEPT !.ret = "false"]   \* the native contract refuses
      ELSE IF dk = "magic" THEN [Keep EXCEPT !.ret = "true", !.gas = Move(gas, u, "neofs", a)]
                                             \* data = "\x57\x0b": accepted silently, no check at all
      ELSE IF a = Z THEN FaultR                                              \* amount must be positive
      ELSE IF Lt(MaxDep, a) THEN FaultR                                      \* out of max amount limit
      ELSE IF dk \notin {"none", "empty", "h20"} THEN FaultR                 \* invalid data argument
      ELSE [Keep EXCEPT !.ret = "true", !.gas = Move(gas, u, "neofs", a),
                        !.ntf = <<Ntf("Deposit", u, IF dk = "h20" THEN e.v ELSE u, a, Nil)>>]

\* Withdraw(user, amount)
WithdrawR(e) ==
  LET u == e.u  w == e.w
      k == IF notary THEN 1 ELSE Cardinality(StoredKeys)
      G == IF notary THEN Move(gas, u, "proc", wfee)
           ELSE [a \in Acct |-> IF a = u THEN Sub(gas[u], MulS(wfee, k))
                                ELSE IF a \in StoredKeys THEN Add(gas[a], wfee) ELSE gas[a]]
  IN  IF u \notin e.S THEN FaultR
      ELSE IF w < 0 THEN FaultR
      ELSE IF w > MaxW THEN FaultR
      ELSE IF Lt(gas[u], MulS(wfee, k)) THEN FaultR                          \* a fee transfer fails
      ELSE [Keep EXCEPT !.gas = G, !.ntf = <<Ntf("Withdraw", u, Nil, MulS(UnitL, w), Nil)>>]

\* Cheque(id, user, amount, lockAcc): with Notary the committee's 2/3+1 account, without the votes of the stored keys
ChequeR(e) ==
  LET Pay(Bl) == IF Lt(gas["neofs"], e.amt) THEN FaultR                     \* gas.Transfer refuses: everything reverted
                 ELSE [Keep EXCEPT !.ballots = Bl, !.gas = Move(gas, "neofs", e.v, e.amt),
                                   !.ntf = <<Ntf("Cheque", e.v, Nil, e.amt, e.id)>>]
  IN  IF notary THEN (IF "ALPHA" \notin e.S THEN FaultR ELSE Pay(ballots))
      ELSE IF Invoker(e.S) = Nil THEN FaultR
      ELSE Voting(e, e.id, Invoker(e.S), Pay)

\* InnerRingCandidateAdd(key)
CandAddR(e) ==
  LET c == e.v
  IN  IF c \notin e.S THEN FaultR
      ELSE IF c \in cands THEN FaultR
      ELSE IF Lt(gas[c], cfee) THEN FaultR
      ELSE [Keep EXCEPT !.gas = Move(gas, c, "neofs", cfee), !.cands = cands \cup {c}]

\* InnerRingCandidateRemove(key): the candidate itself, or (Notary) the 2/3+1 account of the STORED keys,
\* or (no Notary) the votes of the stored keys for sha256(key || "delete")
CandRemoveR(e) ==
  LET Rm(Bl) == [Keep EXCEPT !.ballots = Bl, !.cands = cands \ {e.v}]
  IN  IF e.v \in e.S THEN Rm(ballots)
      ELSE IF notary THEN (IF "STORED" \in e.S THEN Rm(ballots) ELSE FaultR)
      ELSE IF Invoker(e.S) = Nil THEN FaultR
      ELSE Voting(e, DelId(e.v), Invoker(e.S), Rm)

\* SetConfig(id, key, val) for the two fee keys (e.k = "wfee" | "cfee")
SetFeeR(e) ==
  LET Set(Bl) == [Keep EXCEPT !.ballots = Bl, !.wfee = IF e.k = "wfee" THEN e.amt ELSE wfee,
                              !.cfee = IF e.k = "cfee" THEN e.amt ELSE cfee,
                              !.ntf = <<Ntf("SetConfig", e.k, Nil, e.amt, e.id)>>]
  IN  IF notary THEN (IF "ALPHA" \notin e.S THEN FaultR ELSE Set(ballots))
      ELSE IF Invoker(e.S) = Nil THEN FaultR
      ELSE Voting(e, e.id, Invoker(e.S), Set)

\* AlphabetUpdate(id, the list that is stored already): the stored list does not change, only ballots and the event
AlphaSameR(e) ==
  LET Upd(Bl) == [Keep EXCEPT !.ballots = Bl, !.ntf = <<Ntf("AlphabetUpdate", Nil, Nil, Z, e.id)>>]
  IN  IF notary THEN (IF "ALPHA" \notin e.S THEN FaultR ELSE Upd(ballots))
      ELSE IF Invoker(e.S) = Nil THEN FaultR
      ELSE Voting(e, e.id, Invoker(e.S), Upd)

\* RoleManagement.designateAsRole(NeoFSAlphabet, r1..r<w>) by the committee
DesignateR(e) ==
  IF "CMT" \notin e.S \/ e.w < 1 \/ e.w > Len(IRSeq) THEN FaultR ELSE [Keep EXCEPT !.irN = e.w]

\* Alphabet.Emit()
EmitR(e) ==
  LET G0 == Minted(e)                        \* after neo.Transfer(self, self, balance): claimed GAS arrived
      g  == G0["alph"]
      p  == DivS(g, 2)
      r  == Sub(g, p)
      q  == DivS(DivS(MulS(r, 7), 8), irN)
      IR == {IRSeq[i] : i \in 1..irN}
      G1 == Move(G0, "alph", "proxy", p)
      G2 == [a \in Acct |-> IF a \in IR THEN Add(G1[a], q)
                            ELSE IF a = "alph" THEN Sub(G1[a], MulS(q, irN)) ELSE G1[a]]
  IN  IF NC <= AlphIdx \/ MemberName(AlphIdx) \notin e.S THEN FaultR        \* invalid invoker
      ELSE IF p = Z THEN FaultR                                              \* no gas to emit
      ELSE IF irN = 0 THEN FaultR                                            \* division by zero
      ELSE [Keep EXCEPT !.gas = IF q = Z THEN G1 ELSE G2]

\* a payment of e.amt (GAS limbs) / e.w (NEO) from user e.u to contract e.v with token e.k:
\* "GAS", "NEO" (native transfers), "FOREIGN" (a third contract calls onNEP17Payment), "DIRECT" (the
\* transaction script calls onNEP17Payment itself); "FOREIGNMINT" / "DIRECTMINT": the same two with a Null sender, the
\* way a token announces freshly minted units
PayR(e) ==
  LET u == e.u  t == e.v
  IN  CASE e.k = "GAS" ->
             IF u \notin e.S \/ Lt(gas[u], e.amt) THEN [Keep EXCEPT !.ret = "false"]
             ELSE [Keep EXCEPT !.ret = "true", !.gas = Move(gas, u, t, e.amt)]       \* t # "neofs" (that is deposit)
        [] e.k = "NEO" ->
             IF u \notin e.S \/ neo[u] < e.w THEN [Keep EXCEPT !.ret = "false"]
             ELSE IF t # "alph" THEN FaultR
             ELSE [Keep EXCEPT !.ret = "true", !.gas = Minted(e),
                               !.neo = [[neo EXCEPT ![u] = @ - e.w] EXCEPT !["alph"] = @ + e.w]]
        [] OTHER -> FaultR                                                   \* FOREIGN, DIRECT (+MINT)

\* Bind / Unbind(user, keys): notification only; e.w # 0: some key of the list is not 33 bytes long
\* (the list itself - count, order, duplicates, empty - does not matter)
BindR(e) ==
  IF e.u \notin e.S \/ e.w # 0 THEN FaultR
  ELSE [Keep EXCEPT !.ntf = <<Ntf(IF e.k = "unbind" THEN "Unbind" ELSE "Bind", e.u, Nil, Z, Nil)>>]

ResultOf(e) ==
  CASE e.act = "deposit"   -> DepositR(e)
    [] e.act = "bind"      -> BindR(e)
    [] e.act = "withdraw"  -> WithdrawR(e)
    [] e.act = "cheque"    -> ChequeR(e)
    [] e.act = "candAdd"   -> CandAddR(e)
    [] e.act = "candRemove"-> CandRemoveR(e)
    [] e.act = "setFee"    -> SetFeeR(e)
    [] e.act = "alphaSame" -> AlphaSameR(e)
    [] e.act = "designate" -> DesignateR(e)
    [] e.act = "emit"      -> EmitR(e)
    [] e.act = "pay"       -> PayR(e)
    [] OTHER               -> FaultR

Apply(e) ==
  LET R == ResultOf(e) IN
  /\ gas' = R.gas /\ neo' = R.neo /\ wfee' = R.wfee /\ cfee' = R.cfee /\ cands' = R.cands /\ irN' = R.irN
  /\ ballots' = R.ballots /\ cur' = cur + e.gap
  /\ UNCHANGED <<notary, dep>>
  /\ ev' = [e EXCEPT !.res = R.res, !.ret = R.ret, !.ntf = R.ntf]

InvG(act, S, u, v, amt, w, k, id, gap, mint) == Event(act, S, u, v, amt, w, k, id, gap, mint, "HALT", "null", NoNtf)

MintTo(a, m) == [NoMint EXCEPT ![a] = m]

\* P/PS: how argument and signer sets are explored (all / one random element); Sg(S, h): the signer set used
\* given the explored set S and the natural signers h of the call (exhaustive: S; simulation: mostly h);
\* PH: how the natural voter of a vote-collected call is chosen (exhaustive: irrelevant, one fixed; simulation: random)
Voters == IF notary THEN {"ALPHA"} ELSE StoredKeys
NextOf(P(_), PS(_), Sg(_, _), PH(_)) ==
  \E S \in PS(SignerSets), g \in P(Gaps) :
    LET Inv0(act, SS, u, v, amt, w, k, id, mint) == InvG(act, SS, u, v, amt, w, k, id, g, mint) IN
    \/ "deposit" \in Acts /\ \E u \in P(Users), a \in P(Amounts), dk \in P({"none", "empty", "h20", "b19", "b21", "magic"}), v \in P(Users) :
          Apply(Inv0("deposit", S \cup {u}, u, v, a, 0, dk, Nil, NoMint))
    \/ "withdraw" \in Acts /\ \E u \in P(Users), w \in P(Wholes) : Apply(Inv0("withdraw", Sg(S, {u}), u, Nil, Z, w, Nil, Nil, NoMint))
    \/ "cheque" \in Acts /\ \E u \in P(Users), a \in P(Amounts), id \in P(Ids), k \in PH(Voters) :
          Apply(Inv0("cheque", Sg(S, {k}), Nil, u, a, 0, Nil, id, NoMint))
    \/ "candAdd" \in Acts /\ \E c \in P(Cands) : Apply(Inv0("candAdd", Sg(S, {c}), Nil, c, Z, 0, Nil, Nil, NoMint))
    \/ "candRemove" \in Acts /\ \E c \in P(Cands) : \E k \in PH(StoredKeys \cup {c}) : Apply(Inv0("candRemove", Sg(S, {k}), Nil, c, Z, 0, Nil, Nil, NoMint))
    \/ "setFee" \in Acts /\ \E k \in P({"wfee", "cfee"}), a \in P(Amounts), id \in P(FeeIds), kk \in PH(Voters) :
          Apply(Inv0("setFee", Sg(S, {kk}), Nil, Nil, a, 0, k, id, NoMint))
    \/ "alphaSame" \in Acts /\ \E id \in P(AlphaIds), kk \in PH(Voters) :
          Apply(Inv0("alphaSame", Sg(S, {kk}), Nil, Nil, Z, 0, Nil, id, NoMint))
    \/ "bind" \in Acts /\ \E u \in P(Users), k \in P({"bind", "unbind"}), w \in P({0, 0, 0, 1}) :
          Apply(Inv0("bind", Sg(S, {u}), u, Nil, Z, w, k, Nil, NoMint))
    \/ "designate" \in Acts /\ \E n \in P(1..Len(IRSeq)) : Apply(Inv0("designate", Sg(S, {"CMT"}), Nil, Nil, Z, n, Nil, Nil, NoMint))
    \/ "emit" \in Acts /\ \E m \in P(Mints) : Apply(Inv0("emit", Sg(S, {MemberName(AlphIdx)}), Nil, Nil, Z, 0, Nil, Nil, MintTo("alph", m)))
    \/ "pay" \in Acts /\ \E u \in P(Users), t \in P({"proc", "proxy", "alph"}), a \in P(Amounts), k \in P({"GAS", "FOREIGN", "DIRECT", "FOREIGNMINT", "DIRECTMINT"}) :
          Apply(Inv0("pay", S \cup {u}, u, t, a, 0, k, Nil, NoMint))
    \/ "pay" \in Acts /\ \E u \in P(Users), t \in P(Contracts), w \in P(Wholes \cap Nat), m \in P(Mints) :
          Apply(Inv0("pay", S \cup {u}, u, t, Z, w, "NEO", Nil, MintTo("alph", m)))
    \/ "pay" \in Acts /\ \E u \in P(Users), a \in P(Amounts), k \in P({"FOREIGN", "DIRECT", "FOREIGNMINT", "DIRECTMINT"}) :
          Apply(Inv0("pay", S \cup {u}, u, "neofs", a, 0, k, Nil, NoMint))

-----------------------------------------------------------------------------
(***************************************************************************)
(* Property C19, as predicates over one step (e = ev').                    *)
(***************************************************************************)
Others(X) == \A a \in Acct \ X : gas'[a] = gas[a]
SumNtf(e, name) ==
  LET RECURSIVE S(_)
      S(i) == IF i > Len(e.ntf) THEN Z ELSE IF e.ntf[i].n = name THEN Add(e.ntf[i].amt, S(i + 1)) ELSE S(i + 1)
  IN  S(1)

\* a Deposit is reported exactly for GAS payments with 0 < amount <= 9000 GAS and data of length 0 or 20,
\* with the true amount and receiver; nothing else is accepted (data = the candidate-fee marker is left to the Spec)
C19_Deposit(e) ==
  e.act = "deposit" /\ e.k # "magic" =>
    IF e.amt # Z /\ Leq(e.amt, MaxDep) /\ e.k \in {"none", "empty", "h20"} /\ e.u \in e.S /\ Leq(e.amt, gas[e.u])
    THEN /\ e.res = "HALT"
         /\ e.ntf = <<Ntf("Deposit", e.u, IF e.k = "h20" THEN e.v ELSE e.u, e.amt, Nil)>>
         /\ gas'["neofs"] = Add(gas["neofs"], e.amt) /\ gas'[e.u] = Sub(gas[e.u], e.amt) /\ Others({"neofs", e.u})
    ELSE e.ntf = NoNtf /\ gas' = gas
\* a withdrawal request costs exactly the fee: once to Processing with Notary, once per stored key without
C19_WithdrawFee(e) ==
  e.act = "withdraw" =>
    LET k == IF notary THEN 1 ELSE Cardinality(StoredKeys)
        able == e.u \in e.S /\ e.w >= 0 /\ e.w <= MaxW /\ Leq(MulS(wfee, k), gas[e.u])
    IN  /\ able => e.res = "HALT"
        /\ e.res = "HALT" =>
             /\ e.u \in e.S
             /\ e.ntf = <<Ntf("Withdraw", e.u, Nil, MulS(UnitL, e.w), Nil)>>
             /\ gas'[e.u] = Sub(gas[e.u], MulS(wfee, k))
             /\ IF notary THEN gas'["proc"] = Add(gas["proc"], wfee) /\ Others({e.u, "proc"})
                ELSE (\A s \in StoredKeys : gas'[s] = Add(gas[s], wfee)) /\ Others({e.u} \cup StoredKeys)
        /\ e.res = "FAULT" => gas' = gas /\ e.ntf = NoNtf
\* Without Notary "the Alphabet approves" is the abstract round machine of C17, per decision id:
\*   rd[id] = [vs, last]: distinct stored keys that voted for id in the open round, height of the last counted vote;
\* a HALTed vote of stored key k restarts the round when it is stale, adds k if new, and completes the quorum iff
\* k is new and |vs + k| >= floor(2n/3)+1; the round is cleared then (the stored list never changes here).
RdEmpty == [vs |-> {}, last |-> 0]
RdInit  == [id \in AllIds |-> RdEmpty]
IsVote(e)   == ~notary /\ (e.act \in {"cheque", "setFee", "alphaSame"} \/ (e.act = "candRemove" /\ e.v \notin e.S))
VoteId(e)   == IF e.act = "candRemove" THEN DelId(e.v) ELSE e.id
MembersOf(e) == e.S \cap StoredKeys
Member(e)   == CHOOSE k \in MembersOf(e) : TRUE
Counted(e)  == IsVote(e) /\ Cardinality(MembersOf(e)) = 1 /\ e.res = "HALT"     \* every voter signs its own transaction
Fresh(rd, e) == rd[VoteId(e)].vs = {} \/ cur' - rd[VoteId(e)].last > Window
Vs0(rd, e)   == IF Fresh(rd, e) THEN {} ELSE rd[VoteId(e)].vs
IsNew(rd, e) == Member(e) \notin Vs0(rd, e)
Fires(rd, e) == IsNew(rd, e) /\ Cardinality(Vs0(rd, e) \cup {Member(e)}) >= ThrS
RdNext(rd, e) ==
  IF ~Counted(e) THEN rd
  ELSE [rd EXCEPT ![VoteId(e)] = IF Fires(rd, e) THEN RdEmpty
                                 ELSE [vs |-> Vs0(rd, e) \cup {Member(e)},
                                       last |-> IF IsNew(rd, e) THEN cur' ELSE rd[VoteId(e)].last]]

\* an approved cheque pays exactly its amount, exactly once: with Notary in the invocation witnessed by the Alphabet
\* account, without in exactly the invocation that completes the quorum for its id - and in no other (not before,
\* not on a repeated or late extra vote after the payout: that starts a new round)
C19_ChequePays(rd, e) ==
  e.act = "cheque" =>
    IF notary
    THEN /\ "ALPHA" \in e.S /\ Leq(e.amt, gas["neofs"]) => e.res = "HALT"
         /\ e.res = "HALT" =>
              /\ "ALPHA" \in e.S
              /\ gas' = Move(gas, "neofs", e.v, e.amt)
              /\ e.ntf = <<Ntf("Cheque", e.v, Nil, e.amt, e.id)>>
         /\ e.res = "FAULT" => gas' = gas /\ e.ntf = NoNtf
    ELSE IF Cardinality(MembersOf(e)) > 1 THEN TRUE
    ELSE IF MembersOf(e) = {} \/ e.res = "FAULT" THEN gas' = gas /\ e.ntf = NoNtf
    ELSE /\ IF Fires(rd, e)
            THEN gas' = Move(gas, "neofs", e.v, e.amt) /\ e.ntf = <<Ntf("Cheque", e.v, Nil, e.amt, e.id)>>
            ELSE gas' = gas /\ e.ntf = NoNtf
\* a stored key's cheque vote that the contract can pay is accepted
C19_ChequeAccepted(e) ==
  e.act = "cheque" /\ ~notary /\ Cardinality(MembersOf(e)) = 1 /\ Leq(e.amt, gas["neofs"]) => e.res = "HALT"
\* a candidate registration costs exactly the configured fee
C19_CandidateFee(e) ==
  e.act = "candAdd" =>
    /\ e.v \in e.S /\ e.v \notin cands /\ Leq(cfee, gas[e.v]) => e.res = "HALT"
    /\ e.res = "HALT" => /\ e.v \in e.S /\ e.v \notin cands
                         /\ gas' = Move(gas, e.v, "neofs", cfee) /\ cands' = cands \cup {e.v}
                         /\ SumNtf(e, "Deposit") = Z
    /\ e.res = "FAULT" => gas' = gas /\ cands' = cands
\* the contract's balance changes by exactly: reported deposits + candidate fee - cheques (+ unreported marker payments)
C19_Conservation(e) ==
  LET fee == IF e.act = "candAdd" /\ e.res = "HALT" THEN cfee ELSE Z
      sil == IF e.act = "deposit" /\ e.k = "magic" /\ e.res = "HALT" /\ e.ret = "true" THEN e.amt ELSE Z
  IN  Add(gas'["neofs"], SumNtf(e, "Cheque")) = Add(Add(Add(gas["neofs"], SumNtf(e, "Deposit")), fee), sil)
\* emit: only the Alphabet node with the contract's own index
C19_EmitOnlyOwnNode(e) ==
  e.act = "emit" => IF NC > AlphIdx /\ MemberName(AlphIdx) \in e.S THEN TRUE ELSE e.res = "FAULT" /\ gas' = gas
\* emit: floor(g/2) to Proxy, floor((g - floor(g/2)) * 7/8 / N) to each of the N Inner Ring nodes, the rest stays
\* (floors characterised by multiplication: p = floor(g/2) <=> 2p <= g < 2p+2; q <=> 8Nq <= 7r < 8N(q+1))
C19_EmitSplit(e) ==
  e.act = "emit" /\ irN >= 1 =>
    LET g  == Add(gas["alph"], e.mint["alph"])
        p  == Sub(gas'["proxy"], gas["proxy"])
        IR == {IRSeq[i] : i \in 1..irN}
        q  == Sub(gas'[IRSeq[1]], gas[IRSeq[1]])
        r  == Sub(g, p)
    IN  /\ NC > AlphIdx /\ MemberName(AlphIdx) \in e.S /\ Leq(L(2), g) => e.res = "HALT"
        /\ e.res = "HALT" =>
             /\ Leq(gas["proxy"], gas'["proxy"]) /\ Leq(gas[IRSeq[1]], gas'[IRSeq[1]])
             /\ Leq(MulS(p, 2), g) /\ Lt(g, Add(MulS(p, 2), L(2)))
             /\ Leq(MulS(q, 8 * irN), MulS(r, 7)) /\ Lt(MulS(r, 7), MulS(Add(q, L(1)), 8 * irN))
             /\ \A n \in IR : gas'[n] = Add(gas[n], q)
             /\ Add(Add(gas'["alph"], p), MulS(q, irN)) = g
             /\ Others({"alph", "proxy"} \cup IR)
        /\ e.res = "FAULT" => gas' = gas
\* Proxy, Processing accept nothing but GAS, Alphabet GAS and NEO; NeoFS GAS only
C19_OnlyGAS(e) ==
  e.act = "pay" =>
    /\ e.k \in {"FOREIGN", "DIRECT", "FOREIGNMINT", "DIRECTMINT"} \/ (e.k = "NEO" /\ e.v # "alph" /\ e.u \in e.S /\ neo[e.u] >= e.w)
          => e.res = "FAULT" /\ gas' = gas /\ neo' = neo
    /\ e.k = "GAS" /\ e.u \in e.S /\ Leq(e.amt, gas[e.u]) => e.res = "HALT" /\ gas' = Move(gas, e.u, e.v, e.amt)
    /\ e.k = "NEO" /\ e.v = "alph" /\ e.u \in e.S /\ neo[e.u] >= e.w
          => e.res = "HALT" /\ neo'["alph"] = neo["alph"] + e.w /\ neo'[e.u] = neo[e.u] - e.w
\* the configured fees change only when the Alphabet approves it: with Notary the chain's Alphabet account (2n/3+1;
\* not the committee majority n/2+1, not the accounts of the stored keys, not a single member), without Notary the
\* vote that completes the quorum of the stored keys for the decision id
C19_FeeApproved(rd, e) ==
  wfee' # wfee \/ cfee' # cfee =>
    /\ e.act = "setFee" /\ e.res = "HALT"
    /\ IF notary THEN "ALPHA" \in e.S
       ELSE Cardinality(MembersOf(e)) > 1 \/ (Cardinality(MembersOf(e)) = 1 /\ Fires(rd, e))
\* nothing but the operations above moves GAS of the tracked accounts
C19_NoOtherMoves(e) ==
  e.act \in {"candRemove", "setFee", "alphaSame", "designate"} \/ e.res = "FAULT" => gas' = gas

=============================================================================
