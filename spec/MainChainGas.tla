----------------------------- MODULE MainChainGas -----------------------------
(***************************************************************************)
(* Implementation-shaped specification of the GAS handling of the          *)
(* governance contracts: contracts/neofs (OnNEP17Payment, Withdraw, Cheque,*)
(* InnerRingCandidateAdd/Remove, SetConfig of the two fees) in both notary *)
(* modes, contracts/alphabet (Emit, OnNEP17Payment), contracts/proxy and   *)
(* contracts/processing (OnNEP17Payment).                                  *)
(*                                                                         *)
(* Amounts.  GAS has 8 decimals; 9000 GAS = 9*10^11 and contract balances  *)
(* up to 10^12 and more exceed TLC's 32-bit integers and Emit's floors do  *)
(* not commute with scaling, so every GAS amount is a little-endian        *)
(* 3-limb number in base B (B = 10^6 on recorded executions: < 10^18;      *)
(* B = 10 in the exhaustive configurations, which exercises every carry    *)
(* and borrow with tiny values).  The limb operators are validated against *)
(* TLC's integers by ASSUMEs in MainChainGasMC.                            *)
(*                                                                         *)
(* State:                                                                  *)
(*   notary  TRUE = the contract runs with Notary (notaryDisabled = false) *)
(*   gas[a]  native GAS of every tracked account (contracts "neofs",       *)
(*           "proc", "proxy", "alph"; users; candidates; the standard      *)
(*           accounts of the keys stored in NeoFS; the Inner Ring nodes)   *)
(*   neo[a]  native NEO of the users and of the Alphabet contract          *)
(*   wfee, cfee   config values WithdrawFee / InnerRingCandidateFee        *)
(*   cands   registered candidates;  irN: r1..r<irN> hold the NeoFSAlphabet*)
(*           role (what common.InnerRingNodes() returns)                   *)
(*   dep     the deployment: skeys (keys stored in the NeoFS contract),    *)
(*           nc (size of the chain committee), aidx (index of the Alphabet *)
(*           contract); never changes                                      *)
(*                                                                         *)
(* Every invocation record e carries e.mint: the GAS the native contract   *)
(* minted to tracked accounts inside the same transaction (NEO transfers   *)
(* claim GAS; read from the GAS Transfer notifications with from = null).  *)
(* It is an input of the step: the Spec cannot know it.                    *)
(***************************************************************************)
EXTENDS Integers, Sequences, FiniteSets, TLC

CONSTANTS
  B,           \* limb base
  UnitL,       \* 1 GAS in limbs (10^8)
  MaxW,        \* maxBalanceAmount: largest withdrawal / deposit in whole GAS (9000)
  Users, Cands, KeyU, IRSeq,          \* KeyU: universe of keys storable in NeoFS; IRSeq: <<"r1",...>> designation prefixes
  SignerSets, Amounts, Wholes, Mints, Ids, Acts

Nil == "nil"
Contracts == {"neofs", "proc", "proxy", "alph"}
IRAll == {IRSeq[i] : i \in 1..Len(IRSeq)}
Acct  == Contracts \cup Users \cup Cands \cup KeyU \cup IRAll
NeoAcct == Users \cup {"alph"}
MemberName(i) == "m" \o ToString(i)          \* committee member with index i (order of neo.getCommittee)

-----------------------------------------------------------------------------
\* limb arithmetic (3 limbs, base B, little endian); all operands are normalised
Z == <<0, 0, 0>>
L(x) == <<x % B, (x \div B) % B, (x \div B) \div B>>                  \* 0 <= x < 2^31
Leq(a, b) == \/ a[3] < b[3]
             \/ a[3] = b[3] /\ a[2] < b[2]
             \/ a[3] = b[3] /\ a[2] = b[2] /\ a[1] <= b[1]
Lt(a, b)  == ~Leq(b, a)
Add(a, b) == LET s1 == a[1] + b[1]  s2 == a[2] + b[2] + s1 \div B  s3 == a[3] + b[3] + s2 \div B
             IN  <<s1 % B, s2 % B, s3>>
Sub(a, b) == LET d1 == a[1] - b[1]  w1 == IF d1 < 0 THEN 1 ELSE 0       \* a >= b
                 d2 == a[2] - b[2] - w1  w2 == IF d2 < 0 THEN 1 ELSE 0
             IN  <<d1 + w1 * B, d2 + w2 * B, a[3] - b[3] - w2>>
MulS(a, k) == LET t1 == a[1] * k  t2 == a[2] * k + t1 \div B  t3 == a[3] * k + t2 \div B   \* small k
              IN  <<t1 % B, t2 % B, t3>>
DivS(a, d) == LET q3 == a[3] \div d  t2 == (a[3] % d) * B + a[2]                         \* small d > 0
                  q2 == t2 \div d    t1 == (t2 % d) * B + a[1]
              IN  <<t1 \div d, q2, q3>>
MaxDep == MulS(UnitL, MaxW)                  \* maxBalanceAmountGAS

-----------------------------------------------------------------------------
VARIABLES notary, dep, gas, neo, wfee, cfee, cands, irN, ev
vars == <<notary, dep, gas, neo, wfee, cfee, cands, irN, ev>>
\* dep = [skeys, nc, aidx]: the deployment (never changes)
StoredKeys == dep.skeys
NC         == dep.nc
AlphIdx    == dep.aidx

NoNtf == <<>>
Ntf(n, a, b, amt, id) == [n |-> n, a |-> a, b |-> b, amt |-> amt, id |-> id]
NoMint == [a \in Acct |-> Z]

\* act, signers, u = paying/owning account, v = receiver / target / candidate, amt (limbs), w (whole GAS or small
\* integer argument), k = kind (deposit data kind / token / fee name), id, mint
Event(act, S, u, v, amt, w, k, id, mint, res, ret, ntf) ==
  [act |-> act, S |-> S, u |-> u, v |-> v, amt |-> amt, w |-> w, k |-> k, id |-> id, mint |-> mint,
   res |-> res, ret |-> ret, ntf |-> ntf]

Keep == [res |-> "HALT", ret |-> "null", gas |-> gas, neo |-> neo, wfee |-> wfee, cfee |-> cfee, cands |-> cands,
         irN |-> irN, ntf |-> NoNtf]
FaultR == [Keep EXCEPT !.res = "FAULT"]

Move(G, from, to, a) == [[G EXCEPT ![from] = Sub(@, a)] EXCEPT ![to] = Add(@, a)]
Minted(e) == [a \in Acct |-> Add(gas[a], e.mint[a])]

\* native GAS transfer u -> neofs with data; then neofs.OnNEP17Payment(from, amount, data)
DepositR(e) ==
  LET u == e.u  a == e.amt  dk == e.k
  IN  IF u \notin e.S \/ Lt(gas[u], a) THEN [Keep EXCEPT !.ret = "false"]   \* the native contract refuses
      ELSE IF dk = "magic" THEN [Keep EXCEPT !.ret = "true", !.gas = Move(gas, u, "neofs", a)]
                                             \* data = "\x57\x0b": accepted silently, no check at all
      ELSE IF a = Z THEN FaultR                                              \* amount must be positive
      ELSE IF Lt(MaxDep, a) THEN FaultR                                      \* out of max amount limit
      ELSE IF dk \notin {"none", "empty", "h20"} THEN FaultR                 \* invalid data argument
      ELSE [Keep EXCEPT !.ret = "true", !.gas = Move(gas, u, "neofs", a),
                        !.ntf = <<Ntf("Deposit", u, IF dk = "h20" THEN e.v ELSE u, a, Nil)>>]

\* Withdraw(user, amount)
WithdrawR(e) ==
  LET u == e.u  w == e.w
      k == IF notary THEN 1 ELSE Cardinality(StoredKeys)
      G == IF notary THEN Move(gas, u, "proc", wfee)
           ELSE [a \in Acct |-> IF a = u THEN Sub(gas[u], MulS(wfee, k))
                                ELSE IF a \in StoredKeys THEN Add(gas[a], wfee) ELSE gas[a]]
  IN  IF u \notin e.S THEN FaultR
      ELSE IF w < 0 THEN FaultR
      ELSE IF w > MaxW THEN FaultR
      ELSE IF Lt(gas[u], MulS(wfee, k)) THEN FaultR                          \* a fee transfer fails
      ELSE [Keep EXCEPT !.gas = G, !.ntf = <<Ntf("Withdraw", u, Nil, MulS(UnitL, w), Nil)>>]

\* Cheque(id, user, amount, lockAcc) with Notary (the vote-collected variant is MainChainVote)
ChequeR(e) ==
  IF ~notary THEN FaultR
  ELSE IF "ALPHA" \notin e.S THEN FaultR
  ELSE IF Lt(gas["neofs"], e.amt) THEN FaultR
  ELSE [Keep EXCEPT !.gas = Move(gas, "neofs", e.v, e.amt), !.ntf = <<Ntf("Cheque", e.v, Nil, e.amt, e.id)>>]

\* InnerRingCandidateAdd(key)
CandAddR(e) ==
  LET c == e.v
  IN  IF c \notin e.S THEN FaultR
      ELSE IF c \in cands THEN FaultR
      ELSE IF Lt(gas[c], cfee) THEN FaultR
      ELSE [Keep EXCEPT !.gas = Move(gas, c, "neofs", cfee), !.cands = cands \cup {c}]

\* InnerRingCandidateRemove(key): the candidate itself, or (Notary) the 2/3+1 account of the STORED keys
CandRemoveR(e) ==
  IF e.v \in e.S \/ (notary /\ "STORED" \in e.S) THEN [Keep EXCEPT !.cands = cands \ {e.v}] ELSE FaultR

\* SetConfig(id, key, val) with Notary for the two fee keys (e.k = "wfee" | "cfee")
SetFeeR(e) ==
  IF ~notary \/ "ALPHA" \notin e.S THEN FaultR
  ELSE [Keep EXCEPT !.wfee = IF e.k = "wfee" THEN e.amt ELSE wfee, !.cfee = IF e.k = "cfee" THEN e.amt ELSE cfee,
                    !.ntf = <<Ntf("SetConfig", e.k, Nil, e.amt, e.id)>>]

\* RoleManagement.designateAsRole(NeoFSAlphabet, r1..r<w>) by the committee
DesignateR(e) ==
  IF "CMT" \notin e.S \/ e.w < 1 \/ e.w > Len(IRSeq) THEN FaultR ELSE [Keep EXCEPT !.irN = e.w]

\* Alphabet.Emit()
EmitR(e) ==
  LET G0 == Minted(e)                        \* after neo.Transfer(self, self, balance): claimed GAS arrived
      g  == G0["alph"]
      p  == DivS(g, 2)
      r  == Sub(g, p)
      q  == DivS(DivS(MulS(r, 7), 8), irN)
      IR == {IRSeq[i] : i \in 1..irN}
      G1 == Move(G0, "alph", "proxy", p)
      G2 == [a \in Acct |-> IF a \in IR THEN Add(G1[a], q)
                            ELSE IF a = "alph" THEN Sub(G1[a], MulS(q, irN)) ELSE G1[a]]
  IN  IF NC <= AlphIdx \/ MemberName(AlphIdx) \notin e.S THEN FaultR        \* invalid invoker
      ELSE IF p = Z THEN FaultR                                              \* no gas to emit
      ELSE IF irN = 0 THEN FaultR                                            \* division by zero
      ELSE [Keep EXCEPT !.gas = IF q = Z THEN G1 ELSE G2]

\* a payment of e.amt (GAS limbs) / e.w (NEO) from user e.u to contract e.v with token e.k:
\* "GAS", "NEO" (native transfers), "FOREIGN" (a third contract calls onNEP17Payment), "DIRECT" (the
\* transaction script calls onNEP17Payment itself)
PayR(e) ==
  LET u == e.u  t == e.v
  IN  CASE e.k = "GAS" ->
             IF u \notin e.S \/ Lt(gas[u], e.amt) THEN [Keep EXCEPT !.ret = "false"]
             ELSE [Keep EXCEPT !.ret = "true", !.gas = Move(gas, u, t, e.amt)]       \* t # "neofs" (that is deposit)
        [] e.k = "NEO" ->
             IF u \notin e.S \/ neo[u] < e.w THEN [Keep EXCEPT !.ret = "false"]
             ELSE IF t # "alph" THEN FaultR
             ELSE [Keep EXCEPT !.ret = "true", !.gas = Minted(e),
                               !.neo = [[neo EXCEPT ![u] = @ - e.w] EXCEPT !["alph"] = @ + e.w]]
        [] OTHER -> FaultR                                                   \* FOREIGN, DIRECT

ResultOf(e) ==
  CASE e.act = "deposit"   -> DepositR(e)
    [] e.act = "withdraw"  -> WithdrawR(e)
    [] e.act = "cheque"    -> ChequeR(e)
    [] e.act = "candAdd"   -> CandAddR(e)
    [] e.act = "candRemove"-> CandRemoveR(e)
    [] e.act = "setFee"    -> SetFeeR(e)
    [] e.act = "designate" -> DesignateR(e)
    [] e.act = "emit"      -> EmitR(e)
    [] e.act = "pay"       -> PayR(e)
    [] OTHER               -> FaultR

Apply(e) ==
  LET R == ResultOf(e) IN
  /\ gas' = R.gas /\ neo' = R.neo /\ wfee' = R.wfee /\ cfee' = R.cfee /\ cands' = R.cands /\ irN' = R.irN
  /\ UNCHANGED <<notary, dep>>
  /\ ev' = [e EXCEPT !.res = R.res, !.ret = R.ret, !.ntf = R.ntf]

Inv0(act, S, u, v, amt, w, k, id, mint) == Event(act, S, u, v, amt, w, k, id, mint, "HALT", "null", NoNtf)

MintTo(a, m) == [NoMint EXCEPT ![a] = m]

\* P/PS: how argument and signer sets are explored (all / one random element); Sg(S, h): the signer set used
\* given the explored set S and the natural signers h of the call (exhaustive: S; simulation: mostly h)
NextOf(P(_), PS(_), Sg(_, _)) ==
  \E S \in PS(SignerSets) :
    \/ "deposit" \in Acts /\ \E u \in P(Users), a \in P(Amounts), dk \in P({"none", "empty", "h20", "b19", "b21", "magic"}), v \in P(Users) :
          Apply(Inv0("deposit", S \cup {u}, u, v, a, 0, dk, Nil, NoMint))
    \/ "withdraw" \in Acts /\ \E u \in P(Users), w \in P(Wholes) : Apply(Inv0("withdraw", Sg(S, {u}), u, Nil, Z, w, Nil, Nil, NoMint))
    \/ "cheque" \in Acts /\ notary /\ \E u \in P(Users), a \in P(Amounts), id \in P(Ids) :
          Apply(Inv0("cheque", Sg(S, {"ALPHA"}), Nil, u, a, 0, Nil, id, NoMint))
    \/ "candAdd" \in Acts /\ \E c \in P(Cands) : Apply(Inv0("candAdd", Sg(S, {c}), Nil, c, Z, 0, Nil, Nil, NoMint))
    \/ "candRemove" \in Acts /\ \E c \in P(Cands) : Apply(Inv0("candRemove", Sg(S, {c}), Nil, c, Z, 0, Nil, Nil, NoMint))
    \/ "setFee" \in Acts /\ notary /\ \E k \in P({"wfee", "cfee"}), a \in P(Amounts), id \in P(Ids) :
          Apply(Inv0("setFee", Sg(S, {"ALPHA"}), Nil, Nil, a, 0, k, id, NoMint))
    \/ "designate" \in Acts /\ \E n \in P(1..Len(IRSeq)) : Apply(Inv0("designate", Sg(S, {"CMT"}), Nil, Nil, Z, n, Nil, Nil, NoMint))
    \/ "emit" \in Acts /\ \E m \in P(Mints) : Apply(Inv0("emit", Sg(S, {MemberName(AlphIdx)}), Nil, Nil, Z, 0, Nil, Nil, MintTo("alph", m)))
    \/ "pay" \in Acts /\ \E u \in P(Users), t \in P({"proc", "proxy", "alph"}), a \in P(Amounts), k \in P({"GAS", "FOREIGN", "DIRECT"}) :
          Apply(Inv0("pay", S \cup {u}, u, t, a, 0, k, Nil, NoMint))
    \/ "pay" \in Acts /\ \E u \in P(Users), t \in P(Contracts), w \in P(Wholes \cap Nat), m \in P(Mints) :
          Apply(Inv0("pay", S \cup {u}, u, t, Z, w, "NEO", Nil, MintTo("alph", m)))
    \/ "pay" \in Acts /\ \E u \in P(Users), a \in P(Amounts), k \in P({"FOREIGN", "DIRECT"}) :
          Apply(Inv0("pay", S \cup {u}, u, "neofs", a, 0, k, Nil, NoMint))

-----------------------------------------------------------------------------
(***************************************************************************)
(* Property C19, as predicates over one step (e = ev').                    *)
(***************************************************************************)
Others(X) == \A a \in Acct \ X : gas'[a] = gas[a]
SumNtf(e, name) ==
  LET RECURSIVE S(_)
      S(i) == IF i > Len(e.ntf) THEN Z ELSE IF e.ntf[i].n = name THEN Add(e.ntf[i].amt, S(i + 1)) ELSE S(i + 1)
  IN  S(1)

\* a Deposit is reported exactly for GAS payments with 0 < amount <= 9000 GAS and data of length 0 or 20,
\* with the true amount and receiver; nothing else is accepted (data = the candidate-fee marker is left to the Spec)
C19_Deposit(e) ==
  e.act = "deposit" /\ e.k # "magic" =>
    IF e.amt # Z /\ Leq(e.amt, MaxDep) /\ e.k \in {"none", "empty", "h20"} /\ e.u \in e.S /\ Leq(e.amt, gas[e.u])
    THEN /\ e.res = "HALT"
         /\ e.ntf = <<Ntf("Deposit", e.u, IF e.k = "h20" THEN e.v ELSE e.u, e.amt, Nil)>>
         /\ gas'["neofs"] = Add(gas["neofs"], e.amt) /\ gas'[e.u] = Sub(gas[e.u], e.amt) /\ Others({"neofs", e.u})
    ELSE e.ntf = NoNtf /\ gas' = gas
\* a withdrawal request costs exactly the fee: once to Processing with Notary, once per stored key without
C19_WithdrawFee(e) ==
  e.act = "withdraw" =>
    LET k == IF notary THEN 1 ELSE Cardinality(StoredKeys)
        able == e.u \in e.S /\ e.w >= 0 /\ e.w <= MaxW /\ Leq(MulS(wfee, k), gas[e.u])
    IN  /\ able => e.res = "HALT"
        /\ e.res = "HALT" =>
             /\ e.u \in e.S
             /\ e.ntf = <<Ntf("Withdraw", e.u, Nil, MulS(UnitL, e.w), Nil)>>
             /\ gas'[e.u] = Sub(gas[e.u], MulS(wfee, k))
             /\ IF notary THEN gas'["proc"] = Add(gas["proc"], wfee) /\ Others({e.u, "proc"})
                ELSE (\A s \in StoredKeys : gas'[s] = Add(gas[s], wfee)) /\ Others({e.u} \cup StoredKeys)
        /\ e.res = "FAULT" => gas' = gas /\ e.ntf = NoNtf
\* an approved cheque pays exactly its amount, once
C19_ChequePays(e) ==
  e.act = "cheque" /\ notary =>
    /\ "ALPHA" \in e.S /\ Leq(e.amt, gas["neofs"]) => e.res = "HALT"
    /\ e.res = "HALT" =>
         /\ "ALPHA" \in e.S
         /\ gas' = Move(gas, "neofs", e.v, e.amt)
         /\ e.ntf = <<Ntf("Cheque", e.v, Nil, e.amt, e.id)>>
    /\ e.res = "FAULT" => gas' = gas /\ e.ntf = NoNtf
\* a candidate registration costs exactly the configured fee
C19_CandidateFee(e) ==
  e.act = "candAdd" =>
    /\ e.v \in e.S /\ e.v \notin cands /\ Leq(cfee, gas[e.v]) => e.res = "HALT"
    /\ e.res = "HALT" => /\ e.v \in e.S /\ e.v \notin cands
                         /\ gas' = Move(gas, e.v, "neofs", cfee) /\ cands' = cands \cup {e.v}
                         /\ SumNtf(e, "Deposit") = Z
    /\ e.res = "FAULT" => gas' = gas /\ cands' = cands
\* the contract's balance changes by exactly: reported deposits + candidate fee - cheques (+ unreported marker payments)
C19_Conservation(e) ==
  LET fee == IF e.act = "candAdd" /\ e.res = "HALT" THEN cfee ELSE Z
      sil == IF e.act = "deposit" /\ e.k = "magic" /\ e.res = "HALT" /\ e.ret = "true" THEN e.amt ELSE Z
  IN  Add(gas'["neofs"], SumNtf(e, "Cheque")) = Add(Add(Add(gas["neofs"], SumNtf(e, "Deposit")), fee), sil)
\* emit: only the Alphabet node with the contract's own index
C19_EmitOnlyOwnNode(e) ==
  e.act = "emit" => IF NC > AlphIdx /\ MemberName(AlphIdx) \in e.S THEN TRUE ELSE e.res = "FAULT" /\ gas' = gas
\* emit: floor(g/2) to Proxy, floor((g - floor(g/2)) * 7/8 / N) to each of the N Inner Ring nodes, the rest stays
\* (floors characterised by multiplication: p = floor(g/2) <=> 2p <= g < 2p+2; q <=> 8Nq <= 7r < 8N(q+1))
C19_EmitSplit(e) ==
  e.act = "emit" /\ irN >= 1 =>
    LET g  == Add(gas["alph"], e.mint["alph"])
        p  == Sub(gas'["proxy"], gas["proxy"])
        IR == {IRSeq[i] : i \in 1..irN}
        q  == Sub(gas'[IRSeq[1]], gas[IRSeq[1]])
        r  == Sub(g, p)
    IN  /\ NC > AlphIdx /\ MemberName(AlphIdx) \in e.S /\ Leq(L(2), g) => e.res = "HALT"
        /\ e.res = "HALT" =>
             /\ Leq(gas["proxy"], gas'["proxy"]) /\ Leq(gas[IRSeq[1]], gas'[IRSeq[1]])
             /\ Leq(MulS(p, 2), g) /\ Lt(g, Add(MulS(p, 2), L(2)))
             /\ Leq(MulS(q, 8 * irN), MulS(r, 7)) /\ Lt(MulS(r, 7), MulS(Add(q, L(1)), 8 * irN))
             /\ \A n \in IR : gas'[n] = Add(gas[n], q)
             /\ Add(Add(gas'["alph"], p), MulS(q, irN)) = g
             /\ Others({"alph", "proxy"} \cup IR)
        /\ e.res = "FAULT" => gas' = gas
\* Proxy, Processing accept nothing but GAS, Alphabet GAS and NEO; NeoFS GAS only
C19_OnlyGAS(e) ==
  e.act = "pay" =>
    /\ e.k \in {"FOREIGN", "DIRECT"} \/ (e.k = "NEO" /\ e.v # "alph" /\ e.u \in e.S /\ neo[e.u] >= e.w)
          => e.res = "FAULT" /\ gas' = gas /\ neo' = neo
    /\ e.k = "GAS" /\ e.u \in e.S /\ Leq(e.amt, gas[e.u]) => e.res = "HALT" /\ gas' = Move(gas, e.u, e.v, e.amt)
    /\ e.k = "NEO" /\ e.v = "alph" /\ e.u \in e.S /\ neo[e.u] >= e.w
          => e.res = "HALT" /\ neo'["alph"] = neo["alph"] + e.w /\ neo'[e.u] = neo[e.u] - e.w
\* nothing but the operations above moves GAS of the tracked accounts
C19_NoOtherMoves(e) ==
  e.act \in {"candRemove", "setFee", "designate"} \/ e.res = "FAULT" => gas' = gas

=============================================================================
