------------------------------- MODULE NNSTrace -------------------------------
(***************************************************************************)
(* Trace monitor: evaluates the properties C10/C11/C12 and the extension   *)
(* X03 (the registration price) - deciding - and the actions and the       *)
(* read-API model of NNS.tla - binding - on executions                     *)
(* recorded from the real NameService contract by harness/nns.  The        *)
(* variables of the Spec are bound to the raw storage observed after every *)
(* line, api to the observed answers of the read methods, g to the         *)
(* reference machine driven by the recorded invocations; every check is a  *)
(* boolean evaluation and a failing one prints a FLAG line.                *)
(***************************************************************************)
EXTENDS NNS, Json, SequencesExt

CONSTANT TraceFile

VARIABLES l, g, api
tvars == <<now, roots, ns, supply, bal, idx, rec, soa, price, ev, l, g, api>>

Trace == ndJsonDeserialize(TraceFile)

M_Par    == ("t" :> Nil) @@ ("u" :> Nil) @@ ("a.t" :> "t") @@ ("b.t" :> "t") @@ ("a.u" :> "u") @@ ("b.a.t" :> "a.t")
            @@ ("c.a.t" :> "a.t") @@ ("c.b.a.t" :> "b.a.t") @@ ("d.c.b.a.t" :> "c.b.a.t")
M_Owners == {"o1", "o2", "o3", "kc", "CMT"}
M_DataOf == ("A" :> {})
AllDev   == {"ReadFragments", "SetDuplicate"}

EvOf(r) == Event(r.act, ToSet(r.S), r.via, r.n, r.o, r.m, r.x, r.ty, r.d, r.res, r.ret, r.retn, r.ntf)

RecOf(o) ==
  [k \in RecKeys |->
     LET m == {i \in 1..Len(o.rec) : o.rec[i].tok = k[1] /\ o.rec[i].n = k[2] /\ o.rec[i].ty = k[3]}
     IN  IF m = {} THEN <<>> ELSE o.rec[CHOOSE i \in m : TRUE].data]
\* every stored record list belongs to a (token, name, type) the Spec knows
RawShape(o) == \A i \in 1..Len(o.rec) : <<o.rec[i].tok, o.rec[i].n, o.rec[i].ty>> \in RecKeys

ApiOf(a) ==
  [supply |-> a.supply,
   bal    |-> [o \in Owners |-> a.bal[o]],
   toks   |-> [o \in Owners |-> ToSet(a.toks[o])],
   roots  |-> ToSet(a.roots),
   avail  |-> [n \in NT |-> a.avail[n]],
   owner  |-> [n \in NT |-> a.owner[n]],
   props  |-> [n \in NT |-> a.props[n]],
   get    |-> [n \in NT |-> [ty \in OkTypes |-> a.get[n][ty]]],
   soa    |-> [n \in NT |-> a.soa[n]],
   all    |-> [n \in NT |-> a.all[n]],
   res    |-> [n \in NT |-> [ty \in OkTypes |-> a.res[n][ty]]],
   resdot |-> [n \in NT |-> a.resdot[n]],
   price  |-> a.price]

Flag(ok, prop, pred, r, tags) ==
  IF ok THEN TRUE
  ELSE PrintT("FLAG|" \o ToString(l + 1) \o "|" \o prop \o "|" \o pred \o "|" \o r.act \o "|" \o ToString(r.t)
              \o "|" \o ToString(tags))

\* deviation tags: predicates over one line that explain a failure by a known kind of defect
DeepSub(G, t) ==
  \E n \in NT : /\ GReach(G, t, n)
                /\ Level(n) >= Level(GTok(G, t, n)) + 2
                /\ \E ty \in OkTypes : GList(G, t, n, ty) # <<>>
Tags(r) ==
  (IF DeepSub(g', now') THEN {"DeepSubRead"} ELSE {})
  \cup (IF \E k \in RecKeys : ~Distinct(g'.rec[k]) THEN {"SetDuplicate"} ELSE {})

SpecStep(r) ==
  LET e == EvOf(r) IN
  CASE r.act = "tick"          -> Tick(e.x)
    [] r.act = "registerTLD"   -> RegisterTLD(e.S, e.via, e.n, e.m, e.x)
    [] r.act = "register"      -> Register(e.S, e.via, e.n, e.o, e.m, e.x)
    [] r.act = "transfer"      -> Transfer(e.S, e.via, e.n, e.o, e.d)
    [] r.act = "renew"         -> Renew(e.S, e.via, e.n, e.x)
    [] r.act = "setAdmin"      -> SetAdmin(e.S, e.via, e.n, e.o)
    [] r.act = "updateSOA"     -> UpdateSOA(e.S, e.via, e.n, e.m, e.x)
    [] r.act = "addRecord"     -> AddRecord(e.S, e.via, e.n, e.ty, e.d)
    [] r.act = "setRecord"     -> SetRecord(e.S, e.via, e.n, e.ty, e.x, e.d)   \* Dev of the cfg: {} = the repaired method
    [] r.act = "deleteRecords" -> DeleteRecords(e.S, e.via, e.n, e.ty)
    [] r.act = "setPrice"      -> SetPrice(e.S, e.via, e.x)
    [] OTHER -> FALSE

\* the read methods answer what the Spec computes from the storage (Dev of the cfg: {} = the repaired code)
ApiStep == api' = ApiModel(Dev)'

Judge(r) ==
  LET e == ev'
      t == Tags(r)
      H == g'
      n0 == now      \* the instant at which the transaction ran
      n1 == now'     \* the instant at which the read methods were observed
      a == api'
  IN  /\ Flag(r.bad = <<>> /\ r.obs.stray = <<>> /\ RawShape(r.obs), "C10", "Observable", r, t)
      /\ Flag(C10_Supply(H, a), "C10", "Supply", r, t)
      /\ Flag(C10_Index(H, a), "C10", "Index", r, t)
      /\ Flag(C10_Avail(H, n1, a), "C10", "Avail", r, t)
      /\ Flag(C10_RegisterFree(g, e, n0), "C10", "RegisterFree", r, t)
      /\ Flag(C10_Renew(H, e, n0), "C10", "Renew", r, t)
      /\ Flag(C10_ChainAlive(H, n1, a), "C10", "ChainAlive", r, t)
      /\ Flag(C10_Announced(g, H, e), "C10", "Announced", r, t)
      /\ Flag(C11_UnauthorisedInert(g, e, n0), "C11", "UnauthorisedInert", r, t)
      /\ Flag(C12_Lists(g, H), "C12", "Lists", r, t)
      /\ Flag(C12_Ops(g, e, n0), "C12", "Ops", r, t)
      /\ Flag(C12_Serial(g, e, n0, n1, a), "C12", "Serial", r, t)
      /\ Flag(C12_Get(H, n1, a), "C12", "Get", r, t)
      /\ Flag(C12_GetAll(H, n1, a), "C12", "GetAll", r, t)
      /\ Flag(C12_Resolve(H, n1, a), "C12", "Resolve", r, t)
      /\ Flag(C12_ResolveDot(a), "C12", "ResolveDot", r, t)
      /\ Flag(C12_RegisterConflict(g, e), "C12", "RegisterConflict", r, t)
      \* extension X03: pb / pa = getPrice() observed after the previous line / after this line
      /\ Flag(X03_PriceGate(e, api.price, a.price), "X03", "PriceGate", r, t)
      /\ Flag(X03_PriceStored(e, api.price, a.price), "X03", "PriceStored", r, t)
      /\ Flag(X03_RegisterNeedsPrice(e, api.price), "X03", "RegisterNeedsPrice", r, t)
      /\ Flag(r.obs.praw = r.obs.price, "DRIFT", "PriceRaw", r, t)      \* getPrice() answers the stored value (key 0x10)
      /\ Flag(SpecStep(r), "DRIFT", "SpecStep", r, t)
      /\ Flag(ApiStep, "DRIFT", "ApiStep", r, t)

TraceInit ==
  /\ l = 0
  /\ Init
  /\ g = GInit
  /\ api = 0

TraceNext ==
  /\ l < Len(Trace)
  /\ l' = l + 1
  /\ LET r == Trace[l + 1]
         o == r.obs
     IN  /\ now' = o.now
         /\ roots' = ToSet(o.roots)
         /\ ns' = [n \in Names |-> o.ns[n]]
         /\ supply' = o.supply
         /\ bal' = [x \in Owners |-> o.bal[x]]
         /\ idx' = ToSet(o.idx)
         /\ rec' = RecOf(o)
         /\ soa' = [n \in Names |-> o.soa[n]]
         /\ price' = o.price
         /\ ev' = EvOf(r)
         /\ api' = ApiOf(o.api)
         /\ IF r.act = "reset"
            THEN /\ g' = GInit
                 /\ Flag(r.year = YEAR /\ r.bad = <<>> /\ o.stray = <<>>, "C10", "Observable", r, {})
                 /\ Flag(ApiStep /\ ns' = GInit.reg /\ price' = DefPrice /\ o.praw = o.price, "DRIFT", "Reset", r, {})
            ELSE /\ g' = GNext(g, ev', now)
                 /\ Judge(r)
         /\ IF l' = Len(Trace) THEN PrintT("DONE|" \o ToString(l')) ELSE TRUE

TraceSpec == TraceInit /\ [][TraceNext]_tvars
=============================================================================
