----------------------------- MODULE NetmapTrace -----------------------------
(***************************************************************************)
(* Trace monitor: evaluates the properties C06/C07/C08 (deciding) and the  *)
(* actions of Netmap.tla (binding) on executions recorded from the real    *)
(* Netmap contract by harness/netmap.  The state variables of the Spec are *)
(* bound to the raw storage observed after every transaction, the read API *)
(* observed at the same point is handed to the predicates as A, so each    *)
(* check is a boolean evaluation; a failing check prints a FLAG line and   *)
(* the monitor goes on, so every offending line of every trace is          *)
(* reported.                                                               *)
(***************************************************************************)
EXTENDS Netmap, Json, SequencesExt

CONSTANT TraceFile

VARIABLES l, pub, rt, okC08, okC06, leak
tvars == <<epoch, tickHeight, height, legacy, structured, count, cur, slot, v2, subs, journal, rej, config, ev,
           l, pub, rt, okC08, okC06, leak>>

Trace == ndJsonDeserialize(TraceFile)

M_Keys    == {"k1", "k2", "k3", "k4", "k5", "k6"}
M_Bad     == {"b0", "b32", "b34"}
M_Probes  == {"s1", "s2", "s3"}
M_CfgKeys == {"c0", "cA", "cAB", "cB"}

EvOf(r) == Event(r.act, ToSet(r.S), r.k, r.i, r.s, r.x, r.c, r.v, r.h, r.res, r.ntf)

Nodes(seq) == ToSet(seq)
ErrSet == {[k |-> "error", i |-> 0, s |-> 0]}
OkSet(x) == IF x.ok THEN Nodes(x.m) ELSE ErrSet

\* the read API as observed
ApiObs(a) ==
  [epoch      |-> a.epoch,
   tickHeight |-> a.tickHeight,
   netmap     |-> [ok |-> a.netmap.ok, m |-> Nodes(a.netmap.m)],
   cands      |-> OkSet(a.cands),
   lcands     |-> OkSet(a.lcands),
   snap       |-> [j \in 1..Len(a.snap) |-> [ok |-> a.snap[j].ok, m |-> Nodes(a.snap[j].m)]],
   snapE      |-> {[e |-> x.e, ok |-> x.ok, m |-> Nodes(x.m)] : x \in ToSet(a.snapE)},
   nodes      |-> {[e |-> x.e, ok |-> x.ok, m |-> Nodes(x.m)] : x \in ToSet(a.nodes)}]

Flag(ok, prop, pred, r, tags) ==
  IF ok THEN TRUE
  ELSE PrintT("FLAG|" \o ToString(l + 1) \o "|" \o prop \o "|" \o pred \o "|" \o r.act \o "|" \o ToString(r.t)
              \o "|" \o ToString(tags))

\* deviation tags: predicates over one line that explain a failure by a listed known finding
\*   ZeroCount     the snapshot count is (or becomes) 0
\*   SnapshotLeak  every per-epoch list outside the retained range belongs to an epoch `epoch - newCount`
\*                 of an earlier accepted shrink (the list the code's loop bound `k < epoch-count` skips)
Tags(r) ==
  (IF count = 0 \/ count' = 0 THEN {"ZeroCount"} ELSE {})
  \cup (IF leak' # {} /\ \A p \in v2' : p.e \notin Retained(epoch', rt') => p.e \in leak' THEN {"SnapshotLeak"} ELSE {})

SpecStep(r) ==
  LET e == EvOf(r) IN
  CASE r.act = "addPeer"       -> AddPeer(e.S, e.k, e.i, e.h)
    [] r.act = "addPeerIR"     -> AddPeerIR(e.S, e.k, e.i, e.h)
    [] r.act = "addNode"       -> AddNode(e.S, e.k, e.i, e.s, e.h)
    [] r.act = "updateState"   -> UpdateState(e.S, e.s, e.k, e.h)
    [] r.act = "updateStateIR" -> UpdateStateIR(e.S, e.s, e.k, e.h)
    [] r.act = "deleteNode"    -> DeleteNode(e.S, e.k, e.h)
    [] r.act = "newEpoch"      -> NewEpoch(e.S, e.x, e.h)
    [] r.act = "tickB"         -> TickB(e.S, e.k, e.i, e.x, e.h)
    [] r.act = "updateSnapshotCount" -> \E D \in SUBSET AllDev : UpdateSnapshotCountD(D, e.S, e.x, e.h)
         \* the Spec with or without the two deviations of the code (see Netmap!UpdateSnapshotCountD): the binding
         \* holds for the tree as it is and for the repaired one
    [] r.act = "subscribe"     -> Subscribe(e.S, e.c, e.h)
    [] r.act = "setReject"     -> SetReject(e.c, e.v, e.h)
    [] r.act = "setConfig"     -> SetConfig(e.S, e.c, e.v, e.h)
    [] OTHER -> FALSE

\* the read API must be the transcribed getters applied to the raw storage (otherwise the Spec state is ambiguous)
RawApi(o) ==
  /\ ApiObs(o.api) = ApiNext
  /\ OkSet(o.api.nodesCur) = {[k |-> p.k, i |-> p.i, s |-> p.s] : p \in {q \in v2' : q.e = epoch'}}
  /\ [c \in CfgKeys |-> o.api.cfg[c]] = config'
  /\ [c \in CfgKeys |-> o.api.lcfg[c]] = config'

Judge(r) ==
  LET e == EvOf(r)
      t == Tags(r)
      A == ApiObs(r.obs.api)
  IN  /\ okC06 => /\ Flag(C06_Outcome(e), "C06", "Outcome", r, t)
                  /\ Flag(C06_Monotone(e), "C06", "Monotone", r, t)
                  /\ Flag(C06_FailInert(e), "C06", "FailInert", r, t)
                  /\ Flag(C06_Publish(e, A), "C06", "Publish", r, t)
                  /\ Flag(C06_Fanout(e), "C06", "Fanout", r, t)
                  /\ Flag(C06_Announced(e), "DRIFT", "C06_Announced", r, t)  \* the statement of C06 does not speak of notifications
                  /\ Flag(C06_Subscribe(e), "C06", "Subscribe", r, t)
      /\ Flag(C07_Machine(e), "C07", "Machine", r, t)
      /\ Flag(C07_Rejects(e), "C07", "Rejects", r, t)
      /\ Flag(C07_Witness(e), "C07", "Witness", r, t)
      /\ Flag(C07_Api(A), "C07", "Api", r, t)
      /\ Flag(C07_Announced(e), "DRIFT", "C07_Announced", r, t)  \* the statement of C07 does not speak of notifications
      /\ Flag(r.obs.strayCand = <<>>, "C07", "NoStrayCandidate", r, t)
      /\ okC08' => /\ Flag(C08_Recent(A, epoch', pub', rt'), "C08", "Recent", r, t)
                   /\ Flag(C08_Older(A, epoch', rt'), "C08", "Older", r, t)
                   /\ Flag(C08_NoLeak(v2', epoch', rt'), "C08", "NoLeak", r, t)
                   /\ Flag(C08_Resizable(e), "C08", "Resizable", r, t)
                   /\ Flag(C08_RefusedInert(e), "C08", "RefusedInert", r, t)
                   /\ Flag(r.obs.strayRing = <<>>, "C08", "NoStrayRing", r, t)
      /\ Flag(r.bad = <<>> /\ r.obs.stray = <<>>, "DRIFT", "Undecodable", r, t)
      /\ Flag(RawApi(r.obs), "DRIFT", "RawApi", r, t)
      /\ Flag(SpecStep(r), "DRIFT", "SpecStep", r, t)

TraceInit ==
  /\ l = 0
  /\ epoch = 0 /\ tickHeight = 0 /\ height = 0
  /\ legacy = [k \in Keys |-> NoCand] /\ structured = [k \in Keys |-> NoCand]
  /\ count = DefaultCount /\ cur = 0 /\ slot = InitSlot /\ v2 = {}
  /\ subs = <<>> /\ journal = <<>> /\ rej = {}
  /\ config = [c \in CfgKeys |-> Nil]
  /\ ev = Event("init", {}, Nil, 0, 0, 0, Nil, Nil, 0, "HALT", NoNtf)
  /\ pub = <<>> /\ rt = 0 /\ okC08 = TRUE /\ okC06 = TRUE /\ leak = {}

TraceNext ==
  /\ l < Len(Trace)
  /\ l' = l + 1
  /\ LET r == Trace[l + 1]
         o == r.obs
     IN  /\ epoch' = o.epoch /\ tickHeight' = o.tickHeight /\ height' = r.h
         /\ legacy' = [k \in Keys |-> o.legacy[k]]
         /\ structured' = [k \in Keys |-> o.structured[k]]
         /\ count' = o.cnt /\ cur' = o.cur
         /\ slot' = [x \in SlotIdx |-> [ex |-> o.slot[x + 1].ex, m |-> Nodes(o.slot[x + 1].m)]]
         /\ v2' = ToSet(o.p)
         /\ subs' = o.subs /\ journal' = o.journal /\ rej' = ToSet(o.rej)
         /\ config' = [c \in CfgKeys |-> o.cfg[c]]
         /\ ev' = EvOf(r)
         /\ IF r.act = "reset"
            THEN pub' = <<>> /\ rt' = 0 /\ okC08' = TRUE /\ okC06' = TRUE /\ leak' = {}
            ELSE /\ pub' = PubNext(pub, ev')
                 /\ rt' = RtNext(rt, ev')
                 /\ okC08' = StepOk(okC08, pub, ev')
                 /\ okC06' = NoResize(okC06, ev')
                 /\ leak' = IF r.act = "updateSnapshotCount" /\ r.res = "HALT" /\ r.x < count THEN leak \cup {epoch - r.x} ELSE leak
                 /\ Judge(r)
         /\ IF l' = Len(Trace) THEN PrintT("DONE|" \o ToString(l')) ELSE TRUE

TraceSpec == TraceInit /\ [][TraceNext]_tvars
=============================================================================
