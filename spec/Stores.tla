------------------------------- MODULE Stores -------------------------------
(***************************************************************************)
(* Implementation-shaped specification of the "store" contracts of the FS  *)
(* chain and of the configuration map of the main-chain NeoFS contract:    *)
(*                                                                         *)
(*   rep.*   contracts/reputation/contract.go   Put / Get / GetByID /      *)
(*           ListByEpoch                                                   *)
(*   aud.*   contracts/audit/contract.go        Put / Get / List /         *)
(*           ListByEpoch / ListByCID / ListByNode                          *)
(*   est.*   contracts/container/contract.go    PutContainerSize /         *)
(*           GetContainerSize / ListContainerSizes / IterateContainerSizes *)
(*           / IterateAllContainerSizes / NewEpoch / Start-, Stop-         *)
(*           ContainerEstimation (updateEstimations, cleanupContainers)    *)
(*   id.*    contracts/neofsid/contract.go      AddKey / RemoveKey / Key   *)
(*   cfgN.*  contracts/netmap/contract.go       SetConfig/Config/ListConfig*)
(*   cfgF.*  contracts/neofs/contract.go        SetConfig/Config/ListConfig*)
(*                                              (notary-enabled mode)      *)
(* plus the environment those methods read: nm.* (Netmap candidates and    *)
(* the snapshot pipeline candidates -> current map -> previous map that    *)
(* isStorageNode consults), cn.* (container existence / tombstones) and    *)
(* ir.set (designation of the NeoFSAlphabet role = Inner Ring list).       *)
(*                                                                         *)
(* The state `st` is the raw storage of the contracts, decoded by the      *)
(* documented key layout into entries over model values.  What matters for *)
(* property C20 is how storage KEYS are built from those entries: several  *)
(* stores prepend the VM's minimal little-endian encoding of the epoch     *)
(* (VMInt) to fixed-length identifiers and then list by byte PREFIX.  The  *)
(* byte strings of all identifiers are part of the universe U, the key     *)
(* constructors (RepId, AudId, EstSfx) and the prefix test are transcribed *)
(* literally, and the read methods select by prefix exactly as storage.Find*)
(* does - behind the deviation switch "PrefixAlias" \in Dev.  With the     *)
(* switch off the reads select by equality of the decoded epoch (what the  *)
(* property demands).                                                      *)
(*                                                                         *)
(* `api` is the answer of every read method for every query of the         *)
(* universe (sparse: only non-empty answers are listed).  `ev` is the last *)
(* invocation.  The properties are written at the end as predicates over   *)
(* one step against the ghost exact maps `g` (GNext), and are used both by *)
(* TLC on this Spec (StoresMC) and by the trace monitor (StoresTrace) on   *)
(* executions of the real contracts.                                       *)
(***************************************************************************)
EXTENDS Integers, Sequences, FiniteSets, TLC, SequencesExt

CONSTANTS
  Epochs,      \* epoch numbers offered to puts, ticks (and queried)
  Peers, Cids, Nodes,
  Owners, Keys,            \* incl. malformed ones (not in U.owners / U.keys)
  CfgKeys, Vals, Sizes,
  SignerSets,  \* sets of Nodes \cup {"ALPHA","CMT","M1","X"}
  IRSets,      \* Inner Ring lists offered to ir.set (non-empty sets of Nodes)
  Acts,        \* action families enabled in Next: subset of {"rep","aud","ir","est","nm","cn","ntf","id","cfg"}
  Dev          \* deviation switches: "PrefixAlias" = selections are made by byte prefix (the code);
               \* "Exact:<site>" = the listing <site> nevertheless filters out keys of other epochs (what the
               \* partial repair notes/reports/stores-fix-1.diff does for aud.listByEpoch and est.list)

VARIABLES
  U,    \* universe (never changes): [qe, peer, cid, ah, eh, owners, keys, cfgkeys]
        \*   qe      set of epochs every read method is queried with
        \*   peer[p] bytes of a reputation peer id (33)      cid[c] bytes of a container id (32)
        \*   ah[n]   sha256(key of n)[:24] (audit)           eh[n]  ripemd160(key of n)[:10] (estimations)
        \*   owners / keys  the well-formed (25 / 33 byte) NeoFSID owners and keys
        \*   cfgkeys configuration keys that are queried
  st,   \* raw storage, decoded: [repC, repV, aud, est, estL, idk, cfgN, cfgF, env]
  api,  \* answers of the read methods
  ev    \* last invocation

vars == <<U, st, api, ev>>

Nil == "nil"
Alias == "PrefixAlias" \in Dev

-----------------------------------------------------------------------------
(***************************************************************************)
(* Bytes.  VMInt: the VM's integer -> byte string conversion for n >= 0    *)
(* (minimal little-endian two's complement): 0 -> <<>>, 1 -> 01,           *)
(* 128 -> 80 00, 256 -> 00 01, 257 -> 01 01, 65536 -> 00 00 01.            *)
(***************************************************************************)
RECURSIVE LE(_)
LE(n) == IF n = 0 THEN <<>> ELSE <<n % 256>> \o LE(n \div 256)
VMInt(n) == IF n = 0 THEN <<>>
            ELSE LET b == LE(n) IN IF b[Len(b)] >= 128 THEN Append(b, 0) ELSE b

RECURSIVE LexLess(_, _)
LexLess(a, b) == IF a = <<>> THEN b # <<>>
                 ELSE IF b = <<>> THEN FALSE
                 ELSE IF a[1] # b[1] THEN a[1] < b[1]
                 ELSE LexLess(Tail(a), Tail(b))

\* storage keys (after the constant prefix byte(s) of the store)
RepId(e, p)     == VMInt(e) \o U.peer[p]                 \* 'c' || id -> count ; 'r' || id || VMInt(i) -> value
AudId(e, c, n)  == VMInt(e) \o U.cid[c] \o U.ah[n]       \* id -> blob
EstSfx(e, c, n) == VMInt(e) \o U.cid[c] \o U.eh[n]       \* "cnr" || ... -> Estimation
EstId(e, c)     == VMInt(e) \o U.cid[c]                  \* "cnr" || ... : the ids of ListContainerSizes

\* storage.Find(prefix) / the selection the property demands
Hit(prefix, key, same) == IF Alias THEN IsPrefix(prefix, key) ELSE same
\* the same for the four listings by epoch, which can be switched to exact individually
HitAt(site, prefix, key, same) == IF Alias /\ ("Exact:" \o site) \notin Dev THEN IsPrefix(prefix, key) ELSE same

-----------------------------------------------------------------------------
(***************************************************************************)
(* Read methods (functions of the storage and of the universe)             *)
(***************************************************************************)
RepVKey(x) == RepId(x.e, x.p) \o VMInt(x.i)

\* GetByID(id) = Find('r' || id, ValuesOnly): values in key order
RepGetSeq(s, e, p) ==
  LET hits == {x \in s.repV : Hit(RepId(e, p), RepVKey(x), x.e = e /\ x.p = p)}
      srt  == SetToSortSeq(hits, LAMBDA a, b : LexLess(RepVKey(a), RepVKey(b)))
  IN  [i \in 1..Len(srt) |-> srt[i].v]

ApiOf(s) ==
  LET QE == U.qe
      PS == DOMAIN U.peer
      CS == DOMAIN U.cid
      NS == DOMAIN U.ah
      repGet == {r \in {[e |-> ep[1], p |-> ep[2], vs |-> RepGetSeq(s, ep[1], ep[2])] : ep \in QE \X PS} : r.vs # <<>>}
  IN
  [ \* ---- reputation
    repGet   |-> repGet,
    repGetID |-> repGet,           \* Get(e, p) = GetByID(storageID(e, p))
    repList  |-> {[q |-> y[1], e |-> y[2].e, p |-> y[2].p] :
                    y \in {z \in QE \X s.repC : HitAt("rep.listByEpoch", VMInt(z[1]), RepId(z[2].e, z[2].p), z[2].e = z[1])}},
    \* ---- audit
    audGet   |-> {x \in s.aud : x.e \in QE},     \* Get(id) is an exact storage.Get
    audList  |-> {[e |-> x.e, c |-> x.c, n |-> x.n] : x \in s.aud},
    audByE   |-> {[q |-> y[1], e |-> y[2].e, c |-> y[2].c, n |-> y[2].n] :
                    y \in {z \in QE \X s.aud : HitAt("aud.listByEpoch", VMInt(z[1]), AudId(z[2].e, z[2].c, z[2].n), z[2].e = z[1])}},
    audByC   |-> {[q |-> y[1], qc |-> y[2], e |-> y[3].e, c |-> y[3].c, n |-> y[3].n] :
                    y \in {z \in QE \X CS \X s.aud :
                             Hit(VMInt(z[1]) \o U.cid[z[2]], AudId(z[3].e, z[3].c, z[3].n), z[3].e = z[1] /\ z[3].c = z[2])}},
    audByN   |-> {[q |-> y[1], qc |-> y[2], qn |-> y[3], e |-> y[4].e, c |-> y[4].c, n |-> y[4].n] :
                    y \in {z \in QE \X CS \X NS \X s.aud :
                             Hit(AudId(z[1], z[2], z[3]), AudId(z[4].e, z[4].c, z[4].n),
                                 z[4].e = z[1] /\ z[4].c = z[2] /\ z[4].n = z[3])}},
    \* ---- size estimations
    estAll   |-> {[q |-> y[1], e |-> y[2].e, c |-> y[2].c, n |-> y[2].n, f |-> y[2].f, sz |-> y[2].sz] :
                    y \in {z \in QE \X s.est : HitAt("est.iterateAll", VMInt(z[1]), EstSfx(z[2].e, z[2].c, z[2].n), z[2].e = z[1])}},
    estIter  |-> {[q |-> y[1], qc |-> y[2], f |-> y[3].f, sz |-> y[3].sz] :
                    y \in {z \in QE \X CS \X s.est :
                             Hit(EstId(z[1], z[2]), EstSfx(z[3].e, z[3].c, z[3].n), z[3].e = z[1] /\ z[3].c = z[2])}},
    estList  |-> {[q |-> y[1], e |-> y[2].e, c |-> y[2].c] :
                    y \in {z \in QE \X s.est : HitAt("est.list", VMInt(z[1]), EstSfx(z[2].e, z[2].c, z[2].n), z[2].e = z[1])}},
    \* GetContainerSize(id of (e,c)): CID = last 32 bytes of the id, estimations = Find(id)
    estGet   |-> {[e |-> y[1], c |-> y[2], cid |-> y[2], f |-> y[3].f, sz |-> y[3].sz] :
                    y \in {z \in QE \X CS \X s.est :
                             Hit(EstId(z[1], z[2]), EstSfx(z[3].e, z[3].c, z[3].n), z[3].e = z[1] /\ z[3].c = z[2])}},
    \* ---- NeoFSID (fixed-length owner prefix)
    idKey    |-> {x \in s.idk : x.o \in U.owners},
    \* ---- configuration maps: Config(k) is an exact Get, ListConfig lists the whole "config" prefix
    cfgN     |-> {x \in s.cfgN : x.k \in U.cfgkeys},
    cfgNL    |-> s.cfgN,
    cfgF     |-> {x \in s.cfgF : x.k \in U.cfgkeys},
    cfgFL    |-> s.cfgF ]

-----------------------------------------------------------------------------
(***************************************************************************)
(* Invocations                                                             *)
(***************************************************************************)
Event(act, S, e, x, a, b, v, ks, res, ntf) ==
  [act |-> act, S |-> S, e |-> e, x |-> x, a |-> a, b |-> b, v |-> v, ks |-> ks, res |-> res, ntf |-> ntf]

NoNtf == <<>>
HasAlpha(S) == "ALPHA" \in S
HasCmt(S)   == "CMT" \in S

Done(act, S, e, x, a, b, v, ks, ntf, s1) ==
  /\ st' = s1
  /\ api' = ApiOf(s1)
  /\ UNCHANGED U
  /\ ev' = Event(act, S, e, x, a, b, v, ks, "HALT", ntf)

Fault(act, S, e, x, a, b, v, ks) ==
  /\ UNCHANGED <<U, st, api>>
  /\ ev' = Event(act, S, e, x, a, b, v, ks, "FAULT", NoNtf)

\* ---- reputation.Put(epoch, peerID, value), k+1 times in one transaction (k = 0: the ordinary single call; the
\*      repetition lets a scenario drive the per-id counter across 127/128 and 255/256 in a few recorded steps).
\*      The i-th value of an id is stored under 'r' || id || VMInt(i): a variable-length counter.
RepPut(S, e, p, v, k) ==
  IF HasAlpha(S)
  THEN LET old == {x \in st.repC : x.e = e /\ x.p = p}
           c0  == IF old = {} THEN 0 ELSE (CHOOSE x \in old : TRUE).c
       IN  Done("rep.put", S, e, k, p, Nil, v, <<>>, NoNtf,
                [st EXCEPT !.repC = (@ \ old) \cup {[e |-> e, p |-> p, c |-> c0 + k + 1]},
                           !.repV = @ \cup {[e |-> e, p |-> p, i |-> c0 + j, v |-> v] : j \in 1..(k + 1)}])
  ELSE Fault("rep.put", S, e, k, p, Nil, v, <<>>)

\* ---- audit.Put(rawAuditResult); header = (epoch e, container c, From = key of n)
AudPut(S, e, c, n, v) ==
  IF n \in S /\ n \in st.env.ir
  THEN Done("aud.put", S, e, 0, c, n, v, <<>>, NoNtf,
            [st EXCEPT !.aud = {x \in @ : ~(x.e = e /\ x.c = c /\ x.n = n)} \cup {[e |-> e, c |-> c, n |-> n, v |-> v]}])
  ELSE Fault("aud.put", S, e, 0, c, n, v, <<>>)

\* ---- container.PutContainerSize(epoch, cid, usedSize, pubKey)
EpochList(s, c, n) == IF \E l \in s.estL : l.c = c /\ l.n = n
                      THEN (CHOOSE l \in s.estL : l.c = c /\ l.n = n).l ELSE <<>>
CleanupDelta      == 3
TotalCleanupDelta == 4

EstPut(S, e, c, n, sz) ==
  IF c \in st.env.cnts /\ n \in S /\ n \in st.env.prev      \* getOwnerByID, CheckWitness, isStorageNode (snapshot(1))
  THEN LET est1 == {x \in st.est : ~(x.e = e /\ x.c = c /\ x.n = n)} \cup {[e |-> e, c |-> c, n |-> n, f |-> n, sz |-> sz]}
           \* updateEstimations(ctx, epoch, cid, pubKey, false)
           oldL == EpochList(st, c, n)
           drop == {oldL[i] : i \in {j \in 1..Len(oldL) : e - oldL[j] > CleanupDelta}}
           keep == SelectSeq(oldL, LAMBDA o : ~(e - o > CleanupDelta))
           est2 == {x \in est1 : ~(x.c = c /\ x.n = n /\ x.e \in drop)}
       IN  Done("est.put", S, e, sz, c, n, Nil, <<>>, NoNtf,
                [st EXCEPT !.est = est2,
                           !.estL = {l \in @ : ~(l.c = c /\ l.n = n)} \cup {[c |-> c, n |-> n, l |-> Append(keep, e)]}])
  ELSE Fault("est.put", S, e, sz, c, n, Nil, <<>>)

\* cleanupContainers(ctx, epoch)
Cleanup(E, e) == {x \in E : ~(e - x.e > TotalCleanupDelta)}

\* ---- container.NewEpoch(epochNum) called directly
EstTick(S, e) ==
  IF HasAlpha(S)
  THEN Done("est.tick", S, e, 0, Nil, Nil, Nil, <<>>, NoNtf, [st EXCEPT !.est = Cleanup(@, e)])
  ELSE Fault("est.tick", S, e, 0, Nil, Nil, Nil, <<>>)

\* ---- container.Start/StopContainerEstimation(epoch)
EstNotify(act, name, S, e) ==
  IF HasAlpha(S)
  THEN Done(act, S, e, 0, Nil, Nil, Nil, <<>>, <<[n |-> name, e |-> e, k |-> Nil, v |-> Nil]>>, st)
  ELSE Fault(act, S, e, 0, Nil, Nil, Nil, <<>>)
EstStart(S, e) == EstNotify("est.start", "StartEstimation", S, e)
EstStop(S, e)  == EstNotify("est.stop", "StopEstimation", S, e)

\* ---- netmap.NewEpoch(e): candidates become the current map, the current map becomes snapshot(1);
\*      Container (subscribed) runs its cleanup in the same transaction
NmTick(S, e) ==
  IF HasAlpha(S) /\ e > st.env.epoch
  THEN Done("nm.tick", S, e, 0, Nil, Nil, Nil, <<>>, NoNtf,
            [st EXCEPT !.env.epoch = e, !.env.prev = st.env.cur, !.env.cur = st.env.cand, !.est = Cleanup(@, e)])
  ELSE Fault("nm.tick", S, e, 0, Nil, Nil, Nil, <<>>)

\* ---- netmap.AddPeerIR(info of n) / UpdateStateIR(Offline, key of n)
NmAdd(S, n) ==
  IF HasAlpha(S)
  THEN Done("nm.add", S, 0, 0, Nil, n, Nil, <<>>, NoNtf, [st EXCEPT !.env.cand = @ \cup {n}])
  ELSE Fault("nm.add", S, 0, 0, Nil, n, Nil, <<>>)
NmRm(S, n) ==
  IF HasAlpha(S)
  THEN Done("nm.rm", S, 0, 0, Nil, n, Nil, <<>>, NoNtf, [st EXCEPT !.env.cand = @ \ {n}])
  ELSE Fault("nm.rm", S, 0, 0, Nil, n, Nil, <<>>)

\* ---- container.Put (fee 0, with a session token) / container.Delete
CnPut(S, c) ==
  IF c \notin st.env.dead /\ HasAlpha(S)
  THEN Done("cn.put", S, 0, 0, c, Nil, Nil, <<>>, NoNtf, [st EXCEPT !.env.cnts = @ \cup {c}])
  ELSE Fault("cn.put", S, 0, 0, c, Nil, Nil, <<>>)
CnDel(S, c) ==
  IF c \notin st.env.cnts
  THEN Done("cn.del", S, 0, 0, c, Nil, Nil, <<>>, NoNtf, st)      \* silent no-op
  ELSE IF HasAlpha(S)
  THEN Done("cn.del", S, 0, 0, c, Nil, Nil, <<>>, NoNtf, [st EXCEPT !.env.cnts = @ \ {c}, !.env.dead = @ \cup {c}])
  ELSE Fault("cn.del", S, 0, 0, c, Nil, Nil, <<>>)

\* ---- RoleManagement.designateAsRole(NeoFSAlphabet, keys): needs the committee (n/2+1) witness
IrSet(S, ks) ==
  IF HasCmt(S) /\ ks # <<>>
  THEN Done("ir.set", S, 0, 0, Nil, Nil, Nil, ks, NoNtf, [st EXCEPT !.env.ir = ToSet(ks)])
  ELSE Fault("ir.set", S, 0, 0, Nil, Nil, Nil, ks)

\* ---- neofsid.AddKey / RemoveKey(owner, keys): length checks come before the witness check
IdArgsOK(o, ks) == o \in U.owners /\ \A i \in 1..Len(ks) : ks[i] \in U.keys
IdAdd(S, o, ks) ==
  IF IdArgsOK(o, ks) /\ HasAlpha(S)
  THEN Done("id.add", S, 0, 0, o, Nil, Nil, ks, NoNtf, [st EXCEPT !.idk = @ \cup {[o |-> o, k |-> k] : k \in ToSet(ks)}])
  ELSE Fault("id.add", S, 0, 0, o, Nil, Nil, ks)
IdRm(S, o, ks) ==
  IF IdArgsOK(o, ks) /\ HasAlpha(S)
  THEN Done("id.rm", S, 0, 0, o, Nil, Nil, ks, NoNtf, [st EXCEPT !.idk = @ \ {[o |-> o, k |-> k] : k \in ToSet(ks)}])
  ELSE Fault("id.rm", S, 0, 0, o, Nil, Nil, ks)

\* ---- netmap.SetConfig(id, key, val) / neofs.SetConfig(id, key, val) (notary mode: Alphabet witness)
SetKV(M, k, v) == {x \in M : x.k # k} \cup {[k |-> k, v |-> v]}
CfgNSet(S, k, v) ==
  IF HasAlpha(S)
  THEN Done("cfgN.set", S, 0, 0, k, Nil, v, <<>>, NoNtf, [st EXCEPT !.cfgN = SetKV(@, k, v)])
  ELSE Fault("cfgN.set", S, 0, 0, k, Nil, v, <<>>)
CfgFSet(S, k, v) ==
  IF HasAlpha(S)
  THEN Done("cfgF.set", S, 0, 0, k, Nil, v, <<>>, <<[n |-> "SetConfig", e |-> 0, k |-> k, v |-> v]>>,
            [st EXCEPT !.cfgF = SetKV(@, k, v)])
  ELSE Fault("cfgF.set", S, 0, 0, k, Nil, v, <<>>)

-----------------------------------------------------------------------------
EmptyEnv == [epoch |-> 0, cand |-> {}, cur |-> {}, prev |-> {}, cnts |-> {}, dead |-> {}, ir |-> {}]
EmptySt  == [repC |-> {}, repV |-> {}, aud |-> {}, est |-> {}, estL |-> {}, idk |-> {}, cfgN |-> {}, cfgF |-> {}, env |-> EmptyEnv]
InitEv   == Event("init", {}, 0, 0, Nil, Nil, Nil, <<>>, "HALT", NoNtf)

InitWith(u, s0) ==
  /\ U = u
  /\ st = s0
  /\ api = ApiOf(s0)
  /\ ev = InitEv

\* epochs just beyond the cleanup deltas of the offered ones are always among the candidates of the
\* estimation actions, so that both sides of each delta are reached
NearEst == {e + d : e \in Epochs, d \in {3, 4, 5}}

KeySeqs == {<<k>> : k \in Keys} \cup {<<k1, k2>> : k1 \in Keys, k2 \in Keys}

\* Next is parameterised by the way argument sets are explored: P(X) = X for exhaustive checking,
\* P(X) = {RandomElement(X)} for scenario generation; PS(X, h) chooses signer sets (h = the set that
\* satisfies the witness checks of the call, used as a bias by the scenario generator).
NextOf(P(_), PS(_, _)) ==
  \/ "rep" \in Acts /\ \E e \in P(Epochs), p \in P(Peers), v \in P(Vals) : \E S \in PS(SignerSets, {"ALPHA"}) : RepPut(S, e, p, v, 0)
  \/ "aud" \in Acts /\ \E e \in P(Epochs), c \in P(Cids), n \in P(Nodes), v \in P(Vals) : \E S \in PS(SignerSets, {n}) : AudPut(S, e, c, n, v)
  \/ "ir" \in Acts /\ \E ks \in P({SetToSeq(I) : I \in IRSets} \cup {<<>>}) : \E S \in PS(SignerSets, {"CMT"}) : IrSet(S, ks)
  \/ "est" \in Acts /\ \E e \in P(Epochs \cup NearEst), c \in P(Cids), n \in P(Nodes), z \in P(Sizes) : \E S \in PS(SignerSets, {n}) : EstPut(S, e, c, n, z)
  \/ "est" \in Acts /\ \E e \in P(Epochs \cup NearEst) : \E S \in PS(SignerSets, {"ALPHA"}) : EstTick(S, e)
  \/ "est" \in Acts /\ \E e \in P(Epochs \cup NearEst) : \E S \in PS(SignerSets, {"ALPHA"}) : NmTick(S, e)
  \/ "nm" \in Acts /\ \E n \in P(Nodes) : \E S \in PS(SignerSets, {"ALPHA"}) : NmAdd(S, n) \/ NmRm(S, n)
  \/ "cn" \in Acts /\ \E c \in P(Cids) : \E S \in PS(SignerSets, {"ALPHA"}) : CnPut(S, c) \/ CnDel(S, c)
  \/ "ntf" \in Acts /\ \E e \in P(Epochs) : \E S \in PS(SignerSets, {"ALPHA"}) : EstStart(S, e) \/ EstStop(S, e)
  \/ "id" \in Acts /\ \E o \in P(Owners), ks \in P(KeySeqs) : \E S \in PS(SignerSets, {"ALPHA"}) : IdAdd(S, o, ks) \/ IdRm(S, o, ks)
  \/ "cfg" \in Acts /\ \E k \in P(CfgKeys), v \in P(Vals) : \E S \in PS(SignerSets, {"ALPHA"}) : CfgNSet(S, k, v) \/ CfgFSet(S, k, v)

All(X) == X
All2(X, h) == X
Next == NextOf(All, All2)

-----------------------------------------------------------------------------
(***************************************************************************)
(* Property C20.  The ghost `g` holds the exact maps implied by the        *)
(* successful invocations so far (it is computed from the invocations      *)
(* only, never from the storage):                                          *)
(*   g.rep  {[e,p,i,v]}  i-th value put under (e,p)                        *)
(*   g.aud  {[e,c,n,v]}  g.est {[e,c,n,sz]}  g.id {[o,k]}                  *)
(*   g.cfgN, g.cfgF {[k,v]}                                                *)
(* For every read method ("site") and every query, the answer must be what *)
(* the exact map implies.  The predicates are step-relative: a step is     *)
(* flagged when it creates a NEW discrepancy (query, answer, expected) at  *)
(* a site - a discrepancy that persists unchanged is reported once.        *)
(***************************************************************************)
GInit == [rep |-> {}, aud |-> {}, est |-> {}, id |-> {}, cfgN |-> {}, cfgF |-> {}]

GNext(g, e) ==
  IF e.res # "HALT" THEN g
  ELSE CASE e.act = "rep.put" ->
              \* (e.x + 1 puts of the same value in one transaction, see RepPut)
              LET n0 == Cardinality({x \in g.rep : x.e = e.e /\ x.p = e.a})
              IN  [g EXCEPT !.rep = @ \cup {[e |-> e.e, p |-> e.a, v |-> e.v, i |-> n0 + j] : j \in 1..(e.x + 1)}]
         [] e.act = "aud.put" ->
              [g EXCEPT !.aud = {x \in @ : ~(x.e = e.e /\ x.c = e.a /\ x.n = e.b)} \cup {[e |-> e.e, c |-> e.a, n |-> e.b, v |-> e.v]}]
         [] e.act = "est.put" ->
              \* the new estimation replaces the node's one for (epoch, container) and removes the same
              \* node's estimations of this container that are more than CleanupDelta epochs older
              [g EXCEPT !.est = {x \in @ : ~(x.c = e.a /\ x.n = e.b /\ (x.e = e.e \/ e.e - x.e > CleanupDelta))}
                                  \cup {[e |-> e.e, c |-> e.a, n |-> e.b, sz |-> e.x]}]
         [] e.act \in {"est.tick", "nm.tick"} ->
              \* the epoch tick removes everything more than TotalCleanupDelta epochs older
              [g EXCEPT !.est = {x \in @ : ~(e.e - x.e > TotalCleanupDelta)}]
         [] e.act = "id.add"   -> [g EXCEPT !.id = @ \cup {[o |-> e.a, k |-> k] : k \in ToSet(e.ks)}]
         [] e.act = "id.rm"    -> [g EXCEPT !.id = @ \ {[o |-> e.a, k |-> k] : k \in ToSet(e.ks)}]
         [] e.act = "cfgN.set" -> [g EXCEPT !.cfgN = SetKV(@, e.a, e.v)]
         [] e.act = "cfgF.set" -> [g EXCEPT !.cfgF = SetKV(@, e.a, e.v)]
         [] OTHER -> g

BagOfSeq(s) == [v \in ToSet(s) |-> Cardinality({i \in DOMAIN s : s[i] = v})]
BagOfSet(X) == [v \in {x.v : x \in X} |-> Cardinality({x \in X : x.v = v})]

\* discrepancies of one site: queries whose answer differs from the exact answer
Disc(Q, Obs(_), Ex(_)) == {d \in {[q |-> q, obs |-> Obs(q), ex |-> Ex(q)] : q \in Q} : d.obs # d.ex}

\* ---- reputation
D_RepGetOf(G, L) ==
  Disc({<<x.e, x.p>> : x \in L} \cup {<<x.e, x.p>> : x \in G.rep},
       LAMBDA q : IF \E x \in L : x.e = q[1] /\ x.p = q[2]
                  THEN BagOfSeq((CHOOSE x \in L : x.e = q[1] /\ x.p = q[2]).vs) ELSE BagOfSeq(<<>>),
       LAMBDA q : BagOfSet({x \in G.rep : x.e = q[1] /\ x.p = q[2]}))
D_RepGet(G, A)   == D_RepGetOf(G, A.repGet)
D_RepGetID(G, A) == D_RepGetOf(G, A.repGetID)
D_RepList(G, A) ==
  Disc({x.q : x \in A.repList} \cup {x.e : x \in G.rep},
       LAMBDA q : {<<x.e, x.p>> : x \in {y \in A.repList : y.q = q}},
       LAMBDA q : {<<x.e, x.p>> : x \in {y \in G.rep : y.e = q}})
\* ---- audit
Aid(x) == <<x.e, x.c, x.n>>
D_AudGet(G, A) ==
  Disc({Aid(x) : x \in A.audGet} \cup {Aid(x) : x \in G.aud},
       LAMBDA q : {x.v : x \in {y \in A.audGet : Aid(y) = q}},
       LAMBDA q : {x.v : x \in {y \in G.aud : Aid(y) = q}})
D_AudList(G, A) ==
  Disc({0}, LAMBDA q : {Aid(x) : x \in A.audList}, LAMBDA q : {Aid(x) : x \in G.aud})
D_AudByE(G, A) ==
  Disc({x.q : x \in A.audByE} \cup {x.e : x \in G.aud},
       LAMBDA q : {Aid(x) : x \in {y \in A.audByE : y.q = q}},
       LAMBDA q : {Aid(x) : x \in {y \in G.aud : y.e = q}})
D_AudByC(G, A) ==
  Disc({<<x.q, x.qc>> : x \in A.audByC} \cup {<<x.e, x.c>> : x \in G.aud},
       LAMBDA q : {Aid(x) : x \in {y \in A.audByC : y.q = q[1] /\ y.qc = q[2]}},
       LAMBDA q : {Aid(x) : x \in {y \in G.aud : y.e = q[1] /\ y.c = q[2]}})
D_AudByN(G, A) ==
  Disc({<<x.q, x.qc, x.qn>> : x \in A.audByN} \cup {Aid(x) : x \in G.aud},
       LAMBDA q : {Aid(x) : x \in {y \in A.audByN : y.q = q[1] /\ y.qc = q[2] /\ y.qn = q[3]}},
       LAMBDA q : {Aid(x) : x \in {y \in G.aud : Aid(y) = q}})
\* ---- estimations.  An entry is (epoch, container, node, From, size); From must be the node itself.
Eent(x) == <<x.e, x.c, x.n, x.f, x.sz>>
Gent(x) == <<x.e, x.c, x.n, x.n, x.sz>>
D_EstAll(G, A) ==
  Disc({x.q : x \in A.estAll} \cup {x.e : x \in G.est},
       LAMBDA q : {Eent(x) : x \in {y \in A.estAll : y.q = q}},
       LAMBDA q : {Gent(x) : x \in {y \in G.est : y.e = q}})
D_EstIter(G, A) ==
  Disc({<<x.q, x.qc>> : x \in A.estIter} \cup {<<x.e, x.c>> : x \in G.est},
       LAMBDA q : {<<x.f, x.sz>> : x \in {y \in A.estIter : y.q = q[1] /\ y.qc = q[2]}},
       LAMBDA q : {<<x.n, x.sz>> : x \in {y \in G.est : y.e = q[1] /\ y.c = q[2]}})
D_EstList(G, A) ==
  Disc({x.q : x \in A.estList} \cup {x.e : x \in G.est},
       LAMBDA q : {<<x.e, x.c>> : x \in {y \in A.estList : y.q = q}},
       LAMBDA q : {<<x.e, x.c>> : x \in {y \in G.est : y.e = q}})
D_EstGet(G, A) ==
  Disc({<<x.e, x.c>> : x \in A.estGet} \cup {<<x.e, x.c>> : x \in G.est},
       LAMBDA q : {<<x.cid, x.f, x.sz>> : x \in {y \in A.estGet : y.e = q[1] /\ y.c = q[2]}},
       LAMBDA q : {<<x.c, x.n, x.sz>> : x \in {y \in G.est : y.e = q[1] /\ y.c = q[2]}})
\* ---- NeoFSID, configuration
D_IdKey(G, A) ==
  Disc({x.o : x \in A.idKey} \cup {x.o : x \in G.id},
       LAMBDA q : {x.k : x \in {y \in A.idKey : y.o = q}},
       LAMBDA q : {x.k : x \in {y \in G.id : y.o = q}})
D_CfgGet(GM, L) ==
  Disc({x.k : x \in L} \cup {x.k : x \in GM},
       LAMBDA q : {x.v : x \in {y \in L : y.k = q}},
       LAMBDA q : {x.v : x \in {y \in GM : y.k = q}})
D_CfgList(GM, L) == Disc({0}, LAMBDA q : L, LAMBDA q : GM)

\* new discrepancies created by the step g -> g2 (ghosts), api -> api'
New(D(_, _), g, g2) == D(g2, api') \ D(g, api)

C20_RepGet(g, g2)    == New(D_RepGet, g, g2) = {}
C20_RepGetID(g, g2)  == New(D_RepGetID, g, g2) = {}
C20_RepList(g, g2)   == New(D_RepList, g, g2) = {}
C20_AudGet(g, g2)    == New(D_AudGet, g, g2) = {}
C20_AudList(g, g2)   == New(D_AudList, g, g2) = {}
C20_AudByE(g, g2)    == New(D_AudByE, g, g2) = {}
C20_AudByC(g, g2)    == New(D_AudByC, g, g2) = {}
C20_AudByN(g, g2)    == New(D_AudByN, g, g2) = {}
C20_EstAll(g, g2)    == New(D_EstAll, g, g2) = {}
C20_EstIter(g, g2)   == New(D_EstIter, g, g2) = {}
C20_EstList(g, g2)   == New(D_EstList, g, g2) = {}
C20_EstGet(g, g2)    == New(D_EstGet, g, g2) = {}
C20_IdKey(g, g2)     == New(D_IdKey, g, g2) = {}
C20_CfgN(g, g2)      == D_CfgGet(g2.cfgN, api'.cfgN) \ D_CfgGet(g.cfgN, api.cfgN) = {}
C20_CfgNL(g, g2)     == D_CfgList(g2.cfgN, api'.cfgNL) \ D_CfgList(g.cfgN, api.cfgNL) = {}
C20_CfgF(g, g2)      == D_CfgGet(g2.cfgF, api'.cfgF) \ D_CfgGet(g.cfgF, api.cfgF) = {}
C20_CfgFL(g, g2)     == D_CfgList(g2.cfgF, api'.cfgFL) \ D_CfgList(g.cfgF, api.cfgFL) = {}

\* acceptance conditions (st = state before the step)
C20_EstAccept(e) == e.act = "est.put" /\ e.res = "HALT" => e.b \in e.S /\ e.b \in st.env.prev
C20_AudAccept(e) == e.act = "aud.put" /\ e.res = "HALT" => e.b \in e.S /\ e.b \in st.env.ir
\* a failed invocation changes no store
Stored(s) == <<s.repC, s.repV, s.aud, s.est, s.estL, s.idk, s.cfgN, s.cfgF>>
C20_FailedInert(e) == e.res = "FAULT" => Stored(st') = Stored(st) /\ api' = api /\ e.ntf = NoNtf

C20_All(g, g2, e) ==
  /\ C20_RepGet(g, g2) /\ C20_RepGetID(g, g2) /\ C20_RepList(g, g2)
  /\ C20_AudGet(g, g2) /\ C20_AudList(g, g2) /\ C20_AudByE(g, g2) /\ C20_AudByC(g, g2) /\ C20_AudByN(g, g2)
  /\ C20_EstAll(g, g2) /\ C20_EstIter(g, g2) /\ C20_EstList(g, g2) /\ C20_EstGet(g, g2)
  /\ C20_IdKey(g, g2) /\ C20_CfgN(g, g2) /\ C20_CfgNL(g, g2) /\ C20_CfgF(g, g2) /\ C20_CfgFL(g, g2)
  /\ C20_EstAccept(e) /\ C20_AudAccept(e) /\ C20_FailedInert(e)

\* state invariants (S1): no discrepancy at all
Inv_Exact(g) ==
  /\ D_RepGet(g, api) = {} /\ D_RepGetID(g, api) = {} /\ D_RepList(g, api) = {}
  /\ D_AudGet(g, api) = {} /\ D_AudList(g, api) = {} /\ D_AudByE(g, api) = {} /\ D_AudByC(g, api) = {} /\ D_AudByN(g, api) = {}
  /\ D_EstAll(g, api) = {} /\ D_EstIter(g, api) = {} /\ D_EstList(g, api) = {} /\ D_EstGet(g, api) = {}
  /\ D_IdKey(g, api) = {}
  /\ D_CfgGet(g.cfgN, api.cfgN) = {} /\ D_CfgList(g.cfgN, api.cfgNL) = {}
  /\ D_CfgGet(g.cfgF, api.cfgF) = {} /\ D_CfgList(g.cfgF, api.cfgFL) = {}

-----------------------------------------------------------------------------
(***************************************************************************)
(* Deviation tags (known finding: variable-length epoch prefix).  A new    *)
(* discrepancy d of an epoch-prefix listing site is explained when nothing *)
(* is missing and every surplus element is a stored entry of ANOTHER epoch *)
(* whose storage key begins with the bytes of the queried epoch:           *)
(*   strict  - VMInt(q) is a proper prefix of VMInt(e') (1 vs 257, 0 vs    *)
(*             everything, 128 = 80 00 vs 65664 = 80 00 01): "PrefixAlias" *)
(*   spill   - the match runs into the identifier that follows the epoch   *)
(*             (epoch 0 = <<>> with a peer key starting 02 answers epoch   *)
(*             2; epoch 1 with such a key answers 513 = 01 02):            *)
(*             "PrefixAliasId"                                             *)
(* ent(s) gives (epoch, key bytes after the store prefix) of a surplus     *)
(* element s, stored(s) tells whether s really is an entry of the exact    *)
(* map.  Result: {} (unexplained), {"PrefixAlias"} or {"PrefixAliasId"}.   *)
(***************************************************************************)
AliasTags(ND, Qe(_), Ep(_), KeyOf(_), StoredIn(_)) ==
  IF ND = {} THEN {}
  ELSE LET sur(d)     == d.obs \ d.ex
           okAny(d)   == /\ d.ex \ d.obs = {}
                         /\ \A s \in sur(d) : StoredIn(s) /\ Ep(s) # Qe(d.q) /\ IsPrefix(VMInt(Qe(d.q)), KeyOf(s))
           strict(d)  == \A s \in sur(d) : IsPrefix(VMInt(Qe(d.q)), VMInt(Ep(s)))
       IN  IF \A d \in ND : okAny(d)
           THEN IF \A d \in ND : strict(d) THEN {"PrefixAlias"} ELSE {"PrefixAliasId"}
           ELSE {}

T_RepList(g, g2) ==
  AliasTags(New(D_RepList, g, g2), LAMBDA q : q, LAMBDA s : s[1], LAMBDA s : RepId(s[1], s[2]),
            LAMBDA s : \E x \in g2.rep : x.e = s[1] /\ x.p = s[2])
T_AudByE(g, g2) ==
  AliasTags(New(D_AudByE, g, g2), LAMBDA q : q, LAMBDA s : s[1], LAMBDA s : AudId(s[1], s[2], s[3]),
            LAMBDA s : \E x \in g2.aud : Aid(x) = s)
T_EstAll(g, g2) ==
  AliasTags(New(D_EstAll, g, g2), LAMBDA q : q, LAMBDA s : s[1], LAMBDA s : EstSfx(s[1], s[2], s[3]),
            LAMBDA s : \E x \in g2.est : Gent(x) = s)
T_EstList(g, g2) ==
  AliasTags(New(D_EstList, g, g2), LAMBDA q : q, LAMBDA s : s[1], LAMBDA s : EstId(s[1], s[2]),
            LAMBDA s : \E x \in g2.est : x.e = s[1] /\ x.c = s[2])

=============================================================================
