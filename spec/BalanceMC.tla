------------------------------ MODULE BalanceMC ------------------------------
(* Model-checking wrapper: constants for the bounded configurations, the      *)
(* ghost lock table as a variable, the properties as action formulas, and     *)
(* the scenario emitter used with `tlc -simulate`.                            *)
EXTENDS Balance, Json

VARIABLES lk, hist
mcvars == <<acc, supply, used, epoch, ev, lk, hist>>

\* ---- constants (cfg files substitute these) ----
Q_Users      == {"u1", "kc"}
Q_LockSeq    == <<"l1">>
Q_SignerSets == {{}, {"u1"}, {"ALPHA"}, {"CMT"}}
Q_Amounts    == {-1, 0, 1, 2}
Q_Untils     == {0, 2}
Q_Epochs     == {1, 2}
Q_Bad        == {"short"}

T_Users      == {"u1", "u2", "kc"}
T_LockSeq    == <<"l1">>
T_SignerSets == {{}, {"u1"}, {"ALPHA"}, {"CMT", "u2"}}
T_Amounts    == {-1, 0, 1, 2}
T_Untils     == {-1, 0, 2, 3}
T_Epochs     == {1, 2, 3}
T_Bad        == {"empty", "long"}

\* nested locks: two lock addresses, one user, Alphabet only (the order of inner and outer in the release loop matters)
N_Users      == {"u1"}
N_LockSeq    == <<"l1", "l2">>
N_SignerSets == {{"ALPHA"}}
N_Amounts    == {0, 1, 2}
N_Untils     == {1, 2}
N_Epochs     == {1, 2}
N_Bad        == {}

\* simulation (scenario generation): richer, unbounded walk
S_Users      == {"u1", "u2", "u3", "kc"}
S_LockSeq    == <<"l1", "l2", "l3">>
S_SignerSets == {{}, {"u1"}, {"u2"}, {"u3"}, {"ALPHA"}, {"CMT"}, {"M1"}, {"X"}, {"u1", "ALPHA"}, {"u2", "u3"}, {"CMT", "u1"}}
S_Amounts    == {-3, -1, 0, 1, 2, 3, 5, 8}
S_Untils     == {-1, 0, 1, 2, 3, 4, 6}
S_Epochs     == {0, 1, 2, 3, 4, 5, 6, 7}
S_Bad        == {"empty", "short", "long"}

MCInit == Init /\ lk = LkInit /\ hist = <<>>
MCNext == Next /\ lk' = LkNext(lk, ev') /\ hist' = <<>>
MCSpec == MCInit /\ [][MCNext]_mcvars

\* simulation keeps the invocation history (scenario) and prints it at the end
One(X) == IF X = {} THEN {} ELSE {RandomElement(X)}
\* signer sets are drawn with a bias towards the sets that make calls succeed
S_SignerBias == <<{"ALPHA"}, {"ALPHA"}, {"ALPHA"}, {"ALPHA"}, {"u1"}, {"u1"}, {"u2"}, {"u2"}, {"u3"}, {"ALPHA", "u1"}>>
OneS(X) == IF RandomElement(1..3) = 1 THEN One(X) ELSE {S_SignerBias[RandomElement(1..Len(S_SignerBias))]}
SimNext == NextOf(One, OneS) /\ lk' = LkNext(lk, ev') /\ hist' = Append(hist, [ev' EXCEPT !.ntf = <<>>])
SimSpec == MCInit /\ [][SimNext]_mcvars

MCView == <<acc, supply, used, epoch, lk>>

CONSTANT SimLen
EmitScenario == IF Len(hist) = SimLen THEN PrintT("SCEN " \o ToJson([steps |-> hist])) ELSE TRUE

P_C01 == [][/\ C01_SupplyIsSum /\ C01_NoNegative /\ C01_SupplyDelta(ev')
            /\ C01_FailedInert(ev') /\ C01_Announced(ev')]_mcvars
P_C02 == [][C02_AuthorisedDebit(ev') /\ C02_PublicTransfer(ev')]_mcvars
P_C09 == [][/\ C09_NoEarly(lk, ev') /\ C09_AtExpiry(lk, ev') /\ C09_Stays(lk, ev')
            /\ C09_Once(lk, ev') /\ C09_BurnReduces(lk, ev')]_mcvars

TypeOK == /\ supply \in Int
          /\ \A a \in Acc : acc[a].ex \in BOOLEAN /\ acc[a].bal \in Int

=============================================================================
