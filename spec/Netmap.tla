------------------------------- MODULE Netmap -------------------------------
(***************************************************************************)
(* Implementation-shaped specification of contracts/netmap/contract.go.    *)
(*                                                                         *)
(* One action per exported mutating method, guards in the order of the     *)
(* code; a FAULTed invocation leaves the state unchanged (transaction      *)
(* atomicity of the platform).  The state is the raw storage of the        *)
(* contract, decoded by its key layout:                                    *)
(*   epoch, tickHeight   snapshotEpoch, snapshotBlock                      *)
(*   legacy[k]           'candidate' || key  -> Node{BLOB,State}           *)
(*   structured[k]       '2' || key          -> Node2                      *)
(*   count, cur, slot    snapshotCount, snapshotCurrent, 'snapshot_'||i    *)
(*                       (the ring of legacy maps; ex = FALSE: no key)     *)
(*   v2                  'p' || BE32(epoch) || key -> Node2 (one record    *)
(*                       [e,k,i,s] per stored entry)                       *)
(*   subs                'e' || index || hash, as the sequence of          *)
(*                       subscribers in index order                        *)
(*   config[c]           'config' || name                                  *)
(* plus the storage of the harness contracts that make the fan-out         *)
(* observable: journal (shared journal of newEpoch callbacks received by   *)
(* the probe subscribers, in call order) and rej (probe subscribers        *)
(* switched to reject), and height (index of the latest block).            *)
(*                                                                         *)
(* A node description is abstracted to an info id i (the driver owns the   *)
(* injective encoding into the binary blob / Node2 structure); a published *)
(* map is a set of records [k, i, s].                                      *)
(*                                                                         *)
(* The read API is specified as the operator Api over a state (transcribed *)
(* getters).  Properties C06, C07, C08 are written at the end as           *)
(* predicates over one step (unprimed = before, primed = after, e = the    *)
(* invocation, A = the read API after the step); they are used by TLC on   *)
(* this specification (A computed by Api) and by the trace monitor         *)
(* NetmapTrace on executions of the real contract (A observed).            *)
(***************************************************************************)
EXTENDS Integers, Sequences, FiniteSets, TLC

CONSTANTS
  Keys,       \* well-formed node public keys (strings "k1".., also names of their signers)
  BadKeys,    \* malformed keys: subset of {"b0","b32","b34"} (0/32/34 bytes)
  Probes,     \* probe subscriber contracts (journalling), e.g. {"s1","s2","s3"}
  OtherSubs,  \* other contracts with newEpoch/1 (the real Balance contract "bal")
  NoSubs,     \* contracts without newEpoch/1 ("nc") and non-contracts ("nx")
  CfgKeys,    \* configuration keys
  MaxSlots,   \* ring slots modelled: 0 .. MaxSlots-1
  Window,     \* the API sweep covers epochs max(0, epoch-Window+3) .. epoch+2
  \* --- argument spaces for exploration / generation ---
  Infos, StateArgs, AddStates, SignerSets, EpochOffs, CountArgs, CfgVals,
  Blks,       \* {0}: every transaction in a block of its own; {0,1}: also sharing the block of the previous one
  Dev         \* deviation switches of the exhaustive runs (behaviour of the code the properties forbid)

Nil     == "nil"
Online  == 1
Offline == 2
Maint   == 3
AllDev  == {"SnapshotLeak", "ZeroCount"}

SlotIdx == 0 .. (MaxSlots - 1)

VARIABLES epoch, tickHeight, height, legacy, structured, count, cur, slot, v2, subs, journal, rej, config, ev
nmvars == <<epoch, tickHeight, legacy, structured, count, cur, slot, v2, subs, journal, rej, config>>
vars   == <<epoch, tickHeight, height, legacy, structured, count, cur, slot, v2, subs, journal, rej, config, ev>>

NoCand == [ex |-> FALSE, i |-> 0, s |-> 0]
Cand(i, s) == [ex |-> TRUE, i |-> i, s |-> s]
NoSlot == [ex |-> FALSE, m |-> {}]

Min(a, b) == IF a < b THEN a ELSE b
Max(a, b) == IF a > b THEN a ELSE b
Range(f) == {f[x] : x \in DOMAIN f}

NoNtf == <<>>
Ntf(n, k, x) == [n |-> n, k |-> k, x |-> x]

Event(act, S, k, i, s, x, c, v, h, res, ntf) ==
  [act |-> act, S |-> S, k |-> k, i |-> i, s |-> s, x |-> x, c |-> c, v |-> v, h |-> h, res |-> res, ntf |-> ntf]

HasAlpha(S) == "ALPHA" \in S

\* the maps a tick publishes from candidate lists L (legacy) and T (structured)
PubLegacy(L) == {[k |-> k, i |-> L[k].i, s |-> L[k].s] : k \in {x \in Keys : L[x].ex /\ L[x].s # Offline}}
PubStruct(T) == {[k |-> k, i |-> T[k].i, s |-> T[k].s] : k \in {x \in Keys : T[x].ex}}
AllLegacy(L) == {[k |-> k, i |-> L[k].i, s |-> L[k].s] : k \in {x \in Keys : L[x].ex}}

Rejecting == \E j \in 1..Len(subs) : subs[j] \in rej

(***************************************************************************)
(* Read API (transcribed getters)                                          *)
(***************************************************************************)
SlotMap(sl, id) == IF id \in SlotIdx /\ sl[id].ex THEN sl[id].m ELSE {}      \* getSnapshot: missing key => []

\* Snapshot(diff)
ApiSnapshot(cnt, cr, sl, d) ==
  IF d < 0 \/ cnt <= d THEN [ok |-> FALSE, m |-> {}]
  ELSE [ok |-> TRUE, m |-> SlotMap(sl, (cr - d + cnt) % cnt)]

WinLo(ep) == Max(0, ep - Window + 3)

Api(ep, th, L, T, cnt, cr, sl, P) ==
  [epoch      |-> ep,
   tickHeight |-> th,
   netmap     |-> [ok |-> TRUE, m |-> SlotMap(sl, cr)],
   cands      |-> AllLegacy(L),
   lcands     |-> PubStruct(T),
   snap       |-> [j \in 1..(Min(Max(cnt + 1, 1), MaxSlots - 1) + 1) |-> ApiSnapshot(cnt, cr, sl, j - 1)],
   snapE      |-> {[e |-> x, ok |-> ApiSnapshot(cnt, cr, sl, ep - x).ok, m |-> ApiSnapshot(cnt, cr, sl, ep - x).m] : x \in WinLo(ep)..(ep + 2)},
   nodes      |-> {[e |-> x, ok |-> TRUE, m |-> {[k |-> p.k, i |-> p.i, s |-> p.s] : p \in {q \in P : q.e = x}}] : x \in WinLo(ep)..(ep + 2)}]

ApiNext == Api(epoch', tickHeight', legacy', structured', count', cur', slot', v2')

(***************************************************************************)
(* Methods                                                                 *)
(***************************************************************************)
Fault(act, S, k, i, s, x, c, v, h) ==
  /\ UNCHANGED nmvars
  /\ height' = h
  /\ ev' = Event(act, S, k, i, s, x, c, v, h, "FAULT", NoNtf)

Halt(act, S, k, i, s, x, c, v, h, ntf) ==
  /\ height' = h
  /\ ev' = Event(act, S, k, i, s, x, c, v, h, "HALT", ntf)

\* AddPeerIR(nodeInfo): Alphabet; the key is nodeInfo[2:35] (a shorter blob faults)
AddPeerIR(S, k, i, h) ==
  IF HasAlpha(S) /\ k \in Keys
  THEN /\ legacy' = [legacy EXCEPT ![k] = Cand(i, Online)]
       /\ UNCHANGED <<epoch, tickHeight, structured, count, cur, slot, v2, subs, journal, rej, config>>
       /\ Halt("addPeerIR", S, k, i, 0, 0, Nil, Nil, h, <<Ntf("AddPeerSuccess", k, 0)>>)
  ELSE Fault("addPeerIR", S, k, i, 0, 0, Nil, Nil, h)

\* AddPeer(nodeInfo): key witness, then Alphabet
AddPeer(S, k, i, h) ==
  IF k \in Keys /\ k \in S /\ HasAlpha(S)
  THEN /\ legacy' = [legacy EXCEPT ![k] = Cand(i, Online)]
       /\ UNCHANGED <<epoch, tickHeight, structured, count, cur, slot, v2, subs, journal, rej, config>>
       /\ Halt("addPeer", S, k, i, 0, 0, Nil, Nil, h, <<Ntf("AddPeerSuccess", k, 0)>>)
  ELSE Fault("addPeer", S, k, i, 0, 0, Nil, Nil, h)

\* AddNode(n): state must be Online, key 33 bytes, key witness, Alphabet
AddNode(S, k, i, st, h) ==
  IF st = Online /\ k \in Keys /\ k \in S /\ HasAlpha(S)
  THEN /\ structured' = [structured EXCEPT ![k] = Cand(i, Online)]
       /\ UNCHANGED <<epoch, tickHeight, legacy, count, cur, slot, v2, subs, journal, rej, config>>
       /\ Halt("addNode", S, k, i, st, 0, Nil, Nil, h, <<Ntf("AddNode", k, i)>>)
  ELSE Fault("addNode", S, k, i, st, 0, Nil, Nil, h)

\* updateCandidateState(key, state): [ok, legacy, structured]
UpdCand(k, st) ==
  IF st = Offline
  THEN [ok |-> TRUE,                                        \* removeFromNetmap: deletes both keys, present or not
        legacy |-> IF k \in Keys THEN [legacy EXCEPT ![k] = NoCand] ELSE legacy,
        structured |-> IF k \in Keys THEN [structured EXCEPT ![k] = NoCand] ELSE structured]
  ELSE IF st \in {Online, Maint}
  THEN IF k \in Keys /\ (legacy[k].ex \/ structured[k].ex)       \* updateNetmapState: "peer is missing" otherwise
       THEN [ok |-> TRUE,
             legacy |-> IF legacy[k].ex THEN [legacy EXCEPT ![k].s = st] ELSE legacy,
             structured |-> IF structured[k].ex THEN [structured EXCEPT ![k].s = st] ELSE structured]
       ELSE [ok |-> FALSE, legacy |-> legacy, structured |-> structured]
  ELSE [ok |-> FALSE, legacy |-> legacy, structured |-> structured]     \* "unsupported state"

\* sa: the state argument as given by the caller (deleteNode has none)
UpdateWith(act, guard, S, k, st, sa, h) ==
  LET r == UpdCand(k, st)
  IN  IF guard /\ r.ok
      THEN /\ legacy' = r.legacy /\ structured' = r.structured
           /\ UNCHANGED <<epoch, tickHeight, count, cur, slot, v2, subs, journal, rej, config>>
           /\ Halt(act, S, k, 0, sa, 0, Nil, Nil, h, <<Ntf("UpdateStateSuccess", k, st)>>)
      ELSE Fault(act, S, k, 0, sa, 0, Nil, Nil, h)

\* UpdateState(state, key): 33-byte key, key witness, Alphabet
UpdateState(S, st, k, h)   == UpdateWith("updateState", k \in Keys /\ k \in S /\ HasAlpha(S), S, k, st, st, h)
\* UpdateStateIR(state, key): Alphabet only, NO length check of the key; but the platform refuses the
\* UpdateStateSuccess notification (declared parameter type PublicKey) for a key that is not 33 bytes long
UpdateStateIR(S, st, k, h) == UpdateWith("updateStateIR", HasAlpha(S) /\ k \in Keys, S, k, st, st, h)
\* DeleteNode(key): 33-byte key, Alphabet; behaves as an update to Offline
DeleteNode(S, k, h)        == UpdateWith("deleteNode", k \in Keys /\ HasAlpha(S), S, k, Offline, 0, h)

\* NewEpoch(epochNum) on candidate lists L, T (the stored ones for a plain tick).
\* filterNetmap, epoch/height, fillNetmap, ring advance `(id+1) % count` (count = 0: the VM
\* faults with a division by zero), put, dropNetmap(epoch-count), fan-out, notification.
TickOn(act, guard, S, k, i, e, h, L, T, pre) ==
  IF guard /\ HasAlpha(S) /\ e > epoch /\ count > 0 /\ ~Rejecting
  THEN LET id   == (cur + 1) % count
           fill == {[e |-> e, k |-> n.k, i |-> n.i, s |-> n.s] : n \in PubStruct(T)}
           kept == {p \in v2 : ~(p.e = e /\ p.k \in Keys /\ T[p.k].ex)}   \* fillNetmap overwrites entries of the same epoch and key
       IN  /\ epoch' = e
           /\ tickHeight' = h - 1                \* ledger.CurrentIndex() inside a transaction of block h
           /\ legacy' = L /\ structured' = T
           /\ cur' = id
           /\ slot' = [slot EXCEPT ![id] = [ex |-> TRUE, m |-> PubLegacy(L)]]
           /\ v2' = {p \in kept \cup fill : ~(e > count /\ p.e = e - count)}
           /\ journal' = journal \o [j \in 1..Len(SelectSeq(subs, LAMBDA s : s \in Probes)) |->
                                        [s |-> SelectSeq(subs, LAMBDA s : s \in Probes)[j], e |-> e]]
           /\ UNCHANGED <<count, subs, rej, config>>
           /\ Halt(act, S, k, i, 0, e, Nil, Nil, h, pre \o <<Ntf("NewEpoch", Nil, e)>>)
  ELSE Fault(act, S, k, i, 0, e, Nil, Nil, h)

NewEpoch(S, e, h) == TickOn("newEpoch", TRUE, S, Nil, 0, e, h, legacy, structured, NoNtf)

\* one transaction calling addPeerIR(k,i); addNode(k,i,Online); newEpoch(e) - used by the history
\* sweeps of C08 so that every epoch publishes a distinct map with one transaction per epoch
TickB(S, k, i, e, h) ==
  TickOn("tickB", k \in Keys /\ k \in S, S, k, i, e, h,
         IF k \in Keys THEN [legacy EXCEPT ![k] = Cand(i, Online)] ELSE legacy,
         IF k \in Keys THEN [structured EXCEPT ![k] = Cand(i, Online)] ELSE structured,
         <<Ntf("AddPeerSuccess", k, 0), Ntf("AddNode", k, i)>>)

\* ---- UpdateSnapshotCount(count): the ring arithmetic, literally ----
\* <<from, to>> pairs in the order the loops execute moveSnapshot
Moves(c) ==
  IF count < c
  THEN LET diff == c - count                                         \* for k := c-1; k >= diff+cur+1; k--
       IN  [j \in 1..Max(0, count - cur - 1) |-> <<(c - j) - diff, c - j>>]
  ELSE LET step  == IF cur < c THEN count - c ELSE cur - c + 1       \* K2 / K1
           start == IF cur < c THEN cur + 1 ELSE 0
       IN  [j \in 1..Max(0, c - start) |-> <<start + j - 1 + step, start + j - 1>>]
Dels(c) ==
  IF count < c THEN (cur + 1) .. (Min(cur + 1 + (c - count), count) - 1)
  ELSE c .. (count - 1)

\* moveSnapshot: Put(to, Get(from)); a missing source makes Put(nil) fault the whole call
RECURSIVE ApplyMoves(_, _, _)
ApplyMoves(sl, ms, j) ==
  IF j > Len(ms) THEN [ok |-> TRUE, slot |-> sl]
  ELSE IF ms[j][1] \notin SlotIdx \/ ms[j][2] \notin SlotIdx \/ ~sl[ms[j][1]].ex THEN [ok |-> FALSE, slot |-> sl]
  ELSE ApplyMoves([sl EXCEPT ![ms[j][2]] = sl[ms[j][1]]], ms, j + 1)

\* D: deviations of the code in force.  "ZeroCount": count 0 is accepted (`count < 0` is the only
\* bound); "SnapshotLeak": the per-epoch lists are dropped for k < epoch-count only, so the list
\* of epoch-count survives (the repaired bound is k <= epoch-count).
UpdateSnapshotCountD(D, S, c, h) ==
  LET r    == ApplyMoves(slot, Moves(c), 1)
      hi   == IF "SnapshotLeak" \in D THEN epoch - c - 1 ELSE epoch - c
      drop == (epoch - count + 1) .. hi        \* (negative k alias epochs beyond the current one: nothing stored there)
  IN  IF HasAlpha(S) /\ (IF "ZeroCount" \in D THEN c >= 0 ELSE c >= 1) /\ c # count /\ c <= MaxSlots /\ r.ok
      THEN /\ count' = c
           /\ slot' = [x \in SlotIdx |-> IF x \in Dels(c) THEN NoSlot ELSE r.slot[x]]
           /\ cur' = IF c < count /\ cur >= c THEN c - 1 ELSE cur
           /\ v2' = {p \in v2 : p.e \notin drop}
           /\ UNCHANGED <<epoch, tickHeight, legacy, structured, subs, journal, rej, config>>
           /\ Halt("updateSnapshotCount", S, Nil, 0, 0, c, Nil, Nil, h, NoNtf)
      ELSE Fault("updateSnapshotCount", S, Nil, 0, 0, c, Nil, Nil, h)

UpdateSnapshotCount(S, c, h) == UpdateSnapshotCountD(Dev, S, c, h)

\* SubscribeForNewEpoch(contract): Alphabet, HasMethod(newEpoch/1), dedup, next index
Subscribe(S, c, h) ==
  IF HasAlpha(S) /\ c \in Probes \cup OtherSubs
  THEN IF c \in Range(subs)
       THEN /\ UNCHANGED nmvars
            /\ Halt("subscribe", S, Nil, 0, 0, 0, c, Nil, h, NoNtf)
       ELSE /\ subs' = Append(subs, c)
            /\ UNCHANGED <<epoch, tickHeight, legacy, structured, count, cur, slot, v2, journal, rej, config>>
            /\ Halt("subscribe", S, Nil, 0, 0, 0, c, Nil, h, <<Ntf("NewEpochSubscription", c, 0)>>)
  ELSE Fault("subscribe", S, Nil, 0, 0, 0, c, Nil, h)

\* harness: a probe subscriber is told to reject / accept the following newEpoch calls
SetReject(c, v, h) ==
  /\ rej' = IF v = "on" THEN rej \cup {c} ELSE rej \ {c}
  /\ UNCHANGED <<epoch, tickHeight, legacy, structured, count, cur, slot, v2, subs, journal, config>>
  /\ Halt("setReject", {}, Nil, 0, 0, 0, c, v, h, NoNtf)

\* SetConfig(id, key, val): Alphabet
SetConfig(S, c, v, h) ==
  IF HasAlpha(S)
  THEN /\ config' = [config EXCEPT ![c] = v]
       /\ UNCHANGED <<epoch, tickHeight, legacy, structured, count, cur, slot, v2, subs, journal, rej>>
       /\ Halt("setConfig", S, Nil, 0, 0, 0, c, v, h, NoNtf)
  ELSE Fault("setConfig", S, Nil, 0, 0, 0, c, v, h)

\* _deploy: count 10, ten empty maps, current index 0, epoch 0
DefaultCount == 10
InitSlot == [x \in SlotIdx |-> IF x < DefaultCount THEN [ex |-> TRUE, m |-> {}] ELSE NoSlot]

Init ==
  /\ epoch = 0 /\ tickHeight = 0 /\ height = 0
  /\ legacy = [k \in Keys |-> NoCand] /\ structured = [k \in Keys |-> NoCand]
  /\ count = DefaultCount /\ cur = 0 /\ slot = InitSlot /\ v2 = {}
  /\ subs = <<>> /\ journal = <<>> /\ rej = {}
  /\ config = [c \in CfgKeys |-> Nil]
  /\ ev = Event("init", {}, Nil, 0, 0, 0, Nil, Nil, 0, "HALT", NoNtf)

\* Next is parameterised by the way argument sets are explored: P(X) = X for exhaustive
\* checking, P(X) = {RandomElement(X)} for scenario generation by simulation.
AnyKey  == Keys \cup BadKeys
BlobKey == Keys \cup (BadKeys \ {"b34"})     \* a blob carrying 34 key bytes is a well-formed blob with another key

CandNext(P(_), PS(_), h) ==
  \/ \E S \in PS(SignerSets), k \in P(BlobKey), i \in P(Infos) : AddPeer(S, k, i, h)
  \/ \E S \in PS(SignerSets), k \in P(BlobKey), i \in P(Infos) : AddPeerIR(S, k, i, h)
  \/ \E S \in PS(SignerSets), k \in P(AnyKey), i \in P(Infos), st \in P(AddStates) : AddNode(S, k, i, st, h)
  \/ \E S \in PS(SignerSets), k \in P(AnyKey), st \in P(StateArgs) : UpdateState(S, st, k, h)
  \/ \E S \in PS(SignerSets), k \in P(AnyKey), st \in P(StateArgs) : UpdateStateIR(S, st, k, h)
  \/ \E S \in PS(SignerSets), k \in P(AnyKey) : DeleteNode(S, k, h)

TickNext(P(_), PS(_), h) ==
  \/ \E S \in PS(SignerSets), d \in P(EpochOffs) : NewEpoch(S, epoch + d, h)
  \/ \E S \in PS(SignerSets), c \in P(Probes \cup OtherSubs \cup NoSubs) : Subscribe(S, c, h)
  \/ \E c \in P(Probes), v \in P({"on", "off"}) : SetReject(c, v, h)

RingNext(P(_), PS(_), h) ==
  \/ \E S \in PS(SignerSets), c \in P(CountArgs) : UpdateSnapshotCount(S, c, h)

CfgNext(P(_), PS(_), h) ==
  \/ \E S \in PS(SignerSets), c \in P(CfgKeys), v \in P(CfgVals) : SetConfig(S, c, v, h)

NextOf(P(_), PS(_)) ==
  \E b \in P(Blks) : LET h == height + 1 - b IN
     CandNext(P, PS, h) \/ TickNext(P, PS, h) \/ RingNext(P, PS, h) \/ CfgNext(P, PS, h)

All(X) == X
Next == NextOf(All, All)
Spec == Init /\ [][Next]_vars

-----------------------------------------------------------------------------
(***************************************************************************)
(* Properties, as predicates over one step.  e is the invocation (ev'),    *)
(* A the read API after the step (ApiNext on the Spec, observed on the     *)
(* real contract).                                                         *)
(***************************************************************************)
IsTickAct(e) == e.act \in {"newEpoch", "tickB"}
IsTick(e)    == IsTickAct(e) /\ e.res = "HALT"
Bump(e, L)   == IF e.act = "tickB" /\ e.k \in Keys THEN [L EXCEPT ![e.k] = Cand(e.i, Online)] ELSE L
NtfNamed(e, n) == SelectSeq(e.ntf, LAMBDA x : x.n = n)
ProbeSubs    == SelectSeq(subs, LAMBDA s : s \in Probes)

\* --- C06 ---  (quantifier: candidate changes, subscriptions and ticks; judged by the monitor
\*               on traces without snapshot-count changes)
C06_Outcome(e) ==
  IsTickAct(e) =>
     /\ e.res = "HALT" => HasAlpha(e.S) /\ e.x > epoch /\ ~Rejecting
     /\ HasAlpha(e.S) /\ e.x > epoch /\ ~Rejecting /\ (e.act = "tickB" => e.k \in Keys /\ e.k \in e.S) => e.res = "HALT"
C06_Monotone(e) ==
  /\ epoch' >= epoch
  /\ epoch' # epoch => IsTick(e) /\ epoch' = e.x
C06_FailInert(e) ==
  IsTickAct(e) /\ e.res = "FAULT" => UNCHANGED nmvars /\ e.ntf = NoNtf
C06_Publish(e, A) ==
  IsTick(e) =>
     /\ epoch' = e.x /\ A.epoch = e.x
     /\ tickHeight' \in {e.h - 1, e.h} /\ A.tickHeight = tickHeight'          \* "records the tick height"
     /\ A.netmap = [ok |-> TRUE, m |-> PubLegacy(Bump(e, legacy))]             \* legacy: all non-offline candidates
     /\ \E x \in A.nodes : x.e = e.x /\ x.ok /\ x.m = PubStruct(Bump(e, structured))   \* structured list for epoch e
     /\ legacy' = Bump(e, legacy) /\ structured' = Bump(e, structured)        \* the candidate set itself is unchanged
     /\ A.cands = AllLegacy(Bump(e, legacy)) /\ A.lcands = PubStruct(Bump(e, structured))
C06_Fanout(e) ==
  /\ IsTick(e)  => journal' = journal \o [j \in 1..Len(ProbeSubs) |-> [s |-> ProbeSubs[j], e |-> e.x]]
  /\ ~IsTick(e) => journal' = journal
C06_Announced(e) ==
  /\ IsTick(e)  => Len(NtfNamed(e, "NewEpoch")) = 1 /\ NtfNamed(e, "NewEpoch")[1].x = e.x
  /\ ~IsTick(e) => NtfNamed(e, "NewEpoch") = <<>>
C06_Subscribe(e) ==
  /\ e.act = "subscribe" /\ e.res = "HALT" => subs' = IF e.c \in Range(subs) THEN subs ELSE Append(subs, e.c)
  /\ ~(e.act = "subscribe" /\ e.res = "HALT") => subs' = subs
  /\ e.act = "subscribe" /\ (e.res = "FAULT" \/ e.c \in Range(subs)) =>
        UNCHANGED <<epoch, tickHeight, legacy, structured, count, cur, slot, v2, subs, journal, config>>

\* --- C07 ---
IsAdd(e)    == e.act \in {"addPeer", "addPeerIR"}
IsUpd(e)    == e.act \in {"updateState", "updateStateIR"}
NodeInit(e) == e.act \in {"addPeer", "addNode", "updateState"}
Known(k)    == k \in Keys /\ (legacy[k].ex \/ structured[k].ex)
Drop(L, k)  == IF k \in Keys THEN [L EXCEPT ![k] = NoCand] ELSE L
SetSt(L, k, st) == IF k \in Keys /\ L[k].ex THEN [L EXCEPT ![k].s = st] ELSE L

C07_Machine(e) ==
  LET ok == e.res = "HALT" IN
  /\ IsAdd(e) /\ ok => e.k \in Keys /\ legacy' = [legacy EXCEPT ![e.k] = Cand(e.i, Online)] /\ structured' = structured
  /\ e.act = "addNode" /\ ok => e.k \in Keys /\ e.s = Online
                                /\ structured' = [structured EXCEPT ![e.k] = Cand(e.i, Online)] /\ legacy' = legacy
  /\ IsUpd(e) /\ ok /\ e.s \in {Online, Maint} =>
        Known(e.k) /\ legacy' = SetSt(legacy, e.k, e.s) /\ structured' = SetSt(structured, e.k, e.s)
  /\ ((IsUpd(e) /\ e.s = Offline) \/ e.act = "deleteNode") /\ ok =>
        legacy' = Drop(legacy, e.k) /\ structured' = Drop(structured, e.k)
  /\ (IsAdd(e) \/ IsUpd(e) \/ e.act \in {"addNode", "deleteNode"}) /\ ~ok => legacy' = legacy /\ structured' = structured
  /\ IsTickAct(e) => legacy' = (IF ok THEN Bump(e, legacy) ELSE legacy) /\ structured' = (IF ok THEN Bump(e, structured) ELSE structured)
  /\ e.act \in {"updateSnapshotCount", "subscribe", "setReject", "setConfig"} => legacy' = legacy /\ structured' = structured
\* updating an unknown candidate or using an unknown state fails without effect
C07_Rejects(e) ==
  IsUpd(e) /\ (e.s \notin {Online, Offline, Maint} \/ (e.s \in {Online, Maint} /\ ~Known(e.k))) =>
     e.res = "FAULT" /\ legacy' = legacy /\ structured' = structured
\* requests made by a node itself take effect only with both the node's own witness and the Alphabet's
C07_Witness(e) ==
  NodeInit(e) /\ ~(e.k \in e.S /\ HasAlpha(e.S)) => legacy' = legacy /\ structured' = structured
C07_Api(A) ==
  A.cands = AllLegacy(legacy') /\ A.lcands = PubStruct(structured')
C07_Announced(e) ==
  LET ok == e.res = "HALT" IN
  /\ IsAdd(e) /\ ok => e.ntf = <<Ntf("AddPeerSuccess", e.k, 0)>>
  /\ e.act = "addNode" /\ ok => e.ntf = <<Ntf("AddNode", e.k, e.i)>>
  /\ (IsUpd(e) \/ e.act = "deleteNode") /\ ok /\ Known(e.k) =>
        e.ntf = <<Ntf("UpdateStateSuccess", e.k, IF e.act = "deleteNode" THEN Offline ELSE e.s)>>
  /\ ~ok => e.ntf = NoNtf

\* --- C08 ---  (ghosts kept by whoever evaluates the predicates: pub[x] = the maps published at
\*               epoch x, rt = number of most recent epochs that must be retrievable;
\*               quantifier: epochs advance by one per tick; the first tick of a history may name any epoch -
\*               the numbering starts there, see InScopeTick)
Retained(ep, rt) == (ep - rt + 1) .. ep
EmptyOrErr(x) == ~x.ok \/ x.m = {}

C08_Recent(A, ep, pub, rt) ==
  /\ \A d \in 0..(rt - 1) : d + 1 <= Len(A.snap) /\ A.snap[d + 1] = [ok |-> TRUE, m |-> pub[ep - d].leg]
  /\ \A x \in A.snapE : x.e \in Retained(ep, rt) => x.ok /\ x.m = pub[x.e].leg
  /\ \A x \in A.nodes : x.e \in Retained(ep, rt) => x.ok /\ x.m = pub[x.e].str
  /\ rt >= 1 => A.netmap = [ok |-> TRUE, m |-> pub[ep].leg]
C08_Older(A, ep, rt) ==
  /\ \A d \in rt..(Len(A.snap) - 1) : EmptyOrErr(A.snap[d + 1])
  /\ \A x \in A.snapE : x.e \notin Retained(ep, rt) => EmptyOrErr(x)
  /\ \A x \in A.nodes : x.e \notin Retained(ep, rt) => EmptyOrErr(x)
  /\ rt = 0 => EmptyOrErr(A.netmap)
\* no per-epoch list of an older (or future) epoch stays in the storage
C08_NoLeak(P, ep, rt) == \A p \in P : p.e \in Retained(ep, rt)
\* any accepted count leaves the contract able to tick again
C08_Resizable(e) ==
  IsTickAct(e) /\ HasAlpha(e.S) /\ e.x = epoch + 1 /\ ~Rejecting /\ (e.act = "tickB" => e.k \in Keys /\ e.k \in e.S) => e.res = "HALT"
\* a refused count changes nothing
C08_RefusedInert(e) ==
  e.act = "updateSnapshotCount" /\ e.res = "FAULT" => UNCHANGED <<epoch, count, cur, slot, v2>>

\* ghost updates.  pub is a function from epochs to the maps published there (the last PubKeep epochs are kept).
\* C08 scope: epochs advance by one per tick; the FIRST tick of a history may name any epoch (the numbering of
\* the history starts there: nothing was published before, so every clause of the property reads the same).
PubKeep == 24
PubOf(L, T) == [leg |-> PubLegacy(L), str |-> PubStruct(T)]
InScopeTick(pub, e) == e.x = epoch + 1 \/ DOMAIN pub = {}
PubNext(pub, e)  == IF IsTick(e) /\ InScopeTick(pub, e)
                    THEN [x \in {y \in DOMAIN pub : y > e.x - PubKeep} \cup {e.x} |->
                             IF x = e.x THEN PubOf(legacy', structured') ELSE pub[x]]
                    ELSE pub
RtNext(rt, e)    == IF IsTick(e) THEN Min(rt + 1, count)
                    ELSE IF e.act = "updateSnapshotCount" /\ e.res = "HALT" THEN Min(rt, e.x) ELSE rt
StepOk(ok, pub, e) == ok /\ ~(IsTick(e) /\ ~InScopeTick(pub, e))
NoResize(ok, e)  == ok /\ ~(e.act = "updateSnapshotCount" /\ e.res = "HALT")   \* C06 scope

=============================================================================
