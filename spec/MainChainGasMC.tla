---------------------------- MODULE MainChainGasMC ----------------------------
(* Model-checking wrapper of MainChainGas: tiny-base constants (B = 10, so that *)
(* every carry/borrow of the limb arithmetic happens with small numbers), the   *)
(* validation of the limb operators against TLC's integers, property C19 as     *)
(* action formulas, and the scenario emitter for `tlc -simulate` (B = 10^6).    *)
EXTENDS MainChainGas, Json

VARIABLES hist, nstep, rd
mcvars == <<notary, dep, gas, neo, wfee, cfee, cands, irN, ballots, cur, ev, hist, nstep, rd>>

CONSTANTS Notary, MaxSteps, SimLen, NStored, MC_NC, MC_Idx, MC_Fund      \* MC_Fund: GAS held by NeoFS at the start

FromL(a) == a[1] + B * a[2] + B * B * a[3]

\* ---- exhaustive configurations (B = 10, 1 GAS = 2 units, at most 3 whole GAS = 6 units per deposit) ----
Q_Unit    == L(2)
Q_Users   == {"u1"}
Q_Cands   == {"c1"}
Q_KeyU    == {"k1", "k2"}
Q_KeySeq  == <<"k1", "k2">>
Q_FeeIds  == {"j1"}
Q_AlphaIds == {"a1"}
Q_Gaps1   == {1}
Q_GapsV   == {1, 21}
\* without Notary: the vote-collected methods interleaved (cheque, fee decision, list confirmation, candidate removal)
V_Amounts == {L(1), L(6)}
V_Wholes  == {3}
V_SignerSets == {{"k1"}, {"k2"}, {"u1"}, {"c1"}}
V_Acts    == {"cheque", "candRemove", "setFee", "alphaSame"}
Q_IRSeq   == <<"r1", "r2", "r3">>
Q_Amounts == {L(0), L(1), L(6), L(7)}
Q_Wholes  == {-1, 0, 3, 4}
Q_Mints   == {L(0), L(3)}
Q_Ids     == {"i1"}
Q_SignerSets == {{}, {"u1"}, {"ALPHA"}, {"CMT"}, {"STORED"}, {"c1"}}
Q_ActsFS  == {"deposit", "withdraw", "cheque", "candAdd", "candRemove", "setFee"}
T_ActsFS  == Q_ActsFS \cup {"bind"}
Q_ActsEm  == {"emit", "designate", "pay"}
Q_SignerSetsEm == {{}, {"m0"}, {"m1"}, {"CMT"}}
Q_AmountsEm == {L(7), L(53)}
T_AmountsEm == {L(1), L(7), L(53)}
Q_WholesEm == {0, 2}

\* ---- simulation (B = 10^6) ----
G(whole, frac) == <<frac % B, (whole * 100 + frac \div B) % B, (whole * 100 + frac \div B) \div B>>   \* whole GAS + frac units
S_Unit    == <<0, 100, 0>>
S_Users   == {"u1", "u2"}
S_Cands   == {"c1", "c2"}
S_KeyU    == {"k1", "k2", "k3", "k4"}
S_KeySeq  == <<"k1", "k2", "k3", "k4">>
S_FeeIds  == {"j1"}
S_AlphaIds == {"a1"}
S_Gaps    == {1, 2, 20, 21}
S_IRSeq   == <<"r1", "r2", "r3", "r4", "r5", "r6", "r7">>
S_Amounts == {Z, L(1), L(2), L(12345), G(1, 0), G(500, 0), G(8999, 99999999), G(9000, 0), G(9000, 1), G(9001, 0), G(20000, 0)}
S_Wholes  == {-1, 0, 1, 100, 8999, 9000, 9001}
S_Mints   == {Z}
S_Ids     == {"i1", "i2"}
S_SignerSets == {{}, {"u1"}, {"u2"}, {"ALPHA"}, {"CMT"}, {"STORED"}, {"STOREDMAJ"}, {"c1"}, {"c2"}, {"m0"}, {"m1"}, {"m2"}, {"X"}}
S_Acts    == {"deposit", "withdraw", "cheque", "candAdd", "candRemove", "setFee", "alphaSame", "designate", "emit", "pay", "bind"}

InitWith(nt, sk, nc, ix, ug, cg, un, wf, cf) ==
  /\ notary = nt /\ dep = [skeys |-> sk, nc |-> nc, aidx |-> ix]
  /\ gas = [a \in Acct |-> IF a \in Users THEN ug ELSE IF a \in Cands THEN cg ELSE IF a = "neofs" THEN L(MC_Fund) ELSE Z]
  /\ neo = [a \in NeoAcct |-> IF a \in Users THEN un ELSE 0]
  /\ wfee = wf /\ cfee = cf /\ cands = {} /\ irN = 0 /\ ballots = <<>> /\ cur = 0
  /\ ev = InvG("init", {}, Nil, Nil, Z, 0, Nil, Nil, 0, NoMint)

KeysN(n) == {k \in KeyU : \E i \in 1..n : k = "k" \o ToString(i)}

MCInit == /\ InitWith(Notary, KeysN(NStored), MC_NC, MC_Idx, L(20), L(5), 3, L(1), L(2)) /\ hist = <<>> /\ nstep = 0 /\ rd = RdInit
Fix(X) == IF X = {} THEN {} ELSE {CHOOSE x \in X : TRUE}
Next == NextOf(LAMBDA X : X, LAMBDA X : X, LAMBDA S, h : S, Fix)
MCNext == Next /\ hist' = <<>> /\ nstep' = nstep + 1 /\ rd' = RdNext(rd, ev')
MCSpec == MCInit /\ [][MCNext]_mcvars

One(X) == IF X = {} THEN {} ELSE {RandomElement(X)}
S_Bias == <<{"ALPHA"}, {"ALPHA"}, {"u1"}, {"u2"}, {"u1"}, {"u2"}, {"c1"}, {"c2"}, {"m0"}, {"m1"}, {"CMT"}, {"CMT"}>>
OneS(X) == IF RandomElement(1..4) = 1 THEN One(X) ELSE {S_Bias[RandomElement(1..Len(S_Bias))]}
SimInit == /\ \E nt \in BOOLEAN, ns \in 1..4, nc \in {1, 3, 4}, ix \in 0..1 :
                InitWith(nt, KeysN(ns), nc, ix, G(100000, 0), G(100, 0), 1000, G(0, 1000000), G(1, 0))
           /\ hist = <<>> /\ nstep = 0 /\ rd = RdInit
SimNext == NextOf(One, One, LAMBDA S, h : IF RandomElement(1..6) = 1 THEN S ELSE h, One) /\ nstep' = nstep + 1 /\ rd' = RdNext(rd, ev')
           /\ hist' = Append(hist, [ev' EXCEPT !.ntf = <<>>, !.mint = <<>>])
SimSpec == SimInit /\ [][SimNext]_mcvars

Bounded == nstep <= MaxSteps
\* block heights are viewed relative to cur, capped above the window
Age(h) == IF cur - h > Window THEN Window + 1 ELSE cur - h
MCView == <<notary, dep, gas, neo, wfee, cfee, cands, irN, [i \in 1..Len(ballots) |-> [ballots[i] EXCEPT !.h = Age(@)]],
            [i \in AllIds |-> IF rd[i].vs = {} THEN RdEmpty ELSE [rd[i] EXCEPT !.last = Age(@)]], nstep>>

EmitScenario ==
  IF Len(hist) = SimLen
  THEN PrintT("SCEN " \o ToJson([notary |-> notary, ns |-> Cardinality(dep.skeys), nc |-> dep.nc, idx |-> dep.aidx, steps |-> hist]))
  ELSE TRUE

P_C19 == [][/\ C19_Deposit(ev') /\ C19_WithdrawFee(ev') /\ C19_ChequePays(rd, ev') /\ C19_ChequeAccepted(ev') /\ C19_FeeApproved(rd, ev') /\ C19_CandidateFee(ev')
            /\ C19_Conservation(ev') /\ C19_EmitOnlyOwnNode(ev') /\ C19_EmitSplit(ev') /\ C19_OnlyGAS(ev')
            /\ C19_NoOtherMoves(ev')]_mcvars

\* no GAS is created or lost except what the native contract mints
Total(F) == LET RECURSIVE T(_)
                T(D) == IF D = {} THEN 0 ELSE LET a == CHOOSE x \in D : TRUE IN FromL(F[a]) + T(D \ {a})
            IN  T(Acct)
P_NoGasLost == [][Total(gas') = Total(gas) + (IF ev'.res = "HALT" /\ ev'.ret # "false" THEN Total(ev'.mint) ELSE 0)]_mcvars

\* the stored ballots and the abstract rounds agree (refinement witness for the vote-collected cheque)
Inv_Refines ==
  \A id \in AllIds :
     LET LB == Live(ballots, cur)  i == IdxOf(LB, id)
     IN  IF rd[id].vs = {} \/ cur - rd[id].last > Window THEN i = 0
         ELSE i # 0 /\ Ran(LB[i].voters) = rd[id].vs /\ LB[i].h = rd[id].last
Inv_OneBallotPerId == \A i, j \in 1..Len(ballots) : ballots[i].id = ballots[j].id => i = j

TypeOK == \A a \in Acct : /\ gas[a][1] \in 0..(B - 1) /\ gas[a][2] \in 0..(B - 1) /\ gas[a][3] >= 0

\* the limb operators agree with integer arithmetic (evaluated once, only meaningful for small B)
LimbsOK ==
  B > 10 \/
  /\ \A x \in 0..999 : FromL(L(x)) = x
  /\ \A x \in 0..130, y \in 0..130 : /\ FromL(Add(L(x), L(y))) = x + y
                                     /\ Leq(L(x), L(y)) = (x <= y)
                                     /\ x >= y => FromL(Sub(L(x), L(y))) = x - y
  /\ \A x \in 0..999, d \in 1..56 : FromL(DivS(L(x), d)) = x \div d
  /\ \A x \in 0..17, k \in 0..56 : FromL(MulS(L(x), k)) = x * k
  /\ \A x \in 0..999 : FromL(DivS(DivS(MulS(L(x \div 7), 7), 8), 3)) = (((x \div 7) * 7) \div 8) \div 3
ASSUME LimbsOK
=============================================================================
