-------------------------- MODULE DeployHelpersMC --------------------------
(***************************************************************************)
(* S1 for the pure helpers: TLC enumerates all small instances, checks     *)
(* that the transcribed operators satisfy the C13 helper predicates, and   *)
(* prints every instance as a scenario line for the Go driver, which then  *)
(* evaluates the REAL functions on the same table (plus random 64/32-bit   *)
(* values); DeployTrace re-evaluates operators and predicates on what the  *)
(* real functions returned.                                                *)
(***************************************************************************)
EXTENDS DeployHelpers

CONSTANTS MaxAmount, MaxN, MaxHeight, Emit

VARIABLE c
hvars == <<c>>

\* heights: every small one, the carries of the limb representation, the end of the uint32 range
EdgeHeights ==
  {<<1, k>> : k \in {0, 99, 100, 9899, 9900, 9999}} \cup
  {<<2, 9999, k>> : k \in {0, 99, 9900, 9999}} \cup
  {<<42, 9496, k>> : k \in 6000..7295} \cup
  {<<42, 9495, k>> : k \in 9890..9999}

Bytes == {0, 1, 255}
SmallU32 == {BigOfNat(k) : k \in {0, 1, 255, 256, 65535, 65536, 16777215, 16777216}} \cup {MaxU32, <<42, 9496, 7040>>}
SenderLen == 2
Sums == {<<a, b, 7, 9>> : a, b \in {0, 255}}
Datas == {<<>>} \cup {<<a>> : a \in Bytes} \cup {<<a, b>> : a, b \in Bytes} \cup {<<0, 255, 7, 9>>, <<255, 255, 7, 9, 1>>}

Cases ==
  [k : {"divide"}, amount : 0..MaxAmount, n : 1..MaxN] \cup
  [k : {"window"}, h : {BigOfNat(x) : x \in 0..MaxHeight} \cup EdgeHeights] \cup
  [k : {"codec"}, sender : [1..SenderLen -> {0, 255}], vub : SmallU32, nonce : SmallU32] \cup
  [k : {"cksum"}, sum : Sums, data : Datas]

Init == c \in Cases
Next == UNCHANGED c
Spec == Init /\ [][Next]_hvars

HelpersOK ==
  CASE c.k = "divide" ->
         LET a == BigOfNat(c.amount)  r == Divide(a, c.n)
         IN  DivSum(a, c.n, r) /\ DivEven(a, c.n, r) /\ DivDense(a, c.n, r)
    [] c.k = "window" ->
         LET r == Window(c.h) IN WinAligned(c.h, r) /\ WinValid(c.h, r)
    [] c.k = "codec" ->
         LET d == [sender |-> c.sender, vub |-> c.vub, nonce |-> c.nonce]
             b == Bytes28(d)
         IN  /\ Len(b) = SenderLen + 8
             /\ CodecRoundTrip(d, Decode28(b, SenderLen))
             /\ ~Decode28(Tail(b), SenderLen).ok /\ ~Decode28(b \o <<0>>, SenderLen).ok
    [] c.k = "cksum" ->
         /\ CkRoundTrip(c.data, Shift(c.sum, Unshift(c.sum, c.data)))
         /\ CkReject(c.sum, c.data, Shift(c.sum, c.data))
         /\ \A s \in Sums : s # c.sum => ~Shift(s, Unshift(c.sum, c.data)).ok

\* scenario table for the driver (only the instances whose arguments fit JSON numbers)
EmitCase ==
  IF ~Emit THEN TRUE
  ELSE CASE c.k = "divide" -> PrintT("SCEN {\"act\":\"divide\",\"amount\":" \o ToString(c.amount) \o ",\"n\":" \o ToString(c.n) \o "}")
         [] c.k = "window" /\ Len(c.h) = 1 -> PrintT("SCEN {\"act\":\"window\",\"h\":" \o ToString(c.h[1]) \o "}")
         [] OTHER -> TRUE
=============================================================================
