---------------------------- MODULE MainChainVote ----------------------------
(***************************************************************************)
(* Implementation-shaped specification of the vote-collected methods of    *)
(* contracts/neofs/contract.go running WITHOUT notary (notaryDisabled =    *)
(* true): cheque, alphabetUpdate, setConfig, innerRingCandidateRemove, on  *)
(* top of a literal transcription of common/vote.go (Vote, RemoveVotes)    *)
(* and common/ir.go (InnerRingInvoker).                                    *)
(*                                                                         *)
(* State = raw storage of the contract plus the GAS it pays out:           *)
(*   alpha    value under "alphabet": the stored list of Alphabet keys     *)
(*   ballots  value under "ballots": Seq([id, voters, h]) in list order    *)
(*   config   values under "config"||key ("nil" = no entry)                *)
(*   cands    keys stored under "candidates"||key                          *)
(*   gasC     native GAS of the contract; gasP[p] native GAS of payee p    *)
(*   cur      ledger.CurrentIndex() as seen by the last transaction        *)
(*            (= index of its block - 1); a step with gap g runs in a      *)
(*            block whose CurrentIndex is cur+g (g = 0: same block as the  *)
(*            previous transaction)                                        *)
(* ev is the last invocation with outcome and notifications (the record    *)
(* format shared with the Go recorder harness/mainchain).                  *)
(*                                                                         *)
(* Every method is written as a function from the current state to a       *)
(* result record R (so that the trace monitor can also use it to predict   *)
(* the one unobservable item of a mid-block state, the ballots), guards in *)
(* the order of the code; a FAULT leaves everything unchanged.             *)
(*                                                                         *)
(* Property C17 is written at the end as an abstract round machine per     *)
(* decision id (ghost value rd) and predicates over one step.              *)
(***************************************************************************)
EXTENDS Integers, Sequences, FiniteSets, TLC, MainChainBallot      \* MainChainBallot: common/vote.go

CONSTANTS
  InitAlpha,   \* the stored Alphabet list at deployment (sequence of key names)
  Strangers,   \* accounts that are not Alphabet keys
  Ids,         \* decision ids offered to cheque / alphabetUpdate / setConfig
  Cands,       \* Inner Ring candidate keys
  CfgKeys,     \* configuration keys ("empty" = the zero-length key)
  CfgVals,
  Lists,       \* argument lists offered to alphabetUpdate (sequences of key names, "bad" = 32-byte key)
  Payees, Amounts,
  Gaps,        \* block distances between consecutive invocations (0 = same block)
  SignerSets,  \* signer sets explored
  InitGas      \* GAS held by the contract at the start

Nil    == "nil"
BadKey == "bad"
DelId(c) == "del:" \o c            \* sha256(key || "delete")
AllIds   == Ids \cup {DelId(c) : c \in Cands}

VARIABLES alpha, ballots, config, cands, gasC, gasP, cur, ev
vars == <<alpha, ballots, config, cands, gasC, gasP, cur, ev>>

NoNtf == <<>>
Ntf(n, id, a, b, amt, lst) == [n |-> n, id |-> id, a |-> a, b |-> b, amt |-> amt, lst |-> lst]

Event(act, S, id, key, val, lst, cand, payee, amt, gap, res, ntf) ==
  [act |-> act, S |-> S, id |-> id, key |-> key, val |-> val, lst |-> lst, cand |-> cand,
   payee |-> payee, amt |-> amt, gap |-> gap, res |-> res, ntf |-> ntf]

(***************************************************************************)
(* common/ir.go InnerRingInvoker: the first stored key (list order) whose  *)
(* witness the transaction carries, or nil                                 *)
(***************************************************************************)
Invoker(S) == InvokerOf(alpha, S, Nil)

(***************************************************************************)
(* Result records                                                          *)
(***************************************************************************)
Keep == [res |-> "HALT", alpha |-> alpha, ballots |-> ballots, config |-> config, cands |-> cands,
         gasC |-> gasC, gasP |-> gasP, ntf |-> NoNtf]
FaultR == [Keep EXCEPT !.res = "FAULT"]

\* the common tail of the four methods: vote, return below the threshold, otherwise clear and act
Voting(h, id, from, Effect(_)) ==
  LET v == VoteOp(ballots, h, id, from)
  IN  IF v.n < Thr(Len(alpha)) THEN [Keep EXCEPT !.ballots = v.bl]
      ELSE IF Len(v.bl) = 0 THEN FaultR          \* util.Remove on an empty list (unreachable)
      ELSE Effect(RemoveVotes(v.bl, id))

\* Cheque(id, user, amount, lockAcc)
ChequeR(S, id, p, a, h) ==
  LET from == Invoker(S)
  IN  IF from = Nil THEN FaultR
      ELSE Voting(h, id, from,
             LAMBDA B : IF a < 0 \/ gasC < a THEN FaultR          \* gas.Transfer refuses
                        ELSE [Keep EXCEPT !.ballots = B, !.gasC = gasC - a,
                                          !.gasP = [gasP EXCEPT ![p] = @ + a],
                                          !.ntf = <<Ntf("Cheque", id, p, Nil, a, <<>>)>>])

\* AlphabetUpdate(id, args)
AlphabetUpdateR(S, id, lst, h) ==
  LET from == Invoker(S)
  IN  IF Len(lst) = 0 THEN FaultR
      ELSE IF from = Nil THEN FaultR
      ELSE IF BadKey \in Ran(lst) THEN FaultR
      ELSE Voting(h, id, from,
             LAMBDA B : [Keep EXCEPT !.ballots = B, !.alpha = lst,
                                     !.ntf = <<Ntf("AlphabetUpdate", id, Nil, Nil, 0, lst)>>])

\* SetConfig(id, key, val).  D = {"StrangerVotes"}: the code as it is (the guard after
\* InnerRingInvoker tests len(key) instead of len(nodeKey), so a caller without any
\* Alphabet witness votes under the nil key); D = {}: the guard tests nodeKey.
SetConfigR(D, S, id, k, v, h) ==
  LET from == Invoker(S)
      Go   == Voting(h, id, from,
                LAMBDA B : [Keep EXCEPT !.ballots = B, !.config = [config EXCEPT ![k] = v],
                                        !.ntf = <<Ntf("SetConfig", id, k, v, 0, <<>>)>>])
  IN  IF "StrangerVotes" \in D
      THEN IF k = "empty" THEN FaultR ELSE Go
      ELSE IF from = Nil THEN FaultR ELSE Go

\* InnerRingCandidateRemove(key)
CandRemoveR(S, c, h) ==
  IF c \in S
  THEN [Keep EXCEPT !.cands = cands \ {c}]                        \* the candidate itself: no vote
  ELSE LET from == Invoker(S)
       IN  IF from = Nil THEN FaultR
           ELSE Voting(h, DelId(c), from, LAMBDA B : [Keep EXCEPT !.ballots = B, !.cands = cands \ {c}])

\* InnerRingCandidateAdd(key) with InnerRingCandidateFee = 0
CandAddR(S, c) ==
  IF c \notin S THEN FaultR
  ELSE IF c \in cands THEN FaultR
  ELSE [Keep EXCEPT !.cands = cands \cup {c}]

\* the result of invocation e (fields of Event) in the current state
ResultOf(D, e) ==
  LET h == cur + e.gap IN
  CASE e.act = "cheque"         -> ChequeR(e.S, e.id, e.payee, e.amt, h)
    [] e.act = "alphabetUpdate" -> AlphabetUpdateR(e.S, e.id, e.lst, h)
    [] e.act = "setConfig"      -> SetConfigR(D, e.S, e.id, e.key, e.val, h)
    [] e.act = "candRemove"     -> CandRemoveR(e.S, e.cand, h)
    [] e.act = "candAdd"        -> CandAddR(e.S, e.cand)
    [] e.act = "candBad"        -> FaultR      \* candidate add/remove with a key that is not 33 bytes: CheckWitness faults
    [] OTHER                    -> FaultR

Apply(D, e) ==
  LET R == ResultOf(D, e) IN
  /\ alpha' = R.alpha /\ ballots' = R.ballots /\ config' = R.config /\ cands' = R.cands
  /\ gasC' = R.gasC /\ gasP' = R.gasP
  /\ cur' = cur + e.gap
  /\ ev' = [e EXCEPT !.res = R.res, !.ntf = R.ntf]

Inv0(act, S, id, key, val, lst, cand, payee, amt, gap) ==
  Event(act, S, id, key, val, lst, cand, payee, amt, gap, "HALT", NoNtf)

Init ==
  /\ alpha = InitAlpha /\ ballots = <<>>
  /\ config = [k \in CfgKeys |-> Nil]
  /\ cands = Cands
  /\ gasC = InitGas /\ gasP = [p \in Payees |-> 0]
  /\ cur = 0
  /\ ev = Inv0("init", {}, Nil, Nil, Nil, <<>>, Nil, Nil, 0, 0)

\* P(X) = X for exhaustive checking, {RandomElement(X)} for scenario generation
NextOf(D, P(_), PS(_)) ==
  \E g \in P(Gaps), S \in PS(SignerSets) :
    \/ \E id \in P(Ids), p \in P(Payees), a \in P(Amounts) :
          Apply(D, Inv0("cheque", S, id, Nil, Nil, <<>>, Nil, p, a, g))
    \/ \E id \in P(Ids), l \in P(Lists) :
          Apply(D, Inv0("alphabetUpdate", S, id, Nil, Nil, l, Nil, Nil, 0, g))
    \/ \E id \in P(Ids), k \in P(CfgKeys), v \in P(CfgVals) :
          Apply(D, Inv0("setConfig", S, id, k, v, <<>>, Nil, Nil, 0, g))
    \/ \E c \in P(Cands) : Apply(D, Inv0("candRemove", S, Nil, Nil, Nil, <<>>, c, Nil, 0, g))
    \/ \E c \in P(Cands) : Apply(D, Inv0("candAdd", S, Nil, Nil, Nil, <<>>, c, Nil, 0, g))

All(X) == X
Next == NextOf({}, All, All)
Spec == Init /\ [][Next]_vars

\* at most one ballot per id is ever stored (so "the first ballot with this id" is "the" ballot)
Inv_OneBallotPerId == \A i, j \in 1..Len(ballots) : ballots[i].id = ballots[j].id => i = j
\* a stored ballot never holds a full quorum of the list it was collected under ... unless the list shrank
Inv_NoDupVoters == \A i \in 1..Len(ballots) : Cardinality(Ran(ballots[i].voters)) = Len(ballots[i].voters)

-----------------------------------------------------------------------------
(***************************************************************************)
(* Property C17: the abstract round machine.                               *)
(*   rd[id] = [vs, last, taint]: distinct Alphabet keys that voted for id  *)
(*   in the open round, height of the last counted vote; taint = the       *)
(*   stored list changed while the round was open (the statement fixes n;  *)
(*   it is silent about rounds that straddle a change of the list, so such *)
(*   a round may or may not fire until it ends or expires).                *)
(* The predicates talk about the step from the unprimed to the primed      *)
(* state, e = ev' is the invocation.                                       *)
(***************************************************************************)
RdEmpty == [vs |-> {}, last |-> 0, taint |-> FALSE]
RdInit  == [id \in AllIds |-> RdEmpty]

Members(e) == e.S \cap Ran(alpha)
InQuant(e) == Cardinality(Members(e)) <= 1           \* every voter signs its own transaction
Member(e)  == IF Members(e) = {} THEN Nil ELSE CHOOSE k \in Members(e) : TRUE
IsVote(e)  == \/ e.act \in {"cheque", "alphabetUpdate", "setConfig"}
              \/ e.act = "candRemove" /\ e.cand \notin e.S
VoteId(e)  == IF e.act = "candRemove" THEN DelId(e.cand) ELSE e.id

\* the round of VoteId(e) as this vote finds it (restarted when stale)
Fresh(rd, e) == rd[VoteId(e)].vs = {} \/ cur' - rd[VoteId(e)].last > Window
Vs0(rd, e)   == IF Fresh(rd, e) THEN {} ELSE rd[VoteId(e)].vs
Taint(rd, e) == ~Fresh(rd, e) /\ rd[VoteId(e)].taint
IsNew(rd, e) == Member(e) \notin Vs0(rd, e)
Fires(rd, e) == IsNew(rd, e) /\ Cardinality(Vs0(rd, e) \cup {Member(e)}) >= Thr(Len(alpha))

EffVars == <<alpha, config, cands, gasC, gasP>>
Inert(e) == UNCHANGED EffVars /\ e.ntf = NoNtf

EffectOf(e) ==
  CASE e.act = "cheque" ->
         /\ gasC' = gasC - e.amt /\ gasP' = [gasP EXCEPT ![e.payee] = @ + e.amt]
         /\ UNCHANGED <<alpha, config, cands>>
         /\ e.ntf = <<Ntf("Cheque", e.id, e.payee, Nil, e.amt, <<>>)>>
    [] e.act = "alphabetUpdate" ->
         /\ alpha' = e.lst /\ UNCHANGED <<config, cands, gasC, gasP>>
         /\ e.ntf = <<Ntf("AlphabetUpdate", e.id, Nil, Nil, 0, e.lst)>>
    [] e.act = "setConfig" ->
         /\ config' = [config EXCEPT ![e.key] = e.val] /\ UNCHANGED <<alpha, cands, gasC, gasP>>
         /\ e.ntf = <<Ntf("SetConfig", e.id, e.key, e.val, 0, <<>>)>>
    [] e.act = "candRemove" ->
         /\ cands' = cands \ {e.cand} /\ UNCHANGED <<alpha, config, gasC, gasP>> /\ e.ntf = NoNtf

\* the effect happens in exactly the invocation that completes the quorum, and in no other
C17_FiresIff(rd, e) ==
  IsVote(e) /\ InQuant(e) /\ Member(e) # Nil /\ e.res = "HALT" =>
     IF Taint(rd, e) THEN EffectOf(e) \/ Inert(e)
     ELSE IF Fires(rd, e) THEN EffectOf(e) ELSE Inert(e)
\* invocations by anyone else are rejected ...
C17_StrangerRejected(e) == IsVote(e) /\ Member(e) = Nil => e.res = "FAULT"
\* ... and change nothing; a failed invocation changes nothing either
C17_RejectedInert(e) == IsVote(e) /\ (Member(e) = Nil \/ e.res = "FAULT") => Inert(e)
\* a well-formed vote of an Alphabet key is accepted
WellFormed(e) ==
  CASE e.act = "cheque"         -> e.amt >= 0 /\ e.amt <= gasC
    [] e.act = "alphabetUpdate" -> Len(e.lst) > 0 /\ BadKey \notin Ran(e.lst)
    [] e.act = "setConfig"      -> e.key # "empty"
    [] OTHER                    -> TRUE
C17_MemberAccepted(e) == IsVote(e) /\ InQuant(e) /\ Member(e) # Nil /\ WellFormed(e) => e.res = "HALT"
\* the candidate itself removes its key at once, nobody else touches the candidate set without a quorum
C17_OwnerRemoves(e) ==
  e.act = "candRemove" /\ e.cand \in e.S => e.res = "HALT" /\ cands' = cands \ {e.cand} /\ UNCHANGED <<alpha, config, gasC, gasP>>

\* ghost update
RdNext(rd, e) ==
  LET id == VoteId(e)
      counted == IsVote(e) /\ InQuant(e) /\ Member(e) # Nil /\ e.res = "HALT"
      happened == e.ntf # NoNtf \/ EffVars' # EffVars
      done == IF Taint(rd, e) THEN happened ELSE Fires(rd, e)
      r1 == IF ~counted THEN rd
            ELSE [rd EXCEPT ![id] =
                    IF done THEN RdEmpty
                    ELSE [vs |-> Vs0(rd, e) \cup {Member(e)},
                          last |-> IF IsNew(rd, e) THEN cur' ELSE rd[id].last,
                          taint |-> Taint(rd, e)]]
  IN  IF alpha' # alpha
      THEN [i \in AllIds |-> IF r1[i].vs # {} THEN [r1[i] EXCEPT !.taint = TRUE] ELSE r1[i]]
      ELSE r1

=============================================================================
