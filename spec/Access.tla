------------------------------- MODULE Access -------------------------------
(***************************************************************************)
(* C03 - every mutating method of the eleven contracts is inert without    *)
(* the witnesses its documentation requires.                               *)
(*                                                                         *)
(* This module is a MATRIX rather than an evolving system:                 *)
(*   Methods        one record per exported method of the 11 manifests      *)
(*                  (contract, name, arity, variant of the canonical        *)
(*                  scenario, safe flag, authorisation class written from   *)
(*                  the doc comment of the method, how the method refuses,  *)
(*                  what a successful canonical call touches)               *)
(*   Sufficient     which signer sets satisfy an authorisation class        *)
(*   Invoke(m,S,n)  THE generic action: one invocation of method m in a     *)
(*                  transaction witnessed by the accounts S on a chain with *)
(*                  an n-key committee                                      *)
(*   C03_*          the property, as predicates over one step               *)
(*                                                                         *)
(* State: `world` stands for the raw storage (and NEF/update counter) of   *)
(* ALL deployed contracts, `tok` for the native GAS/NEO balances and NEO   *)
(* votes of all tracked accounts (NEOFS balances live in the Balance        *)
(* contract's storage, i.e. in `world`).  Only equality of these values is  *)
(* ever used: the exhaustive check runs with a two-element WorldSpace, the  *)
(* trace monitor binds them to digests of the real chain.                   *)
(*                                                                         *)
(* Signer sets are sets of ATOMS, each standing for one account (or, for    *)
(* the last three, for a non-witness credential the documentation asks      *)
(* for):                                                                    *)
(*   ALPHA  2n/3+1 multi-signature account of the chain committee           *)
(*   CMT    n/2+1 multi-signature account of the chain committee            *)
(*   M1     single-key account of committee member 0                        *)
(*   IRMAJ  n/2+1 multi-signature account of the keys designated            *)
(*          NeoFSAlphabet in RoleManagement (a key set of its own in the    *)
(*          harness, as on the main chain)                                  *)
(*   IR1    single-key account of designated key 0                          *)
(*   KEY    the key / account named in the arguments of the call            *)
(*   OWNER  owner of the NNS name the call is about (for sub-name           *)
(*          registration: of the directly enclosing name), ADMIN its admin  *)
(*   X      a funded stranger                                               *)
(*   ARGSIG the arguments carry valid placement signatures                  *)
(*   VIAGAS / VIANEO  the method is reached as the payment callback of a    *)
(*          native GAS / NEO transfer (sent and witnessed by KEY)           *)
(*   VIACALLER  the method is called by a helper contract (balance.transfer *)
(*          accepts the calling contract as the holder)                     *)
(* Two atoms may denote the same account (ALPHA and CMT when the two        *)
(* thresholds coincide, n in {1,2,4}); Same() says which.                   *)
(***************************************************************************)
EXTENDS Integers, Sequences, FiniteSets, TLC

CONSTANTS
  Sizes,       \* committee sizes explored
  WorldSpace,  \* values of world / tok ({0,1} for TLC, STRING for the monitor)
  DocFacts,    \* facts read from the doc comments of the working tree (see ClassOf)
  Dev          \* deviation switches: behaviour of the code that the property forbids

VARIABLES world, tok, ev
vars == <<world, tok, ev>>

-----------------------------------------------------------------------------
(***************************************************************************)
(* Witness arithmetic (common/ir.go)                                       *)
(***************************************************************************)
AlphaThr(n) == (2 * n) \div 3 + 1
CmtThr(n)   == n \div 2 + 1
AlphaIsCmt(n) == AlphaThr(n) = CmtThr(n)      \* same keys, same threshold => same account

Atoms == {"ALPHA", "CMT", "M1", "IRMAJ", "IR1", "KEY", "OWNER", "ADMIN", "X", "ARGSIG", "VIAGAS", "VIANEO", "VIACALLER"}

\* atoms that denote the same account as a (in the canonical scenario of a method of class cls)
Same(a, cls, n) ==
  IF a \in {"ALPHA", "CMT"} /\ AlphaIsCmt(n) THEN {"ALPHA", "CMT"}
  ELSE IF a \in {"KEY", "IR1"} /\ cls = "ir-key" THEN {"KEY", "IR1"}      \* audit.put: From is designated key 0
  ELSE IF a \in {"KEY", "IR1"} /\ cls = "ir-key-last" /\ n = 1 THEN {"KEY", "IR1"}   \* the last designated key is key 0
  ELSE IF a \in {"KEY", "M1"} /\ cls = "own-alphabet-node" /\ n = 1 THEN {"KEY", "M1"}
  ELSE IF a \in {"KEY", "M1"} /\ cls \in {"key@m1", "key+alphabet@m1"} THEN {"KEY", "M1"}   \* the named key is member 0's
                                                    \* alphabet.emit: the contract's index is n-1
  ELSE {a}

Norm(S, cls, n) == UNION {Same(a, cls, n) : a \in S}

(***************************************************************************)
(* Authorisation classes. S is a normalised signer set.                    *)
(***************************************************************************)
Classes == {"key@m1", "key+alphabet@m1", "stored-key", "candidate-or-stored-key", "calling-contract", "alphabet", "committee", "alphabet-role-majority", "key+alphabet", "key", "ir-key", "ir-key-last",
            "holder-or-caller", "holder-or-alphabet", "nns-owner", "nns-owner+key", "nns-admin", "nns-parent",
            "own-alphabet-node", "candidate-or-alphabet", "signatures-in-arguments",
            "gas-only-callback", "gas-or-neo-callback", "none", "never", "safe"}

Sufficient(cls, S) ==
  CASE cls = "alphabet"                -> "ALPHA" \in S
    [] cls = "committee"               -> "CMT" \in S
    [] cls = "alphabet-role-majority"  -> "IRMAJ" \in S
    [] cls = "key+alphabet"            -> "KEY" \in S /\ "ALPHA" \in S
    [] cls = "key"                     -> "KEY" \in S
    [] cls = "key@m1"                  -> "KEY" \in S
    [] cls = "key+alphabet@m1"         -> "KEY" \in S /\ "ALPHA" \in S
    [] cls = "ir-key"                  -> "KEY" \in S
    [] cls = "ir-key-last"             -> "KEY" \in S
    [] cls = "holder-or-caller"        -> "KEY" \in S
    [] cls = "calling-contract"        -> "VIACALLER" \in S
    [] cls = "holder-or-alphabet"      -> "KEY" \in S \/ "ALPHA" \in S
    [] cls = "nns-owner"               -> "OWNER" \in S
    [] cls = "nns-owner+key"           -> "OWNER" \in S /\ "KEY" \in S
    [] cls = "nns-admin"               -> "OWNER" \in S \/ "ADMIN" \in S
    [] cls = "nns-parent"              -> "KEY" \in S /\ ("OWNER" \in S \/ "ADMIN" \in S)
    [] cls = "own-alphabet-node"       -> "KEY" \in S
    [] cls = "candidate-or-alphabet"   -> "KEY" \in S \/ "ALPHA" \in S
    \* notary-disabled NeoFS contract: every call of a stored Alphabet key is a vote (M1 is stored key 0)
    [] cls = "stored-key"              -> "M1" \in S
    [] cls = "candidate-or-stored-key" -> "KEY" \in S \/ "M1" \in S
    [] cls = "signatures-in-arguments" -> "ARGSIG" \in S
    [] cls = "gas-only-callback"       -> "VIAGAS" \in S /\ "KEY" \in S
    [] cls = "gas-or-neo-callback"     -> ("VIAGAS" \in S \/ "VIANEO" \in S) /\ "KEY" \in S
    [] cls = "none"                    -> TRUE
    [] cls = "never"                   -> FALSE
    [] cls = "safe"                    -> TRUE

\* "exactly the required witnesses": sufficient, and no account can be left out
Exact(cls, S, n) ==
  /\ Sufficient(cls, S)
  /\ \A a \in S : ~Sufficient(cls, S \ Same(a, cls, n))

Kind(safe, io, cls, S, n) ==
  IF safe THEN "safe"
  ELSE IF ~Sufficient(cls, S) THEN "inert"
  ELSE IF ~io /\ Exact(cls, S, n) THEN "succeed"     \* io: inert-only argument variant (see Mv)
  ELSE "unspecified"

\* verify() of Proxy / Alphabet / Processing
VerifyAccepts(cls, S) ==
  CASE cls = "verify-alpha-or-cmt" -> "ALPHA" \in S \/ "CMT" \in S
    [] cls = "verify-alpha"        -> "ALPHA" \in S       \* Processing: 2/3+1 of the keys stored in the NeoFS
                                                          \* contract (= the chain committee in the scenarios)

-----------------------------------------------------------------------------
(***************************************************************************)
(* The method table.  Mt = mutating (non-safe) method, Sf = safe method.   *)
(*   v    variant of the canonical scenario ("" = the only one)            *)
(*   ref  how the method refuses a call that lacks its witnesses            *)
(*   eff  what a successful canonical call touches: "st" contract storage   *)
(*        or contract state, "ntf" notification(s), "tok" GAS/NEO/votes     *)
(* Classes are written from the doc comment of each method (DESIGN.md      *)
(* Appendix A); where the comment is silent about witnesses (most of NNS,   *)
(* netmap.updateSnapshotCount) the class is the one of Appendix A / C11.    *)
(***************************************************************************)
Mt(c, m, a, v, cls, ref, eff) ==
  [c |-> c, m |-> m, a |-> a, v |-> v, safe |-> FALSE, cls |-> cls, ref |-> ref, eff |-> eff, io |-> FALSE, ok |-> "HALT"]
Sf(c, m, a) ==
  [c |-> c, m |-> m, a |-> a, v |-> "", safe |-> TRUE, cls |-> "safe", ref |-> "HALT", eff |-> {}, io |-> FALSE, ok |-> "HALT"]
\* ARGUMENT VARIANT of a mutating method, of the INERT-ONLY flavour: the same method on another argument vector
\* (null / empty optional argument, zero or negative amount / count / epoch, self-referential arguments).  The
\* statement promises success only for the canonical valid invocation, so only C03_Inert is judged on these rows;
\*   ref  outcome without the witnesses ("FAULT", "false", or "HALT" for a silent no-op)
\*   ok   outcome WITH sufficient witnesses ("HALT" with the effects eff, "FAULT", "false") - binding (drift) only
Mv(c, m, a, v, cls, ref, ok, eff) ==
  [c |-> c, m |-> m, a |-> a, v |-> v, safe |-> FALSE, cls |-> cls, ref |-> ref, eff |-> eff, io |-> TRUE, ok |-> ok]

F == "FAULT"
St == {"st"}  Nt == {"ntf"}  Tk == {"tok"}  SN == {"st", "ntf"}  TN == {"tok", "ntf"}  STN == {"st", "tok", "ntf"}

Upd(c, cls) == Mt(c, "update", 3, "", cls, F, SN)    \* Management emits Update, the update counter grows

CoreMethods == {
  \* ---- alphabet ----
  Mt("alphabet", "emit", 0, "", "own-alphabet-node", F, TN),
  Mt("alphabet", "vote", 2, "", "alphabet", F, TN),
  Mt("alphabet", "onNEP17Payment", 3, "", "gas-or-neo-callback", F, TN),
  Upd("alphabet", "committee"),
  Sf("alphabet", "gas", 0), Sf("alphabet", "neo", 0), Sf("alphabet", "name", 0), Sf("alphabet", "version", 0),
  Sf("alphabet", "verify", 0),
  \* ---- audit ----
  Mt("audit", "put", 1, "", "ir-key", F, St),
  Mt("audit", "put", 1, "outsider", "never", F, {}),       \* From is not a designated key
  Mt("audit", "put", 1, "other", "ir-key-last", F, St),            \* From is ANOTHER designated key (the last one): the witness of
                                                           \* designated key 0 (IR1) or of their majority must not do
  Upd("audit", "committee"),
  Sf("audit", "get", 1), Sf("audit", "list", 0), Sf("audit", "listByCID", 2), Sf("audit", "listByEpoch", 1),
  Sf("audit", "listByNode", 3), Sf("audit", "version", 0),
  \* ---- balance ----
  Mt("balance", "transfer", 4, "", "holder-or-caller", "false", SN),
  Mt("balance", "transfer", 4, "via", "calling-contract", "false", SN),   \* from = the helper contract that makes the call
  Mt("balance", "transfer", 4, "via-victim", "holder-or-caller", "false", SN),  \* a contract moving somebody else's funds
  Mt("balance", "transfer", 4, "zero", "holder-or-caller", "false", {"ntf"}),   \* amount 0: a boundary value must not bypass the witness
  Mt("balance", "transferX", 4, "", "alphabet", F, SN),   \* see ClassOf: the doc comment also names the owner
  Mt("balance", "transferX", 4, "zero", "alphabet", F, {"ntf"}),
  Mt("balance", "lock", 5, "zero", "alphabet", F, SN),
  Mt("balance", "mint", 3, "zero", "alphabet", F, SN),
  Mt("balance", "burn", 3, "zero", "alphabet", F, {"ntf"}),
  Mt("balance", "lock", 5, "", "alphabet", F, SN),
  Mt("balance", "mint", 3, "", "alphabet", F, SN),
  Mt("balance", "burn", 3, "", "alphabet", F, SN),
  Mt("balance", "newEpoch", 1, "", "alphabet", F, SN),
  Upd("balance", "committee"),
  Sf("balance", "balanceOf", 1), Sf("balance", "decimals", 0), Sf("balance", "symbol", 0),
  Sf("balance", "totalSupply", 0), Sf("balance", "version", 0),
  \* ---- container ----
  Mt("container", "put", 4, "", "alphabet", F, SN),
  Mt("container", "put", 5, "", "alphabet", F, SN),
  Mt("container", "putNamed", 6, "", "alphabet", F, SN),
  Mt("container", "delete", 3, "", "alphabet", F, SN),
  Mt("container", "setEACL", 4, "", "alphabet", F, SN),
  Mt("container", "addNextEpochNodes", 3, "", "alphabet", F, St),
  Mt("container", "commitContainerListUpdate", 2, "", "alphabet", F, SN),
  Mt("container", "newEpoch", 1, "", "alphabet", F, St),
  Mt("container", "startContainerEstimation", 1, "", "alphabet", F, Nt),
  Mt("container", "stopContainerEstimation", 1, "", "alphabet", F, Nt),
  Mt("container", "putContainerSize", 4, "", "key", F, St),
  Mt("container", "putContainerSize", 4, "outsider", "never", F, {}),   \* key is not in the previous netmap
  Mt("container", "submitObjectPut", 2, "", "signatures-in-arguments", F, Nt),
  Mt("container", "onNEP11Payment", 4, "", "none", F, {}),
  Upd("container", "committee"),
  Sf("container", "alias", 1), Sf("container", "containersOf", 1), Sf("container", "count", 0),
  Sf("container", "eACL", 1), Sf("container", "get", 1), Sf("container", "getContainerSize", 1),
  Sf("container", "iterateAllContainerSizes", 1), Sf("container", "iterateContainerSizes", 2),
  Sf("container", "list", 1), Sf("container", "listContainerSizes", 1), Sf("container", "nodes", 2),
  Sf("container", "owner", 1), Sf("container", "replicasNumbers", 1),
  Sf("container", "verifyPlacementSignatures", 3), Sf("container", "version", 0),
  \* ---- neofs (notary mode; stored Alphabet keys = chain committee) ----
  Mt("neofs", "alphabetUpdate", 2, "", "alphabet", F, SN),
  Mt("neofs", "bind", 2, "", "key", F, Nt),
  Mt("neofs", "unbind", 2, "", "key", F, Nt),
  Mt("neofs", "cheque", 4, "", "alphabet", F, TN),
  Mt("neofs", "innerRingCandidateAdd", 1, "", "key", F, STN),
  Mt("neofs", "innerRingCandidateRemove", 1, "", "candidate-or-alphabet", F, St),
  Mt("neofs", "onNEP17Payment", 3, "", "gas-only-callback", F, TN),
  Mt("neofs", "setConfig", 3, "", "alphabet", F, SN),
  Mt("neofs", "withdraw", 2, "", "key", F, TN),
  \* the same contract deployed with notaryDisabled = true: votes of the stored keys are collected (C17);
  \* eff = what happens when the vote reaches the threshold (n = 1), otherwise only the ballot is stored (EffOf)
  Mt("neofs", "alphabetUpdate", 2, "votes", "stored-key", F, Nt),
  Mt("neofs", "cheque", 4, "votes", "stored-key", F, TN),
  Mt("neofs", "setConfig", 3, "votes", "stored-key", F, SN),
  Mt("neofs", "innerRingCandidateRemove", 1, "votes", "candidate-or-stored-key", F, St),
  Mt("neofs", "withdraw", 2, "votes", "key", F, TN),
  Upd("neofs", "alphabet-role-majority"),
  Sf("neofs", "alphabetAddress", 0), Sf("neofs", "alphabetList", 0), Sf("neofs", "config", 1),
  Sf("neofs", "innerRingCandidates", 0), Sf("neofs", "listConfig", 0), Sf("neofs", "version", 0),
  \* ---- neofsid ----
  Mt("neofsid", "addKey", 2, "", "alphabet", F, St),
  Mt("neofsid", "removeKey", 2, "", "alphabet", F, St),
  Upd("neofsid", "committee"),
  Sf("neofsid", "key", 1), Sf("neofsid", "version", 0),
  \* ---- netmap ----
  Mt("netmap", "addNode", 1, "", "key+alphabet", F, SN),
  Mt("netmap", "addPeer", 1, "", "key+alphabet", F, SN),
  Mt("netmap", "addPeerIR", 1, "", "alphabet", F, SN),
  Mt("netmap", "deleteNode", 1, "", "alphabet", F, SN),
  Mt("netmap", "lastEpochBlock", 0, "", "none", F, {}),
  Mt("netmap", "newEpoch", 1, "", "alphabet", F, SN),
  Mt("netmap", "setConfig", 3, "", "alphabet", F, St),
  Mt("netmap", "subscribeForNewEpoch", 1, "", "alphabet", F, SN),
  Mt("netmap", "updateSnapshotCount", 1, "", "alphabet", F, St),
  Mt("netmap", "updateState", 2, "", "key+alphabet", F, SN),
  Mt("netmap", "updateStateIR", 2, "", "alphabet", F, SN),
  Upd("netmap", "committee"),
  Sf("netmap", "config", 1), Sf("netmap", "epoch", 0), Sf("netmap", "innerRingList", 0),
  Sf("netmap", "listCandidates", 0), Sf("netmap", "listConfig", 0), Sf("netmap", "listNodes", 0),
  Sf("netmap", "listNodes", 1), Sf("netmap", "netmap", 0), Sf("netmap", "netmapCandidates", 0),
  Sf("netmap", "snapshot", 1), Sf("netmap", "snapshotByEpoch", 1), Sf("netmap", "version", 0),
  \* ---- nns ----
  Mt("nns", "addRecord", 3, "", "nns-admin", F, St),
  Mt("nns", "deleteRecords", 2, "", "nns-admin", F, St),
  Mt("nns", "register", 7, "", "key", F, SN),                  \* 2nd-level name: the new owner
  Mt("nns", "register", 7, "sub", "nns-parent", F, SN),        \* 3rd level: + owner/admin of the enclosing name
  Mt("nns", "register", 7, "tld", "never", F, {}),             \* TLDs cannot be registered by register
  Mt("nns", "registerTLD", 6, "", "committee", F, St),
  Mt("nns", "renew", 2, "", "nns-admin", F, SN),
  Mt("nns", "renew", 1, "", "nns-admin", F, SN),
  Mt("nns", "renew", 2, "tld", "committee", F, SN),            \* committee-owned names
  Mt("nns", "setAdmin", 2, "", "nns-owner+key", F, SN),
  Mt("nns", "setPrice", 1, "", "committee", F, St),
  Mt("nns", "setRecord", 4, "", "nns-admin", F, St),
  Mt("nns", "transfer", 3, "", "nns-owner", "false", SN),
  Mt("nns", "updateSOA", 6, "", "nns-admin", F, St),
  Mt("nns", "updateSOA", 6, "tld", "committee", F, St),
  Upd("nns", "committee"),
  Sf("nns", "balanceOf", 1), Sf("nns", "decimals", 0), Sf("nns", "getAllRecords", 1), Sf("nns", "getPrice", 0),
  Sf("nns", "getRecords", 2), Sf("nns", "isAvailable", 1), Sf("nns", "ownerOf", 1), Sf("nns", "properties", 1),
  Sf("nns", "resolve", 2), Sf("nns", "roots", 0), Sf("nns", "symbol", 0), Sf("nns", "tokens", 0),
  Sf("nns", "tokensOf", 1), Sf("nns", "totalSupply", 0), Sf("nns", "version", 0),
  \* ---- processing ----
  Mt("processing", "onNEP17Payment", 3, "", "gas-only-callback", F, TN),
  Upd("processing", "alphabet-role-majority"),
  Sf("processing", "verify", 0), Sf("processing", "version", 0),
  \* ---- proxy ----
  Mt("proxy", "onNEP17Payment", 3, "", "gas-only-callback", F, TN),
  Upd("proxy", "committee"),
  Sf("proxy", "verify", 0), Sf("proxy", "version", 0),
  \* ---- reputation ----
  Mt("reputation", "put", 3, "", "alphabet", F, St),
  Mt("reputation", "version", 0, "", "none", F, {}),           \* read-only though not declared safe
  Upd("reputation", "committee"),
  Sf("reputation", "get", 2), Sf("reputation", "getByID", 1), Sf("reputation", "listByEpoch", 1)
}

(***************************************************************************)
(* Argument variants (inert-only rows).  H = HALT.                          *)
(***************************************************************************)
H == "HALT"
ArgVariants == {
  \* ---- alphabet ----
  Mv("alphabet", "vote", 2, "empty", "alphabet", F, F, {}),              \* no candidates: index % 0
  Mv("alphabet", "vote", 2, "negepoch", "alphabet", F, F, {}),
  Mv("alphabet", "onNEP17Payment", 3, "zero", "gas-only-callback", F, H, Nt),   \* a GAS payment of 0
  \* ---- balance ----
  Mv("balance", "transfer", 4, "data", "holder-or-caller", "false", H, SN),      \* non-null data
  Mv("balance", "transfer", 4, "neg", "holder-or-caller", "false", "false", {}),
  Mv("balance", "transfer", 4, "self", "holder-or-caller", "false", H, Nt),      \* from = to
  Mv("balance", "transferX", 4, "nodetails", "alphabet", F, H, SN),              \* details = null
  Mv("balance", "transferX", 4, "neg", "alphabet", F, F, {}),
  Mv("balance", "transferX", 4, "self", "alphabet", F, H, Nt),
  Mv("balance", "lock", 5, "neg", "alphabet", F, F, {}),
  Mv("balance", "lock", 5, "self", "alphabet", F, F, {}),                        \* lock account = holder
  Mv("balance", "lock", 5, "neguntil", "alphabet", F, H, SN),
  Mv("balance", "mint", 3, "neg", "alphabet", F, F, {}),
  Mv("balance", "mint", 3, "nodetails", "alphabet", F, F, {}),                   \* null cannot be appended to the prefix
  Mv("balance", "burn", 3, "neg", "alphabet", F, F, {}),
  Mv("balance", "burn", 3, "nodetails", "alphabet", F, F, {}),
  Mv("balance", "newEpoch", 1, "zero", "alphabet", F, H, {}),                    \* nothing expires at epoch 0
  Mv("balance", "newEpoch", 1, "neg", "alphabet", F, H, {}),
  \* ---- container ----
  Mv("container", "put", 4, "token", "alphabet", F, H, SN),                      \* non-empty session token
  Mv("container", "put", 4, "alphaowner", "alphabet", F, H, SN),                 \* the owner is an Alphabet node (member 0)
  Mv("container", "put", 5, "nometa", "alphabet", F, H, SN),
  Mv("container", "put", 4, "again", "alphabet", F, H, SN),                      \* the container is registered already
  Mv("container", "put", 5, "again", "alphabet", F, H, SN),                      \* ... and the meta flag is asked for now
  Mv("container", "putNamed", 6, "againnoname", "alphabet", F, H, SN),
  Mv("container", "putNamed", 6, "noname", "alphabet", F, H, SN),                \* name = zone = ""
  Mv("container", "putNamed", 6, "zone", "alphabet", F, H, SN),                  \* explicit zone
  Mv("container", "delete", 3, "token", "alphabet", F, H, SN),
  Mv("container", "delete", 3, "missing", "alphabet", H, H, {}),                 \* unknown id: silent no-op for everybody
  Mv("container", "setEACL", 4, "token", "alphabet", F, H, SN),
  Mv("container", "addNextEpochNodes", 3, "empty", "alphabet", F, H, {}),        \* empty key list
  Mv("container", "commitContainerListUpdate", 2, "noreplicas", "alphabet", F, H, SN),
  Mv("container", "commitContainerListUpdate", 2, "nothing", "alphabet", F, H, Nt),  \* nothing accumulated
  Mv("container", "newEpoch", 1, "zero", "alphabet", F, H, {}),
  Mv("container", "newEpoch", 1, "neg", "alphabet", F, H, {}),
  Mv("container", "startContainerEstimation", 1, "neg", "alphabet", F, H, Nt),
  Mv("container", "stopContainerEstimation", 1, "zero", "alphabet", F, H, Nt),
  Mv("container", "putContainerSize", 4, "zero", "key", F, H, St),               \* epoch 0, size 0
  Mv("container", "putContainerSize", 4, "neg", "key", F, H, St),
  Mv("container", "submitObjectPut", 2, "nosigs", "signatures-in-arguments", F, H, Nt),  \* empty signature list instead of a wrong one
  \* ---- neofs ----
  Mv("neofs", "alphabetUpdate", 2, "empty", "alphabet", F, F, {}),
  Mv("neofs", "bind", 2, "empty", "key", F, H, Nt),
  Mv("neofs", "unbind", 2, "empty", "key", F, H, Nt),
  Mv("neofs", "cheque", 4, "zero", "alphabet", F, H, Nt),
  Mv("neofs", "cheque", 4, "neg", "alphabet", F, F, {}),
  Mv("neofs", "cheque", 4, "self", "alphabet", F, H, Nt),                        \* the payee is the contract itself
  Mv("neofs", "innerRingCandidateAdd", 1, "alphakey", "key@m1", F, H, STN),         \* the candidate is an Alphabet node (KEY = M1)
  Mv("neofs", "innerRingCandidateRemove", 1, "absent", "candidate-or-alphabet", F, H, {}),
  Mv("neofs", "setConfig", 3, "empty", "alphabet", F, H, SN),                    \* empty id, key and value
  Mv("neofs", "withdraw", 2, "zero", "key", F, H, TN),
  Mv("neofs", "withdraw", 2, "neg", "key", F, F, {}),
  Mv("neofs", "onNEP17Payment", 3, "zero", "gas-only-callback", F, F, {}),
  Mv("neofs", "onNEP17Payment", 3, "ignore", "gas-only-callback", H, H, TN),     \* data = the "ignore deposit" marker
  \* ---- neofsid ----
  Mv("neofsid", "addKey", 2, "empty", "alphabet", F, H, {}),
  Mv("neofsid", "removeKey", 2, "empty", "alphabet", F, H, {}),
  \* ---- netmap ----
  Mv("netmap", "addNode", 1, "alphakey", "key+alphabet@m1", F, H, SN),              \* the node key is an Alphabet node's (KEY = M1)
  Mv("netmap", "deleteNode", 1, "absent", "alphabet", F, H, Nt),
  Mv("netmap", "newEpoch", 1, "zero", "alphabet", F, F, {}),
  Mv("netmap", "newEpoch", 1, "neg", "alphabet", F, F, {}),
  Mv("netmap", "setConfig", 3, "empty", "alphabet", F, H, St),
  Mv("netmap", "subscribeForNewEpoch", 1, "again", "alphabet", F, H, {}),        \* already subscribed
  Mv("netmap", "updateSnapshotCount", 1, "neg", "alphabet", F, F, {}),
  Mv("netmap", "updateSnapshotCount", 1, "same", "alphabet", F, F, {}),
  Mv("netmap", "updateState", 2, "offline", "key+alphabet", F, H, SN),
  Mv("netmap", "updateState", 2, "badstate", "key+alphabet", F, F, {}),
  Mv("netmap", "updateStateIR", 2, "offline", "alphabet", F, H, SN),
  Mv("netmap", "updateStateIR", 2, "badstate", "alphabet", F, F, {}),
  \* ---- nns ----
  Mv("nns", "addRecord", 3, "emptytxt", "nns-admin", F, H, St),
  Mv("nns", "register", 7, "noemail", "key", F, H, SN),
  Mv("nns", "renew", 2, "zero", "nns-admin", F, F, {}),
  Mv("nns", "renew", 2, "neg", "nns-admin", F, F, {}),
  Mv("nns", "setAdmin", 2, "null", "nns-owner", F, H, SN),                       \* admin = null: the owner alone
  Mv("nns", "setAdmin", 2, "self", "nns-owner", F, H, SN),                       \* admin = owner
  Mv("nns", "setPrice", 1, "neg", "committee", F, F, {}),
  Mv("nns", "transfer", 3, "data", "nns-owner", "false", H, SN),                 \* non-null data
  Mv("nns", "transfer", 3, "self", "nns-owner", "false", H, Nt),                 \* to = owner
  Mv("nns", "updateSOA", 6, "noemail", "nns-admin", F, H, St),
  \* ---- processing / proxy ----
  Mv("proxy", "onNEP17Payment", 3, "zero", "gas-only-callback", F, H, Nt),
  Mv("processing", "onNEP17Payment", 3, "zero", "gas-only-callback", F, H, Nt),
  \* ---- reputation ----
  Mv("reputation", "put", 3, "zero", "alphabet", F, H, St),                      \* epoch 0, empty id and value
  Mv("reputation", "put", 3, "neg", "alphabet", F, H, St)
} \cup {Mv(c, "update", 3, "data", (CHOOSE u \in CoreMethods : u.c = c /\ u.m = "update").cls, F, H, SN) :
         c \in {"alphabet", "audit", "balance", "container", "neofs", "neofsid", "netmap", "nns", "processing", "proxy", "reputation"}}
        \* update with non-null data

\* every safe method that takes arguments, once more on edge values (negative numbers, empty byte strings and lists)
SafeEdge == {[s EXCEPT !.v = "edge"] : s \in {x \in CoreMethods : x.safe /\ x.a > 0}}

Methods == CoreMethods \cup ArgVariants \cup SafeEdge

Verifiers == {
  [c |-> "proxy",      cls |-> "verify-alpha-or-cmt"],
  [c |-> "alphabet",   cls |-> "verify-alpha-or-cmt"],
  [c |-> "processing", cls |-> "verify-alpha"]
}

(***************************************************************************)
(* The class REQUIRED by the documentation of the working tree.  The doc   *)
(* comment of balance.TransferX says "It can be invoked by the account     *)
(* owner or by Alphabet nodes"; while it says so (the pipeline greps the   *)
(* sources and passes the fact in DocFacts) the owner alone is a required- *)
(* witness set of its own.  The code demands the Alphabet in every case    *)
(* (deviation switch TransferXOwnerDenied).                                *)
(***************************************************************************)
ClassOf(m) ==
  IF m.c = "balance" /\ m.m = "transferX" /\ "balance.transferX:owner-or-alphabet" \in DocFacts
  THEN "holder-or-alphabet" ELSE m.cls

\* the class the CODE implements (differs from ClassOf only under a deviation switch)
\* StrangerVotes: the notary-disabled setConfig tests len(key) instead of len(nodeKey), so a call witnessed by
\* nobody is counted as a vote (DESIGN.md 5.4 row 4)
CodeClassOf(m) ==
  IF m.c = "balance" /\ m.m = "transferX" /\ "TransferXOwnerDenied" \in Dev THEN "alphabet"
  ELSE IF m.c = "neofs" /\ m.m = "setConfig" /\ m.v = "votes" /\ "StrangerVotes" \in Dev THEN "none"
  ELSE ClassOf(m)

(***************************************************************************)
(* Signer-set descriptors tried per method (the quantifier of C03: nobody   *)
(* relevant, a single Alphabet member, the committee account where the      *)
(* Alphabet one is required and vice versa, the named key without the       *)
(* Alphabet, the Alphabet without the named key, exactly the required set)  *)
(***************************************************************************)
Base    == {{}, {"X"}, {"M1"}, {"CMT"}, {"ALPHA"}, {"IRMAJ"}, {"IR1"}}
KeySets == {{"KEY"}, {"KEY", "CMT"}, {"KEY", "ALPHA"}, {"KEY", "M1"}, {"KEY", "X"},
            {"ALPHA", "X"}, {"ALPHA", "M1"}}       \* the Alphabet with somebody else's key instead of the named one
NNSSets == {{"OWNER"}, {"ADMIN"}, {"OWNER", "KEY"}, {"ADMIN", "KEY"}, {"KEY"}, {"X", "KEY"}, {"CMT", "KEY"}}
SigSets == {{"ARGSIG"}, {"ARGSIG", "X"}}
GasSets == {{"VIAGAS", "KEY"}, {"VIAGAS", "X"}, {"VIAGAS", "ALPHA"}}
NeoSets == {{"VIANEO", "KEY"}, {"VIANEO", "X"}}
ViaSets == {{"VIACALLER"}, {"VIACALLER", "X"}, {"VIACALLER", "KEY"}, {"VIACALLER", "CMT"}}
Everybody == {"ALPHA", "CMT", "M1", "IRMAJ", "IR1", "X"}

UsesKey(cls) == cls \in {"key@m1", "key+alphabet@m1", "key+alphabet", "key", "ir-key", "ir-key-last", "holder-or-caller", "holder-or-alphabet",
                         "own-alphabet-node", "candidate-or-alphabet", "candidate-or-stored-key", "never"}
UsesNNS(cls) == cls \in {"nns-owner", "nns-owner+key", "nns-admin", "nns-parent"}

SetsFor(m) ==
  LET cls == ClassOf(m) IN
  IF m.safe THEN {Everybody}
  ELSE Base \cup (IF UsesKey(cls) THEN KeySets ELSE {})
            \cup (IF UsesNNS(cls) THEN NNSSets ELSE {})
            \cup (IF cls = "signatures-in-arguments" THEN SigSets ELSE {})
            \cup (IF cls \in {"gas-only-callback", "gas-or-neo-callback"} THEN GasSets \cup {{"KEY"}} ELSE {})
            \cup (IF cls = "gas-or-neo-callback" THEN NeoSets ELSE {})
            \cup (IF m.v \in {"via", "via-victim"} THEN ViaSets ELSE {})
VerifySets == {{}, {"X"}, {"M1"}, {"CMT"}, {"ALPHA"}, {"IRMAJ"}, {"M1", "X"}}

-----------------------------------------------------------------------------
(***************************************************************************)
(* Events and the generic action                                           *)
(***************************************************************************)
\* ret is "false" for a returned boolean false, "true" for true, "other" otherwise
Event(act, m, cls, S, n, res, ret, ntf, valid) ==
  [act |-> act, c |-> m.c, m |-> m.m, a |-> m.a, v |-> m.v, safe |-> m.safe, io |-> m.io, cls |-> cls,
   S |-> S, n |-> n, res |-> res, ret |-> ret, ntf |-> ntf, valid |-> valid]

Changed(x, y, ch) == y \in WorldSpace /\ ((y # x) <=> ch)

\* effects of the successful canonical call; neofs.alphabetUpdate is given the stored keys in a rotated order
\* (the multi-signature account must stay the same for the other cells), which changes nothing when there is one key
EffOf(m, n) ==
  IF m.c = "neofs" /\ m.m = "alphabetUpdate" /\ m.v = "" /\ n = 1 THEN m.eff \ {"st"}
  ELSE IF m.v = "votes" /\ m.cls = "stored-key" /\ AlphaThr(n) > 1 THEN {"st"}     \* one vote of several: the ballot
  ELSE m.eff

\* one invocation of m in a transaction witnessed by S0 on an n-key committee
Invoke(m, S0, n) ==
  LET cls  == ClassOf(m)
      S    == Norm(S0, cls, n)
      code == CodeClassOf(m)
  IN  IF m.safe
      THEN \* the VM runs safe methods without WriteStates|AllowNotify (edge arguments may make a reader fault)
           /\ world' = world /\ tok' = tok
           /\ \E ret \in {"true", "false", "other"}, res \in (IF m.v = "edge" THEN {"HALT", "FAULT"} ELSE {"HALT"}) :
                 ev' = Event("invoke", m, cls, S, n, res, ret, FALSE, TRUE)
      ELSE IF ~Sufficient(code, S)
      THEN \* a native token contract refuses a transfer that the sender did not witness by returning false;
           \* a refusing method faults, returns false (NEP-17/NEP-11 transfer) or - argument variants only -
           \* halts as a silent no-op
           LET how == IF S0 \cap {"VIAGAS", "VIANEO"} # {} THEN "false" ELSE m.ref IN
           /\ world' = world /\ tok' = tok
           /\ ev' = Event("invoke", m, cls, S, n, IF how = "FAULT" THEN "FAULT" ELSE "HALT",
                          IF how = "false" THEN "false" ELSE "other", FALSE, TRUE)
      ELSE IF m.ok # "HALT"
      THEN \* argument variant that is refused even with the witnesses (negative amount, empty list, ...)
           /\ world' = world /\ tok' = tok
           \* (the log of a transaction that faults late may still list what a callee announced before)
           /\ \E nt \in (IF m.ok = "FAULT" THEN BOOLEAN ELSE {FALSE}) :
                 ev' = Event("invoke", m, cls, S, n, IF m.ok = "FAULT" THEN "FAULT" ELSE "HALT",
                             IF m.ok = "false" THEN "false" ELSE "other", nt, TRUE)
      ELSE /\ Changed(world, world', "st" \in EffOf(m, n))
           /\ Changed(tok, tok', "tok" \in EffOf(m, n))
           /\ \E ret \in {"true", "other"} : ev' = Event("invoke", m, cls, S, n, "HALT", ret, "ntf" \in EffOf(m, n), TRUE)

\* verify() used as the witness of the contract's own account in a transaction signed by S0:
\* the transaction is valid iff verify returns true; nothing is executed for an invalid one
Verify(vf, S0, n) ==
  LET S  == Norm(S0, vf.cls, n)
      m  == Sf(vf.c, "verify", 0)
      ok == VerifyAccepts(vf.cls, S)
  IN  /\ world' = world /\ tok' = tok
      /\ ev' = Event("verify", m, vf.cls, S, n, "HALT", IF ok THEN "true" ELSE "false", FALSE, ok)

Init == /\ world \in WorldSpace /\ tok \in WorldSpace
        /\ ev = Event("init", Sf("", "", 0), "safe", {}, 0, "HALT", "other", FALSE, TRUE)

Next == \/ \E n \in Sizes, m \in Methods : \E S0 \in SetsFor(m) : Invoke(m, S0, n)
        \/ \E n \in Sizes, vf \in Verifiers, S0 \in VerifySets : Verify(vf, S0, n)

Spec == Init /\ [][Next]_vars

-----------------------------------------------------------------------------
(***************************************************************************)
(* C03 as predicates over one step; e is the invocation (ev').             *)
(* e.S is the normalised signer set, e.cls the class required by the       *)
(* documentation.                                                          *)
(***************************************************************************)
Mutating(e) == e.act = "invoke" /\ ~e.safe

\* without the required witnesses: no contract storage changes anywhere, no tokens move, no notification
C03_Inert(e) ==
  Mutating(e) /\ ~Sufficient(e.cls, e.S) => world' = world /\ tok' = tok /\ ~e.ntf

\* exactly the required witnesses on the canonical valid arguments: the call goes through
C03_Succeeds(e) ==
  Mutating(e) /\ ~e.io /\ Exact(e.cls, e.S, e.n) => e.res = "HALT" /\ e.ret # "false"

\* methods declared safe never modify state, whoever signs
C03_SafeInert(e) ==
  e.act = "invoke" /\ e.safe => world' = world /\ tok' = tok /\ ~e.ntf

\* verify accepts only transactions carrying the Alphabet multi-signature (Proxy, Alphabet: or the majority one);
\* both channels: validity of a real transaction and the value returned to a plain invocation
C03_Verify(e) ==
  e.act = "verify" =>
     /\ (e.valid \/ e.ret = "true") => VerifyAccepts(e.cls, e.S)
     /\ world' = world /\ tok' = tok /\ ~e.ntf

TypeOK == /\ world \in WorldSpace /\ tok \in WorldSpace
          /\ \A m \in Methods : m.cls \in Classes /\ m.eff \subseteq {"st", "ntf", "tok"} /\ m.ref \in {"FAULT", "false", "HALT"} /\ m.ok \in {"HALT", "FAULT", "false"}

=============================================================================
