-------------------------- MODULE MainChainVoteTrace --------------------------
(***************************************************************************)
(* Trace monitor for C17: evaluates the round-machine predicates of        *)
(* MainChainVote (deciding) and its method transcriptions (binding) on     *)
(* executions of the real NeoFS contract deployed with notaryDisabled =    *)
(* true, recorded by harness/mainchain.  All variables are bound to the    *)
(* observed state of every line.  The only item that cannot be observed    *)
(* after a transaction in the middle of a block is the raw "ballots" value *)
(* (it has no getter); for such lines (obs.blk = FALSE) it is bound to the *)
(* value the Spec predicts, and checked against storage at the end of the  *)
(* block.  The properties never read it.                                   *)
(***************************************************************************)
EXTENDS MainChainVote, Json, SequencesExt

CONSTANT TraceFile

VARIABLES l, rd
tvars == <<alpha, ballots, config, cands, gasC, gasP, cur, ev, l, rd>>

Trace == ndJsonDeserialize(TraceFile)

M_Ids     == {"i1", "i2", "i3"}
M_Cands   == {"c1", "c2"}
M_CfgKeys == {"ka", "kb", "empty"}
M_Payees  == {"p1", "p2"}
M_Empty   == {}
M_NoList  == <<>>

EvOf(r) == Event(r.act, ToSet(r.S), r.id, r.key, r.val, r.lst, r.cand, r.payee, r.amt, r.gap, r.res, r.ntf)

Flag(ok, prop, pred, r, tags) ==
  IF ok THEN TRUE
  ELSE PrintT("FLAG|" \o ToString(l + 1) \o "|" \o prop \o "|" \o pred \o "|" \o r.act \o "|" \o ToString(r.t)
              \o "|" \o ToString(tags))

\* deviation tag: the step is a setConfig without any Alphabet witness that was not rejected, or a vote
\* on a ballot that already holds the nil voter such an invocation leaves behind
Tags(r) ==
  LET e == EvOf(r) IN
  IF \/ e.act = "setConfig" /\ Members(e) = {} /\ e.res = "HALT"
     \/ \E i \in 1..Len(ballots) : Nil \in Ran(ballots[i].voters)
  THEN {"StrangerVotes"} ELSE {}

\* which variant of setConfig's guard explains the recorded outcome (prefer the repaired one)
DevOf(e) == IF ResultOf({}, e).res = e.res THEN {} ELSE {"StrangerVotes"}

SpecStep(r) == LET e == EvOf(r) IN Apply({}, e) \/ Apply({"StrangerVotes"}, e)

RawApi(o) == /\ o.alpha = o.alphaApi
             /\ ToSet(o.cands) = ToSet(o.candsApi)
             /\ \A k \in CfgKeys : o.cfg[k] = o.cfgApi[k]

Judge(r) ==
  LET e == EvOf(r)
      t == Tags(r)
  IN  /\ Flag(C17_FiresIff(rd, e), "C17", "FiresIff", r, t)
      /\ Flag(C17_StrangerRejected(e), "C17", "StrangerRejected", r, t)
      /\ Flag(C17_RejectedInert(e), "C17", "RejectedInert", r, t)
      /\ Flag(C17_MemberAccepted(e), "C17", "MemberAccepted", r, t)
      /\ Flag(C17_OwnerRemoves(e), "C17", "OwnerRemoves", r, t)
      /\ Flag(r.bad = <<>> /\ r.obs.stray = <<>>, "DRIFT", "Mapped", r, t)
      /\ Flag(r.obs.blk => RawApi(r.obs), "DRIFT", "RawApi", r, t)
      /\ Flag(SpecStep(r), "DRIFT", "SpecStep", r, t)

TraceInit ==
  /\ l = 0
  /\ alpha = <<>> /\ ballots = <<>> /\ config = [k \in CfgKeys |-> Nil] /\ cands = {}
  /\ gasC = 0 /\ gasP = [p \in Payees |-> 0] /\ cur = 0
  /\ ev = Inv0("init", {}, Nil, Nil, Nil, <<>>, Nil, Nil, 0, 0)
  /\ rd = RdInit

TraceNext ==
  /\ l < Len(Trace)
  /\ l' = l + 1
  /\ LET r == Trace[l + 1]
         o == r.obs
     IN  /\ alpha' = o.alpha
         /\ config' = [k \in CfgKeys |-> o.cfg[k]]
         /\ cands' = ToSet(o.cands)
         /\ gasC' = o.gasC
         /\ gasP' = [p \in Payees |-> o.gasP[p]]
         /\ cur' = r.h
         /\ ev' = EvOf(r)
         /\ ballots' = IF o.blk \/ r.act = "reset" THEN o.bl ELSE ResultOf(DevOf(EvOf(r)), EvOf(r)).ballots
         /\ IF r.act = "reset"
            THEN rd' = RdInit
            ELSE rd' = RdNext(rd, ev') /\ Judge(r)
         /\ IF l' = Len(Trace) THEN PrintT("DONE|" \o ToString(l')) ELSE TRUE

TraceSpec == TraceInit /\ [][TraceNext]_tvars
=============================================================================
