----------------------------- MODULE DeployTrace -----------------------------
(***************************************************************************)
(* Trace monitor of property C13.                                          *)
(*                                                                         *)
(* Helper lines (act = divide / window / codec / declen / cksum / ckrej):  *)
(* results of the REAL pure helpers of /repo/deploy recorded by            *)
(* harness/deploy/helpers_test.go.  The C13 predicates of DeployHelpers    *)
(* are evaluated on what the real function returned (this decides), and    *)
(* the transcribed operator is re-evaluated on the recorded arguments and  *)
(* compared with the recorded result (binding; a difference is DRIFT).     *)
(***************************************************************************)
EXTENDS DeployHelpers, Json, SequencesExt

CONSTANT TraceFile

VARIABLES l
tvars == <<l>>

Trace == ndJsonDeserialize(TraceFile)

Flag(ok, prop, pred, r, tags) ==
  IF ok THEN TRUE
  ELSE PrintT("FLAG|" \o ToString(l + 1) \o "|" \o prop \o "|" \o pred \o "|" \o r.act \o "|" \o ToString(r.t)
              \o "|" \o ToString(tags))

NoTags == {}

JudgeHelper(r) ==
  CASE r.act = "divide" ->
         /\ Flag(IsU64(r.amount) /\ \A j \in 1..Len(r.calls) : IsU64(r.calls[j][2]), "DRIFT", "Encoding", r, NoTags)
         /\ Flag(DivSum(r.amount, r.n, r.calls), "C13", "DivSum", r, NoTags)
         /\ Flag(DivEven(r.amount, r.n, r.calls), "C13", "DivEven", r, NoTags)
         /\ Flag(DivDense(r.amount, r.n, r.calls), "C13", "DivDense", r, NoTags)
         /\ Flag(r.calls = Divide(r.amount, r.n), "DRIFT", "Divide", r, NoTags)
    [] r.act = "window" ->
         LET res == [nonce |-> r.nonce, vub |-> r.vub] IN
         /\ Flag(IsU32(r.h), "DRIFT", "Encoding", r, NoTags)
         /\ Flag(WinAligned(r.h, res), "C13", "WinAligned", r, NoTags)
         /\ Flag(WinValid(r.h, res), "C13", "WinValid", r, NoTags)
         /\ Flag(res = Window(r.h), "DRIFT", "Window", r, NoTags)
         /\ Flag(r.faultRefused, "DRIFT", "WindowFaultRefused", r, NoTags)
    [] r.act = "codec" ->
         LET d == [sender |-> r.sender, vub |-> r.vub, nonce |-> r.nonce] IN
         /\ Flag(CodecRoundTrip(d, r.dec), "C13", "CodecRoundTrip", r, NoTags)
         /\ Flag(r.bytes = Bytes28(d) /\ r.strIsB64OfBytes, "DRIFT", "Bytes28", r, NoTags)
         /\ Flag(Decode28(r.bytes, 20) = r.dec, "DRIFT", "Decode28", r, NoTags)
    [] r.act = "declen" ->
         /\ Flag(IF r.b64 THEN CodecLength(r.len, r.ok, 20) ELSE ~r.ok, "C13", "CodecLength", r, NoTags)
         /\ Flag(r.ok => r.same, "C13", "CodecRoundTrip", r, NoTags)
    [] r.act = "cksum" ->
         /\ Flag(CkRoundTrip(r.data, r.back), "C13", "CkRoundTrip", r, NoTags)
         /\ Flag(r.un = Unshift(r.sum, r.data), "DRIFT", "Unshift", r, NoTags)
         /\ Flag(r.back = Shift(r.sum, r.un), "DRIFT", "Shift", r, NoTags)
    [] r.act = "ckrej" ->
         /\ Flag(CkReject(r.sum, r.arg, r.out), "C13", "CkReject", r, NoTags)
         /\ Flag(r.out = Shift(r.sum, r.arg), "DRIFT", "Shift", r, NoTags)
    [] OTHER -> Flag(FALSE, "DRIFT", "UnknownAct", r, NoTags)

TraceInit == l = 0

TraceNext ==
  /\ l < Len(Trace)
  /\ l' = l + 1
  /\ LET r == Trace[l + 1]
     IN  IF r.act = "reset" THEN TRUE ELSE JudgeHelper(r)
  /\ IF l' = Len(Trace) THEN PrintT("DONE|" \o ToString(l')) ELSE TRUE

TraceSpec == TraceInit /\ [][TraceNext]_tvars
=============================================================================
