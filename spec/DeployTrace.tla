----------------------------- MODULE DeployTrace -----------------------------
(***************************************************************************)
(* Trace monitor of property C13.                                          *)
(*                                                                         *)
(* Helper lines (act = divide / window / codec / declen / cksum / ckrej):  *)
(* results of the REAL pure helpers of /repo/deploy recorded by            *)
(* harness/deploy/helpers_test.go.  The C13 predicates of DeployHelpers    *)
(* are evaluated on what the real function returned (this decides), and    *)
(* the transcribed operator is re-evaluated on the recorded arguments and  *)
(* compared with the recorded result (binding; a difference is DRIFT).     *)
(*                                                                         *)
(* End-to-end lines (act = block / end / rerun after a reset of kind e2e): *)
(* the chain projection recorded by harness/deploy/e2e_test.go after every *)
(* block in which it changed, while the unmodified deploy.Deploy ran once  *)
(* per committee member against one in-process chain.  The safety          *)
(* predicates of DeployProps are evaluated on every projection, the final  *)
(* predicates on the `end` line of a converged run, convergence on the     *)
(* `end` line of a run that did not converge (only a run whose projection  *)
(* stood still for three lifetimes of the shared transaction data while    *)
(* every member that has to take part was running counts as a violation;   *)
(* anything else is inconclusive), idempotence on the `rerun` line.  The   *)
(* order of the stages of Deploy.tla is the binding (drift only).          *)
(***************************************************************************)
EXTENDS DeployHelpers, DeployProps, Json, SequencesExt

CONSTANT TraceFile

VARIABLES l, st
tvars == <<l, st>>

Trace == ndJsonDeserialize(TraceFile)

Flag(ok, prop, pred, r, tags) ==
  IF ok THEN TRUE
  ELSE PrintT("FLAG|" \o ToString(l + 1) \o "|" \o prop \o "|" \o pred \o "|" \o r.act \o "|" \o ToString(r.t)
              \o "|" \o ToString(tags))

NoTags == {}

JudgeHelper(r) ==
  CASE r.act = "divide" ->
         /\ Flag(IsU64(r.amount) /\ \A j \in 1..Len(r.calls) : IsU64(r.calls[j][2]), "DRIFT", "Encoding", r, NoTags)
         /\ Flag(DivSum(r.amount, r.n, r.calls), "C13", "DivSum", r, NoTags)
         /\ Flag(DivEven(r.amount, r.n, r.calls), "C13", "DivEven", r, NoTags)
         /\ Flag(DivDense(r.amount, r.n, r.calls), "C13", "DivDense", r, NoTags)
         /\ Flag(r.calls = Divide(r.amount, r.n), "DRIFT", "Divide", r, NoTags)
    [] r.act = "window" ->
         LET res == [nonce |-> r.nonce, vub |-> r.vub] IN
         /\ Flag(IsU32(r.h), "DRIFT", "Encoding", r, NoTags)
         /\ Flag(WinAligned(r.h, res), "C13", "WinAligned", r, NoTags)
         /\ Flag(WinValid(r.h, res), "C13", "WinValid", r, NoTags)
         /\ Flag(res = Window(r.h), "DRIFT", "Window", r, NoTags)
         /\ Flag(r.faultRefused, "DRIFT", "WindowFaultRefused", r, NoTags)
    [] r.act = "codec" ->
         LET d == [sender |-> r.sender, vub |-> r.vub, nonce |-> r.nonce] IN
         /\ Flag(CodecRoundTrip(d, r.dec), "C13", "CodecRoundTrip", r, NoTags)
         /\ Flag(r.bytes = Bytes28(d) /\ r.strIsB64OfBytes, "DRIFT", "Bytes28", r, NoTags)
         /\ Flag(Decode28(r.bytes, 20) = r.dec, "DRIFT", "Decode28", r, NoTags)
    [] r.act = "declen" ->
         /\ Flag(IF r.b64 THEN CodecLength(r.len, r.ok, 20) ELSE ~r.ok, "C13", "CodecLength", r, NoTags)
         /\ Flag(r.ok => r.same, "C13", "CodecRoundTrip", r, NoTags)
    [] r.act = "cksum" ->
         /\ Flag(CkRoundTrip(r.data, r.back), "C13", "CkRoundTrip", r, NoTags)
         /\ Flag(r.un = Unshift(r.sum, r.data), "DRIFT", "Unshift", r, NoTags)
         /\ Flag(r.back = Shift(r.sum, r.un), "DRIFT", "Shift", r, NoTags)
    [] r.act = "ckrej" ->
         /\ Flag(CkReject(r.sum, r.arg, r.out), "C13", "CkReject", r, NoTags)
         /\ Flag(r.out = Shift(r.sum, r.arg), "DRIFT", "Shift", r, NoTags)
    [] OTHER -> Flag(FALSE, "DRIFT", "UnknownAct", r, NoTags)


\* ------------------------------------------------------------------ end-to-end lines
KSys == 7
SysNum(sys) == CASE sys = "proxy" -> 1 [] sys = "audit" -> 2 [] sys = "netmap" -> 3 [] sys = "balance" -> 4
                 [] sys = "reputation" -> 5 [] sys = "neofsid" -> 6 [] sys = "container" -> 7 [] OTHER -> 0
MajOf(n) == n - ((n - 1) \div 2)
StagnationBound == 360        \* three lifetimes (120 blocks) of the shared transaction data

ConsOf(o) == {[sys |-> c.sys, dep |-> c.dep, id |-> c.id, upd |-> c.upd, ok |-> c.ok] : c \in ToSet(o.contracts)}
RecsOf(o) == {[dom |-> d.dom, want |-> d.want, idx |-> d.idx, n |-> d.n, sys |-> d.sys, dep |-> d.dep, hash |-> d.hash, ok |-> d.ok]
             : d \in ToSet(o.neofs)}
BootOf(o) == {[idx |-> d.idx, st |-> d.st, n |-> d.n] : d \in ToSet(o.boot)}
P(r)    == [n |-> r.n, cons |-> ConsOf(r.obs), recs |-> RecsOf(r.obs)]
\* what has to stand still for a run to count as stagnant (funds and record contents are left out: the shared data is
\* re-created with a new nonce in every round of a run that does not converge)
BootAbs(o) == {[idx |-> d.idx, st |-> d.st] : d \in ToSet(o.boot)}      \* without the number of records (see e2e_test.go)
Abs(r)  == <<r.obs.notary, r.obs.alpha, r.obs.notaryX, r.obs.alphaX, ConsOf(r.obs), RecsOf(r.obs), BootAbs(r.obs), r.obs.nnsNames,
             r.obs.cand, r.obs.gas.proxy > 0, r.obs.neo.cmt > 0>>

Reached(r) ==
  LET o == r.obs IN
  (IF \E c \in ConsOf(o) : c.id = 1 /\ c.sys = "nns" THEN {<<"nns", 0>>} ELSE {})
  \cup (IF Len(o.notary) = r.n THEN {<<"ntr", 0>>} ELSE {})
  \cup (IF Len(o.alpha) = r.n THEN {<<"alp", 0>>} ELSE {})
  \cup (IF o.gas.proxy > 0 THEN {<<"pgas", 0>>} ELSE {})
  \cup (IF o.cand = r.n THEN {<<"cand", 0>>} ELSE {})
  \cup (IF \E i \in 1..Len(o.neo.a) : o.neo.a[i] > 0 THEN {<<"neo", 0>>} ELSE {})
  \cup {<<"con", SysNum(c.sys)>> : c \in {c \in ConsOf(o) : SysNum(c.sys) > 0}}
  \cup {<<"con", KSys + 1 + c.dep>> : c \in {c \in ConsOf(o) : c.sys = "alphabet" /\ c.dep >= 0}}
  \cup {<<"rec", SysNum(d.want)>> : d \in {d \in RecsOf(o) : d.n >= 1 /\ d.idx < 0}}
  \cup {<<"rec", KSys + 1 + d.idx>> : d \in {d \in RecsOf(o) : d.n >= 1 /\ d.idx >= 0}}

MemSt(r)   == [i \in 0..(r.n - 1) |-> r.mem[i + 1].st]
LineFair(r, absent) == \A i \in 0..(r.n - 1) : MemSt(r)[i] \in {"run", "done"} \/ (MemSt(r)[i] = "off" /\ i \in absent)

\* final predicates of a converged run
RolesExactF(r) == /\ ToSet(r.obs.notary) = 0..(r.n - 1) /\ r.obs.notaryX = 0
                  /\ ToSet(r.obs.alpha) = 0..(r.n - 1) /\ r.obs.alphaX = 0
NNSIdOne(r)    == \E c \in ConsOf(r.obs) : c.id = 1 /\ c.sys = "nns" /\ c.ok
AllResolve(r)  == \A d \in RecsOf(r.obs) : d.n = 1 /\ d.sys = d.want /\ d.ok
AlphabetPerMember(r) ==
  LET al == {d \in RecsOf(r.obs) : d.idx >= 0} IN
  Cardinality(al) = r.n /\ Cardinality({d.hash : d \in al}) = r.n
NeoShares(r) ==
  LET a == r.obs.neo.a IN
  /\ \A i, j \in 1..Len(a) : a[i] >= 0 /\ a[i] <= a[j] + 1
  /\ FoldLeft(LAMBDA x, y : x + y, 0, a) + r.obs.neo.cmt + (IF st.cmtIsVal THEN 0 ELSE r.obs.neo.val) = 100000000
OwnAlphabet(r) == \A d \in RecsOf(r.obs) : d.idx >= 0 => d.dep = d.idx

\* deviation tags: predicates over one line that explain a failure by a listed finding
\* NotaryIndexShift: a majority of signature records is published, but fewer than needed among the domains 1..n-2
\* the leader reads (notary.go:390-448 scans domains 0..n-2 with the keys 0..n-2)
TagIndexShift(r) ==
  LET pub  == {b.idx : b \in {b \in BootOf(r.obs) : b.idx >= 1 /\ b.st = "rec"}}
      need == MajOf(r.n) - 1
  IN  /\ Len(r.obs.notary) < r.n
      /\ \E b \in BootOf(r.obs) : b.idx = -1 /\ b.st = "rec"
      /\ Cardinality(pub) >= need /\ Cardinality(pub \cap (1..(r.n - 2))) < need
\* WitnessOrder: the node refused a designation transaction of the leader for an invalid witness, and the witness needs
\* >= 2 remote signatures (they are appended in map iteration order, notary.go:478-491)
TagWitnessOrder(r) == MajOf(r.n) - 1 >= 2 /\ r.mem[1].badDesignate > 0
\* DesignationNotResent: the leader's designation transaction was acknowledged but never pooled; the shared data and
\* enough signature records are published, yet the role is not designated (notary.go:463-470: triedDesignateRoleTx is
\* never reset and the wrong monitor is consulted, so the leader re-creates the shared data on every tick instead of
\* sending the transaction again)
TagDesignationNotResent(r) ==
  /\ r.n > 1 /\ Len(r.obs.notary) < r.n /\ r.mem[1].lost > 0
  /\ "tx:designate" \in DOMAIN r.mem[1].sent
  /\ \E b \in BootOf(r.obs) : b.idx = -1 /\ b.st = "rec"
  /\ Cardinality({b \in BootOf(r.obs) : b.idx >= 1 /\ b.st = "rec"}) >= MajOf(r.n) - 1
Tags(r) == (IF TagIndexShift(r) /\ ~TagDesignationNotResent(r) THEN {"NotaryIndexShift"} ELSE {})
           \cup (IF TagWitnessOrder(r) THEN {"WitnessOrder"} ELSE {})
           \cup (IF TagDesignationNotResent(r) THEN {"DesignationNotResent"} ELSE {})

Zero4(d) == d.deploy = 0 /\ d.update = 0 /\ d.register = 0 /\ d.designate = 0

JudgeE2E(r) ==
  LET p        == P(r)
      \* refusals for lack of GAS count as (pending) progress only while the first deployment is being saved for out of
      \* the block rewards, i.e. before the NNS contract exists
      progress == st.abs # Abs(r) \/ (r.fw > 0 /\ r.obs.contracts = <<>>)
      \* the stagnation window starts at the last progress or at the last line before which some member that has to take
      \* part was not running (statuses only change on recorded lines)
      lfair    == LineFair(r, st.absent)
      chg      == IF progress \/ ~lfair \/ ~st.fair THEN r.h ELSE st.chg
      fair     == lfair
      t        == Tags(r)
  IN  /\ Flag(UniqueContractsP(p, "alphabet"), "C13", "UniqueContracts", r, t)
      /\ Flag(RecordsFunctionalP(p), "C13", "RecordsFunctional", r, t)
      /\ Flag(~(st.bad0 = 0 /\ r.mem[1].badDesignate > 0), "C13", "ValidDesignation", r, t)
      /\ Flag(Closed(Reached(r), KSys, r.n), "DRIFT", "StagesOrdered", r, t)
      /\ Flag(Len(r.obs.notary) \in {0, r.n} /\ Len(r.obs.alpha) \in {0, r.n} /\ r.obs.notaryX = 0 /\ r.obs.alphaX = 0,
              "DRIFT", "RolesAllOrNothing", r, t)
      /\ Flag(\A b \in BootOf(r.obs) : b.n <= 1, "DRIFT", "BootSingleRecord", r, t)   \* stale records are replaced (setRecord)
      /\ Flag(\A c \in ConsOf(r.obs) : c.upd = 0 /\ c.ok /\ (c.sys = "alphabet" \/ c.dep = 0), "DRIFT", "FreshContracts", r, t)
      /\ IF r.act = "end"
         THEN IF r.done
              THEN IF r.goal # "all" THEN TRUE ELSE      \* a run that stops at the Notary role has no final state to judge
                   /\ Flag(RolesExactF(r), "C13", "RolesExact", r, t)
                   /\ Flag(NNSIdOne(r), "C13", "NNSIdOne", r, t)
                   /\ Flag(AllResolve(r), "C13", "AllResolve", r, t)
                   /\ Flag(AlphabetPerMember(r), "C13", "AlphabetPerMember", r, t)
                   /\ Flag(NeoShares(r), "C13", "NeoShares", r, t)
                   /\ Flag(OwnAlphabet(r), "DRIFT", "OwnAlphabet", r, t)
              ELSE /\ Flag(r.why # "error", "C13", IF st.lossy THEN "RunsSucceedLossy" ELSE "RunsSucceed", r, t)
                   /\ Flag(~(r.why # "error" /\ r.h - chg >= StagnationBound /\ fair /\ Len(r.obs.notary) < r.n
                             /\ st.absent # {} /\ 0 \notin st.absent /\ 2 * Cardinality(st.absent) < r.n),
                           "C13", "NotaryMajority", r, t)
                   \* in a run with lossy delivery (a submission acknowledged to the member but never pooled - a fault
                   \* the quantifier of C13 does not name) the same verdict is reported under its own predicate name
                   /\ Flag(~(r.why # "error" /\ r.h - chg >= StagnationBound /\ fair
                             /\ (st.absent = {} \/ Len(r.obs.notary) = r.n)),
                           "C13", IF st.lossy THEN "ConvergesLossy" ELSE "Converges", r, t)
         ELSE IF r.act = "rerun"
         THEN /\ Flag(r.done, "C13", "RerunSucceeds", r, t)
              /\ Flag(\A i \in 1..Len(r.mem) : Zero4(r.mem[i].d4), "C13", "Idempotent", r, t)
              /\ Flag(st.endabs = Abs(r), "C13", "IdempotentChain", r, t)
         ELSE TRUE
      /\ st' = [st EXCEPT !.abs = Abs(r), !.chg = chg, !.fair = fair, !.bad0 = r.mem[1].badDesignate,
                          !.endabs = IF r.act = "end" THEN Abs(r) ELSE st.endabs]

NoSt == [kind |-> "helpers", lossy |-> FALSE, cmtIsVal |-> FALSE, abs |-> <<>>, chg |-> 0, fair |-> TRUE, absent |-> {}, bad0 |-> 0, endabs |-> <<>>]

TraceInit == l = 0 /\ st = NoSt

TraceNext ==
  /\ l < Len(Trace)
  /\ l' = l + 1
  /\ LET r == Trace[l + 1]
     IN  IF r.act = "reset"
         THEN st' = IF r.kind = "e2e"
                    THEN [kind |-> "e2e", lossy |-> (\E i \in 1..Len(r.plan) : r.plan[i].losses # <<>>), cmtIsVal |-> r.cmtIsVal, abs |-> Abs(r), chg |-> 0, fair |-> TRUE,
                          absent |-> {i \in 0..(r.n - 1) : r.plan[i + 1].afterNotary}, bad0 |-> 0, endabs |-> <<>>]
                    ELSE NoSt
         ELSE IF st.kind = "e2e" THEN JudgeE2E(r) ELSE JudgeHelper(r) /\ st' = st
  /\ IF l' = Len(Trace) THEN PrintT("DONE|" \o ToString(l')) ELSE TRUE

TraceSpec == TraceInit /\ [][TraceNext]_tvars
=============================================================================
