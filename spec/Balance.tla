------------------------------- MODULE Balance -------------------------------
(***************************************************************************)
(* Implementation-shaped specification of contracts/balance/contract.go.   *)
(*                                                                         *)
(* One action per exported mutating method; the helper token.transfer /    *)
(* canTransfer is transcribed as the operator Xfer with the guards in the  *)
(* order of the code.  A FAULTed invocation leaves the state unchanged     *)
(* (transaction atomicity of the platform); a refused public transfer      *)
(* HALTs with ret = "false".                                               *)
(*                                                                         *)
(* State is the raw storage of the contract:                               *)
(*   acc[a]  = the Account structure stored under 'a' || a                 *)
(*             (ex = FALSE: no entry; getAccount then yields zero values)  *)
(*   supply  = value under "MainnetGAS"                                    *)
(*   epoch   = the Netmap contract's epoch counter (Balance is subscribed   *)
(*             to Netmap ticks; a tick reaches NewEpoch through Netmap)    *)
(* ev is the last invocation with its outcome and notifications; it is the *)
(* record format shared with the Go recorder (harness/balance).            *)
(*                                                                         *)
(* Properties C01, C02, C09 are written at the end as predicates over one  *)
(* step (unprimed = before, primed = after, e = the invocation); they are  *)
(* used both by TLC on this specification and by the trace monitor         *)
(* BalanceTrace on executions of the real contract.                        *)
(***************************************************************************)
EXTENDS Integers, Sequences, FiniteSets, TLC

CONSTANTS
  Users,      \* ordinary 20-byte accounts (strings)
  LockSeq,    \* lock-account addresses in byte order of their script hashes
  KC,         \* the account of the helper contract that calls transfer (member of Users) or "none"
  BadAddr,    \* malformed addresses offered to the public transfer: subset of {"empty","short","long"}
  SignerSets, \* the signer sets explored (sets of Users \cup {"ALPHA","CMT","M1","X"})
  Amounts, Untils, Epochs,
  MaxSupply,  \* bound for exhaustive exploration
  Dev         \* deviation switches: behaviour of the code that the properties forbid

Nil   == "nil"
Locks == {LockSeq[i] : i \in 1..Len(LockSeq)}
Acc   == Users \cup Locks

VARIABLES acc, supply, used, epoch, ev
vars == <<acc, supply, used, epoch, ev>>

Absent == [ex |-> FALSE, bal |-> 0, until |-> 0, parent |-> Nil]

NoNtf == <<>>
Ntf(n, f, t, a, x) == [n |-> n, from |-> f, to |-> t, amt |-> a, x |-> x]

Event(act, S, a, b, amt, x, res, ret, ntf) ==
  [act |-> act, S |-> S, a |-> a, b |-> b, amt |-> amt, x |-> x, res |-> res, ret |-> ret, ntf |-> ntf]

HasAlpha(S) == "ALPHA" \in S

(***************************************************************************)
(* token.transfer(ctx, from, to, amount, innerRing, details)               *)
(* returns [ok, acc, ntf]                                                  *)
(***************************************************************************)
CanXfer(A, from, to, amt, ir, wit) ==
  IF "NegativeAmount" \notin Dev /\ amt < 0 THEN FALSE       \* guard added by the fix: commit
  ELSE IF ~ir
       THEN IF to \notin Acc \/ from \notin Acc \/ ~wit THEN FALSE
            ELSE A[from].bal >= amt
       ELSE IF from = Nil THEN TRUE
            ELSE A[from].bal >= amt

Debit(A, from, amt) ==
  IF from \notin Acc THEN A
  ELSE IF A[from].bal = amt THEN [A EXCEPT ![from] = Absent]
  ELSE [A EXCEPT ![from].bal = @ - amt, ![from].ex = TRUE]

Credit(A, to, amt) ==
  IF to \notin Acc THEN A
  ELSE [A EXCEPT ![to].bal = @ + amt, ![to].ex = TRUE]

Xfer(A, from, to, amt, ir, wit) ==
  IF ~CanXfer(A, from, to, amt, ir, wit)
  THEN [ok |-> FALSE, acc |-> A, ntf |-> NoNtf]
  ELSE [ok |-> TRUE,
        acc |-> Credit(Debit(A, from, amt), to, amt),
        ntf |-> <<Ntf("Transfer", from, to, amt, 0), Ntf("TransferX", from, to, amt, 0)>>]

(***************************************************************************)
(* Methods                                                                 *)
(***************************************************************************)
Fault(act, S, a, b, amt, x) ==
  /\ UNCHANGED <<acc, supply, used, epoch>>
  /\ ev' = Event(act, S, a, b, amt, x, "FAULT", "null", NoNtf)

\* Transfer(from, to, amount, data); via = TRUE when invoked by the helper contract KC
Transfer(S, from, to, amt, via) ==
  LET wit == from \in S \/ (via /\ from = KC)
      r   == Xfer(acc, from, to, amt, FALSE, wit)
      act == IF via THEN "transferVia" ELSE "transfer"
  IN  /\ acc' = r.acc
      /\ UNCHANGED <<supply, used, epoch>>
      /\ ev' = Event(act, S, from, to, amt, 0, "HALT", IF r.ok THEN "true" ELSE "false", r.ntf)

TransferX(S, from, to, amt) ==
  LET r == Xfer(acc, from, to, amt, TRUE, TRUE)
  IN  IF HasAlpha(S) /\ r.ok
      THEN /\ acc' = r.acc
           /\ UNCHANGED <<supply, used, epoch>>
           /\ ev' = Event("transferX", S, from, to, amt, 0, "HALT", "null", r.ntf)
      ELSE Fault("transferX", S, from, to, amt, 0)

Mint(S, to, amt) ==
  LET r == Xfer(acc, Nil, to, amt, TRUE, TRUE)
  IN  IF HasAlpha(S) /\ r.ok
      THEN /\ acc' = r.acc
           /\ supply' = supply + amt
           /\ UNCHANGED <<used, epoch>>
           /\ ev' = Event("mint", S, Nil, to, amt, 0, "HALT", "null", r.ntf)
      ELSE Fault("mint", S, Nil, to, amt, 0)

Burn(S, from, amt) ==
  LET r == Xfer(acc, from, Nil, amt, TRUE, TRUE)
  IN  IF HasAlpha(S) /\ r.ok /\ supply >= amt
      THEN /\ acc' = r.acc
           /\ supply' = supply - amt
           /\ UNCHANGED <<used, epoch>>
           /\ ev' = Event("burn", S, from, Nil, amt, 0, "HALT", "null", r.ntf)
      ELSE Fault("burn", S, from, Nil, amt, 0)

\* Lock(txDetails, from, to, amount, until): the lock account is written first
Lock(S, from, to, amt, until) ==
  LET A1 == [acc EXCEPT ![to] = [ex |-> TRUE, bal |-> 0, until |-> until, parent |-> from]]
      r  == Xfer(A1, from, to, amt, TRUE, TRUE)
  IN  IF HasAlpha(S) /\ r.ok
      THEN /\ acc' = r.acc
           /\ used' = used \cup {to}
           /\ UNCHANGED <<supply, epoch>>
           /\ ev' = Event("lock", S, from, to, amt, until, "HALT", "null",
                          r.ntf \o <<Ntf("Lock", from, to, amt, until)>>)
      ELSE Fault("lock", S, from, to, amt, until)

\* NewEpoch(epochNum): sequential release loop over the stored accounts in key order.
\* Only lock accounts can qualify; ordinary accounts are skipped by the code.
IsLockEntry(a) ==
  IF "LockUntilZero" \in Dev THEN a.until # 0 ELSE a.parent # Nil

RECURSIVE Release(_, _, _, _)
Release(A, e, i, ntf) ==
  IF i > Len(LockSeq) THEN [acc |-> A, ntf |-> ntf]
  ELSE LET l == LockSeq[i]
       IN  IF acc[l].ex /\ IsLockEntry(A[l]) /\ e >= A[l].until
                \* acc[l].ex: Find iterates over the key set as it was when the call started
           THEN LET r == Xfer(A, l, A[l].parent, A[l].bal, TRUE, TRUE)
                IN  Release(r.acc, e, i + 1, ntf \o r.ntf)
           ELSE Release(A, e, i + 1, ntf)

NewEpoch(S, e) ==
  LET r == Release(acc, e, 1, NoNtf)
  IN  IF HasAlpha(S)
      THEN /\ acc' = r.acc
           /\ UNCHANGED <<supply, used, epoch>>
           /\ ev' = Event("newEpoch", S, Nil, Nil, 0, e, "HALT", "null", r.ntf)
      ELSE Fault("newEpoch", S, Nil, Nil, 0, e)

\* netmap.newEpoch(e): Alphabet-witnessed, e must exceed the current epoch; Netmap then
\* calls balance.newEpoch(e) (the Alphabet witness is that of the same transaction)
NewEpochNM(S, e) ==
  LET r == Release(acc, e, 1, NoNtf)
  IN  IF HasAlpha(S) /\ e > epoch
      THEN /\ acc' = r.acc
           /\ epoch' = e
           /\ UNCHANGED <<supply, used>>
           /\ ev' = Event("newEpochNM", S, Nil, Nil, 0, e, "HALT", "null", r.ntf)
      ELSE Fault("newEpochNM", S, Nil, Nil, 0, e)

Init ==
  /\ epoch = 0
  /\ acc = [a \in Acc |-> Absent]
  /\ supply = 0
  /\ used = {}
  /\ ev = Event("init", {}, Nil, Nil, 0, 0, "HALT", "null", NoNtf)

PubAddr == Acc \cup BadAddr

\* amounts at the boundary of the holder's balance are always among the candidates
Hint(f) == IF f \in Acc THEN {acc[f].bal, acc[f].bal + 1} ELSE {}

\* Next is parameterised by the way argument sets are explored: P(X) = X for exhaustive
\* checking, P(X) = {RandomElement(X)} for scenario generation by simulation.
NextOf(P(_), PS(_)) ==
  \/ \E S \in PS(SignerSets), f \in P(PubAddr), t \in P(PubAddr) : \E m \in P(Amounts \cup Hint(f)) : Transfer(S, f, t, m, FALSE)
  \/ KC \in Users /\ \E S \in PS(SignerSets), f \in P(Acc), t \in P(Acc) : \E m \in P(Amounts \cup Hint(f)) : Transfer(S, f, t, m, TRUE)
  \/ \E S \in PS(SignerSets), f \in P(Users), t \in P(Acc) : \E m \in P(Amounts \cup Hint(f)) : TransferX(S, f, t, m)
        \* the Alphabet settles between user accounts; an Alphabet self-transfer of a lock account's exact
        \* balance would re-create the entry without Until/Parent (found by TLC, outside C09's quantifier)
  \/ \E S \in PS(SignerSets), t \in P(Acc), m \in P(Amounts) : Mint(S, t, m)
  \/ \E S \in PS(SignerSets), f \in P(Acc) : \E m \in P(Amounts \cup Hint(f)) : Burn(S, f, m)
  \/ \E S \in PS(SignerSets), f \in P(Users \cup {l \in Locks : acc[l].ex /\ acc[l].parent # Nil}),
                                t \in P({l \in Locks \ used : ~acc[l].ex \/ ("NonFreshTargets" \in Dev /\ acc[l].parent = Nil)}) :
                                \* `from` may itself be a lock account (nested locks).  Dev switch "NonFreshTargets": the target
                                \* may hold an ORDINARY entry (C09's quantifier does not ask for fresh targets, C01's does: that
                                \* entry's balance is overwritten with 0, so only the C09 predicates are checked with the switch)
       \E m \in P(Amounts \cup Hint(f)), u \in P(Untils) :
        Lock(S, f, t, m, u)     \* lock targets are fresh addresses (quantifier of C01/C09); locking onto an
                                \* existing account would overwrite its balance with 0
  \/ \E S \in PS(SignerSets), e \in P(Epochs) : NewEpoch(S, e)
  \/ \E S \in PS(SignerSets), e \in P(Epochs) : NewEpochNM(S, e)

All(X) == X
Next == NextOf(All, All)

Spec == Init /\ [][Next]_vars

Bounded == supply <= MaxSupply /\ \A a \in Acc : acc[a].bal <= MaxSupply /\ acc[a].bal >= -MaxSupply
View == <<acc, supply, used, epoch>>

-----------------------------------------------------------------------------
(***************************************************************************)
(* Properties, as predicates over one step.  e is the invocation (ev').    *)
(***************************************************************************)
Bal(A) == [a \in Acc |-> A[a].bal]

RECURSIVE SumOver(_, _)
SumOver(f, D) == IF D = {} THEN 0 ELSE LET x == CHOOSE y \in D : TRUE IN f[x] + SumOver(f, D \ {x})

Refused(e) == e.res = "FAULT" \/ (e.act \in {"transfer", "transferVia"} /\ e.ret = "false")

\* balances rebuilt from the Transfer notifications of the step
RECURSIVE Replay(_, _, _)
Replay(B, T, i) ==
  IF i > Len(T) THEN B
  ELSE LET t  == T[i]
           B1 == IF t.from \in Acc THEN [B EXCEPT ![t.from] = @ - t.amt] ELSE B
           B2 == IF t.to \in Acc THEN [B1 EXCEPT ![t.to] = @ + t.amt] ELSE B1
       IN  Replay(B2, T, i + 1)

Known(a) == a \in Acc \/ a = Nil      \* addresses a notification may legitimately name

\* --- C01 ---
\* (written step-relative so that only the step that breaks them is flagged; with the initial
\*  state - no accounts, supply 0 - they are equivalent to the state invariants)
C01_SupplyIsSum == supply' - SumOver(Bal(acc'), Acc) = supply - SumOver(Bal(acc), Acc)
C01_NoNegative  == \A a \in Acc : acc[a].bal >= 0 => acc'[a].bal >= 0
Inv_SupplyIsSum == supply = SumOver(Bal(acc), Acc)
Inv_NoNegative  == \A a \in Acc : acc[a].bal >= 0
C01_SupplyDelta(e) ==
  supply' - supply = IF e.res = "HALT" /\ e.act = "mint" THEN e.amt
                     ELSE IF e.res = "HALT" /\ e.act = "burn" THEN -e.amt
                     ELSE 0
C01_FailedInert(e) == Refused(e) => Bal(acc') = Bal(acc) /\ supply' = supply /\ e.ntf = NoNtf
C01_Announced(e) ==
  LET T == SelectSeq(e.ntf, LAMBDA n : n.n = "Transfer")
      X == SelectSeq(e.ntf, LAMBDA n : n.n = "TransferX")
  IN  /\ Len(T) = Len(X)
      /\ \A i \in 1..Len(T) : T[i].from = X[i].from /\ T[i].to = X[i].to /\ T[i].amt = X[i].amt
      /\ \A i \in 1..Len(T) : Known(T[i].from) /\ Known(T[i].to)
      /\ Bal(acc') = Replay(Bal(acc), T, 1)

\* --- C02 ---
Authorised(e, a) ==
  \/ a \in e.S
  \/ e.act = "transferVia" /\ a = KC
  \/ "ALPHA" \in e.S
C02_AuthorisedDebit(e) == \A a \in Acc : acc'[a].bal < acc[a].bal => Authorised(e, a)
\* the public method can lower nobody but `from`, and only with from's own authorisation
C02_PublicTransfer(e) ==
  e.act \in {"transfer", "transferVia"} =>
     /\ \A a \in Acc : acc'[a].bal < acc[a].bal =>
           a = e.a /\ (a \in e.S \/ (e.act = "transferVia" /\ a = KC))
     /\ e.ret = "false" => Bal(acc') = Bal(acc) /\ e.ntf = NoNtf

\* --- C09 --- (lk is the ghost lock table kept by whoever evaluates the predicates:
\*              lk[l] = [st, parent, until], st \in {"none","locked","done"})
Expiring(lk, e) == {l \in Locks : lk[l].st = "locked" /\ e.x >= lk[l].until}
IsTick(e) == e.act \in {"newEpoch", "newEpochNM"} /\ e.res = "HALT"

\* Nested locks (a lock whose `from` is itself a lock account): the statement is per lock - "exactly the remaining
\* balance returns to `from`", `from` being the outer lock account's ADDRESS - so what an outer account holds after a
\* tick depends on the order in which the two are processed. Without nesting among the expiring locks the predicates
\* are exact; with nesting only the order-independent part is demanded.
Nested(lk, e) == \E l \in Expiring(lk, e) : lk[l].parent \in Locks
Direct(lk, e, p) == SumOver(Bal(acc), {l \in Expiring(lk, e) : lk[l].parent = p})
C09_NoEarly(lk, e) ==
  IsTick(e) => \A l \in Locks : lk[l].st = "locked" /\ e.x < lk[l].until =>
     /\ acc'[l].ex /\ acc'[l].until = acc[l].until /\ acc'[l].parent = acc[l].parent      \* still the same lock
     /\ IF Nested(lk, e) THEN acc'[l].bal >= acc[l].bal + Direct(lk, e, l)
                         ELSE acc'[l].bal = acc[l].bal
C09_AtExpiry(lk, e) ==
  IsTick(e) =>
     \* the lock account disappears (an address re-created by a later credit is an ordinary account, not a lock)
     /\ \A l \in Expiring(lk, e) : ~acc'[l].ex \/ acc'[l].parent = Nil
     /\ IF Nested(lk, e)
        THEN \A p \in Users : acc'[p].bal - acc[p].bal >= Direct(lk, e, p)
        ELSE /\ \A l \in Expiring(lk, e) : acc'[l].bal = 0
             /\ \A p \in Users : acc'[p].bal - acc[p].bal = Direct(lk, e, p)
\* nobody but the Alphabet (burn / transferX) or the expiry tick takes funds off a lock account
C09_Stays(lk, e) ==
  \A l \in Locks : lk[l].st = "locked" /\ acc'[l].bal < acc[l].bal =>
       \/ e.act \in {"burn", "transferX", "lock"} /\ e.res = "HALT" /\ e.a = l    \* Alphabet: burn, transferX, a nested lock
       \/ IsTick(e) /\ l \in Expiring(lk, e)
C09_Once(lk, e) ==
  \A i \in 1..Len(e.ntf) : e.ntf[i].from \in Locks /\ e.act \in {"newEpoch", "newEpochNM"} => lk[e.ntf[i].from].st = "locked"
C09_BurnReduces(lk, e) ==
  e.act = "burn" /\ e.res = "HALT" /\ e.a \in Locks => acc'[e.a].bal = acc[e.a].bal - e.amt

\* ghost lock table update
LkInit == [l \in Locks |-> [st |-> "none", parent |-> Nil, until |-> 0]]
LkNext(lk, e) ==
  [l \in Locks |->
     IF e.act = "lock" /\ e.res = "HALT" /\ e.b = l THEN [st |-> "locked", parent |-> e.a, until |-> e.x]
     ELSE IF IsTick(e) /\ l \in Expiring(lk, e) THEN [lk[l] EXCEPT !.st = "done"]
     \* burning everything that is left ends the lock ("until they are burnt")
     ELSE IF e.act \in {"burn", "lock", "transferX"} /\ e.res = "HALT" /\ e.a = l /\ lk[l].st = "locked" /\ acc'[l].bal = 0
          THEN [lk[l] EXCEPT !.st = "done"]       \* (a nested lock or an Alphabet transfer of everything that is left does the same)
     ELSE lk[l]]

=============================================================================
