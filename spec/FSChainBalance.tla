---------------------------- MODULE FSChainBalance ----------------------------
(***************************************************************************)
(* Fragment: contracts/balance/contract.go as seen by the other contracts  *)
(* of the FS chain (token.transfer with innerRing = TRUE, Lock, Mint,      *)
(* Burn, the release loop of NewEpoch).  Operators over the account map A  *)
(* (A[a] = the Account structure stored under 'a' || a, ex = FALSE: no     *)
(* entry).  Debit/Credit/Release are copied from spec/Balance.tla (family  *)
(* balance) and extended by the details of the TransferX notification:     *)
(* k = kind given by the first byte of `details` (common/transfer.go),     *)
(* x = epoch of an unlock, c = container id of a container fee.            *)
(***************************************************************************)
EXTENDS FSChainBase

Absent == [ex |-> FALSE, bal |-> 0, until |-> 0, parent |-> Nil]
XNtf(f, t, a, k, x, c) == [from |-> f, to |-> t, amt |-> a, k |-> k, x |-> x, c |-> c]

\* canTransfer with innerRing = TRUE: from = Nil is the mint source
BCan(A, from, amt) == amt >= 0 /\ (from = Nil \/ A[from].bal >= amt)
BDebit(A, from, amt) ==
  IF from = Nil THEN A
  ELSE IF A[from].bal = amt THEN [A EXCEPT ![from] = Absent]
  ELSE [A EXCEPT ![from].bal = @ - amt, ![from].ex = TRUE]
BCredit(A, to, amt) == IF to = Nil THEN A ELSE [A EXCEPT ![to].bal = @ + amt, ![to].ex = TRUE]

BXfer(A, from, to, amt, k, x, c) ==
  IF ~BCan(A, from, amt) THEN [ok |-> FALSE, acc |-> A, x |-> <<>>]
  ELSE [ok |-> TRUE, acc |-> BCredit(BDebit(A, from, amt), to, amt), x |-> <<XNtf(from, to, amt, k, x, c)>>]

\* Lock(txDetails, from, to, amount, until): the lock account is written first
BLock(A, from, to, amt, until) ==
  BXfer([A EXCEPT ![to] = [ex |-> TRUE, bal |-> 0, until |-> until, parent |-> from]], from, to, amt, "lock", 0, Nil)

\* NewEpoch(e): sequential release loop in key order; storage.Find ranges over the key set as of
\* the call (A0); only entries with Parent # nil qualify; the result of transfer is ignored
RECURSIVE BRelease(_, _, _, _, _, _)
BRelease(A0, A, e, LockSeq, i, x) ==
  IF i > Len(LockSeq) THEN [acc |-> A, x |-> x]
  ELSE LET l == LockSeq[i]
       IN  IF A0[l].ex /\ A[l].parent # Nil /\ e >= A[l].until
           THEN LET r == BXfer(A, l, A[l].parent, A[l].bal, "unlock", e, Nil)
                IN  BRelease(A0, r.acc, e, LockSeq, i + 1, x \o r.x)
           ELSE BRelease(A0, A, e, LockSeq, i + 1, x)

BalOf(A, D) == SumOver([a \in D |-> A[a].bal], D)
=============================================================================
