---------------------------- MODULE FSChainNetmap ----------------------------
(***************************************************************************)
(* Fragment: contracts/netmap/contract.go as the hub of the epoch tick:    *)
(* the epoch counter, the ordered subscriber list ('e' || index || hash,   *)
(* iterated in key order = subscription order) and the two configuration   *)
(* values the Container contract reads.  The fan-out itself (cleanup) is   *)
(* written in FSChain.tla because it calls into the other fragments.       *)
(***************************************************************************)
EXTENDS FSChainBase

\* SubscribeForNewEpoch(contract): an already subscribed contract returns silently
NSubscribe(subs, s) == IF s \in Rng(subs) THEN subs ELSE Append(subs, s)
NSubNotifies(subs, s) == s \notin Rng(subs)
\* NewEpoch(e) guard after the Alphabet witness
NEpochOk(cur, e) == e > cur
=============================================================================
