---------------------------- MODULE MainChainBallot ----------------------------
(***************************************************************************)
(* Pure operators shared by MainChainVote (C17) and MainChainGas (C19):    *)
(* the literal transcription of common/vote.go over a ballot list          *)
(*   B \in Seq([id, voters \in Seq(Key), h])                               *)
(* as stored (serialized) under the key "ballots".                         *)
(***************************************************************************)
EXTENDS Integers, Sequences, FiniteSets

Window == 20                       \* common/vote.go: blockDiff

Ran(s) == {s[i] : i \in 1..Len(s)}
Thr(n) == (n * 2) \div 3 + 1       \* threshold := len(alphabet)*2/3 + 1

Live(B, h) == SelectSeq(B, LAMBDA b : h - b.h <= Window)

IdxOf(B, id) ==
  IF \E i \in 1..Len(B) : B[i].id = id
  THEN CHOOSE i \in 1..Len(B) : B[i].id = id /\ \A j \in 1..(i - 1) : B[j].id # id
  ELSE 0

\* Vote(ctx, id, from): [n = returned count, bl = the stored list afterwards]
VoteOp(B, h, id, from) ==
  LET L == Live(B, h)
      i == IdxOf(L, id)
  IN  IF i # 0 /\ from \in Ran(L[i].voters)
      THEN [n |-> Len(L[i].voters), bl |-> B]     \* early return: nothing is saved, expired ballots stay
      ELSE IF i # 0
      THEN [n  |-> Len(L[i].voters) + 1,
            bl |-> [L EXCEPT ![i] = [id |-> id, voters |-> Append(L[i].voters, from), h |-> h]]]
      ELSE [n |-> 1, bl |-> Append(L, [id |-> id, voters |-> <<from>>, h |-> h])]

\* RemoveVotes(ctx, id): removes the first ballot with this id; `index` stays 0 when there is none,
\* i.e. the FIRST stored ballot is removed instead
RemoveVotes(B, id) ==
  LET i == IF IdxOf(B, id) = 0 THEN 1 ELSE IdxOf(B, id)
  IN  [j \in 1..(Len(B) - 1) |-> IF j < i THEN B[j] ELSE B[j + 1]]

\* common/ir.go InnerRingInvoker: the first key of the list (list order) whose witness is among S, or nil
InvokerOf(A, S, nil) ==
  IF \E i \in 1..Len(A) : A[i] \in S
  THEN A[CHOOSE i \in 1..Len(A) : A[i] \in S /\ \A j \in 1..(i - 1) : A[j] \notin S]
  ELSE nil
=============================================================================
