------------------------------ MODULE UpgradeMC ------------------------------
(* Model-checking wrapper of Upgrade.tla: the bounded universe of pre-upgrade   *)
(* states (contract kind x deployment mode x era of the old layout x storage     *)
(* built from optional item groups x notary flag x ballots), the version and     *)
(* signer dimensions, the properties as action formulas, and the scenario        *)
(* emitter used with `tlc -simulate`.  The cross product doubles as the test     *)
(* matrix of the Go driver.                                                      *)
EXTENDS Upgrade, Json

VARIABLES hist, setup
mcvars == <<kind, mode, era, ver, store, api, ev, hist, setup>>

CONSTANTS MCKinds, MCModes, SimLen, Rich

Eras == {15, 16, 17, 18, 19}
EraOf(v) == (v \div 1000) % 1000
Versions == {Prev - 1, Prev, Prev + 1, 15999, 16000, 16999, 17000, 17999, 18000, 18999, 19000, New - 1, New, New + 1}
SignerSets == {{}, {"X"}, {"M1"}, {"ALPHA"}, {"CMT"}, {"IRMAJ"}, {"IR1"}, {"CMT", "X"}}

\* a version argument fits the storage when it lies in the era the storage was generated for
\* (versions outside the window are rejected before the storage is looked at)
Fits(v) == v < Prev \/ v >= New \/ EraOf(v) = era

I(sh, a, b, v) == <<sh, a, b, v>>

\* ---- optional item groups per kind (era-dependent layouts) ----
Groups(k, e) ==
  CASE k = "balance" ->
         { {I("acc", "u1", "", "5"), I("acc", "u2", "", "7")}, {I("acc", "l1", "", "3")}, {I("junk20", "", "", "x")} }
         \cup (IF e < 17 THEN { {I("nmhash", "", "", "h"), I("cnhash", "", "", "h")} } ELSE {})
    [] k = "container" ->
         { {I("cnr", "c1", "", "o1"), I("own", "o1", "c1", "c1"), I("cnr", "c2", "", "o2"), I("own", "o2", "c2", "c2")},
           {I("cnr", "c3", "", "o1"), I("own", "o1", "c3", "c3"), I("eacl", "c3", "", "e1"), I("alias", "c3", "", "n1.container")},
           {I("size", "5", "c1", "10"), I("size", "300", "c1", "11"), I("est", "c1", "", "5,300")},
           {I("junk32", "", "", "x")}, {I("del", "c4", "", "")} }
         \cup (IF Rich THEN { {I("size", "big", "c1", "12")} } ELSE {})
    [] k = "netmap" ->
         (IF e < 16 THEN { {I("ocand", "k1", "", "1"), I("ocand", "k3", "", "2")}, {I("ocand", "k2", "", "3")} }
                    ELSE { {I("cand", "k1", "", "1"), I("cand", "k3", "", "2")}, {I("cand", "k2", "", "3")} })
         \cup { {I("cfg", "A", "", "va"), I("cfg", "AB", "", "vab"), I("cfg", "HomomorphicHashingDisabled", "", "1")} }
         \cup (IF e < 17 THEN { {I("innerring", "", "", "ir")} } ELSE {})
    [] k = "nns" ->
         { {I("name", "b.neofs", "owner", "u1"), I("name", "b.neofs", "exp", "far"), I("name", "b.neofs", "admin", "nil"),
            I("acctok", "u1", "b.neofs", "b.neofs")} \cup {I("rec16", "b.neofs", ToString(j), "t" \o ToString(j)) : j \in 0..15},
           {I("name", "a.neofs", "owner", "u1"), I("name", "a.neofs", "exp", "far"), I("name", "a.neofs", "admin", "u2"),
            I("acctok", "u1", "a.neofs", "a.neofs"), I("rec16", "a.neofs", "0", "t0"), I("rec16", "a.neofs", "1", "t1")},
           {I("name", "site.org", "owner", "u3"), I("name", "site.org", "exp", "far"), I("name", "site.org", "admin", "nil"),
            I("acctok", "u3", "site.org", "site.org"), I("rec1", "site.org", "0", "1.2.3.4")} }
    [] k = "neofsid" ->
         { {I("key", "o1", "k1", "1"), I("key", "o1", "k2", "1"), I("key", "o2", "k3", "1")} }
         \cup (IF e < 17 THEN { {I("cnhash", "", "", "h")} } ELSE {})
         \cup (IF e < 19 THEN { {I("nmhash", "", "", "h")} } ELSE {})
    [] k = "reputation" -> { {I("cnt", "5", "k1", "1"), I("val", "5", "k1", "t1")}, {I("cnt", "300", "k2", "1"), I("val", "300", "k2", "t2")} }
    [] k = "audit" -> { {I("res", "5", "c1", "r1"), I("res", "300", "c2", "r2")} } \cup (IF e < 17 THEN { {I("nmhash", "", "", "h")} } ELSE {})
    [] k = "neofs" -> { {I("cfg", "A", "", "va"), I("cfg", "AB", "", "vab")}, {I("irc", "k3", "", "1")} }
    [] OTHER -> {}

Base(k, e) ==
  CASE k = "balance" -> {I("supply", "", "", "15")}
    [] k = "container" -> {I("nnsroot", "", "", "container"), I("nmhash", "", "", "hn"), I("blhash", "", "", "hb"), I("idhash", "", "", "hi"), I("nnshash", "", "", "hx")}
    [] k = "netmap" -> {I("epoch", "", "", "27"), I("block", "", "", "9")}
                       \cup (IF e < 19 THEN {I("blhash", "", "", "hb"), I("cnhash", "", "", "hc")} ELSE {I("sub", "0", "hb", ""), I("sub", "1", "hc", "")})
    [] k = "nns" -> {I("price", "", "", "10"), I("root", "neofs", "", "0"), I("root", "org", "", "0"),
                     I("name", "neofs", "exp", "far"), I("name", "neofs", "admin", "nil"), I("name", "org", "exp", "far"), I("name", "org", "admin", "nil")}
                    \cup (IF e < 18 THEN {I("name", "neofs", "owner", "u1"), I("name", "org", "owner", "u1"), I("acctok", "u1", "neofs", "neofs"),
                                          I("acctok", "u1", "org", "org")}
                                    ELSE {I("name", "neofs", "owner", "nil"), I("name", "org", "owner", "nil")})
    [] k = "alphabet" -> {I("name", "", "", "az"), I("index", "", "", "0"), I("total", "", "", "7"), I("nmhash", "", "", "hn"), I("pxhash", "", "", "h")}
    [] k = "neofs" -> {I("alphabet", "", "", "k1,k2,k3"), I("prochash", "", "", "hp"), I("notary", "", "", "false")}
    [] k = "processing" -> {I("neofshash", "", "", "hn")}
    [] OTHER -> {}

\* NEP-11 accounting of the NNS storage follows from the names (the legacy layout counts the TLDs)
NNSAccounting(st, e) ==
  LET own == {i \in st : i[1] = "acctok"}
      owners == {i[2] : i \in own}
  IN  st \cup {I("bal", o, "", ToString(Cardinality({i \in own : i[2] = o}))) : o \in owners}
         \cup {I("supply", "", "", ToString(Cardinality({i \in st : i[1] = "name" /\ i[3] = "exp" /\ (e < 18 \/ i[2] \notin TLDs)})))}

\* legacy notary flag and ballots (only the contracts that had a non-notary mode, only before 0.17)
NotaryStates(k, e) ==
  IF k \in NotaryKinds /\ e < 17
  THEN { {}, {I("notary", "", "", "false")} }
       \* (the Audit contract never collected votes: its storage has no ballots, cf. the recorded dumps)
       \cup { {I("notary", "", "", "true")} \cup b : b \in (IF k \in PurgeKinds
                                                            THEN { {} } \cup { {I("ballots", "", "", b)} : b \in
                                                                   {"empty", "stale", "fresh", "mixed", "mixedrev", "freshmid", "many", "manyfresh", "edge20", "edge21"} }
                                                            ELSE { {} }) }
  ELSE { {} }

\* ---- stored parameters and sizes the migrations (and the readers afterwards) depend on: alternatives, one is chosen ----
\* netmap: snapshot count (below, at and above the default of 10), ring position anywhere, EVERY slot filled
Rings == {<<1, 0>>, <<3, 1>>, <<10, 0>>, <<10, 9>>, <<12, 0>>, <<12, 5>>, <<12, 11>>, <<15, 7>>}
RingItems(cnt, cur, e) ==
  {I("snapcount", "", "", ToString(cnt)), I("snapcur", "", "", ToString(cur))}
  \cup (IF e < 16 THEN {I("osnap", ToString(i), "k1", "") : i \in 0..(cnt - 1)} \cup {I("osnap", ToString(i), "k2", "") : i \in {j \in 0..(cnt - 1) : j % 2 = 1}}
                  ELSE {I("snap", ToString(i), "k1", "1") : i \in 0..(cnt - 1)} \cup {I("snap", ToString(i), "k2", "3") : i \in {j \in 0..(cnt - 1) : j % 2 = 1}})
\* balance: number of accounts (none of the bulk / 48, every 6th a lock account with Until/Parent)
BulkAccounts == {I("acc", "a" \o ToString(i), IF i % 6 = 0 THEN ToString(i) \o "~u2" ELSE "", ToString(100 + i)) : i \in 1..48}
\* container: number of containers (bulk: 20 more, three owners)
BulkContainers == UNION {{I("cnr", "c" \o ToString(i), "", "o" \o ToString((i % 3) + 1)),
                          I("own", "o" \o ToString((i % 3) + 1), "c" \o ToString(i), "c" \o ToString(i))} : i \in 5..24}
Params(k, e) ==
  CASE k = "netmap"    -> {RingItems(r[1], r[2], e) : r \in Rings}
                          \cup { {I("snapcount", "", "", "3"), I("snapcur", "", "", "2")} }     \* a ring that was never filled
    [] k = "balance"   -> { {}, BulkAccounts }
    [] k = "container" -> { {}, BulkContainers }
    [] OTHER           -> { {} }

Stores(k, e) ==
  { LET s == Base(k, e) \cup p \cup UNION g \cup nf IN IF k = "nns" THEN NNSAccounting(s, e) ELSE s :
      p \in Params(k, e), g \in SUBSET Groups(k, e), nf \in NotaryStates(k, e) }

\* mode "real": the tree's code with lowered version constants, populated through its API (no synthetic storage)
\* (Netmap and NNS changed their layout after Prev: the tree's layout under the version number Prev never existed)
RealVersions(k) == {Prev - 1, New - 1, New, New + 1} \cup (IF k \in {"netmap", "nns"} THEN {} ELSE {Prev})

MCInit ==
  /\ kind \in MCKinds /\ mode \in MCModes
  /\ \/ /\ mode = "shell" /\ era \in Eras /\ ver = -1
        /\ store \in Stores(kind, era)
     \/ /\ mode = "real" /\ era = 19 /\ ver \in RealVersions(kind)
        /\ store = {}
  /\ api = ApiOf(kind, ver, store)
  /\ ev = Event("init", {}, 0, "HALT")
  /\ hist = <<>>
  /\ setup = [kind |-> kind, mode |-> mode, lv |-> ver, store |-> store]

NextOf(P(_)) ==
  \/ \E S \in P(SignerSets), v \in P({x \in Versions : Fits(x)}) : Update(S, v)
  \/ Wait

All(X) == X
One(X) == IF X = {} THEN {} ELSE {RandomElement(X)}

MCNext == NextOf(All) /\ hist' = <<>> /\ setup' = setup
MCSpec == MCInit /\ [][MCNext]_mcvars

\* simulation: waits are rare, the sufficient signer set is drawn half of the time
OneS(X) == IF RandomElement(1..2) = 1 THEN One(X) ELSE {IF kind \in MainKinds THEN {"IRMAJ"} ELSE {"CMT"}}
SimStep == IF RandomElement(1..6) = 1 THEN Wait
           ELSE \E S \in OneS(SignerSets), v \in One({x \in Versions : Fits(x)}) : Update(S, v)
SimNext == SimStep /\ setup' = setup
           /\ hist' = Append(hist, [act |-> ev'.act, S |-> ev'.S, v |-> IF ev'.act = "wait" THEN 0 ELSE ev'.v])
SimSpec == MCInit /\ [][SimNext]_mcvars

MCView == <<kind, mode, era, ver, store>>

EmitScenario == IF Len(hist) = SimLen
                THEN PrintT("SCEN " \o ToJson([kind |-> setup.kind, mode |-> setup.mode, lv |-> setup.lv, store |-> setup.store, steps |-> hist]))
                ELSE TRUE

P_C16 == [][/\ C16_Gated(ev', ver # -1) /\ C16_Window(ev')
            /\ C16_Accepts(ev', ver # -1, ev'.v < 17000 /\ PendingVote(kind, store))
            /\ C16_Inert(ev', store' = store) /\ C16_Preserves(ev')]_mcvars

\* design-level sanity: the other direction (not demanded by the statement, true of the Spec)
P_Accepts == [][ev'.act = "update" /\ ev'.res # "HALT" =>
                  ~(GateOf(kind, ev'.S) \/ ver = -1) \/ ~(Prev <= ev'.v /\ ev'.v < New) \/ (ev'.v < 17000 /\ PendingVote(kind, store))]_mcvars

TypeOK == /\ kind \in Kinds /\ ver \in Int
          /\ \A i \in store : Len(i) = 4
          /\ \A f \in api : Len(f) = 3
=============================================================================
