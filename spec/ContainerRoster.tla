--------------------------- MODULE ContainerRoster ---------------------------
(***************************************************************************)
(* Implementation-shaped specification of the placement-roster part of     *)
(* contracts/container/contract.go: AddNextEpochNodes,                     *)
(* CommitContainerListUpdate, Nodes, ReplicasNumbers,                      *)
(* VerifyPlacementSignatures (the counting loop, literally) and            *)
(* SubmitObjectPut.                                                        *)
(*                                                                         *)
(* State = raw storage of the Container contract:                          *)
(*   pend[c][v]  values under 'u'||cid||v||BE16(counter), in key order     *)
(*   comm[c][v]  values under 'n'||cid||v||BE16(counter), in key order     *)
(*   reps[c]     values under 'r'||cid||i, in key order                    *)
(*   meta        cids with the meta flag 'm'||cid (fixed by the set-up)    *)
(* Keys are identified by their index in a pool of real key pairs; the     *)
(* counter of a vector continues from the last stored key, its two-byte    *)
(* encoding (counterToBytes / counterFromBytes, a byte swap of the VM's    *)
(* little-endian integer) is transcribed below and the lemma that makes    *)
(* "key order = submission order" true is checked by TLC (CounterLemma).   *)
(* api is what nodes(cid, v) / replicasNumbers(cid) answer.                *)
(*                                                                         *)
(* A signature is [k: the signing key, m: the signed message, f: form]     *)
(* with f = "ok" (as produced), "mal" (the (r, n-s) twin, equally valid    *)
(* for ECDSA) or "junk" (not a signature).                                 *)
(*                                                                         *)
(* Property C14 is written at the end as predicates over one step.         *)
(***************************************************************************)
EXTENDS Integers, Sequences, FiniteSets, TLC

CONSTANTS
  Cids,        \* container ids the roster methods are called with
  MetaInit,    \* ids whose container was created with the meta-on-chain flag
  MaxVec,      \* vectors 0..MaxVec are observed
  K,           \* size of the key pool (keys 1..K)
  Batches,     \* <<first key, length>> pairs offered to addNextEpochNodes
  Dups,        \* subset of BOOLEAN: TRUE = the batch lists its first key once more at its end (A,B,D,A)
  RepSeqs,     \* REP lists offered to commitContainerListUpdate
  Msgs,        \* messages
  SigAlphabet, \* signatures the exhaustive configurations build matrices from
  MaxSigs,     \* at most this many signatures per vector (exhaustive configurations)
  MaxMV,       \* at most this many vectors per matrix (exhaustive configurations)
  SignerSets,
  MaxLen,      \* exploration bound on the length of a vector
  Dev          \* deviation switches: "DupSig" = one member's signatures are counted as often as they are repeated;
               \* "PosCount" = counted members are remembered by their position in the vector, so a key listed twice counts twice

Nil == "nil"
Vecs == 0..MaxVec
Empty == [v \in Vecs |-> <<>>]

VARIABLES pend, comm, reps, meta, api, ev
state == <<pend, comm, reps, meta>>
vars  == <<pend, comm, reps, meta, api, ev>>

Event(act, S, c, v, from, len, bk, rs, m, sigs, res, ret, ntf) ==
  [act |-> act, S |-> S, c |-> c, v |-> v, from |-> from, len |-> len, bk |-> bk, rs |-> rs, m |-> m, sigs |-> sigs,
   res |-> res, ret |-> ret, ntf |-> ntf, dup |-> FALSE]

(***************************************************************************)
(* counterToBytes / counterFromBytes                                       *)
(***************************************************************************)
\* the VM's integer -> byte string conversion for n >= 0: minimal little-endian two's complement
RECURSIVE LE(_)
LE(n) == IF n = 0 THEN <<>> ELSE <<n % 256>> \o LE(n \div 256)
VMBytes(n) == LET b == LE(n) IN IF b # <<>> /\ b[Len(b)] >= 128 THEN b \o <<0>> ELSE b
CounterToBytes(n) ==
  LET r == VMBytes(n) IN
  IF Len(r) = 0 THEN <<0, 0>>
  ELSE IF Len(r) = 1 THEN <<0, r[1]>>
  ELSE <<r[2], r[1]>> \o SubSeq(r, 3, Len(r))           \* "BE for correct sorting": the first two bytes are swapped
RECURSIVE LEVal(_)
LEVal(b) == IF b = <<>> THEN 0 ELSE b[1] + 256 * LEVal(Tail(b))
VMInt(b) == IF b # <<>> /\ b[Len(b)] >= 128 THEN LEVal(b) - 256 * 256 ELSE LEVal(b)      \* two bytes
CounterFromBytes(b) == VMInt(<<b[2], b[1]>>)
LexLess(a, b) == \/ a[1] < b[1]
                 \/ a[1] = b[1] /\ a[2] < b[2]
\* what makes "storage.Find order = submission order" and "the counter continues" true for every roster <= MaxLen
CounterLemma == \A i \in 1..MaxLen : /\ Len(CounterToBytes(i)) = 2
                                     /\ CounterFromBytes(CounterToBytes(i)) = i
                                     /\ i > 1 => LexLess(CounterToBytes(i - 1), CounterToBytes(i))
ASSUME CounterLemma

(***************************************************************************)
(* Methods                                                                 *)
(***************************************************************************)
\* the keys of a batch: len consecutive keys of the pool starting at from; with dup the first of them is listed again
\* at the end.  Nothing de-duplicates a roster: a key may occur twice in a batch, in two batches of one vector and
\* in two vectors; it is returned as often as it was submitted, but it is ONE member.
KeysOf(from, len, dup) == [i \in 1..len |-> ((from + i - 2) % K) + 1] \o (IF dup /\ len > 0 THEN <<((from - 1) % K) + 1>> ELSE <<>>)

ApiOf(C, R) == [nodes |-> C, reps |-> R]

Fault(act, S, c, v, from, len, bk, rs, m, sigs) ==
  /\ UNCHANGED state
  /\ ev' = Event(act, S, c, v, from, len, bk, rs, m, sigs, "FAULT", "null", <<>>)

\* AddNextEpochNodes(cID, placementVector, publicKeys); bk: one of the keys is not 33 bytes long, or (len = 0) Null is
\* passed instead of a list (the loop over it FAULTs, an empty list is fine)
Add(S, c, v, from, len, bk, dup) ==
  IF /\ v < 255                                        \* ErrorTooBigNumberOfNodes
     /\ v \in Vecs
     /\ v > 0 => pend[c][v - 1] # <<>>                 \* validatePlacementIndex
     /\ "ALPHA" \in S                                  \* CheckAlphabetWitness
     /\ ~bk                                            \* ErrorInvalidPublicKey
  THEN /\ pend' = [pend EXCEPT ![c][v] = @ \o KeysOf(from, len, dup)]     \* counter continues after the last key
       /\ UNCHANGED <<comm, reps, meta>>
       /\ ev' = [Event("add", S, c, v, from, len, bk, <<>>, Nil, <<>>, "HALT", "null", <<>>) EXCEPT !.dup = dup]
  ELSE /\ UNCHANGED state
       /\ ev' = [Event("add", S, c, v, from, len, bk, <<>>, Nil, <<>>, "FAULT", "null", <<>>) EXCEPT !.dup = dup]

\* CommitContainerListUpdate(cID, replicas)
Commit(S, c, rs) ==
  IF "ALPHA" \in S
  THEN /\ comm' = [comm EXCEPT ![c] = pend[c]]
       /\ pend' = [pend EXCEPT ![c] = Empty]
       /\ reps' = [reps EXCEPT ![c] = rs]
       /\ UNCHANGED meta
       /\ ev' = Event("commit", S, c, 0, 0, 0, FALSE, rs, Nil, <<>>, "HALT", "null", <<"NodesUpdate">>)
  ELSE Fault("commit", S, c, 0, 0, 0, FALSE, rs, Nil, <<>>)

\* crypto.VerifyWithECDsa(msg, pub, sig, Secp256r1Sha256)
SigValid(s, key, msg) == s.f # "junk" /\ s.k = key /\ s.m = msg

NodesOf(c, i) == IF i \in Vecs THEN comm[c][i] ELSE <<>>

\* the loop over sigs[i] of VerifyPlacementSignatures: every signature is tried against the members in roster
\* order; it counts if some member verifies it (repaired code: some member that has not been counted yet)
RECURSIVE SigLoop(_, _, _, _, _, _, _)
SigLoop(nodes, msg, ss, j, cnt, m, used) ==
  IF j > Len(ss) THEN FALSE
  ELSE LET tok(p) == IF "PosCount" \in Dev THEN p ELSE nodes[p]      \* what is remembered of a counted member: its key
           hits == {p \in 1..Len(nodes) : SigValid(ss[j], nodes[p], msg) /\ ("DupSig" \in Dev \/ tok(p) \notin used)}
           cnt2 == IF hits # {} THEN cnt + 1 ELSE cnt
           used2 == IF hits # {} THEN used \cup {tok(CHOOSE p \in hits : \A q \in hits : p <= q)} ELSE used
       IN  IF cnt2 = m THEN TRUE ELSE SigLoop(nodes, msg, ss, j + 1, cnt2, m, used2)

RECURSIVE RepLoop(_, _, _, _)
RepLoop(c, msg, sigs, i) ==                    \* i: zero-based index of the REP number / placement vector
  IF i >= Len(reps[c]) THEN TRUE
  ELSE IF Len(sigs) = i THEN FALSE             \* missing vector
  ELSE IF Len(sigs[i + 1]) < reps[c][i + 1] THEN FALSE
  ELSE IF SigLoop(NodesOf(c, i), msg, sigs[i + 1], 1, 0, reps[c][i + 1], {}) THEN RepLoop(c, msg, sigs, i + 1)
  ELSE FALSE

VerifyOK(c, msg, sigs) == RepLoop(c, msg, sigs, 0)

\* VerifyPlacementSignatures(cid, msg, sigs): a safe method, invoked without a transaction
Verify(c, msg, sigs) ==
  /\ UNCHANGED state
  /\ ev' = Event("verify", {}, c, 0, 0, 0, FALSE, <<>>, msg, sigs, "HALT", IF VerifyOK(c, msg, sigs) THEN "true" ELSE "false", <<>>)

\* SubmitObjectPut(metaInformation, sigs): the signed message is the meta information itself; its other
\* fields (object id, network magic, sizes, validuntil) are always well-formed in the scenarios
Submit(S, c, msg, sigs) ==
  IF c \in meta /\ VerifyOK(c, msg, sigs)
  THEN /\ UNCHANGED state
       /\ ev' = Event("submit", S, c, 0, 0, 0, FALSE, <<>>, msg, sigs, "HALT", "null", <<"ObjectPut">>)
  ELSE Fault("submit", S, c, 0, 0, 0, FALSE, <<>>, msg, sigs)

Init ==
  /\ pend = [c \in Cids |-> Empty] /\ comm = [c \in Cids |-> Empty] /\ reps = [c \in Cids |-> <<>>]
  /\ meta = MetaInit
  /\ api = ApiOf(comm, reps)
  /\ ev = Event("init", {}, Nil, 0, 0, 0, FALSE, <<>>, Nil, <<>>, "HALT", "null", <<>>)

\* signature matrices of the exhaustive configurations
SeqsUpTo(X, k) == UNION {[1..j -> X] : j \in 0..k}
Matrices == SeqsUpTo(SeqsUpTo(SigAlphabet, MaxSigs), MaxMV)

NextOf(P(_), PS(_), PM(_)) ==
  /\ \/ \E S \in PS(SignerSets), c \in P(Cids), v \in P(Vecs), b \in P(Batches), bk \in P({FALSE, FALSE, TRUE}) :
          \E dup \in P(Dups) : Add(S, c, v, b[1], b[2], bk, dup /\ b[2] > 0)
     \/ \E S \in PS(SignerSets), c \in P(Cids), rs \in P(RepSeqs) : Commit(S, c, rs)
     \/ \E c \in P(Cids), m \in P(Msgs) : \E sg \in PM(c) : Verify(c, m, sg)
     \/ \E S \in P({T \in SignerSets : "ALPHA" \notin T}), c \in P(Cids), m \in P(Msgs) : \E sg \in PM(c) : Submit(S, c, m, sg)
          \* submitObjectPut checks no witness at all; it is explored without the Alphabet's
  /\ api' = ApiOf(comm', reps')

All(X) == X
AllM(c) == Matrices
Next == NextOf(All, All, AllM)
Spec == Init /\ [][Next]_vars

Bounded == \A c \in Cids, v \in Vecs : Len(pend[c][v]) <= MaxLen

-----------------------------------------------------------------------------
(***************************************************************************)
(* Properties, as predicates over one step.  e is the invocation (ev'),    *)
(* g the abstract roster rebuilt from the successful invocations:          *)
(*   g.pend[c][v]  keys accumulated since the previous commit              *)
(*   g.comm[c][v], g.reps[c]  what the last commit fixed                   *)
(***************************************************************************)
GInit == [pend |-> [c \in Cids |-> Empty], comm |-> [c \in Cids |-> Empty], reps |-> [c \in Cids |-> <<>>]]
GNext(g, e) ==
  IF e.res # "HALT" THEN g
  ELSE IF e.act = "add" THEN [g EXCEPT !.pend[e.c][e.v] = @ \o KeysOf(e.from, e.len, e.dup)]
  ELSE IF e.act = "commit" THEN [g EXCEPT !.comm[e.c] = g.pend[e.c], !.pend[e.c] = Empty, !.reps[e.c] = e.rs]
  ELSE g

\* nodes(cid, i) and replicasNumbers(cid) return exactly, in submission order, what the last commit fixed
\* (a key submitted twice is returned twice, at its two positions: the statement says "exactly ... the keys
\* accumulated by addNextEpochNodes", so a roster that silently drops or merges repeats is flagged here)
C14_Roster(g2) == /\ \A c \in Cids, v \in Vecs : api'.nodes[c][v] = g2.comm[c][v]
                  /\ \A c \in Cids : api'.reps[c] = g2.reps[c]
\* a commit empties the pending roster (raw storage)
C14_CommitEmpties(e) == e.act = "commit" /\ e.res = "HALT" => pend'[e.c] = Empty
\* verify / submit accept only if every vector has REP_i distinct members with a valid signature of the message
Accepted(e) == (e.act = "verify" /\ e.res = "HALT" /\ e.ret = "true") \/ (e.act = "submit" /\ e.res = "HALT")
\* members are KEYS: a key listed at several positions of the vector is one member
Members(g, c, i) == IF i \in Vecs THEN {g.comm[c][i][p] : p \in 1..Len(g.comm[c][i])} ELSE {}
Signers(g, e, i) == {k \in Members(g, e.c, i - 1) : \E j \in 1..Len(e.sigs[i]) : SigValid(e.sigs[i][j], k, e.m)}
C14_Sound(g, e) ==
  Accepted(e) => \A i \in 1..Len(g.reps[e.c]) : /\ i <= Len(e.sigs)
                                                /\ Cardinality(Signers(g, e, i)) >= g.reps[e.c][i]
\* deviation tag: every vector has enough valid member signatures, but some not from enough distinct members
ValidSigs(g, e, i) == Cardinality({j \in 1..Len(e.sigs[i]) : \E k \in Members(g, e.c, i - 1) : SigValid(e.sigs[i][j], k, e.m)})
DupSigner(g, e) ==
  /\ Accepted(e) /\ ~C14_Sound(g, e)
  /\ \A i \in 1..Len(g.reps[e.c]) : /\ i <= Len(e.sigs)
                                     /\ \/ Cardinality(Signers(g, e, i)) >= g.reps[e.c][i]
                                        \/ ValidSigs(g, e, i) >= g.reps[e.c][i]

=============================================================================
