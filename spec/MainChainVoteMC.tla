--------------------------- MODULE MainChainVoteMC ---------------------------
(* Model-checking wrapper of MainChainVote: bounded constants per Alphabet   *)
(* size n, the ghost round machine as a variable, property C17 as action     *)
(* formulas, and the scenario emitter used with `tlc -simulate`.             *)
EXTENDS MainChainVote, Json

VARIABLES rd, hist, nstep, n0
mcvars == <<alpha, ballots, config, cands, gasC, gasP, cur, ev, rd, hist, nstep, n0>>

CONSTANTS N, MaxSteps, SimLen

KeyName(i) == "k" \o ToString(i)
MC_InitAlpha == [i \in 1..N |-> KeyName(i)]
MC_Keys      == {KeyName(i) : i \in 1..N}

\* ---- exhaustive configurations ----
Q_Strangers  == {"x1"}
Q_Ids        == {"i1", "i2"}
Q_Cands      == {"c1"}
Q_CfgKeys    == {"ka"}
Q_CfgVals    == {"v1", "v2"}
Q_Lists      == {MC_InitAlpha, <<"k1">>, <<>>}
Q_Payees     == {"p1"}
Q_Amounts    == {1, 3}
Q_Gaps       == {0, 1, 20, 21}
Q_SignerSets == {{k} : k \in MC_Keys} \cup {{"x1"}, {}, {"c1"}}

\* ---- small exhaustive configuration for the quick tier ----
R_Strangers  == {"x1"}
R_Ids        == {"i1", "i2"}
R_Cands      == {"c1"}
R_CfgKeys    == {"ka"}
R_CfgVals    == {"v1"}
R_Lists      == {<<"k1">>}
R_Payees     == {"p1"}
R_Amounts    == {3}
R_Gaps       == {0, 1, 20, 21}
R_Gaps3      == {1, 20, 21}
R_SignerSets == {{k} : k \in MC_Keys} \cup {{"x1"}, {"c1"}}
R_SignerSets3 == {{k} : k \in MC_Keys} \cup {{"x1"}}

T_Strangers  == {"x1", "x2"}
T_Ids        == {"i1", "i2"}
T_Cands      == {"c1"}
T_CfgKeys    == {"ka", "empty"}
T_CfgVals    == {"v1", "v2"}
T_Lists      == {MC_InitAlpha, <<"k1">>, <<"k2", "k1", "k9">>, <<>>, <<"k1", "bad">>}
T_Payees     == {"p1"}
T_Amounts    == {0, 2, 3}
T_Gaps       == {0, 1, 19, 20, 21, 22}
T_SignerSets == {{k} : k \in MC_Keys} \cup {{"x1"}, {"x2"}, {}, {"c1"}, {"k1", "x1"}}

\* ---- simulation (scenario generation): richer ----
S_Strangers  == {"x1", "x2"}
S_Ids        == {"i1", "i2", "i3"}
S_Cands      == {"c1", "c2"}
S_CfgKeys    == {"ka", "kb", "empty"}
S_CfgVals    == {"v1", "v2"}
S_Lists      == {MC_InitAlpha, <<"k1">>, <<"k2", "k1">>, <<"k1", "k2", "k8", "k9">>, <<"k3", "k2", "k1", "k9">>,
                 <<>>, <<"k1", "bad">>}
S_Payees     == {"p1", "p2"}
S_Amounts    == {0, 1, 2, 5, 40}
S_Gaps       == {0, 0, 1, 1, 1, 2, 5, 19, 20, 21, 22}
S_SignerSets == {{k} : k \in MC_Keys} \cup {{"x1"}, {"x2"}, {}, {"c1"}, {"c2"}, {"k1", "x1"}}

MCInit == Init /\ rd = RdInit /\ hist = <<>> /\ nstep = 0 /\ n0 = N
MCNext == Next /\ rd' = RdNext(rd, ev') /\ hist' = <<>> /\ nstep' = nstep + 1 /\ n0' = n0
MCSpec == MCInit /\ [][MCNext]_mcvars

\* the code as it is (deviation StrangerVotes on): used by hand to let TLC exhibit the witness
DevNext == NextOf({"StrangerVotes"}, All, All) /\ rd' = RdNext(rd, ev') /\ hist' = <<>> /\ nstep' = nstep + 1 /\ n0' = n0
DevSpec == MCInit /\ [][DevNext]_mcvars

One(X) == IF X = {} THEN {} ELSE {RandomElement(X)}
\* signer sets are drawn with a bias towards Alphabet keys (so that quorums are reached)
OneS(X) == IF RandomElement(1..4) = 1 THEN One(X) ELSE {{KeyName(RandomElement(1..n0))}}
\* scenarios are generated from the code as it is (strangers' setConfig is not rejected there)
SimNext == NextOf({"StrangerVotes"}, One, OneS) /\ rd' = RdNext(rd, ev') /\ nstep' = nstep + 1 /\ n0' = n0
           /\ hist' = Append(hist, [ev' EXCEPT !.ntf = <<>>])
\* simulation starts from a stored list of any size 1..N (the first n0 keys)
SimInit == /\ n0 \in 1..N
           /\ alpha = [i \in 1..n0 |-> KeyName(i)] /\ ballots = <<>>
           /\ config = [k \in CfgKeys |-> Nil] /\ cands = Cands
           /\ gasC = InitGas /\ gasP = [p \in Payees |-> 0] /\ cur = 0
           /\ ev = Inv0("init", {}, Nil, Nil, Nil, <<>>, Nil, Nil, 0, 0)
           /\ rd = RdInit /\ hist = <<>> /\ nstep = 0
SimSpec == SimInit /\ [][SimNext]_mcvars

Bounded == nstep <= MaxSteps

\* everything depends on block distances only: heights are viewed relative to cur, capped above the window
Age(h) == IF cur - h > Window THEN Window + 1 ELSE cur - h
MCView == <<alpha, [i \in 1..Len(ballots) |-> [ballots[i] EXCEPT !.h = Age(@)]], config, cands, gasC, gasP,
            [i \in AllIds |-> IF rd[i].vs = {} THEN RdEmpty ELSE [rd[i] EXCEPT !.last = Age(@)]], nstep>>

EmitScenario == IF Len(hist) = SimLen THEN PrintT("SCEN " \o ToJson([n |-> n0, steps |-> hist])) ELSE TRUE

P_C17 == [][/\ C17_FiresIff(rd, ev') /\ C17_StrangerRejected(ev') /\ C17_RejectedInert(ev')
            /\ C17_MemberAccepted(ev') /\ C17_OwnerRemoves(ev')]_mcvars

TypeOK == /\ gasC \in Nat /\ cur \in Nat
          /\ \A i \in 1..Len(ballots) : ballots[i].id \in AllIds /\ Len(ballots[i].voters) >= 1

\* the ghost machine and the stored ballots agree while no round is tainted (refinement witness)
Inv_Refines ==
  \A id \in AllIds : ~rd[id].taint =>
     LET i == IdxOf(Live(ballots, cur), id)
     IN  IF rd[id].vs = {} \/ cur - rd[id].last > Window THEN i = 0
         ELSE i # 0 /\ Ran(Live(ballots, cur)[i].voters) = rd[id].vs /\ Live(ballots, cur)[i].h = rd[id].last
=============================================================================
