------------------------------ MODULE DeployMC ------------------------------
(* Model-checking wrapper of Deploy.tla: bounded configurations (cfg files under spec/cfg/Deploy_*.cfg). *)
EXTENDS Deploy

NoDev      == {}
IndexShift == {"IndexShift"}
Sticky     == {"StickyPending"}
NoAbsent   == {}
Absent1    == {1}
AbsentLast == {N - 1}
W2         == {2}
W0         == {}

\* symmetry is not used: member 0 leads and Alphabet contracts are bound to member indices
=============================================================================
