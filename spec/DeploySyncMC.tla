----------------------------- MODULE DeploySyncMC -----------------------------
(* Model-checking wrapper of DeploySync.tla (cfg files spec/cfg/DeploySync_*.cfg). *)
EXTENDS DeploySync
Sys    == [dep |-> 0, designated |-> FALSE, old |-> FALSE]
SysOld == [dep |-> 0, designated |-> FALSE, old |-> TRUE]
Al(i)  == [dep |-> i, designated |-> TRUE, old |-> FALSE]
NoDev  == {}
Sticky == {"StickyPending"}
SpecA  == <<Sys, Al(1)>>
SpecB  == <<SysOld, Sys, Al(1)>>
SpecC  == <<Sys, Al(0), Al(1), Al(2)>>
SpecD  == <<SysOld, Al(0), Al(1)>>
=============================================================================
