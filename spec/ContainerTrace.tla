---------------------------- MODULE ContainerTrace ----------------------------
(***************************************************************************)
(* Trace monitor: evaluates the properties C04/C05 (deciding) and the      *)
(* actions of Container.tla (binding) on executions recorded from the real *)
(* Container / NNS / Balance / Netmap / NeoFSID contracts by               *)
(* harness/container.  The state variables of the Spec are bound to the    *)
(* observed state of every line (raw storage, read API, NNS records,       *)
(* balances), so each check is a boolean evaluation; a failing check       *)
(* prints a FLAG line and the monitor goes on.                             *)
(***************************************************************************)
EXTENDS Container, Json, SequencesExt

CONSTANT TraceFile

VARIABLES l, g
tvars == <<x, oidx, tomb, meta, eacl, alias, dom, txt, bal, abal, fee, afee, n, idk, api, ev, l, g>>

Trace == ndJsonDeserialize(TraceFile)

M_Owners  == {"o1", "o2", "oa"}
M_Cids    == {"c0", "c1", "c2", "c3", "c4", "c5"}
M_COwner  == [c \in M_Cids |-> IF c \in {"c0", "c1", "c2"} THEN "o1" ELSE IF c \in {"c3", "c4"} THEN "o2" ELSE "oa"]
M_Names   == {"n1", "n2", "n3"}

EvOf(r) == [Event2(r.act, ToSet(r.S), r.c, r.v, r.nm, r.meta, r.c2, r.v2, r.nm2, r.meta2, r.o, r.k, r.amt, r.res, r.res2, r.ret,
                 r.ntf, r.ntf2, r.xfer, r.xfer2) EXCEPT !.kb = r.kb]

ApiObs(o) ==
  [get   |-> [c \in Cids |-> o.get[c]],
   owner |-> [c \in Cids |-> o.owner[c]],
   eacl  |-> [c \in Cids |-> o.aeacl[c]],
   alias |-> [c \in Cids |-> o.aalias[c]],
   list  |-> [w \in Owners \cup {"all"} |-> ToSet(o.list[w])],
   cof   |-> [w \in Owners \cup {"all"} |-> ToSet(o.cof[w])],
   count |-> o.count]

Flag(ok, prop, pred, r, tags) ==
  IF ok THEN TRUE
  ELSE PrintT("FLAG|" \o ToString(l + 1) \o "|" \o prop \o "|" \o pred \o "|" \o r.act \o "|" \o ToString(r.t)
              \o "|" \o ToString(tags))

\* deviation tag: the failure is explained by a TXT record that still names a deleted container under a name
\* it carried before its last alias (DESIGN 5.4 row 9)
Tags(r) == IF OnlyFormerAliasRecords(g') /\ \A c \in g'.dead : r.obs.strayOf[c] = 0 THEN {"StaleAliasRecord"} ELSE {}

SpecStep(r) ==
  LET e == EvOf(r) IN
  /\ CASE r.act = "put"       -> Put(e.S, e.c, e.v, e.nm, e.meta, e.kb)
       [] r.act = "put2"      -> Put2(e.S, e.c, e.v, e.nm, e.meta, e.c2, e.v2, e.nm2, e.meta2)
       [] r.act = "delete"    -> Delete(e.S, e.c)
       [] r.act = "setEACL"   -> SetEACL(e.S, e.c, e.v, e.kb)
       [] r.act = "setConfig" -> SetConfig(e.S, e.k, e.amt)
       [] r.act = "mint"      -> Mint(e.S, e.o, e.amt)
       [] r.act = "nnsReg"    -> NnsReg(e.S, e.nm, e.o)
       [] r.act = "nnsAdd"    -> NnsAdd(e.S, e.nm)
       [] OTHER -> FALSE
  /\ api' = ApiOf(x', oidx', eacl', alias')

\* listings carry no duplicates ("enumerate precisely")
NoDup(o) == \A w \in Owners \cup {"all"} : /\ Len(o.list[w]) = Cardinality(ToSet(o.list[w]))
                                           /\ Len(o.cof[w]) = Cardinality(ToSet(o.cof[w]))

Judge(r) ==
  LET e  == EvOf(r)
      g2 == g'
      t  == Tags(r)
  IN  /\ Flag(C04_Get(g2), "C04", "Get", r, t)
      /\ Flag(C04_Owner(g2), "C04", "Owner", r, t)
      /\ Flag(C04_EACL(g2), "C04", "EACL", r, t)
      /\ Flag(C04_Alias(g2), "C04", "Alias", r, t)
      /\ Flag(C04_AliasRecord(g2), "C04", "AliasRecord", r, t)
      /\ Flag(C04_Lists(g2) /\ NoDup(r.obs), "C04", "Lists", r, t)
      /\ Flag(C04_Count(g2), "C04", "Count", r, t)
      /\ Flag(C04_Final(g, e), "C04", "Final", r, t)
      /\ Flag(C04_NoTrace(g2) /\ \A c \in g2.dead : r.obs.strayOf[c] = 0, "C04", "NoTrace", r, t)
      /\ Flag(C04_Notif(g, e), "C04", "Notif", r, t)
      /\ Flag(C05_Exact(e) /\ (r.act \in {"put", "put2"} => r.obs.strayBal = <<>> /\ r.badAmt = <<>>), "C05", "Exact", r, t)
      /\ Flag(C05_MustPay(e), "C05", "MustPay", r, t)
      /\ Flag(C05_Atomic(e), "C05", "Atomic", r, t)
      /\ Flag(r.obs.stray = <<>> /\ r.bad = <<>> /\ r.badAmt = <<>>, "DRIFT", "StrayOrUnmapped", r, t)
      /\ Flag(SpecStep(r), "DRIFT", "SpecStep", r, t)

Bind(o) ==
  /\ x' = [c \in Cids |-> o.x[c]]
  /\ oidx' = ToSet(o.oidx) /\ tomb' = ToSet(o.tomb) /\ meta' = ToSet(o.meta)
  /\ eacl' = [c \in Cids |-> o.eacl[c]]
  /\ alias' = [c \in Cids |-> o.alias[c]]
  /\ dom' = [m \in Names |-> o.dom[m]]
  /\ txt' = [m \in Names |-> o.txt[m]]
  /\ bal' = [w \in Owners |-> o.bal[w]]
  /\ abal' = [k \in 1..o.n |-> o.abal[k]]
  /\ fee' = o.fee /\ afee' = o.afee /\ n' = o.n
  /\ idk' = ToSet(o.idk)
  /\ api' = ApiObs(o)

TraceInit ==
  /\ l = 0
  /\ InitState(1, 0, 0)
  /\ api = ApiOf(x, oidx, eacl, alias)
  /\ ev = Event("init", {}, Nil, Nil, Nil, FALSE, Nil, Nil, 0, "HALT", "null", <<>>, <<>>)
  /\ g = GInit

TraceNext ==
  /\ l < Len(Trace)
  /\ l' = l + 1
  /\ LET r == Trace[l + 1]
     IN  /\ Bind(r.obs)
         /\ ev' = EvOf(r)
         /\ IF r.act = "reset"
            THEN g' = GInit
            ELSE /\ g' = GNext(g, ev')
                 /\ Judge(r)
         /\ IF l' = Len(Trace) THEN PrintT("DONE|" \o ToString(l')) ELSE TRUE

TraceSpec == TraceInit /\ [][TraceNext]_tvars
=============================================================================
