----------------------------- MODULE DeployProps -----------------------------
(***************************************************************************)
(* Property C13 as predicates over a chain projection - shared by the      *)
(* design-level specification Deploy.tla (which builds the projection from *)
(* its variables) and by the trace monitor DeployTrace.tla (which builds   *)
(* it from what harness/deploy observed on the real chain after a block).  *)
(*                                                                         *)
(*   p.n      committee size                                               *)
(*   p.cons   set of [sys, dep, ...]   contracts on chain: system name (or *)
(*                                     contract number), deployer          *)
(*   p.recs   set of [dom, want, n, sys, ...] one per domain of the neofs  *)
(*            zone: the system name it must designate, the number of TXT   *)
(*            records, the system name of the on-chain contract that the   *)
(*            first record names (anything else if there is none)          *)
(***************************************************************************)
EXTENDS Integers, FiniteSets

\* at most one contract per system name (the n Alphabet contracts share one name)
UniqueContractsP(p, alphaName) ==
  \A s \in {c.sys : c \in p.cons} :
    Cardinality({c \in p.cons : c.sys = s}) <= (IF s = alphaName THEN p.n ELSE 1)

\* each <name>.neofs has at most one TXT record, and it names an on-chain contract of that name
RecordsFunctionalP(p) == \A r \in p.recs : r.n <= 1 /\ (r.n = 1 => r.sys = r.want)

(***************************************************************************)
(* Order of the stages (binding only: an observed projection that is not   *)
(* closed under these dependencies means the real procedure orders its     *)
(* stages differently from Deploy.tla - drift, never an alarm).            *)
(* Milestones: <<"nns",0>> NNS deployed, <<"ntr",0>> Notary role,          *)
(* <<"alp",0>> NeoFSAlphabet role, <<"con",c>> contract c on chain,        *)
(* <<"rec",c>> contract c recorded in the neofs zone, <<"pgas",0>> Proxy   *)
(* funded, <<"cand",0>> candidates registered, <<"neo",0>> NEO distributed;*)
(* contracts 1..k are the leader's in deployment order, k+1+i is the       *)
(* Alphabet contract of member i.                                          *)
(***************************************************************************)
Deps(m, k, n) ==
  CASE m[1] = "nns"  -> {}
    [] m[1] = "ntr"  -> {<<"nns", 0>>}
    [] m[1] = "alp"  -> {<<"ntr", 0>>}
    [] m[1] = "con"  -> IF m[2] = 1 THEN {<<"alp", 0>>}
                        ELSE IF m[2] = 2 THEN {<<"rec", 1>>, <<"cand", 0>>} ELSE {<<"rec", m[2] - 1>>}
    [] m[1] = "rec"  -> {<<"con", m[2]>>}
    [] m[1] = "pgas" -> {<<"rec", 1>>}
    [] m[1] = "cand" -> {<<"pgas", 0>>}
    [] m[1] = "neo"  -> {<<"rec", k + n>>}
Closed(ms, k, n) == \A m \in ms : Deps(m, k, n) \subseteq ms
=============================================================================
