----------------------------- MODULE AccessTrace -----------------------------
(***************************************************************************)
(* Trace monitor of C03: evaluates the property predicates of Access.tla   *)
(* (deciding) and the generic action Invoke / Verify (binding) on the      *)
(* cells recorded by harness/access from the real contracts.  `world` and  *)
(* `tok` are bound to the digests observed after every line; a `setup`     *)
(* line is a free step (the harness builds the canonical pre-state of the  *)
(* next cell with ordinary, correctly witnessed transactions).             *)
(* Sufficient / Exact are re-derived here from the recorded class and the  *)
(* recorded signer atoms - the expected kind printed by TLC travels with   *)
(* the line only as a cross-check.                                         *)
(***************************************************************************)
EXTENDS Access, Json, SequencesExt

CONSTANT TraceFile

VARIABLES l
tvars == <<world, tok, ev, l>>

Trace == ndJsonDeserialize(TraceFile)

M_World == STRING
M_Sizes == 1..21

Known(r)    == \E m \in Methods : m.c = r.c /\ m.m = r.m /\ m.a = r.a /\ m.v = r.v
MethodOf(r) == CHOOSE m \in Methods : m.c = r.c /\ m.m = r.m /\ m.a = r.a /\ m.v = r.v

EvOf(r) == [act |-> r.act, c |-> r.c, m |-> r.m, a |-> r.a, v |-> r.v, safe |-> r.safe, io |-> r.io, cls |-> r.cls,
            S |-> ToSet(r.S), n |-> r.n, res |-> r.res, ret |-> r.ret, ntf |-> r.ntf, valid |-> r.valid]

Flag(ok, prop, pred, r, tags) ==
  IF ok THEN TRUE
  ELSE PrintT("FLAG|" \o ToString(l + 1) \o "|" \o prop \o "|" \o pred \o "|" \o r.c \o "." \o r.m \o "|" \o ToString(r.t)
              \o "|" \o ToString(tags))

\* deviation tags: predicates over one line that explain a failure by a listed known finding
Tags(r) ==
  (IF r.c = "balance" /\ r.m = "transferX" /\ r.cls = "holder-or-alphabet" /\ "KEY" \in ToSet(r.S) /\ "ALPHA" \notin ToSet(r.S)
   THEN {"DocWiderThanCode"} ELSE {})
  \cup (IF r.c = "neofs" /\ r.m = "setConfig" /\ r.v = "votes" /\ "M1" \notin ToSet(r.S) THEN {"StrangerVotes"} ELSE {})

KindOf(r) ==
  IF r.act = "verify" THEN (IF VerifyAccepts(r.cls, ToSet(r.S)) THEN "accept" ELSE "reject")
  ELSE Kind(r.safe, r.io, r.cls, ToSet(r.S), r.n)

JudgeInvoke(r) ==
  LET e == EvOf(r)
      t == Tags(r)
  IN  /\ Flag(C03_Inert(e), "C03", "Inert", r, t)
      /\ Flag(C03_Succeeds(e), "C03", "Succeeds", r, t)
      /\ Flag(C03_SafeInert(e), "C03", "SafeInert", r, t)
      \* the recorded booleans agree with the digests (harness self-check)
      /\ Flag((r.wch <=> world' # world) /\ (r.tch <=> tok' # tok), "DRIFT", "Digest", r, t)
      /\ Flag(Known(r), "DRIFT", "Table", r, t)
      /\ Known(r) =>
           /\ Flag(MethodOf(r).safe = r.safe /\ MethodOf(r).io = r.io /\ ClassOf(MethodOf(r)) = r.cls, "DRIFT", "Table", r, t)
           /\ Flag(r.safe = r.msafe, "DRIFT", "SafeFlag", r, t)
           /\ Flag(ToSet(r.S) = Norm(ToSet(r.S0), r.cls, r.n), "DRIFT", "SignerNorm", r, t)
           /\ Flag(KindOf(r) = r.kind, "DRIFT", "Kind", r, t)
           /\ Flag(Invoke(MethodOf(r), ToSet(r.S0), r.n), "DRIFT", "SpecStep", r, t)

JudgeVerify(r) ==
  LET e == EvOf(r)
      t == Tags(r)
  IN  /\ Flag(C03_Verify(e), "C03", "Verify", r, t)
      /\ Flag(\E vf \in Verifiers : vf.c = r.c /\ vf.cls = r.cls, "DRIFT", "Table", r, t)
      /\ Flag(ToSet(r.S) = Norm(ToSet(r.S0), r.cls, r.n), "DRIFT", "SignerNorm", r, t)
      /\ Flag(Verify([c |-> r.c, cls |-> r.cls], ToSet(r.S0), r.n), "DRIFT", "SpecStep", r, t)

Judge(r) ==
  CASE r.act = "invoke"   -> JudgeInvoke(r)
    [] r.act = "verify"   -> JudgeVerify(r)
    \* the compiled manifest marks exactly the methods of config.yml as safe, and the table agrees with it
    [] r.act = "declared" -> /\ Flag(r.valid, "DRIFT", "ManifestVsConfig", r, {})
                             /\ Flag(r.safe = r.msafe, "DRIFT", "SafeFlag", r, {})
    [] r.act = "uncovered" -> Flag(r.valid, "DRIFT", "ManifestVsConfig", r, {})
    [] r.act = "missing"  -> Flag(FALSE, "DRIFT", "MissingMethod", r, {})
    [] r.act = "setupfail" -> Flag(FALSE, "DRIFT", "SetupFailed", r, {})
    [] OTHER -> TRUE      \* reset, setup

TraceInit ==
  /\ l = 0
  /\ world = "" /\ tok = ""
  /\ ev = Event("init", Sf("", "", 0), "safe", {}, 0, "HALT", "other", FALSE, TRUE)

TraceNext ==
  /\ l < Len(Trace)
  /\ l' = l + 1
  /\ LET r == Trace[l + 1]
     IN  /\ world' = r.obs.world
         /\ tok' = r.obs.tok
         /\ ev' = EvOf(r)
         /\ Judge(r)
         /\ IF l' = Len(Trace) THEN PrintT("DONE|" \o ToString(l')) ELSE TRUE

TraceSpec == TraceInit /\ [][TraceNext]_tvars
=============================================================================
