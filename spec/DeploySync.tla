----------------------------- MODULE DeploySync -----------------------------
(***************************************************************************)
(* Refinement of the "sync" stage of Deploy.tla: the deploy-or-update-or-  *)
(* register loop syncNeoFSContract of /repo/deploy/contracts.go:210-507    *)
(* with its pending-transaction monitors (deployTxMonitor, updateTxMonitor,*)
(* setRecordTxMonitor), the leader / designated-deployer rule and the      *)
(* pre-calculated contract address, run by every member for a sequence of  *)
(* contracts (each member synchronises contract c+1 only after its own     *)
(* loop for contract c returned, as Deploy does).                          *)
(*                                                                         *)
(* One Iter(i) is one iteration of the loop (one per block in the code).   *)
(* Contracts: Spec[c] = [dep, designated, old]                             *)
(*   dep         member whose tryDeploy flag is set (0 for system          *)
(*               contracts, i for the Alphabet contract of member i)       *)
(*   designated  TRUE iff the other members are told the deployer          *)
(*               (designatedDeployer: Alphabet contracts only), so that    *)
(*               they can pre-calculate the address and register it        *)
(*   old         TRUE iff an older version is already deployed and         *)
(*               recorded when the procedure starts (update path)          *)
(* A contract on chain is <<c, deployer>> (state.CreateContractHash).      *)
(* The update transaction is the same for every member inside one window   *)
(* of the nonce/ValidUntilBlock helper (neoFSRuntimeTransactionModifier),  *)
(* so the members' notary requests for it collect signatures on one main   *)
(* transaction.                                                            *)
(***************************************************************************)
EXTENDS Integers, Sequences, FiniteSets, TLC

CONSTANTS N, Spec_, MaxCancel, MaxRerun, MaxLoss, Dev
\* Spec_ : sequence of [dep, designated, old]
\* MaxLoss : submissions (transactions, update requests) that never reach the pool - unfair Lose actions, finitely many.
\*           The monitor of the stage is reset when the tracked transaction passed its ValidUntilBlock unconfirmed
\*           (util.go:178-184), so a lost submission is simply no longer pending and the loop sends again.
\* Dev     : deviation switch "StickyPending": the monitor stays pending after such an expiry.

Members   == 0..(N - 1)
Maj       == N - ((N - 1) \div 2)
Contracts == 1..Len(Spec_)
DonePc    == Len(Spec_) + 1

VARIABLES
  cons,    \* contracts on chain: <<c, deployer>>
  ver,     \* ver[c] \in {0, 1}: version of the on-chain contract (1 = the local executable)
  recs,    \* recs[c]: set of contracts named by TXT records of the domain
  owner,   \* owner[c]: member owning the NNS domain (-1: not registered)
  pool,    \* simple transactions [k, c, by, run]
  upd,     \* upd[c]: signers of the shared update transaction (notary request); -1-marker {} = none
  pc, upToDate, alive, run, cancels, fin, reruns, late,
  losses,  \* number of losses so far
  stuck    \* [k, c, by, run] whose monitor stayed pending after the loss ("StickyPending" only)
lvars == <<losses, stuck>>
vars == <<cons, ver, recs, owner, pool, upd, pc, upToDate, alive, run, cancels, fin, reruns, late, losses, stuck>>

Init ==
  /\ cons = {<<c, Spec_[c].dep>> : c \in {c \in Contracts : Spec_[c].old}}
  /\ ver = [c \in Contracts |-> 0]
  /\ recs = [c \in Contracts |-> IF Spec_[c].old THEN {<<c, Spec_[c].dep>>} ELSE {}]
  /\ owner = [c \in Contracts |-> IF Spec_[c].old THEN Spec_[c].dep ELSE -1]
  /\ pool = {} /\ upd = [c \in Contracts |-> {}]
  /\ pc = [i \in Members |-> 1] /\ upToDate = [i \in Members |-> FALSE] /\ alive = [i \in Members |-> TRUE]
  /\ run = [i \in Members |-> 0] /\ cancels = 0 /\ fin = FALSE /\ reruns = 0 /\ late = FALSE
  /\ losses = 0 /\ stuck = {}

Stuck(i, k, c)   == \E t \in stuck : t.k = k /\ t.c = c /\ t.by = i /\ t.run = run[i]
Pending(i, k, c) == Stuck(i, k, c) \/ \E t \in pool : t.k = k /\ t.c = c /\ t.by = i /\ t.run = run[i]
Tx(k, c, i) == [k |-> k, c |-> c, by |-> i, run |-> run[i]]

Return(i)  == pc' = [pc EXCEPT ![i] = @ + 1] /\ upToDate' = [upToDate EXCEPT ![i] = FALSE] /\ UNCHANGED <<pool, upd>>
Continue(i) == UNCHANGED <<pc, upToDate, pool, upd>>
SendTx(i, t) == pool' = pool \cup {t} /\ UNCHANGED <<pc, upToDate, upd>>

Iter(i) ==
  /\ alive[i] /\ pc[i] < DonePc
  /\ LET c       == pc[i]
         s       == Spec_[c]
         missing == recs[c] = {}                                    \* missingDomainRecord
         try     == s.dep = i                                       \* tryDeploy
         known   == try \/ s.designated                             \* deployer account known to this member
         named   == IF missing THEN <<c, s.dep>> ELSE CHOOSE p \in recs[c] : TRUE
         onChain == named \in cons
     IN  IF ~missing /\ ~onChain THEN Continue(i)                   \* recorded but not found: background fix
         ELSE IF missing /\ ~known THEN Continue(i)                 \* "domain record is missing, will try again later"
         ELSE IF ~onChain
         THEN IF ~try \/ Pending(i, "deploy", c) THEN Continue(i)
              ELSE SendTx(i, Tx("deploy", c, i))
         ELSE IF upToDate[i] /\ ~missing THEN Return(i)
         ELSE IF ~upToDate[i]
         THEN IF ver[c] = 1                                         \* test invocation of update: "already updated"
              THEN IF ~missing THEN Return(i)
                   ELSE upToDate' = [upToDate EXCEPT ![i] = TRUE] /\ UNCHANGED <<pc, pool, upd>>
              ELSE IF i \in upd[c] \/ Stuck(i, "update", c) THEN Continue(i)   \* updateTxMonitor pending
              ELSE /\ upd' = [upd EXCEPT ![c] = @ \cup {i}]         \* notary request on the shared main transaction
                   /\ pool' = IF Cardinality(upd'[c]) >= Maj THEN pool \cup {[k |-> "update", c |-> c, by |-> -1, run |-> 0]} ELSE pool
                   /\ UNCHANGED <<pc, upToDate>>
         ELSE IF Pending(i, "register", c) THEN Continue(i)         \* setNeoFSContractDomainRecord
         ELSE SendTx(i, Tx("register", c, i))
  /\ late' = (late \/ (fin /\ (pool' # pool \/ upd' # upd)))
  /\ fin' = (fin \/ \A j \in Members : pc'[j] = DonePc)
  /\ UNCHANGED <<cons, ver, recs, owner, alive, run, cancels, reruns, lvars>>

Include(t) ==
  /\ t \in pool
  /\ pool' = pool \ {t}
  /\ CASE t.k = "deploy" ->      \* the address is a function of (sender, executable, name): a second deployment faults
            /\ cons' = cons \cup {<<t.c, t.by>>}
            /\ ver' = IF <<t.c, t.by>> \in cons THEN ver ELSE [ver EXCEPT ![t.c] = 1]
            /\ UNCHANGED <<recs, owner, upd>>
       [] t.k = "update" ->
            /\ ver' = [ver EXCEPT ![t.c] = 1] /\ upd' = [upd EXCEPT ![t.c] = {}]
            /\ UNCHANGED <<cons, recs, owner>>
       [] t.k = "register" ->    \* register (false if taken) + addRecord (owner only, faults on a duplicate)
            LET free == owner[t.c] = -1
                mine == free \/ owner[t.c] = t.by
                rec  == <<t.c, Spec_[t.c].dep>>
            IN  /\ owner' = IF free THEN [owner EXCEPT ![t.c] = t.by] ELSE owner
                /\ recs' = IF mine /\ rec \notin recs[t.c] THEN [recs EXCEPT ![t.c] = @ \cup {rec}] ELSE recs
                /\ UNCHANGED <<cons, ver, upd>>
  /\ UNCHANGED <<pc, upToDate, alive, run, cancels, fin, reruns, late, lvars>>

Stick(x) == IF "StickyPending" \in Dev THEN stuck \cup {x} ELSE stuck
Lose(t) ==
  /\ t \in pool /\ t.k # "update" /\ losses < MaxLoss
  /\ pool' = pool \ {t} /\ losses' = losses + 1 /\ stuck' = Stick(t)
  /\ UNCHANGED <<cons, ver, recs, owner, upd, pc, upToDate, alive, run, cancels, fin, reruns, late>>
\* the update request of member i (its signature on the shared main transaction) never reaches the notary pool
LoseUpd(i, c) ==
  /\ i \in upd[c] /\ losses < MaxLoss /\ ~\E t \in pool : t.k = "update" /\ t.c = c
  /\ upd' = [upd EXCEPT ![c] = @ \ {i}] /\ losses' = losses + 1
  /\ stuck' = Stick([k |-> "update", c |-> c, by |-> i, run |-> run[i]])
  /\ UNCHANGED <<cons, ver, recs, owner, pool, pc, upToDate, alive, run, cancels, fin, reruns, late>>

Cancel(i) ==
  /\ alive[i] /\ pc[i] < DonePc /\ cancels < MaxCancel
  /\ alive' = [alive EXCEPT ![i] = FALSE] /\ cancels' = cancels + 1
  /\ UNCHANGED <<cons, ver, recs, owner, pool, upd, pc, upToDate, run, fin, reruns, late, lvars>>
Restart(i) ==
  /\ ~alive[i]
  /\ alive' = [alive EXCEPT ![i] = TRUE] /\ pc' = [pc EXCEPT ![i] = 1] /\ upToDate' = [upToDate EXCEPT ![i] = FALSE]
  /\ run' = [run EXCEPT ![i] = @ + 1]
  /\ upd' = [c \in Contracts |-> upd[c] \ {i}]          \* the fresh run's monitor is not pending: it may sign again
  /\ UNCHANGED <<cons, ver, recs, owner, pool, cancels, fin, reruns, late, lvars>>
Rerun(i) ==
  /\ fin /\ pc[i] = DonePc /\ reruns < MaxRerun
  /\ pc' = [pc EXCEPT ![i] = 1] /\ run' = [run EXCEPT ![i] = @ + 1] /\ reruns' = reruns + 1
  /\ UNCHANGED <<cons, ver, recs, owner, pool, upd, upToDate, alive, cancels, fin, late, lvars>>

Next == \/ \E i \in Members : Iter(i) \/ Cancel(i) \/ Restart(i) \/ Rerun(i) \/ \E c \in Contracts : LoseUpd(i, c)
        \/ \E t \in pool : Include(t) \/ Lose(t)
Spec == Init /\ [][Next]_vars /\ WF_vars(\E t \in pool : Include(t))
        /\ \A i \in Members : WF_vars(Iter(i)) /\ WF_vars(Restart(i))

\* ---------------------------------------------------------------- properties (C13)
UniqueContracts   == \A c \in Contracts : Cardinality({p \in cons : p[1] = c}) <= 1
RecordsFunctional == \A c \in Contracts : Cardinality(recs[c]) <= 1 /\ recs[c] \subseteq cons /\ \A p \in recs[c] : p[1] = c
AllDone           == \A i \in Members : pc[i] = DonePc
FinalOK           == AllDone => \A c \in Contracts : recs[c] = {<<c, Spec_[c].dep>>} /\ ver[c] = 1
Idempotent        == ~late
Converges         == <>[]AllDone
TypeOK            == pc \in [Members -> 1..DonePc] /\ \A c \in Contracts : ver[c] \in {0, 1}
=============================================================================
