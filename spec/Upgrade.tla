------------------------------- MODULE Upgrade -------------------------------
(***************************************************************************)
(* Implementation-shaped specification of contract upgrade (property C16): *)
(* the `Update(script, manifest, data)` methods of the eleven contracts,   *)
(* common.CheckVersion / AppendVersion, common.TryPurgeVotes and every     *)
(* `_deploy(data, isUpdate = true)` migration routine:                     *)
(*   balance    switchToNotary (< 0.17), switchToAccPrefixes (< 0.20)      *)
(*   container  un-prefixed <cid> / <owner||cid> keys, selected by key     *)
(*              LENGTH 32 / 57 (every version), switchToNotary (< 0.17)    *)
(*   netmap     legacy snapshot / candidate structures (< 0.16),           *)
(*              switchToNotary (< 0.17), script-hash keys -> subscribers   *)
(*              (< 0.19)                                                   *)
(*   nns        TLD owners -> committee (< 0.18)                           *)
(*   alphabet, audit, neofsid, reputation  switchToNotary variants         *)
(*   neofs, processing, proxy  version check only                          *)
(*                                                                         *)
(* One specification instance is ONE deployed contract.  Its state is the  *)
(* raw storage as a set of abstract items <<shape, a, b, value>> (the      *)
(* shape stands for the key layout and hence the key length, which is what *)
(* the migrations select on), the version constant of the deployed code    *)
(* (ver = -1: the helper contract `shell`, which forwards any version      *)
(* argument verbatim), and the read API as a set of facts                  *)
(* <<method, argument, answer>> (default answers are left out).            *)
(*                                                                         *)
(* The predicates of C16 are at the end, over one step.                    *)
(***************************************************************************)
EXTENDS Integers, Sequences, FiniteSets, TLC

CONSTANTS
  Prev, New,     \* common.PrevVersion, common.Version of the tree
  Dev            \* deviation switches: behaviour of the code that the property forbids

MainKinds  == {"neofs", "processing"}                       \* updated by the NeoFSAlphabet role majority
Kinds      == {"alphabet", "audit", "balance", "container", "neofs", "neofsid", "netmap", "nns",
               "processing", "proxy", "reputation"}
NotaryKinds == {"alphabet", "audit", "balance", "container", "neofsid", "netmap", "reputation"}   \* have switchToNotary
PurgeKinds  == NotaryKinds \ {"audit"}                       \* ... which calls TryPurgeVotes
TLDs       == {"neofs", "container", "org"}                  \* names without a dot in the model universe
AllDev     == {"EstKey57"}

VARIABLES kind, mode, era, ver, store, api, ev
vars == <<kind, mode, era, ver, store, api, ev>>

Event(act, S, v, res) == [act |-> act, S |-> S, v |-> v, res |-> res]

-----------------------------------------------------------------------------
(* storage helpers *)
Has(st, sh)       == \E i \in st : i[1] = sh
ValOf(st, sh)     == (CHOOSE i \in st : i[1] = sh)[4]
Drop(st, shs)     == {i \in st : i[1] \notin shs}
\* storage.Put under the re-prefixed key overwrites whatever was there, storage.Delete removes the old key
Rename(st, from, to) ==
  LET moved == {i \in st : i[1] = from}
      tgt   == {<<to, i[2], i[3]>> : i \in moved}
  IN  {i \in st : i[1] # from /\ <<i[1], i[2], i[3]>> \notin tgt} \cup {<<to, i[2], i[3], i[4]>> : i \in moved}
RenameIf(st, from, to, P(_)) ==
  LET moved == {i \in st : i[1] = from /\ P(i)}
      tgt   == {<<to, i[2], i[3]>> : i \in moved}
  IN  {i \in st : i \notin moved /\ <<i[1], i[2], i[3]>> \notin tgt} \cup {<<to, i[2], i[3], i[4]>> : i \in moved}

Num(s) == CHOOSE n \in -1..64 : ToString(n) = s

NotaryExtra(k) == CASE k = "balance" -> {"nmhash", "cnhash"}
                    [] k = "netmap"  -> {"innerring"}
                    [] k = "neofsid" -> {"cnhash"}
                    [] k = "audit"   -> {"nmhash"}
                    [] OTHER         -> {}

NotaryOn(st) == Has(st, "notary") /\ ValOf(st, "notary") = "true"
\* common.TryPurgeVotes: a ballot whose last vote is at most 20 blocks old blocks the switch
\* ballots values: "empty", "stale", "many" (8 stale), "edge21" (21 blocks old) do not block;
\* "fresh", "mixed", "manyfresh" (7 stale + 1 fresh), "edge20" (exactly 20 blocks old) do
\* "mixedrev" (fresh, stale) and "freshmid" (stale, fresh, stale): the fresh ballot is not the last of the list
FreshBallots == {"fresh", "mixed", "mixedrev", "freshmid", "manyfresh", "edge20"}
PendingVote(k, st) == k \in PurgeKinds /\ NotaryOn(st) /\ Has(st, "ballots") /\ ValOf(st, "ballots") \in FreshBallots

SwitchToNotary(k, st) ==
  IF ~Has(st, "notary") THEN st
  ELSE LET purged == IF NotaryOn(st) /\ k \in PurgeKinds THEN {"ballots"} ELSE {}
           s1     == Drop(st, {"notary"} \cup NotaryExtra(k) \cup purged)
       IN  IF k = "alphabet" /\ NotaryOn(st)
           THEN Drop(s1, {"pxhash"}) \cup {<<"pxhash", "", "", "hp">>}      \* the Proxy address passed in the arguments
           ELSE s1

-----------------------------------------------------------------------------
(* the migrations, one operator per contract, guards in code order *)
MigBalance(v, st) ==
  LET s1 == IF v < 17000 THEN SwitchToNotary("balance", st) ELSE st
  IN  IF v < 20000 THEN Rename(Rename(s1, "acc", "aacc"), "junk20", "ajunk") ELSE s1     \* every key of length 20

MigContainer(v, st, dev) ==
  LET s1 == Rename(Rename(st, "cnr", "xcnr"), "junk32", "xjunk")                           \* every key of length 32
      s2 == Rename(s1, "own", "oown")                                                       \* every key of length 57
      \* "cnr" || int(epoch) || cid || 10 bytes has length 57 when the epoch takes 12 bytes
      s3 == IF "EstKey57" \in dev THEN RenameIf(s2, "size", "osize", LAMBDA i : i[2] = "big") ELSE s2
  IN  IF v < 17000 THEN SwitchToNotary("container", s3) ELSE s3

MigNetmap(v, st) ==
  LET cnt == IF Has(st, "snapcount") THEN Num(ValOf(st, "snapcount")) ELSE 0
      \* < 0.16: snapshot slots 0..count-1 and all candidates are rewritten into the two-field structure
      s1 == IF v < 16000
            THEN LET old == {i \in st : i[1] = "osnap" /\ Num(i[2]) < cnt}
                     oc  == {i \in st : i[1] = "ocand"}
                 IN  ((st \ old) \ oc) \cup {<<"snap", i[2], i[3], "1">> : i \in old} \cup {<<"cand", i[2], i[3], i[4]>> : i \in oc}
            ELSE st
      s2 == IF v < 17000 THEN SwitchToNotary("netmap", s1) ELSE s1
      sub(s, sh, idx) == IF Has(s, sh) THEN Drop(s, {sh}) \cup {<<"sub", idx, ValOf(s, sh), "">>}
                         ELSE s \cup {<<"sub0", idx, "", "">>}                              \* key without a hash
  IN  IF v < 19000 THEN sub(sub(s2, "blhash", "0"), "cnhash", "1") ELSE s2

Pred(s) == ToString(Num(s) - 1)
MigNNS(v, st) ==
  IF v >= 18000 THEN st
  ELSE LET tlds   == {i \in st : i[1] = "name" /\ i[3] = "owner" /\ i[2] \in TLDs}
           owners == {i[4] : i \in tlds}
           cntOf(o) == Cardinality({i \in tlds : i[4] = o})
           \* updateBalance(owner, -1) per TLD; a nil owner addresses the bare prefix key
           balKey(o) == IF o = "nil" THEN <<"nbal0", "", "">> ELSE <<"bal", o, "">>
           oldBal(o) == IF \E i \in st : <<i[1], i[2], i[3]>> = balKey(o)
                        THEN Num((CHOOSE i \in st : <<i[1], i[2], i[3]>> = balKey(o))[4]) ELSE 0
           s1 == {i \in st : ~(\E o \in owners : <<i[1], i[2], i[3]>> = balKey(o))}
           s2 == s1 \cup {<<balKey(o)[1], balKey(o)[2], "", ToString(oldBal(o) - cntOf(o))>> : o \in {x \in owners : oldBal(x) - cntOf(x) # 0}}
           s3 == {i \in s2 : ~(i[1] = "acctok" /\ i[3] \in TLDs /\ \E t \in tlds : t[2] = i[3] /\ t[4] = i[2])}
       IN  (s3 \ tlds) \cup {<<"name", i[2], "owner", "nil">> : i \in tlds}

MigSimple(k, v, st) ==
  LET s1 == IF v < 17000 /\ k \in NotaryKinds THEN SwitchToNotary(k, st) ELSE st
  IN  IF k = "neofsid" /\ v < 19000 THEN Drop(s1, {"nmhash"}) ELSE s1

Migrate(k, v, st, dev) ==
  CASE k = "balance"   -> MigBalance(v, st)
    [] k = "container" -> MigContainer(v, st, dev)
    [] k = "netmap"    -> MigNetmap(v, st)
    [] k = "nns"       -> MigNNS(v, st)
    [] OTHER           -> MigSimple(k, v, st)

-----------------------------------------------------------------------------
(* read API of the tree version as a function of the storage *)
Count(m, a, S) == IF S = {} THEN {} ELSE {<<m \o "#", a, ToString(Cardinality(S))>>}
Listing(m, a, S) == {<<m, a, x>> : x \in S} \cup Count(m, a, S)

ApiBalance(st, accSh) ==
  {<<"balanceOf", i[2], i[4]>> : i \in {j \in st : j[1] = accSh /\ j[4] # "0"}}
  \cup {<<"totalSupply", "", IF Has(st, "supply") THEN ValOf(st, "supply") ELSE "0">>}
  \cup {<<"decimals", "", "12">>, <<"symbol", "", "NEOFS">>}

\* cn/ow/sz: the shapes under which containers, owner index entries and size estimations are read
ApiContainer(st, cn, jk, ow, bogus) ==
  LET cnrs   == {i \in st : i[1] = cn}
      ids    == {i[2] : i \in cnrs} \cup (IF Has(st, jk) THEN {"junk"} ELSE {})
      owns   == {i \in st : i[1] = ow}
      owners == {i[2] : i \in owns}
      sizes  == {i \in st : i[1] = "size"}
      all    == {i[4] : i \in owns} \cup (IF \E i \in st : i[1] \in bogus THEN {"bogus"} ELSE {})
  IN  {<<"count", "", ToString(Cardinality(ids))>>}
      \cup Listing("list", "", ids)
      \cup {<<"containersOf", "", x>> : x \in all}
      \cup (IF all = {} THEN {} ELSE {<<"containersOf#", "", ToString(Cardinality(owns) + Cardinality({i \in st : i[1] \in bogus}))>>})
      \cup UNION {Listing("list", o, {i[4] : i \in {j \in owns : j[2] = o}}) : o \in owners}
      \cup UNION {Listing("containersOf", o, {i[4] : i \in {j \in owns : j[2] = o}}) : o \in owners}
      \cup {<<"get", i[2], i[4]>> : i \in cnrs} \cup {<<"owner", i[2], i[4]>> : i \in cnrs}
      \cup {<<"eACL", i[2], i[4]>> : i \in {j \in st : j[1] = "eacl"}}
      \cup {<<"alias", i[2], i[4]>> : i \in {j \in st : j[1] = "alias"}}
      \cup {<<"listContainerSizes", i[2], i[3]>> : i \in sizes}
      \cup {<<"getContainerSize", i[2] \o "|" \o i[3], i[4]>> : i \in sizes}
      \cup {<<"iterateContainerSizes", i[2] \o "|" \o i[3], i[4]>> : i \in sizes}
      \cup {<<"iterateAllContainerSizes", i[2], i[3] \o ":" \o i[4]>> : i \in sizes}

\* The snapshot ring: `snapcount` slots, `snapcur` = slot of the current epoch, snapshot(d) reads slot
\* (cur - d + count) % count for every d < count, snapshotByEpoch(e) = snapshot(epoch - e).  A slot (and a candidate) is
\* stored in the two-field layout ("snap"/"cand") or in the pre-0.16 layout ("osnap": one field, implicitly Online;
\* "ocand": nested).  legacy = TRUE: what the storage stands for; legacy = FALSE: what the tree version answers - it
\* returns a structure of the old layout as it is, i.e. without a usable State ("?").
ApiNetmap(st, legacy) ==
  LET cnt  == IF Has(st, "snapcount") THEN Num(ValOf(st, "snapcount")) ELSE 0
      cur  == IF Has(st, "snapcur") THEN Num(ValOf(st, "snapcur")) ELSE 0
      ep   == IF Has(st, "epoch") THEN Num(ValOf(st, "epoch")) ELSE 0
      stOf(i) == IF i[1] = "snap" THEN i[4] ELSE IF legacy THEN "1" ELSE "?"
      cdOf(i) == IF i[1] = "cand" \/ legacy THEN i[4] ELSE "?"
      slot(s) == {i[3] \o ":" \o stOf(i) : i \in {j \in st : j[1] \in {"snap", "osnap"} /\ j[2] = ToString(s)}}
      cfgs == {i \in st : i[1] = "cfg"}
  IN  {<<"epoch", "", IF Has(st, "epoch") THEN ValOf(st, "epoch") ELSE "0">>}
      \cup (IF Has(st, "block") THEN {<<"lastEpochBlock", "", ValOf(st, "block")>>} ELSE {})
      \cup Listing("netmap", "", slot(cur))
      \cup Listing("netmapCandidates", "", {i[2] \o ":" \o cdOf(i) : i \in {j \in st : j[1] \in {"cand", "ocand"}}})
      \cup UNION {Listing("snapshot", ToString(d), slot((cur - d + cnt) % cnt)) : d \in 0..(cnt - 1)}
      \cup UNION {Listing("snapshotByEpoch", ToString(ep - d), slot((cur - d + cnt) % cnt)) : d \in 0..(cnt - 1)}
      \cup {<<"config", i[2], i[4]>> : i \in cfgs}
      \cup Listing("listConfig", "", {i[2] \o "=" \o i[4] : i \in cfgs})

ApiNNS(st) ==
  LET names == {i[2] : i \in {j \in st : j[1] = "name"}}
      fld(n, f) == (CHOOSE i \in st : i[1] = "name" /\ i[2] = n /\ i[3] = f)[4]
      \* records are read through non-TLD names only (the record getters refuse a TLD since 0.18, by design)
      recs(t) == {i \in st : i[1] = "rec" \o t /\ i[2] \notin TLDs}
  IN  Listing("tokens", "", names)
      \cup Listing("roots", "", {i[2] : i \in {j \in st : j[1] = "root"}})
      \cup (IF Has(st, "price") THEN {<<"getPrice", "", ValOf(st, "price")>>} ELSE {})
      \cup {<<"ownerOf", n, fld(n, "owner")>> : n \in names \ TLDs}
      \cup {<<"properties", n, fld(n, "exp") \o "|" \o fld(n, "admin")>> : n \in names \ TLDs}
      \cup {<<"getRecords", i[2] \o ":16", i[4]>> : i \in recs("16")}
      \cup {<<"getRecords", i[2] \o ":1", i[4]>> : i \in recs("1")}
      \cup UNION {{<<"getAllRecords", i[2], t \o ":" \o i[3] \o ":" \o i[4]>> : i \in recs(t)} : t \in {"1", "6", "16"}}
      \cup {<<"resolve", i[2], i[4]>> : i \in recs("16")}
      \cup {<<"tokensOf", i[2], i[3]>> : i \in {j \in st : j[1] = "acctok" /\ j[3] \notin TLDs}}

ApiOther(k, st) ==
  CASE k = "neofsid"    -> UNION {Listing("key", o, {i[3] : i \in {j \in st : j[1] = "key" /\ j[2] = o}}) : o \in {i[2] : i \in {j \in st : j[1] = "key"}}}
    [] k = "reputation" -> UNION {Listing("listByEpoch", e, {i[3] : i \in {j \in st : j[1] = "cnt" /\ j[2] = e}}) : e \in {i[2] : i \in {j \in st : j[1] = "cnt"}}}
                           \cup UNION {Listing("get", i[2] \o "|" \o i[3], {i[4]}) : i \in {j \in st : j[1] = "val"}}
                           \cup UNION {Listing("getByID", i[2] \o "|" \o i[3], {i[4]}) : i \in {j \in st : j[1] = "val"}}
    [] k = "audit"      -> {<<"list", "", i[2] \o "|" \o i[3]>> : i \in {j \in st : j[1] = "res"}}
                           \cup {<<"get", i[2] \o "|" \o i[3], i[4]>> : i \in {j \in st : j[1] = "res"}}
                           \cup {<<"listByEpoch", i[2], i[2] \o "|" \o i[3]>> : i \in {j \in st : j[1] = "res"}}
                           \cup {<<"listByCID", i[2] \o "|" \o i[3], i[2] \o "|" \o i[3]>> : i \in {j \in st : j[1] = "res"}}
                           \cup {<<"listByNode", i[2] \o "|" \o i[3], i[2] \o "|" \o i[3]>> : i \in {j \in st : j[1] = "res"}}
    [] k = "alphabet"   -> IF Has(st, "name") THEN {<<"name", "", ValOf(st, "name")>>} ELSE {}
    [] k = "neofs"      -> {<<"alphabetList", "", IF Has(st, "alphabet") THEN ValOf(st, "alphabet") ELSE "">>}
                           \cup {<<"config", i[2], i[4]>> : i \in {j \in st : j[1] = "cfg"}}
                           \cup Listing("listConfig", "", {i[2] \o "=" \o i[4] : i \in {j \in st : j[1] = "cfg"}})
                           \cup Listing("innerRingCandidates", "", {i[2] : i \in {j \in st : j[1] = "irc"}})
    [] OTHER            -> {}

\* what the tree version answers on storage st
NewAPI(k, st) ==
  CASE k = "balance"   -> ApiBalance(st, "aacc")
    [] k = "container" -> ApiContainer(st, "xcnr", "xjunk", "oown", {"osize"})
    [] k = "netmap"    -> ApiNetmap(st, FALSE)
    [] k = "nns"       -> ApiNNS(st)
    [] OTHER           -> ApiOther(k, st)
\* the model state that a storage in one of the old layouts stands for, in the vocabulary of the same API
OldAPI(k, st) ==
  CASE k = "balance"   -> ApiBalance(st, "acc")
    [] k = "container" -> ApiContainer(st, "cnr", "junk32", "own", {})
    [] k = "netmap"    -> ApiNetmap(st, TRUE)
    [] k = "nns"       -> ApiNNS(st)
    [] OTHER           -> ApiOther(k, st)
ApiOf(k, vr, st) == IF vr = -1 THEN OldAPI(k, st) ELSE NewAPI(k, st)

-----------------------------------------------------------------------------
(* Update(script, manifest, data): gate, then management.update -> _deploy(data ++ [version], TRUE) *)
Gate(S)  == IF ver = -1 THEN TRUE                              \* the shell forwards without a check of its own
            ELSE IF kind \in MainKinds THEN "IRMAJ" \in S ELSE "CMT" \in S
From(v)  == IF ver = -1 THEN v ELSE ver                        \* AppendVersion: the constant of the code that is running
InWindow(f) == Prev <= f /\ f < New
Blocked(f)  == f < 17000 /\ PendingVote(kind, store)           \* panic("pending vote detected")

UpdateOK(S, v) == Gate(S) /\ InWindow(From(v)) /\ ~Blocked(From(v))

Update(S, v) ==
  IF UpdateOK(S, v)
  THEN /\ store' = Migrate(kind, From(v), store, Dev)
       /\ ver' = New
       /\ api' = ApiOf(kind, New, store')
       /\ ev' = Event("update", S, From(v), "HALT")
       /\ UNCHANGED <<kind, mode, era>>
  ELSE /\ UNCHANGED <<kind, mode, era, ver, store, api>>
       /\ ev' = Event("update", S, From(v), "FAULT")

\* 21 blocks pass: every ballot becomes stale
Wait ==
  /\ store' = {IF i[1] = "ballots" /\ i[4] \in FreshBallots THEN <<i[1], i[2], i[3], "stale">> ELSE i : i \in store}
  /\ api' = ApiOf(kind, ver, store')
  /\ ev' = Event("wait", {}, 0, "HALT")
  /\ UNCHANGED <<kind, mode, era, ver>>

-----------------------------------------------------------------------------
(* Properties of C16 as predicates over one step (unprimed = before, primed = after, e = the invocation).   *)
(* raw / raw' stand for the whole contract state (storage digest, NEF checksum): parameters, because the    *)
(* Spec has them as `store` and the monitor as digests.                                                     *)
GateOf(k, S)   == IF k \in MainKinds THEN "IRMAJ" \in S ELSE "CMT" \in S
\* succeeds only with the committee-majority witness (main chain: NeoFS Alphabet majority) ...
C16_Gated(e, realGate) == e.act = "update" /\ e.res = "HALT" /\ realGate => GateOf(kind, e.S)
\* ... and only when oldest-supported <= v < new
C16_Window(e)  == e.act = "update" /\ e.res = "HALT" => Prev <= e.v /\ e.v < New
\* ... and with them it does succeed (`UpdateOK <=> gate /\ window`, DESIGN.md 6 C16); a switch out of the legacy
\* non-notary mode that is refused because a vote is pending counts as "nothing changes", not as a failure
C16_Accepts(e, realGate, blocked) ==
  e.act = "update" /\ (~realGate \/ GateOf(kind, e.S)) /\ Prev <= e.v /\ e.v < New /\ ~blocked => e.res = "HALT"
\* otherwise nothing changes
C16_Inert(e, same) == e.act = "update" /\ e.res # "HALT" => same /\ ver' = ver /\ api' = api
\* a successful upgrade preserves everything observable through the read API and runs the new version
C16_Preserves(e) == e.act = "update" /\ e.res = "HALT" => api' = api /\ ver' = New

=============================================================================
