--------------------------- MODULE FSChainContainer ---------------------------
(***************************************************************************)
(* Fragment: contracts/container/contract.go - the parts that take part in *)
(* cross-contract transactions: size estimations with their two cleanup    *)
(* paths (PutContainerSize's per-node list with CleanupDelta = 3, the      *)
(* tick's sweep with TotalCleanupDelta = 4) and the alias-name check of    *)
(* PutNamed against the NNS view.                                          *)
(*   est   set of [e, c]: key "cnr" || int(e) || cid || ripemd160(node)[:10]*)
(*   elist[c]  sequence of epochs: value under "est" || cid || ripemd160    *)
(***************************************************************************)
EXTENDS FSChainBase

CleanupDelta == 3
TotalCleanupDelta == CleanupDelta + 1

\* cleanupContainers(ctx, epoch)
CCleanup(est, e) == {q \in est : ~(e - q.e > TotalCleanupDelta)}

\* PutContainerSize -> storage.Put(key(e)) ; updateEstimations(ctx, e, cid, pub, false)
CEstPut(est, el, e, c) ==
  LET drop == {o \in Rng(el) : e - o > CleanupDelta}
  IN  [est |-> (est \cup {[e |-> e, c |-> c]}) \ {[e |-> o, c |-> c] : o \in drop},
       el  |-> Append(SelectSeq(el, LAMBDA o : ~(e - o > CleanupDelta)), e)]

\* checkNiceNameAvailable(nns, domain) for alias domains that are free or owned by the contract itself:
\* "register" = domain must be registered, "add" = only the record is added, "taken" = panic
CNameCheck(dom, txt, nm) ==
  IF dom[nm] = "free" THEN "register" ELSE IF txt[nm] # Nil THEN "taken" ELSE "add"
=============================================================================
