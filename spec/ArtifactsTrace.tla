--------------------------- MODULE ArtifactsTrace ---------------------------
(* Trace monitor for C15: judges the lines recorded by harness/artifacts.     *)
EXTENDS Artifacts, Json, SequencesExt

CONSTANT TraceFile
VARIABLES l
tvars == <<registered, tried, ev, l>>
Trace == ndJsonDeserialize(TraceFile)

Flag(ok, prop, pred, r, tags) ==
  IF ok THEN TRUE
  ELSE PrintT("FLAG|" \o ToString(l + 1) \o "|" \o prop \o "|" \o pred \o "|" \o r.act \o "|" \o ToString(r.t)
              \o "|" \o ToString(tags))

IsFS(r) == r.name \in Contracts

Judge(r) ==
  LET e == [act |-> r.act, name |-> r.name, res |-> r.res] IN
  CASE r.act = "artifact" ->
         \* a script difference is decided by differential replay (lib/fam_artifacts.py); tagged for it
         /\ Flag(r.scriptEq /\ r.tokensEq, "C15", "ExecutableMatchesSource", r, {"ScriptDiffers:" \o r.name})
         /\ Flag(r.manifestEq, "C15", "ManifestMatchesSource", r, {})
    [] r.act = "embedded" -> Flag(r.same, "C15", "PackageEmbedsTreeArtifacts", r, {})
    [] r.act = "deploy"   ->
         /\ Flag(C15_Order(e), "C15", "DeployOrder", r, {})
         /\ IF IsFS(r) THEN Flag(Deploy(r.name), "DRIFT", "SpecStep", r, {}) ELSE TRUE
    [] r.act = "probe"    -> Flag(ToSet(r.broke) = BrokenWithout(r.name), "DRIFT", "Dependencies", r, {})
    [] r.act = "version"  -> Flag(r.v = r.repo, "C15", "VersionIsRepoVersion", r, {})
    [] r.act = "binding"  ->
         /\ Flag(r.found /\ r.arityOK, "C15", "BindingCallsExistingMethod", r, {})
         /\ Flag(r.forwarded, "C15", "BindingForwardsArguments", r, {})
    [] r.act = "decode"   -> Flag(r.ok, "C15", "BindingDecodesResult", r, {})
    [] r.act = "regen"    -> Flag(r.same, "C15", r.what, r, {})
    [] r.act = "diffreplay" -> Flag(r.same, "C15", "BehavesLikeSource", r, {})
    [] OTHER -> TRUE

TraceInit == Init /\ l = 0

TraceNext ==
  /\ l < Len(Trace)
  /\ l' = l + 1
  /\ LET r == Trace[l + 1] IN
       /\ IF r.act = "deploy" /\ IsFS(r)
          THEN /\ tried' = Append(tried, r.name)
               /\ registered' = IF r.res = "HALT" THEN registered \cup {r.name} ELSE registered
               /\ ev' = [act |-> "deploy", name |-> r.name, res |-> r.res]
          ELSE UNCHANGED <<registered, tried, ev>>
       /\ IF r.act = "reset" THEN TRUE ELSE Judge(r)
       /\ IF l' = Len(Trace) THEN PrintT("DONE|" \o ToString(l')) ELSE TRUE

TraceSpec == TraceInit /\ [][TraceNext]_tvars
=============================================================================
