----------------------------- MODULE NNSSyntaxMC -----------------------------
(* Model-checking wrapper of NNSSyntax:                                       *)
(*  Enum = "none"      the methods over a small abstract storage, offered a   *)
(*                     handful of candidate strings (properties as action     *)
(*                     formulas)                                              *)
(*  Enum = "namechars" | "addrchars"   every string up to MaxLen over the     *)
(*                     reduced alphabets of the property's quantifier         *)
(*  Enum = "labels" | "octets" | "hexgroups"  every sequence of up to MaxLen  *)
(*                     tokens (labels / decimal groups / hex groups) joined   *)
(*                     by the separator - reaches the strings that are long   *)
(*                     enough to be addresses                                 *)
(* In the enumerations the state is the string being built; the invariant     *)
(* compares the transcribed scanners with the reference grammars, prints      *)
(* every string (STR|kind|chars, the input of the conformance driver) and     *)
(* every disagreement that a deviation tag explains (PRED|typ|chars).         *)
(* A disagreement without a tag fails the run.                                *)
EXTENDS NNSSyntax, Json

CONSTANTS Enum, MaxLen, Tier, EmitStr, SimLen

VARIABLES w, hist
mcvars == <<roots, names, recs, ev, w, hist>>

Rep(c, n) == [i \in 1..n |-> c]

NameAlpha == {97, 122, 48, 57, 45, 46, 65, 95, 43, 32}      \* a z 0 9 - . A _ + space
AddrAlpha == {48, 49, 50, 57, 102, 70, 58, 46, 43, 45}      \* 0 1 2 9 f F : . + -

LabQ == {
  <<97>>,   \* 'a'
  <<122, 57>>,   \* 'z9'
  <<97, 45, 98>>,   \* 'a-b'
  <<45, 97>>,   \* '-a'
  <<97, 45>>,   \* 'a-'
  <<>>,   \* ''
  <<65>>,   \* 'A'
  <<97, 98, 99>>,   \* 'abc'
  <<48, 97>>,   \* '0a'
  Rep(97, 16),   \* 'aaaaaaaaaaaaaaaa'
  Rep(97, 17)    \* 'aaaaaaaaaaaaaaaaa'
}

LabT == {
  <<97>>,   \* 'a'
  <<122, 57>>,   \* 'z9'
  <<97, 45, 98>>,   \* 'a-b'
  <<45, 97>>,   \* '-a'
  <<97, 45>>,   \* 'a-'
  <<>>,   \* ''
  <<65>>,   \* 'A'
  <<97, 98, 99>>,   \* 'abc'
  <<48, 97>>,   \* '0a'
  <<48>>,   \* '0'
  <<97, 45, 45, 98>>,   \* 'a--b'
  <<97, 95, 98>>,   \* 'a_b'
  <<97, 32, 98>>,   \* 'a b'
  Rep(97, 16),   \* 'aaaaaaaaaaaaaaaa'
  Rep(97, 17),   \* 'aaaaaaaaaaaaaaaaa'
  Rep(97, 63),   \* 'aaa..x63'
  Rep(97, 64),   \* 'aaa..x64'
  Rep(97, 15) \o <<45>>,   \* 'aaaaaaaaaaaaaaa-'
  <<57>> \o Rep(97, 15)    \* '9aaaaaaaaaaaaaaa'
}

OctQ == {
  <<49>>,   \* '1'
  <<48>>,   \* '0'
  <<49, 48>>,   \* '10'
  <<48, 49>>,   \* '01'
  <<43, 49>>,   \* '+1'
  <<50, 53, 53>>,   \* '255'
  <<50, 53, 54>>,   \* '256'
  <<>>    \* ''
}

OctT == {
  <<49>>,   \* '1'
  <<48>>,   \* '0'
  <<57>>,   \* '9'
  <<49, 48>>,   \* '10'
  <<48, 49>>,   \* '01'
  <<48, 48>>,   \* '00'
  <<43, 49>>,   \* '+1'
  <<45, 49>>,   \* '-1'
  <<43, 48>>,   \* '+0'
  <<45, 48>>,   \* '-0'
  <<43, 48, 49>>,   \* '+01'
  <<49, 50, 55>>,   \* '127'
  <<49, 54, 57>>,   \* '169'
  <<49, 55, 50>>,   \* '172'
  <<49, 57, 50>>,   \* '192'
  <<50, 53, 52>>,   \* '254'
  <<49, 54>>,   \* '16'
  <<49, 53>>,   \* '15'
  <<51, 49>>,   \* '31'
  <<51, 50>>,   \* '32'
  <<49, 54, 56>>,   \* '168'
  <<50, 50, 51>>,   \* '223'
  <<50, 50, 52>>,   \* '224'
  <<50, 53, 53>>,   \* '255'
  <<50, 53, 54>>,   \* '256'
  <<49, 97>>,   \* '1a'
  <<32, 49>>,   \* ' 1'
  <<49, 32>>,   \* '1 '
  <<48, 50, 53, 53>>,   \* '0255'
  <<49, 48, 48, 48>>,   \* '1000'
  <<43, 43, 49>>,   \* '++1'
  <<43>>    \* '+'
}

OctT3 == {
  <<49>>,   \* '1'
  <<48>>,   \* '0'
  <<43, 49>>,   \* '+1'
  <<>>,   \* ''
  <<48, 49>>,   \* '01'
  <<50, 53, 53>>    \* '255'
}

OctT4 == {
  <<49>>,   \* '1'
  <<48>>,   \* '0'
  <<50, 53, 53>>,   \* '255'
  <<50, 53, 52>>,   \* '254'
  <<43, 49>>,   \* '+1'
  <<48, 49>>,   \* '01'
  <<>>,   \* ''
  <<50, 53, 54>>,   \* '256'
  <<43, 50, 53, 53>>,   \* '+255'
  <<43, 48>>    \* '+0'
}

HexQ1 == {
  <<50, 48, 48, 49>>,   \* '2001'
  <<50, 48, 48, 48>>,   \* '2000'
  <<49, 102, 102, 102>>,   \* '1fff'
  <<51, 102, 102, 102>>,   \* '3fff'
  <<52, 48, 48, 48>>,   \* '4000'
  <<50, 48, 48, 50>>,   \* '2002'
  <<51, 102, 102, 101>>,   \* '3ffe'
  <<>>    \* ''
}

HexQ2 == {
  <<>>,   \* ''
  <<48>>,   \* '0'
  <<49, 102, 102>>,   \* '1ff'
  <<50, 48, 48>>,   \* '200'
  <<100, 98, 56>>,   \* 'db8'
  <<48, 100, 98, 56>>,   \* '0db8'
  <<100, 98, 57>>,   \* 'db9'
  <<102, 48, 48, 48>>,   \* 'f000'
  <<56, 48, 48, 48>>,   \* '8000'
  <<55, 102, 102, 102>>,   \* '7fff'
  <<56, 48, 48>>,   \* '800'
  <<55, 102, 102>>,   \* '7ff'
  <<70, 48, 48, 48>>    \* 'F000'
}

HexQ3 == {
  <<>>,   \* ''
  <<49>>    \* '1'
}

HexT1 == {
  <<50, 48, 48, 49>>,   \* '2001'
  <<50, 48, 48, 48>>,   \* '2000'
  <<49, 102, 102, 102>>,   \* '1fff'
  <<51, 102, 102, 102>>,   \* '3fff'
  <<52, 48, 48, 48>>,   \* '4000'
  <<50, 48, 48, 50>>,   \* '2002'
  <<51, 102, 102, 101>>,   \* '3ffe'
  <<>>,   \* ''
  <<48, 50, 48, 48, 49>>,   \* '02001'
  <<50, 97, 48, 48>>,   \* '2a00'
  <<43, 50, 48, 48, 49>>,   \* '+2001'
  <<50, 48, 49>>,   \* '201'
  <<50, 65, 48, 102>>,   \* '2A0f'
  <<51, 70, 70, 69>>,   \* '3FFE'
  <<103, 48, 48, 49>>    \* 'g001'
}

HexT2 == {
  <<>>,   \* ''
  <<48>>,   \* '0'
  <<49, 102, 102>>,   \* '1ff'
  <<50, 48, 48>>,   \* '200'
  <<100, 98, 56>>,   \* 'db8'
  <<48, 100, 98, 56>>,   \* '0db8'
  <<100, 98, 57>>,   \* 'db9'
  <<68, 66, 57>>,   \* 'DB9'
  <<100, 66, 56>>,   \* 'dB8'
  <<102, 48, 48, 48>>,   \* 'f000'
  <<56, 48, 48, 48>>,   \* '8000'
  <<55, 102, 102, 102>>,   \* '7fff'
  <<56, 48, 48>>,   \* '800'
  <<55, 102, 102>>,   \* '7ff'
  <<102, 102, 102, 102>>,   \* 'ffff'
  <<56, 48>>,   \* '80'
  <<102>>,   \* 'f'
  <<43, 50, 48, 48>>,   \* '+200'
  <<49, 50, 51, 52, 53>>,   \* '12345'
  <<48, 50, 48, 48>>,   \* '0200'
  <<48, 48, 50, 48, 48>>,   \* '00200'
  <<45, 49>>,   \* '-1'
  <<49, 46, 50>>    \* '1.2'
}

HexT3 == {
  <<>>,   \* ''
  <<48>>,   \* '0'
  <<102, 102, 102, 102>>    \* 'ffff'
}

CandQ == {
  <<97, 98, 99>>,   \* 'abc'
  <<120, 46, 97, 98, 99>>,   \* 'x.abc'
  <<121, 46, 120, 46, 97, 98, 99>>,   \* 'y.x.abc'
  <<97, 46, 98>>,   \* 'a.b'
  <<45, 98, 99>>,   \* '-bc'
  <<120, 46, 45, 98, 99>>,   \* 'x.-bc'
  <<97, 98>>,   \* 'ab'
  <<65, 46, 97, 98, 99>>,   \* 'A.abc'
  <<120, 46, 46, 97, 98, 99>>,   \* 'x..abc'
  <<97, 98, 99, 46>>    \* 'abc.'
}

CandT == {
  <<97, 98, 99>>,   \* 'abc'
  <<120, 46, 97, 98, 99>>,   \* 'x.abc'
  <<121, 46, 120, 46, 97, 98, 99>>,   \* 'y.x.abc'
  <<97, 46, 98>>,   \* 'a.b'
  <<45, 98, 99>>,   \* '-bc'
  <<120, 46, 45, 98, 99>>,   \* 'x.-bc'
  <<97, 98>>,   \* 'ab'
  <<65, 46, 97, 98, 99>>,   \* 'A.abc'
  <<120, 46, 46, 97, 98, 99>>,   \* 'x..abc'
  <<97, 98, 99, 46>>,   \* 'abc.'
  <<122, 57>>,   \* 'z9'
  <<97, 45, 98, 46, 97, 98, 99>>,   \* 'a-b.abc'
  Rep(97, 17),   \* 'aaaaaaaaaaaaaaaaa'
  <<120, 46, 97, 97, 97, 97, 97, 97, 97, 97, 97, 97, 97, 97, 97, 97, 97, 97>>,   \* 'x.aaaaaaaaaaaaaaaa'
  <<48, 98, 99>>,   \* '0bc'
  <<120, 46, 48, 98, 99>>    \* 'x.0bc'
}

Quick == Tier = "Q"
Choices(i) ==
  CASE Enum = "namechars" -> NameAlpha
    [] Enum = "addrchars" -> AddrAlpha
    [] Enum = "labels"    -> IF Quick THEN LabQ ELSE LabT
    [] Enum = "octets"    -> IF Quick THEN (IF i <= 4 THEN OctQ ELSE {<<49>>})
                             ELSE (IF i <= 2 THEN OctT ELSE IF i = 3 THEN OctT3 ELSE IF i = 4 THEN OctT4 ELSE {<<49>>})
    [] Enum = "hexgroups" -> IF Quick THEN (IF i = 1 THEN HexQ1 ELSE IF i = 2 THEN HexQ2 ELSE HexQ3)
                             ELSE (IF i = 1 THEN HexT1 ELSE IF i = 2 THEN HexT2 ELSE HexT3)
    [] OTHER -> {}

RECURSIVE JoinSep(_, _, _)
JoinSep(T, sep, i) == IF i > Len(T) THEN <<>> ELSE IF i = Len(T) THEN T[i] ELSE T[i] \o <<sep>> \o JoinSep(T, sep, i + 1)
Str == CASE Enum \in {"namechars", "addrchars"} -> w
         [] Enum = "hexgroups" -> JoinSep(w, COLON, 1)
         [] OTHER -> JoinSep(w, DOT, 1)

RecName == <<114, 46, 97, 98, 99>>   \* "r.abc"

\* the scanners' verdicts as pseudo invocations (so that the deviation tags apply)
EvData(typ, s) == Event("addRecord", {"CMT"}, RecName, typ, 0, s,
                        IF DataCheck(typ, s) = "ok" THEN "HALT" ELSE "FAULT", "null", "")
AgreeName(s) == (NameCheck(s) = "ok") <=> RefName(s)
AgreeData(typ, s) ==
  LET e == EvData(typ, s) IN
  IF typ = TypAAAA /\ EmbeddedV4(s) THEN TRUE
  ELSE IF Accepted(e) <=> RefData(typ, s) THEN TRUE
  ELSE IF Tags(e) # {} THEN PrintT("PRED|" \o ToString(typ) \o "|" \o ToString(s))
  ELSE FALSE
Emit(kind, s) == IF EmitStr THEN PrintT("STR|" \o kind \o "|" \o ToString(s)) ELSE TRUE

EnumOK ==
  LET s == Str IN
  CASE Enum \in {"namechars", "labels"} -> Emit("N", s) /\ AgreeName(s)
    [] Enum = "addrchars" -> Emit("D", s) /\ AgreeData(TypA, s) /\ AgreeData(TypAAAA, s)
    [] Enum = "octets"    -> Emit("A", s) /\ AgreeData(TypA, s)
    [] Enum = "hexgroups" -> Emit("6", s) /\ AgreeData(TypAAAA, s)
    [] OTHER -> TRUE

EnumInit == Init /\ w = <<>> /\ hist = <<>>
EnumNext == /\ Len(w) < MaxLen
            /\ \E c \in Choices(Len(w) + 1) : w' = Append(w, c)
            /\ UNCHANGED <<roots, names, recs, ev, hist>>
EnumSpec == EnumInit /\ [][EnumNext]_mcvars

\* ---- the methods over a small storage ----
SignerSets == {{"CMT"}, {}}
Cand == IF Quick THEN CandQ ELSE CandT
S4(a, b, c, d) == a \o <<DOT>> \o b \o <<DOT>> \o c \o <<DOT>> \o d
V6(a, b) == a \o <<COLON>> \o b \o <<COLON, COLON, 49>>
DataCandT ==
  {<<TypA, S4(<<49>>, <<50>>, <<51>>, <<52>>)>>,            \* 1.2.3.4
   <<TypA, S4(<<43, 49>>, <<50>>, <<51>>, <<52>>)>>,        \* +1.2.3.4
   <<TypA, S4(<<49, 48>>, <<50>>, <<51>>, <<52>>)>>,        \* 10.2.3.4
   <<TypA, S4(<<48, 49>>, <<50>>, <<51>>, <<52>>)>>,        \* 01.2.3.4
   <<TypAAAA, V6(<<50, 48, 48, 49>>, <<50, 48, 48>>)>>,     \* 2001:200::1
   <<TypAAAA, V6(<<50, 48, 48, 49>>, <<102, 48, 48, 48>>)>>,\* 2001:f000::1
   <<TypAAAA, V6(<<50, 48, 48, 49>>, <<100, 98, 56>>)>>,    \* 2001:db8::1
   <<TypAAAA, <<58, 58, 49>>>>,                             \* ::1
   <<TypCNAME, <<120, 46, 97, 98, 99>>>>,                   \* x.abc
   <<TypCNAME, <<120, 46, 46, 97>>>>,                       \* x..a
   <<TypTXT, <<>>>>, <<TypTXT, Rep(120, 255)>>, <<TypTXT, Rep(120, 256)>>,
   <<TypSOA, <<120>>>>, <<2, <<120>>>>}
DataCandQ ==
  {<<TypA, S4(<<49>>, <<50>>, <<51>>, <<52>>)>>,            \* 1.2.3.4
   <<TypA, S4(<<43, 49>>, <<50>>, <<51>>, <<52>>)>>,        \* +1.2.3.4
   <<TypA, S4(<<48, 49>>, <<50>>, <<51>>, <<52>>)>>,        \* 01.2.3.4
   <<TypAAAA, V6(<<50, 48, 48, 49>>, <<50, 48, 48>>)>>,     \* 2001:200::1
   <<TypAAAA, V6(<<50, 48, 48, 49>>, <<102, 48, 48, 48>>)>>,\* 2001:f000::1
   <<TypCNAME, <<120, 46, 97, 98, 99>>>>,                   \* x.abc
   <<TypCNAME, <<120, 46, 46, 97>>>>,                       \* x..a
   <<TypTXT, <<>>>>, <<TypTXT, Rep(120, 256)>>,
   <<TypSOA, <<120>>>>}
DataCand == IF Quick THEN DataCandQ ELSE DataCandT
RecNames == {RecName, <<97, 98, 99>>}                       \* a registered domain and a TLD

NextOf(P(_)) ==
  \/ \E s \in P(Cand \cup RecNames) : IsAvailable(s)
  \/ \E S \in P(SignerSets), s \in P(Cand \cup RecNames) : Register(S, s)
  \/ \E S \in P(SignerSets), s \in P(Cand) : RegisterTLD(S, s)
  \/ \E S \in P(SignerSets), n \in P(RecNames), d \in P(DataCand) : AddRecord(S, n, d[1], d[2])
  \/ \E S \in P(SignerSets), n \in P(RecNames), d \in P(DataCand), id \in P({0, 1}) : SetRecord(S, n, d[1], id, d[2])
  \/ \E S \in P(SignerSets), n \in P(RecNames), t \in P({TypA, TypTXT, TypSOA}) : DeleteRecords(S, n, t)

All(X) == X
MCInit == Init /\ w = <<>> /\ hist = <<>>
MCNext == NextOf(All) /\ UNCHANGED <<w, hist>>
MCSpec == MCInit /\ [][MCNext]_mcvars
Bounded == Cardinality(names) <= MaxLen /\ Cardinality(recs) <= 3
MCView == <<roots, names, recs>>

\* Spec |= Props, where the listed deviations of the code are allowed to show (each has a tag)
ModTags(ok, e) == ok \/ Tags(e) # {}
P_C18 == [][/\ ModTags(C18_OnlyValid(ev'), ev') /\ ModTags(C18_AllValid(ev'), ev')
            /\ C18_RejectInert(ev') /\ Stored(ev')]_mcvars
\* the statement itself (holds with Dev = {}, i.e. after the repairs)
P_C18_Strict == [][C18_OnlyValid(ev') /\ C18_AllValid(ev') /\ C18_RejectInert(ev') /\ Stored(ev')]_mcvars

TypeOK == roots \subseteq names /\ \A r \in recs : r.name \in names

\* ---- scenario generation by simulation ----
One(X) == IF X = {} THEN {} ELSE {RandomElement(X)}
SimLab == {<<97, 98, 99>>, <<120>>, <<121>>, <<97, 45, 98>>, <<45, 97>>, <<65>>, <<122, 57>>, <<>>, <<120, 121, 122>>, <<48, 97>>}
SimTLD == {<<97, 98, 99>>, <<120, 121, 122>>, <<97, 98>>, <<48, 97, 98>>}
SimOct == OctT
SimName(n, a, b, c) == IF n = 1 THEN c ELSE IF n = 2 THEN b \o <<DOT>> \o c ELSE a \o <<DOT>> \o b \o <<DOT>> \o c
SimSigners == <<{"CMT"}, {"CMT"}, {"CMT"}, {"CMT"}, {"CMT"}, {"CMT"}, {"CMT"}, {}>>
SimNext ==
  /\ \E k \in One(1..10), n \in One({1, 2, 2, 3}), a \in One(SimLab), b \in One(SimLab), c \in One(SimTLD \cup SimLab),
        tld \in One(SimTLD), i \in One(1..Len(SimSigners)), id \in One({0, 0, 1}),
        o1 \in One(OctT), o2 \in One(OctT), o3 \in One(OctT3), o4 \in One(OctT4),
        h1 \in One(HexT1), h2 \in One(HexT2), h3 \in One(HexT3), h4 \in One(HexT3), q \in One(0..6),
        rn \in One({RecName, RecName, RecName, <<120, 46, 97, 98, 99>>, <<97, 98, 99>>}) :
       LET S  == SimSigners[i]
           nm == SimName(n, a, b, c)
           v4 == S4(o1, o2, o3, o4)
           v6 == CASE q = 0 -> h1 \o <<COLON>> \o h2 \o <<COLON, COLON>> \o h3
                   [] q = 1 -> h1 \o <<COLON>> \o h2 \o <<COLON, COLON>>
                   [] q = 2 -> h1 \o <<COLON>> \o h2 \o <<COLON>> \o h3 \o <<COLON, COLON>> \o h4
                   [] q = 3 -> h1 \o <<COLON, COLON>> \o h4
                   [] q = 4 -> JoinSep(<<h1, h2, h3, h4, h3, h4, h3, h4>>, COLON, 1)
                   [] q = 5 -> JoinSep(<<h1, h2, h3, h4, h3, h4, h3>>, COLON, 1) \o <<COLON, COLON>>
                   [] OTHER -> JoinSep(<<h1, h2, h3, <<>>, h4>>, COLON, 1)
       IN  CASE k = 1 -> IsAvailable(nm)
             [] k = 2 -> RegisterTLD(S, IF n = 1 THEN tld ELSE nm)
             [] k \in {3, 4} -> Register(S, IF n = 1 THEN b \o <<DOT>> \o tld ELSE nm)
             [] k = 5 -> AddRecord(S, rn, TypA, v4)
             [] k = 6 -> AddRecord(S, rn, TypAAAA, v6)
             [] k = 7 -> AddRecord(S, rn, TypCNAME, nm)
             [] k = 8 -> SetRecord(S, rn, IF q < 3 THEN TypA ELSE TypAAAA, id, IF q < 3 THEN v4 ELSE v6)
             [] k = 9 -> AddRecord(S, rn, IF q = 0 THEN TypSOA ELSE TypTXT, IF q = 1 THEN Rep(120, 256) ELSE a)
             [] OTHER -> DeleteRecords(S, rn, IF q < 3 THEN TypA ELSE TypAAAA)
  /\ hist' = Append(hist, [ev' EXCEPT !.S = IF "CMT" \in @ THEN <<"CMT">> ELSE <<>>])
  /\ w' = w
\* every scenario starts with the TLD abc and the domain r.abc registered
SimInit ==
  /\ roots = {<<97, 98, 99>>} /\ names = {<<97, 98, 99>>, RecName} /\ recs = {}
  /\ ev = Event("init", {}, <<>>, 0, 0, <<>>, "HALT", "null", "")
  /\ w = <<>> /\ hist = <<>>
SimSpec == SimInit /\ [][SimNext]_mcvars
EmitScenario == IF Len(hist) = SimLen THEN PrintT("SCEN " \o ToJson([steps |-> hist])) ELSE TRUE

=============================================================================
