----------------------------- MODULE FSChainTrace -----------------------------
(***************************************************************************)
(* Trace monitor of the FS-chain composition: evaluates the cross-contract *)
(* properties X01_* (deciding) and the transactions of FSChain.tla         *)
(* (binding) on executions recorded by harness/fschain from ALL real       *)
(* contracts deployed together.  The composed state w is bound to the      *)
(* observed state of every line, so each check is a boolean evaluation; a  *)
(* failing check prints a FLAG line and the monitor goes on.               *)
(***************************************************************************)
EXTENDS FSChain, Json, SequencesExt

CONSTANT TraceFile

VARIABLE l
tvars == <<w, ev, l>>

Trace == ndJsonDeserialize(TraceFile)

M_LockSeq  == <<"l1", "l2", "l3">>
M_ANodeSeq == <<"A1", "A2", "A3", "A4", "A5", "A6", "A7">>
M_IRSeq    == <<"I1", "I2", "I3">>
M_COwner   == [c \in {"c1", "c2", "c3"} |-> IF c = "c3" THEN "o2" ELSE "o1"]

EvOf(r) == [act |-> r.act, S |-> ToSet(r.S), a |-> r.a, b |-> r.b, c |-> r.c, v |-> r.v, nm |-> r.nm, amt |-> r.amt, x |-> r.x,
            ks |-> r.ks, res |-> r.res, xfer |-> r.xfer]

StateOf(o) ==
  [na |-> o.na, epoch |-> o.epoch, epoch2 |-> o.epoch2, subs |-> o.subs, subs2 |-> o.subs2, fee |-> o.fee, afee |-> o.afee,
   acc |-> [a \in AllAcc |-> [ex |-> o.acc[a].ex, bal |-> o.acc[a].bal, until |-> o.acc[a].until, parent |-> o.acc[a].parent]],
   supply |-> o.supply,
   live |-> [c \in Cids |-> o.live[c]], tomb |-> ToSet(o.tomb), alias |-> [c \in Cids |-> o.alias[c]],
   est |-> {[e |-> q.e, c |-> q.c] : q \in ToSet(o.est)}, elist |-> [c \in Cids |-> o.elist[c]],
   dom |-> [n \in Names |-> o.dom[n]], txt |-> [n \in Names |-> o.txt[n]], ptr |-> o.ptr,
   idk |-> [p \in Owners |-> ToSet(o.idk[p])], journal |-> [i \in 1..Len(o.journal) |-> [s |-> o.journal[i].s, e |-> o.journal[i].e]],
   rej |-> ToSet(o.rej),
   azNm |-> [z \in {"az", "az2"} |-> o.azNm[z]], voted |-> [z \in {"az", "az2"} |-> o.voted[z]],
   irl |-> o.irl, others |-> o.others]

Flag(ok, prop, pred, r, tags) ==
  IF ok THEN TRUE
  ELSE PrintT("FLAG|" \o ToString(l + 1) \o "|" \o prop \o "|" \o pred \o "|" \o r.act \o "|" \o ToString(r.t)
              \o "|" \o ToString(tags))

\* no deviation of the current tree is known for X01
Tags(r) == {}

SpecStep(r) ==
  LET e == EvOf(r) IN
  CASE r.act = "mint"       -> Mint(e.S, e.a, e.amt)
    [] r.act = "burn"       -> Burn(e.S, e.a, e.amt)
    [] r.act = "lock"       -> Lock(e.S, e.a, e.b, e.amt, e.x)
    [] r.act = "setFee"     -> SetFee(e.S, e.a, e.amt)
    [] r.act = "sub"        -> Sub(e.S, e.a)
    [] r.act = "rej"        -> Rej(e.a, e.amt) /\ e.S = {}
    [] r.act = "tick"       -> Tick(e.S, e.x)
    [] r.act = "tick2"      -> Tick2(e.S, e.x)
    [] r.act = "tickB"      -> TickB(e.S, e.x)
    [] r.act = "tickC"      -> TickC(e.S, e.x)
    [] r.act = "put"        -> Put(e.S, e.c, e.v, e.nm)
    [] r.act = "delete"     -> Delete(e.S, e.c)
    [] r.act = "estPut"     -> EstPut(e.S, e.x, e.c)
    [] r.act = "repoint"    -> Repoint(e.S, e.a)
    [] r.act = "deployLate" -> DeployLate(e.a)
    [] r.act = "vote"       -> Vote(e.S, e.a, e.x, e.ks)
    [] r.act = "designate"  -> Designate(e.S, e.ks)
    [] OTHER -> FALSE

\* everything observed could be mapped to model values; no account or key outside the model holds anything
Clean(r) == r.bad = <<>> /\ r.obs.strayBal = <<>>

Judge(r) ==
  LET e == EvOf(r)
      t == Tags(r)
  IN  /\ Flag(X01_SupplyIsSum /\ Clean(r), "X01", "SupplyIsSum", r, t)
      /\ Flag(X01_NoNegative, "X01", "NoNegative", r, t)
      /\ Flag(X01_SupplyDelta(e), "X01", "SupplyDelta", r, t)
      /\ Flag(X01_FaultInert(e), "X01", "FaultInert", r, t)
      /\ Flag(X01_Frame(e), "X01", "Frame", r, t)
      /\ Flag(X01_TickEpoch(e), "X01", "TickEpoch", r, t)
      /\ Flag(X01_TickAll(e), "X01", "TickAll", r, t)
      /\ Flag(X01_TickOrder(e), "X01", "TickOrder", r, t)
      /\ Flag(X01_TickRejected(e), "X01", "TickRejected", r, t)
      /\ Flag(X01_TickGuard(e), "X01", "TickGuard", r, t)
      /\ Flag(X01_EpochOwner(e), "X01", "EpochOwner", r, t)
      /\ Flag(X01_SubOnce(e), "X01", "SubOnce", r, t)
      /\ Flag(X01_PutCharge(e), "X01", "PutCharge", r, t)
      /\ Flag(X01_PutRegisters(e), "X01", "PutRegisters", r, t)
      /\ Flag(X01_PutRefused(e), "X01", "PutRefused", r, t)
      /\ Flag(X01_Repoint(e), "X01", "Repoint", r, t)
      /\ Flag(X01_LateFollows(e), "X01", "LateFollows", r, t)
      /\ Flag(X01_Vote(e), "X01", "Vote", r, t)
      /\ Flag(X01_LockStays(e), "X01", "LockStays", r, t)
      /\ Flag(X01_NoEarly(e), "X01", "NoEarly", r, t)
      /\ Flag(X01_LockMoves(e), "X01", "LockMoves", r, t)
      /\ Flag(X01_InnerRing(e) /\ r.obs.irl = r.obs.role, "X01", "InnerRing", r, t)
      /\ Flag(r.obs.strayCn = <<>>, "DRIFT", "StrayContainerKey", r, t)
      /\ Flag(SpecStep(r), "DRIFT", "SpecStep", r, t)

TraceInit ==
  /\ l = 0
  /\ w = InitW(1)
  /\ ev = Event("init", {}, Nil, Nil, Nil, Nil, Nil, 0, 0, <<>>)

TraceNext ==
  /\ l < Len(Trace)
  /\ l' = l + 1
  /\ LET r == Trace[l + 1]
     IN  /\ w' = StateOf(r.obs)
         /\ ev' = EvOf(r)
         /\ IF r.act = "reset"
            THEN Flag(w' = InitW(r.obs.na) /\ Clean(r), "DRIFT", "InitialState", r, {})
            ELSE Judge(r)
         /\ IF l' = Len(Trace) THEN PrintT("DONE|" \o ToString(l')) ELSE TRUE

TraceSpec == TraceInit /\ [][TraceNext]_tvars
=============================================================================
