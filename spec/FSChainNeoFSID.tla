---------------------------- MODULE FSChainNeoFSID ----------------------------
(* Fragment: contracts/neofsid/contract.go - idk[o] = keys bound to owner o *)
EXTENDS FSChainBase
IAddKey(idk, o, k) == [idk EXCEPT ![o] = @ \cup {k}]
=============================================================================
