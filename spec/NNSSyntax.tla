------------------------------ MODULE NNSSyntax ------------------------------
(***************************************************************************)
(* C18 - NNS accepts exactly well-formed names and record data.            *)
(*                                                                         *)
(* A string is a sequence of byte values (integers 0..255).  This module   *)
(* holds four things:                                                      *)
(*                                                                         *)
(*  PART 1  the contract's scanners of contracts/nns/contract.go           *)
(*          (checkFragment, safeSplitAndCheck, checkIPv4, checkIPv6 and    *)
(*          the platform routines they call: std.StringSplit, std.Atoi10,  *)
(*          std.Atoi(.,16)) transcribed branch by branch, loop by loop.    *)
(*          They are the Spec: used to predict the code (binding/drift)    *)
(*          and to find the strings on which the code and the statement    *)
(*          disagree.                                                      *)
(*  PART 2  the contract methods that call them (IsAvailable, Register,    *)
(*          RegisterTLD, AddRecord, SetRecord, DeleteRecords) as actions   *)
(*          over the abstract storage <<roots, names, recs>>, guards in    *)
(*          code order, FAULT => UNCHANGED.                                *)
(*  PART 3  INDEPENDENT reference grammars written from the property       *)
(*          statement (declaratively, over positions - no scanning loop    *)
(*          is shared with part 1).                                        *)
(*  PART 4  the property predicates over one step (Exact, RejectInert)     *)
(*          and the deviation tags.                                        *)
(***************************************************************************)
EXTENDS Integers, Sequences, FiniteSets, TLC

CONSTANT Dev    \* deviation switches: behaviour of the code that the property forbids
                \*   "SignedOctet"      checkIPv4 lets std.Atoi10 eat a sign: "+1.2.3.4"
                \*   "HexGroupSign"     checkIPv6 reads a hex group as two's complement: "2001:f000::1" < 0x200
                \*   "TailCompression"  checkIPv6 bounds the number of ':'-fragments by 8: "a:b:c:d:e:f:g::" has 9

AllDev == {"SignedOctet", "HexGroupSign", "TailCompression"}

DOT    == 46
COLON  == 58
HYPHEN == 45
PLUS   == 43
MINUS  == 45
ZERO   == 48

-----------------------------------------------------------------------------
(***************************************************************************)
(* PART 1 - transcription of the code                                      *)
(***************************************************************************)

\* std.StringSplit(s, sep) = strings.Split: empty fragments are kept, "" gives one empty fragment
RECURSIVE SplitR(_, _, _, _)
SplitR(s, c, i, cur) ==
  IF i > Len(s) THEN <<cur>>
  ELSE IF s[i] = c THEN <<cur>> \o SplitR(s, c, i + 1, <<>>)
  ELSE SplitR(s, c, i + 1, Append(cur, s[i]))
Split(s, c) == SplitR(s, c, 1, <<>>)

\* isAlNum
IsAlNum(c) == (c >= 97 /\ c <= 122) \/ (c >= 48 /\ c <= 57)

\* checkFragment: `for i := 1; i < len(v)-1; i++` (0-based) = positions 2..Len-1 (1-based)
RECURSIVE FragLoop(_, _)
FragLoop(v, i) ==
  IF i > Len(v) - 1 THEN TRUE
  ELSE IF v[i] # HYPHEN /\ ~IsAlNum(v[i]) THEN FALSE
  ELSE FragLoop(v, i + 1)

CheckFragment(v, isRoot) ==
  LET maxLength == IF isRoot THEN 16 ELSE 63
  IN  IF Len(v) = 0 \/ Len(v) > maxLength THEN FALSE
      ELSE IF isRoot /\ ~(v[1] >= 97 /\ v[1] <= 122) THEN FALSE
      ELSE IF ~isRoot /\ ~IsAlNum(v[1]) THEN FALSE
      ELSE IF ~FragLoop(v, 2) THEN FALSE
      ELSE IsAlNum(v[Len(v)])

\* safeSplitAndCheck: "ok" | "length" | "fragment"
RECURSIVE FragsLoop(_, _)
FragsLoop(F, i) ==
  IF i > Len(F) THEN TRUE
  ELSE IF ~CheckFragment(F[i], i = Len(F)) THEN FALSE
  ELSE FragsLoop(F, i + 1)

NameCheck(name) ==
  IF Len(name) < 3 \/ 255 < Len(name) THEN "length"
  ELSE IF \E i \in 1..Len(name) : name[i] >= 128 THEN "fragment"
       \* std.StringSplit FAULTs on invalid UTF-8 and every byte of a valid multi-byte
       \* sequence fails isAlNum: rejected either way
  ELSE IF ~FragsLoop(Split(name, DOT), 1) THEN "fragment"
  ELSE "ok"

IsDigit(c) == c >= 48 /\ c <= 57

\* saturating decimal value (TLC integers are 32-bit; only comparisons with 255 matter)
RECURSIVE DecFold(_, _, _)
DecFold(d, i, acc) ==
  IF i > Len(d) THEN acc
  ELSE DecFold(d, i + 1, IF acc > 100000 THEN acc ELSE acc * 10 + (d[i] - 48))

\* std.Atoi10 = big.Int.SetString(s, 10): optional sign, at least one digit, digits only
Atoi10(f) ==
  LET sgn == Len(f) > 0 /\ (f[1] = PLUS \/ f[1] = MINUS)
      d   == IF sgn THEN SubSeq(f, 2, Len(f)) ELSE f
  IN  IF Len(d) = 0 \/ \E i \in 1..Len(d) : ~IsDigit(d[i]) THEN [ok |-> FALSE, v |-> 0]
      ELSE [ok |-> TRUE, v |-> (IF sgn /\ f[1] = MINUS THEN -1 ELSE 1) * DecFold(d, 1, 0)]

\* checkIPv4: "ok" | "false" (returned false) | "fault" (panic / VM fault inside Atoi10)
RECURSIVE V4Loop(_, _, _)
V4Loop(F, i, nums) ==
  IF i > Len(F) THEN [st |-> "ok", nums |-> nums]
  ELSE LET f == F[i] IN
       IF Len(f) = 0 THEN [st |-> "false", nums |-> nums]
       ELSE IF "SignedOctet" \notin Dev /\ (f[1] = PLUS \/ f[1] = MINUS)
            THEN [st |-> "false", nums |-> nums]                                  \* guard of the proposed repair
       ELSE LET a == Atoi10(f) IN
            IF ~a.ok THEN [st |-> "fault", nums |-> nums]
            ELSE IF a.v < 0 \/ 255 < a.v THEN [st |-> "fault", nums |-> nums]      \* panic("not a byte")
            ELSE IF a.v > 0 /\ f[1] = ZERO THEN [st |-> "false", nums |-> nums]
            ELSE IF a.v = 0 /\ Len(f) > 1 THEN [st |-> "false", nums |-> nums]
            ELSE V4Loop(F, i + 1, Append(nums, a.v))

V4Range(n) ==   \* the exclusion list of checkIPv4 (TRUE = excluded)
  \/ n[1] = 0 \/ n[1] = 10 \/ n[1] = 127 \/ n[1] >= 224
  \/ (n[1] = 169 /\ n[2] = 254)
  \/ (n[1] = 172 /\ 16 <= n[2] /\ n[2] <= 31)
  \/ (n[1] = 192 /\ n[2] = 168)
  \/ n[4] = 0 \/ n[4] = 255

CheckIPv4(data) ==
  IF Len(data) < 7 \/ 15 < Len(data) THEN "false"
  ELSE IF \E i \in 1..Len(data) : data[i] >= 128 THEN "fault"
  ELSE LET F == Split(data, DOT) IN
       IF Len(F) # 4 THEN "false"
       ELSE LET r == V4Loop(F, 1, <<>>) IN
            IF r.st # "ok" THEN r.st
            ELSE IF V4Range(r.nums) THEN "false" ELSE "ok"

IsHex(c) == IsDigit(c) \/ (c >= 97 /\ c <= 102) \/ (c >= 65 /\ c <= 70)
HexDigit(c) == IF IsDigit(c) THEN c - 48 ELSE IF c >= 97 THEN c - 87 ELSE c - 55

RECURSIVE HexFold(_, _, _)
HexFold(d, i, acc) == IF i > Len(d) THEN acc ELSE HexFold(d, i + 1, acc * 16 + HexDigit(d[i]))
Pow16(n) == CASE n = 1 -> 16 [] n = 2 -> 256 [] n = 3 -> 4096 [] n = 4 -> 65536 [] OTHER -> 1

\* std.Atoi(f, 16) for 1 <= Len(f) <= 4: hex.DecodeString of the text (padded with "0" to an even
\* length, sign-extended when the padded nibble's neighbour has bit 3 set), read as a two's
\* complement little-endian integer: the value is negative iff the first digit is >= 8
AtoiHex(f) ==
  IF \E i \in 1..Len(f) : ~IsHex(f[i]) THEN [ok |-> FALSE, v |-> 0]
  ELSE LET u == HexFold(f, 1, 0) IN
       [ok |-> TRUE,
        v  |-> IF "HexGroupSign" \in Dev /\ HexDigit(f[1]) >= 8 THEN u - Pow16(Len(f)) ELSE u]

\* checkIPv6: nums is a function 0..7 -> Int; i is the 0-based fragment index of the code
RECURSIVE V6Loop(_, _, _, _)
V6Loop(F, i, hasEmpty, nums) ==
  LET l == Len(F) IN
  IF i > l - 1 THEN [st |-> "ok", hasEmpty |-> hasEmpty, nums |-> nums]
  ELSE LET f == F[i + 1] IN
       IF Len(f) = 0
       THEN IF i = 0
            THEN IF Len(F[2]) # 0 THEN [st |-> "false", hasEmpty |-> hasEmpty, nums |-> nums]
                 ELSE V6Loop(F, i + 1, hasEmpty, [nums EXCEPT ![0] = 0])
            ELSE IF i = l - 1
            THEN IF Len(F[i]) # 0 THEN [st |-> "false", hasEmpty |-> hasEmpty, nums |-> nums]
                 ELSE V6Loop(F, i + 1, hasEmpty, [nums EXCEPT ![7] = 0])
            ELSE IF hasEmpty THEN [st |-> "false", hasEmpty |-> hasEmpty, nums |-> nums]
            ELSE V6Loop(F, i + 1, TRUE, [j \in 0..7 |-> IF j >= i /\ j < 9 - l + i THEN 0 ELSE nums[j]])
       ELSE IF Len(f) > 4 THEN [st |-> "false", hasEmpty |-> hasEmpty, nums |-> nums]
            ELSE LET a == AtoiHex(f) IN
                 IF ~a.ok THEN [st |-> "fault", hasEmpty |-> hasEmpty, nums |-> nums]
                 ELSE IF 65535 < a.v THEN [st |-> "fault", hasEmpty |-> hasEmpty, nums |-> nums]
                 ELSE LET idx == IF hasEmpty THEN i + 8 - l ELSE i IN
                      V6Loop(F, i + 1, hasEmpty, [nums EXCEPT ![idx] = a.v])

V6Range(nums) ==   \* the exclusion list of checkIPv6 (TRUE = excluded)
  LET f0 == nums[0] f1 == nums[1] IN
  \/ f0 < 8192 \/ f0 = 8194 \/ f0 = 16382 \/ f0 > 16383            \* < 0x2000, 0x2002, 0x3ffe, > 0x3fff
  \/ (f0 = 8193 /\ (f1 < 512 \/ f1 = 3512))                         \* 0x2001: < 0x200, 0xdb8

\* with the proposed repair "::" at either end may stand for a single group (9 fragments)
V6MaxFrag(F) ==
  IF /\ "TailCompression" \notin Dev /\ Len(F) = 9
     /\ \/ (Len(F[8]) = 0 /\ Len(F[9]) = 0)
        \/ (Len(F[1]) = 0 /\ Len(F[2]) = 0)
  THEN 9 ELSE 8

CheckIPv6(data) ==
  IF Len(data) < 2 \/ 39 < Len(data) THEN "false"
  ELSE IF \E i \in 1..Len(data) : data[i] >= 128 THEN "fault"
  ELSE LET F == Split(data, COLON)
           l == Len(F) IN
       IF l < 3 \/ V6MaxFrag(F) < l THEN "false"
       ELSE LET r == V6Loop(F, 0, FALSE, [j \in 0..7 |-> 0]) IN
            IF r.st # "ok" THEN r.st
            ELSE IF l < 8 /\ ~r.hasEmpty THEN "false"
            ELSE IF V6Range(r.nums) THEN "false" ELSE "ok"

\* checkRecord's dispatch on the record type: "ok" | "false" | "fault" | "type"
TypA == 1
TypCNAME == 5
TypSOA == 6
TypTXT == 16
TypAAAA == 28
DataCheck(typ, data) ==
  CASE typ = TypA     -> CheckIPv4(data)
    [] typ = TypCNAME -> IF NameCheck(data) = "ok" THEN "ok" ELSE "false"
    [] typ = TypTXT   -> IF Len(data) <= 255 THEN "ok" ELSE "false"
    [] typ = TypAAAA  -> CheckIPv6(data)
    [] OTHER          -> "type"

-----------------------------------------------------------------------------
(***************************************************************************)
(* PART 2 - the methods over the abstract storage                          *)
(*   roots  set of registered top-level domains   (prefixRoot entries)     *)
(*   names  set of registered domain names        (prefixName entries;     *)
(*          nothing expires: the driver never advances the clock by years) *)
(*   recs   set of [name, typ, id, data]          (prefixRecord entries    *)
(*          except SOA)                                                    *)
(* All domains are owned by the committee account "CMT" (the driver        *)
(* registers everything with that owner) and no record is stored under a   *)
(* sub-name of its domain, so the conflict scan of Register/IsAvailable    *)
(* never finds anything.                                                   *)
(***************************************************************************)
VARIABLES roots, names, recs, ev
vars == <<roots, names, recs, ev>>

St == [roots |-> roots, names |-> names, recs |-> recs]
Out(res, ret, why, st) == [res |-> res, ret |-> ret, why |-> why, st |-> st]
Rej(why, st) == Out("FAULT", "null", why, st)

RECURSIVE JoinFrom(_, _)
JoinFrom(F, i) == IF i >= Len(F) THEN F[Len(F)] ELSE F[i] \o <<DOT>> \o JoinFrom(F, i + 1)

\* parentExpired(ctx, first, fragments): first is the 0-based index of the deepest name looked at
ParentExpired(st, first, F) == \E i \in (first + 1)..Len(F) : JoinFrom(F, i) \notin st.names

DoIsAvailable(st, s) ==
  IF NameCheck(s) # "ok" THEN Rej("name", st)
  ELSE LET F == Split(s, DOT)
           l == Len(F) IN
       IF F[l] \notin st.roots
       THEN IF l # 1 THEN Rej("state", st) ELSE Out("HALT", "true", "", st)
       ELSE IF ~ParentExpired(st, 0, F) THEN Out("HALT", "false", "", st)
       ELSE Out("HALT", "true", "", st)

DoRegister(st, s, S) ==
  IF NameCheck(s) # "ok" THEN Rej("name", st)
  ELSE LET F == Split(s, DOT)
           l == Len(F) IN
       IF l = 1 THEN Rej("state", st)                                  \* TLD denied
       ELSE IF F[l] \notin st.roots THEN Rej("state", st)              \* TLD not found
       ELSE IF ParentExpired(st, 1, F) THEN Rej("state", st)
       ELSE IF "CMT" \notin S THEN Rej("auth", st)                     \* parent's admin (l > 2), owner witness
       ELSE IF s \in st.names THEN Out("HALT", "false", "", st)
       ELSE Out("HALT", "true", "", [st EXCEPT !.names = @ \cup {s}])

DoRegisterTLD(st, s, S) ==
  IF "CMT" \notin S THEN Rej("auth", st)
  ELSE IF NameCheck(s) # "ok" THEN Rej("name", st)
  ELSE IF Len(Split(s, DOT)) # 1 THEN Rej("state", st)                 \* not a TLD
  ELSE IF s \in st.roots /\ s \in st.names THEN Rej("state", st)       \* TLD already exists
  ELSE Out("HALT", "null", "", [st EXCEPT !.roots = @ \cup {s}, !.names = @ \cup {s}])

\* tokenIDFromName: the longest registered suffix with at least two labels, else the name itself
TokenOf(st, name) ==
  LET F == Split(name, DOT)
      C == {i \in 1..(Len(F) - 1) : JoinFrom(F, i) \in st.names}
  IN  IF C = {} THEN name ELSE JoinFrom(F, CHOOSE i \in C : \A j \in C : i <= j)

\* checkRecord: "" when it passes, else the class of the failure
CheckRecord(st, name, typ, data, S) ==
  IF NameCheck(name) # "ok" THEN "name"
  ELSE LET dc  == DataCheck(typ, data)
           tok == TokenOf(st, name)
           TF  == Split(tok, DOT) IN
       IF dc = "type" THEN "type"
       ELSE IF dc # "ok" THEN "data"
       ELSE IF Len(TF) = 1 THEN "state"                                \* token not found (TLD)
       ELSE IF tok \notin st.names THEN "state"                        \* token not found
       ELSE IF ParentExpired(st, 1, TF) THEN "state"
       ELSE IF "CMT" \notin S THEN "auth"
       ELSE ""

SameKey(r, name, typ) == r.name = name /\ r.typ = typ

DoAddRecord(st, name, typ, data, S) ==
  LET why == CheckRecord(st, name, typ, data, S)
      n   == Cardinality({r \in st.recs : SameKey(r, name, typ)}) IN
  IF why # "" THEN Rej(why, st)
  ELSE IF \E r \in st.recs : SameKey(r, name, typ) /\ r.data = data THEN Rej("state", st)   \* record already exists
  ELSE IF n > 15 THEN Rej("state", st)                                                      \* maximum number of records
  ELSE IF typ = TypCNAME /\ n # 0 THEN Rej("state", st)
  ELSE Out("HALT", "null", "", [st EXCEPT !.recs = @ \cup {[name |-> name, typ |-> typ, id |-> n, data |-> data]}])

DoSetRecord(st, name, typ, id, data, S) ==
  LET why == CheckRecord(st, name, typ, data, S) IN
  IF why # "" THEN Rej(why, st)
  ELSE IF ~\E r \in st.recs : SameKey(r, name, typ) /\ r.id = id THEN Rej("state", st)      \* invalid record id
  ELSE IF \E r \in st.recs : SameKey(r, name, typ) /\ r.id # id /\ r.data = data THEN Rej("state", st)  \* record already exists (fix 3a3e636)
  ELSE Out("HALT", "null", "", [st EXCEPT !.recs = {r \in @ : ~(SameKey(r, name, typ) /\ r.id = id)}
                                                     \cup {[name |-> name, typ |-> typ, id |-> id, data |-> data]}])

DoDeleteRecords(st, name, typ, S) ==
  IF typ = TypSOA THEN Rej("state", st)
  ELSE IF NameCheck(name) # "ok" THEN Rej("name", st)
  ELSE LET tok == TokenOf(st, name)
           TF  == Split(tok, DOT) IN
       IF Len(TF) = 1 \/ tok \notin st.names \/ ParentExpired(st, 1, TF) THEN Rej("state", st)
       ELSE IF "CMT" \notin S THEN Rej("auth", st)
       ELSE Out("HALT", "null", "", [st EXCEPT !.recs = {r \in @ : ~SameKey(r, name, typ)}])

\* the invocation record shared with the Go recorder (harness/nnssyntax)
\*   s is the string under test: the name for isAvailable/register/registerTLD, the data for the record methods
Event(act, S, name, typ, id, s, res, ret, why) ==
  [act |-> act, S |-> S, name |-> name, typ |-> typ, id |-> id, s |-> s, res |-> res, ret |-> ret, why |-> why]

DoAct(st, act, S, name, typ, id, s) ==
  CASE act = "isAvailable"   -> DoIsAvailable(st, s)
    [] act = "register"      -> DoRegister(st, s, S)
    [] act = "registerTLD"   -> DoRegisterTLD(st, s, S)
    [] act = "addRecord"     -> DoAddRecord(st, name, typ, s, S)
    [] act = "setRecord"     -> DoSetRecord(st, name, typ, id, s, S)
    [] act = "deleteRecords" -> DoDeleteRecords(st, name, typ, S)

Invoke(act, S, name, typ, id, s) ==
  LET o == DoAct(St, act, S, name, typ, id, s) IN
  /\ roots' = o.st.roots /\ names' = o.st.names /\ recs' = o.st.recs
  /\ ev' = Event(act, S, name, typ, id, s, o.res, o.ret, o.why)

IsAvailable(s)                  == Invoke("isAvailable", {}, s, 0, 0, s)
Register(S, s)                  == Invoke("register", S, s, 0, 0, s)
RegisterTLD(S, s)               == Invoke("registerTLD", S, s, 0, 0, s)
AddRecord(S, name, typ, d)      == Invoke("addRecord", S, name, typ, 0, d)
SetRecord(S, name, typ, id, d)  == Invoke("setRecord", S, name, typ, id, d)
DeleteRecords(S, name, typ)     == Invoke("deleteRecords", S, name, typ, 0, <<>>)

Init ==
  /\ roots = {} /\ names = {} /\ recs = {}
  /\ ev = Event("init", {}, <<>>, 0, 0, <<>>, "HALT", "null", "")

-----------------------------------------------------------------------------
(***************************************************************************)
(* PART 3 - reference grammars, from the property statement                *)
(***************************************************************************)
Lower  == 97..122
Digits == 48..57

\* labels: maximal dot-free stretches, described by the positions of the dots
DotsOf(s, c) == {i \in 1..Len(s) : s[i] = c}
\* label boundaries: a label is an interval a..b with no separator inside, bounded by separators or the ends
LabelsOf(s, c) ==
  LET D == DotsOf(s, c) \cup {0, Len(s) + 1} IN
  {<<a + 1, b - 1>> : <<a, b>> \in {p \in D \X D : p[1] < p[2] /\ ~\E d \in D : p[1] < d /\ d < p[2]}}

RefLabel(s, a, b) ==          \* s[a..b] is 1..63 lowercase letters, digits and inner hyphens
  /\ b - a + 1 >= 1 /\ b - a + 1 <= 63
  /\ \A i \in a..b : s[i] \in Lower \/ s[i] \in Digits \/ s[i] = HYPHEN
  /\ s[a] # HYPHEN /\ s[b] # HYPHEN

RefName(s) ==
  /\ Len(s) >= 3 /\ Len(s) <= 255
  /\ \A L \in LabelsOf(s, DOT) :
       /\ RefLabel(s, L[1], L[2])
       /\ L[2] = Len(s) => (L[2] - L[1] + 1 <= 16 /\ s[L[1]] \in Lower)      \* the last label

NumLabels(s) == Cardinality(DotsOf(s, DOT)) + 1
LastLabel(s) == LET D == DotsOf(s, DOT) IN
                IF D = {} THEN s ELSE SubSeq(s, (CHOOSE d \in D : \A e \in D : e <= d) + 1, Len(s))
\* the proper suffixes of s at label boundaries that have at least two labels (the parents)
ParentsOf(s) == LET D == DotsOf(s, DOT) IN
                {SubSeq(s, d + 1, Len(s)) : d \in {d \in D : \E e \in D : e > d}}

\* value of the digit string s[a..b], as a sum over positions (saturates far above 255)
RECURSIVE Pow10(_)
Pow10(n) == IF n = 0 THEN 1 ELSE 10 * Pow10(n - 1)
RECURSIVE SumDec(_, _, _)
SumDec(s, a, b) == IF a > b THEN 0 ELSE (s[a] - 48) * Pow10(b - a) + SumDec(s, a + 1, b)

RefOctet(s, a, b) ==          \* 1-3 ASCII digits, no sign, no leading zero, <= 255
  /\ b - a + 1 >= 1 /\ b - a + 1 <= 3
  /\ \A i \in a..b : s[i] \in Digits
  /\ (b > a => s[a] # ZERO)
  /\ SumDec(s, a, b) <= 255

\* public unicast per the exclusion list documented in checkIPv4
RefV4Public(o) ==
  /\ o[1] \notin {0, 10, 127} /\ o[1] < 224
  /\ ~(o[1] = 169 /\ o[2] = 254)
  /\ ~(o[1] = 172 /\ o[2] \in 16..31)
  /\ ~(o[1] = 192 /\ o[2] = 168)
  /\ o[4] \notin {0, 255}

RefA(s) ==
  LET D == DotsOf(s, DOT) IN
  /\ Cardinality(D) = 3
  /\ \A L \in LabelsOf(s, DOT) : RefOctet(s, L[1], L[2])
  /\ LET d1 == CHOOSE d \in D : \A e \in D : d <= e
         d3 == CHOOSE d \in D : \A e \in D : d >= e
         d2 == CHOOSE d \in D : d # d1 /\ d # d3
     IN  RefV4Public(<<SumDec(s, 1, d1 - 1), SumDec(s, d1 + 1, d2 - 1), SumDec(s, d2 + 1, d3 - 1), SumDec(s, d3 + 1, Len(s))>>)

\* RFC 4291 section 2.2 forms 1 and 2: groups of 1-4 hex digits separated by single colons, at most
\* one "::" which stands for one or more groups of zeros; 8 groups in all
HexSet == Digits \cup (97..102) \cup (65..70)
HexVal(c) == IF c \in Digits THEN c - 48 ELSE IF c \in 97..102 THEN c - 87 ELSE c - 55
RECURSIVE Pow16R(_)
Pow16R(n) == IF n = 0 THEN 1 ELSE 16 * Pow16R(n - 1)
RECURSIVE SumHex(_, _, _)
SumHex(s, a, b) == IF a > b THEN 0 ELSE HexVal(s[a]) * Pow16R(b - a) + SumHex(s, a + 1, b)

\* groups = non-empty colon-free stretches
GroupsOf(s) == {L \in LabelsOf(s, COLON) : L[1] <= L[2]}
DoubleColons(s) == {i \in 1..(Len(s) - 1) : s[i] = COLON /\ s[i + 1] = COLON}

RefV6Text(s) ==
  LET DC == DoubleColons(s)
      G  == GroupsOf(s) IN
  /\ Len(s) >= 2
  /\ \A i \in 1..Len(s) : s[i] \in HexSet \/ s[i] = COLON
  /\ Cardinality(DC) <= 1                                         \* one "::" at most, no ":::"
  /\ (s[1] = COLON => 1 \in DC)                                   \* no single colon at either end
  /\ (s[Len(s)] = COLON => (Len(s) - 1) \in DC)
  /\ \A L \in G : L[2] - L[1] + 1 <= 4
  /\ IF DC = {} THEN Cardinality(G) = 8 ELSE Cardinality(G) <= 7

\* value of the k-th group (k = 1, 2) after expansion
RefV6Group(s, k) ==
  LET DC   == DoubleColons(s)
      G    == GroupsOf(s)
      p    == IF DC = {} THEN Len(s) + 1 ELSE CHOOSE i \in DC : TRUE
      Bef  == {L \in G : L[2] < p}                                \* groups written before the "::"
      Nth(X, n) == CHOOSE L \in X : Cardinality({M \in X : M[1] < L[1]}) = n - 1
  IN  IF k <= Cardinality(Bef) THEN LET L == Nth(Bef, k) IN SumHex(s, L[1], L[2])
      ELSE LET zeros == 8 - Cardinality(G)
               kk    == k - Cardinality(Bef) - zeros               \* index among the groups after the "::"
               Aft   == G \ Bef
           IN  IF kk <= 0 THEN 0 ELSE LET L == Nth(Aft, kk) IN SumHex(s, L[1], L[2])

\* global unicast per the exclusion list documented in checkIPv6
RefV6Global(f0, f1) ==
  /\ f0 >= 8192 /\ f0 <= 16383                                    \* 2000::/3
  /\ f0 # 8194 /\ f0 # 16382                                      \* 2002::/16, 3ffe::/16
  /\ (f0 = 8193 => f1 >= 512 /\ f1 # 3512)                        \* 2001:0000::/23, 2001:db8::/32

RefAAAA(s) == RefV6Text(s) /\ RefV6Global(RefV6Group(s, 1), RefV6Group(s, 2))

\* form 3 of RFC 4291 (x:x:x:x:x:x:d.d.d.d): excluded from the input space, not judged
EmbeddedV4(s) ==
  \E p \in DotsOf(s, COLON) :
     /\ \A i \in (p + 1)..Len(s) : s[i] \in Digits \/ s[i] = DOT
     /\ Cardinality({i \in (p + 1)..Len(s) : s[i] = DOT}) = 3
     /\ p + 1 <= Len(s) /\ s[p + 1] # DOT /\ s[Len(s)] # DOT
     /\ \A i \in (p + 1)..(Len(s) - 1) : ~(s[i] = DOT /\ s[i + 1] = DOT)

RefData(typ, s) ==
  CASE typ = TypA     -> RefA(s)
    [] typ = TypAAAA  -> RefAAAA(s)
    [] typ = TypCNAME -> RefName(s)
    [] typ = TypTXT   -> Len(s) <= 255
    [] OTHER          -> FALSE                                    \* "everything else is rejected"

-----------------------------------------------------------------------------
(***************************************************************************)
(* PART 4 - the property over one step (unprimed = before, e = invocation) *)
(***************************************************************************)
NameActs == {"isAvailable", "register", "registerTLD"}
DataActs == {"addRecord", "setRecord"}

\* A call is refused by a FAULT or by returning false (register does that for a taken name; an
\* implementation may equally answer false instead of failing for a malformed one)
Accepted(e) == e.res = "HALT" /\ e.ret # "false"
Refused(e)  == e.res = "FAULT" \/ e.ret = "false"
Ref(e) == IF e.act \in NameActs THEN RefName(e.s) ELSE RefData(e.typ, e.s)

\* inputs the statement quantifies over
InSpace(e) ==
  /\ e.act \in NameActs \cup DataActs
  /\ ~(e.act \in DataActs /\ e.typ = TypAAAA /\ EmbeddedV4(e.s))

\* the storage st and the witnesses leave syntax as the only possible reason for a rejection
\* (an unregistered TLD, a missing parent, a used record slot ... are rejections the statement
\*  does not talk about)
StateAllowsOn(st, e) ==
  CASE e.act = "isAvailable" -> NumLabels(e.s) = 1 \/ LastLabel(e.s) \in st.roots
    [] e.act = "register"    -> /\ NumLabels(e.s) >= 2 /\ LastLabel(e.s) \in st.roots /\ LastLabel(e.s) \in st.names
                                /\ ParentsOf(e.s) \subseteq st.names /\ "CMT" \in e.S
    [] e.act = "registerTLD" -> NumLabels(e.s) = 1 /\ e.s \notin st.roots /\ "CMT" \in e.S
    [] e.act = "addRecord"   -> /\ e.name \in st.names /\ NumLabels(e.name) = 2 /\ LastLabel(e.name) \in st.names /\ "CMT" \in e.S
                                /\ ~\E r \in st.recs : SameKey(r, e.name, e.typ) /\ r.data = e.s
                                /\ Cardinality({r \in st.recs : SameKey(r, e.name, e.typ)}) <= 15
                                /\ (e.typ = TypCNAME => ~\E r \in st.recs : SameKey(r, e.name, e.typ))
    [] e.act = "setRecord"   -> /\ e.name \in st.names /\ NumLabels(e.name) = 2 /\ LastLabel(e.name) \in st.names /\ "CMT" \in e.S
                                /\ \E r \in st.recs : SameKey(r, e.name, e.typ) /\ r.id = e.id
                                /\ ~\E r \in st.recs : SameKey(r, e.name, e.typ) /\ r.id # e.id /\ r.data = e.s   \* a value held under
                                                                        \* another id is refused for the state, not for its syntax
    [] OTHER -> FALSE

\* accepted <=> well-formed (st = the storage the invocation ran on)
\*   OnlyValid: nothing malformed is accepted
\*   AllValid:  nothing well-formed is refused for its syntax: when the storage allows the call it must
\*              HALT; whether isAvailable answers true or false, and register for a name that is
\*              already taken, is not a matter of syntax
C18_OnlyValid(e)      == InSpace(e) /\ Accepted(e) => Ref(e)
C18_AllValidOn(st, e) == InSpace(e) /\ Ref(e) /\ StateAllowsOn(st, e) =>
                           /\ e.res = "HALT"
                           /\ (e.act = "register" /\ e.s \notin st.names => e.ret = "true")
C18_AllValid(e)       == C18_AllValidOn(St, e)
\* rejection changes nothing
C18_RejectInert(e) == Refused(e) => UNCHANGED <<roots, names, recs>>
\* (binding only, the statement does not say it) an accepted record is stored as given
Stored(e) == e.act \in DataActs /\ Accepted(e) =>
                \E r \in recs' : r.name = e.name /\ r.typ = e.typ /\ r.data = e.s

\* deviation tags: predicates over one invocation that name a listed deviation of the code
TagSignedOctet(e) ==       \* A data accepted although an octet carries a sign
  /\ e.act \in DataActs /\ e.typ = TypA /\ Accepted(e)
  /\ Cardinality(DotsOf(e.s, DOT)) = 3
  /\ \E L \in LabelsOf(e.s, DOT) : L[1] <= L[2] /\ e.s[L[1]] = PLUS
  /\ \A L \in LabelsOf(e.s, DOT) : \A i \in L[1]..L[2] : e.s[i] \in Digits \/ (i = L[1] /\ e.s[i] = PLUS)
TagHexGroupSign(e) ==      \* 2001:<group with first digit >= 8>:... refused
  /\ e.act \in DataActs /\ e.typ = TypAAAA /\ ~Accepted(e) /\ RefV6Text(e.s)
  /\ RefV6Group(e.s, 1) = 8193 /\ RefV6Group(e.s, 2) >= 2048
  /\ LET G == {L \in GroupsOf(e.s) : L[1] > 5} IN
     G # {} /\ LET L == CHOOSE L \in G : \A M \in G : L[1] <= M[1] IN L[1] = 6 /\ HexVal(e.s[6]) >= 8
TagTailCompression(e) ==   \* seven groups followed by "::" refused
  /\ e.act \in DataActs /\ e.typ = TypAAAA /\ ~Accepted(e) /\ RefV6Text(e.s)
  /\ Cardinality(GroupsOf(e.s)) = 7 /\ (Len(e.s) - 1) \in DoubleColons(e.s)
Tags(e) ==
  (IF TagSignedOctet(e) THEN {"SignedOctet"} ELSE {})
  \cup (IF TagHexGroupSign(e) THEN {"HexGroupSign"} ELSE {})
  \cup (IF TagTailCompression(e) THEN {"TailCompression"} ELSE {})

=============================================================================
