------------------------- MODULE ContainerRosterTrace -------------------------
(***************************************************************************)
(* Trace monitor: evaluates property C14 (deciding) and the actions of     *)
(* ContainerRoster.tla (binding) on executions recorded from the real      *)
(* Container contract by harness/container (roster mode).                  *)
(***************************************************************************)
EXTENDS ContainerRoster, Json, SequencesExt

CONSTANT TraceFile

VARIABLES l, g
tvars == <<pend, comm, reps, meta, api, ev, l, g>>

Trace == ndJsonDeserialize(TraceFile)

EvOf(r) == [Event(r.act, ToSet(r.S), r.c, r.v, r.from, r.len, r.bk, r.rs, r.m, r.sigs, r.res, r.ret, r.ntf) EXCEPT !.dup = r.dup]

\* JSON lists are indexed from 1, vectors from 0
VecsOf(o) == [c \in Cids |-> [v \in Vecs |-> o[c][v + 1]]]

Flag(ok, prop, pred, r, tags) ==
  IF ok THEN TRUE
  ELSE PrintT("FLAG|" \o ToString(l + 1) \o "|" \o prop \o "|" \o pred \o "|" \o r.act \o "|" \o ToString(r.t)
              \o "|" \o ToString(tags))

Tags(r) == IF DupSigner(g, EvOf(r)) THEN {"DupSigner"} ELSE {}

SpecStep(r) ==
  LET e == EvOf(r) IN
  /\ CASE r.act = "add"    -> Add(e.S, e.c, e.v, e.from, e.len, e.bk, e.dup)
       [] r.act = "commit" -> Commit(e.S, e.c, e.rs)
       [] r.act = "verify" -> Verify(e.c, e.m, e.sigs)
       [] r.act = "submit" -> Submit(e.S, e.c, e.m, e.sigs)
       [] OTHER -> FALSE
  /\ api' = ApiOf(comm', reps')

Judge(r) ==
  LET e  == EvOf(r)
      g2 == g'
      t  == Tags(r)
  IN  /\ Flag(C14_Roster(g2), "C14", "Roster", r, t)
      /\ Flag(C14_CommitEmpties(e), "C14", "CommitEmpties", r, t)
      /\ Flag(C14_Sound(g, e), "C14", "Sound", r, t)
      /\ Flag(r.obs.stray = <<>> /\ r.bad = <<>>, "DRIFT", "StrayOrUnmapped", r, t)
      /\ Flag(SpecStep(r), "DRIFT", "SpecStep", r, t)

Bind(o) ==
  /\ pend' = VecsOf(o.pend)
  /\ comm' = VecsOf(o.comm)
  /\ reps' = [c \in Cids |-> o.reps[c]]
  /\ meta' = ToSet(o.meta)
  /\ api' = [nodes |-> VecsOf(o.nodes), reps |-> [c \in Cids |-> o.areps[c]]]

TraceInit ==
  /\ l = 0
  /\ pend = [c \in Cids |-> Empty] /\ comm = [c \in Cids |-> Empty] /\ reps = [c \in Cids |-> <<>>]
  /\ meta = MetaInit
  /\ api = ApiOf(comm, reps)
  /\ ev = Event("init", {}, Nil, 0, 0, 0, FALSE, <<>>, Nil, <<>>, "HALT", "null", <<>>)
  /\ g = GInit

TraceNext ==
  /\ l < Len(Trace)
  /\ l' = l + 1
  /\ LET r == Trace[l + 1]
     IN  /\ Bind(r.obs)
         /\ ev' = EvOf(r)
         /\ IF r.act = "reset"
            THEN g' = GInit
            ELSE /\ g' = GNext(g, ev')
                 /\ Judge(r)
         /\ IF l' = Len(Trace) THEN PrintT("DONE|" \o ToString(l')) ELSE TRUE

TraceSpec == TraceInit /\ [][TraceNext]_tvars
=============================================================================
