------------------------------ MODULE FSChainMC ------------------------------
(* Model-checking wrapper of FSChain: constants of the bounded configurations *)
(* (three action groups, each exhaustive), the properties as action formulas, *)
(* the scenario emitter used with `tlc -simulate`.                            *)
EXTENDS FSChain, Json

VARIABLE hist
mcvars == <<w, ev, hist>>

C_Cids   == {"c1", "c2"}
C_COwner == [c \in {"c1", "c2", "c3"} |-> IF c = "c3" THEN "o2" ELSE "o1"]

\* ---- group T: the epoch tick with all kinds of subscribers ----
T_Acts == {"mint", "lock", "sub", "rej", "tick", "tickC", "estPut", "put"}
T_ActsQ == {"mint", "lock", "sub", "rej", "tick", "tickC", "estPut"}
T_Signers == {{"ALPHA"}, {"K1"}}
\* ---- group F: fee flow of put/putNamed ----
F_Acts == {"mint", "setFee", "put", "delete"}
F_Signers == {{"CMT"}, {"ALPHA"}}
\* ---- group W: withdraw cycle with container fees in between ----
W_Acts == {"mint", "lock", "burn", "tick", "tickB", "put", "setFee"}
\* ---- group N: name resolution and the Alphabet contract ----
N_Acts == {"repoint", "deployLate", "vote", "tick", "tick2", "designate"}
N_Signers == {{"ALPHA"}, {"CMT"}}
N_Signers3 == {{"ALPHA"}, {"CMT"}, {"ALPHA", "CMT"}}
N_Cands == {<<"V1">>, <<"VX", "V2">>}

\* ---- simulation (scenario generation): everything at once ----
S_Acts == {"mint", "burn", "lock", "setFee", "sub", "rej", "tick", "tick2", "tickB", "tickC", "put", "delete", "estPut",
           "repoint", "deployLate", "vote", "designate"}
S_Signers == {{}, {"ALPHA"}, {"CMT"}, {"M1"}, {"X"}, {"ALPHA", "CMT"}, {"K1"}, {"K1", "ALPHA"}}
S_Cands == {<<"V1">>, <<"V2">>, <<"V2", "V1">>, <<"V1", "V2">>, <<"VX", "V2">>, <<"V1", "VX">>, <<"V1", "V2", "VX">>, <<>>}
S_Cids == {"c1", "c2", "c3"}

IR2 == <<"I1", "I2">>
IR3 == <<"I1", "I2", "I3">>
L0 == <<>>
L1 == <<"l1">>
L2 == <<"l1", "l2">>
L3 == <<"l1", "l2", "l3">>
AN1 == <<"A1">>
AN2 == <<"A1", "A2">>
AN7 == <<"A1", "A2", "A3", "A4", "A5", "A6", "A7">>

MCInit == Init /\ hist = <<>>
MCNext == Next /\ hist' = <<>>
MCSpec == MCInit /\ [][MCNext]_mcvars

One(X) == IF X = {} THEN {} ELSE {RandomElement(X)}
\* signer sets are drawn with a bias towards the sets that make calls succeed
S_Bias == <<{"ALPHA"}, {"ALPHA"}, {"ALPHA"}, {"ALPHA", "CMT"}, {"K1"}, {"CMT"}>>
OneS(X) == IF RandomElement(1..4) = 1 THEN One(X) ELSE {S_Bias[RandomElement(1..Len(S_Bias))]}
SimNext == NextOf(One, OneS) /\ hist' = Append(hist, [ev' EXCEPT !.xfer = <<>>])
SimSpec == MCInit /\ [][SimNext]_mcvars

CONSTANTS SimLen, MaxSupply, MaxEpoch, MaxJournal, MaxEst
EmitScenario == IF Len(hist) = SimLen THEN PrintT("SCEN " \o ToJson([n |-> w.na, steps |-> hist])) ELSE TRUE

Bounded == /\ w.supply <= MaxSupply
           /\ w.epoch <= MaxEpoch /\ w.epoch2 <= MaxEpoch
           /\ Len(w.journal) <= MaxJournal
           /\ Cardinality(w.est) <= MaxEst /\ \A c \in Cids : Len(w.elist[c]) <= MaxEst
MCView == w

P_X01 == [][X01_All(ev')]_mcvars

TypeOK == /\ w.supply \in Int /\ w.epoch \in Nat
          /\ \A a \in AllAcc : w.acc[a].ex \in BOOLEAN /\ w.acc[a].bal \in Int
          /\ NoDup(w.subs) /\ NoDup(w.subs2)
=============================================================================
