---------------------------- MODULE DeployNotaryMC ----------------------------
(* Model-checking wrapper of DeployNotary.tla (cfg files spec/cfg/DeployNotary_*.cfg). *)
EXTENDS DeployNotary
NoDev    == {}
Code     == {"IndexShift", "MapOrder"}
OnlyMap  == {"MapOrder"}
Tried    == {"TriedSticky"}
Stale    == {"StaleAdd"}
NoAbsent == {}
A1       == {1}
A2       == {2}
A3       == {3}
A12      == {1, 2}
=============================================================================
