----------------------------- MODULE StoresTrace -----------------------------
(***************************************************************************)
(* Trace monitor of the Stores family (property C20).  Every line of the   *)
(* ndjson trace recorded by harness/stores is one transaction executed on  *)
(* the real contracts together with the full observed state: the raw       *)
(* storage of Reputation, Audit, Container (estimations), NeoFSID, Netmap  *)
(* and NeoFS (configuration), decoded by the documented key layout, and    *)
(* the answer of every read method for every query of the scenario's       *)
(* universe.  The variables of Stores.tla are bound to that state, then    *)
(*  (a) the predicates of C20 are evaluated against the ghost exact maps,  *)
(*      which are computed from the invocations only  - deciding;          *)
(*  (b) the Spec action named by the line is evaluated - binding (DRIFT).  *)
(* A failing check prints FLAG|line|prop|pred|site|trace|tags and the      *)
(* monitor goes on.  For the read-method predicates the 5th field is the   *)
(* call site (rep.listByEpoch, est.list ...), which is what the known-     *)
(* findings file refers to; for the others it is the action of the step.   *)
(***************************************************************************)
EXTENDS Stores, Json

CONSTANT TraceFile

VARIABLES l, g
tvars == <<U, st, api, ev, l, g>>

Trace == ndJsonDeserialize(TraceFile)

EvOf(r) == Event(r.act, ToSet(r.S), r.e, r.x, r.a, r.b, r.v, r.ks, r.res, r.ntf)

UOf(u) == [qe |-> ToSet(u.qe), peer |-> u.peer, cid |-> u.cid, ah |-> u.ah, eh |-> u.eh,
           owners |-> ToSet(u.owners), keys |-> ToSet(u.keys), cfgkeys |-> ToSet(u.cfgkeys)]

StateOf(o) ==
  [repC |-> ToSet(o.st.repC), repV |-> ToSet(o.st.repV), aud |-> ToSet(o.st.aud), est |-> ToSet(o.st.est),
   estL |-> ToSet(o.st.estL), idk |-> ToSet(o.st.idk), cfgN |-> ToSet(o.st.cfgN), cfgF |-> ToSet(o.st.cfgF),
   env |-> [epoch |-> o.st.env.epoch, cand |-> ToSet(o.st.env.cand), cur |-> ToSet(o.st.env.cur),
            prev |-> ToSet(o.st.env.prev), cnts |-> ToSet(o.st.env.cnts), dead |-> ToSet(o.st.env.dead),
            ir |-> ToSet(o.st.env.ir)]]

ApiObs(o) ==
  [repGet |-> ToSet(o.api.repGet), repGetID |-> ToSet(o.api.repGetID), repList |-> ToSet(o.api.repList),
   audGet |-> ToSet(o.api.audGet), audList |-> ToSet(o.api.audList), audByE |-> ToSet(o.api.audByE),
   audByC |-> ToSet(o.api.audByC), audByN |-> ToSet(o.api.audByN),
   estAll |-> ToSet(o.api.estAll), estIter |-> ToSet(o.api.estIter), estList |-> ToSet(o.api.estList),
   estGet |-> ToSet(o.api.estGet), idKey |-> ToSet(o.api.idKey),
   cfgN |-> ToSet(o.api.cfgN), cfgNL |-> ToSet(o.api.cfgNL), cfgF |-> ToSet(o.api.cfgF), cfgFL |-> ToSet(o.api.cfgFL)]

Flag(ok, prop, pred, site, r, tags) ==
  IF ok THEN TRUE
  ELSE PrintT("FLAG|" \o ToString(l + 1) \o "|" \o prop \o "|" \o pred \o "|" \o site \o "|" \o ToString(r.t)
              \o "|" \o ToString(tags))

SpecStep(r) ==
  LET e == EvOf(r) IN
  CASE r.act = "rep.put"   -> RepPut(e.S, e.e, e.a, e.v, e.x)
    [] r.act = "aud.put"   -> AudPut(e.S, e.e, e.a, e.b, e.v)
    [] r.act = "est.put"   -> EstPut(e.S, e.e, e.a, e.b, e.x)
    [] r.act = "est.tick"  -> EstTick(e.S, e.e)
    [] r.act = "est.start" -> EstStart(e.S, e.e)
    [] r.act = "est.stop"  -> EstStop(e.S, e.e)
    [] r.act = "nm.tick"   -> NmTick(e.S, e.e)
    [] r.act = "nm.add"    -> NmAdd(e.S, e.b)
    [] r.act = "nm.rm"     -> NmRm(e.S, e.b)
    [] r.act = "cn.put"    -> CnPut(e.S, e.a)
    [] r.act = "cn.del"    -> CnDel(e.S, e.a)
    [] r.act = "ir.set"    -> IrSet(e.S, e.ks)
    [] r.act = "id.add"    -> IdAdd(e.S, e.a, e.ks)
    [] r.act = "id.rm"     -> IdRm(e.S, e.a, e.ks)
    [] r.act = "cfgN.set"  -> CfgNSet(e.S, e.a, e.v)
    [] r.act = "cfgF.set"  -> CfgFSet(e.S, e.a, e.v)
    [] OTHER -> FALSE

Judge(r) ==
  LET e  == EvOf(r)
      g2 == g'
      no == {}
  IN  /\ Flag(C20_RepGet(g, g2),   "C20", "RepGet",        "rep.get", r, no)
      /\ Flag(C20_RepGetID(g, g2), "C20", "RepGetByID",    "rep.getByID", r, no)
      /\ Flag(C20_RepList(g, g2),  "C20", "RepListByEpoch", "rep.listByEpoch", r, T_RepList(g, g2))
      /\ Flag(C20_AudGet(g, g2),   "C20", "AudGet",        "aud.get", r, no)
      /\ Flag(C20_AudList(g, g2),  "C20", "AudList",       "aud.list", r, no)
      /\ Flag(C20_AudByE(g, g2),   "C20", "AudListByEpoch", "aud.listByEpoch", r, T_AudByE(g, g2))
      /\ Flag(C20_AudByC(g, g2),   "C20", "AudListByCID",  "aud.listByCID", r, no)
      /\ Flag(C20_AudByN(g, g2),   "C20", "AudListByNode", "aud.listByNode", r, no)
      /\ Flag(C20_EstAll(g, g2),   "C20", "EstIterateAll", "est.iterateAll", r, T_EstAll(g, g2))
      /\ Flag(C20_EstIter(g, g2),  "C20", "EstIterate",    "est.iterate", r, no)
      /\ Flag(C20_EstList(g, g2),  "C20", "EstList",       "est.list", r, T_EstList(g, g2))
      /\ Flag(C20_EstGet(g, g2),   "C20", "EstGet",        "est.get", r, no)
      /\ Flag(C20_IdKey(g, g2),    "C20", "IdKey",         "id.key", r, no)
      /\ Flag(C20_CfgN(g, g2),     "C20", "CfgNConfig",    "cfgN.config", r, no)
      /\ Flag(C20_CfgNL(g, g2),    "C20", "CfgNList",      "cfgN.listConfig", r, no)
      /\ Flag(C20_CfgF(g, g2),     "C20", "CfgFConfig",    "cfgF.config", r, no)
      /\ Flag(C20_CfgFL(g, g2),    "C20", "CfgFList",      "cfgF.listConfig", r, no)
      /\ Flag(C20_EstAccept(e),    "C20", "EstAccept",     r.act, r, no)
      /\ Flag(C20_AudAccept(e),    "C20", "AudAccept",     r.act, r, no)
      /\ Flag(C20_FailedInert(e),  "C20", "FailedInert",   r.act, r, no)
      \* an answer that cannot be decoded into the universe (unknown id, duplicate, malformed item)
      /\ Flag(r.bad = <<>>,        "C20", "Decodable",     r.act, r, no)
      /\ Flag(r.obs.stray = <<>>,  "DRIFT", "NoStrayKeys", r.act, r, no)
      /\ Flag(SpecStep(r),         "DRIFT", "SpecStep",    r.act, r, no)

NoU == [qe |-> {}, peer |-> <<>>, cid |-> <<>>, ah |-> <<>>, eh |-> <<>>, owners |-> {}, keys |-> {}, cfgkeys |-> {}]

TraceInit ==
  /\ l = 0
  /\ U = NoU
  /\ st = EmptySt
  /\ api = ApiOf(EmptySt)
  /\ ev = InitEv
  /\ g = GInit

TraceNext ==
  /\ l < Len(Trace)
  /\ l' = l + 1
  /\ LET r == Trace[l + 1]
         o == r.obs
     IN  /\ st' = StateOf(o)
         /\ api' = ApiObs(o)
         /\ ev' = EvOf(r)
         /\ IF r.act = "reset"
            THEN /\ U' = UOf(r.U)
                 \* the deployed configuration is the baseline of the exact configuration maps
                 /\ g' = [GInit EXCEPT !.cfgN = st'.cfgN, !.cfgF = st'.cfgF]
            ELSE /\ U' = U
                 /\ g' = GNext(g, ev')
                 /\ Judge(r)
         /\ IF l' = Len(Trace) THEN PrintT("DONE|" \o ToString(l')) ELSE TRUE

TraceSpec == TraceInit /\ [][TraceNext]_tvars
=============================================================================
