---------------------------- MODULE DeployNotary ----------------------------
(***************************************************************************)
(* Refinement of the Notary-bootstrap stage of Deploy.tla: the leader and  *)
(* signer ticks of /repo/deploy/notary.go with the code's data and index   *)
(* arithmetic.                                                             *)
(*                                                                         *)
(*   enableNotary                          notary.go:55-111                *)
(*   initDesignateNotaryRoleAsLeaderTick   notary.go:165-520   LTick       *)
(*   initDesignateNotaryRoleAsSignerTick   notary.go:526-736   STick(j)    *)
(*                                                                         *)
(* Before the Notary role exists there is no notary service, so the        *)
(* committee multi-signature of the designating transaction is collected   *)
(* through NNS records of the `bootstrap` zone: the leader (committee      *)
(* index 0) publishes the shared transaction data (sender, ValidUntilBlock *)
(* = height + 120, random nonce) under designate-committee-notary-tx, each *)
(* signer j publishes checksum(shared data) || signature under             *)
(* designate-committee-notary-<j>, the leader assembles the witness from   *)
(* Maj-1 remote signatures and sends the transaction.  Shared data that    *)
(* outlived its ValidUntilBlock is re-created by the leader.               *)
(*                                                                         *)
(* Time is relative: `age` counts the blocks since the current shared data *)
(* was created (Life models the 120 blocks).  Every running member         *)
(* executes one loop iteration per block (waitForNextBlock) in arbitrary   *)
(* order; a block contains everything that was pooled.  Slowness of a      *)
(* member is modelled by absence and by cancellation/restart.              *)
(*                                                                         *)
(* Deviation switches (behaviour of the code that C13 forbids):            *)
(*   "IndexShift"  the leader scans `for i := range committee[1:]`, i.e.   *)
(*                 domains and keys 0..N-2 (notary.go:390-391), while the  *)
(*                 signers publish under their own indices 1..N-1          *)
(*   "MapOrder"    the collected signatures are appended to the witness in *)
(*                 Go map iteration order (notary.go:478-491); only the    *)
(*                 ascending order verifies, and the refusal (-508 invalid *)
(*                 signature) is not the error class the leader reacts to  *)
(*                 (notary.go:506), so it re-sends the same transaction    *)
(*                 until the shared data expires                           *)
(*   "TriedSticky" triedDesignateRoleTx is never reset (notary.go:466 -    *)
(*                 resetTx does not touch it - and line 463 consults the   *)
(*                 register-domain monitor instead of the designation      *)
(*                 monitor): once a designation transaction was sent, the  *)
(*                 leader re-creates the shared data whenever it has       *)
(*                 gathered the signatures and never sends again.  Without *)
(*                 losses this only costs one needless setRecord; with a   *)
(*                 lost designation transaction (Lose, at most MaxLoss     *)
(*                 times, unfair) it is a livelock.                        *)
(*   "StaleAdd"    a signer whose own record is stale publishes the new    *)
(*                 signature with addRecord instead of setRecord (SReplace)*)
(* With all switches off the module describes the repaired code.           *)
(***************************************************************************)
EXTENDS Integers, Sequences, FiniteSets, TLC

CONSTANTS N, Life, G, MaxCancel, Absent, Dev, MaxLoss, MaxElapse

Members == 0..(N - 1)
Signers == 1..(N - 1)
Maj     == N - ((N - 1) \div 2)
Need    == Maj - 1              \* remote signatures the leader needs
TxDom   == -1                   \* designate-committee-notary-tx.bootstrap; signer domains are their indices
None    == -1
Old     == -2                  \* a record made for shared data that has been re-created since
MaxRecords == 3               \* bound of the record list of one domain (16 in the contract)

VARIABLES
  \* chain
  doms,     \* registered domains of the bootstrap zone
  shared,   \* [gen, age]: generation (models the nonce) and age of the shared data record; gen = None: no record
  sig,      \* sig[j] = the TXT records of signer j's domain in order, each the generation whose checksum prefixes the
            \* signature; readers (leader and the signer itself) look at the FIRST record only (lookupNNSDomainRecord)
  pool,     \* pooled transactions
  ntrIn,    \* None: nothing; 1: designation executed in the last block (effective from the next one); 0: role visible
  \* leader (multi-tick context of the closure)
  ltx,      \* generation the leader's transaction was built for (None: tx == nil)
  lsigs,    \* keys of mCommitteeIndexToSignature
  fully,    \* txFullySigned
  lgood,    \* the assembled witness carries the signatures in ascending key order
  tried,    \* triedDesignateRoleTx
  \* signers
  stx,
  \* scheduling
  alive, ticked, cancels, gen, badAssembled, losses, elapses
vars == <<doms, shared, sig, pool, ntrIn, ltx, lsigs, fully, lgood, tried, stx, alive, ticked, cancels, gen, badAssembled, losses, elapses>>

Ntr == ntrIn = 0

Init ==
  /\ doms = {} /\ shared = [gen |-> None, age |-> 0] /\ sig = [j \in Members |-> <<>>] /\ pool = {} /\ ntrIn = None
  /\ ltx = None /\ lsigs = {} /\ fully = FALSE /\ lgood = TRUE /\ tried = FALSE
  /\ stx = [j \in Members |-> None]
  /\ alive = [i \in Members |-> i \notin Absent] /\ ticked = [i \in Members |-> FALSE] /\ cancels = 0 /\ gen = 0
  /\ badAssembled = FALSE /\ losses = 0 /\ elapses = 0

Done(i) == ticked' = [ticked EXCEPT ![i] = TRUE]
Sent(k) == \E t \in pool : t.k = k.k /\ t.by = k.by       \* the monitor of that kind of transaction is pending

\* ---------------------------------------------------------------- leader
LeaderVars == <<ltx, lsigs, fully, lgood, tried>>

\* generateAndShareTxData: resetTx (which does NOT reset triedDesignateRoleTx in the code: "TriedSticky"), new data, add/setRecord
Generate ==
  /\ ltx' = None /\ lsigs' = {} /\ fully' = FALSE /\ lgood' = TRUE /\ tried' = (tried /\ "TriedSticky" \in Dev)
  /\ gen' = (gen + 1) % G
  /\ pool' = pool \cup {[k |-> "share", by |-> 0, g |-> (gen + 1) % G]}
  /\ UNCHANGED badAssembled

\* the scan of the signature domains (notary.go:390-452)
Scan == IF "IndexShift" \in Dev THEN 0..(N - 2) ELSE 1..(N - 1)
\* domain i holds a record whose checksum matches the shared data and whose signature verifies with committee[i]
\* (signer j publishes its own signature under j, so domain i is verified with the right key - only the range differs)
ValidAt(i, g) == i \in doms /\ i \in Signers /\ sig[i] # <<>> /\ Head(sig[i]) = g
RECURSIVE Collect(_, _, _)
Collect(have, i, g) ==            \* ascending scan, stops as soon as enough signatures are held
  IF Cardinality(have) >= Need \/ i > N - 1 THEN have
  ELSE Collect(IF i \in Scan /\ ValidAt(i, g) THEN have \cup {i} ELSE have, i + 1, g)

LTick ==
  /\ alive[0] /\ ~ticked[0] /\ ~Ntr /\ N > 1
  /\ Done(0)
  /\ UNCHANGED <<doms, shared, sig, ntrIn, stx, alive, cancels, losses, elapses>>
  /\ IF TxDom \notin doms
     THEN /\ pool' = IF Sent([k |-> "reg", by |-> 0]) THEN pool ELSE pool \cup {[k |-> "reg", by |-> 0, d |-> TxDom]}
          /\ UNCHANGED <<LeaderVars, gen, badAssembled>>
     ELSE IF shared.gen = None
     THEN IF Sent([k |-> "share", by |-> 0]) THEN UNCHANGED <<pool, LeaderVars, gen, badAssembled>> ELSE Generate
     ELSE IF shared.age > Life                       \* cur > validUntilBlock
     THEN Generate
     ELSE LET g    == shared.gen
              have == Collect(lsigs, 0, g)
          IN  IF Cardinality(have) < Need
              THEN /\ ltx' = g /\ lsigs' = have
                   /\ UNCHANGED <<pool, fully, lgood, tried, gen, badAssembled>>
              ELSE IF tried                          \* "expired without side-effect, will recreate"
              THEN Generate
              ELSE \E good \in (IF fully THEN {lgood}
                                ELSE IF "MapOrder" \in Dev /\ Cardinality(have) >= 2 THEN BOOLEAN ELSE {TRUE}) :
                     /\ ltx' = g /\ lsigs' = have /\ fully' = TRUE /\ lgood' = good
                     /\ badAssembled' = (badAssembled \/ ~good)
                     /\ UNCHANGED gen
                     /\ IF good /\ shared.age < Life          \* the node accepts: valid witness, not expired
                        THEN pool' = pool \cup {[k |-> "des", by |-> 0, g |-> g]} /\ tried' = TRUE
                        ELSE UNCHANGED <<pool, tried>>       \* refused; no reaction of the code

\* committee of one: the local account is the committee (notary.go:115-159)
LTick1 ==
  /\ N = 1 /\ alive[0] /\ ~ticked[0] /\ ~Ntr
  /\ Done(0)
  /\ pool' = IF Sent([k |-> "des", by |-> 0]) THEN pool ELSE pool \cup {[k |-> "des", by |-> 0, g |-> 0]}
  /\ UNCHANGED <<doms, shared, sig, ntrIn, LeaderVars, stx, alive, cancels, gen, badAssembled, losses, elapses>>

\* ---------------------------------------------------------------- signers
\* (notary.go:575-735) one loop iteration of signer j, split by what it finds:
SPre(j) == j \in Signers /\ alive[j] /\ ~ticked[j] /\ ~Ntr
SFrame(j) == Done(j) /\ UNCHANGED <<doms, shared, sig, ntrIn, LeaderVars, alive, cancels, gen, badAssembled, losses, elapses>>
Current == shared.gen # None /\ shared.age <= Life
SendSig(j, m) == pool' = IF Sent([k |-> "sig", by |-> j]) THEN pool ELSE pool \cup {[k |-> "sig", by |-> j, g |-> shared.gen, m |-> m]}
\* no shared data yet: wait for the leader; expired data: forget the transaction, wait for the leader's update
SWait(j) ==
  /\ SPre(j) /\ ~Current /\ SFrame(j)
  /\ stx' = [stx EXCEPT ![j] = None] /\ UNCHANGED pool
\* own domain missing: register it
SRegister(j) ==
  /\ SPre(j) /\ Current /\ j \notin doms /\ SFrame(j)
  /\ stx' = [stx EXCEPT ![j] = shared.gen]
  /\ pool' = IF Sent([k |-> "reg", by |-> j]) THEN pool ELSE pool \cup {[k |-> "reg", by |-> j, d |-> j]}
\* domain without record: first publication (addRecord)
SPublish(j) ==
  /\ SPre(j) /\ Current /\ j \in doms /\ sig[j] = <<>> /\ SFrame(j)
  /\ stx' = [stx EXCEPT ![j] = shared.gen] /\ SendSig(j, "add")
\* the first record is STALE (made for shared data the leader has re-created since - checksum mismatch - or not a valid
\* signature): it is REPLACED, setRecord(id 0).  "StaleAdd": the checksum-mismatch branch forgets that a record exists
\* and publishes with addRecord: the stale record stays in front, a repeated addRecord is refused as a duplicate
SReplace(j) ==
  /\ SPre(j) /\ Current /\ j \in doms /\ sig[j] # <<>> /\ Head(sig[j]) # shared.gen /\ SFrame(j)
  /\ stx' = [stx EXCEPT ![j] = shared.gen] /\ SendSig(j, IF "StaleAdd" \in Dev THEN "add" ELSE "set")
\* published and valid: nothing to do
SKeep(j) ==
  /\ SPre(j) /\ Current /\ j \in doms /\ sig[j] # <<>> /\ Head(sig[j]) = shared.gen /\ SFrame(j)
  /\ stx' = [stx EXCEPT ![j] = shared.gen] /\ UNCHANGED pool
STick(j) == SWait(j) \/ SRegister(j) \/ SPublish(j) \/ SReplace(j) \/ SKeep(j)

\* a member that sees the role returns from enableNotary
Idle(i) == alive[i] /\ ~ticked[i] /\ Ntr /\ Done(i)
           /\ UNCHANGED <<doms, shared, sig, pool, ntrIn, LeaderVars, stx, alive, cancels, gen, badAssembled, losses, elapses>>

\* ---------------------------------------------------------------- chain
Block ==
  /\ \A i \in Members : alive[i] => ticked[i]
  /\ ticked' = [i \in Members |-> FALSE]
  /\ doms' = doms \cup {t.d : t \in {t \in pool : t.k = "reg"}}
  /\ shared' = IF \E t \in pool : t.k = "share"
               THEN [gen |-> (CHOOSE t \in pool : t.k = "share").g, age |-> 0]
               ELSE IF shared.gen = None THEN shared ELSE [shared EXCEPT !.age = IF @ > Life THEN @ ELSE @ + 1]
  /\ sig' = [j \in Members |->
               LET after ==
                     IF \E t \in pool : t.k = "sig" /\ t.by = j
                     THEN LET t == CHOOSE t \in pool : t.k = "sig" /\ t.by = j IN
                          IF t.m = "set" THEN <<t.g>> \o Tail(sig[j])                        \* setRecord(id 0)
                          ELSE IF (\E k \in 1..Len(sig[j]) : sig[j][k] = t.g) \/ Len(sig[j]) >= MaxRecords
                               THEN sig[j]                                                  \* "record already exists"
                               ELSE Append(sig[j], t.g)                                     \* addRecord appends
                     ELSE sig[j]
               \* new shared data (new nonce): whatever was published before is stale from now on - marked Old, so that
               \* the generation counter modulo G can never make an old record look current
               IN  IF \E t \in pool : t.k = "share" THEN [k \in 1..Len(after) |-> Old] ELSE after]
  /\ ntrIn' = IF ntrIn = 1 THEN 0 ELSE IF ntrIn = None /\ \E t \in pool : t.k = "des" THEN 1 ELSE ntrIn
  /\ pool' = {}
  /\ UNCHANGED <<LeaderVars, stx, alive, cancels, gen, badAssembled, losses, elapses>>

\* environment: a long stretch of blocks passes (members slow, absent, paused) - the shared data outlives its
\* ValidUntilBlock whatever has been published for it so far (at most MaxElapse times, no fairness)
Elapse ==
  /\ shared.gen # None /\ shared.age <= Life /\ ~Ntr /\ ntrIn = None /\ elapses < MaxElapse
  /\ ~\E t \in pool : t.k = "des"
  /\ shared' = [shared EXCEPT !.age = Life + 1] /\ elapses' = elapses + 1
  /\ UNCHANGED <<doms, sig, pool, ntrIn, LeaderVars, stx, alive, ticked, cancels, gen, badAssembled, losses>>

\* a pooled transaction is lost before the block (acknowledged to its sender, never executed)
Lose(t) ==
  /\ t \in pool /\ losses < MaxLoss
  /\ pool' = pool \ {t} /\ losses' = losses + 1
  /\ UNCHANGED <<doms, shared, sig, ntrIn, LeaderVars, stx, alive, ticked, cancels, gen, badAssembled, elapses>>

Cancel(i) ==
  /\ alive[i] /\ ~Ntr /\ cancels < MaxCancel
  /\ alive' = [alive EXCEPT ![i] = FALSE] /\ cancels' = cancels + 1
  /\ UNCHANGED <<doms, shared, sig, pool, ntrIn, LeaderVars, stx, ticked, gen, badAssembled, losses, elapses>>

\* a fresh run: the closure's context is lost (absent members start only when the role is visible)
Restart(i) ==
  /\ ~alive[i] /\ (i \notin Absent \/ Ntr)
  /\ alive' = [alive EXCEPT ![i] = TRUE]
  /\ ticked' = [ticked EXCEPT ![i] = TRUE]
  /\ IF i = 0 THEN ltx' = None /\ lsigs' = {} /\ fully' = FALSE /\ lgood' = TRUE /\ tried' = FALSE /\ UNCHANGED stx
     ELSE stx' = [stx EXCEPT ![i] = None] /\ UNCHANGED LeaderVars
  /\ UNCHANGED <<doms, shared, sig, pool, ntrIn, cancels, gen, badAssembled, losses, elapses>>

Next == LTick \/ LTick1 \/ Block \/ Elapse \/ (\E t \in pool : Lose(t)) \/ \E i \in Members : STick(i) \/ Idle(i) \/ Cancel(i) \/ Restart(i)

Spec == Init /\ [][Next]_vars /\ WF_vars(LTick) /\ WF_vars(LTick1) /\ WF_vars(Block)
        /\ \A i \in Members : WF_vars(STick(i)) /\ WF_vars(Idle(i)) /\ WF_vars(Restart(i))

\* ---------------------------------------------------------------- properties
TypeOK == /\ shared.gen \in {None} \cup 0..(G - 1) /\ shared.age \in 0..(Life + 1)
          /\ lsigs \subseteq Members /\ ntrIn \in {None, 0, 1}
          /\ \A j \in Members : Len(sig[j]) <= MaxRecords
\* C13: "needs only a majority of members including the first one": with a live majority containing member 0 the
\* role is designated (Absent is a minority without member 0; cancelled members come back)
NotaryMajority == <>[]Ntr
\* C13: "assembles a valid designation transaction from any such majority of signatures"
ValidDesignation == ~badAssembled
\* the leader only ever uses signatures of members it actually verified for the current data
CollectedAreSigners == lsigs \subseteq Signers
=============================================================================
