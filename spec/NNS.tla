--------------------------------- MODULE NNS ---------------------------------
(***************************************************************************)
(* Implementation-shaped specification of contracts/nns/contract.go and    *)
(* contracts/nns/namestate.go (NameService: NEP-11 token, records,         *)
(* resolution, registration price), followed by the properties C10, C11,   *)
(* C12 and the extension X03 as predicates over one step.                  *)
(*                                                                         *)
(* Names are strings ("a.t"); their structure is given by the constant     *)
(* function Par (parent of a name, Nil for a TLD), so a universe of        *)
(* well-formed names is fixed per configuration (name syntax is C18).      *)
(* Time is counted in instants; a year has YEAR instants.  The variable    *)
(* `now` is the instant at which the next transaction executes and at      *)
(* which the read methods are observed (a test invocation runs at the top  *)
(* block's timestamp + 1 ms): every invocation is one block at instant     *)
(* `now` and moves `now` one instant on, Tick(d) moves it d instants on.   *)
(* The Go driver maps instant T to T0 + (T div B) * unit + (T mod B) ms    *)
(* (unit = year/4, a multiple of 1000 ms because `expire` is in seconds;   *)
(* durations are multiples of B instants), which is strictly monotone, so  *)
(* `now >= expiration` in ms is exactly the comparison of instants and     *)
(* t = exp-1, exp, exp+1 are hit to the millisecond.                       *)
(*                                                                         *)
(* State = the raw storage of the contract:                                *)
(*   roots          0x20<tld>                                              *)
(*   ns[n]          0x21<ripemd160(n)> -> NameState (ex = entry exists)    *)
(*   supply         0x00                                                   *)
(*   bal[o]         0x01<o>          (0 = no entry)                        *)
(*   idx            0x02<o><key(n)>  as a set of <<o, n>>                  *)
(*   rec[<<tok,n,ty>>]  0x22<key(tok)><key(n)><ty><id> as the sequence of  *)
(*                  data ordered by id (ids are always 0..k-1)             *)
(*   soa[n]         0x22<key(n)><key(n)><SOA><0>                           *)
(*   price          0x10  registration price (extension X03), counted in   *)
(*                  price units: the driver maps the model price P to      *)
(*                  (P div 16) GAS + (P mod 16) fractions of 10^-8 GAS     *)
(*                  (odd for P < 0), a strictly monotone map, so 0, 1 and  *)
(*                  maxRegisterPrice + 1 are exact and everything fits     *)
(*                  TLC's 32-bit integers                                  *)
(*   now            time of the last block                                 *)
(* ev is the last invocation with outcome and notifications.               *)
(***************************************************************************)
EXTENDS Integers, Sequences, FiniteSets, TLC

CONSTANTS
  Par,        \* [name -> parent name | Nil]; DOMAIN Par is the name universe
  InitTLDs,   \* TLDs created by _deploy (expire 10 years)
  Owners,     \* account names that may own names: users, KC, "CMT"
  KC,         \* the helper contract account (witnessed iff the call goes through it)
  SignerSets, \* signer sets explored
  Mails, Expires, Years, Ids, Ticks,   \* argument ranges
  RTypes,     \* record types offered to the record methods (may contain "SOA", "BAD")
  DataOf,     \* [type -> set of data values]
  YEAR,       \* units per year
  MaxRec,     \* 16 in the contract (maxRecordID + 1)
  Prices,     \* argument range of setPrice (price units)
  DefPrice,   \* defaultRegisterPrice stored by _deploy (10 GAS)
  MaxPrice,   \* maxRegisterPrice (10 000 GAS)
  GasCap,     \* GAS available to one transaction (the system fee the driver attaches at most): burning more FAULTs
  Dev         \* deviation switches: behaviour of the code that the properties forbid

Nil      == "nil"
Names    == DOMAIN Par
OkTypes  == {"A", "CNAME", "TXT", "AAAA"}      \* types accepted by checkRecord
TypeSeq  == <<"A", "CNAME", "SOA", "TXT", "AAAA">>  \* storage order (type byte 1,5,6,16,28)

\* (tables instead of operators: TLC evaluates constant definitions once)
RECURSIVE SufsR(_)
SufsR(n) == IF Par[n] = Nil THEN <<n>> ELSE <<n>> \o SufsR(Par[n])   \* n, parent, ..., TLD
SufsF    == [n \in Names |-> SufsR(n)]
AncF     == [n \in Names |-> {SufsF[n][i] : i \in 2..Len(SufsF[n])}]
BelowF   == [n \in Names |-> {m \in Names : n \in AncF[m]}]
Sufs(n)  == SufsF[n]
Level(n) == Len(SufsF[n])
Anc(n)   == AncF[n]
TLDOf(n) == SufsF[n][Len(SufsF[n])]
NT       == {n \in Names : Par[n] # Nil}
Below(n) == BelowF[n]
\* the value of a singleton set; {F(x) : x \in {e}} binds x to the *value* of e (an operator argument
\* is re-evaluated at every use when TLC evaluates a primed expression)
The(S)   == CHOOSE x \in S : TRUE
RecKeys  == {k \in NT \X NT \X OkTypes : k[1] = k[2] \/ k[1] \in Anc(k[2])}

VARIABLES now, roots, ns, supply, bal, idx, rec, soa, price, ev
store == <<roots, ns, supply, bal, idx, rec, soa, price>>
vars  == <<now, roots, ns, supply, bal, idx, rec, soa, price, ev>>

NoName == [ex |-> FALSE, owner |-> Nil, admin |-> Nil, exp |-> 0, ob |-> FALSE]
NoSoa  == [ex |-> FALSE, mail |-> Nil, serial |-> 0, e |-> 0]

NoNtf == <<>>
Ntf(k, n, a, b, x, y) == [k |-> k, n |-> n, a |-> a, b |-> b, x |-> x, y |-> y]

Event(act, S, via, n, o, m, x, ty, d, res, ret, retn, ntf) ==
  [act |-> act, S |-> S, via |-> via, n |-> n, o |-> o, m |-> m, x |-> x, ty |-> ty, d |-> d,
   res |-> res, ret |-> ret, retn |-> retn, ntf |-> ntf]

\* witnesses of the transaction: the signers, plus the helper contract when it is the caller
Wit(S, via) == IF via THEN S \cup {KC} ELSE S

(***************************************************************************)
(* helpers over a name table NS at time t (used with the raw table and     *)
(* with the reference table of the properties)                             *)
(***************************************************************************)
AliveIn(NS, t, n) == NS[n].ex /\ t < NS[n].exp
AncOK(NS, t, n)   == \A s \in Anc(n) : AliveIn(NS, t, s)      \* ~parentExpired(ctx, 1, fragments(n))
ChainOK(NS, t, n) == AliveIn(NS, t, n) /\ AncOK(NS, t, n)

\* tokenIDFromName: the longest suffix (TLD excluded) that is registered and unexpired, else the name
TokenIn(NS, t, n) ==
  LET s == Sufs(n)
      c == {i \in 1..(Len(s) - 1) : AliveIn(NS, t, s[i])}
  IN  IF c = {} THEN n ELSE s[CHOOSE i \in c : \A j \in c : i <= j]

\* NameState.checkAdmin
AdminOK(st, W) ==
  IF st.owner = Nil THEN "CMT" \in W
  ELSE st.owner \in W \/ (st.admin # Nil /\ st.admin \in W)

Token(n) == TokenIn(ns, now, n)
\* getFragmentedNameState(tok, fragments of f): entry exists, unexpired, parents of f alive
StateOK(tok, f) == AliveIn(ns, now, tok) /\ AncOK(ns, now, f)

\* getParentConflictingRecord: the parent's token holds records of names strictly below n
ConflictIn(R, n) ==
  Par[n] \in NT /\ \E k \in RecKeys : k[1] = Par[n] /\ k[2] \in Below(n) /\ R[k] # <<>>

Range(s) == {s[i] : i \in 1..Len(s)}

(***************************************************************************)
(* Methods                                                                 *)
(***************************************************************************)
Fault(act, S, via, n, o, m, x, ty, d) ==
  /\ now' = now + 1 /\ UNCHANGED <<roots, ns, supply, bal, idx, rec, soa, price>>
  /\ ev' = Event(act, S, via, n, o, m, x, ty, d, "FAULT", "null", 0, NoNtf)

Halt(act, S, via, n, o, m, x, ty, d, ret, retn, ntf) ==
  ev' = Event(act, S, via, n, o, m, x, ty, d, "HALT", ret, retn, ntf)

\* time passes (an empty block at instant now + d - 1, d >= 1)
Tick(d) ==
  /\ now' = now + d
  /\ UNCHANGED store
  /\ Halt("tick", {}, FALSE, Nil, Nil, Nil, d, Nil, Nil, "null", 0, NoNtf)

\* updateBalance(acc, -1) / (acc, +1)
Dec(B, o) == [B EXCEPT ![o] = @ - 1]
Inc(B, o) == [B EXCEPT ![o] = @ + 1]

\* runtime.BurnGas(g): FAULTs unless g is positive ("GAS must be positive") and fits the GAS that is left to the
\* transaction ("GAS limit exceeded").  GasCap is the system fee the driver attaches at most; what the call consumes
\* besides the burnt GAS stays far below 10 GAS, and the driver generates no burn within 10 GAS below the cap
BurnOK(g) == g > 0 /\ g <= GasCap

\* SetPrice(price): committee only, 0..maxRegisterPrice
SetPrice(S, via, p) ==
  LET W == Wit(S, via) IN
  IF "CMT" \in W /\ p >= 0 /\ p <= MaxPrice
  THEN /\ price' = p
       /\ now' = now + 1 /\ UNCHANGED <<roots, ns, supply, bal, idx, rec, soa>>
       /\ Halt("setPrice", S, via, Nil, Nil, Nil, p, Nil, Nil, "null", 0, NoNtf)
  ELSE Fault("setPrice", S, via, Nil, Nil, Nil, p, Nil, Nil)

\* RegisterTLD(name, email, refresh, retry, expire, ttl): nothing is burnt for a TLD (the price is not read)
RegisterTLD(S, via, n, m, x) ==
  LET W == Wit(S, via) IN
  IF /\ "CMT" \in W
     /\ Level(n) = 1
     /\ ~(n \in roots /\ AliveIn(ns, now, n))
  THEN /\ roots' = roots \cup {n}
       /\ ns' = [ns EXCEPT ![n] = [ex |-> TRUE, owner |-> Nil, admin |-> Nil, exp |-> now + x, ob |-> FALSE]]
       /\ soa' = [soa EXCEPT ![n] = [ex |-> TRUE, mail |-> m, serial |-> now, e |-> x]]
       /\ now' = now + 1 /\ UNCHANGED <<supply, bal, idx, rec, price>>
       /\ Halt("registerTLD", S, via, n, Nil, m, x, Nil, Nil, "null", 0, NoNtf)
  ELSE Fault("registerTLD", S, via, n, Nil, m, x, Nil, Nil)

\* Register(name, owner, email, refresh, retry, expire, ttl).  After all checks of the caller and before the
\* look at the name's own state the method burns GetPrice() GAS: with price 0 every registration of a
\* non-TLD name FAULTs (also the one of a taken name that would return false), with a price above the
\* transaction's GAS as well
Register(S, via, n, o, m, x) ==
  LET W == Wit(S, via) IN
  IF /\ Level(n) > 1
     /\ TLDOf(n) \in roots
     /\ AncOK(ns, now, n)
     /\ Level(n) > 2 => AdminOK(ns[Par[n]], W)
     /\ ~ConflictIn(rec, n)
     /\ o \in W
     /\ BurnOK(price)
  THEN IF AliveIn(ns, now, n)
       THEN /\ now' = now + 1 /\ UNCHANGED <<roots, ns, supply, bal, idx, rec, soa, price>>
            /\ Halt("register", S, via, n, o, m, x, Nil, Nil, "false", 0, NoNtf)
       ELSE LET old == IF ns[n].ex THEN ns[n].owner ELSE Nil
                b1  == IF ns[n].ex THEN Dec(bal, old) ELSE bal
                i1  == IF ns[n].ex THEN idx \ {<<old, n>>} ELSE idx
            IN  /\ supply' = IF ns[n].ex THEN supply ELSE supply + 1
                /\ ns' = [ns EXCEPT ![n] = [ex |-> TRUE, owner |-> o, admin |-> Nil, exp |-> now + x, ob |-> FALSE]]
                /\ soa' = [soa EXCEPT ![n] = [ex |-> TRUE, mail |-> m, serial |-> now, e |-> x]]
                /\ bal' = Inc(b1, o)
                /\ idx' = i1 \cup {<<o, n>>}
                /\ now' = now + 1 /\ UNCHANGED <<roots, rec, price>>
                /\ Halt("register", S, via, n, o, m, x, Nil, Nil, "true", 0,
                        <<Ntf("Transfer", n, old, o, 1, 0)>>)
  ELSE Fault("register", S, via, n, o, m, x, Nil, Nil)

\* Transfer(to, tokenID, data): no parent check, only the name's own expiration.  `data` is only handed on to
\* onNEP11Payment.  enc = "buf" when the receiver hash arrives as a Buffer stack item: util.Equals(from, to)
\* compares a Buffer by reference, so a self-transfer then takes the path of a transfer to somebody else
\* (admin cleared, balance and index rewritten with the same values).  The item type survives in the
\* storage: std.Serialize keeps a Buffer owner a Buffer (ns[n].ob), so after a transfer with a Buffer
\* receiver every later self-transfer of the name - also one with a ByteString receiver - compares
\* unequal, until the owner is stored again from a ByteString (transfer, re-registration).
Encs == {Nil, "buf"}
Transfer(S, via, n, o, enc) ==
  LET W == Wit(S, via) IN
  IF Level(n) > 1 /\ AliveIn(ns, now, n)
  THEN LET from == ns[n].owner IN
       IF from \notin W
       THEN /\ now' = now + 1 /\ UNCHANGED <<roots, ns, supply, bal, idx, rec, soa, price>>
            /\ Halt("transfer", S, via, n, o, Nil, 0, Nil, enc, "false", 0, NoNtf)
       ELSE /\ IF from # o \/ enc = "buf" \/ ns[n].ob
               THEN /\ ns' = [ns EXCEPT ![n].owner = o, ![n].admin = Nil, ![n].ob = (enc = "buf")]
                    /\ bal' = Inc(Dec(bal, from), o)
                    /\ idx' = (idx \ {<<from, n>>}) \cup {<<o, n>>}
               ELSE UNCHANGED <<ns, bal, idx>>
            /\ now' = now + 1 /\ UNCHANGED <<roots, supply, rec, soa, price>>
            /\ Halt("transfer", S, via, n, o, Nil, 0, Nil, enc, "true", 0,
                    <<Ntf("Transfer", n, from, o, 1, 0)>>)
  ELSE Fault("transfer", S, via, n, o, Nil, 0, Nil, enc)

\* Renew(name, years): burns GetPrice() * years right after the range check of years, for TLDs as well
Renew(S, via, n, y) ==
  LET W  == Wit(S, via)
      ex == ns[n].exp + y * YEAR
  IN
  IF /\ y >= 1 /\ y <= 10
     /\ BurnOK(price * y)
     /\ StateOK(n, n)
     /\ AdminOK(ns[n], W)
     /\ Level(n) > 1 => ex <= now + 10 * YEAR
  THEN /\ ns' = [ns EXCEPT ![n].exp = ex]
       /\ now' = now + 1 /\ UNCHANGED <<roots, supply, bal, idx, rec, soa, price>>
       /\ Halt("renew", S, via, n, Nil, Nil, y, Nil, Nil, "int", ex, <<Ntf("Renew", n, Nil, Nil, ns[n].exp, ex)>>)
  ELSE Fault("renew", S, via, n, Nil, Nil, y, Nil, Nil)

\* SetAdmin(name, admin); admin = Nil clears it
SetAdmin(S, via, n, o) ==
  LET W == Wit(S, via) IN
  IF /\ Level(n) > 1
     /\ o # Nil => o \in W
     /\ StateOK(n, n)
     /\ ns[n].owner \in W
  THEN /\ ns' = [ns EXCEPT ![n].admin = o]
       /\ now' = now + 1 /\ UNCHANGED <<roots, supply, bal, idx, rec, soa, price>>
       /\ Halt("setAdmin", S, via, n, o, Nil, 0, Nil, Nil, "null", 0, <<Ntf("SetAdmin", n, ns[n].admin, o, 0, 0)>>)
  ELSE Fault("setAdmin", S, via, n, o, Nil, 0, Nil, Nil)

\* UpdateSOA(name, email, refresh, retry, expire, ttl)
UpdateSOA(S, via, n, m, x) ==
  LET W == Wit(S, via) IN
  IF StateOK(n, n) /\ AdminOK(ns[n], W)
  THEN /\ soa' = [soa EXCEPT ![n] = [ex |-> TRUE, mail |-> m, serial |-> now, e |-> x]]
       /\ now' = now + 1 /\ UNCHANGED <<roots, ns, supply, bal, idx, rec, price>>
       /\ Halt("updateSOA", S, via, n, Nil, m, x, Nil, Nil, "null", 0, NoNtf)
  ELSE Fault("updateSOA", S, via, n, Nil, m, x, Nil, Nil)

\* checkRecord: type supported, token is not a TLD, token state readable, admin of the token
RecordOK(n, ty, W) ==
  LET tok == Token(n) IN
  /\ ty \in OkTypes
  /\ Level(tok) > 1
  /\ StateOK(tok, tok)
  /\ AdminOK(ns[tok], W)

Touch(tok) == [soa EXCEPT ![tok].serial = now]       \* updateSoaSerial
\* updateSoaSerial splits the stored SOA data at spaces and panics unless there are exactly 7 parts: with an
\* e-mail that is empty or contains a space every record mutation under the name FAULTs (until updateSOA
\* stores another e-mail).  BadMails = the e-mails of that kind used by the driver.
BadMails  == {"", "a b"}
SoaOK(tok) == soa[tok].mail \notin BadMails

\* AddRecord(name, typ, data)
AddRecord(S, via, n, ty, d) ==
  LET W   == Wit(S, via)
      tok == Token(n)
  IN
  IF RecordOK(n, ty, W)
  THEN LET L == rec[<<tok, n, ty>>] IN
       IF d \notin Range(L) /\ Len(L) < MaxRec /\ (ty = "CNAME" => Len(L) = 0) /\ SoaOK(tok)
       THEN /\ rec' = [rec EXCEPT ![<<tok, n, ty>>] = Append(L, d)]
            /\ soa' = Touch(tok)
            /\ now' = now + 1 /\ UNCHANGED <<roots, ns, supply, bal, idx, price>>
            /\ Halt("addRecord", S, via, n, Nil, Nil, 0, ty, d, "null", 0, NoNtf)
       ELSE Fault("addRecord", S, via, n, Nil, Nil, 0, ty, d)
  ELSE Fault("addRecord", S, via, n, Nil, Nil, 0, ty, d)

\* SetRecord(name, typ, id, data).  The code has no duplicate check ("SetDuplicate" \in D); with the
\* switch off the operator describes the repaired method (a value already stored at another id is refused)
SetRecordD(D, S, via, n, ty, id, d) ==
  LET W   == Wit(S, via)
      tok == Token(n)
  IN
  IF RecordOK(n, ty, W)
  THEN LET L == rec[<<tok, n, ty>>] IN
       IF id >= 0 /\ id < Len(L) /\ ("SetDuplicate" \in D \/ \A i \in 1..Len(L) : i # id + 1 => L[i] # d) /\ SoaOK(tok)
       THEN /\ rec' = [rec EXCEPT ![<<tok, n, ty>>] = [L EXCEPT ![id + 1] = d]]
            /\ soa' = Touch(tok)
            /\ now' = now + 1 /\ UNCHANGED <<roots, ns, supply, bal, idx, price>>
            /\ Halt("setRecord", S, via, n, Nil, Nil, id, ty, d, "null", 0, NoNtf)
       ELSE Fault("setRecord", S, via, n, Nil, Nil, id, ty, d)
  ELSE Fault("setRecord", S, via, n, Nil, Nil, id, ty, d)

SetRecord(S, via, n, ty, id, d) == SetRecordD(Dev, S, via, n, ty, id, d)

\* DeleteRecords(name, typ): any type but SOA (an unknown type deletes nothing)
DeleteRecords(S, via, n, ty) ==
  LET W   == Wit(S, via)
      tok == Token(n)
  IN
  IF /\ ty # "SOA"
     /\ Level(tok) > 1
     /\ StateOK(tok, tok)
     /\ AdminOK(ns[tok], W)
     /\ SoaOK(tok)
  THEN /\ rec' = IF ty \in OkTypes THEN [rec EXCEPT ![<<tok, n, ty>>] = <<>>] ELSE rec
       /\ soa' = Touch(tok)
       /\ now' = now + 1 /\ UNCHANGED <<roots, ns, supply, bal, idx, price>>
       /\ Halt("deleteRecords", S, via, n, Nil, Nil, 0, ty, Nil, "null", 0, NoNtf)
  ELSE Fault("deleteRecords", S, via, n, Nil, Nil, 0, ty, Nil)

Init ==
  /\ now = 1
  /\ roots = InitTLDs
  /\ ns = [n \in Names |-> IF n \in InitTLDs THEN [ex |-> TRUE, owner |-> Nil, admin |-> Nil, exp |-> 10 * YEAR, ob |-> FALSE] ELSE NoName]
  /\ soa = [n \in Names |-> IF n \in InitTLDs THEN [ex |-> TRUE, mail |-> "ops", serial |-> 0, e |-> 10 * YEAR] ELSE NoSoa]
  /\ supply = 0
  /\ bal = [o \in Owners |-> 0]
  /\ idx = {}
  /\ rec = [k \in RecKeys |-> <<>>]
  /\ price = DefPrice
  /\ ev = Event("init", {}, FALSE, Nil, Nil, Nil, 0, Nil, Nil, "HALT", "null", 0, NoNtf)

Vias == IF KC \in Owners THEN BOOLEAN ELSE {FALSE}
DataFor(ty) == IF ty \in DOMAIN DataOf THEN DataOf[ty] ELSE {"x"}

\* P(X) = X for exhaustive checking, {RandomElement(X)} for scenario generation
NextOf(P(_), PS(_)) ==
  \/ \E d \in P(Ticks) : Tick(d)
  \/ \E S \in PS(SignerSets), v \in P(Vias), n \in P(Names \ NT), m \in P(Mails), x \in P(Expires) : RegisterTLD(S, v, n, m, x)
  \/ \E S \in PS(SignerSets), v \in P(Vias), n \in P(Names), o \in P(Owners), m \in P(Mails), x \in P(Expires) : Register(S, v, n, o, m, x)
  \/ \E S \in PS(SignerSets), v \in P(Vias), n \in P(NT), o \in P(Owners), c \in P(Encs) : Transfer(S, v, n, o, c)
  \/ \E S \in PS(SignerSets), v \in P(Vias), n \in P(Names), y \in P(Years) : Renew(S, v, n, y)
  \/ \E S \in PS(SignerSets), v \in P(Vias), n \in P(NT), o \in P(Owners \cup {Nil}) : SetAdmin(S, v, n, o)
  \/ \E S \in PS(SignerSets), v \in P(Vias), n \in P(Names), m \in P(Mails), x \in P(Expires) : UpdateSOA(S, v, n, m, x)
  \/ \E S \in PS(SignerSets), v \in P(Vias), n \in P(NT), ty \in P(RTypes) : \E d \in P(DataFor(ty)) : AddRecord(S, v, n, ty, d)
  \/ \E S \in PS(SignerSets), v \in P(Vias), n \in P(NT), ty \in P(RTypes), i \in P(Ids) : \E d \in P(DataFor(ty)) : SetRecord(S, v, n, ty, i, d)
  \/ \E S \in PS(SignerSets), v \in P(Vias), n \in P(NT), ty \in P(RTypes) : DeleteRecords(S, v, n, ty)
  \/ \E S \in PS(SignerSets), v \in P(Vias), p \in P(Prices) : SetPrice(S, v, p)

All(X) == X
Next == NextOf(All, All)
Spec == Init /\ [][Next]_vars

-----------------------------------------------------------------------------
(***************************************************************************)
(* The read API as a function of the storage (safe methods).  D is the set *)
(* of deviation switches.  Answers have the form [ok, v]: ok = FALSE is a  *)
(* FAULT.  The same record shape is produced by the Go observer.           *)
(***************************************************************************)
FailB == [ok |-> FALSE, v |-> FALSE]
FailS == [ok |-> FALSE, v |-> Nil]
FailL == [ok |-> FALSE, v |-> <<>>]
FailP == [ok |-> FALSE, exp |-> 0, admin |-> Nil]
FailA == [ok |-> FALSE, mail |-> Nil, serial |-> 0, e |-> 0]

\* IsAvailable (non-TLD names)
MAvail(n) ==
  IF TLDOf(n) \notin roots THEN FailB
  ELSE IF ChainOK(ns, now, n) THEN [ok |-> TRUE, v |-> FALSE]
  ELSE [ok |-> TRUE, v |-> ~ConflictIn(rec, n)]

MOwner(n) == IF ns[n].ex /\ StateOK(n, n) THEN [ok |-> TRUE, v |-> ns[n].owner] ELSE FailS
MProps(n) == IF ns[n].ex /\ StateOK(n, n) THEN [ok |-> TRUE, exp |-> ns[n].exp, admin |-> ns[n].admin] ELSE FailP

\* GetRecords / GetAllRecords pass the fragments of the *name* to the parent check
\* ("ReadFragments": the deviation of DESIGN 5.4 row 8); the repaired code passes the token's
ReadOK(D, n) ==
  LET tok == Token(n) IN
  IF "ReadFragments" \in D THEN StateOK(tok, n) ELSE StateOK(tok, tok)

MGet(D, n, ty) == IF ReadOK(D, n) THEN [ok |-> TRUE, v |-> rec[<<Token(n), n, ty>>]] ELSE FailL
MSoa(D, n) ==
  IF ReadOK(D, n)
  THEN IF Token(n) = n /\ soa[n].ex THEN [ok |-> TRUE, mail |-> soa[n].mail, serial |-> soa[n].serial, e |-> soa[n].e]
       ELSE [ok |-> TRUE, mail |-> Nil, serial |-> 0, e |-> 0]
  ELSE FailA

\* all records of (token, name) in storage order, as <<type, data>>; the SOA data is abstracted to "SOA"
RECURSIVE AllFrom(_, _, _)
AllFrom(tok, n, i) ==
  IF i > Len(TypeSeq) THEN <<>>
  ELSE LET ty == TypeSeq[i]
           me == IF ty = "SOA" THEN (IF tok = n /\ soa[n].ex THEN <<[ty |-> "SOA", d |-> "SOA"]>> ELSE <<>>)
                 ELSE [j \in 1..Len(rec[<<tok, n, ty>>]) |-> [ty |-> ty, d |-> rec[<<tok, n, ty>>][j]]]
       IN  me \o The({AllFrom(tok, n, j) : j \in {i + 1}})
MAll(D, n) == IF ReadOK(D, n) THEN [ok |-> TRUE, v |-> The({AllFrom(tok, n, 1) : tok \in {Token(n)}})] ELSE FailL

\* resolve(ctx, res, name, typ, redirect): getAllRecords(ctx, name, nil) uses the token's fragments
RECURSIVE MRes(_, _, _, _)
MRes(n, ty, k, acc) ==
  IF k < 0 \/ n \notin NT THEN FailL
  ELSE LET tok == Token(n) IN
       IF ~StateOK(tok, tok) THEN FailL
       ELSE LET mine == rec[<<tok, n, ty>>]
                cn   == rec[<<tok, n, "CNAME">>]
            IN  IF cn = <<>> \/ ty = "CNAME" THEN [ok |-> TRUE, v |-> acc \o mine]
                ELSE The({MRes(x, ty, k - 1, a) : x \in {cn[Len(cn)]}, a \in {acc \o mine}})

\* GetPrice
MPrice == price

ApiModel(D) ==
  [supply |-> supply,
   bal    |-> bal,
   toks   |-> [o \in Owners |-> {p[2] : p \in {q \in idx : q[1] = o}}],
   roots  |-> roots,
   avail  |-> [n \in NT |-> MAvail(n)],
   owner  |-> [n \in NT |-> MOwner(n)],
   props  |-> [n \in NT |-> MProps(n)],
   get    |-> [n \in NT |-> [ty \in OkTypes |-> MGet(D, n, ty)]],
   soa    |-> [n \in NT |-> MSoa(D, n)],
   all    |-> [n \in NT |-> MAll(D, n)],
   res    |-> [n \in NT |-> [ty \in OkTypes |-> MRes(n, ty, 2, <<>>)]],
   resdot |-> [n \in NT |-> MRes(n, "A", 2, <<>>)],
   price  |-> MPrice]

-----------------------------------------------------------------------------
(***************************************************************************)
(* Properties.  They are judged against a reference machine G that is      *)
(* driven only by the invocations and their outcomes (never by the         *)
(* storage): G.reg[n] = [ex, owner, admin, exp] and G.rec[<<tok,n,ty>>].   *)
(* Predicates take the invocation e (= ev'), the time t of the step        *)
(* (= now'), the reference state before (G) and after (H = GNext) and the  *)
(* API answers observed after the step (api).                              *)
(***************************************************************************)
GInit ==
  [reg |-> [n \in Names |-> IF n \in InitTLDs THEN [ex |-> TRUE, owner |-> Nil, admin |-> Nil, exp |-> 10 * YEAR, ob |-> FALSE] ELSE NoName],
   rec |-> [k \in RecKeys |-> <<>>]]

Ok(e)     == e.res = "HALT"
GTok(G, t, n) == TokenIn(G.reg, t, n)
GKey(G, t, e) == <<GTok(G, t, e.n), e.n, e.ty>>

GNext(G, e, t) ==
  IF ~Ok(e) THEN G
  ELSE CASE e.act = "registerTLD" ->
              [G EXCEPT !.reg[e.n] = [ex |-> TRUE, owner |-> Nil, admin |-> Nil, exp |-> t + e.x, ob |-> FALSE]]
         [] e.act = "register" /\ e.ret = "true" ->
              [G EXCEPT !.reg[e.n] = [ex |-> TRUE, owner |-> e.o, admin |-> Nil, exp |-> t + e.x, ob |-> FALSE]]
         [] e.act = "transfer" /\ e.ret = "true" /\ (G.reg[e.n].owner # e.o \/ e.d = "buf" \/ G.reg[e.n].ob) ->
              \* (a self-transfer whose receiver arrives as a Buffer is handled as a transfer to somebody else:
              \*  the statement's "transfer clears the admin" holds literally, see Transfer)
              [G EXCEPT !.reg[e.n].owner = e.o, !.reg[e.n].admin = Nil, !.reg[e.n].ob = (e.d = "buf")]
         [] e.act = "renew" ->
              [G EXCEPT !.reg[e.n].exp = @ + e.x * YEAR]
         [] e.act = "setAdmin" ->
              [G EXCEPT !.reg[e.n].admin = e.o]
         [] e.act = "addRecord" /\ GKey(G, t, e) \in RecKeys ->
              [G EXCEPT !.rec[GKey(G, t, e)] = Append(@, e.d)]
         [] e.act = "setRecord" /\ GKey(G, t, e) \in RecKeys /\ e.x >= 0 /\ e.x < Len(G.rec[GKey(G, t, e)]) ->
              [G EXCEPT !.rec[GKey(G, t, e)] = [@ EXCEPT ![e.x + 1] = e.d]]
         [] e.act = "deleteRecords" /\ GKey(G, t, e) \in RecKeys ->
              [G EXCEPT !.rec[GKey(G, t, e)] = <<>>]
         [] OTHER -> G

GConflict(G, n) == ConflictIn(G.rec, n)

\* ---------------------------------------------------------------- C10 ----
RECURSIVE SumF(_, _)
SumF(f, D) == IF D = {} THEN 0 ELSE The({f[x] + SumF(f, D \ {x}) : x \in {CHOOSE y \in D : TRUE}})

\* totalSupply = number of non-TLD names ever registered = sum of balanceOf
C10_Supply(H, api) ==
  /\ api.supply = Cardinality({n \in NT : H.reg[n].ex})
  /\ SumF(api.bal, Owners) = api.supply
\* tokensOf(o) lists exactly the names currently recorded for o (api.toks is the set of the listed
\* names; duplicates are reported by the observer)
C10_Index(H, api) == \A o \in Owners : api.toks[o] = {n \in NT : H.reg[n].ex /\ H.reg[n].owner = o}
\* unavailable from registration until expiration, available again from that instant (for names whose
\* parents are alive; a conflict with records held by the parent is C12's business)
C10_Avail(H, t, api) ==
  \A n \in NT : AncOK(H.reg, t, n) /\ ~GConflict(H, n) =>
      api.avail[n].ok /\ (api.avail[n].v <=> ~AliveIn(H.reg, t, n))
\* a registration succeeds only on a name that is not (any longer) taken
C10_RegisterFree(G, e, t) ==
  e.act = "register" /\ Ok(e) /\ e.ret = "true" => ~AliveIn(G.reg, t, e.n)
\* renew: whole years (by construction of GNext), never beyond ten years ahead for non-TLD names,
\* and the method returns the new expiration
C10_Renew(H, e, t) ==
  e.act = "renew" /\ Ok(e) =>
     /\ e.x \in 1..10
     /\ e.retn = H.reg[e.n].exp
     /\ e.n \in NT => H.reg[e.n].exp <= t + 10 * YEAR
\* ownerOf/properties answer (correctly) for names whose whole chain is unexpired and do not answer
\* when a parent is expired; for an expired name under live parents an answer, if any, is the recorded one
C10_ChainAlive(H, t, api) ==
  \A n \in NT :
     LET st == H.reg[n]
         good == /\ api.owner[n].ok /\ api.owner[n].v = st.owner
                 /\ api.props[n].ok /\ api.props[n].exp = st.exp /\ api.props[n].admin = st.admin
         none == ~api.owner[n].ok /\ ~api.props[n].ok
     IN  IF ChainOK(H.reg, t, n) THEN good
         ELSE IF ~AncOK(H.reg, t, n) \/ ~st.ex THEN none
         ELSE good \/ none
\* exactly one Transfer(from, to, 1, name) per change of ownership; a NEP-11 self-transfer and the
\* re-registration of an expired name by its old owner may be announced (from = to) as well
C10_Announced(G, H, e) ==
  LET T    == SelectSeq(e.ntf, LAMBDA x : x.k = "Transfer")
      must == {n \in NT : H.reg[n].ex /\ (~G.reg[n].ex \/ G.reg[n].owner # H.reg[n].owner)}
      Cnt(n) == Cardinality({i \in 1..Len(T) : T[i].n = n})
  IN  /\ \A n \in must : Cnt(n) = 1
      /\ \A i \in 1..Len(T) :
           /\ T[i].n \in NT /\ Cnt(T[i].n) = 1 /\ T[i].x = 1
           /\ \/ /\ T[i].n \in must
                 /\ T[i].a = (IF G.reg[T[i].n].ex THEN G.reg[T[i].n].owner ELSE Nil)
                 /\ T[i].b = H.reg[T[i].n].owner
              \/ /\ e.act \in {"transfer", "register"} /\ Ok(e) /\ e.ret = "true" /\ T[i].n = e.n
                 /\ G.reg[e.n].ex /\ G.reg[e.n].owner = H.reg[e.n].owner
                 /\ T[i].a = T[i].b /\ T[i].b = H.reg[e.n].owner

\* ---------------------------------------------------------------- C11 ----
GAdminOK(G, n, W) == n \in Names /\ G.reg[n].ex /\ AdminOK(G.reg[n], W)

MayDo(G, e, t) ==
  LET W == Wit(e.S, e.via) IN
  CASE e.act \in {"addRecord", "setRecord", "deleteRecords"} -> GAdminOK(G, GTok(G, t, e.n), W)
    [] e.act \in {"updateSOA", "renew"} -> GAdminOK(G, e.n, W)
    [] e.act = "transfer" -> G.reg[e.n].ex /\ G.reg[e.n].owner # Nil /\ G.reg[e.n].owner \in W
    [] e.act = "setAdmin" -> G.reg[e.n].ex /\ G.reg[e.n].owner # Nil /\ G.reg[e.n].owner \in W /\ (e.o # Nil => e.o \in W)
    [] e.act = "registerTLD" -> "CMT" \in W
    [] e.act = "register" ->
         IF Level(e.n) = 1 THEN FALSE
         ELSE IF Level(e.n) = 2 THEN e.o \in W
         ELSE GAdminOK(G, Par[e.n], W)
    [] OTHER -> TRUE

\* every unauthorised attempt leaves the NNS state unchanged (storage before = after, nothing announced)
C11_UnauthorisedInert(G, e, t) ==
  ~MayDo(G, e, t) => UNCHANGED store /\ e.ntf = NoNtf /\ e.ret # "true"

\* ---------------------------------------------------------------- C12 ----
Mutation(e) == e.act \in {"addRecord", "setRecord", "deleteRecords"} /\ Ok(e)
Distinct(L) == \A i, j \in 1..Len(L) : i # j => L[i] # L[j]
WellFormed(R) == \A k \in RecKeys : Len(R[k]) <= 16 /\ Distinct(R[k]) /\ (k[3] = "CNAME" => Len(R[k]) <= 1)

\* per name and type at most 16 distinct values, at most one CNAME (this step does not break it)
C12_Lists(G, H) == WellFormed(G.rec) => WellFormed(H.rec)
\* successful operations are the ones the statement describes: add appends a new value, set addresses
\* an existing index, delete never touches SOA, and there is an enclosing registered name to hold the record
C12_Ops(G, e, t) ==
  Mutation(e) =>
     /\ e.ty # "SOA"
     /\ e.act # "deleteRecords" => e.ty \in OkTypes
     /\ e.ty \in OkTypes => GKey(G, t, e) \in RecKeys /\ AliveIn(G.reg, t, GTok(G, t, e.n))
     /\ e.act = "setRecord" /\ e.ty \in OkTypes /\ GKey(G, t, e) \in RecKeys => e.x >= 0 /\ e.x < Len(G.rec[GKey(G, t, e)])
\* every mutation refreshes the SOA serial of the name the records live under (t = instant of the
\* transaction, rt = instant of the read; nothing is readable once the name has expired)
C12_Serial(G, e, t, rt, api) ==
  Mutation(e) /\ GTok(G, t, e.n) \in NT /\ ChainOK(G.reg, rt, GTok(G, t, e.n)) =>
     api.soa[GTok(G, t, e.n)].ok /\ api.soa[GTok(G, t, e.n)].mail # Nil /\ api.soa[GTok(G, t, e.n)].serial = t

\* what a read of (n, ty) must show: the list held under the longest registered enclosing name.
\* Unreachable (token or one of its parents expired / nothing registered): no answer or nothing.
\* Nothing recorded: an empty answer or no answer.
Shows(ans, L, reachable) ==
  IF ~reachable THEN ~ans.ok \/ ans.v = <<>>
  ELSE IF L = <<>> THEN ~ans.ok \/ ans.v = <<>>
  ELSE ans.ok /\ ans.v = L

GReach(H, t, n) == ChainOK(H.reg, t, GTok(H, t, n))
GList(H, t, n, ty) == H.rec[<<GTok(H, t, n), n, ty>>]

C12_Get(H, t, api) ==
  \A n \in NT, ty \in OkTypes : Shows(api.get[n][ty], GList(H, t, n, ty), GReach(H, t, n))
C12_GetAll(H, t, api) ==
  \A n \in NT, ty \in OkTypes :
     Shows([ok |-> api.all[n].ok,
            v  |-> LET s == SelectSeq(api.all[n].v, LAMBDA r : r.ty = ty) IN [i \in 1..Len(s) |-> s[i].d]],
           GList(H, t, n, ty), GReach(H, t, n))

\* reference resolution: [kind, v]; kind = "ok" (chain ended after `links` links), "dead" (a name on the
\* chain is unreachable), "long" (more than 4 names visited: 4+ links or a cycle)
RECURSIVE GRes(_, _, _, _, _, _)
GRes(H, t, n, ty, links, acc) ==
  IF links > 3 THEN [kind |-> "long", links |-> links, v |-> acc]
  ELSE IF n \notin NT \/ ~GReach(H, t, n) THEN [kind |-> "dead", links |-> links, v |-> acc]
  ELSE LET mine == GList(H, t, n, ty)
           cn   == GList(H, t, n, "CNAME")
       IN  IF cn = <<>> \/ ty = "CNAME" THEN [kind |-> "ok", links |-> links, v |-> acc \o mine]
           ELSE The({GRes(H, t, x, ty, links + 1, a) : x \in {cn[Len(cn)]}, a \in {acc \o mine}})

C12_ResolveOne(H, t, n, ty, ans) ==
  \A r \in {GRes(H, t, n, ty, 0, <<>>)} :
  CASE r.kind = "long" -> ~ans.ok                                 \* four or more links, cycles: must fail
    [] r.kind = "ok" /\ r.links <= 2 -> Shows(ans, r.v, TRUE)     \* up to two links: exactly the records
    [] r.kind = "dead" /\ r.links = 0 -> ~ans.ok \/ ans.v = <<>>  \* expired / unregistered: unreachable
    [] OTHER -> TRUE                                              \* three links, dangling targets: unspecified
C12_Resolve(H, t, api) == \A n \in NT, ty \in OkTypes : C12_ResolveOne(H, t, n, ty, api.res[n][ty])
\* a trailing dot changes nothing
C12_ResolveDot(api) == \A n \in NT : api.resdot[n] = api.res[n]["A"]

\* a name cannot be registered while its parent holds records for sub-names of it
C12_RegisterConflict(G, e) ==
  e.act = "register" /\ Ok(e) /\ e.ret = "true" => ~GConflict(G, e.n)

\* ---------------------------------------------------------------- X03 ----
\* (extension, not one of the listed properties) the registration price.  pb / pa = the answer of getPrice()
\* before / after the step.  C10/C11/C12 say nothing about the price: a register or renew that FAULTs
\* because of the price is a refused step for them (GNext leaves G as it is, nothing may have changed).
PriceSet(e) == e.act = "setPrice" /\ Ok(e)
\* setPrice without the witness of the committee or with a price outside 0..maxRegisterPrice changes nothing
X03_PriceGate(e, pb, pa) ==
  e.act = "setPrice" /\ ("CMT" \notin Wit(e.S, e.via) \/ e.x < 0 \/ e.x > MaxPrice) =>
     pa = pb /\ UNCHANGED store /\ e.ntf = NoNtf
\* after a successful setPrice(p) getPrice() answers p, and the answer stays until the next successful setPrice
X03_PriceStored(e, pb, pa) == IF PriceSet(e) THEN pa = e.x ELSE pa = pb
\* what the code does while the price is 0: runtime.BurnGas(0) FAULTs, so no non-TLD name can be registered
\* and nothing (TLDs included) can be renewed; registerTLD does not read the price
X03_RegisterNeedsPrice(e, pb) ==
  pb = 0 /\ e.act \in {"register", "renew"} => ~Ok(e) /\ UNCHANGED store /\ e.ntf = NoNtf

=============================================================================
