--------------------------- MODULE MainChainGasTrace ---------------------------
(***************************************************************************)
(* Trace monitor for C19: evaluates the GAS-accounting predicates of       *)
(* MainChainGas (deciding) and its method transcriptions (binding) on      *)
(* executions of the real NeoFS / Processing / Proxy / Alphabet contracts  *)
(* recorded by harness/mainchain (VERIF_MC_FAM=gas).  Amounts are 3-limb   *)
(* numbers in base 10^6 computed by the driver from the exact balances.    *)
(***************************************************************************)
EXTENDS MainChainGas, Json, SequencesExt

CONSTANT TraceFile

VARIABLES l, rd
tvars == <<notary, dep, gas, neo, wfee, cfee, cands, irN, ballots, cur, ev, l, rd>>

Trace == ndJsonDeserialize(TraceFile)

M_Unit  == <<0, 100, 0>>
M_Users == {"u1", "u2"}
M_Cands == {"c1", "c2"}
M_KeyU  == {"k1", "k2", "k3", "k4"}
M_KeySeq == <<"k1", "k2", "k3", "k4">>
M_Ids   == {"i1", "i2"}
M_FeeIds == {"j1"}
M_AlphaIds == {"a1"}
M_IRSeq == <<"r1", "r2", "r3", "r4", "r5", "r6", "r7">>
M_Empty == {}

MintOf(r) == [a \in Acct |-> r.mint[a]]
EvOf(r) == Event(r.act, ToSet(r.S), r.u, r.v, r.amt, r.w, r.k, r.id, r.gap, MintOf(r), r.res, r.ret, r.ntf)

Flag(ok, prop, pred, r, tags) ==
  IF ok THEN TRUE
  ELSE PrintT("FLAG|" \o ToString(l + 1) \o "|" \o prop \o "|" \o pred \o "|" \o r.act \o "|" \o ToString(r.t)
              \o "|" \o ToString(tags))

Tags(r) == {}

SpecStep(r) == Apply(EvOf(r))

Judge(r) ==
  LET e == EvOf(r)
      t == Tags(r)
  IN  /\ Flag(C19_Deposit(e), "C19", "Deposit", r, t)
      /\ Flag(C19_WithdrawFee(e), "C19", "WithdrawFee", r, t)
      /\ Flag(C19_ChequePays(rd, e), "C19", "ChequePays", r, t)
      /\ Flag(C19_ChequeAccepted(e), "C19", "ChequeAccepted", r, t)
      /\ Flag(C19_FeeApproved(rd, e), "C19", "FeeApproved", r, t)
      /\ Flag(C19_CandidateFee(e), "C19", "CandidateFee", r, t)
      /\ Flag(C19_Conservation(e), "C19", "Conservation", r, t)
      /\ Flag(C19_EmitOnlyOwnNode(e), "C19", "EmitOnlyOwnNode", r, t)
      /\ Flag(C19_EmitSplit(e), "C19", "EmitSplit", r, t)
      /\ Flag(C19_OnlyGAS(e), "C19", "OnlyGAS", r, t)
      /\ Flag(C19_NoOtherMoves(e), "C19", "NoOtherMoves", r, t)
      /\ Flag(r.bad = <<>> /\ r.obs.stray = <<>>, "DRIFT", "Mapped", r, t)
      /\ Flag(r.obs.candsApi = r.obs.cands, "DRIFT", "RawApi", r, t)
      /\ Flag(SpecStep(r), "DRIFT", "SpecStep", r, t)

TraceInit ==
  /\ l = 0
  /\ notary = TRUE /\ dep = [skeys |-> {}, nc |-> 0, aidx |-> 0]
  /\ gas = [a \in Acct |-> Z] /\ neo = [a \in NeoAcct |-> 0]
  /\ wfee = Z /\ cfee = Z /\ cands = {} /\ irN = 0 /\ ballots = <<>> /\ cur = 0
  /\ ev = InvG("init", {}, Nil, Nil, Z, 0, Nil, Nil, 0, NoMint)
  /\ rd = RdInit

TraceNext ==
  /\ l < Len(Trace)
  /\ l' = l + 1
  /\ LET r == Trace[l + 1]
         o == r.obs
     IN  /\ gas' = [a \in Acct |-> o.gas[a]]
         /\ neo' = [a \in NeoAcct |-> o.neo[a]]
         /\ wfee' = o.wfee /\ cfee' = o.cfee
         /\ cands' = ToSet(o.cands)
         /\ irN' = o.irN
         /\ ballots' = o.bl /\ cur' = r.h
         /\ ev' = EvOf(r)
         /\ IF r.act = "reset"
            THEN notary' = r.notary /\ dep' = [skeys |-> ToSet(r.skeys), nc |-> r.nc, aidx |-> r.idx] /\ rd' = RdInit
            ELSE notary' = o.notary /\ UNCHANGED dep /\ rd' = RdNext(rd, ev') /\ Judge(r)
         /\ IF l' = Len(Trace) THEN PrintT("DONE|" \o ToString(l')) ELSE TRUE

TraceSpec == TraceInit /\ [][TraceNext]_tvars
=============================================================================
