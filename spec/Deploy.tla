------------------------------- MODULE Deploy -------------------------------
(***************************************************************************)
(* Design-level specification of the committee-coordinated deployment      *)
(* procedure /repo/deploy (deploy.Deploy run by each of N committee        *)
(* members against one chain), property C13.                               *)
(*                                                                         *)
(* One Tick(i) is one iteration of the polling loop of the stage member i  *)
(* is in (deploy.go:170-645: NNS, Notary bootstrap, initial transfer,      *)
(* Alphabet role, Proxy, Proxy funding, candidate registration, the other  *)
(* system contracts, one Alphabet contract per member, NEO distribution).  *)
(* A loop iteration reads the chain, returns when its goal is visible,     *)
(* sends at most one transaction / notary request guarded by its           *)
(* transactionGroupMonitor (util.go:152-185), or waits.  Include(tx) is    *)
(* the execution of one pooled transaction in a block, NotarySign(j,r) the *)
(* background listener of member j co-signing a notary request             *)
(* (notary.go:1021-1251), Cancel/Restart the interruption of a run and a   *)
(* fresh run of the same member, Start the late arrival of a member that   *)
(* was absent during the Notary bootstrap.                                 *)
(*                                                                         *)
(* System contracts are numbered 1..K in deployment order (1 is Proxy; the *)
(* contracts in WitnessC are deployed through a notary request witnessed   *)
(* by the validators like Balance and Container); contract K+1+i is the    *)
(* Alphabet contract of member i.  A contract on chain is the pair         *)
(* <<number, deployer>>: its address is a function of the deployer, the    *)
(* executable and the manifest name (state.CreateContractHash), so the     *)
(* ledger refuses a second deployment of the same pair.                    *)
(*                                                                         *)
(* The Notary bootstrap is abstract here (shared data published by the     *)
(* leader, one signature record per signer, designation once Maj-1 remote  *)
(* signatures are readable); DeployNotary.tla refines it with the code's   *)
(* data and index arithmetic.  The deviation switch "IndexShift" makes the *)
(* leader read the signature domains 0..N-2 as the code does               *)
(* (notary.go:390-391) instead of 1..N-1.                                  *)
(*                                                                         *)
(* Lossy delivery: Lose(t) / LoseReq(r) / LoseSign(j,r) drop a submitted   *)
(* transaction, notary request or co-signature before it has any effect    *)
(* (at most MaxLoss times, no fairness: finitely many losses).  The        *)
(* procedure is designed to re-send: the transactionGroupMonitor of the    *)
(* stage is reset when the tracked transactions pass their ValidUntilBlock *)
(* unconfirmed (util.go:178-184), so here a lost submission is simply no   *)
(* longer pending.  The deviation switch "StickyPending" describes a       *)
(* monitor that stays pending after such an expiry.                        *)
(***************************************************************************)
EXTENDS Integers, Sequences, FiniteSets, TLC, DeployProps

CONSTANTS
  N,          \* committee size
  K,          \* number of system contracts deployed by the leader (>= 1)
  WitnessC,   \* subset of 2..K: contracts whose deployment needs the validators' witness
  MaxCancel,  \* total number of cancellations explored
  Absent,     \* members that start only after the Notary role is designated
  MaxRerun,   \* number of re-runs on the finished chain explored
  LastStage,  \* the run is cut after this many stages (0 = the whole procedure); 2 = NNS and Notary bootstrap only
  MaxLoss,    \* number of submissions that are accepted by the node's front end but never reach the pool
  Dev         \* deviation switches: subset of {"IndexShift", "StickyPending"}

Members   == 0..(N - 1)
Leader    == 0
Maj       == N - ((N - 1) \div 2)     \* smartcontract.GetMajorityHonestNodeCount
Val       == N - ((N - 1) \div 3)     \* smartcontract.GetDefaultHonestNodeCount
Contracts == 1..(K + N)
AlphaC(i) == K + 1 + i
Deployer(c) == IF c <= K THEN Leader ELSE c - K - 1

\* the stage sequence of one run
Prog == <<[op |-> "nns", c |-> 0], [op |-> "ntr", c |-> 0], [op |-> "fund", c |-> 0], [op |-> "alp", c |-> 0],
          [op |-> "sync", c |-> 1], [op |-> "pgas", c |-> 0], [op |-> "cand", c |-> 0]>>
        \o [k \in 1..(K + N - 1) |-> [op |-> "sync", c |-> k + 1]]
        \o <<[op |-> "neo", c |-> 0]>>
DonePc == IF LastStage = 0 THEN Len(Prog) + 1 ELSE LastStage + 1

VARIABLES
  \* the chain
  nns, ntr, fund, alp, pgas, cand, neo,   \* BOOLEAN milestones: NNS deployed (id 1), Notary role, initial transfer,
                                          \* NeoFSAlphabet role, Proxy funded, candidates registered, NEO distributed
  cons,      \* set of <<contract, deployer>> on chain
  recs,      \* recs[c] = set of contracts named by the TXT records of c's domain in the neofs zone
  shared,    \* the leader's shared transaction data is published in the bootstrap zone
  sigs,      \* members whose signature record is published in the bootstrap zone
  pool,      \* pooled transactions [op, c, by, run]
  reqs,      \* notary requests [op, c, by, run, thr, sg, aud]
  \* the members
  alive, pc, run, cancels, fin, reruns, late,
  losses,    \* number of losses so far
  stuck      \* submissions whose monitor stayed pending after the loss ("StickyPending" only)
cvars == <<nns, ntr, fund, alp, pgas, cand, neo, cons, recs, shared, sigs>>
lvars == <<losses, stuck>>
vars  == <<nns, ntr, fund, alp, pgas, cand, neo, cons, recs, shared, sigs, pool, reqs, alive, pc, run, cancels, fin, reruns, late,
           losses, stuck>>

Tx(op, c, by)       == [op |-> op, c |-> c, by |-> by, run |-> run[by]]
Req(op, c, by, thr) == [op |-> op, c |-> c, by |-> by, run |-> run[by], thr |-> thr, sg |-> {by},
                        aud |-> {j \in Members : alive[j]}]
\* transactionGroupMonitor.isPending of the member's current run
Pending(i, op, c) == \/ \E t \in pool : t.by = i /\ t.run = run[i] /\ t.op = op /\ t.c = c
                     \/ \E r \in reqs : r.by = i /\ r.run = run[i] /\ r.op = op /\ r.c = c
                     \/ \E r \in stuck : r.by = i /\ r.run = run[i] /\ r.op = op /\ r.c = c

Init ==
  /\ nns = FALSE /\ ntr = FALSE /\ fund = FALSE /\ alp = FALSE /\ pgas = FALSE /\ cand = FALSE /\ neo = FALSE
  /\ cons = {} /\ recs = [c \in Contracts |-> {}] /\ shared = FALSE /\ sigs = {}
  /\ pool = {} /\ reqs = {}
  /\ alive = [i \in Members |-> i \notin Absent] /\ pc = [i \in Members |-> 1] /\ run = [i \in Members |-> 0]
  /\ cancels = 0 /\ fin = FALSE /\ reruns = 0 /\ late = FALSE /\ losses = 0 /\ stuck = {}

\* ------------------------------------------------------------------ members
Advance(i) == pc' = [pc EXCEPT ![i] = @ + 1] /\ UNCHANGED <<pool, reqs>>
\* sending: a transaction after the finished state has been reached by everybody is recorded in `late`
Send(i, t)  == pool' = pool \cup {t} /\ UNCHANGED <<reqs, pc>>
SendReq(i, r) ==
  /\ IF Cardinality(r.sg) >= r.thr THEN pool' = pool \cup {[op |-> r.op, c |-> r.c, by |-> r.by, run |-> r.run]} /\ UNCHANGED reqs
     ELSE reqs' = reqs \cup {r} /\ UNCHANGED pool
  /\ UNCHANGED pc
Wait(i) == UNCHANGED <<pool, reqs, pc>>

\* signature domains the leader can use
Readable == IF "IndexShift" \in Dev THEN sigs \cap (1..(N - 2)) ELSE sigs \cap (1..(N - 1))

Body(i) ==
  LET s == Prog[pc[i]] IN
  CASE s.op = "nns" ->                                   \* nns.go initNNSContract
         IF nns THEN Advance(i)
         ELSE IF i = Leader /\ ~Pending(i, "nns", 0) THEN Send(i, Tx("nns", 0, i)) ELSE Wait(i)
    [] s.op = "ntr" ->                                   \* notary.go enableNotary
         IF ntr THEN Advance(i)
         ELSE IF N = 1 THEN (IF ~Pending(i, "ntr", 0) THEN Send(i, Tx("ntr", 0, i)) ELSE Wait(i))
         ELSE IF i = Leader
              THEN IF ~shared THEN (IF ~Pending(i, "share", 0) THEN Send(i, Tx("share", 0, i)) ELSE Wait(i))
                   ELSE IF Cardinality(Readable) >= Maj - 1 /\ ~Pending(i, "ntr", 0) THEN Send(i, Tx("ntr", 0, i))
                   ELSE Wait(i)
              ELSE IF shared /\ i \notin sigs /\ ~Pending(i, "sig", 0) THEN Send(i, Tx("sig", 0, i)) ELSE Wait(i)
    [] s.op = "fund" ->                                  \* funds.go makeInitialTransferToCommittee
         IF fund THEN Advance(i)
         ELSE IF i = Leader /\ ~Pending(i, "fund", 0) THEN SendReq(i, Req("fund", 0, i, Val)) ELSE Wait(i)
    [] s.op = "alp" ->                                   \* alphabet.go designateNeoFSAlphabet (every member)
         IF alp THEN Advance(i)
         ELSE IF ~Pending(i, "alp", 0) THEN SendReq(i, Req("alp", 0, i, Maj)) ELSE Wait(i)
    [] s.op = "sync" ->                                  \* contracts.go syncNeoFSContract
         LET c == s.c  d == Deployer(c) IN
         IF recs[c] # {} THEN Advance(i)                                   \* recorded and up to date
         ELSE IF c <= K /\ i # Leader THEN Wait(i)                         \* no designated deployer: wait for the record
         ELSE IF <<c, d>> \notin cons
              THEN IF i = d /\ ~Pending(i, "deploy", c)
                   THEN (IF c \in WitnessC THEN SendReq(i, Req("deploy", c, i, Val)) ELSE Send(i, Tx("deploy", c, i)))
                   ELSE Wait(i)
              ELSE IF ~Pending(i, "register", c) THEN Send(i, Tx("register", c, i)) ELSE Wait(i)
    [] s.op = "pgas" ->                                  \* funds.go transferGASToProxy
         IF pgas THEN Advance(i)
         ELSE IF i = Leader /\ ~Pending(i, "pgas", 0) THEN SendReq(i, Req("pgas", 0, i, Maj)) ELSE Wait(i)
    [] s.op = "cand" ->                                  \* alphabet.go initVoteForAlphabet: every candidate signs
         IF cand THEN Advance(i)
         ELSE IF ~Pending(i, "cand", 0) THEN SendReq(i, Req("cand", 0, i, N)) ELSE Wait(i)
    [] s.op = "neo" ->                                   \* funds.go distributeNEOToAlphabetContracts
         IF neo THEN Advance(i)
         ELSE IF ~Pending(i, "neo", 0) THEN SendReq(i, Req("neo", 0, i, Maj)) ELSE Wait(i)

Tick(i) ==
  /\ alive[i] /\ pc[i] < DonePc
  /\ Body(i)
  /\ late' = (late \/ (fin /\ (pool' # pool \/ reqs' # reqs)))
  /\ fin' = (fin \/ \A j \in Members : pc'[j] = DonePc)
  /\ UNCHANGED <<cvars, alive, run, cancels, reruns, lvars>>

\* ------------------------------------------------------------------ chain
Effect(t) ==
  CASE t.op = "nns"      -> nns' = TRUE /\ UNCHANGED <<ntr, fund, alp, pgas, cand, neo, cons, recs, shared, sigs>>
    [] t.op = "share"    -> shared' = TRUE /\ UNCHANGED <<nns, ntr, fund, alp, pgas, cand, neo, cons, recs, sigs>>
    [] t.op = "sig"      -> sigs' = sigs \cup {t.by} /\ UNCHANGED <<nns, ntr, fund, alp, pgas, cand, neo, cons, recs, shared>>
    [] t.op = "ntr"      -> ntr' = TRUE /\ UNCHANGED <<nns, fund, alp, pgas, cand, neo, cons, recs, shared, sigs>>
    [] t.op = "fund"     -> fund' = TRUE /\ UNCHANGED <<nns, ntr, alp, pgas, cand, neo, cons, recs, shared, sigs>>
    [] t.op = "alp"      -> alp' = TRUE /\ UNCHANGED <<nns, ntr, fund, pgas, cand, neo, cons, recs, shared, sigs>>
    [] t.op = "pgas"     -> pgas' = TRUE /\ UNCHANGED <<nns, ntr, fund, alp, cand, neo, cons, recs, shared, sigs>>
    [] t.op = "cand"     -> cand' = TRUE /\ UNCHANGED <<nns, ntr, fund, alp, pgas, neo, cons, recs, shared, sigs>>
    [] t.op = "neo"      -> neo' = TRUE /\ UNCHANGED <<nns, ntr, fund, alp, pgas, cand, cons, recs, shared, sigs>>
    [] t.op = "deploy"   -> \* Management.deploy faults when the address exists; otherwise the sender becomes the deployer
                            cons' = cons \cup {<<t.c, t.by>>} /\ UNCHANGED <<nns, ntr, fund, alp, pgas, cand, neo, recs, shared, sigs>>
    [] t.op = "register" -> \* register + addRecord in one script: register answers false for a taken name and addRecord
                            \* then faults for everybody but the owner, for the owner it faults on the duplicate record
                            /\ recs' = IF recs[t.c] = {} THEN [recs EXCEPT ![t.c] = {<<t.c, Deployer(t.c)>>}] ELSE recs
                            /\ UNCHANGED <<nns, ntr, fund, alp, pgas, cand, neo, cons, shared, sigs>>

Include(t) ==
  /\ t \in pool
  /\ Effect(t)
  /\ pool' = pool \ {t}
  /\ UNCHANGED <<reqs, alive, pc, run, cancels, fin, reruns, late, lvars>>

\* the listener of member j signs a request it received while it was up
NotarySign(j, r) ==
  /\ r \in reqs /\ ntr /\ alive[j] /\ pc[j] < DonePc /\ j \in r.aud \ r.sg     \* the listener stops when Deploy returns
  /\ LET r2 == [r EXCEPT !.sg = @ \cup {j}] IN
     IF Cardinality(r2.sg) >= r.thr
     THEN reqs' = reqs \ {r} /\ pool' = pool \cup {[op |-> r.op, c |-> r.c, by |-> r.by, run |-> r.run]}
     ELSE reqs' = (reqs \ {r}) \cup {r2} /\ UNCHANGED pool
  /\ UNCHANGED <<cvars, alive, pc, run, cancels, fin, reruns, late, lvars>>

\* a request that can no longer be completed by its audience expires (fallback), or - before the Notary role is
\* designated - is never processed at all
Expire(r) ==
  /\ r \in reqs /\ (Cardinality(r.sg \cup r.aud) < r.thr \/ ~ntr)
  /\ reqs' = reqs \ {r}
  /\ UNCHANGED <<cvars, pool, alive, pc, run, cancels, fin, reruns, late, lvars>>

Cancel(i) ==
  /\ alive[i] /\ pc[i] < DonePc /\ cancels < MaxCancel
  /\ alive' = [alive EXCEPT ![i] = FALSE]
  /\ cancels' = cancels + 1
  /\ reqs' = {[r EXCEPT !.aud = @ \ {i}] : r \in reqs}
  /\ UNCHANGED <<cvars, pool, pc, run, fin, reruns, late, lvars>>

Restart(i) ==
  /\ ~alive[i] /\ (i \notin Absent \/ run[i] > 0 \/ ntr)
  /\ alive' = [alive EXCEPT ![i] = TRUE]
  /\ pc' = [pc EXCEPT ![i] = 1]
  /\ run' = [run EXCEPT ![i] = @ + 1]
  /\ UNCHANGED <<cvars, pool, reqs, cancels, fin, reruns, late, lvars>>

\* a complete second run of a member on the finished chain
Rerun(i) ==
  /\ fin /\ pc[i] = DonePc /\ reruns < MaxRerun
  /\ pc' = [pc EXCEPT ![i] = 1]
  /\ run' = [run EXCEPT ![i] = @ + 1]
  /\ reruns' = reruns + 1
  /\ UNCHANGED <<cvars, pool, reqs, alive, cancels, fin, late, lvars>>

\* ------------------------------------------------------------------ lossy delivery (unfair, at most MaxLoss times)
Stick(x) == IF "StickyPending" \in Dev THEN stuck \cup {[op |-> x.op, c |-> x.c, by |-> x.by, run |-> x.run]} ELSE stuck
Lose(t) ==
  /\ t \in pool /\ losses < MaxLoss
  /\ pool' = pool \ {t} /\ losses' = losses + 1 /\ stuck' = Stick(t)
  /\ UNCHANGED <<cvars, reqs, alive, pc, run, cancels, fin, reruns, late>>
LoseReq(r) ==
  /\ r \in reqs /\ losses < MaxLoss
  /\ reqs' = reqs \ {r} /\ losses' = losses + 1 /\ stuck' = Stick(r)
  /\ UNCHANGED <<cvars, pool, alive, pc, run, cancels, fin, reruns, late>>
\* the co-signature of member j is lost: its listener has processed the request and will not sign it again
LoseSign(j, r) ==
  /\ r \in reqs /\ losses < MaxLoss /\ alive[j] /\ j \in r.aud \ r.sg
  /\ reqs' = (reqs \ {r}) \cup {[r EXCEPT !.aud = @ \ {j}]} /\ losses' = losses + 1
  /\ UNCHANGED <<cvars, pool, alive, pc, run, cancels, fin, reruns, late, stuck>>

Next ==
  \/ \E i \in Members : Tick(i) \/ Cancel(i) \/ Restart(i) \/ Rerun(i)
  \/ \E t \in pool : Include(t) \/ Lose(t)
  \/ \E r \in reqs : Expire(r) \/ LoseReq(r) \/ \E j \in Members : NotarySign(j, r) \/ LoseSign(j, r)

Fairness ==
  /\ \A i \in Members : WF_vars(Tick(i)) /\ WF_vars(Restart(i))
  /\ WF_vars(\E t \in pool : Include(t))
  /\ WF_vars(\E r \in reqs : \E j \in Members : NotarySign(j, r))
  /\ WF_vars(\E r \in reqs : Expire(r))

Spec == Init /\ [][Next]_vars /\ Fairness

\* ------------------------------------------------------------------ properties (C13)
\* The predicates take a chain projection p, so that the trace monitor evaluates the same operators on the
\* projection observed on the real chain:
\*   p.n      committee size
\*   p.cons   set of [sys, dep]                         contracts on chain (system name or contract number, deployer)
\*   p.recs   set of [dom, want, n, sys]                per domain of the neofs zone: wanted system name, number of TXT
\*                                                      records, system name of the on-chain contract the record names
Proj == [n |-> N,
         cons |-> {[sys |-> p[1], dep |-> p[2]] : p \in cons},
         recs |-> {[dom |-> c, want |-> c, n |-> Cardinality(recs[c]),
                    sys |-> IF recs[c] = {} THEN 0
                            ELSE LET p == CHOOSE p \in recs[c] : TRUE IN IF p \in cons THEN p[1] ELSE -1] : c \in Contracts}]

UniqueContracts   == UniqueContractsP(Proj, -1)
RecordsFunctional == RecordsFunctionalP(Proj)
RolesExact        == (alp => ntr) /\ (fund => ntr)     \* roles are booleans here: designation is all-or-nothing
AllDone           == \A i \in Members : pc[i] = DonePc
FinalOK           == (AllDone /\ LastStage = 0) => /\ nns /\ ntr /\ alp /\ neo
                                /\ \A c \in Contracts : recs[c] = {<<c, Deployer(c)>>} /\ <<c, Deployer(c)>> \in cons
Idempotent        == ~late
Converges         == <>[]AllDone
NotaryMajority    == <>ntr

TypeOK == /\ pc \in [Members -> 1..DonePc] /\ alive \in [Members -> BOOLEAN]
          /\ \A c \in Contracts : recs[c] \subseteq (Contracts \X Members)

\* ------------------------------------------------------------------ binding of observed projections
\* the milestones reached on the chain must be closed under the stage dependencies of DeployProps
Reached == (IF nns THEN {<<"nns", 0>>} ELSE {}) \cup (IF ntr THEN {<<"ntr", 0>>} ELSE {}) \cup (IF alp THEN {<<"alp", 0>>} ELSE {})
           \cup (IF pgas THEN {<<"pgas", 0>>} ELSE {}) \cup (IF cand THEN {<<"cand", 0>>} ELSE {}) \cup (IF neo THEN {<<"neo", 0>>} ELSE {})
           \cup {<<"con", p[1]>> : p \in cons} \cup {<<"rec", c>> : c \in {c \in Contracts : recs[c] # {}}}
StagesOrdered == Closed(Reached, K, N)
=============================================================================
