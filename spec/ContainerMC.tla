----------------------------- MODULE ContainerMC -----------------------------
(* Model-checking wrapper of Container.tla: constants of the bounded          *)
(* configurations, the abstract registry g as a ghost variable, C04/C05 as    *)
(* action formulas, and the scenario emitter used with `tlc -simulate`.       *)
EXTENDS Container, Json

VARIABLES g, hist
mcvars == <<x, oidx, tomb, meta, eacl, alias, dom, txt, bal, abal, fee, afee, n, idk, api, ev, g, hist>>

\* ---- C04-centred configurations: no fees, the whole registry/NNS interplay ----
Q_Owners  == {"o1", "o2"}
Q_Cids    == {"c0", "c1", "c2"}
Q_COwner  == [c \in Q_Cids |-> IF c = "c2" THEN "o2" ELSE "o1"]
Q_PutCids == {"c1", "c2"}
Q_Names   == {"n1", "n2"}
Q_Variants == {"b"}
Q_SignerSets == {{}, {"ALPHA"}, {"ALPHA", "CMT"}, {"X"}}

T_Owners  == {"o1", "o2"}
T_Cids    == {"c0", "c1", "c2"}
T_COwner  == [c \in T_Cids |-> IF c \in {"c2"} THEN "o2" ELSE "o1"]
T_PutCids == {"c1", "c2"}
T_Names   == {"n1", "n2"}
T_Variants == {"a", "b"}
T_SignerSets == {{}, {"ALPHA"}, {"ALPHA", "CMT"}, {"CMT"}, {"X"}}

\* ---- C05-centred configurations: fees, mints, committee sizes, two puts per block, an owner that is an Alphabet node;
\* one name, no delete / eACL / meta, no NNS environment ----
\* c1 belongs to the ordinary owner o1, c2 to oa whose account is an Alphabet node's standard account
F_Owners  == {"o1", "oa"}
F_Cids    == {"c1", "c2"}
F_COwner  == [c \in F_Cids |-> IF c = "c2" THEN "oa" ELSE "o1"]
FT_Cids   == {"c1", "c2"}
FT_COwner == [c \in FT_Cids |-> IF c = "c2" THEN "oa" ELSE "o1"]
F_Names   == {"n1"}
F_Variants == {"a"}
F_SignerSets == {{}, {"ALPHA"}}
F_Fees    == {0, 1, 2}
F_Amounts == {1}
FQ_NSet   == {1, 4}
FT_NSet   == {1, 3, 4, 7}
FT_Fees   == {0, 1, 2, 3}

\* ---- simulation (scenario generation) ----
S_Owners  == {"o1", "o2", "oa"}
S_Cids    == {"c0", "c1", "c2", "c3", "c4", "c5"}
S_COwner  == [c \in S_Cids |-> IF c \in {"c0", "c1", "c2"} THEN "o1" ELSE IF c \in {"c3", "c4"} THEN "o2" ELSE "oa"]
S_PutCids == S_Cids \ {"c0"}
S_Names   == {"n1", "n2", "n3"}
S_Variants == {"a", "b"}
S_SignerSets == {{}, {"ALPHA"}, {"ALPHA", "CMT"}, {"CMT"}, {"M1"}, {"X"}, {"o1"}, {"ALPHA", "X"}, {"CMT", "X"}}
S_Fees    == {0, 1, 2, 3, 5}
S_Amounts == {1, 2, 3, 7, 20, 50}
S_NSet    == {1, 3, 4, 7}

MCInit == Init /\ g = GInit /\ hist = <<>>
MCNext == Next /\ g' = GNext(g, ev') /\ hist' = <<>>
MCSpec == MCInit /\ [][MCNext]_mcvars

One(X) == IF X = {} THEN {} ELSE {RandomElement(X)}
S_SignerBias == <<{"ALPHA"}, {"ALPHA"}, {"ALPHA"}, {"ALPHA", "CMT"}, {"ALPHA", "CMT"}, {"CMT", "X"}>>
OneS(X) == IF RandomElement(1..4) = 1 THEN One(X) ELSE {S_SignerBias[RandomElement(1..Len(S_SignerBias))]}
SimNext == NextOf(One, OneS) /\ g' = GNext(g, ev') /\ hist' = Append(hist, [ev' EXCEPT !.ntf = <<>>, !.xfer = <<>>, !.ntf2 = <<>>, !.xfer2 = <<>>])
SimSpec == MCInit /\ [][SimNext]_mcvars

MCView == <<x, oidx, tomb, meta, eacl, alias, dom, txt, bal, abal, fee, afee, n, idk, g>>

CONSTANT SimLen
EmitScenario == IF Len(hist) = SimLen THEN PrintT("SCEN " \o ToJson([n |-> n, steps |-> hist])) ELSE TRUE

P_C04 == [][LET g2 == GNext(g, ev') IN
            /\ C04_Get(g2) /\ C04_Owner(g2) /\ C04_EACL(g2) /\ C04_Alias(g2) /\ C04_AliasRecord(g2) /\ C04_Lists(g2) /\ C04_Count(g2)
            /\ C04_Final(g, ev') /\ C04_NoTrace(g2) /\ C04_Notif(g, ev')]_mcvars
P_C05 == [][C05_Exact(ev') /\ C05_MustPay(ev') /\ C05_Atomic(ev')]_mcvars

\* state invariants (the step predicates above keep them)
BoundedA == \A k \in 1..n : abal[k] <= MaxBal
Inv_Index == oidx = {c \in Cids : x[c] # None}
Inv_Tomb  == \A c \in tomb : x[c] = None
Inv_Ghost == /\ Live(g) = {c \in Cids : x[c] # None} /\ g.dead = tomb
\* the two readings of the Alphabet-node owner's account agree
Inv_Mirror == AlphaOwner \in Owners => bal[AlphaOwner] = abal[AIdx(n)]
TypeOK == /\ \A c \in Cids : x[c] \in Variants \cup {None}
          /\ \A o \in Owners : bal[o] >= 0
          /\ \A k \in 1..n : abal[k] >= 0
=============================================================================
