------------------------------ MODULE NetmapMC ------------------------------
(* Model-checking wrapper of Netmap.tla: constants of the bounded             *)
(* configurations, the ghost variables of C08 (published maps, retention),    *)
(* the scope flags of C06/C08, the properties as action formulas, and the     *)
(* scenario emitters used with `tlc -simulate`.                               *)
(*   Netmap_quick / Netmap_thorough          candidate methods: breadth of keys, states, signer sets (C07, C06)  *)
(*   NetmapDeep_quick / NetmapDeep_thorough  candidate methods: depth with few signer sets (C07, C06)            *)
(*   NetmapSubs_quick / NetmapSubs_thorough  ticks, subscribers, rejection, shared blocks, config (C06)          *)
(*   NetmapRing_quick / NetmapRing_thorough  the snapshot ring: consecutive ticks and resizes (C08)              *)
(*   Netmap_sim / NetmapRing_sim             scenario generation                                                 *)
EXTENDS Netmap, Json

VARIABLES pub, rt, okC08, okC06, n, nres, nplain, hist
mcvars == <<epoch, tickHeight, height, legacy, structured, count, cur, slot, v2, subs, journal, rej, config, ev,
            pub, rt, okC08, okC06, n, nres, nplain, hist>>

CONSTANTS MaxSteps, MaxEpoch, MaxRes, SimLen,
  Starts,    \* ring configurations: epochs the first tick of a history may name
  MaxPlain   \* ring configurations: ticks per history that do NOT publish a fresh map (unchanged or empty set)

\* ---- constants (cfg files substitute these) ----
Q_Keys       == {"k1", "k2"}
Q_Bad        == {"b32"}
Q_Probes     == {"s1", "s2"}
Q_Infos      == {1, 2}
Q_StateArgs  == {0, 1, 2, 3}
Q_SignerSets == {{"ALPHA"}, {"k1"}, {"k1", "ALPHA"}, {"k2", "CMT"}}
Q_EpochOffs  == {0, 1, 2}
Q_CfgKeys    == {"c0"}
Q_CfgVals    == {"x"}

\* quick, depth: one key, the sufficient and one insufficient signer set
QD_Keys       == {"k1"}
QD_SignerSets == {{"k1", "ALPHA"}, {"k1"}}
\* quick, ticks and subscribers: one key, two probe subscribers
QB_Keys       == {"k1"}
QB_StateArgs  == {2, 3}
QB_SignerSets == {{"ALPHA"}, {"k1", "ALPHA"}, {"CMT"}}

\* thorough, candidates: two keys in every placement, all malformed keys, all state values
T_Keys       == {"k1", "k2"}
T_Bad        == {"b0", "b32", "b34"}
T_Infos      == {1, 2}
T_StateArgs  == {-1, 0, 1, 2, 3, 4}
T_SignerSets == {{"ALPHA"}, {"k1"}, {"k1", "ALPHA"}, {"k2", "ALPHA"}, {"k1", "CMT"}}
T_EpochOffs  == {0, 1}
\* thorough, depth: two keys, everything authorised, every reachable placement/state combination
TD_StateArgs  == {1, 2, 3}
TD_SignerSets == {{"k1", "k2", "ALPHA"}}
\* thorough, ticks and subscribers: three probes, all epoch arguments, shared blocks
TB_Probes     == {"s1", "s2", "s3"}
TB_SignerSets == {{"ALPHA"}, {"k1", "ALPHA"}, {"CMT"}, {}}
TB_EpochOffs  == {-1, 0, 1, 3}
TB_CfgKeys    == {"c0", "cA"}
TB_CfgVals    == {"x", ""}

\* ring configurations: one key, no subscribers
R_Keys       == {"k1"}
R_SignerSets == {{"ALPHA", "k1"}, {"k1"}}
RQ_Counts    == {0, 1, 2, 3, 5, 10, 12}
RT_Counts    == 0..12

\* simulation (scenario generation): richer, unbounded walk
S_Keys       == {"k1", "k2", "k3", "k4"}
S_Bad        == {"b0", "b32", "b34"}
S_Probes     == {"s1", "s2", "s3"}
S_Infos      == 1..9 \cup {17, 18, 20, 33}   \* ids 16 apart differ in the addresses only, see harness/netmap node2
S_StateArgs  == {-1, 0, 1, 2, 3, 4}
S_SignerSets == {{}, {"ALPHA"}, {"k1"}, {"k2"}, {"k1", "ALPHA"}, {"k2", "ALPHA"}, {"k3", "ALPHA"}, {"k4", "ALPHA"},
                 {"CMT"}, {"CMT", "k1"}, {"M1", "k2"}, {"X", "ALPHA"}, {"X"}}
S_EpochOffs  == {-1, 0, 1, 2, 3, 6}
S_Counts     == -1..13
S_CfgKeys    == {"c0", "cA", "cAB", "cB"}
S_CfgVals    == {"", "x", "yy"}

GhostInit == pub = <<>> /\ rt = 0 /\ okC08 = TRUE /\ okC06 = TRUE /\ n = 0 /\ nres = 0 /\ nplain = 0 /\ hist = <<>>
GhostNext ==
  /\ pub' = PubNext(pub, ev')
  /\ rt' = RtNext(rt, ev')
  /\ okC08' = StepOk(okC08, pub, ev')
  /\ okC06' = NoResize(okC06, ev')
  /\ n' = n + 1
  /\ nres' = IF ev'.act = "updateSnapshotCount" /\ ev'.res = "HALT" THEN nres + 1 ELSE nres
  /\ nplain' = IF ev'.act = "newEpoch" /\ ev'.res = "HALT" THEN nplain + 1 ELSE nplain

MCInit == Init /\ GhostInit
MCNext == Next /\ GhostNext /\ hist' = <<>>
MCSpec == MCInit /\ [][MCNext]_mcvars

\* the snapshot ring: ticks that publish a fresh map (tickB), up to MaxPlain ticks that publish the unchanged
\* or - after the node left - the EMPTY candidate set, resizes to every count; the first tick starts the
\* numbering of the history at any epoch of Starts
RingTargets == IF DOMAIN pub = {} THEN Starts ELSE {epoch + 1}
RingStep ==
  \/ \E S \in SignerSets, t \in RingTargets : TickB(S, "k1", t, t, height + 1)
  \/ nres < MaxRes /\ \E S \in SignerSets, c \in CountArgs : UpdateSnapshotCount(S, c, height + 1)
  \/ nplain < MaxPlain /\ \E t \in RingTargets : NewEpoch({"ALPHA"}, t, height + 1)
  \/ nplain < MaxPlain /\ legacy["k1"].ex /\ UpdateStateIR({"ALPHA"}, Offline, "k1", height + 1)
RingMCNext == RingStep /\ GhostNext /\ hist' = <<>>
RingSpec == MCInit /\ [][RingMCNext]_mcvars

Bounded == n <= MaxSteps /\ epoch <= MaxEpoch
\* ev, height and tickHeight (determined by the block index) are not part of the fingerprint
MCView == <<epoch, legacy, structured, count, cur, slot, v2, subs, journal, rej, config, pub, rt, okC08, okC06, n, nres, nplain>>
RingView == <<epoch, legacy, structured, count, cur, slot, v2, pub, rt, nres, nplain>>

P_C06 == [][okC06 => /\ C06_Outcome(ev') /\ C06_Monotone(ev') /\ C06_FailInert(ev') /\ C06_Publish(ev', ApiNext)
                      /\ C06_Fanout(ev') /\ C06_Announced(ev') /\ C06_Subscribe(ev')]_mcvars
P_C07 == [][/\ C07_Machine(ev') /\ C07_Rejects(ev') /\ C07_Witness(ev') /\ C07_Api(ApiNext) /\ C07_Announced(ev')]_mcvars
P_C08 == [][okC08' => /\ C08_Recent(ApiNext, epoch', pub', rt') /\ C08_Older(ApiNext, epoch', rt')
                       /\ C08_NoLeak(v2', epoch', rt') /\ C08_Resizable(ev') /\ C08_RefusedInert(ev')]_mcvars

TypeOK == /\ epoch \in Nat /\ count \in Nat /\ cur \in -1..(MaxSlots - 1)
          /\ \A k \in Keys : legacy[k].ex \in BOOLEAN /\ structured[k].ex \in BOOLEAN
          /\ rt \in 0..MaxSlots
\* state form of the history property (the action form P_C08 also covers the initial state's successors only)
Inv_C08 == okC08 => LET A == Api(epoch, tickHeight, legacy, structured, count, cur, slot, v2)
                    IN  C08_Recent(A, epoch, pub, rt) /\ C08_Older(A, epoch, rt) /\ C08_NoLeak(v2, epoch, rt)

\* ---- scenario generation ----
One(X) == IF X = {} THEN {} ELSE {RandomElement(X)}
Pick(X) == RandomElement(X)
S_SignerBias == <<{"ALPHA"}, {"ALPHA"}, {"ALPHA"}, {"ALPHA", "k1"}, {"ALPHA", "k2"}, {"ALPHA", "k3"}, {"ALPHA", "k1"}, {"ALPHA", "k2"}>>
PickS == IF RandomElement(1..4) = 1 THEN Pick(SignerSets) ELSE S_SignerBias[RandomElement(1..Len(S_SignerBias))]
PickNodeS(k) == IF RandomElement(1..4) = 1 THEN Pick(SignerSets) ELSE {"ALPHA", k}

\* info id of an add: every third time the id the list already holds for the key (a re-announcement)
PickInfo(L, k) == IF L[k].ex /\ RandomElement(1..3) = 1 THEN L[k].i ELSE Pick(Infos)
SimStep(h) ==
  LET r == RandomElement(1..26)
      k == Pick(Keys)
  IN  CASE r <= 3  -> AddPeer(PickNodeS(k), k, PickInfo(legacy, k), h)
        [] r <= 5  -> AddPeerIR(PickS, k, PickInfo(legacy, k), h)
        [] r <= 8  -> AddNode(PickNodeS(k), k, PickInfo(structured, k), IF RandomElement(1..8) = 1 THEN Pick(StateArgs) ELSE Online, h)
        [] r <= 11 -> UpdateState(PickNodeS(k), Pick(StateArgs), k, h)
        [] r <= 13 -> UpdateStateIR(PickS, Pick(StateArgs), k, h)
        [] r = 14  -> DeleteNode(PickS, k, h)
        [] r = 15  -> LET b == Pick(BadKeys) IN
                      CASE RandomElement(1..4) = 1 -> UpdateStateIR({"ALPHA"}, Pick({1, 2, 3}), b, h)
                        [] RandomElement(1..3) = 1 -> AddNode({"ALPHA"}, b, 1, Online, h)
                        [] RandomElement(1..2) = 1 -> DeleteNode({"ALPHA"}, b, h)
                        [] OTHER -> UpdateState({"ALPHA"}, Pick({1, 2, 3}), b, h)
        [] r <= 17 -> Subscribe(PickS, Pick(Probes \cup OtherSubs \cup NoSubs), h)
        [] r = 18  -> SetReject(Pick(Probes), Pick({"on", "off", "off"}), h)
        [] r = 19  -> SetConfig(PickS, Pick(CfgKeys), Pick(CfgVals), h)
        [] r = 20  -> IF RandomElement(1..3) = 1 THEN UpdateSnapshotCount(PickS, Pick(CountArgs), h)
                      ELSE NewEpoch(PickS, epoch + 1, h)
        [] r <= 24 -> NewEpoch(PickS, epoch + 1, h)
        [] OTHER   -> NewEpoch(PickS, epoch + Pick(EpochOffs), h)

HistRec(b) == [act |-> ev'.act, S |-> ev'.S, k |-> ev'.k, i |-> ev'.i, s |-> ev'.s, x |-> ev'.x, c |-> ev'.c, v |-> ev'.v, blk |-> b]
SimNext == \E b \in {IF n > 0 /\ RandomElement(1..6) = 1 THEN 1 ELSE 0} :
              SimStep(height + 1 - b) /\ GhostNext /\ hist' = Append(hist, HistRec(b))
SimSpec == MCInit /\ [][SimNext]_mcvars

\* C08 scope: consecutive ticks (the first one may start the numbering near an encoding boundary) that publish
\* fresh, unchanged, shrunk or empty maps in either format, resizes to every count, a few refused calls
S_Starts == {1, 1, 1, 2, 120, 126, 127, 250, 254, 255, 32766, 65534}
RingSimStep(h) ==
  LET r == RandomElement(1..16)
      t == IF DOMAIN pub = {} THEN Pick(S_Starts) ELSE epoch + 1
      k == Pick({"k1", "k2"})
  IN  CASE r <= 2 -> UpdateSnapshotCount({"ALPHA"}, Pick(0..12), h)
        [] r = 3  -> UpdateSnapshotCount(Pick({{"ALPHA"}, {"ALPHA"}, {"CMT"}, {}}), Pick(CountArgs), h)
        [] r = 4  -> TickB(Pick({{"ALPHA"}, {"k1"}, {"ALPHA", "k1"}}), "k1", t, t, h)
        [] r = 5  -> UpdateStateIR({"ALPHA"}, Offline, k, h)
        [] r = 6  -> AddPeerIR({"ALPHA"}, "k2", t, h)
        [] r = 7  -> AddNode({"ALPHA", "k2"}, "k2", t, Online, h)
        [] r = 8  -> UpdateStateIR({"ALPHA"}, Maint, k, h)
        [] r <= 11 -> NewEpoch({"ALPHA"}, t, h)
        [] OTHER  -> TickB({"ALPHA", "k1"}, "k1", t, t, h)
RingSimNext == RingSimStep(height + 1) /\ GhostNext /\ hist' = Append(hist, HistRec(0))
RingSimSpec == MCInit /\ [][RingSimNext]_mcvars

EmitScenario == IF Len(hist) = SimLen THEN PrintT("SCEN " \o ToJson([steps |-> hist])) ELSE TRUE

=============================================================================
