--------------------------- MODULE FSChainAlphabet ---------------------------
(***************************************************************************)
(* Fragment: contracts/alphabet/contract.go on the FS chain.               *)
(*   azNm[z]   the Netmap instance stored under "netmapScriptHash" at      *)
(*             deployment ("none": z is not deployed)                      *)
(*   voted[z]  the candidate the contract's NEO votes for (native NEO      *)
(*             account state), Nil: none                                   *)
(* Vote(epoch, candidates): index/name are read, then the Alphabet witness,*)
(* then epoch = Netmap(epoch) of the STORED hash, then candidates[index %  *)
(* len]; neo.Vote fails silently for an unregistered candidate.            *)
(***************************************************************************)
EXTENDS FSChainBase

ACandidate(idx, ks) == ks[(idx % Len(ks)) + 1]
AVote(voted, z, idx, ks, Registered) ==
  IF ACandidate(idx, ks) \in Registered THEN [voted EXCEPT ![z] = ACandidate(idx, ks)] ELSE voted
=============================================================================
