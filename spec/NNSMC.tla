-------------------------------- MODULE NNSMC --------------------------------
(* Model-checking wrapper of NNS.tla: bounded constants, the reference      *)
(* machine g of the properties as a ghost variable, the properties as       *)
(* action formulas (C10, C11, C12 and the extension X03), and the scenario  *)
(* emitter used with `tlc -simulate`.                                       *)
EXTENDS NNS, Json

VARIABLES g, steps, hist
mcvars == <<now, roots, ns, supply, bal, idx, rec, soa, price, ev, g, steps, hist>>

\* ---- quick: one TLD, a chain of three names (so that a name two levels below its token exists) ----
Q_Par        == ("t" :> Nil) @@ ("a.t" :> "t") @@ ("b.a.t" :> "a.t") @@ ("c.b.a.t" :> "b.a.t")
Q_Owners     == {"o1", "o2"}
Q_SignerSets == {{}, {"o1"}, {"o2"}, {"CMT"}}
Q_DataOf     == ("A" :> {"1.1.1.1"}) @@ ("CNAME" :> {"a.t", "b.a.t"})
Q_RTypes     == {"A", "CNAME"}

\* ---- ownership: two TLDs, siblings, a contract owner, the committee as owner, renew bounds ----
O_Par        == ("t" :> Nil) @@ ("u" :> Nil) @@ ("a.t" :> "t") @@ ("b.t" :> "t") @@ ("b.a.t" :> "a.t")
O_Owners     == {"o1", "o2", "kc", "CMT"}
O_SignerSets == {{}, {"o1"}, {"o2"}, {"CMT"}, {"o1", "o2"}, {"o1", "CMT"}}
O_DataOf     == ("A" :> {"1.1.1.1"})
O_RTypes     == {"A"}

\* ---- records: lists, CNAME chains up to four links and a cycle over five names ----
R_Par        == ("t" :> Nil) @@ ("a.t" :> "t") @@ ("b.t" :> "t") @@ ("b.a.t" :> "a.t") @@ ("c.b.a.t" :> "b.a.t") @@ ("c.a.t" :> "a.t")
R_Owners     == {"o1"}
R_SignerSets == {{"o1"}, {}}
R_DataOf     == ("A" :> {"1.1.1.1", "2.2.2.2"}) @@ ("CNAME" :> {"a.t", "b.t", "b.a.t", "c.b.a.t", "c.a.t"}) @@ ("TXT" :> {"x"})
R_RTypes     == {"A", "CNAME", "TXT", "BAD"}

\* ---- simulation (scenario generation): the universe of the monitor ----
S_Par        == ("t" :> Nil) @@ ("u" :> Nil) @@ ("a.t" :> "t") @@ ("b.t" :> "t") @@ ("a.u" :> "u") @@ ("b.a.t" :> "a.t")
                @@ ("c.a.t" :> "a.t") @@ ("c.b.a.t" :> "b.a.t") @@ ("d.c.b.a.t" :> "c.b.a.t")
S_Owners     == {"o1", "o2", "o3", "kc", "CMT"}
S_SignerSets == {{}, {"o1"}, {"o2"}, {"o3"}, {"CMT"}, {"M1"}, {"X"}, {"ALPHA"}, {"o1", "o2"}, {"o2", "o3"}, {"o1", "CMT"}, {"o1", "o3"}}
S_DataOf     == ("A" :> {"1.1.1.1", "2.2.2.2", "3.3.3.3"}) @@ ("TXT" :> {"x", "y", "z"}) @@ ("AAAA" :> {"2001:470::1"})
                @@ ("CNAME" :> {"a.t", "b.t", "a.u", "b.a.t", "c.a.t", "c.b.a.t", "d.c.b.a.t"})
S_RTypes     == {"A", "CNAME", "TXT", "AAAA", "SOA", "BAD"}

\* ---- prices (price units: 16 = 1 GAS, see NNS.tla): -1, 0, 1, the default 10 GAS, maxRegisterPrice = 10 000 GAS
\* (above the 5 000 GAS a transaction of the driver can burn), maxRegisterPrice + 1 ----
P_Def    == 160
P_Max    == 160000
P_Cap    == 80000
P_Prices == {-1, 0, 1, P_Def, P_Max, P_Max + 1}
P_Few    == {-1, 0, P_Def, P_Max + 1}

CONSTANTS MaxSteps, MaxNow, SimLen

MCInit == Init /\ g = GInit /\ steps = 0 /\ hist = <<>>
MCNext == Next /\ g' = GNext(g, ev', now) /\ steps' = steps + 1 /\ hist' = <<>>
MCSpec == MCInit /\ [][MCNext]_mcvars

Bounded == steps <= MaxSteps /\ now <= MaxNow
MCView  == <<now, roots, ns, supply, bal, idx, rec, soa, price, g, steps>>

\* ---- simulation: arguments are drawn at random, signers with a bias towards the authorised ones ----
One(X) == IF X = {} THEN {} ELSE {RandomElement(X)}
GoodFor(n, o) ==
  ({o} \cup (IF n \in Names
             THEN {ns[Token(n)].owner, ns[n].owner, IF Par[n] # Nil THEN ns[Par[n]].owner ELSE "CMT"}
             ELSE {})) \ {Nil, KC}
\* signer sets are drawn from the role set of the statement: the authorised ones, and the relatives that
\* must not suffice (admin without owner, owner/admin of the 2nd-level ancestor or of the parent's parent
\* instead of the directly enclosing name, new owner/admin alone), alone and in pairs
Second(n) == IF n \in NT THEN Sufs(n)[Level(n) - 1] ELSE n
RoleSet(n, o) ==
  IF n \notin Names THEN {o}
  ELSE {o, ns[n].owner, ns[n].admin, ns[Token(n)].owner, ns[Token(n)].admin, ns[Second(n)].owner, ns[Second(n)].admin,
        IF Par[n] # Nil THEN ns[Par[n]].owner ELSE "CMT", IF Par[n] # Nil THEN ns[Par[n]].admin ELSE "CMT",
        IF Par[n] # Nil /\ Par[Par[n]] # Nil THEN ns[Par[Par[n]]].owner ELSE "CMT", "X", "CMT"}
Clean(S) == S \ {Nil, KC}
SimSigners(n, o) ==
  LET r == RandomElement(1..12) IN
  IF r <= 4 THEN {GoodFor(n, o)}
  ELSE IF r = 5 THEN {Clean({IF n \in Names THEN ns[n].admin ELSE Nil, o})}
  ELSE IF r = 6 THEN {{"CMT"}}
  ELSE IF r = 7 THEN {Clean({RandomElement(RoleSet(n, o))})}
  ELSE IF r <= 9 THEN {Clean({RandomElement(RoleSet(n, o)), RandomElement(RoleSet(n, o))})}
  ELSE IF r = 10 THEN {Clean({RandomElement(RoleSet(n, o)), o})}
  ELSE IF r = 11 /\ n \in Names THEN {Clean({ns[Token(n)].admin})}
  ELSE One(SignerSets)
SimVia(n, o) == IF KC \notin Owners THEN {FALSE}
                ELSE IF o = KC \/ (n \in Names /\ KC \in {ns[Token(n)].owner, ns[n].owner}) THEN One({TRUE, TRUE, FALSE})
                ELSE One({FALSE, FALSE, FALSE, TRUE})
SimNames == LET live == {n \in NT : ns[n].ex} IN IF live # {} /\ RandomElement(1..3) > 1 THEN One(live \cup {m \in NT : Par[m] \in live}) ELSE One(NT)

\* setPrice: mostly by the committee; while no name can be registered (price 0 or beyond the transaction's GAS)
\* a usable price is restored soon, so that the rest of the scenario stays productive
Unusable == ~BurnOK(price)
SimPriceSigners ==
  LET r == RandomElement(1..10) IN
  IF r <= 5 THEN {{"CMT"}}
  ELSE IF r = 6 THEN {{"X"}} ELSE IF r = 7 THEN {{"M1"}} ELSE IF r = 8 THEN {{"ALPHA"}}
  ELSE One(SignerSets)
SimPrices == IF Unusable THEN One({DefPrice, 1, RandomElement(Prices)}) ELSE One(Prices)

SimStep ==
  \/ \E d \in One(Ticks) : Tick(d)
  \/ \E p \in SimPrices : \E S \in SimPriceSigners, v \in One(Vias) : SetPrice(S, v, p)
  \/ Unusable /\ \E p \in One({DefPrice, DefPrice, 1, 2 * DefPrice}) : SetPrice({"CMT"}, FALSE, p)
  \/ Unusable /\ \E p \in One({DefPrice, 1}) : \E S \in SimPriceSigners : SetPrice(S, FALSE, p)
  \/ \E n \in One(Names \ NT), m \in One(Mails), x \in One(Expires) : \E S \in SimSigners(n, "CMT"), v \in SimVia(n, Nil) : RegisterTLD(S, v, n, m, x)
  \/ \E n \in One(NT), o \in One(Owners), m \in One(Mails), x \in One(Expires) : \E S \in SimSigners(n, o), v \in SimVia(n, o) : Register(S, v, n, o, m, x)
  \/ \E n \in One(NT), o \in One(Owners), m \in One(Mails), x \in One(Expires) : \E S \in SimSigners(n, o), v \in SimVia(n, o) : Register(S, v, n, o, m, x)
  \/ \E n \in SimNames, o \in One(Owners) : \E S \in SimSigners(n, Nil), v \in SimVia(n, Nil) : Transfer(S, v, n, o, Nil)
  \/ \E n \in SimNames \cup One(Names \ NT), y \in One(Years) : \E S \in SimSigners(n, Nil), v \in SimVia(n, Nil) : Renew(S, v, n, y)
  \/ \E n \in SimNames, o \in One(Owners \cup {Nil}) : \E S \in SimSigners(n, o), v \in SimVia(n, o) : SetAdmin(S, v, n, o)
  \/ \E n \in SimNames, m \in One(Mails), x \in One(Expires) : \E S \in SimSigners(n, Nil), v \in SimVia(n, Nil) : UpdateSOA(S, v, n, m, x)
  \/ \E n \in SimNames, ty \in One(RTypes) : \E d \in One(DataFor(ty)), S \in SimSigners(n, Nil), v \in SimVia(n, Nil) : AddRecord(S, v, n, ty, d)
  \/ \E n \in One(NT), ty \in One(OkTypes) : \E d \in One(DataFor(ty)), S \in SimSigners(n, Nil), v \in SimVia(n, Nil) : AddRecord(S, v, n, ty, d)
  \/ \E n \in SimNames, ty \in One(RTypes), i \in One(Ids) : \E d \in One(DataFor(ty)), S \in SimSigners(n, Nil), v \in SimVia(n, Nil) : SetRecord(S, v, n, ty, i, d)
  \/ \E n \in SimNames, ty \in One(RTypes) : \E S \in SimSigners(n, Nil), v \in SimVia(n, Nil) : DeleteRecords(S, v, n, ty)
  \* record lists: setRecord / addRecord with a value the list already holds (at a lower or higher index, or the
  \* record's own value) and with a new value, on lists of two and more records
  \/ \E k \in One({q \in RecKeys : Len(rec[q]) >= 2}) :
        \E i \in One(0..Len(rec[k])), d \in One(Range(rec[k]) \cup One(DataFor(k[3]))) :
          \E S \in SimSigners(k[2], Nil), v \in SimVia(k[2], Nil) : SetRecord(S, v, k[2], k[3], i, d)
  \/ \E k \in One({q \in RecKeys : Len(rec[q]) >= 1}) :
        \E d \in One(Range(rec[k]) \cup DataFor(k[3])) :
          \E S \in SimSigners(k[2], Nil), v \in SimVia(k[2], Nil) : AddRecord(S, v, k[2], k[3], d)

SimNext == SimStep /\ g' = GNext(g, ev', now) /\ steps' = steps + 1 /\ hist' = Append(hist, [ev' EXCEPT !.ntf = <<>>])
SimSpec == MCInit /\ [][SimNext]_mcvars

EmitScenario == IF Len(hist) = SimLen THEN PrintT("SCEN " \o ToJson([steps |-> hist])) ELSE TRUE

\* ---- the properties ----
\* The predicates that compare the read API after a step with the reference machine after the step are
\* state predicates of the post-state; TLC checks them as invariants (once per distinct state, and in a
\* state context where it caches LET definitions - evaluating ApiModel(Dev)' for every generated successor
\* is 100 times slower).  The predicates that look at the invocation are action formulas.
Inv_C10 == \A api \in {ApiModel(Dev)} :      \* (\A binds api to a value; a LET body is re-evaluated at every use)
           /\ C10_Supply(g, api) /\ C10_Index(g, api) /\ C10_Avail(g, now, api) /\ C10_ChainAlive(g, now, api)
Inv_C12 == \A api \in {ApiModel(Dev)} :
           /\ C12_Get(g, now, api) /\ C12_GetAll(g, now, api) /\ C12_Resolve(g, now, api) /\ C12_ResolveDot(api)
           /\ WellFormed(g.rec)
P_C10 == [][C10_RegisterFree(g, ev', now) /\ C10_Renew(g', ev', now) /\ C10_Announced(g, g', ev')]_mcvars
P_C11 == [][C11_UnauthorisedInert(g, ev', now)]_mcvars
P_X03 == [][/\ X03_PriceGate(ev', price, price') /\ X03_PriceStored(ev', price, price')
            /\ X03_RegisterNeedsPrice(ev', price)]_mcvars
P_C12 == [][/\ C12_Lists(g, g') /\ C12_Ops(g, ev', now) /\ C12_RegisterConflict(g, ev')
            /\ C12_Serial(g, ev', now, now', [soa |-> [n \in NT |-> MSoa(Dev, n)]'])]_mcvars

\* the storage agrees with the reference machine (binding of the two views inside the Spec)
Inv_Ref == /\ \A n \in Names : g.reg[n] = ns[n]
           /\ g.rec = rec
TypeOK  == supply \in Nat /\ (\A o \in Owners : bal[o] \in Nat) /\ price \in 0..MaxPrice

=============================================================================
