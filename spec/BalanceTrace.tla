----------------------------- MODULE BalanceTrace -----------------------------
(***************************************************************************)
(* Trace monitor: evaluates the properties C01/C02/C09 (deciding) and the  *)
(* actions of Balance.tla (binding) on executions recorded from the real   *)
(* Balance contract by harness/balance.  The state variables of the Spec   *)
(* are bound to the observed state of every line, so each check is a       *)
(* boolean evaluation; a failing check prints a FLAG line and the monitor  *)
(* goes on, so every offending line of every trace is reported.            *)
(***************************************************************************)
EXTENDS Balance, Json, SequencesExt

CONSTANT TraceFile

VARIABLES l, lk
tvars == <<acc, supply, used, epoch, ev, l, lk>>

Trace == ndJsonDeserialize(TraceFile)

M_Users      == {"u1", "u2", "u3", "u4", "kc", "self"}   \* "self": the Balance contract's own address (no witness exists)
M_LockSeq    == <<"l1", "l2", "l3", "l4", "l5", "l6">>
M_LockSeqMany == [i \in 1..40 |-> "l" \o ToString(i)]     \* the many-locks pass (BalanceTraceMany.cfg)

EvOf(r) == Event(r.act, ToSet(r.S), r.a, r.b, r.amt, r.x, r.res, r.ret, r.ntf)
AccOf(o) == [a \in Acc |-> [ex |-> o.acc[a].ex, bal |-> o.api[a], until |-> o.acc[a].until, parent |-> o.acc[a].parent]]

Flag(ok, prop, pred, r, tags) ==
  IF ok THEN TRUE
  ELSE PrintT("FLAG|" \o ToString(l + 1) \o "|" \o prop \o "|" \o pred \o "|" \o r.act \o "|" \o ToString(r.t)
              \o "|" \o ToString(tags))

\* deviation tags: predicates over one line that explain a failure by a listed known finding
Tags(r) ==
  (IF \E a \in Locks : (lk[a].st = "locked" /\ lk[a].until = 0) \/ (lk'[a].st = "locked" /\ lk'[a].until = 0)
   THEN {"LockUntilZero"} ELSE {})
  \cup (IF r.amt < 0 THEN {"NegativeAmount"} ELSE {})

SpecStep(r) ==
  LET e == EvOf(r) IN
  CASE r.act = "transfer"    -> Transfer(e.S, e.a, e.b, e.amt, FALSE)
    [] r.act = "transferVia" -> Transfer(e.S, e.a, e.b, e.amt, TRUE)
    [] r.act = "transferX"   -> TransferX(e.S, e.a, e.b, e.amt)
    \* r.nd: the free-form details argument was Null; mint/burn/lock prepend a prefix with append(prefix, details...),
    \* which FAULTs on Null (platform behaviour, found when the driver started to vary the ignored arguments)
    [] r.act = "mint"        -> IF r.nd THEN Fault("mint", e.S, Nil, e.b, e.amt, 0) ELSE Mint(e.S, e.b, e.amt)
    [] r.act = "burn"        -> IF r.nd THEN Fault("burn", e.S, e.a, Nil, e.amt, 0) ELSE Burn(e.S, e.a, e.amt)
    [] r.act = "lock"        -> IF r.nd THEN Fault("lock", e.S, e.a, e.b, e.amt, e.x) ELSE Lock(e.S, e.a, e.b, e.amt, e.x)
    [] r.act = "newEpoch"    -> NewEpoch(e.S, e.x)
    [] r.act = "newEpochNM"  -> NewEpochNM(e.S, e.x)
    [] OTHER -> FALSE

\* the raw storage must agree with what the API reports (otherwise the Spec state is ambiguous)
RawApi(o) == /\ \A a \in Acc : o.acc[a].bal = o.api[a]
             /\ o.rawSupply = o.supply

\* r.nf: the scenario locks onto addresses that already hold an ordinary entry (outside C01's quantifier - the entry's
\* balance is overwritten - but inside C09's): only the C09 predicates and the binding are judged on such traces
Judge(r) ==
  LET e == EvOf(r)
      t == Tags(r)
  IN  /\ Flag(r.nf \/ C01_SupplyIsSum, "C01", "SupplyIsSum", r, t)
      /\ Flag(r.nf \/ C01_NoNegative, "C01", "NoNegative", r, t)
      /\ Flag(r.nf \/ C01_SupplyDelta(e), "C01", "SupplyDelta", r, t)
      /\ Flag(r.nf \/ C01_FailedInert(e), "C01", "FailedInert", r, t)
      /\ Flag(r.nf \/ C01_Announced(e), "C01", "Announced", r, t)
      /\ Flag(r.bad = <<>> /\ r.obs.stray = <<>>, "C01", "NoStrayOrFractional", r, t)
      /\ Flag(r.nf \/ C02_AuthorisedDebit(e), "C02", "AuthorisedDebit", r, t)
      /\ Flag(r.nf \/ C02_PublicTransfer(e), "C02", "PublicTransfer", r, t)
      /\ Flag(C09_NoEarly(lk, e), "C09", "NoEarly", r, t)
      /\ Flag(C09_AtExpiry(lk, e), "C09", "AtExpiry", r, t)
      /\ Flag(C09_Stays(lk, e), "C09", "Stays", r, t)
      /\ Flag(C09_Once(lk, e), "C09", "Once", r, t)
      /\ Flag(C09_BurnReduces(lk, e), "C09", "BurnReduces", r, t)
      /\ Flag(RawApi(r.obs), "DRIFT", "RawApi", r, t)
      /\ Flag(SpecStep(r), "DRIFT", "SpecStep", r, t)

TraceInit ==
  /\ l = 0
  /\ acc = [a \in Acc |-> Absent] /\ supply = 0 /\ used = {} /\ epoch = 0
  /\ ev = Event("init", {}, Nil, Nil, 0, 0, "HALT", "null", NoNtf)
  /\ lk = LkInit

TraceNext ==
  /\ l < Len(Trace)
  /\ l' = l + 1
  /\ LET r == Trace[l + 1]
         o == r.obs
     IN  /\ acc' = AccOf(o)
         /\ supply' = o.supply
         /\ epoch' = o.epoch
         /\ ev' = EvOf(r)
         /\ IF r.act = "reset"
            THEN used' = {} /\ lk' = LkInit
            ELSE /\ used' = IF r.act = "lock" /\ r.res = "HALT" THEN used \cup {r.b} ELSE used
                 /\ lk' = LkNext(lk, ev')
                 /\ Judge(r)
         /\ IF l' = Len(Trace) THEN PrintT("DONE|" \o ToString(l')) ELSE TRUE

TraceSpec == TraceInit /\ [][TraceNext]_tvars
=============================================================================
