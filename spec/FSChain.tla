------------------------------- MODULE FSChain -------------------------------
(***************************************************************************)
(* COMPOSITION of the FS-chain contracts as they interact inside single    *)
(* transactions (check X01).  The per-contract fragments are the modules   *)
(* FSChainBalance / Netmap / Container / NNS / NeoFSID / Alphabet; this    *)
(* module wires them into transactions:                                    *)
(*                                                                         *)
(*   tick      netmap.newEpoch(e) -> for every subscriber in subscription   *)
(*             order: balance.newEpoch(e) (release loop), container.       *)
(*             newEpoch(e) (estimation sweep), probe.newEpoch(e) (journal)  *)
(*   put       container.put/putNamed -> netmap.config x2, balance.        *)
(*             balanceOf, balance.transferX x |Alphabet|, nns.register +    *)
(*             addRecord (+ deleteRecords of a former alias), neofsid.     *)
(*             addKey (token-less), in code order                          *)
(*   delete, estPut, mint, lock, burn, setFee, sub, rej, tickB, tickC       *)
(*   repoint   committee re-points "netmap.neofs" to the second Netmap      *)
(*             instance nm2; tick2 = nm2.newEpoch; deployLate = a contract *)
(*             deployed afterwards (Alphabet az2 / Balance bal2) resolves   *)
(*             the record at ITS deployment                                *)
(*   vote      alphabet.vote(epoch, candidates)                            *)
(*                                                                         *)
(* The composed state is one record w; a transaction is a function         *)
(* w -> [ok, w, x] (FSChainBase); Commit installs r.w iff r.ok - this is   *)
(* the platform's atomicity over ALL contracts touched by the call tree.   *)
(* The properties X01_* at the end are predicates over one step            *)
(* (w = before, w' = after, e = the invocation); they are checked by TLC   *)
(* on this Spec and by FSChainTrace on executions of the real contracts.   *)
(***************************************************************************)
EXTENDS FSChainBalance, FSChainNetmap, FSChainContainer, FSChainNNS, FSChainNeoFSID, FSChainAlphabet

CONSTANTS
  Owners,      \* container owners / depositors (ordinary accounts)
  LockSeq,     \* lock-account addresses in byte order of their script hashes
  ANodeSeq,    \* standard accounts of the Alphabet nodes "A1".."An" (committee order)
  NAs,         \* committee sizes explored (w.na \in NAs, na <= Len(ANodeSeq))
  Cids, COwner, Names,
  Probes,      \* probe subscriber contracts (harness/contracts/netmapsub)
  IRSeq,       \* keys that may be designated as NeoFSAlphabet role ("I1".."Ik" in byte order of the keys)
  Registered,  \* registered NEO candidates
  CandLists,   \* candidate lists offered to alphabet.vote
  SignerSets, Amounts, Untils, Epochs, Fees,
  Hints,       \* BOOLEAN: add state-dependent boundary values to the argument sets (simulation)
  Acts         \* enabled actions (bounded configurations switch groups off)

Locks   == Rng(LockSeq)
ANodes  == Rng(ANodeSeq)
Alphabet(na) == {ANodeSeq[i] : i \in 1..na}
AllAcc  == Owners \cup Locks \cup ANodes
Variants == {"a", "b", "c"}           \* a: with session token, b/c: token-less, creator keys kb / kc
TokenLess(v) == v \in {"b", "c"}
KeyOf(v) == "k" \o v
AzIdx(z) == IF z = "az" THEN 0 ELSE 1
SubNames == {"bal", "cn"} \cup Probes

VARIABLES w, ev
vars == <<w, ev>>

Event(act, S, a, b, c, v, nm, amt, x, ks) ==
  [act |-> act, S |-> S, a |-> a, b |-> b, c |-> c, v |-> v, nm |-> nm, amt |-> amt, x |-> x, ks |-> ks,
   res |-> "HALT", xfer |-> <<>>]

Commit(e, r) ==
  /\ w' = IF r.ok THEN r.w ELSE w
  /\ ev' = [e EXCEPT !.res = IF r.ok THEN "HALT" ELSE "FAULT", !.xfer = IF r.ok THEN r.x ELSE <<>>]

EpochOf(W, nm) == IF nm = "nm1" THEN W.epoch ELSE W.epoch2

-----------------------------------------------------------------------------
(* Balance, Alphabet-only entry points *)
T_Mint(W, S, o, amt) ==
  LET r == BXfer(W.acc, Nil, o, amt, "mint", 0, Nil)
  IN  IF HasAlpha(S) /\ r.ok THEN Ok([W EXCEPT !.acc = r.acc, !.supply = @ + amt], r.x) ELSE Fail(W)

T_Burn(W, S, a, amt) ==
  LET r == BXfer(W.acc, a, Nil, amt, "burn", 0, Nil)
  IN  IF HasAlpha(S) /\ r.ok /\ W.supply >= amt THEN Ok([W EXCEPT !.acc = r.acc, !.supply = @ - amt], r.x) ELSE Fail(W)

T_Lock(W, S, o, l, amt, until) ==
  LET r == BLock(W.acc, o, l, amt, until)
  IN  IF HasAlpha(S) /\ r.ok THEN Ok([W EXCEPT !.acc = r.acc], r.x) ELSE Fail(W)

(* Netmap *)
T_SetFee(W, S, k, val) ==
  IF ~HasAlpha(S) THEN Fail(W)
  ELSE IF k = "fee" THEN Ok([W EXCEPT !.fee = val], <<>>) ELSE Ok([W EXCEPT !.afee = val], <<>>)

T_Sub(W, S, s) == IF HasAlpha(S) THEN Ok([W EXCEPT !.subs = NSubscribe(@, s)], <<>>) ELSE Fail(W)

T_Rej(W, p, on) == Ok([W EXCEPT !.rej = IF on = 1 THEN @ \cup {p} ELSE @ \ {p}], <<>>)

\* one callback of the fan-out: contract.Call(subscriber, "newEpoch", All, e); an exception aborts everything
Callback(r, s, e) ==
  CASE s = "bal" -> LET q == BRelease(r.w.acc, r.w.acc, e, LockSeq, 1, <<>>)
                    IN  Ok([r.w EXCEPT !.acc = q.acc], r.x \o q.x)
    [] s = "cn"  -> Ok([r.w EXCEPT !.est = CCleanup(@, e)], r.x)
    [] s \in Probes -> IF s \in r.w.rej THEN Fail(r.w)
                       ELSE Ok([r.w EXCEPT !.journal = Append(@, [s |-> s, e |-> e])], r.x)
    [] OTHER -> r      \* bal2: a Balance instance without accounts

RECURSIVE FanOut(_, _, _, _)
FanOut(r, subs, e, i) ==
  IF i > Len(subs) \/ ~r.ok THEN r ELSE FanOut(Callback(r, subs[i], e), subs, e, i + 1)

T_Tick(W, S, e) ==
  IF HasAlpha(S) /\ NEpochOk(W.epoch, e)
  THEN FanOut(Ok([W EXCEPT !.epoch = e], <<>>), W.subs, e, 1)
  ELSE Fail(W)

T_Tick2(W, S, e) ==
  IF HasAlpha(S) /\ NEpochOk(W.epoch2, e)
  THEN FanOut(Ok([W EXCEPT !.epoch2 = e], <<>>), W.subs2, e, 1)
  ELSE Fail(W)

\* the subscribers' entry points called directly by the Alphabet
T_TickB(W, S, e) == IF HasAlpha(S) THEN Callback(Ok(W, <<>>), "bal", e) ELSE Fail(W)
T_TickC(W, S, e) == IF HasAlpha(S) THEN Callback(Ok(W, <<>>), "cn", e) ELSE Fail(W)

(* Container *)
RECURSIVE FeeLoop(_, _, _, _, _, _, _)
FeeLoop(A, o, F, c, na, i, x) ==
  IF i > na THEN [ok |-> TRUE, acc |-> A, x |-> x]
  ELSE LET r == BXfer(A, o, ANodeSeq[i], F, "cfee", 0, c)
       IN  IF ~r.ok THEN [ok |-> FALSE, acc |-> A, x |-> <<>>] ELSE FeeLoop(r.acc, o, F, c, na, i + 1, x \o r.x)

T_Put(W, S, c, v, nm) ==
  LET o    == COwner[c]
      chk  == IF nm = Nil THEN "none" ELSE CNameCheck(W.dom, W.txt, nm)
      F    == W.fee + (IF nm # Nil THEN W.afee ELSE 0)
      r    == FeeLoop(W.acc, o, F, c, W.na, 1, <<>>)
      old  == W.alias[c]
      dom1 == IF chk = "register" THEN NRegister(W.dom, nm) ELSE W.dom
      txt1 == IF nm = Nil THEN W.txt      \* addRecord, then the records of a former alias domain are deleted
              ELSE LET t == NAddTxt(W.txt, nm, c) IN IF old # Nil THEN NDelTxt(t, old) ELSE t
  IN  IF c \in W.tomb \/ chk = "taken" \/ W.acc[o].bal < F * W.na \/ ~HasAlpha(S) \/ ~r.ok THEN Fail(W)
      ELSE Ok([W EXCEPT !.acc = r.acc, !.live[c] = v, !.dom = dom1, !.txt = txt1,
                        !.alias[c] = IF nm = Nil THEN @ ELSE nm,
                        !.idk = IF TokenLess(v) THEN IAddKey(@, o, KeyOf(v)) ELSE @], r.x)

T_Delete(W, S, c) ==
  IF W.live[c] = "none" THEN Ok(W, <<>>)         \* returns before the witness check
  ELSE IF ~HasAlpha(S) THEN Fail(W)
  ELSE Ok([W EXCEPT !.live[c] = "none", !.tomb = @ \cup {c}, !.alias[c] = Nil,
                    !.txt = IF W.alias[c] # Nil THEN NDelTxt(@, W.alias[c]) ELSE @], <<>>)

\* putContainerSize(e, cid, size, key of node K1); K1 is in the previous epoch's network map
T_EstPut(W, S, e, c) ==
  IF W.live[c] = "none" \/ "K1" \notin S THEN Fail(W)
  ELSE LET q == CEstPut(W.est, W.elist[c], e, c) IN Ok([W EXCEPT !.est = q.est, !.elist[c] = q.el], <<>>)

(* NNS record of the Netmap contract, contracts deployed later *)
T_Repoint(W, S, t) == IF NRepointOk(S) THEN Ok([W EXCEPT !.ptr = t], <<>>) ELSE Fail(W)

Bal2Deployed(W) == "bal2" \in Rng(W.subs) \cup Rng(W.subs2)
T_DeployLate(W, z) ==
  IF z = "az2"
  THEN IF W.azNm[z] # "none" THEN Fail(W) ELSE Ok([W EXCEPT !.azNm[z] = W.ptr], <<>>)
  ELSE IF Bal2Deployed(W) THEN Fail(W)
       ELSE IF W.ptr = "nm1" THEN Ok([W EXCEPT !.subs = Append(@, "bal2")], <<>>)
            ELSE Ok([W EXCEPT !.subs2 = Append(@, "bal2")], <<>>)

(* Alphabet *)
T_Vote(W, S, z, e, ks) ==
  IF W.azNm[z] = "none" \/ ~HasAlpha(S) \/ e # EpochOf(W, W.azNm[z]) \/ Len(ks) = 0 THEN Fail(W)
  ELSE Ok([W EXCEPT !.voted = AVote(@, z, AzIdx(z), ks, Registered)], <<>>)

(* native RoleManagement as Netmap.innerRingList / Alphabet.emit read it: designateAsRole(NeoFSAlphabet, keys) by the
   committee; the stored list is sorted by key; an empty list is refused *)
T_Designate(W, S, ks) ==
  IF ~HasCmt(S) \/ Len(ks) = 0 THEN Fail(W)
  ELSE Ok([W EXCEPT !.irl = SelectSeq(IRSeq, LAMBDA k : k \in Rng(ks))], <<>>)

-----------------------------------------------------------------------------
Designate(S, ks)          == Commit(Event("designate", S, Nil, Nil, Nil, Nil, Nil, 0, 0, ks), T_Designate(w, S, ks))
Mint(S, o, amt)           == Commit(Event("mint", S, o, Nil, Nil, Nil, Nil, amt, 0, <<>>), T_Mint(w, S, o, amt))
Burn(S, a, amt)           == Commit(Event("burn", S, a, Nil, Nil, Nil, Nil, amt, 0, <<>>), T_Burn(w, S, a, amt))
Lock(S, o, l, amt, until) == Commit(Event("lock", S, o, l, Nil, Nil, Nil, amt, until, <<>>), T_Lock(w, S, o, l, amt, until))
SetFee(S, k, val)         == Commit(Event("setFee", S, k, Nil, Nil, Nil, Nil, val, 0, <<>>), T_SetFee(w, S, k, val))
Sub(S, s)                 == Commit(Event("sub", S, s, Nil, Nil, Nil, Nil, 0, 0, <<>>), T_Sub(w, S, s))
Rej(p, on)                == Commit(Event("rej", {}, p, Nil, Nil, Nil, Nil, on, 0, <<>>), T_Rej(w, p, on))
Tick(S, e)                == Commit(Event("tick", S, Nil, Nil, Nil, Nil, Nil, 0, e, <<>>), T_Tick(w, S, e))
Tick2(S, e)               == Commit(Event("tick2", S, Nil, Nil, Nil, Nil, Nil, 0, e, <<>>), T_Tick2(w, S, e))
TickB(S, e)               == Commit(Event("tickB", S, Nil, Nil, Nil, Nil, Nil, 0, e, <<>>), T_TickB(w, S, e))
TickC(S, e)               == Commit(Event("tickC", S, Nil, Nil, Nil, Nil, Nil, 0, e, <<>>), T_TickC(w, S, e))
Put(S, c, v, nm)          == Commit(Event("put", S, Nil, Nil, c, v, nm, 0, 0, <<>>), T_Put(w, S, c, v, nm))
Delete(S, c)              == Commit(Event("delete", S, Nil, Nil, c, Nil, Nil, 0, 0, <<>>), T_Delete(w, S, c))
EstPut(S, e, c)           == Commit(Event("estPut", S, Nil, Nil, c, Nil, Nil, 0, e, <<>>), T_EstPut(w, S, e, c))
Repoint(S, t)             == Commit(Event("repoint", S, t, Nil, Nil, Nil, Nil, 0, 0, <<>>), T_Repoint(w, S, t))
DeployLate(z)             == Commit(Event("deployLate", {"ALPHA"}, z, Nil, Nil, Nil, Nil, 0, 0, <<>>), T_DeployLate(w, z))
Vote(S, z, e, ks)         == Commit(Event("vote", S, z, Nil, Nil, Nil, Nil, 0, e, ks), T_Vote(w, S, z, e, ks))

InitW(na) ==
  [na |-> na, epoch |-> 2, epoch2 |-> 0, subs |-> <<"bal", "cn">>, subs2 |-> <<>>, fee |-> 0, afee |-> 0,
   acc |-> [a \in AllAcc |-> Absent], supply |-> 0,
   live |-> [c \in Cids |-> "none"], tomb |-> {}, alias |-> [c \in Cids |-> Nil],
   est |-> {}, elist |-> [c \in Cids |-> <<>>],
   dom |-> [n \in Names |-> "free"], txt |-> [n \in Names |-> Nil], ptr |-> "nm1",
   idk |-> [o \in Owners |-> {}], journal |-> <<>>, rej |-> {},
   azNm |-> [z \in {"az", "az2"} |-> IF z = "az" THEN "nm1" ELSE "none"],
   voted |-> [z \in {"az", "az2"} |-> Nil],
   irl |-> <<>>,         \* netmap.innerRingList() = the designated NeoFSAlphabet keys
   others |-> "d0"]      \* digest class of the storages of Reputation, Audit and Proxy (bystanders)

Init == /\ \E na \in NAs : w = InitW(na)
        /\ ev = Event("init", {}, Nil, Nil, Nil, Nil, Nil, 0, 0, <<>>)

\* amounts at the boundary of the holder's balance / of the charge are always among the candidates
Hint(a) == IF Hints THEN {w.acc[a].bal, w.acc[a].bal + 1} ELSE {}
NeedHint == IF Hints THEN {(w.fee + w.afee) * w.na, w.fee * w.na, w.fee * w.na - 1} \cap Nat ELSE {}
EHint == IF Hints THEN {w.epoch, w.epoch + 1, w.epoch + 5} ELSE {}
On(a) == a \in Acts

IRLists == ({<<>>} \cup {<<k>> : k \in Rng(IRSeq)} \cup {<<k1, k2>> : k1 \in Rng(IRSeq), k2 \in Rng(IRSeq)})
             \ {<<k, k>> : k \in Rng(IRSeq)}
\* P(X) = X for exhaustive checking, P(X) = {RandomElement(X)} for scenario generation
NextOf(P(_), PS(_)) ==
  \/ On("mint") /\ \E S \in PS(SignerSets), o \in P(Owners) : \E m \in P(Amounts \cup NeedHint) : Mint(S, o, m)
  \/ On("burn") /\ \E S \in PS(SignerSets), a \in P(Owners \cup Locks) : \E m \in P(Amounts \cup Hint(a)) : Burn(S, a, m)
  \/ On("lock") /\ \E S \in PS(SignerSets), o \in P(Owners), l \in P({l \in Locks : ~w.acc[l].ex}) :
        \E m \in P(Amounts \cup Hint(o)), u \in P(Untils \cup EHint) : Lock(S, o, l, m, u)
        \* lock targets are fresh addresses (quantifier of C01/C09, see spec/Balance.tla)
  \/ On("setFee") /\ \E S \in PS(SignerSets), k \in P({"fee", "afee"}), f \in P(Fees) : SetFee(S, k, f)
  \/ On("sub") /\ \E S \in PS(SignerSets), s \in P(SubNames) : Sub(S, s)
  \/ On("rej") /\ \E p \in P(Probes), on \in P({0, 1}) : Rej(p, on)
  \/ On("tick") /\ \E S \in PS(SignerSets), e \in P(Epochs \cup EHint) : Tick(S, e)
  \/ On("tick2") /\ \E S \in PS(SignerSets), e \in P(Epochs) : Tick2(S, e)
  \/ On("tickB") /\ \E S \in PS(SignerSets), e \in P(Epochs \cup EHint) : TickB(S, e)
  \/ On("tickC") /\ \E S \in PS(SignerSets), e \in P(Epochs \cup EHint) : TickC(S, e)
  \/ On("put") /\ \E S \in PS(SignerSets), c \in P(Cids), v \in P(Variants), nm \in P(Names \cup {Nil}) : Put(S, c, v, nm)
  \/ On("delete") /\ \E S \in PS(SignerSets), c \in P(Cids) : Delete(S, c)
  \/ On("estPut") /\ \E S \in PS(SignerSets \cup {{"K1"}}), e \in P(Epochs \cup EHint), c \in P(Cids) : EstPut(S, e, c)
  \/ On("repoint") /\ \E S \in PS(SignerSets), t \in P({"nm1", "nm2"}) : Repoint(S, t)
  \/ On("deployLate") /\ \E z \in P({"az2", "bal2"}) : DeployLate(z)
  \/ On("designate") /\ \E S \in PS(SignerSets), ks \in P(IRLists) : Designate(S, ks)
  \/ On("vote") /\ \E S \in PS(SignerSets), z \in P({"az", "az2"}), e \in P(Epochs \cup {w.epoch, w.epoch2}), ks \in P(CandLists) :
        Vote(S, z, e, ks)

All(X) == X
Next == NextOf(All, All)
Spec == Init /\ [][Next]_vars

-----------------------------------------------------------------------------
(***************************************************************************)
(* Properties X01, as predicates over one step (e = ev').                  *)
(***************************************************************************)
Halt(e)   == e.res = "HALT"
Bals(A)   == [a \in AllAcc |-> A[a].bal]
Total(A)  == SumOver(Bals(A), AllAcc)
NoDup(s)  == Cardinality(Rng(s)) = Len(s)
PrefixOf(s, t) == Len(s) <= Len(t) /\ \A i \in 1..Len(s) : s[i] = t[i]
Added(s, t) == SubSeq(t, Len(s) + 1, Len(t))      \* what t adds to its prefix s
ProbeSubs(subs) == SelectSeq(subs, LAMBDA s : s \in Probes)

\* ---- A. global accounting over ALL accounts (owners, Alphabet nodes, lock accounts) ----
X01_SupplyIsSum == w'.supply - Total(w'.acc) = w.supply - Total(w.acc)
Inv_SupplyIsSum == w.supply = Total(w.acc)
X01_NoNegative  == \A a \in AllAcc : w.acc[a].bal >= 0 => w'.acc[a].bal >= 0
Inv_NoNegative  == \A a \in AllAcc : w.acc[a].bal >= 0
X01_SupplyDelta(e) ==
  w'.supply - w.supply = IF Halt(e) /\ e.act = "mint" THEN e.amt ELSE IF Halt(e) /\ e.act = "burn" THEN -e.amt ELSE 0

\* ---- B. atomicity over all contracts: a FAULT anywhere leaves EVERYTHING unchanged ----
X01_FaultInert(e) == e.res = "FAULT" => w' = w /\ e.xfer = <<>>

\* which parts of the composed state an action may touch at all (nothing lost, nothing double-counted, no bystander)
Touch(act) ==
  CASE act \in {"mint", "burn"} -> {"acc", "supply"}
    [] act = "lock"       -> {"acc"}
    [] act = "setFee"     -> {"fee", "afee"}
    [] act = "sub"        -> {"subs"}
    [] act = "rej"        -> {"rej"}
    [] act = "tick"       -> {"epoch", "acc", "est", "journal"}
    [] act = "tick2"      -> {"epoch2"}
    [] act = "tickB"      -> {"acc"}
    [] act = "tickC"      -> {"est"}
    [] act = "put"        -> {"acc", "live", "alias", "dom", "txt", "idk"}
    [] act = "delete"     -> {"live", "tomb", "alias", "txt"}
    [] act = "estPut"     -> {"est", "elist"}
    [] act = "repoint"    -> {"ptr"}
    [] act = "deployLate" -> {"azNm", "subs", "subs2"}
    [] act = "vote"       -> {"voted"}
    [] act = "designate"  -> {"irl"}
    [] OTHER -> {}
X01_Frame(e) == \A f \in DOMAIN w : w'[f] # w[f] => f \in Touch(e.act)

\* ---- C. epoch tick (priority 1) ----
IsTick(e) == e.act = "tick" /\ Halt(e)
Subscribed(s) == s \in Rng(w.subs)
Expiring(A, x) == {l \in Locks : A[l].ex /\ A[l].parent # Nil /\ x >= A[l].until}
Swept(est, x) == {q \in est : x - q.e <= TotalCleanupDelta}

\* after a HALTed tick every contract's own logic has seen the SAME epoch e
X01_TickEpoch(e) ==
  IsTick(e) =>
    /\ w'.epoch = e.x
    /\ \A i \in 1..Len(e.xfer) : e.xfer[i].k = "unlock" /\ e.xfer[i].x = e.x
    /\ Subscribed("cn") => w'.est = Swept(w.est, e.x)
    /\ PrefixOf(w.journal, w'.journal) /\ \A i \in 1..Len(w'.journal) : i > Len(w.journal) => w'.journal[i].e = e.x

\* the effects of ALL subscribers are present
X01_TickAll(e) ==
  IsTick(e) =>
    /\ Subscribed("bal") =>
         /\ \A l \in Expiring(w.acc, e.x) : w'.acc[l].bal = 0
         /\ \A l \in Locks \ Expiring(w.acc, e.x) : w'.acc[l] = w.acc[l]
         /\ \A p \in Owners : w'.acc[p].bal - w.acc[p].bal =
                BalOf(w.acc, {l \in Expiring(w.acc, e.x) : w.acc[l].parent = p})
         /\ \A a \in ANodes : w'.acc[a] = w.acc[a]
    /\ Subscribed("cn") => w'.est = Swept(w.est, e.x)
    /\ \A p \in Probes : Subscribed(p) => \E i \in 1..Len(w'.journal) : i > Len(w.journal) /\ w'.journal[i].s = p

\* order of effects = subscription order; a contract subscribed twice is called once
X01_TickOrder(e) ==
  IsTick(e) => /\ PrefixOf(w.journal, w'.journal)
               /\ Added(w.journal, w'.journal) = [i \in 1..Len(ProbeSubs(w.subs)) |-> [s |-> ProbeSubs(w.subs)[i], e |-> e.x]]

\* if ANY subscriber faults NOTHING of the tick is visible in ANY contract
X01_TickRejected(e) ==
  e.act = "tick" /\ (\E p \in Probes : Subscribed(p) /\ p \in w.rej) => w' = w /\ e.xfer = <<>>
X01_TickGuard(e) == e.act = "tick" /\ (~HasAlpha(e.S) \/ e.x <= w.epoch) => w' = w
\* nobody but a HALTed Netmap tick moves the epoch or writes the journal; direct calls of the subscribers do not
X01_EpochOwner(e) ==
  /\ w'.epoch # w.epoch \/ w'.journal # w.journal => IsTick(e)
  /\ w'.epoch2 # w.epoch2 => e.act = "tick2" /\ Halt(e) /\ w'.epoch2 = e.x /\ e.x > w.epoch2 /\ HasAlpha(e.S)

\* subscription list: ordered, append-only, duplicate-free
X01_SubOnce(e) ==
  /\ NoDup(w.subs) => NoDup(w'.subs)
  /\ PrefixOf(w.subs, w'.subs)
  /\ e.act = "sub" /\ Halt(e) => HasAlpha(e.S) /\ w'.subs = IF e.a \in Rng(w.subs) THEN w.subs ELSE Append(w.subs, e.a)

\* ---- D. fee flow of container creation (priority 2) ----
IsPut(e) == e.act = "put" /\ Halt(e)
FeeOf(e) == w.fee + (IF e.nm # Nil THEN w.afee ELSE 0)
NameTaken(e) == e.nm # Nil /\ w.dom[e.nm] # "free" /\ w.txt[e.nm] # Nil

X01_PutCharge(e) ==
  IsPut(e) =>
    LET o == COwner[e.c]  F == FeeOf(e) IN
    /\ w.acc[o].bal >= F * w.na
    /\ w'.acc[o].bal = w.acc[o].bal - F * w.na
    /\ \A a \in Alphabet(w.na) : w'.acc[a].bal = w.acc[a].bal + F
    /\ \A a \in AllAcc \ (Alphabet(w.na) \cup {o}) : w'.acc[a] = w.acc[a]
    /\ w'.supply = w.supply
    /\ Len(e.xfer) = w.na
    /\ \A i \in 1..Len(e.xfer) : /\ e.xfer[i].from = o /\ e.xfer[i].amt = F /\ e.xfer[i].k = "cfee" /\ e.xfer[i].c = e.c
                                 /\ e.xfer[i].to \in Alphabet(w.na)
    /\ \A a \in Alphabet(w.na) : \E i \in 1..Len(e.xfer) : e.xfer[i].to = a

X01_PutRegisters(e) ==
  IsPut(e) =>
    LET o == COwner[e.c] IN
    /\ HasAlpha(e.S) /\ e.c \notin w.tomb /\ ~NameTaken(e)
    /\ w'.live[e.c] = e.v /\ e.c \notin w'.tomb
    /\ e.nm # Nil => w'.txt[e.nm] = e.c /\ w'.alias[e.c] = e.nm /\ w'.dom[e.nm] = "self"
    /\ e.nm = Nil => w'.alias = w.alias /\ w'.txt = w.txt /\ w'.dom = w.dom
    /\ w'.idk = IF TokenLess(e.v) THEN [w.idk EXCEPT ![o] = @ \cup {KeyOf(e.v)}] ELSE w.idk

\* a refusal for ANY reason leaves Balance, NNS, NeoFSID and Container unchanged together - also when the code
\* does not fault (the statement forbids a HALT that keeps a part of the effects)
X01_PutRefused(e) ==
  e.act = "put" /\ (e.c \in w.tomb \/ NameTaken(e) \/ w.acc[COwner[e.c]].bal < FeeOf(e) * w.na \/ ~HasAlpha(e.S))
     => w' = w /\ e.xfer = <<>>

\* ---- E. name resolution (priority 3): stored hashes vs. the NNS record ----
X01_Repoint(e) == e.act = "repoint" /\ Halt(e) => HasCmt(e.S) /\ w'.ptr = e.a
\* a contract deployed later binds to the Netmap instance the record names AT ITS DEPLOYMENT
X01_LateFollows(e) ==
  e.act = "deployLate" /\ Halt(e) =>
    /\ e.a = "az2" => w'.azNm["az2"] = w.ptr /\ w'.azNm["az"] = w.azNm["az"] /\ w'.subs = w.subs /\ w'.subs2 = w.subs2
    /\ e.a = "bal2" => /\ w'.azNm = w.azNm
                       /\ IF w.ptr = "nm1" THEN w'.subs = Append(w.subs, "bal2") /\ w'.subs2 = w.subs2
                          ELSE w'.subs2 = Append(w.subs2, "bal2") /\ w'.subs = w.subs
\* (that put keeps charging by the configuration of the Netmap instance stored at Container's deployment is part of
\*  X01_PutCharge: w.fee is read from that instance, the other instance carries another fee)

\* ---- F. Alphabet contract (priority 4) ----
X01_Vote(e) ==
  e.act = "vote" =>
    LET z == e.a IN
    /\ Halt(e) => /\ w.azNm[z] # "none" /\ HasAlpha(e.S) /\ Len(e.ks) > 0
                  /\ e.x = EpochOf(w, w.azNm[z])       \* the epoch of the instance stored at deployment
                  /\ w'.voted = IF ACandidate(AzIdx(z), e.ks) \in Registered
                                THEN [w.voted EXCEPT ![z] = ACandidate(AzIdx(z), e.ks)] ELSE w.voted
    /\ (w.azNm[z] = "none" \/ ~HasAlpha(e.S) \/ e.x # EpochOf(w, w.azNm[z])) => w' = w

\* ---- G. withdraw cycle as seen from the FS chain (priority 5) ----
IsRelease(e) == e.act \in {"tick", "tickB"} /\ Halt(e)
X01_LockStays(e) ==
  \A l \in Locks : w.acc[l].ex /\ w.acc[l].parent # Nil /\ w'.acc[l].bal < w.acc[l].bal =>
       \/ e.act = "burn" /\ Halt(e) /\ e.a = l /\ w'.acc[l].bal = w.acc[l].bal - e.amt
       \/ IsRelease(e) /\ l \in Expiring(w.acc, e.x)
X01_NoEarly(e) ==
  IsRelease(e) => \A l \in Locks : w.acc[l].ex /\ w.acc[l].parent # Nil /\ e.x < w.acc[l].until => w'.acc[l] = w.acc[l]
X01_LockMoves(e) ==
  e.act = "lock" /\ Halt(e) =>
     /\ w'.acc[e.b] = [ex |-> TRUE, bal |-> e.amt, until |-> e.x, parent |-> e.a]
     /\ w'.acc[e.a].bal = w.acc[e.a].bal - e.amt
     /\ \A a \in AllAcc \ {e.a, e.b} : w'.acc[a] = w.acc[a]

\* Netmap.innerRingList follows the designated role (read at call time, nothing stored in Netmap)
X01_InnerRing(e) ==
  /\ e.act = "designate" /\ Halt(e) => HasCmt(e.S) /\ Rng(w'.irl) = Rng(e.ks) /\ Len(w'.irl) = Cardinality(Rng(e.ks))
  /\ w'.irl # w.irl => e.act = "designate" /\ Halt(e)

X01_All(e) ==
  /\ X01_SupplyIsSum /\ X01_NoNegative /\ X01_SupplyDelta(e) /\ X01_FaultInert(e) /\ X01_Frame(e)
  /\ X01_TickEpoch(e) /\ X01_TickAll(e) /\ X01_TickOrder(e) /\ X01_TickRejected(e) /\ X01_TickGuard(e)
  /\ X01_EpochOwner(e) /\ X01_SubOnce(e)
  /\ X01_PutCharge(e) /\ X01_PutRegisters(e) /\ X01_PutRefused(e)
  /\ X01_Repoint(e) /\ X01_LateFollows(e) /\ X01_Vote(e)
  /\ X01_LockStays(e) /\ X01_NoEarly(e) /\ X01_LockMoves(e) /\ X01_InnerRing(e)
=============================================================================
