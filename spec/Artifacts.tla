------------------------------ MODULE Artifacts ------------------------------
(***************************************************************************)
(* Deployment-order model behind property C15.                             *)
(*                                                                         *)
(* The FS-chain contract set is deployed one contract at a time; after a   *)
(* successful deployment the contract is registered as <name>.neofs in     *)
(* NNS (what deploy.Deploy does).  A contract's _deploy resolves the       *)
(* contracts it depends on through NNS and FAULTs when one is missing:     *)
(*   balance   : SubscribeForNewEpoch -> netmap                            *)
(*   container : netmap, balance, neofsid (+ SubscribeForNewEpoch)         *)
(*   alphabet  : netmap, proxy                                             *)
(*   everything but nns itself needs nns (id 1) to be registered           *)
(* C15 demands that contracts.GetFS() returns the set in an order in which *)
(* every deployment succeeds.                                              *)
(***************************************************************************)
EXTENDS Integers, Sequences, FiniteSets, TLC

Contracts == {"nns", "proxy", "audit", "netmap", "balance", "reputation", "neofsid", "container", "alphabet"}

Deps == [c \in Contracts |->
           CASE c = "nns"       -> {}
             [] c = "balance"   -> {"nns", "netmap"}
             [] c = "container" -> {"nns", "netmap", "balance", "neofsid"}
             [] c = "alphabet"  -> {"nns", "netmap", "proxy"}
             [] OTHER           -> {"nns"}]

VARIABLES registered, tried, ev
vars == <<registered, tried, ev>>

Init == registered = {} /\ tried = <<>> /\ ev = [act |-> "init", name |-> "", res |-> "HALT"]

Tried == {tried[i] : i \in 1..Len(tried)}

Deploy(c) ==
  /\ tried' = Append(tried, c)
  /\ IF Deps[c] \subseteq registered
     THEN registered' = registered \cup {c} /\ ev' = [act |-> "deploy", name |-> c, res |-> "HALT"]
     ELSE UNCHANGED registered /\ ev' = [act |-> "deploy", name |-> c, res |-> "FAULT"]

Next == \E c \in Contracts \ Tried : Deploy(c)
Spec == Init /\ [][Next]_vars

\* ---- design-level properties (S1) ----
DepClosed == \A c \in registered : Deps[c] \subseteq registered
Topological(s) == \A i \in 1..Len(s) : Deps[s[i]] \subseteq {s[j] : j \in 1..(i - 1)}
\* an order deploys the whole set iff it is a topological order of Deps
OrderIffAll == Len(tried) = Cardinality(Contracts) => (registered = Contracts <=> Topological(tried))

\* contracts that cannot be deployed when d is missing (transitive dependents)
RECURSIVE Dependents(_, _)
Dependents(D, n) ==
  IF n = 0 THEN D
  ELSE Dependents(D \cup {c \in Contracts : Deps[c] \cap D # {}}, n - 1)
BrokenWithout(d) == Dependents({d}, Cardinality(Contracts)) \ {d}

\* ---- C15 predicates over one recorded line ----
C15_Order(e)    == e.act = "deploy" => e.res = "HALT"
=============================================================================
