// Package nnssyntax offers strings to the real NNS contract (compiled from the
// working tree, deployed on an in-process ledger) through isAvailable, register,
// registerTLD, addRecord and setRecord and records, per offered string, whether
// the contract accepted it and what the storage looked like afterwards, as
// ndjson for the trace monitor spec/NNSSyntaxTrace.tla (property C18).
//
// Two execution modes:
//
//	call  test invocations against a fixed base storage; the domains a name
//	      needs (its TLD, its parents) are registered by a script prefix inside
//	      the same invocation, so that syntax is the only thing that can make the
//	      call fail; nothing persists, every string is judged on its own
//	tx    real transactions, one per step, storage (raw and through the API)
//	      observed after every step
package nnssyntax

import (
	"encoding/hex"
	"encoding/json"
	"fmt"
	"math/rand"
	"os"
	"sort"
	"strconv"
	"strings"
	"testing"

	"github.com/nspcc-dev/neo-go/pkg/core/transaction"
	"github.com/nspcc-dev/neo-go/pkg/io"
	"github.com/nspcc-dev/neo-go/pkg/neotest"
	"github.com/nspcc-dev/neo-go/pkg/smartcontract/callflag"
	"github.com/nspcc-dev/neo-go/pkg/smartcontract/trigger"
	"github.com/nspcc-dev/neo-go/pkg/util"
	"github.com/nspcc-dev/neo-go/pkg/vm/emit"
	"github.com/nspcc-dev/neo-go/pkg/vm/stackitem"
	"github.com/stretchr/testify/require"

	"verif/harness/chain"
)

// Record types of the contract.
const (
	typA     = 1
	typCNAME = 5
	typSOA   = 6
	typTXT   = 16
	typAAAA  = 28
)

// Step is one invocation in model vocabulary (the ev record of NNSSyntax.tla).
// Strings are lists of byte values.
type Step struct {
	Act  string   `json:"act"`
	S    []string `json:"S"`
	Name []int    `json:"name"`
	Typ  int      `json:"typ"`
	ID   int      `json:"id"`
	Str  []int    `json:"s"`
}

// Item is one string of an enumeration: K = "N" (a name: offered to isAvailable,
// register, registerTLD and as CNAME data), "A" / "6" (data for A / AAAA), "D"
// (data for both), "T" (TXT data), "O" (data for the unsupported types).
type Item struct {
	K string `json:"k"`
	S []int  `json:"s"`
}

// Scenario is either a sequence of real transactions on a fresh chain (Mode
// "tx") or a batch of independent strings (Mode "call").
type Scenario struct {
	N     int    `json:"n"`
	Mode  string `json:"mode"`
	Src   string `json:"src"`
	Steps []Step `json:"steps,omitempty"`
	Items []Item `json:"items,omitempty"`
}

func bs(s []int) []byte {
	b := make([]byte, len(s))
	for i, c := range s {
		b[i] = byte(c)
	}
	return b
}

func ints(b []byte) []int {
	s := make([]int, len(b))
	for i, c := range b {
		s[i] = int(c)
	}
	return s
}

func str(s string) []int { return ints([]byte(s)) }

const (
	tldBase = "abc"
	recAdd  = "r.abc" // registered, no records: target of addRecord
	recSet  = "s.abc" // registered, one record of every type at id 0: target of setRecord
)

type world struct {
	t    *testing.T
	c    *chain.Chain
	nns  util.Uint160
	sc   *Scenario
	memo map[string]bool // call mode: name -> could be established on top of the base storage
	base map[string]bool // names present in the base storage
}

var regArgs = []any{"ops@nspcc.io", int64(3600), int64(600), int64(10 * chain.MsPerYear / 1000), int64(3600)}

func newWorld(t *testing.T, sc *Scenario, seed int64) *world {
	c := chain.New(t, sc.N, seed)
	ctr := c.Compile("nns")
	c.Deploy(ctr, nil)
	return &world{t: t, c: c, nns: ctr.Hash, sc: sc, memo: map[string]bool{}, base: map[string]bool{}}
}

// setupSteps are the registrations every scenario starts with. They are executed as recorded (and
// judged) real transactions: a contract that refuses one of these plain values is a finding, not a
// harness failure.
func setupSteps(mode string) []Step {
	C := []string{"CMT"}
	out := []Step{
		{Act: "registerTLD", S: C, Name: str(tldBase), Str: str(tldBase)},
		{Act: "register", S: C, Name: str(recAdd), Str: str(recAdd)},
	}
	if mode == "call" {
		out = append(out,
			Step{Act: "register", S: C, Name: str(recSet), Str: str(recSet)},
			Step{Act: "addRecord", S: C, Name: str(recSet), Typ: typA, Str: str("8.8.4.4")},
			Step{Act: "addRecord", S: C, Name: str(recSet), Typ: typAAAA, Str: str("2a00:1450:4001:81b::200e")},
			Step{Act: "addRecord", S: C, Name: str(recSet), Typ: typCNAME, Str: str("www.abc")},
			Step{Act: "addRecord", S: C, Name: str(recSet), Typ: typTXT, Str: str("t")})
	}
	return out
}

func (w *world) signers(S []string) []neotest.Signer {
	var out []neotest.Signer
	for _, s := range S {
		switch s {
		case "CMT":
			out = append(out, w.c.Cmt)
		default:
			require.Fail(w.t, "unknown signer "+s)
		}
	}
	return out
}

// args of the contract method for a step
func (w *world) methodArgs(st Step) (string, []any) {
	s := bs(st.Str)
	switch st.Act {
	case "isAvailable":
		return "isAvailable", []any{s}
	case "register":
		return "register", append([]any{s, w.c.Cmt.ScriptHash()}, regArgs...)
	case "registerTLD":
		return "registerTLD", append([]any{s}, regArgs...)
	case "addRecord":
		return "addRecord", []any{bs(st.Name), st.Typ, s}
	case "setRecord":
		return "setRecord", []any{bs(st.Name), st.Typ, st.ID, s}
	case "deleteRecords":
		return "deleteRecords", []any{bs(st.Name), st.Typ}
	}
	w.t.Fatalf("unknown act %q", st.Act)
	return "", nil
}

// classify maps a fault message to the class of the guard that refused the call. It is recorded
// for the binding (SpecStep) only; no property predicate looks at it.
func classify(act, fault string) string {
	has := func(subs ...string) bool {
		for _, s := range subs {
			if strings.Contains(fault, s) {
				return true
			}
		}
		return false
	}
	switch {
	case fault == "":
		return ""
	case has("invalid domain name length", "invalid domain fragment"):
		return "name"
	case has("invalid record data", "not a byte", "fragment overflows"):
		return "data"
	case has("unsupported record type"):
		return "type"
	case has("TLD not found", "TLD denied", "not a TLD", "TLD already exists", "parent domains is not registered",
		"token not found", "invalid record id", "record already exists", "maximum number of records",
		"more than one CNAME", "parent domain has", "has expired", "cannot delete soa"):
		return "state"
	case has("not witnessed", "invalid owner", "witness check failed"):
		return "auth"
	case has("invalid format", "not UTF-8", "invalid value", "too big"):
		// faults of the platform's string routines (std.atoi, std.stringSplit)
		if act == "addRecord" || act == "setRecord" {
			return "data"
		}
		return "name"
	}
	return "other"
}

// runScript performs a test invocation of a raw script signed (nominally) by signers.
func (w *world) runScript(script []byte, signers []neotest.Signer) ([]stackitem.Item, error) {
	e := w.c.E
	tx := transaction.New(script, 0)
	tx.Nonce = neotest.Nonce()
	tx.ValidUntilBlock = e.Chain.BlockHeight() + 1
	for _, acc := range chain.Dedup(signers) {
		tx.Signers = append(tx.Signers, transaction.Signer{Account: acc.ScriptHash(), Scopes: transaction.Global})
	}
	ic, err := e.Chain.GetTestVM(trigger.Application, tx, nil)
	if err != nil {
		return nil, err
	}
	defer ic.Finalize()
	ic.VM.LoadWithFlags(tx.Script, callflag.All)
	if err = ic.VM.Run(); err != nil {
		return nil, err
	}
	return ic.VM.Estack().ToArray(), nil
}

type call struct {
	method string
	args   []any
}

func (w *world) script(calls []call) []byte {
	bw := io.NewBufBinWriter()
	for _, c := range calls {
		emit.AppCall(bw.BinWriter, w.nns, c.method, callflag.All, c.args...)
	}
	require.NoError(w.t, bw.Err)
	return bw.Bytes()
}

func labels(s []byte) [][]byte {
	var out [][]byte
	cur := []byte{}
	for _, c := range s {
		if c == '.' {
			out = append(out, cur)
			cur = []byte{}
		} else {
			cur = append(cur, c)
		}
	}
	return append(out, cur)
}

func join(ls [][]byte) []byte {
	var out []byte
	for i, l := range ls {
		if i > 0 {
			out = append(out, '.')
		}
		out = append(out, l...)
	}
	return out
}

// establish tries to register, on top of the base storage, the domains `need` (TLD first, then
// longer and longer parents) and returns the calls that do it and the names it got.
// Whether a name can be established is found out by a test invocation and remembered.
func (w *world) establish(need [][]byte) ([]call, [][]int) {
	var calls []call
	var got [][]int
	cmt := []neotest.Signer{w.c.Cmt}
	for _, nm := range need {
		key := string(nm)
		if w.base[key] {
			continue
		}
		var cl call
		if len(labels(nm)) == 1 {
			cl = call{"registerTLD", append([]any{nm}, regArgs...)}
		} else {
			cl = call{"register", append([]any{nm, w.c.Cmt.ScriptHash()}, regArgs...)}
		}
		ok, seen := w.memo[key]
		if !seen {
			_, err := w.runScript(w.script(append(append([]call{}, calls...), cl)), cmt)
			ok = err == nil
			w.memo[key] = ok
		}
		if !ok {
			break
		}
		calls = append(calls, cl)
		got = append(got, ints(nm))
	}
	return calls, got
}

func retString(items []stackitem.Item) string {
	if len(items) == 0 {
		return "null"
	}
	top := items[len(items)-1]
	if top.Type() == stackitem.BooleanT {
		b, _ := top.TryBool()
		return strconv.FormatBool(b)
	}
	return "null"
}

// callStep judges one string by test invocation(s) on top of the base storage.
func (w *world) callStep(st Step) chain.Rec {
	s := bs(st.Str)
	var need [][]byte
	ls := labels(s)
	switch st.Act {
	case "isAvailable":
		if len(ls) >= 2 {
			need = [][]byte{ls[len(ls)-1]}
		}
	case "register":
		for i := len(ls) - 1; i >= 1; i-- {
			need = append(need, join(ls[i:]))
		}
	}
	var pre []call
	got := [][]int{}
	if len(need) > 0 && len(s) <= 300 {
		var g [][]int
		pre, g = w.establish(need)
		got = append(got, g...)
	}
	S := st.S
	if len(pre) > 0 && len(S) == 0 {
		S = []string{"CMT"} // the registrations of the prefix need the committee
	}
	m, args := w.methodArgs(st)
	items, err := w.runScript(w.script(append(pre, call{m, args})), w.signers(S))
	rec := chain.Rec{"act": st.Act, "mode": "call", "S": S, "name": st.Name, "typ": st.Typ, "id": st.ID, "s": st.Str,
		"pre": got}
	if err != nil {
		rec["res"], rec["ret"], rec["fault"] = "FAULT", "null", err.Error()
	} else {
		rec["res"], rec["ret"], rec["fault"] = "HALT", retString(items), ""
	}
	rec["why"] = classify(st.Act, rec["fault"].(string))
	if rec["why"] != "other" {
		rec["fault"] = "" // keeps the trace small; the text matters only when it could not be classified
	}
	return rec
}

// txStep executes one step as a real transaction in its own block.
func (w *world) txStep(st Step) chain.Rec {
	m, args := w.methodArgs(st)
	r := w.c.Run(w.nns, w.signers(st.S), m, args...)
	rec := chain.Rec{"act": st.Act, "mode": "tx", "S": st.S, "name": st.Name, "typ": st.Typ, "id": st.ID, "s": st.Str,
		"pre": [][]int{}, "res": r.Res(), "fault": r.Fault}
	if r.Halt {
		rec["ret"] = retString(r.Stack)
	} else {
		rec["ret"] = "null"
	}
	rec["why"] = classify(st.Act, r.Fault)
	return rec
}

// observe projects the contract storage into model values: the TLDs, the registered names, the
// records (except SOA), once from the raw storage and once through the API, plus a digest of
// the whole raw storage.
func (w *world) observe() map[string]any {
	roots := [][]int{}
	names := [][]int{}
	recs := []any{}
	stray := []string{}
	st := w.c.Storage(w.nns)
	keys := make([]string, 0, len(st))
	for k := range st {
		keys = append(keys, k)
	}
	sort.Strings(keys)
	for _, k := range keys {
		kb, _ := hex.DecodeString(k)
		v := st[k]
		switch {
		case len(kb) >= 1 && kb[0] == 0x20:
			roots = append(roots, ints(kb[1:]))
		case len(kb) == 21 && kb[0] == 0x21:
			it, err := stackitem.Deserialize(v)
			require.NoError(w.t, err)
			f := it.Value().([]stackitem.Item)
			names = append(names, ints(chain.ItemBytes(f[1])))
		case len(kb) == 43 && kb[0] == 0x22:
			it, err := stackitem.Deserialize(v)
			require.NoError(w.t, err)
			f := it.Value().([]stackitem.Item)
			typ := int(chain.ItemBig(f[1]).Int64())
			if typ == typSOA {
				continue
			}
			recs = append(recs, map[string]any{"name": ints(chain.ItemBytes(f[0])), "typ": typ,
				"data": ints(chain.ItemBytes(f[2])), "id": int(chain.ItemBig(f[3]).Int64())})
		case len(kb) >= 1 && (kb[0] == 0x00 || kb[0] == 0x01 || kb[0] == 0x02 || kb[0] == 0x10):
			// supply, balances, account tokens, price: owned by C10
		default:
			stray = append(stray, k)
		}
	}
	// the API view
	apiRoots := [][]int{}
	items, err := w.c.Call(w.nns, "roots")
	require.NoError(w.t, err)
	for _, it := range items[0].Value().([]stackitem.Item) {
		apiRoots = append(apiRoots, ints(chain.ItemBytes(it)))
	}
	apiRecs := []any{}
	for _, n := range []string{recAdd, recSet} {
		for _, typ := range []int{typA, typCNAME, typTXT, typAAAA} {
			items, err := w.c.Call(w.nns, "getRecords", n, typ)
			if err != nil {
				continue
			}
			for _, it := range items[0].Value().([]stackitem.Item) {
				apiRecs = append(apiRecs, map[string]any{"name": str(n), "typ": typ, "data": ints(chain.ItemBytes(it))})
			}
		}
	}
	return map[string]any{"roots": roots, "names": names, "recs": recs, "apiRoots": apiRoots, "apiRecs": apiRecs,
		"stray": stray, "sd": w.c.StorageDigest(w.nns)[:16]}
}

func resetRec(tid string, sc *Scenario, obs map[string]any) chain.Rec {
	return chain.Rec{"t": tid, "act": "reset", "mode": sc.Mode, "S": []string{}, "name": []int{}, "typ": 0, "id": 0, "s": []int{},
		"pre": [][]int{}, "res": "HALT", "ret": "null", "why": "", "fault": "", "obs": obs, "n": sc.N, "src": sc.Src}
}

// expand turns an enumeration item into the invocations that offer it to the contract.
func expand(it Item) []Step {
	C := []string{"CMT"}
	var out []Step
	name := func() {
		out = append(out, Step{Act: "isAvailable", S: []string{}, Name: it.S, Str: it.S},
			Step{Act: "register", S: C, Name: it.S, Str: it.S},
			Step{Act: "registerTLD", S: C, Name: it.S, Str: it.S},
			Step{Act: "addRecord", S: C, Name: str(recAdd), Typ: typCNAME, Str: it.S},
			Step{Act: "setRecord", S: C, Name: str(recSet), Typ: typCNAME, Str: it.S})
	}
	data := func(typ int) {
		out = append(out, Step{Act: "addRecord", S: C, Name: str(recAdd), Typ: typ, Str: it.S},
			Step{Act: "setRecord", S: C, Name: str(recSet), Typ: typ, Str: it.S})
	}
	switch it.K {
	case "N":
		name()
	case "A":
		data(typA)
	case "6":
		data(typAAAA)
	case "D":
		data(typA)
		data(typAAAA)
	case "T":
		data(typTXT)
	case "O":
		for _, typ := range []int{0, 2, typSOA, 15, 17, 33, 255} {
			out = append(out, Step{Act: "addRecord", S: C, Name: str(recAdd), Typ: typ, Str: it.S})
		}
		out = append(out, Step{Act: "setRecord", S: C, Name: str(recSet), Typ: typSOA, Str: it.S})
	}
	return out
}

func runScenario(t *testing.T, rec *chain.Recorder, idx int, sc *Scenario, seed int64) {
	w := newWorld(t, sc, seed+int64(idx))
	tid := strconv.Itoa(idx)
	rec.Emit(resetRec(tid, sc, w.observe()))
	tx := func(st Step, src string) map[string]any {
		r := w.txStep(st)
		obs := w.observe()
		r["obs"] = obs
		r["t"] = tid
		r["src"] = src
		rec.Emit(r)
		return obs
	}
	var obs map[string]any
	for _, st := range setupSteps(sc.Mode) {
		obs = tx(st, "setup")
	}
	if sc.Mode == "call" {
		for _, n := range obs["names"].([][]int) {
			w.base[string(bs(n))] = true
		}
		k := 0
		steps := sc.Steps
		for _, it := range sc.Items {
			steps = append(steps, expand(it)...)
		}
		for _, st := range steps {
			r := w.callStep(st)
			k++
			// every string is judged on its own: its own trace id, the base storage as its state
			r["t"] = tid + "." + strconv.Itoa(k)
			rec.Emit(r)
		}
		return
	}
	for _, st := range sc.Steps {
		tx(st, sc.Src)
	}
}

// ---------------------------------------------------------------------------
// seeded generators: structured mutations of valid values

func rep(c byte, n int) string { return strings.Repeat(string(c), n) }

func randLabel(r *rand.Rand, n int) string {
	const al = "abcdefghijklmnopqrstuvwxyz0123456789"
	b := make([]byte, n)
	for i := range b {
		if i > 0 && i < n-1 && r.Intn(6) == 0 {
			b[i] = '-'
		} else {
			b[i] = al[r.Intn(len(al))]
		}
	}
	return string(b)
}

func randTLD(r *rand.Rand, n int) string {
	l := []byte(randLabel(r, n))
	l[0] = byte('a' + r.Intn(26))
	return string(l)
}

// nameOfLen builds a valid name of exactly n bytes (n >= 3) ending in a TLD of tl bytes.
func nameOfLen(r *rand.Rand, n, tl int) string {
	if tl > n {
		tl = n
	}
	if n == tl || n == tl+1 { // no room for another label
		return randTLD(r, n)
	}
	rest := n - tl - 1
	var ls []string
	for rest > 0 {
		k := rest
		if k > 63 {
			k = 63
			if rest-64 == 0 { // would leave an empty label
				k = 62
			}
		}
		ls = append(ls, randLabel(r, k))
		rest -= k + 1
	}
	return strings.Join(append(ls, randTLD(r, tl)), ".")
}

func mutateName(r *rand.Rand, s string) string {
	b := []byte(s)
	if len(b) == 0 {
		return "."
	}
	p := r.Intn(len(b))
	switch r.Intn(14) {
	case 0:
		b[p] = byte('A' + r.Intn(26))
	case 1:
		b[p] = '-'
	case 2:
		b[p] = '_'
	case 3:
		b[p] = '.'
	case 4:
		b[p] = ' '
	case 5:
		b[p] = '+'
	case 6:
		b[p] = byte(128 + r.Intn(128))
	case 7:
		b[p] = 0
	case 8:
		return s + "."
	case 9:
		return "." + s
	case 10:
		return s + "-"
	case 11:
		return "-" + s
	case 12:
		return string(b[:p]) + string(b[p+1:])
	case 13:
		return string(b[:p]) + "-" + string(b[p:])
	}
	return string(b)
}

func genNames(r *rand.Rand, n int) []string {
	var out []string
	// length boundaries of labels, TLD and whole name
	for _, tl := range []int{1, 2, 3, 15, 16, 17} {
		out = append(out, randTLD(r, tl), "x."+randTLD(r, tl), randLabel(r, 2)+"."+randLabel(r, 3)+"."+randTLD(r, tl))
	}
	for _, ll := range []int{1, 2, 62, 63, 64, 65} {
		out = append(out, randLabel(r, ll)+".abc", randLabel(r, ll)+"."+randLabel(r, ll)+".abc", "x."+randLabel(r, ll)+".abc")
	}
	for _, tot := range []int{3, 4, 5, 253, 254, 255, 256, 257} {
		for _, tl := range []int{3, 16} {
			out = append(out, nameOfLen(r, tot, tl))
		}
	}
	out = append(out, "", "a", "ab", "a.", ".a", "a.b", "a.bc", "ab.c", "..", "...", "a..b", "0.a", "a.0", "a.0a", "a.a0", "a.a-0", "a.a-",
		"a-.abc", "-a.abc", "a-b.abc", "a--b.abc", "xn--a.abc", "1.2.3.4", "abc.", "ABC", "Abc", "abC", "a_b.abc", "a b.abc", "a+b.abc",
		"é.abc", "a.\xffbc", "a\x00b.abc", "*.abc", "a.abc ", " a.abc", "a.abc\n", "a/b.abc", "a:b.abc", "a@b.abc")
	base := append([]string{}, out...)
	for len(out) < n {
		s := base[r.Intn(len(base))]
		if r.Intn(3) == 0 {
			s = nameOfLen(r, 3+r.Intn(40), 3+r.Intn(14))
		}
		for k := r.Intn(3); k >= 0; k-- {
			if r.Intn(4) > 0 {
				s = mutateName(r, s)
			}
		}
		out = append(out, s)
	}
	return out
}

var octInteresting = []int{0, 1, 9, 10, 11, 99, 100, 126, 127, 128, 168, 169, 170, 171, 172, 173, 191, 192, 193, 223, 224, 225, 254, 255}
var oct2Interesting = []int{0, 1, 15, 16, 17, 30, 31, 32, 167, 168, 169, 253, 254, 255}

func genV4(r *rand.Rand, n int) []string {
	var out []string
	for _, a := range octInteresting {
		for _, b := range oct2Interesting {
			out = append(out, fmt.Sprintf("%d.%d.%d.%d", a, b, r.Intn(256), 1+r.Intn(254)))
		}
		out = append(out, fmt.Sprintf("%d.%d.%d.0", a, r.Intn(256), r.Intn(256)), fmt.Sprintf("%d.%d.%d.255", a, r.Intn(256), r.Intn(256)),
			fmt.Sprintf("8.8.8.%d", a))
	}
	out = append(out, "", "1.2.3", "1.2.3.4.5", "1.2.3.", ".1.2.3", "1..2.3", "1.2.3.4.", "1,2,3,4", "1.2.3.4 ", " 1.2.3.4", "1.2.3.4\n",
		"256.1.1.1", "1.256.1.1", "1.1.256.1", "1.1.1.256", "999.1.1.1", "1000.1.1.1", "1.1.1.1000", "0x1.2.3.4", "1e1.2.3.4",
		"1.2.3.4a", "a.b.c.d", "1.2.3.-4", "-1.2.3.4", "1.-2.3.4", "+1.2.3.4", "1.+2.3.4", "1.2.+3.4", "1.2.3.+4", "+1.+2.+3.+4",
		"+01.2.3.4", "+001.2.3.4", "+00000001.2.3.4", "1.2.3.+004", "+0.2.3.4", "1.+0.3.4", "-0.2.3.4", "1.-0.3.4", "1.2.-0.4",
		"01.2.3.4", "1.02.3.4", "1.2.03.4", "1.2.3.04", "001.2.3.4", "00.2.3.4", "1.00.3.4", "1.2.00.4", "1.0.0.1", "1.2.3.00",
		"1_0.2.3.4", "١.2.3.4", "1.2.3.4\x00", "123456789012...", "1.2.3.4444444444", "111.111.111.111", "1111.111.111.11",
		"255.255.255.254", "223.255.255.254", "100.64.0.1", "198.18.0.1", "192.0.2.1", "203.0.113.1", "192.88.99.1")
	base := append([]string{}, out...)
	for len(out) < n {
		s := base[r.Intn(len(base))]
		gs := strings.Split(s, ".")
		if len(gs) == 4 {
			i := r.Intn(4)
			switch r.Intn(8) {
			case 0:
				gs[i] = "+" + gs[i]
			case 1:
				gs[i] = "-" + gs[i]
			case 2:
				gs[i] = "0" + gs[i]
			case 3:
				gs[i] = gs[i] + " "
			case 4:
				gs[i] = strconv.Itoa(octInteresting[r.Intn(len(octInteresting))])
			case 5:
				gs[i] = strconv.Itoa(r.Intn(300))
			case 6:
				gs[i] = ""
			case 7:
				gs[i] = fmt.Sprintf("%x", 10+r.Intn(246))
			}
			s = strings.Join(gs, ".")
		}
		out = append(out, s)
	}
	return out
}

var f0Interesting = []int{0, 1, 0x1fff, 0x2000, 0x2001, 0x2002, 0x2003, 0x2400, 0x2a00, 0x3000, 0x3ffd, 0x3ffe, 0x3fff, 0x4000, 0xfe80, 0xfc00, 0xff02}
var f1Interesting = []int{0, 1, 0xf, 0x7f, 0x80, 0xff, 0x100, 0x1ff, 0x200, 0x201, 0x7ff, 0x800, 0xdb7, 0xdb8, 0xdb9, 0xfff, 0x1000, 0x7fff, 0x8000, 0x8001, 0xf000, 0xffff}

// v6Text writes the eight groups, compressing the zero run that starts at group z (z < 0: none)
func v6Text(g [8]int, z int, upper bool, pad int) string {
	var parts []string
	f := "%x"
	if upper {
		f = "%X"
	}
	if pad > 0 {
		f = "%0" + strconv.Itoa(pad) + f[1:]
	}
	if z < 0 || g[z] != 0 {
		for _, x := range g {
			parts = append(parts, fmt.Sprintf(f, x))
		}
		return strings.Join(parts, ":")
	}
	e := z
	for e < 8 && g[e] == 0 {
		e++
	}
	var a, b []string
	for _, x := range g[:z] {
		a = append(a, fmt.Sprintf(f, x))
	}
	for _, x := range g[e:] {
		b = append(b, fmt.Sprintf(f, x))
	}
	return strings.Join(a, ":") + "::" + strings.Join(b, ":")
}

func genV6(r *rand.Rand, n int) []string {
	var out []string
	rg := func() int {
		switch r.Intn(4) {
		case 0:
			return 0
		case 1:
			return r.Intn(16)
		case 2:
			return f1Interesting[r.Intn(len(f1Interesting))]
		}
		return r.Intn(65536)
	}
	for _, f0 := range f0Interesting {
		for _, f1 := range f1Interesting {
			g := [8]int{f0, f1, rg(), rg(), rg(), rg(), rg(), rg()}
			out = append(out, v6Text(g, -1, false, 0))
			g2 := [8]int{f0, f1, 0, 0, 0, 0, 0, 1}
			out = append(out, v6Text(g2, 2, false, 0), v6Text(g2, 2, true, 0), v6Text(g2, 2, false, 4))
			g3 := [8]int{f0, f1, 0, 0, 0, 0, 0, 0}
			out = append(out, v6Text(g3, 2, false, 0))
		}
	}
	// compression position variants: one zero group at every position, a run at every position
	for z := 0; z < 8; z++ {
		g := [8]int{0x2001, 0x4860, 1, 2, 3, 4, 5, 6}
		g[z] = 0
		out = append(out, v6Text(g, z, false, 0), v6Text(g, -1, false, 0))
		h := [8]int{0x2a00, 0xf000, 1, 2, 3, 4, 5, 6}
		for j := z; j < 8 && j < z+3; j++ {
			h[j] = 0
		}
		out = append(out, v6Text(h, z, false, 0), v6Text(h, z, true, 0))
	}
	out = append(out, "", ":", "::", ":::", "::1", "1::", "2000::", "2001::", "2001:200::", "2001:1ff::", "3fff::", "3fff:ffff:ffff:ffff:ffff:ffff:ffff:ffff",
		"2001:db8::1", "2001:0db8::1", "2001:DB8::1", "2001:db9::1", "2001:0db9::1", "2001:f000::1", "2001:8000::1", "2001:0f00::1", "2001:7fff::1",
		"2001:800::1", "2001:0800::1", "2001:7ff::1", "2a00:f000::1", "2001:200:1:2:3:4:5::", "2001:200:1:2:3:4::", "::2001:200:1:2:3:4:5",
		"2001:200:1:2:3:4:5:6:7", "2001:200:1:2:3:4:5", "2001:200:1:2::4:5:6:7", "2001:200:1::4:5:6:7", "2001:200::1::2", "2001:200:::1", "2001:200::1:",
		":2001:200::1", "2001:200::1::", "2001:200:12345::1", "2001:200:g::1", "2001:+200::1", "2001:-200::1", "+2001:200::1", "2001:200::+1",
		"2001:200::1.2.3.4", "2001:200:1:2:3:4:1.2.3.4", "::ffff:1.2.3.4", "2001:200::1.2", "2001:200::1 ", " 2001:200::1", "2001 :200::1",
		"2001:200::1%eth0", "2001:200::1/64", "[2001:200::1]", "2001.200..1", "02001:200::1", "2001:00200::1", "2001:0200::1", "2001:200::00001",
		"2001:200:0:0:0:0:0:1", "2001:200:0000:0000:0000:0000:0000:0001", "2001:0200:0000:0000:0000:0000:0000:0001")
	base := append([]string{}, out...)
	for len(out) < n {
		s := base[r.Intn(len(base))]
		gs := strings.Split(s, ":")
		i := r.Intn(len(gs))
		switch r.Intn(8) {
		case 0:
			gs[i] = strings.ToUpper(gs[i])
		case 1:
			gs[i] = "0" + gs[i]
		case 2:
			gs[i] = strings.TrimLeft(gs[i], "0")
		case 3:
			gs[i] = fmt.Sprintf("%x", f1Interesting[r.Intn(len(f1Interesting))])
		case 4:
			gs[i] = ""
		case 5:
			gs[i] = "+" + gs[i]
		case 6:
			gs = append(gs[:i], gs[i+1:]...)
		case 7:
			gs[i] = fmt.Sprintf("%x", r.Intn(65536))
		}
		out = append(out, strings.Join(gs, ":"))
	}
	return out
}

func genTXT(r *rand.Rand) []string {
	var out []string
	for _, n := range []int{0, 1, 2, 254, 255, 256, 257, 1000} {
		out = append(out, rep('x', n))
		b := make([]byte, n)
		for i := range b {
			b[i] = byte(r.Intn(256))
		}
		out = append(out, string(b))
	}
	return out
}

// genRandom: random strings, unstructured (printable / reduced alphabets / all byte values).
func genRandom(r *rand.Rand, n int) []string {
	alphabets := []string{"az09-.A_+ ", "0129fF:.+-", "abcdefghijklmnopqrstuvwxyz0123456789-.", "0123456789.", "0123456789abcdef:", ""}
	var out []string
	for len(out) < n {
		al := alphabets[r.Intn(len(alphabets))]
		l := r.Intn(24)
		if r.Intn(10) == 0 {
			l = r.Intn(300)
		}
		b := make([]byte, l)
		for i := range b {
			if al == "" {
				b[i] = byte(r.Intn(256))
			} else {
				b[i] = al[r.Intn(len(al))]
			}
		}
		out = append(out, string(b))
	}
	return out
}

func items(k string, ss []string) []Item {
	out := make([]Item, len(ss))
	for i, s := range ss {
		out[i] = Item{K: k, S: str(s)}
	}
	return out
}

// genCall is the seeded batch of structured mutations, judged by test invocations.
func genCall(r *rand.Rand, scale int) []*Scenario {
	var out []*Scenario
	ns := []int{1, 3, 4, 7}
	add := func(src string, its []Item) {
		out = append(out, &Scenario{N: ns[len(out)%len(ns)], Mode: "call", Src: src, Items: its})
	}
	add("gen:names", items("N", genNames(r, 300*scale)))
	add("gen:v4", items("A", genV4(r, 600*scale)))
	add("gen:v6", items("6", genV6(r, 900*scale)))
	add("gen:txt", append(items("T", genTXT(r)), items("O", []string{"x", "1.2.3.4", ""})...))
	rs := genRandom(r, 400*scale)
	add("gen:random", append(append(items("N", rs), items("D", rs)...), items("T", rs)...))
	return out
}

// genTx is a seeded sequence of real transactions: strings from the same generators, with the
// registrations that make the later ones meaningful.
func genTx(r *rand.Rand, n int) *Scenario {
	ns := []int{1, 3, 4, 7}
	sc := &Scenario{N: ns[r.Intn(len(ns))], Mode: "tx", Src: "rand"}
	C := []string{"CMT"}
	names := genNames(r, 140)
	v4 := genV4(r, 500)
	v6 := genV6(r, 700)
	txt := genTXT(r)
	pick := func(xs []string) []int { return str(xs[r.Intn(len(xs))]) }
	sig := func() []string {
		if r.Intn(12) == 0 {
			return []string{}
		}
		return C
	}
	recName := func() []int {
		switch r.Intn(10) {
		case 0:
			return str(tldBase)
		case 1:
			return str("q.abc")
		}
		return str(recAdd)
	}
	for i := 0; i < n; i++ {
		switch k := r.Intn(20); {
		case k < 3:
			s := pick(names)
			sc.Steps = append(sc.Steps, Step{Act: "isAvailable", S: []string{}, Name: s, Str: s})
		case k < 5:
			s := pick(names)
			sc.Steps = append(sc.Steps, Step{Act: "registerTLD", S: sig(), Name: s, Str: s})
			if ls := labels(bs(s)); len(ls) > 1 && r.Intn(2) == 0 { // make the TLD of a later name exist
				l := ints(ls[len(ls)-1])
				sc.Steps = append(sc.Steps, Step{Act: "registerTLD", S: C, Name: l, Str: l})
			}
		case k < 9:
			s := pick(names)
			if r.Intn(2) == 0 { // under the TLD that exists
				ls := labels(bs(s))
				ls[len(ls)-1] = []byte(tldBase)
				s = ints(join(ls))
			}
			sc.Steps = append(sc.Steps, Step{Act: "register", S: sig(), Name: s, Str: s})
		case k < 12:
			sc.Steps = append(sc.Steps, Step{Act: "addRecord", S: sig(), Name: recName(), Typ: typA, Str: pick(v4)})
		case k < 15:
			sc.Steps = append(sc.Steps, Step{Act: "addRecord", S: sig(), Name: recName(), Typ: typAAAA, Str: pick(v6)})
		case k < 16:
			sc.Steps = append(sc.Steps, Step{Act: "addRecord", S: sig(), Name: recName(), Typ: typCNAME, Str: pick(names)})
		case k < 17:
			typ := []int{typTXT, typTXT, typTXT, typSOA, 2, 0}[r.Intn(6)]
			sc.Steps = append(sc.Steps, Step{Act: "addRecord", S: sig(), Name: recName(), Typ: typ, Str: pick(txt)})
		case k < 19:
			typ := []int{typA, typAAAA, typTXT}[r.Intn(3)]
			pool := map[int][]string{typA: v4, typAAAA: v6, typTXT: txt}[typ]
			sc.Steps = append(sc.Steps, Step{Act: "setRecord", S: sig(), Name: recName(), Typ: typ, ID: r.Intn(2), Str: pick(pool)})
		default:
			typ := []int{typA, typAAAA, typTXT, typCNAME, typSOA}[r.Intn(5)]
			sc.Steps = append(sc.Steps, Step{Act: "deleteRecords", S: sig(), Name: recName(), Typ: typ, Str: []int{}})
		}
	}
	return sc
}

// ---------------------------------------------------------------------------
// traps: witnesses of rare branches and of every deviation found

func trapCall() *Scenario {
	return &Scenario{N: 3, Mode: "call", Src: "trap:witnesses", Items: append(append(append(
		items("A", []string{"1.2.3.4", "+1.2.3.4", "1.+2.3.4", "1.2.3.+4", "+01.2.3.4", "+00000001.2.3.4", "-1.2.3.4", "+0.2.3.4", "01.2.3.4"}),
		items("6", []string{"2001:200::1", "2001:f000::1", "2001:8000::1", "2001:db9::1", "2001:0db9::1", "2001:DB9::1", "2001:800::1",
			"2001:7ff::1", "2001:db8::1", "2001:200:1:2:3:4:5::", "2a00:1:2:3:4:5:6::", "2a00:1:2:3:4:5::", "2a00:1:2:3:4:5:6:0",
			"2001:ffff:ffff:ffff:ffff:ffff:ffff:ffff", "3fff:ffff:ffff:ffff:ffff:ffff:ffff:ffff"})...),
		items("N", []string{"abc", "x.abc", "y.x.abc", "z.y.x.abc", "a.b", "a.bc", "xyz", "x.xyz", rep('a', 16), rep('a', 17), "x." + rep('a', 16),
			rep('a', 63) + ".abc", rep('a', 64) + ".abc",
			rep('a', 63) + "." + rep('b', 63) + "." + rep('c', 63) + "." + rep('d', 59) + ".abc",
			rep('a', 63) + "." + rep('b', 63) + "." + rep('c', 63) + "." + rep('d', 60) + ".abc"})...),
		items("T", []string{"", rep('t', 255), rep('t', 256)})...)}
}

func trapTx() *Scenario {
	C := []string{"CMT"}
	n := func(s string) Step { return Step{Act: "", S: C, Name: str(s), Str: str(s)} }
	with := func(st Step, act string) Step { st.Act = act; return st }
	rec := func(act string, typ, id int, data string) Step {
		return Step{Act: act, S: C, Name: str(recAdd), Typ: typ, ID: id, Str: str(data)}
	}
	return &Scenario{N: 4, Mode: "tx", Src: "trap:tx", Steps: []Step{
		with(n("x.xyz"), "isAvailable"), with(n("xyz"), "isAvailable"), with(n("x.xyz"), "register"),
		with(n("xy"), "registerTLD"), with(n("xyz"), "registerTLD"), with(n("xyz"), "registerTLD"), with(n("xyz"), "isAvailable"),
		with(n("x.xyz"), "isAvailable"), with(n("y.x.xyz"), "register"), with(n("x.xyz"), "register"), with(n("x.xyz"), "register"),
		with(n("x.xyz"), "isAvailable"), with(n("y.x.xyz"), "register"), with(n("-y.x.xyz"), "register"), with(n("Y.x.xyz"), "register"),
		with(n("x.abc."), "register"), with(n("x..abc"), "register"), with(n("x.abc"), "register"),
		rec("addRecord", typA, 0, "1.2.3.4"), rec("addRecord", typA, 0, "1.2.3.4"), rec("addRecord", typA, 0, "+1.2.3.5"),
		rec("addRecord", typA, 0, "1.2.3.256"), rec("addRecord", typA, 0, "10.2.3.4"), rec("setRecord", typA, 0, "8.8.8.8"),
		rec("setRecord", typA, 0, "8.8.8.+8"), rec("setRecord", typA, 5, "8.8.4.4"), rec("setRecord", typA, 0, "8.8.8"),
		rec("addRecord", typAAAA, 0, "2001:200::1"), rec("addRecord", typAAAA, 0, "2001:f000::1"), rec("addRecord", typAAAA, 0, "2a00:1:2:3:4:5:6::"),
		rec("addRecord", typAAAA, 0, "::1"), rec("setRecord", typAAAA, 0, "2001:8000::1"), rec("setRecord", typAAAA, 0, "2a00::1"),
		rec("addRecord", typCNAME, 0, "x.xyz"), rec("addRecord", typCNAME, 0, "y.xyz"), rec("setRecord", typCNAME, 0, "-.xyz"),
		rec("addRecord", typTXT, 0, rep('t', 255)), rec("addRecord", typTXT, 0, rep('t', 256)), rec("addRecord", typTXT, 0, ""),
		rec("addRecord", typSOA, 0, "x"), rec("addRecord", 2, 0, "x"), rec("setRecord", typSOA, 0, "x"),
		{Act: "deleteRecords", S: C, Name: str(recAdd), Typ: typA, Str: []int{}}, rec("addRecord", typA, 0, "1.2.3.4"),
		{Act: "addRecord", S: []string{}, Name: str(recAdd), Typ: typA, Str: str("1.2.3.9")},
		{Act: "registerTLD", S: []string{}, Name: str("neo"), Str: str("neo")},
	}}
}

func TestDrive(t *testing.T) {
	out := os.Getenv("VERIF_OUT")
	if out == "" {
		t.Skip("VERIF_OUT not set")
	}
	seed, _ := strconv.ParseInt(os.Getenv("VERIF_SEED"), 10, 64)
	nrand, _ := strconv.Atoi(os.Getenv("VERIF_NRAND"))
	shard, _ := strconv.Atoi(os.Getenv("VERIF_SHARD"))
	nshard, _ := strconv.Atoi(os.Getenv("VERIF_NSHARD"))
	if nshard == 0 {
		nshard = 1
	}
	scale := 1
	if os.Getenv("VERIF_TIER") == "thorough" {
		scale = 10
	}
	var scs []*Scenario
	if p := os.Getenv("VERIF_SCEN"); p != "" {
		data, err := os.ReadFile(p)
		require.NoError(t, err)
		require.NoError(t, json.Unmarshal(data, &scs))
	}
	ns := []int{1, 3, 4, 7}
	for i, sc := range scs {
		if sc.N == 0 {
			sc.N = ns[i%len(ns)]
		}
		if sc.Mode == "" {
			sc.Mode = "tx"
		}
		if sc.Src == "" {
			sc.Src = "tlc"
		}
	}
	if os.Getenv("VERIF_NOTRAPS") == "" {
		scs = append(scs, trapCall(), trapTx())
	}
	r := rand.New(rand.NewSource(seed*7919 + 18))
	if nrand > 0 {
		scs = append(scs, genCall(r, scale)...)
	}
	for i := 0; i < nrand; i++ {
		scs = append(scs, genTx(r, 40))
	}
	// the output is written in parts of at most ~partLines lines, cut at scenario boundaries
	// (<out>, <out>.1, <out>.2 ...): the monitor reads a whole file into memory
	const partLines = 60000
	part, lines := 0, 0
	acts := map[string]int{}
	rec := chain.NewRecorder(t, out)
	flush := func() {
		rec.Close()
		lines += rec.N
		for k, v := range rec.Acts {
			acts[k] += v
		}
	}
	for i, sc := range scs {
		if i%nshard != shard {
			continue
		}
		if rec.N >= partLines {
			flush()
			part++
			rec = chain.NewRecorder(t, out+"."+strconv.Itoa(part))
		}
		runScenario(t, rec, i, sc, seed)
	}
	flush()
	stats, _ := json.Marshal(map[string]any{"lines": lines, "scenarios": len(scs), "acts": acts, "parts": part + 1})
	fmt.Println("DRIVER-STATS " + string(stats))
}
