// Package artifacts records, for property C15, how the shipped artifacts
// (contract.nef / manifest.json embedded in package contracts, rpc/*/rpcbinding.go)
// relate to the contract sources of the same working tree:
//
//   - "artifact" lines: embedded script/tokens/manifest vs. in-process compilation of the sources
//   - "deploy"   lines: the embedded FS-chain set deployed in contracts.GetFS() order on an empty
//     chain (each contract registered in NNS after its deployment, as deploy.Deploy does)
//   - "probe"    lines: the same deployment with one declared dependency missing (validates the
//     dependency relation of spec/Artifacts.tla against the code)
//   - "version"  lines: version() of all 11 contracts read through the generated bindings
//   - "binding"  lines: every exported method of every generated binding invoked by reflection
//     on a recording Invoker/Actor: contract method name and arity actually sent
//
// The lines are judged by the TLA+ monitor spec/ArtifactsTrace.tla.
package artifacts

import (
	"bytes"
	"encoding/json"
	"fmt"
	"math/big"
	"os"
	"path/filepath"
	"reflect"
	"regexp"
	"sort"
	"strings"
	"testing"

	"github.com/google/uuid"
	"github.com/nspcc-dev/neo-go/pkg/core/transaction"
	"github.com/nspcc-dev/neo-go/pkg/crypto/keys"
	"github.com/nspcc-dev/neo-go/pkg/neorpc/result"
	"github.com/nspcc-dev/neo-go/pkg/neotest"
	"github.com/nspcc-dev/neo-go/pkg/smartcontract/manifest"
	"github.com/nspcc-dev/neo-go/pkg/util"
	"github.com/nspcc-dev/neo-go/pkg/vm/stackitem"
	"github.com/nspcc-dev/neofs-contract/contracts"
	"github.com/nspcc-dev/neofs-contract/rpc/alphabet"
	"github.com/nspcc-dev/neofs-contract/rpc/audit"
	"github.com/nspcc-dev/neofs-contract/rpc/balance"
	"github.com/nspcc-dev/neofs-contract/rpc/container"
	"github.com/nspcc-dev/neofs-contract/rpc/neofs"
	"github.com/nspcc-dev/neofs-contract/rpc/neofsid"
	"github.com/nspcc-dev/neofs-contract/rpc/netmap"
	"github.com/nspcc-dev/neofs-contract/rpc/nns"
	"github.com/nspcc-dev/neofs-contract/rpc/processing"
	"github.com/nspcc-dev/neofs-contract/rpc/proxy"
	"github.com/nspcc-dev/neofs-contract/rpc/reputation"
	"github.com/stretchr/testify/require"

	"verif/harness/chain"
)

var allDirs = []string{"alphabet", "audit", "balance", "container", "neofs", "neofsid", "netmap", "nns", "processing", "proxy", "reputation"}

// manifest name -> directory
func dirByManifestName(t *testing.T) map[string]string {
	out := map[string]string{}
	for _, d := range allDirs {
		mb, err := os.ReadFile(filepath.Join(chain.RepoRoot(), "contracts", d, "manifest.json"))
		require.NoError(t, err)
		m := new(manifest.Manifest)
		require.NoError(t, json.Unmarshal(mb, m))
		out[m.Name] = d
	}
	return out
}

// manifestShape is the manifest with parameter names removed (the statement speaks of ABI, events, permissions).
func manifestShape(t *testing.T, m *manifest.Manifest) string {
	b, err := json.Marshal(m)
	require.NoError(t, err)
	var g map[string]any
	require.NoError(t, json.Unmarshal(b, &g))
	abi := g["abi"].(map[string]any)
	strip := func(list any) {
		l, _ := list.([]any)
		for _, e := range l {
			// method offsets belong to the script, not to the ABI: they legitimately differ when the
			// script differs (which is judged on its own); consistency of the shipped pair is exercised
			// by deploying and calling the embedded contracts
			delete(e.(map[string]any), "offset")
			ps, _ := e.(map[string]any)["parameters"].([]any)
			for _, p := range ps {
				delete(p.(map[string]any), "name")
			}
		}
	}
	strip(abi["methods"])
	strip(abi["events"])
	sortBy := func(list any) {
		l, _ := list.([]any)
		sort.SliceStable(l, func(i, j int) bool {
			a, b := l[i].(map[string]any), l[j].(map[string]any)
			ka := fmt.Sprint(a["name"], len(a["parameters"].([]any)))
			kb := fmt.Sprint(b["name"], len(b["parameters"].([]any)))
			return ka < kb
		})
	}
	sortBy(abi["methods"])
	sortBy(abi["events"])
	delete(g, "extra")
	o, _ := json.Marshal(g)
	return string(o)
}

// ---- recording invoker / actor -------------------------------------------------

type call struct {
	Method string
	NArgs  int
	Kind   string
	Params []any
}

type recorder struct {
	c     *chain.Chain
	calls []call
	live  bool // execute reader calls on the chain
	sessions bool
}

func (r *recorder) rec(kind, method string, params []any) {
	r.calls = append(r.calls, call{Method: method, NArgs: len(params), Kind: kind, Params: append([]any(nil), params...)})
}

func (r *recorder) invoke(h util.Uint160, method string, params ...any) (*result.Invoke, error) {
	if !r.live {
		return &result.Invoke{State: "FAULT", FaultException: "recording only"}, nil
	}
	st, iter, err := r.c.CallRaw(h, method, params...)
	if err != nil {
		return &result.Invoke{State: "FAULT", FaultException: err.Error()}, nil
	}
	inv := &result.Invoke{State: "HALT", Stack: st}
	for i := range st {
		if iter[i] && r.sessions { // what an RPC server with sessions returns for an iterator
			id := uuid.New()
			inv.Session = id
			vals := st[i].Value().([]stackitem.Item)
			inv.Stack[i] = stackitem.NewInterop(result.Iterator{ID: &id, Values: vals})
		}
	}
	return inv, nil
}

func (r *recorder) Call(h util.Uint160, method string, params ...any) (*result.Invoke, error) {
	r.rec("call", method, params)
	r.sessions = true
	return r.invoke(h, method, params...)
}
func (r *recorder) CallAndExpandIterator(h util.Uint160, method string, maxItems int, params ...any) (*result.Invoke, error) {
	r.rec("expand", method, params)
	r.sessions = false
	return r.invoke(h, method, params...)
}
func (r *recorder) TerminateSession(uuid.UUID) error { return nil }
func (r *recorder) TraverseIterator(uuid.UUID, *result.Iterator, int) ([]stackitem.Item, error) {
	return nil, nil
}
func (r *recorder) MakeCall(h util.Uint160, method string, params ...any) (*transaction.Transaction, error) {
	r.rec("make", method, params)
	return transaction.New([]byte{0x40}, 0), nil
}
func (r *recorder) MakeRun(script []byte) (*transaction.Transaction, error) {
	return transaction.New(script, 0), nil
}
func (r *recorder) MakeUnsignedCall(h util.Uint160, method string, attrs []transaction.Attribute, params ...any) (*transaction.Transaction, error) {
	r.rec("unsigned", method, params)
	return transaction.New([]byte{0x40}, 0), nil
}
func (r *recorder) MakeUnsignedRun(script []byte, attrs []transaction.Attribute) (*transaction.Transaction, error) {
	return transaction.New(script, 0), nil
}
func (r *recorder) SendCall(h util.Uint160, method string, params ...any) (util.Uint256, uint32, error) {
	r.rec("send", method, params)
	return util.Uint256{}, 0, nil
}
func (r *recorder) SendRun(script []byte) (util.Uint256, uint32, error) { return util.Uint256{}, 0, nil }
func (r *recorder) Sender() util.Uint160                              { return util.Uint160{} }

var (
	tBig    = reflect.TypeOf((*big.Int)(nil))
	tPub    = reflect.TypeOf((*keys.PublicKey)(nil))
	tPubs   = reflect.TypeOf(keys.PublicKeys{})
	samplePub *keys.PublicKey
)

// zeroArg builds a well-formed argument of type t that is different for every position j,
// so that the forwarding order of arguments can be observed.
func zeroArg(t reflect.Type, j int) reflect.Value {
	switch {
	case t == tBig:
		return reflect.ValueOf(big.NewInt(int64(100 + j)))
	case t.Kind() == reflect.String:
		return reflect.ValueOf(fmt.Sprintf("s%d", j)).Convert(t)
	case t.Kind() == reflect.Slice && t.Elem().Kind() == reflect.Uint8:
		return reflect.ValueOf([]byte{byte(j), 0xAB}).Convert(t)
	case t.Kind() == reflect.Array && t.Elem().Kind() == reflect.Uint8:
		v := reflect.New(t).Elem()
		v.Index(0).SetUint(uint64(j))
		return v
	case t.Kind() == reflect.Bool:
		return reflect.ValueOf(j%2 == 1)
	case t.Kind() == reflect.Int || t.Kind() == reflect.Int64 || t.Kind() == reflect.Uint32:
		return reflect.ValueOf(7 + j).Convert(t)
	case t == tPub:
		return reflect.ValueOf(samplePub)
	case t == tPubs:
		return reflect.ValueOf(keys.PublicKeys{})
	case t.Kind() == reflect.Slice:
		return reflect.MakeSlice(t, 0, 0)
	case t.Kind() == reflect.Map:
		return reflect.MakeMap(t)
	case t.Kind() == reflect.Ptr:
		return reflect.New(t.Elem())
	}
	return reflect.Zero(t)
}

// sweep calls every exported method of obj with zero-like arguments and returns what reached the recorder.
type swept struct {
	calls  []call
	goargs []any
}

func sweep(t *testing.T, r *recorder, obj any) map[string]swept {
	out := map[string]swept{}
	v := reflect.ValueOf(obj)
	for i := 0; i < v.NumMethod(); i++ {
		m := v.Type().Method(i)
		mt := m.Type
		var args []reflect.Value
		ok := true
		for j := 1; j < mt.NumIn(); j++ {
			it := mt.In(j)
			if mt.IsVariadic() && j == mt.NumIn()-1 {
				break
			}
			if it.Kind() == reflect.Interface && it.NumMethod() > 0 {
				ok = false // needs a live object (e.g. wallet signer); not a contract method wrapper
				break
			}
			args = append(args, zeroArg(it, j))
		}
		if !ok {
			continue
		}
		r.calls = nil
		func() {
			defer func() { _ = recover() }()
			v.Method(i).Call(args)
		}()
		ga := make([]any, len(args))
		for k := range args {
			ga[k] = args[k].Interface()
		}
		out[m.Name] = swept{calls: append([]call(nil), r.calls...), goargs: ga}
	}
	return out
}

func TestDrive(t *testing.T) {
	out := os.Getenv("VERIF_OUT")
	if out == "" {
		t.Skip("VERIF_OUT not set")
	}
	if os.Getenv("VERIF_SHARD") != "" && os.Getenv("VERIF_SHARD") != "0" {
		// single-shard family
		rec := chain.NewRecorder(t, out)
		rec.Close()
		fmt.Println(`DRIVER-STATS {"lines":0,"scenarios":0,"acts":{}}`)
		return
	}
	rec := chain.NewRecorder(t, out)
	emit := func(r chain.Rec) {
		r["t"] = 0
		rec.Emit(r)
	}
	emit(chain.Rec{"act": "reset", "res": "HALT"})
	samplePub = chain.DetKey(1, "sample").PublicKey()
	byName := dirByManifestName(t)

	// ---- artifact lines: embedded vs compiled
	c := chain.New(t, 4, 15)
	embedded := map[string]*neotest.Contract{}
	for _, d := range allDirs {
		emb := c.Embedded(d)
		embedded[d] = emb
		src := c.CompileDir(filepath.Join(chain.RepoRoot(), "contracts", d))
		scriptEq := bytes.Equal(emb.NEF.Script, src.NEF.Script)
		tokEq := reflect.DeepEqual(emb.NEF.Tokens, src.NEF.Tokens) || (len(emb.NEF.Tokens) == 0 && len(src.NEF.Tokens) == 0)
		manEq := manifestShape(t, emb.Manifest) == manifestShape(t, src.Manifest)
		res := "HALT"
		emit(chain.Rec{"act": "artifact", "name": d, "scriptEq": scriptEq, "tokensEq": tokEq, "manifestEq": manEq, "res": res,
			"scriptLen": len(emb.NEF.Script), "methods": len(emb.Manifest.ABI.Methods)})
	}
	// package contracts must hand out exactly these files
	fsList, err := contracts.GetFS()
	require.NoError(t, err)
	mainList, err := contracts.GetMain()
	require.NoError(t, err)
	var order []string
	for _, ct := range fsList {
		d, ok := byName[ct.Manifest.Name]
		require.True(t, ok, "unknown contract %s", ct.Manifest.Name)
		order = append(order, d)
		same := bytes.Equal(ct.NEF.Script, embedded[d].NEF.Script) && ct.NEF.Checksum == embedded[d].NEF.Checksum
		emit(chain.Rec{"act": "embedded", "name": d, "same": same, "res": "HALT"})
	}
	for _, ct := range mainList {
		d := byName[ct.Manifest.Name]
		same := bytes.Equal(ct.NEF.Script, embedded[d].NEF.Script) && ct.NEF.Checksum == embedded[d].NEF.Checksum
		emit(chain.Rec{"act": "embedded", "name": d, "same": same, "res": "HALT"})
	}

	// ---- deploy lines: GetFS() order on an empty chain
	deployArgs := func(d string) any {
		switch d {
		case "nns":
			return []any{[]any{[]any{"neofs", "ops@nspcc.io"}}}
		case "netmap":
			return []any{false, util.Uint160{}, util.Uint160{}, []any(nil), []any{}}
		case "alphabet":
			return []any{false, nil, nil, "az", 0, 4}
		}
		return nil
	}
	hashes := map[string]util.Uint160{}
	deployAll := func(cc *chain.Chain, skip string, record bool) []string {
		// returns the contracts whose deployment FAULTed (they are not registered in NNS either)
		broke := []string{}
		for i, d := range order {
			if d == skip {
				continue
			}
			ctr := cc.Embedded(d)
			r := cc.TryDeploy(ctr, deployArgs(d))
			if record {
				emit(chain.Rec{"act": "deploy", "name": d, "idx": i + 1, "res": r.Res(), "fault": r.Fault})
				hashes[d] = ctr.Hash
			}
			if !r.Halt {
				broke = append(broke, d)
				continue
			}
			if d != "nns" {
				cc.RegNNS(d, ctr.Hash)
			}
		}
		sort.Strings(broke)
		return broke
	}
	deployAll(c, "", true)
	// ---- probe lines: leave one contract out; who breaks first?
	for _, missing := range order {
		if missing == "nns" {
			continue // nothing can even be registered without it
		}
		pc := chain.New(t, 4, 16)
		broke := deployAll(pc, missing, false)
		emit(chain.Rec{"act": "probe", "name": missing, "broke": broke, "res": "HALT"})
	}
	// main chain contracts
	procC := c.Embedded("processing")
	neofsC := c.Embedded("neofs")
	var pubs []any
	for _, m := range c.Members {
		pubs = append(pubs, chain.Pub(m))
	}
	r := c.TryDeploy(neofsC, []any{false, procC.Hash, pubs, []any{}})
	emit(chain.Rec{"act": "deploy", "name": "neofs", "idx": 101, "res": r.Res(), "fault": r.Fault})
	r = c.TryDeploy(procC, []any{neofsC.Hash})
	emit(chain.Rec{"act": "deploy", "name": "processing", "idx": 102, "res": r.Res(), "fault": r.Fault})
	hashes["neofs"], hashes["processing"] = neofsC.Hash, procC.Hash

	// ---- version lines through the generated bindings (live reader calls)
	live := &recorder{c: c, live: true}
	vb, err := os.ReadFile(filepath.Join(chain.RepoRoot(), "VERSION"))
	require.NoError(t, err)
	var ma, mi, pa int
	_, err = fmt.Sscanf(strings.TrimSpace(string(vb)), "v%d.%d.%d", &ma, &mi, &pa)
	require.NoError(t, err)
	repoVersion := ma*1_000_000 + mi*1_000 + pa
	type verser interface{ Version() (*big.Int, error) }
	_ = verser(nil)
	readers := map[string]any{
		"alphabet": alphabet.NewReader(live, hashes["alphabet"]), "audit": audit.NewReader(live, hashes["audit"]),
		"balance": balance.NewReader(live, hashes["balance"]), "container": container.NewReader(live, hashes["container"]),
		"neofs": neofs.NewReader(live, hashes["neofs"]), "neofsid": neofsid.NewReader(live, hashes["neofsid"]),
		"netmap": netmap.NewReader(live, hashes["netmap"]), "nns": nns.NewReader(live, hashes["nns"]),
		"processing": processing.NewReader(live, hashes["processing"]), "proxy": proxy.NewReader(live, hashes["proxy"]),
		"reputation": reputation.NewReader(live, hashes["reputation"]),
	}
	for _, d := range allDirs {
		got := int64(-1)
		via := "binding"
		if vr, ok := readers[d].(verser); ok {
			if v, err := vr.Version(); err == nil {
				got = v.Int64()
			}
		} else { // `version` is not declared safe in this contract: the binding offers it as a transaction only
			via = "direct"
			if st, err := c.Call(hashes[d], "version"); err == nil && len(st) == 1 {
				got = chain.ItemBig(st[0]).Int64()
			}
		}
		emit(chain.Rec{"act": "version", "name": d, "v": got, "repo": repoVersion, "via": via, "res": "HALT"})
	}

	// the sources must report the repository version as well (a bumped constant with stale artifacts, or vice versa)
	sc := chain.New(t, 4, 17)
	for _, d := range append(append([]string{}, order...), "neofs", "processing") {
		ctr := sc.CompileDir(filepath.Join(chain.RepoRoot(), "contracts", d))
		var args any
		switch d {
		case "neofs":
			args = []any{false, util.Uint160{1}, pubs, []any{}}
		case "processing":
			args = []any{util.Uint160{1}}
		default:
			args = deployArgs(d)
		}
		got := int64(-1)
		if r := sc.TryDeploy(ctr, args); r.Halt {
			if d != "nns" && d != "neofs" && d != "processing" {
				sc.RegNNS(d, ctr.Hash)
			}
			if st, err := sc.Call(ctr.Hash, "version"); err == nil && len(st) == 1 {
				got = chain.ItemBig(st[0]).Int64()
			}
		}
		emit(chain.Rec{"act": "version", "name": d, "v": got, "repo": repoVersion, "via": "source", "res": "HALT"})
	}

	// ---- binding lines: reflection sweep over readers and writers
	recd := &recorder{c: c}
	writers := map[string]any{
		"alphabet": alphabet.New(recd, hashes["alphabet"]), "audit": audit.New(recd, hashes["audit"]),
		"balance": balance.New(recd, hashes["balance"]), "container": container.New(recd, hashes["container"]),
		"neofs": neofs.New(recd, hashes["neofs"]), "neofsid": neofsid.New(recd, hashes["neofsid"]),
		"netmap": netmap.New(recd, hashes["netmap"]), "nns": nns.New(recd, hashes["nns"]),
		"processing": processing.New(recd, hashes["processing"]), "proxy": proxy.New(recd, hashes["proxy"]),
		"reputation": reputation.New(recd, hashes["reputation"]),
	}
	nBind := 0
	for _, d := range allDirs {
		abi := embedded[d].Manifest.ABI
		has := func(name string, n int) (bool, bool, string) {
			found, arity := false, false
			ret := ""
			for _, m := range abi.Methods {
				if m.Name == name {
					found = true
					if len(m.Parameters) == n {
						arity = true
						ret = m.ReturnType.String()
					}
				}
			}
			return found, arity, ret
		}
		res := sweep(t, recd, writers[d]) // *Contract embeds ContractReader: readers included
		// methods of hand-written files next to the generated one (rpc/nns/hashes.go ...) are not generated bindings
		handWritten := map[string]bool{}
		files, _ := filepath.Glob(filepath.Join(chain.RepoRoot(), "rpc", d, "*.go"))
		reMeth := regexp.MustCompile(`(?m)^func \(\w+ \*?Contract(?:Reader)?\) (\w+)\(`)
		for _, f := range files {
			if filepath.Base(f) == "rpcbinding.go" || strings.HasSuffix(f, "_test.go") {
				continue
			}
			src, _ := os.ReadFile(f)
			for _, m := range reMeth.FindAllStringSubmatch(string(src), -1) {
				handWritten[m[1]] = true
			}
		}
		names := make([]string, 0, len(res))
		for k := range res {
			names = append(names, k)
		}
		sort.Strings(names)
		for _, gm := range names {
			for _, cl := range res[gm].calls {
				found, arity, ret := has(cl.Method, cl.NArgs)
				// every argument of the Go method must reach the contract, in order (the `Expanded`
				// flavour has one extra Go argument: the number of iterator items to fetch)
				ga := res[gm].goargs
				if cl.Kind == "expand" && len(ga) > 0 {
					ga = ga[:len(ga)-1]
				}
				forwarded := len(ga) == len(cl.Params) || handWritten[gm]
				if forwarded && !handWritten[gm] {
					for k := range ga {
						if !reflect.DeepEqual(ga[k], cl.Params[k]) {
							forwarded = false
						}
					}
				}
				emit(chain.Rec{"act": "binding", "name": d, "gomethod": gm, "method": cl.Method, "nargs": cl.NArgs, "kind": cl.Kind,
					"found": found, "arityOK": arity, "ret": ret, "goargs": len(res[gm].goargs), "forwarded": forwarded, "res": "HALT"})
				nBind++
			}
		}
		// live decoding: every zero-argument safe method is read through the binding and must decode
		rd := reflect.ValueOf(readers[d])
		for i := 0; i < rd.NumMethod(); i++ {
			m := rd.Type().Method(i)
			if m.Type.NumIn() != 1 || m.Type.NumOut() != 2 {
				continue
			}
			live.calls = nil
			outv := rd.Method(i).Call(nil)
			if len(live.calls) != 1 {
				continue
			}
			errv, _ := outv[1].Interface().(error)
			direct, derr := c.Call(hashes[d], live.calls[0].Method)
			if derr != nil || len(direct) != 1 || direct[0].Type() == stackitem.AnyT {
				continue // the method faults or yields Null in this state: the decoder is not exercised
			}
			decodeOK := errv == nil
			msg := ""
			if errv != nil {
				msg = errv.Error()
			}
			emit(chain.Rec{"act": "decode", "name": d, "gomethod": m.Name, "method": live.calls[0].Method, "ok": decodeOK, "err": msg, "res": "HALT"})
		}
	}
	require.Greater(t, nBind, 150)
	rec.Close()
	stats, _ := json.Marshal(map[string]any{"lines": rec.N, "scenarios": 1, "acts": rec.Acts})
	fmt.Println("DRIVER-STATS " + string(stats))
}
