package container

// Roster half of the family (C14): addNextEpochNodes / commitContainerListUpdate / nodes /
// replicasNumbers / verifyPlacementSignatures / submitObjectPut with real secp256r1 keys and
// signatures. Vocabulary = the ev record of spec/ContainerRoster.tla.

import (
	"bytes"
	"crypto/elliptic"
	"crypto/sha256"
	"encoding/hex"
	"encoding/json"
	"fmt"
	"math/big"
	"math/rand"
	"os"
	"sort"
	"strconv"
	"sync"
	"testing"

	"github.com/nspcc-dev/neo-go/pkg/crypto/keys"
	"github.com/nspcc-dev/neo-go/pkg/neotest"
	"github.com/nspcc-dev/neo-go/pkg/vm/stackitem"
	"github.com/stretchr/testify/require"

	"verif/harness/chain"
)

// RSig is one signature of a matrix: key index in the pool, message, form ("ok" | "mal" | "junk").
type RSig struct {
	K int    `json:"k"`
	M string `json:"m"`
	F string `json:"f"`
}

// RStep is one invocation in model vocabulary.
type RStep struct {
	Act  string   `json:"act"`
	S    []string `json:"S"`
	C    string   `json:"c"`
	V    int      `json:"v"`
	From int      `json:"from"`
	Len  int      `json:"len"`
	Bk   bool     `json:"bk"`
	Dup  bool     `json:"dup"` // the batch lists its first key once more at its end
	Ash  int64    `json:"ash"` // seed of the argument shapes the Spec ignores (0: from the scenario seed and the step position)
	Rs   []int    `json:"rs"`
	M    string   `json:"m"`
	Sigs [][]RSig `json:"sigs"`
}

// RScenario is a sequence of roster steps on a fresh chain.
type RScenario struct {
	N     int     `json:"n"`
	Src   string  `json:"src"`
	Steps []RStep `json:"steps"`
}

const (
	poolK   = 300 // keys 1..poolK (K of the sim / monitor configurations)
	rMaxVec = 3   // vectors 0..3 are observed
)

var (
	poolOnce sync.Once
	pool     []*keys.PrivateKey
	poolIdx  map[string]int
)

func keyPool() {
	poolOnce.Do(func() {
		poolIdx = map[string]int{}
		for i := 1; i <= poolK; i++ {
			k := chain.DetKey(77, "node"+strconv.Itoa(i))
			pool = append(pool, k)
			poolIdx[hex.EncodeToString(k.PublicKey().Bytes())] = i
		}
	})
}

type rworld struct {
	*world
	rcid   map[string][]byte
	rname  map[string]string
	sigmem map[string][]byte
	lastReps map[string][]int64 // committed REP numbers as last observed
}

func newRWorld(t *testing.T, n int, seed int64) *rworld {
	keyPool()
	w := newWorld(t, n, 0, seed)
	rw := &rworld{world: w, rcid: map[string][]byte{}, rname: map[string]string{}, sigmem: map[string][]byte{}}
	// c1: container with the meta-on-chain flag, c2: container without it, c3: an id without container
	v := w.vars["a"]
	r := w.c.Run(w.cn, []neotest.Signer{w.c.Alpha}, "put", w.blob["c1"], v.sig, v.pub, v.token, true)
	require.True(t, r.Halt, r.Fault)
	r = w.c.Run(w.cn, []neotest.Signer{w.c.Alpha}, "put", w.blob["c2"], v.sig, v.pub, v.token)
	require.True(t, r.Halt, r.Fault)
	rw.rcid["c1"], rw.rcid["c2"] = w.cid["c1"], w.cid["c2"]
	h := sha256.Sum256([]byte(fmt.Sprintf("no-container|%d", seed)))
	rw.rcid["c3"] = h[:]
	for k, id := range rw.rcid {
		rw.rname[hex.EncodeToString(id)] = k
	}
	return rw
}

// message m for container c: a well-formed meta-information blob (so that it can be submitted)
// msg: message m for container c, a well-formed meta-information blob (so that it can be submitted). ms selects the
// parts the contract only validates: order of the map keys, size, entries of deleted / locked, a surplus key, a
// validuntil just above the current height.
func (w *rworld) msg(c, m string, ms int) []byte {
	oid := sha256.Sum256([]byte("oid|" + c + "|" + m))
	id := func(s string) []byte { h := sha256.Sum256([]byte(s)); return h[:] }
	size, del, lock, vub := any(123), []any{}, []any{}, int64(1)<<40
	switch ms {
	case 1:
		size, del, lock = 0, []any{id("d1"), id("d2")}, []any{id("l1")}
	case 2:
		size, vub = int64(1)<<50, int64(w.c.Height())+3
	case 3:
		del = []any{id("d3")}
	}
	els := []stackitem.MapElement{
		{Key: stackitem.Make("network"), Value: stackitem.Make(int64(w.c.E.Chain.GetConfig().Magic))},
		{Key: stackitem.Make("cid"), Value: stackitem.Make(w.rcid[c])},
		{Key: stackitem.Make("oid"), Value: stackitem.Make(oid[:])},
		{Key: stackitem.Make("size"), Value: stackitem.Make(size)},
		{Key: stackitem.Make("deleted"), Value: stackitem.Make(del)},
		{Key: stackitem.Make("locked"), Value: stackitem.Make(lock)},
		{Key: stackitem.Make("validuntil"), Value: stackitem.Make(vub)},
	}
	if ms == 3 {
		els = append(els, stackitem.MapElement{Key: stackitem.Make("comment"), Value: stackitem.Make("surplus key")})
	}
	if ms == 1 || ms == 3 { // another order of the keys
		for i, j := 0, len(els)-1; i < j; i, j = i+1, j-1 {
			els[i], els[j] = els[j], els[i]
		}
	}
	b, err := stackitem.Serialize(stackitem.NewMapWithValue(els))
	require.NoError(w.t, err)
	return b
}

func malleate(sig []byte) []byte {
	n := elliptic.P256().Params().N
	s := new(big.Int).SetBytes(sig[32:])
	s.Sub(n, s)
	out := make([]byte, 64)
	copy(out, sig[:32])
	s.FillBytes(out[32:])
	return out
}

func (w *rworld) sigBytes(c string, s RSig, ms int) []byte {
	mh := sha256.Sum256(w.msg(c, s.M, ms))
	key := hex.EncodeToString(mh[:]) + "|" + strconv.Itoa(s.K)
	sig, ok := w.sigmem[key]
	if !ok {
		require.True(w.t, s.K >= 1 && s.K <= poolK, "key index %d", s.K)
		sig = pool[s.K-1].Sign(w.msg(c, s.M, ms)) // ECDSA over sha256(message), as tests/container_test.go does
		w.sigmem[key] = sig
	}
	switch s.F {
	case "mal":
		return malleate(sig)
	case "junk":
		return sig[:63]
	}
	return sig
}

// matrix builds the signature matrix; an empty (inner or outer) list is passed as an empty Array or as Null
// (not for a vector whose REP number is 0: there the contract ranges over the Null and FAULTs, with REP >= 1 it
// answers false before; REP 0 is outside C14's quantifier, the difference is reported, not modelled)
func (w *rworld) matrix(r *rand.Rand, c string, sigs [][]RSig, ms int) any {
	if len(sigs) == 0 && r.Intn(2) == 0 {
		return nil
	}
	out := make([]any, len(sigs))
	for i, vec := range sigs {
		v := make([]any, len(vec))
		for j, s := range vec {
			v[j] = w.sigBytes(c, s, ms)
		}
		out[i] = v
		if len(vec) == 0 && r.Intn(2) == 0 && !(i < len(w.lastReps[c]) && w.lastReps[c][i] == 0) {
			out[i] = nil
		}
	}
	return out
}

// keysOf is KeysOf of ContainerRoster.tla: ln consecutive pool keys from `from`, with dup the first one once more.
func keysOf(from, ln int, dup bool) []int {
	out := make([]int, ln)
	for i := 1; i <= ln; i++ {
		out[i-1] = ((from+i-2)%poolK+poolK)%poolK + 1
	}
	if dup && ln > 0 {
		out = append(out, out[0])
	}
	return out
}

func (w *rworld) rexec(st RStep) chain.Rec {
	sg, names := w.signers(st.S)
	w.step++
	sh := w.shape(&st.Ash)
	ms := sh.Intn(4)
	id := w.rcid[st.C]
	require.NotNil(w.t, id, "cid %q", st.C)
	res, ret, fault := "HALT", "null", ""
	ntf := []any{}
	switch st.Act {
	case "add":
		ks := keysOf(st.From, st.Len, st.Dup)
		pubs := make([]any, len(ks))
		for i, k := range ks {
			pubs[i] = pool[k-1].PublicKey().Bytes()
		}
		var keys any = pubs
		if st.Bk && len(pubs) > 0 {
			pubs[sh.Intn(len(pubs))] = rbytes(sh, []int{0, 32, 34, 65}[sh.Intn(4)]) // a key of another length, anywhere
		} else if st.Bk {
			keys = nil // Null instead of a list
		}
		r := w.c.Run(w.cn, sg, "addNextEpochNodes", id, st.V, keys)
		res, fault = r.Res(), r.Fault
	case "commit":
		// replicas: a byte string or an array of integers; the empty list also as Null
		var rs any
		if sh.Intn(2) == 0 {
			b := make([]byte, len(st.Rs))
			for i, x := range st.Rs {
				b[i] = byte(x)
			}
			rs = b
		} else {
			a := make([]any, len(st.Rs))
			for i, x := range st.Rs {
				a[i] = x
			}
			rs = a
		}
		if len(st.Rs) == 0 && sh.Intn(3) == 0 {
			rs = nil
		}
		r := w.c.Run(w.cn, sg, "commitContainerListUpdate", id, rs)
		res, fault = r.Res(), r.Fault
		if r.Halt {
			for _, ev := range r.Events {
				if ev.ScriptHash == w.cn {
					ntf = append(ntf, ev.Name)
				}
			}
		}
	case "verify":
		stk, err := w.c.Call(w.cn, "verifyPlacementSignatures", id, w.msg(st.C, st.M, ms), w.matrix(sh, st.C, st.Sigs, ms))
		if err != nil {
			res, fault = "FAULT", err.Error()
		} else {
			b, e2 := stk[0].TryBool()
			require.NoError(w.t, e2)
			ret = strconv.FormatBool(b)
		}
	case "submit":
		r := w.c.Run(w.cn, sg, "submitObjectPut", w.msg(st.C, st.M, ms), w.matrix(sh, st.C, st.Sigs, ms))
		res, fault = r.Res(), r.Fault
		if r.Halt {
			for _, ev := range r.Events {
				if ev.ScriptHash == w.cn {
					ntf = append(ntf, ev.Name)
				}
			}
		}
	default:
		w.t.Fatalf("unknown act %q", st.Act)
	}
	rs := st.Rs
	if rs == nil {
		rs = []int{}
	}
	sigs := st.Sigs
	if sigs == nil {
		sigs = [][]RSig{}
	}
	for i := range sigs {
		if sigs[i] == nil {
			sigs[i] = []RSig{}
		}
	}
	if st.S == nil {
		names = []string{}
	}
	return chain.Rec{"act": st.Act, "S": names, "c": st.C, "v": st.V, "from": st.From, "len": st.Len, "bk": st.Bk, "dup": st.Dup, "ash": st.Ash, "rs": rs, "m": st.M,
		"sigs": sigs, "res": res, "ret": ret, "ntf": ntf, "fault": fault}
}

func (w *rworld) keyIdx(b []byte) int {
	if i, ok := poolIdx[hex.EncodeToString(b)]; ok {
		return i
	}
	w.bad = append(w.bad, "unknown-key:"+hex.EncodeToString(b))
	return 0
}

type rawKV struct {
	k, v []byte
}

// robserve: raw 'u' / 'n' / 'r' / 'm' keys of the Container contract and the nodes / replicasNumbers API
func (w *rworld) robserve() map[string]any {
	cids := []string{"c1", "c2", "c3"}
	raw := map[string]map[byte][rMaxVec + 1][]rawKV{}
	rr := map[string][]rawKV{}
	for _, c := range cids {
		raw[c] = map[byte][rMaxVec + 1][]rawKV{}
	}
	meta := []string{}
	stray := []string{}
	st := w.c.Storage(w.cn)
	hk := make([]string, 0, len(st))
	for k := range st {
		hk = append(hk, k)
	}
	sort.Strings(hk) // hex order = byte order = storage.Find order
	for _, k := range hk {
		kb, _ := hex.DecodeString(k)
		v := st[k]
		ok := false
		switch {
		case len(kb) == 36 && (kb[0] == 'u' || kb[0] == 'n'):
			if c, in := w.rname[hex.EncodeToString(kb[1:33])]; in && int(kb[33]) <= rMaxVec {
				m := raw[c][kb[0]]
				m[kb[33]] = append(m[kb[33]], rawKV{kb[34:], v})
				raw[c][kb[0]] = m
				ok = true
			}
		case len(kb) == 34 && kb[0] == 'r':
			if c, in := w.rname[hex.EncodeToString(kb[1:33])]; in {
				rr[c] = append(rr[c], rawKV{kb[33:], v})
				ok = true
			}
		case len(kb) == 33 && kb[0] == 'm':
			if c, in := w.rname[hex.EncodeToString(kb[1:])]; in {
				meta = append(meta, c)
				ok = true
			}
		case len(kb) == 33 && kb[0] == 'x', len(kb) == 58 && kb[0] == 'o', len(kb) <= 18:
			ok = true // the two containers of the set-up and the contract's own settings
		}
		if !ok {
			stray = append(stray, k)
		}
	}
	pend, comm, reps := map[string]any{}, map[string]any{}, map[string]any{}
	nodes, areps := map[string]any{}, map[string]any{}
	for _, c := range cids {
		for _, pfx := range []byte{'u', 'n'} {
			vecs := make([]any, rMaxVec+1)
			for v := 0; v <= rMaxVec; v++ {
				lst := []int{}
				for i, kv := range raw[c][pfx][byte(v)] {
					// the counter is stored big-endian in two bytes and starts at 1
					if len(kv.k) != 2 || int(kv.k[0])<<8|int(kv.k[1]) != i+1 {
						w.bad = append(w.bad, fmt.Sprintf("counter:%s/%c/%d/%x", c, pfx, v, kv.k))
					}
					lst = append(lst, w.keyIdx(kv.v))
				}
				vecs[v] = lst
			}
			if pfx == 'u' {
				pend[c] = vecs
			} else {
				comm[c] = vecs
			}
		}
		rl := []int64{}
		for i, kv := range rr[c] {
			if int(kv.k[0]) != i {
				w.bad = append(w.bad, fmt.Sprintf("rep-index:%s/%x", c, kv.k))
			}
			rl = append(rl, bigFromVM(kv.v).Int64())
		}
		reps[c] = rl
		if w.lastReps == nil {
			w.lastReps = map[string][]int64{}
		}
		w.lastReps[c] = rl
		// API
		vecs := make([]any, rMaxVec+1)
		for v := 0; v <= rMaxVec; v++ {
			lst := []int{}
			stk, err := w.c.Call(w.cn, "nodes", w.rcid[c], v)
			if err != nil {
				w.bad = append(w.bad, "nodes:"+err.Error())
			} else {
				for _, it := range structFields(stk[0]) {
					lst = append(lst, w.keyIdx(chain.ItemBytes(it)))
				}
			}
			vecs[v] = lst
		}
		nodes[c] = vecs
		al := []int64{}
		stk, err := w.c.Call(w.cn, "replicasNumbers", w.rcid[c])
		if err != nil {
			w.bad = append(w.bad, "replicasNumbers:"+err.Error())
		} else {
			for _, it := range structFields(stk[0]) {
				al = append(al, chain.ItemBig(it).Int64())
			}
		}
		areps[c] = al
	}
	sort.Strings(meta)
	return map[string]any{"pend": pend, "comm": comm, "reps": reps, "meta": meta, "nodes": nodes, "areps": areps, "stray": stray}
}

func bigFromVM(v []byte) *big.Int {
	b := make([]byte, len(v))
	for i := range v {
		b[len(v)-1-i] = v[i]
	}
	x := new(big.Int).SetBytes(b)
	if len(v) > 0 && v[len(v)-1]&0x80 != 0 {
		x.Sub(x, new(big.Int).Lsh(big.NewInt(1), uint(8*len(v))))
	}
	return x
}

func runRScenario(t *testing.T, rec *chain.Recorder, idx int, sc *RScenario, seed int64) {
	w := newRWorld(t, sc.N, seed+int64(idx))
	w.bad = nil
	obs := w.robserve()
	require.Empty(t, w.bad, "initial observation")
	rec.Emit(chain.Rec{"t": idx, "act": "reset", "S": []string{}, "c": "nil", "v": 0, "from": 0, "len": 0, "bk": false, "dup": false, "ash": 0, "rs": []int{}, "m": "nil",
		"sigs": []any{}, "res": "HALT", "ret": "null", "ntf": []any{}, "obs": obs, "bad": []string{}, "n": sc.N, "src": sc.Src})
	for _, st := range sc.Steps {
		w.bad = nil
		r := w.rexec(st)
		r["obs"] = w.robserve()
		if w.bad == nil {
			w.bad = []string{}
		}
		r["bad"] = w.bad
		r["t"] = idx
		rec.Emit(r)
	}
}

// ---- random scenarios ----

type rmodel struct {
	pend, comm map[string][][]int
	reps       map[string][]int
}

func randRScenario(r *rand.Rand) *RScenario {
	ns := []int{1, 4, 3, 7}
	sc := &RScenario{N: ns[r.Intn(len(ns))], Src: "rand"}
	cids := []string{"c1", "c1", "c1", "c2", "c3"}
	m := rmodel{pend: map[string][][]int{}, comm: map[string][][]int{}, reps: map[string][]int{}}
	for _, c := range []string{"c1", "c2", "c3"} {
		m.pend[c] = make([][]int, rMaxVec+1)
		m.comm[c] = make([][]int, rMaxVec+1)
	}
	big := r.Intn(3) == 0 // some scenarios cross the 127 / 255 / 256 boundaries of the counter
	// repeated keys: half of the small scenarios draw their batches from a handful of pool keys, so that a key turns
	// up twice within a vector (in two batches) and in several vectors; any batch may also list its first key twice
	narrow := !big && r.Intn(3) > 0
	base := 1 + r.Intn(poolK)
	sizes := []int{1, 1, 2, 2, 3, 4, 5, 0}
	if big {
		sizes = []int{1, 2, 126, 127, 128, 129, 254, 255, 256, 257, 300, 3}
	}
	A := []string{"ALPHA"}
	sig := func() []string {
		switch k := r.Intn(10); {
		case k < 8:
			return A
		case k == 8:
			return []string{"CMT"}
		default:
			return []string{}
		}
	}
	n := 8 + r.Intn(14)
	for i := 0; i < n; i++ {
		c := cids[r.Intn(len(cids))]
		// state-driven choice: build a roster, commit it, then spend most steps on signature matrices over it
		// (without committed REP numbers every matrix verifies vacuously)
		k := r.Intn(10)
		switch hasPend, hasComm := len(m.pend[c][0]) > 0, len(m.reps[c]) > 0; {
		case hasComm && k < 7:
			k = 9 // verify / submit
		case hasComm && k == 7:
			k = 4 // re-commit
		case hasComm:
			k = 0 // add
		case hasPend && k < 5:
			k = 4
		case k < 9:
			k = 0
		}
		switch {
		case k < 3:
			v := r.Intn(rMaxVec + 1)
			if r.Intn(4) > 0 { // mostly contiguous
				v = 0
				for v < rMaxVec && len(m.pend[c][v]) > 0 && r.Intn(2) == 0 {
					v++
				}
			}
			ln := sizes[r.Intn(len(sizes))]
			from := 1 + r.Intn(poolK)
			if narrow {
				from = base + r.Intn(3)
				ln = 1 + r.Intn(3)
			}
			s := sig()
			bk := r.Intn(12) == 0 // (with an empty batch: Null instead of a list)
			dup := ln > 0 && (r.Intn(6) == 0 || (narrow && r.Intn(3) == 0))
			sc.Steps = append(sc.Steps, RStep{Act: "add", S: s, C: c, V: v, From: from, Len: ln, Bk: bk, Dup: dup, M: "nil"})
			if len(s) == 1 && s[0] == "ALPHA" && !bk && (v == 0 || len(m.pend[c][v-1]) > 0) {
				m.pend[c][v] = append(m.pend[c][v], keysOf(from, ln, dup)...)
			}
		case k < 5:
			nv := 0
			for nv <= rMaxVec && len(m.pend[c][nv]) > 0 {
				nv++
			}
			if r.Intn(5) == 0 {
				nv = r.Intn(rMaxVec + 2)
			}
			rs := make([]int, nv)
			for j := range rs {
				rs[j] = 1 + r.Intn(4)
				if r.Intn(12) == 0 {
					rs[j] = 0 // REP 0: outside the property's quantifier, the Spec models the loop literally
				}
				if narrow {
					rs[j] = 2 + r.Intn(2) // REP 2..3 over a handful of keys: the interesting range for repeated members
				}
				if len(m.pend[c][j]) > 0 && rs[j] > len(m.pend[c][j]) && r.Intn(3) > 0 {
					rs[j] = len(m.pend[c][j])
				}
			}
			s := sig()
			sc.Steps = append(sc.Steps, RStep{Act: "commit", S: s, C: c, Rs: rs, M: "nil"})
			if len(s) == 1 && s[0] == "ALPHA" {
				m.comm[c] = m.pend[c]
				m.pend[c] = make([][]int, rMaxVec+1)
				m.reps[c] = rs
			}
		default:
			act := "verify"
			var s []string
			if r.Intn(3) == 0 {
				act = "submit"
				s = [][]string{{}, {"X"}, {"CMT"}}[r.Intn(3)]
			}
			sc.Steps = append(sc.Steps, RStep{Act: act, S: s, C: c, M: "m1", Sigs: randMatrix(r, m.comm[c], m.reps[c])})
		}
	}
	return sc
}

// randMatrix builds a signature matrix from member / non-member / duplicate / wrong-message / malleated / junk
// signatures around the REP numbers of the committed roster.
func randMatrix(r *rand.Rand, comm [][]int, reps []int) [][]RSig {
	nv := len(reps)
	switch r.Intn(8) {
	case 0:
		if nv > 0 {
			nv-- // missing vector
		}
	case 1:
		nv++ // surplus vector
	}
	out := make([][]RSig, nv)
	for i := range out {
		var mem []int
		if i <= rMaxVec {
			mem = comm[i]
		}
		rep := 1
		if i < len(reps) {
			rep = reps[i]
		}
		member := func() int {
			if len(mem) == 0 {
				return 1 + r.Intn(poolK)
			}
			return mem[r.Intn(len(mem))]
		}
		// keys listed more than once in this vector, and the other (distinct) members
		var repeated, others []int
		cnt := map[int]int{}
		for _, k := range mem {
			cnt[k]++
		}
		for k, c := range cnt {
			if c > 1 {
				repeated = append(repeated, k)
			}
		}
		sort.Ints(repeated)
		kind := r.Intn(9)
		if len(repeated) > 0 && r.Intn(2) == 0 {
			kind = 9 + r.Intn(3)
		}
		var vec []RSig
		switch kind {
		case 9, 10, 11: // a member listed twice signs once / twice / as itself and its malleated twin, next to other members
			k := repeated[r.Intn(len(repeated))]
			for o := range cnt {
				if o != k {
					others = append(others, o)
				}
			}
			sort.Ints(others)
			r.Shuffle(len(others), func(a, b int) { others[a], others[b] = others[b], others[a] })
			vec = append(vec, RSig{k, "m1", "ok"})
			fill := rep - 1 // honest: the repeated member once and rep-1 other members
			if kind == 10 {
				vec = append(vec, RSig{k, "m1", "ok"})
				fill = rep - 2 // its two listings must not make up for a missing member
			} else if kind == 11 {
				vec = append(vec, RSig{k, "m1", "mal"})
				fill = rep - 2
			}
			if r.Intn(4) == 0 {
				fill++ // ... unless there are enough other members anyway
			}
			for j := 0; j < fill && j < len(others); j++ {
				vec = append(vec, RSig{others[j], "m1", "ok"})
			}
		case 0, 1: // honest: rep distinct members (as far as there are any)
			p := r.Perm(len(mem))
			for j := 0; j < rep && j < len(p); j++ {
				vec = append(vec, RSig{mem[p[j]], "m1", "ok"})
			}
		case 2: // one member repeated rep times
			k := member()
			for j := 0; j < rep; j++ {
				vec = append(vec, RSig{k, "m1", "ok"})
			}
		case 3: // a member and its malleated twin(s)
			k := member()
			for j := 0; j < rep; j++ {
				vec = append(vec, RSig{k, "m1", []string{"ok", "mal"}[j%2]})
			}
		case 6: // members of another vector of the same container
			var other []int
			for d := 1; d <= rMaxVec && len(other) == 0; d++ {
				other = comm[(i+d)%(rMaxVec+1)]
			}
			p := r.Perm(len(other))
			for j := 0; j < rep && j < len(p); j++ {
				vec = append(vec, RSig{other[p[j]], "m1", "ok"})
			}
		case 4: // one short
			p := r.Perm(len(mem))
			for j := 0; j < rep-1 && j < len(p); j++ {
				vec = append(vec, RSig{mem[p[j]], "m1", "ok"})
			}
		case 5: // rep-1 members and a non-member / wrong message / junk filler
			p := r.Perm(len(mem))
			for j := 0; j < rep-1 && j < len(p); j++ {
				vec = append(vec, RSig{mem[p[j]], "m1", "ok"})
			}
			switch r.Intn(3) {
			case 0:
				vec = append(vec, RSig{1 + r.Intn(poolK), "m1", "ok"})
			case 1:
				vec = append(vec, RSig{member(), "m2", "ok"})
			default:
				vec = append(vec, RSig{member(), "m1", "junk"})
			}
		default: // anything
			ln := r.Intn(rep + 3)
			for j := 0; j < ln; j++ {
				k := member()
				if r.Intn(4) == 0 {
					k = 1 + r.Intn(poolK)
				}
				vec = append(vec, RSig{k, []string{"m1", "m1", "m1", "m2"}[r.Intn(4)], []string{"ok", "ok", "ok", "mal", "junk"}[r.Intn(5)]})
			}
		}
		r.Shuffle(len(vec), func(a, b int) { vec[a], vec[b] = vec[b], vec[a] })
		if vec == nil {
			vec = []RSig{}
		}
		out[i] = vec
	}
	return out
}

// ---- traps ----

func rs(act string, S []string, c string) RStep { return RStep{Act: act, S: S, C: c, M: "nil"} }

func radd(c string, v, from, ln int) RStep {
	return RStep{Act: "add", S: sA, C: c, V: v, From: from, Len: ln, M: "nil"}
}
func rcommit(c string, reps ...int) RStep { return RStep{Act: "commit", S: sA, C: c, Rs: reps, M: "nil"} }
func rverify(c string, sigs ...[]RSig) RStep {
	return RStep{Act: "verify", C: c, M: "m1", Sigs: sigs}
}
func rsubmit(c string, sigs ...[]RSig) RStep {
	return RStep{Act: "submit", S: []string{}, C: c, M: "m1", Sigs: sigs}
}
func ok(k int) RSig  { return RSig{k, "m1", "ok"} }
func mal(k int) RSig { return RSig{k, "m1", "mal"} }

// witness of DESIGN 5.4 row 5: one member's signature repeated REP times (and its malleated twin)
func trapDupSigner(n int) *RScenario {
	return &RScenario{N: n, Src: "trap:dupsigner", Steps: []RStep{
		radd("c1", 0, 1, 3), radd("c1", 1, 10, 4),
		rcommit("c1", 2, 3),
		rverify("c1", []RSig{ok(1), ok(2)}, []RSig{ok(10), ok(11), ok(12)}),          // honest
		rverify("c1", []RSig{ok(2), ok(1)}, []RSig{ok(13), ok(99), ok(11), ok(12)}),  // honest with a stranger in between
		rverify("c1", []RSig{ok(1)}, []RSig{ok(10), ok(11), ok(12)}),                 // one short
		rverify("c1", []RSig{ok(1), ok(2)}),                                          // missing vector
		rverify("c1", []RSig{ok(1), ok(10)}, []RSig{ok(10), ok(11), ok(12)}),         // member of the other vector
		rverify("c1", []RSig{ok(1), ok(2)}, []RSig{ok(1), ok(2), ok(3)}),             // vector 1 signed by the members of vector 0
		rverify("c1", []RSig{ok(10), ok(11)}, []RSig{ok(10), ok(11), ok(12)}),        // vector 0 signed by the members of vector 1
		rsubmit("c1", []RSig{ok(1), ok(2)}, []RSig{ok(1), ok(2), ok(3)}),
		rverify("c1", []RSig{ok(1), {2, "m2", "ok"}}, []RSig{ok(10), ok(11), ok(12)}), // wrong message
		rverify("c1", []RSig{ok(1), {2, "m1", "junk"}}, []RSig{ok(10), ok(11), ok(12)}),
		rverify("c1", []RSig{ok(1), ok(1)}, []RSig{ok(10), ok(11), ok(12)}),  // duplicate of one member
		rverify("c1", []RSig{ok(1), mal(1)}, []RSig{ok(10), ok(11), ok(12)}), // malleated twin of one member
		rverify("c1", []RSig{ok(1), ok(2)}, []RSig{ok(10), mal(10), ok(10)}),
		rsubmit("c1", []RSig{ok(1), ok(2)}, []RSig{ok(10), ok(11), ok(12)}),
		rsubmit("c1", []RSig{ok(1), ok(1)}, []RSig{ok(10), ok(11), ok(12)}),
		rsubmit("c1", []RSig{ok(1)}, []RSig{ok(10), ok(11), ok(12)}),
		rsubmit("c2", []RSig{ok(1), ok(2)}, []RSig{ok(10), ok(11), ok(12)}), // no meta flag
		rcommit("c1"), // empty commit clears the roster; everything verifies vacuously
		rverify("c1"),
		rsubmit("c1"),
	}}
}

// the two-byte counter crosses 127 / 255 / 256 in several batches; re-commit; empty commit; several vectors
func trapLongRoster(n int) *RScenario {
	return &RScenario{N: n, Src: "trap:longroster", Steps: []RStep{
		radd("c1", 1, 1, 2), // vector 0 is missing
		radd("c1", 0, 1, 126), radd("c1", 0, 127, 1), radd("c1", 0, 128, 1), radd("c1", 0, 129, 2),
		radd("c1", 1, 200, 100), radd("c1", 1, 1, 155), radd("c1", 1, 20, 1), radd("c1", 1, 21, 1), radd("c1", 1, 22, 43),
		radd("c1", 2, 5, 300),
		{Act: "add", S: sA, C: "c1", V: 2, From: 7, Len: 5, Bk: true, M: "nil"},
		{Act: "add", S: []string{"CMT"}, C: "c1", V: 0, From: 7, Len: 5, M: "nil"},
		rverify("c1", []RSig{ok(1)}),
		rcommit("c1", 1, 2, 4),
		rverify("c1", []RSig{ok(128)}, []RSig{ok(21), ok(299)}, []RSig{ok(4), ok(5), ok(299), ok(300), ok(1)}),
		rverify("c1", []RSig{ok(131)}, []RSig{ok(21), ok(299)}, []RSig{ok(5), ok(6), ok(7), ok(8)}),
		radd("c1", 0, 300, 3), // wraps around the pool: 300, 1, 2
		{Act: "commit", S: []string{}, C: "c1", Rs: []int{1}, M: "nil"},
		rcommit("c1", 3),
		rverify("c1", []RSig{ok(300), ok(1), ok(2)}),
		rcommit("c1"),
		rcommit("c1"),
		radd("c3", 0, 1, 257), rcommit("c3", 2), radd("c3", 0, 1, 1), radd("c3", 1, 2, 1), rcommit("c3", 1, 1),
		rverify("c3", []RSig{ok(1)}, []RSig{ok(2)}),
	}}
}

// repeated keys: the same key twice within a batch (A,B,D,A), in two batches of one vector, and in two vectors.
// nodes() returns it as often as it was submitted; for the signatures it is ONE member.
func trapRepeatedKeys(n int) *RScenario {
	dupAdd := func(c string, v, from, ln int) RStep {
		return RStep{Act: "add", S: sA, C: c, V: v, From: from, Len: ln, Dup: true, M: "nil"}
	}
	return &RScenario{N: n, Src: "trap:repeatedkeys", Steps: []RStep{
		dupAdd("c1", 0, 1, 3),                     // vector 0: 1,2,3,1
		radd("c1", 1, 5, 2), radd("c1", 1, 5, 1), // vector 1: 5,6,5 (two batches)
		radd("c1", 2, 1, 2),                      // vector 2: 1,2 (keys of vector 0)
		rcommit("c1", 2, 2, 2),
		rverify("c1", []RSig{ok(1), ok(2)}, []RSig{ok(5), ok(6)}, []RSig{ok(2), ok(1)}),           // honest
		rverify("c1", []RSig{ok(1), ok(1)}, []RSig{ok(5), ok(6)}, []RSig{ok(1), ok(2)}),           // A twice for REP 2
		rverify("c1", []RSig{ok(1), mal(1)}, []RSig{ok(5), ok(6)}, []RSig{ok(1), ok(2)}),          // A and its twin
		rverify("c1", []RSig{ok(1), ok(2)}, []RSig{ok(5), ok(5)}, []RSig{ok(1), ok(2)}),           // repeated across batches
		rverify("c1", []RSig{ok(1), ok(2)}, []RSig{ok(5), mal(5)}, []RSig{ok(1), ok(2)}),
		rverify("c1", []RSig{ok(1), ok(1), ok(3)}, []RSig{ok(6), ok(5), ok(5)}, []RSig{ok(2), ok(1)}), // twice, but enough others
		rverify("c1", []RSig{ok(3), ok(1)}, []RSig{ok(5), ok(6)}, []RSig{ok(1), ok(1)}),           // vector 2 lists key 1 once
		rsubmit("c1", []RSig{ok(1), ok(1)}, []RSig{ok(5), ok(6)}, []RSig{ok(1), ok(2)}),
		rsubmit("c1", []RSig{ok(1), ok(2)}, []RSig{ok(5), ok(5)}, []RSig{ok(1), ok(2)}),
		rsubmit("c1", []RSig{ok(2), ok(1)}, []RSig{ok(6), ok(5)}, []RSig{ok(1), ok(2)}),
		// REP 3 over 1,2,3,1: A twice and B are two members, not three
		dupAdd("c1", 0, 1, 3), rcommit("c1", 3),
		rverify("c1", []RSig{ok(1), ok(1), ok(2)}),
		rverify("c1", []RSig{ok(1), mal(1), ok(2)}),
		rverify("c1", []RSig{ok(2), ok(1), ok(1)}),
		rverify("c1", []RSig{ok(1), ok(2), ok(3)}),
		rverify("c1", []RSig{ok(1), ok(1), ok(2), ok(3)}),
		rsubmit("c1", []RSig{ok(1), ok(1), ok(2)}),
		// a roster that is one key listed three times: one member
		dupAdd("c3", 0, 9, 1), radd("c3", 0, 9, 1), rcommit("c3", 2),
		rverify("c3", []RSig{ok(9), ok(9)}),
		rverify("c3", []RSig{ok(9), mal(9), ok(9)}),
		rcommit("c3", 1),
		rverify("c3", []RSig{ok(9)}),
	}}
}

func driveRoster(t *testing.T, out string) {
	seed, _ := strconv.ParseInt(os.Getenv("VERIF_SEED"), 10, 64)
	nrand, _ := strconv.Atoi(os.Getenv("VERIF_NRAND"))
	shard, _ := strconv.Atoi(os.Getenv("VERIF_SHARD"))
	nshard, _ := strconv.Atoi(os.Getenv("VERIF_NSHARD"))
	if nshard == 0 {
		nshard = 1
	}
	var scs []*RScenario
	if p := os.Getenv("VERIF_SCEN"); p != "" {
		data, err := os.ReadFile(p)
		require.NoError(t, err)
		require.NoError(t, json.Unmarshal(data, &scs))
	}
	ns := []int{1, 4, 3, 7}
	for i, sc := range scs {
		if sc.N == 0 {
			sc.N = ns[i%len(ns)]
		}
		if sc.Src == "" {
			sc.Src = "tlc"
		}
	}
	if os.Getenv("VERIF_NOTRAPS") == "" {
		scs = append(scs, trapDupSigner(1), trapDupSigner(4), trapLongRoster(3), trapLongRoster(7), trapRepeatedKeys(1), trapRepeatedKeys(3))
	}
	r := rand.New(rand.NewSource(seed*104729 + 5))
	for i := 0; i < nrand; i++ {
		scs = append(scs, randRScenario(r))
	}
	rec := chain.NewRecorder(t, out)
	for i, sc := range scs {
		if i%nshard != shard {
			continue
		}
		runRScenario(t, rec, i, sc, seed)
	}
	rec.Close()
	stats, _ := json.Marshal(map[string]any{"lines": rec.N, "scenarios": len(scs), "acts": rec.Acts})
	fmt.Println("DRIVER-STATS " + string(stats))
}

var _ = bytes.Equal
