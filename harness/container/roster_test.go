package container

import "testing"

func driveRoster(t *testing.T, out string) { t.Fatal("not yet") }
