package container

import (
	"github.com/nspcc-dev/neo-go/pkg/neotest"
	"github.com/nspcc-dev/neo-go/pkg/util"
	"github.com/stretchr/testify/require"

	"verif/harness/chain"
)

func deployContainer(c *chain.Chain) util.Uint160 {
	nns, err := c.E.Chain.GetContractScriptHash(1)
	require.NoError(c.T, err)
	r := c.Run(nns, []neotest.Signer{c.Cmt}, "registerTLD", "container", "ops@nspcc.ru", int64(3600), int64(600), int64(3600*24*365*10), int64(3600))
	require.True(c.T, r.Halt, r.Fault)
	return c.DeployContainer()
}
