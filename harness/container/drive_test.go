// Package container drives the real Container contract (compiled from the
// working tree and deployed next to NNS, Netmap, Balance and NeoFSID on an
// in-process ledger with a generated committee) through scenarios generated
// by TLC from spec/Container.tla / spec/ContainerRoster.tla, by seeded random
// walkers and by hand-written traps, and records every step with the full
// projected state (read API + raw storage + NNS records + NEOFS balances) as
// ndjson for the trace monitors spec/ContainerTrace.tla (C04, C05) and
// spec/ContainerRosterTrace.tla (C14).
//
// VERIF_FAMMODE selects the family half: "registry" (default) or "roster".
package container

import (
	"bytes"
	"crypto/sha256"
	"encoding/hex"
	"encoding/json"
	"fmt"
	"math/big"
	"math/rand"
	"os"
	"sort"
	"strconv"
	"testing"

	"github.com/mr-tron/base58"
	"github.com/nspcc-dev/neo-go/pkg/core/state"
	"github.com/nspcc-dev/neo-go/pkg/core/transaction"
	"github.com/nspcc-dev/neo-go/pkg/encoding/address"
	"github.com/nspcc-dev/neo-go/pkg/encoding/bigint"
	"github.com/nspcc-dev/neo-go/pkg/neotest"
	"github.com/nspcc-dev/neo-go/pkg/smartcontract"
	"github.com/nspcc-dev/neo-go/pkg/util"
	"github.com/nspcc-dev/neo-go/pkg/vm/stackitem"
	"github.com/stretchr/testify/require"

	"verif/harness/chain"
)

// Step is one invocation in model vocabulary (the ev record of Container.tla).
type Step struct {
	Act  string   `json:"act"`
	S    []string `json:"S"`
	C    string   `json:"c"`
	V    string   `json:"v"`
	Nm   string   `json:"nm"`
	Meta bool     `json:"meta"`
	C2   string   `json:"c2"` // put2: the second put of the block
	V2   string   `json:"v2"`
	Nm2  string   `json:"nm2"`
	Meta2 bool    `json:"meta2"`
	Kb   bool     `json:"kb"`  // put / setEACL: the publicKey argument is not 33 bytes long
	Rb   bool     `json:"rb"`  // setEACL: re-submit the table BYTES last offered for this container (new signature/key/token)
	Ash  int64    `json:"ash"` // seed of the argument shapes the Spec ignores (0: drawn from the scenario seed and the step position)
	O    string   `json:"o"`
	K    string   `json:"k"`
	Amt  int64    `json:"amt"`
}

// Scenario is a sequence of steps on a fresh chain.
type Scenario struct {
	N     int    `json:"n"`     // committee size
	Scale int    `json:"scale"` // index into scales
	Src   string `json:"src"`   // "tlc" | "rand" | "trap:<name>"
	VerLen []int `json:"verlen"` // version-field lengths of the container blobs (replay; else drawn from the seed)
	Steps []Step `json:"steps"`
}

var scales = []*big.Int{
	big.NewInt(1),
	big.NewInt(1_0000_0000),
	new(big.Int).Lsh(big.NewInt(1), 40),
	new(big.Int).Exp(big.NewInt(10), big.NewInt(30), nil),
}

const (
	nOwners = 3 // o1, o2: ordinary users; oa: the standard account of Alphabet node aIdx(n)
	nCids   = 6 // c0..c5; c0 is never put
	nNames  = 3
)

// owner of the model container ci (the same table as S_COwner / M_COwner in the specs)
var cidOwner = []string{"o1", "o1", "o1", "o2", "o2", "oa"}

var ownerNames = []string{"o1", "o2", "oa"}

// aIdx is AIdx(n) of Container.tla: the (1-based) Alphabet node whose standard account is owner oa's account.
func aIdx(n int) int { return (n + 1) / 2 }


type variant struct {
	sig, pub, token []byte
}

type world struct {
	t                         *testing.T
	c                         *chain.Chain
	nns, nm, bal, nid, cn     util.Uint160
	owners                    map[string]neotest.Signer
	ownerID                   map[string][]byte
	blob                      map[string][]byte
	cid                       map[string][]byte
	cidName                   map[string]string // hex(cid) -> model name
	vars                      map[string]variant
	evars                     map[string]variant // eACL variants (sig,pub,token)
	accName                   map[string]string  // hex(script hash BE) -> model account name
	U                         *big.Int
	bad                       []string // observations that could not be mapped to model values
	badAmt                    []string // amounts that are not multiples of the scale / out of range
	stranger                  neotest.Signer
	seed                      int64
	step                      int
	verLen                    []int                      // version-field length of every container blob (moves the owner offset)
	putOffers, eaclOffers     map[string]string          // descriptors offered so far -> variant
	lastEACL                  map[string][]byte          // container -> table bytes of the last setEACL offer
	bKeys                     map[string]map[string]bool // owner -> keys offered with an empty token (NeoFSID)
}

var verLens = []int{0, 0, 1, 2, 5, 17, 100, 127, 128, 250, 255}

func offerKey(c string, val, sig, pub, tok []byte) string {
	return c + "|" + hex.EncodeToString(val) + "|" + hex.EncodeToString(sig) + "|" + hex.EncodeToString(pub) + "|" + hex.EncodeToString(tok)
}

// shape returns the generator of the argument parts that the Spec ignores or treats as opaque (signature, key and
// token bytes and lengths, blob tails, overload, zone spelling, free-form ids/details/e-mails, SOA numbers). It is
// seeded by st.Ash, which is drawn from the scenario seed and the step position unless the scenario fixes it
// (replay), and recorded in the trace.
func (w *world) shape(ash *int64) *rand.Rand {
	if *ash == 0 {
		*ash = 1 + ((w.seed*1000003+int64(w.step)*7919)&0x3fffffff+0x3fffffff)%0x3fffffff
	}
	return rand.New(rand.NewSource(*ash))
}

func rbytes(r *rand.Rand, n int) []byte {
	b := make([]byte, n)
	r.Read(b)
	return b
}

// anyBytes: a byte-string argument the contract does not look at: Null, empty, or random of the given lengths
func anyBytes(r *rand.Rand, lens ...int) any {
	switch k := r.Intn(len(lens) + 2); {
	case k == 0:
		return nil
	case k == 1:
		return []byte{}
	default:
		return rbytes(r, lens[k-2])
	}
}

func asBytes(a any) []byte {
	b, _ := a.([]byte)
	return b
}

func ownerIDOf(h util.Uint160) []byte {
	o, _ := base58.Decode(address.Uint160ToString(h))
	return o
}

func detBytes(seed int64, label string, n int) []byte {
	out := make([]byte, 0, n+32)
	for ctr := 0; len(out) < n; ctr++ {
		h := sha256.Sum256([]byte(fmt.Sprintf("verif-bytes|%d|%s|%d", seed, label, ctr)))
		out = append(out, h[:]...)
	}
	return out[:n]
}

// zoneOf: the model name n3 lives in a SECOND zone that is always spelled out (the alias fee and the record handling must not
// depend on the zone being the contract's default root - thirteenth seeded batch, C05h); n1, n2 live in the default zone
func zoneOf(nm string) string {
	if nm == "n3" {
		return "cdn"
	}
	return "container"
}
func domainOf(nm string) string { return "alias-" + nm + "." + zoneOf(nm) }

func deployContainer(c *chain.Chain) util.Uint160 {
	// Container's _deploy registers its alias TLD through NNS, which needs the committee witness; the
	// deploy transaction of harness/chain carries only the validators' one (they differ for n = 3, 7),
	// so the TLD is registered by the committee beforehand (registerNiceNameTLD then skips it).
	nns, err := c.E.Chain.GetContractScriptHash(1)
	require.NoError(c.T, err)
	r := c.Run(nns, []neotest.Signer{c.Cmt}, "registerTLD", "container", "ops@nspcc.ru", int64(3600), int64(600), int64(3600*24*365*10), int64(3600))
	require.True(c.T, r.Halt, r.Fault)
	r = c.Run(nns, []neotest.Signer{c.Cmt}, "registerTLD", "cdn", "ops@nspcc.ru", int64(3600), int64(600), int64(3600*24*365*10), int64(3600))
	require.True(c.T, r.Halt, r.Fault)
	return c.DeployContainer()
}

func newWorld(t *testing.T, n int, scale int, seed int64, verlen ...[]int) *world {
	c := chain.New(t, n, seed)
	w := &world{t: t, c: c, owners: map[string]neotest.Signer{}, ownerID: map[string][]byte{}, blob: map[string][]byte{},
		cid: map[string][]byte{}, cidName: map[string]string{}, vars: map[string]variant{}, evars: map[string]variant{},
		accName: map[string]string{}, U: scales[scale%len(scales)], seed: seed,
		putOffers: map[string]string{}, eaclOffers: map[string]string{}, lastEACL: map[string][]byte{}, bKeys: map[string]map[string]bool{}}
	vr := rand.New(rand.NewSource(seed*31 + 7))
	for i := 0; i < nCids; i++ {
		w.verLen = append(w.verLen, verLens[vr.Intn(len(verLens))])
	}
	if len(verlen) > 0 && len(verlen[0]) == nCids {
		w.verLen = verlen[0]
	}
	w.nns = c.DeployNNS()
	w.nm = c.DeployNetmap("ContainerFee", int64(0), "ContainerAliasFee", int64(0))
	w.bal = c.DeployBalance()
	w.nid = c.DeployNeoFSID()
	w.cn = deployContainer(c)
	for _, nm := range ownerNames {
		var s neotest.Signer
		if nm == "oa" {
			s = c.Members[aIdx(n)-1] // single-key account of the node = contract.CreateStandardAccount(node)
		} else {
			s = c.NewUser(nm, 0)
		}
		w.owners[nm] = s
		w.ownerID[nm] = ownerIDOf(s.ScriptHash())
		w.accName[hex.EncodeToString(s.ScriptHash().BytesBE())] = nm
	}
	for k, p := range c.Privs {
		w.accName[hex.EncodeToString(p.PublicKey().GetScriptHash().BytesBE())] = "A" + strconv.Itoa(k+1)
	}
	w.stranger = c.NewUser("stranger", 0)
	for i := 0; i < nCids; i++ {
		nm := "c" + strconv.Itoa(i)
		L := w.verLen[i]
		b := detBytes(seed, "blob"+nm, 2+L+4+25+vr.Intn(60)) // the tail after the owner may be empty
		b[1] = byte(L)
		copy(b[2+L+4:], w.ownerID[cidOwner[i]])
		id := sha256.Sum256(b)
		w.blob[nm] = b
		w.cid[nm] = id[:]
		w.cidName[hex.EncodeToString(id[:])] = nm
	}
	for _, v := range []string{"a", "b"} {
		tok := detBytes(seed, "tok"+v, 42)
		if v == "b" {
			tok = []byte{}
		}
		w.vars[v] = variant{sig: detBytes(seed, "sig"+v, 64), pub: chain.DetKey(seed, "pub"+v).PublicKey().Bytes(), token: tok}
		w.evars[v] = variant{sig: detBytes(seed, "esig"+v, 64), pub: chain.DetKey(seed, "epub"+v).PublicKey().Bytes(),
			token: detBytes(seed, "etok"+v, 30)}
	}
	return w
}

// eACL blob of variant v for container c: [x, L, L bytes, 4 bytes, cid, tail]; L depends on the variant
func (w *world) eaclBlob(r *rand.Rand, c string) []byte {
	L := []int{0, 1, 20, 100, 223}[r.Intn(5)] // the offset byte must stay below 256 - 2 - 4 - ... nothing else limits it
	b := rbytes(r, 2+L+4+32+r.Intn(40))
	b[1] = byte(L)
	copy(b[2+L+4:], w.cid[c])
	return b
}

// pubArg: a 33-byte key (random bytes: the contract never decodes it) or, with kb, one of another length
func pubArg(r *rand.Rand, kb bool) []byte {
	if kb {
		return rbytes(r, []int{0, 1, 32, 34, 64, 65}[r.Intn(6)])
	}
	return rbytes(r, 33)
}

func (w *world) cidNameOf(b []byte) string {
	if n, ok := w.cidName[hex.EncodeToString(b)]; ok {
		return n
	}
	return "?" + hex.EncodeToString(b)
}

func (w *world) accNameOf(b []byte) string {
	if len(b) == 0 {
		return "nil"
	}
	if n, ok := w.accName[hex.EncodeToString(b)]; ok {
		return n
	}
	return "?" + hex.EncodeToString(b)
}

// signer set: model names -> signers; returns the normalised name list: accounts that coincide with the
// Alphabet / committee account carry that role too (ALPHA = CMT for n in {1,4}).
func (w *world) signers(S []string) ([]neotest.Signer, []string) {
	var out []neotest.Signer
	set := map[string]bool{}
	add := func(s neotest.Signer) {
		out = append(out, s)
		if s.ScriptHash() == w.c.Alpha.ScriptHash() {
			set["ALPHA"] = true
		}
		if s.ScriptHash() == w.c.Cmt.ScriptHash() {
			set["CMT"] = true
		}
	}
	for _, s := range S {
		set[s] = true
		switch s {
		case "ALPHA":
			add(w.c.Alpha)
		case "CMT":
			add(w.c.Cmt)
		case "M1":
			add(w.c.Members[0])
		case "X":
			add(w.stranger)
		default:
			u, ok := w.owners[s]
			require.True(w.t, ok, "unknown signer %s", s)
			add(u)
		}
	}
	names := make([]string, 0, len(set))
	for s := range set {
		names = append(names, s)
	}
	sort.Strings(names)
	return out, names
}

func (w *world) amount(m int64) *big.Int { return new(big.Int).Mul(big.NewInt(m), w.U) }

func (w *world) unscale(b *big.Int, what string) int64 {
	if b == nil {
		w.badAmt = append(w.badAmt, what+"=nil")
		return 0
	}
	q, r := new(big.Int).QuoRem(b, w.U, new(big.Int))
	if r.Sign() != 0 || !q.IsInt64() || q.Int64() > 1<<30 || q.Int64() < -(1<<30) {
		w.badAmt = append(w.badAmt, what+"="+b.String())
		return 0
	}
	return q.Int64()
}

func (w *world) exec(st Step) chain.Rec {
	sg, names := w.signers(st.S)
	var r, r2 *chain.Result
	w.step++
	sh := w.shape(&st.Ash)
	switch st.Act {
	case "put":
		m, args := w.putCall(sh, st.C, st.V, st.Nm, st.Meta, st.Kb)
		r = w.c.Run(w.cn, sg, m, args...)
	case "put2":
		// two puts as two transactions of ONE block; the second runs on the result of the first
		m1, a1 := w.putCall(sh, st.C, st.V, st.Nm, st.Meta, false)
		m2, a2 := w.putCall(sh, st.C2, st.V2, st.Nm2, st.Meta2, false)
		rs := w.c.RunBlock(w.bigTx(w.cn, sg, m1, a1...), w.bigTx(w.cn, sg, m2, a2...))
		r, r2 = rs[0], rs[1]
	case "delete":
		r = w.c.Run(w.cn, sg, "delete", w.cid[st.C], anyBytes(sh, 64, 65, 1), anyBytes(sh, 1, 42, 300))
	case "setEACL":
		require.Contains(w.t, []string{"a", "b"}, st.V)
		blob, sig, pub, tok := w.eaclBlob(sh, st.C), anyBytes(sh, 64, 64, 65, 3), pubArg(sh, st.Kb), anyBytes(sh, 1, 30, 200)
		if last, ok := w.lastEACL[st.C]; ok && st.Rb { // byte-identical table, everything else fresh (ninth seeded batch, C04f)
			blob = last
		}
		w.lastEACL[st.C] = blob
		w.eaclOffers[offerKey(st.C, blob, asBytes(sig), pub, asBytes(tok))] = st.V
		r = w.c.Run(w.cn, sg, "setEACL", blob, sig, pub, tok)
	case "setConfig":
		key := "ContainerFee"
		if st.K == "afee" {
			key = "ContainerAliasFee"
		}
		var val any = w.amount(st.Amt)
		if sh.Intn(2) == 0 {
			val = bigint.ToBytes(w.amount(st.Amt)) // the value as the byte string the integer is stored as
		}
		r = w.c.Run(w.nm, sg, "setConfig", anyBytes(sh, 2, 32), key, val)
	case "mint":
		r = w.c.Run(w.bal, sg, "mint", w.owners[st.O].ScriptHash(), w.amount(st.Amt), [][]byte{{}, {1}, rbytes(sh, 32), rbytes(sh, 200)}[sh.Intn(4)])
		// (not Null: balance.mint FAULTs on Null details - append(mintPrefix, Null...) - a Balance matter, reported)
	case "nnsReg":
		// (the e-mail is never empty and has no blank: nns.register accepts such a value, but every later record change
		// of the domain then FAULTs with "invalid soa record" - an NNS matter, reported)
		who := w.c.Cmt.ScriptHash()
		if st.O == "x" {
			who = w.stranger.ScriptHash()
		}
		r = w.c.Run(w.nns, sg, "register", domainOf(st.Nm), who, []string{"ops@nspcc.ru", "a@b", "x", "x.y.z-0123456789@" + domainOf(st.Nm)}[sh.Intn(4)], int64(sh.Intn(100000)),
			int64(sh.Intn(100000)), int64(3600*24*365*(1+sh.Intn(10))), int64(sh.Intn(100000)))
	case "nnsAdd":
		r = w.c.Run(w.nns, sg, "addRecord", domainOf(st.Nm), 16, "foreign")
	default:
		w.t.Fatalf("unknown act %q", st.Act)
	}
	ret := "null"
	if r.Halt && len(r.Stack) == 1 && r.Stack[0].Type() == stackitem.BooleanT {
		bv, _ := r.Stack[0].TryBool()
		ret = strconv.FormatBool(bv)
	}
	// the application log of a FAULTed transaction still lists what was emitted before the fault; those
	// notifications are not delivered to anybody (the transaction has no effect), so they are not events of the step
	var evs []state.NotificationEvent
	if r.Halt {
		evs = r.Events
	}
	ntf, xfer := w.events(evs)
	rec := chain.Rec{"act": st.Act, "S": names, "c": st.C, "v": st.V, "nm": st.Nm, "meta": st.Meta, "o": st.O, "k": st.K,
		"amt": st.Amt, "res": r.Res(), "ret": ret, "ntf": ntf, "xfer": xfer, "fault": r.Fault, "kb": st.Kb, "rb": st.Rb, "ash": st.Ash,
		"c2": "nil", "v2": "nil", "nm2": "nil", "meta2": false, "res2": "nil", "ntf2": []any{}, "xfer2": []any{}}
	if r2 != nil {
		evs = nil
		if r2.Halt {
			evs = r2.Events
		}
		ntf2, xfer2 := w.events(evs)
		rec["c2"], rec["v2"], rec["nm2"], rec["meta2"] = st.C2, st.V2, st.Nm2, st.Meta2
		rec["res2"], rec["ntf2"], rec["xfer2"], rec["fault2"] = r2.Res(), ntf2, xfer2, r2.Fault
	}
	return rec
}

// putCall selects the entry point (every overload: put with 4 and 5 arguments, putNamed with the default and the
// spelled-out zone) and draws the arguments the contract stores without looking at them.
func (w *world) putCall(r *rand.Rand, c, vn, nm string, meta, kb bool) (string, []any) {
	require.Contains(w.t, []string{"a", "b"}, vn)
	b := w.blob[c]
	require.NotNil(w.t, b, "cid %q", c)
	sig := anyBytes(r, 64, 64, 65, 1)
	pub := pubArg(r, kb)
	var tok any = rbytes(r, 1+r.Intn(80)) // variant a: some session token
	if vn == "b" {                         // variant b: no session token (Null or empty) -> neofsid.addKey(owner, key)
		tok = []byte{}
		if r.Intn(2) == 0 {
			tok = nil
		}
		ci, _ := strconv.Atoi(c[1:])
		o := cidOwner[ci]
		if w.bKeys[o] == nil {
			w.bKeys[o] = map[string]bool{}
		}
		w.bKeys[o][hex.EncodeToString(pub)] = true
	}
	w.putOffers[offerKey(c, b, asBytes(sig), pub, asBytes(tok))] = vn
	switch {
	case nm != "nil":
		if zoneOf(nm) != "container" {
			return "putNamed", []any{b, sig, pub, tok, "alias-" + nm, zoneOf(nm)}
		}
		return "putNamed", []any{b, sig, pub, tok, "alias-" + nm, []string{"", "container"}[r.Intn(2)]}
	case meta:
		return "put", []any{b, sig, pub, tok, true}
	case r.Intn(2) == 0:
		return "put", []any{b, sig, pub, tok, false}
	}
	return "put", []any{b, sig, pub, tok}
}

// bigTx is chain.Tx with a fixed generous system fee: the fee estimate of chain.Tx comes from a test invocation on
// the state BEFORE the block, which is wrong for a transaction whose outcome depends on an earlier one of the block.
func (w *world) bigTx(h util.Uint160, extra []neotest.Signer, method string, args ...any) *transaction.Transaction {
	script, err := smartcontract.CreateCallScript(h, method, args...)
	require.NoError(w.t, err)
	e := w.c.E
	signers := chain.Dedup(append([]neotest.Signer{w.c.Payer}, extra...))
	tx := transaction.New(script, 0)
	tx.Nonce = neotest.Nonce()
	tx.ValidUntilBlock = e.Chain.BlockHeight() + 1
	for _, acc := range signers {
		tx.Signers = append(tx.Signers, transaction.Signer{Account: acc.ScriptHash(), Scopes: transaction.Global})
	}
	neotest.AddNetworkFee(w.t, e.Chain, tx, signers...)
	tx.SystemFee = 40_0000_0000
	for _, acc := range signers {
		require.NoError(w.t, acc.SignTx(e.Chain.GetConfig().Magic, tx))
	}
	return tx
}

// events: the three registry notifications of the Container contract and the Transfer notifications of Balance
func (w *world) events(evs []state.NotificationEvent) ([]any, []any) {
	ntf, xfer := []any{}, []any{}
	for _, ev := range evs {
		items, _ := ev.Item.Value().([]stackitem.Item)
		switch {
		case ev.ScriptHash == w.cn && (ev.Name == "PutSuccess" || ev.Name == "DeleteSuccess" || ev.Name == "SetEACLSuccess"):
			ntf = append(ntf, map[string]any{"n": ev.Name, "c": w.cidNameOf(chain.ItemBytes(items[0]))})
		case ev.ScriptHash == w.bal && ev.Name == "Transfer":
			xfer = append(xfer, map[string]any{"from": w.accNameOf(chain.ItemBytes(items[0])), "to": w.accNameOf(chain.ItemBytes(items[1])),
				"amt": w.unscale(chain.ItemBig(items[2]), "ntf.amount")})
		}
	}
	return ntf, xfer
}

// variantOf maps a stored / returned descriptor (value, signature, key, token) of container c to the variant it was
// offered as.
func (w *world) variantOf(offers map[string]string, c string, f []stackitem.Item) string {
	if len(f) != 4 {
		return "?arity"
	}
	if v, ok := offers[offerKey(c, chain.ItemBytes(f[0]), chain.ItemBytes(f[1]), chain.ItemBytes(f[2]), chain.ItemBytes(f[3]))]; ok {
		return v
	}
	return "?variant"
}

func structFields(it stackitem.Item) []stackitem.Item {
	f, _ := it.Value().([]stackitem.Item)
	return f
}

func isNotFound(err error) bool {
	return err != nil && bytes.Contains([]byte(err.Error()), []byte("container does not exist"))
}

func (w *world) callList(method string, arg any) []string {
	st, err := w.c.Call(w.cn, method, arg)
	if err != nil {
		return []string{"?err:" + err.Error()}
	}
	out := []string{}
	if st[0].Type() == stackitem.AnyT {
		return out
	}
	for _, it := range structFields(st[0]) {
		out = append(out, w.cidNameOf(chain.ItemBytes(it)))
	}
	sort.Strings(out)
	return out
}

// observe projects the five contracts into model values.
func (w *world) observe() map[string]any {
	cids := make([]string, nCids)
	for i := range cids {
		cids[i] = "c" + strconv.Itoa(i)
	}
	// ---- raw storage of the Container contract, decoded by key layout (DESIGN.md Appendix B)
	x, eacl, alias := map[string]any{}, map[string]any{}, map[string]any{}
	strayOf := map[string]any{}
	for _, c := range cids {
		x[c], eacl[c], alias[c] = "none", "none", "none"
		strayOf[c] = 0
	}
	oidx, tomb, meta, stray := []string{}, []string{}, []string{}, []string{}
	known := map[string]bool{"netmapScriptHash": true, "balanceScriptHash": true, "identityScriptHash": true, "nnsScriptHash": true, "nnsRoot": true}
	for k, v := range w.c.Storage(w.cn) {
		kb, _ := hex.DecodeString(k)
		ok := false
		switch {
		case known[string(kb)]:
			ok = true
		case len(kb) == 33 && kb[0] == 'x':
			if c, in := w.cidName[hex.EncodeToString(kb[1:])]; in {
				it, err := stackitem.Deserialize(v)
				if err == nil {
					f := structFields(it)
					vn := w.variantOf(w.putOffers, c, f)
					if len(f) == 4 && !bytes.Equal(chain.ItemBytes(f[0]), w.blob[c]) {
						vn = "?blob"
					}
					x[c] = vn
					ok = true
				}
			}
		case len(kb) == 58 && kb[0] == 'o':
			if c, in := w.cidName[hex.EncodeToString(kb[26:])]; in && bytes.Equal(v, w.cid[c]) {
				ci, _ := strconv.Atoi(c[1:])
				if bytes.Equal(kb[1:26], w.ownerID[cidOwner[ci]]) {
					oidx = append(oidx, c)
					ok = true
				}
			}
		case len(kb) == 33 && (kb[0] == 'd' || kb[0] == 'm'):
			if c, in := w.cidName[hex.EncodeToString(kb[1:])]; in && len(v) == 0 {
				if kb[0] == 'd' {
					tomb = append(tomb, c)
				} else {
					meta = append(meta, c)
				}
				ok = true
			}
		case len(kb) == 36 && string(kb[:4]) == "eACL":
			if c, in := w.cidName[hex.EncodeToString(kb[4:])]; in {
				it, err := stackitem.Deserialize(v)
				if err == nil {
					f := structFields(it)
					vn := w.variantOf(w.eaclOffers, c, f)
					eacl[c] = vn
					ok = true
				}
			}
		case len(kb) == 43 && string(kb[:11]) == "nnsHasAlias":
			if c, in := w.cidName[hex.EncodeToString(kb[11:])]; in {
				alias[c] = w.nameOfDomain(string(v))
				ok = true
			}
		}
		if !ok {
			stray = append(stray, k)
			for _, c := range cids {
				if bytes.Contains(kb, w.cid[c]) {
					strayOf[c] = strayOf[c].(int) + 1
				}
			}
		}
	}
	sort.Strings(oidx)
	sort.Strings(tomb)
	sort.Strings(meta)
	sort.Strings(stray)
	// ---- read API of the Container contract
	get, owner, aeacl, aalias := map[string]any{}, map[string]any{}, map[string]any{}, map[string]any{}
	for _, c := range cids {
		id := w.cid[c]
		st, err := w.c.Call(w.cn, "get", id)
		switch {
		case isNotFound(err):
			get[c] = "nf"
		case err != nil:
			get[c] = "?err:" + err.Error()
		default:
			f := structFields(st[0])
			vn := w.variantOf(w.putOffers, c, f)
			if len(f) == 4 {
				h := sha256.Sum256(chain.ItemBytes(f[0]))
				if !bytes.Equal(h[:], id) {
					vn = "?hash" // the returned blob does not hash to the id
				}
			}
			get[c] = vn
		}
		st, err = w.c.Call(w.cn, "owner", id)
		switch {
		case isNotFound(err):
			owner[c] = "nf"
		case err != nil:
			owner[c] = "?err:" + err.Error()
		default:
			owner[c] = "?" + hex.EncodeToString(chain.ItemBytes(st[0]))
			for o, oid := range w.ownerID {
				if bytes.Equal(oid, chain.ItemBytes(st[0])) {
					owner[c] = o
				}
			}
		}
		st, err = w.c.Call(w.cn, "eACL", id)
		switch {
		case isNotFound(err):
			aeacl[c] = "nf"
		case err != nil:
			aeacl[c] = "?err:" + err.Error()
		default:
			f := structFields(st[0])
			if len(f) == 4 && len(chain.ItemBytes(f[0])) == 0 && len(chain.ItemBytes(f[1])) == 0 && len(chain.ItemBytes(f[2])) == 0 && len(chain.ItemBytes(f[3])) == 0 {
				aeacl[c] = "empty"
			} else {
				vn := w.variantOf(w.eaclOffers, c, f)
				aeacl[c] = vn
			}
		}
		st, err = w.c.Call(w.cn, "alias", id)
		switch {
		case isNotFound(err):
			aalias[c] = "nf"
		case err != nil:
			aalias[c] = "?err:" + err.Error()
		case st[0].Type() == stackitem.AnyT:
			aalias[c] = "null"
		default:
			aalias[c] = w.nameOfDomain(string(chain.ItemBytes(st[0])))
		}
	}
	list, cof := map[string]any{}, map[string]any{}
	list["all"] = w.callList("list", []byte{})
	cof["all"] = w.callList("containersOf", nil)
	for o, oid := range w.ownerID {
		list[o] = w.callList("list", oid)
		cof[o] = w.callList("containersOf", oid)
	}
	st, err := w.c.Call(w.cn, "count")
	require.NoError(w.t, err)
	count := chain.ItemBig(st[0]).Int64()
	// ---- NNS: owner and TXT records of every alias domain
	dom, txt := map[string]any{}, map[string]any{}
	for i := 1; i <= nNames; i++ {
		nm := "n" + strconv.Itoa(i)
		d := domainOf(nm)
		st, err := w.c.Call(w.nns, "ownerOf", d)
		switch {
		case err != nil && bytes.Contains([]byte(err.Error()), []byte("token not found")):
			dom[nm] = "free"
		case err != nil:
			dom[nm] = "?err:" + err.Error()
		default:
			h := chain.ItemBytes(st[0])
			switch {
			case bytes.Equal(h, w.cn.BytesBE()):
				dom[nm] = "self"
			case bytes.Equal(h, w.c.Cmt.ScriptHash().BytesBE()):
				dom[nm] = "cmt"
			case bytes.Equal(h, w.stranger.ScriptHash().BytesBE()):
				dom[nm] = "x"
			default:
				dom[nm] = "?" + hex.EncodeToString(h)
			}
		}
		recs := []string{}
		if dom[nm] != "free" {
			st, err = w.c.Call(w.nns, "getRecords", d, 16)
			if err != nil {
				recs = append(recs, "?err:"+err.Error())
			} else {
				for _, it := range structFields(st[0]) {
					recs = append(recs, w.txtName(chain.ItemBytes(it)))
				}
			}
			// resolve must agree with getRecords (both are used by clients)
			st, err = w.c.Call(w.nns, "resolve", d, 16)
			res := []string{}
			if err == nil && st[0].Type() != stackitem.AnyT {
				for _, it := range structFields(st[0]) {
					res = append(res, w.txtName(chain.ItemBytes(it)))
				}
			}
			if fmt.Sprint(res) != fmt.Sprint(recs) {
				w.bad = append(w.bad, "nns.resolve!=getRecords:"+nm)
			}
		}
		txt[nm] = recs
	}
	// ---- Balance and Netmap
	bal := map[string]any{}
	for o, s := range w.owners {
		st, err := w.c.Call(w.bal, "balanceOf", s.ScriptHash())
		require.NoError(w.t, err)
		bal[o] = w.unscale(chain.ItemBig(st[0]), "bal."+o)
	}
	abal := []any{}
	for k, p := range w.c.Privs {
		st, err := w.c.Call(w.bal, "balanceOf", p.PublicKey().GetScriptHash())
		require.NoError(w.t, err)
		abal = append(abal, w.unscale(chain.ItemBig(st[0]), "abal."+strconv.Itoa(k+1)))
	}
	st, err = w.c.Call(w.bal, "totalSupply")
	require.NoError(w.t, err)
	supply := w.unscale(chain.ItemBig(st[0]), "supply")
	strayBal := []string{}
	for k, v := range w.c.Storage(w.bal) {
		kb, _ := hex.DecodeString(k)
		if len(kb) == 21 && kb[0] == 'a' {
			if _, in := w.accName[hex.EncodeToString(kb[1:])]; !in {
				strayBal = append(strayBal, k)
			}
			_ = v
		}
	}
	sort.Strings(strayBal)
	fee := w.config("ContainerFee")
	afee := w.config("ContainerAliasFee")
	// ---- NeoFSID: owners that have variant b's key bound
	idk := []string{}
	for o, oid := range w.ownerID {
		st, err := w.c.Call(w.nid, "key", oid)
		require.NoError(w.t, err)
		if st[0].Type() != stackitem.AnyT {
			for _, it := range structFields(st[0]) {
				if w.bKeys[o][hex.EncodeToString(chain.ItemBytes(it))] {
					if len(idk) == 0 || idk[len(idk)-1] != o {
						idk = append(idk, o)
					}
				} else {
					w.bad = append(w.bad, "neofsid.unexpected-key:"+o)
				}
			}
		}
	}
	sort.Strings(idk)
	return map[string]any{"x": x, "oidx": oidx, "tomb": tomb, "meta": meta, "eacl": eacl, "alias": alias, "stray": stray, "strayOf": strayOf,
		"get": get, "owner": owner, "aeacl": aeacl, "aalias": aalias, "list": list, "cof": cof, "count": count,
		"dom": dom, "txt": txt, "bal": bal, "abal": abal, "supply": supply, "strayBal": strayBal, "fee": fee, "afee": afee,
		"n": w.c.N, "idk": idk}
}

func (w *world) config(key string) int64 {
	st, err := w.c.Call(w.nm, "config", key)
	require.NoError(w.t, err)
	if st[0].Type() == stackitem.AnyT {
		w.bad = append(w.bad, "config.null:"+key)
		return 0
	}
	return w.unscale(chain.ItemBig(st[0]), "config."+key)
}

func (w *world) nameOfDomain(d string) string {
	for i := 1; i <= nNames; i++ {
		nm := "n" + strconv.Itoa(i)
		if d == domainOf(nm) {
			return nm
		}
	}
	return "?" + d
}

// txtName maps a TXT record (base58 of a cid, or "foreign") to a model value.
func (w *world) txtName(data []byte) string {
	if string(data) == "foreign" {
		return "foreign"
	}
	if id, err := base58.Decode(string(data)); err == nil {
		if c, in := w.cidName[hex.EncodeToString(id)]; in {
			return c
		}
	}
	return "?" + string(data)
}

func resetRec(idx int, sc *Scenario, obs map[string]any) chain.Rec {
	return chain.Rec{"t": idx, "act": "reset", "S": []string{}, "c": "nil", "v": "nil", "nm": "nil", "meta": false, "o": "nil", "k": "nil",
		"amt": 0, "res": "HALT", "ret": "null", "ntf": []any{}, "xfer": []any{}, "c2": "nil", "v2": "nil", "nm2": "nil", "meta2": false,
		"res2": "nil", "ntf2": []any{}, "xfer2": []any{}, "kb": false, "rb": false, "ash": 0, "obs": obs, "bad": []string{}, "badAmt": []string{},
		"n": sc.N, "scale": sc.Scale, "src": sc.Src}
}

func runScenario(t *testing.T, rec *chain.Recorder, idx int, sc *Scenario, seed int64) {
	w := newWorld(t, sc.N, sc.Scale, seed+int64(idx), sc.VerLen)
	obs := w.observe()
	require.Empty(t, w.bad, "initial observation")
	require.Empty(t, w.badAmt, "initial observation")
	rr := resetRec(idx, sc, obs)
	rr["verlen"] = w.verLen
	rec.Emit(rr)
	for _, st := range sc.Steps {
		if (st.Act == "put" || st.Act == "put2") && (st.C == "c0" || st.C2 == "c0") {
			continue // c0 is the never-used id
		}
		if st.Act == "put2" && st.C == st.C2 {
			continue // a block holds puts of different containers
		}
		w.bad, w.badAmt = []string{}, []string{}
		r := w.exec(st)
		obs = w.observe()
		r["obs"] = obs
		r["bad"] = w.bad
		r["badAmt"] = w.badAmt
		r["t"] = idx
		rec.Emit(r)
	}
}

// ---- random scenarios (same vocabulary as the Spec, wider values) ----

func randScenario(r *rand.Rand) *Scenario {
	ns := []int{1, 3, 4, 7}
	sc := &Scenario{N: ns[r.Intn(len(ns))], Scale: r.Intn(len(scales)), Src: "rand"}
	pick := func(xs []string) string { return xs[r.Intn(len(xs))] }
	cids := []string{"c1", "c2", "c3", "c4", "c5"}
	allc := []string{"c0", "c1", "c2", "c3", "c4", "c5"}
	names := []string{"n1", "n2", "n3"}
	owners := ownerNames
	vs := []string{"a", "b"}
	fee, afee := int64(0), int64(0)
	bal := map[string]int64{}
	sig := func() []string {
		switch k := r.Intn(12); {
		case k < 5:
			return []string{"ALPHA"}
		case k < 8:
			return []string{"ALPHA", "CMT"}
		case k == 8:
			return []string{"CMT"}
		case k == 9:
			return []string{"M1"}
		case k == 10:
			return []string{"X", "CMT"}
		default:
			return []string{}
		}
	}
	withFees := r.Intn(3) > 0
	n := 10 + r.Intn(30)
	for i := 0; i < n; i++ {
		switch k := r.Intn(24); {
		case k < 8:
			c := pick(cids)
			ci, _ := strconv.Atoi(c[1:])
			o := cidOwner[ci]
			nm := "nil"
			if r.Intn(3) == 0 {
				nm = pick(names)
			}
			meta := nm == "nil" && r.Intn(4) == 0
			f := fee
			if nm != "nil" {
				f += afee
			}
			need := f * int64(sc.N)
			// land the owner's balance on need-1 / need / need+1 (or leave it)
			if withFees && r.Intn(2) == 0 {
				target := need + int64(r.Intn(3)) - 1
				if d := target - bal[o]; d > 0 {
					sc.Steps = append(sc.Steps, Step{Act: "mint", S: []string{"ALPHA"}, C: "nil", V: "nil", Nm: "nil", O: o, K: "nil", Amt: d})
					bal[o] += d
				}
			}
			s := sig()
			kb := r.Intn(12) == 0 // a publicKey of another length: the put FAULTs
			sc.Steps = append(sc.Steps, Step{Act: "put", S: s, C: c, V: pick(vs), Nm: nm, Meta: meta, Kb: kb, O: "nil", K: "nil"})
			if len(s) > 0 && s[0] == "ALPHA" && bal[o] >= need && !kb {
				bal[o] -= need // approximately (the put may fail for other reasons)
			}
		case k == 8 || k == 9:
			// two puts of different containers in one block; the first owner is landed on the charge of both
			// (same owner) or of its own put (different owners), sometimes one short
			c1 := pick(cids)
			c2 := pick(cids)
			if c1 == c2 {
				continue
			}
			i1, _ := strconv.Atoi(c1[1:])
			i2, _ := strconv.Atoi(c2[1:])
			o1, o2 := cidOwner[i1], cidOwner[i2]
			nm1, nm2 := "nil", "nil"
			if r.Intn(4) == 0 {
				nm1 = pick(names)
			}
			if r.Intn(4) == 0 {
				nm2 = pick(names)
			}
			f1, f2 := fee, fee
			if nm1 != "nil" {
				f1 += afee
			}
			if nm2 != "nil" {
				f2 += afee
			}
			need := f1 * int64(sc.N)
			if o1 == o2 {
				need += f2 * int64(sc.N)
			}
			if withFees && r.Intn(3) > 0 {
				target := need + int64(r.Intn(3)) - 1
				if d := target - bal[o1]; d > 0 {
					sc.Steps = append(sc.Steps, Step{Act: "mint", S: []string{"ALPHA"}, C: "nil", V: "nil", Nm: "nil", O: o1, K: "nil", Amt: d})
					bal[o1] += d
				}
			}
			s := sig()
			sc.Steps = append(sc.Steps, Step{Act: "put2", S: s, C: c1, V: pick(vs), Nm: nm1, C2: c2, V2: pick(vs), Nm2: nm2, O: "nil", K: "nil"})
			if len(s) > 0 && s[0] == "ALPHA" { // approximately
				if bal[o1] >= f1*int64(sc.N) {
					bal[o1] -= f1 * int64(sc.N)
				}
				if bal[o2] >= f2*int64(sc.N) {
					bal[o2] -= f2 * int64(sc.N)
				}
			}
		case k < 12:
			sc.Steps = append(sc.Steps, Step{Act: "delete", S: sig(), C: pick(allc), V: "nil", Nm: "nil", O: "nil", K: "nil"})
		case k < 15:
			sc.Steps = append(sc.Steps, Step{Act: "setEACL", S: sig(), C: pick(allc), V: pick(vs), Nm: "nil", Kb: r.Intn(12) == 0, Rb: r.Intn(3) == 0, O: "nil", K: "nil"})
		case k < 18:
			if !withFees {
				continue
			}
			key := pick([]string{"fee", "afee"})
			val := []int64{0, 0, 1, 2, 3, 5, 10}[r.Intn(7)]
			s := sig()
			sc.Steps = append(sc.Steps, Step{Act: "setConfig", S: s, C: "nil", V: "nil", Nm: "nil", O: "nil", K: key, Amt: val})
			if len(s) > 0 && s[0] == "ALPHA" {
				if key == "fee" {
					fee = val
				} else {
					afee = val
				}
			}
		case k < 20:
			if !withFees {
				continue
			}
			o := pick(owners)
			m := int64(1 + r.Intn(30))
			s := sig()
			sc.Steps = append(sc.Steps, Step{Act: "mint", S: s, C: "nil", V: "nil", Nm: "nil", O: o, K: "nil", Amt: m})
			if len(s) > 0 && s[0] == "ALPHA" {
				bal[o] += m
			}
		case k < 22:
			who := pick([]string{"cmt", "cmt", "x"})
			s := []string{"CMT"}
			if who == "x" {
				s = []string{"X"}
			}
			if r.Intn(5) == 0 {
				s = sig()
			}
			sc.Steps = append(sc.Steps, Step{Act: "nnsReg", S: s, C: "nil", V: "nil", Nm: pick(names), O: who, K: "nil"})
		default:
			sc.Steps = append(sc.Steps, Step{Act: "nnsAdd", S: []string{pick([]string{"CMT", "X"})}, C: "nil", V: "nil", Nm: pick(names), O: "nil", K: "nil"})
		}
	}
	return sc
}

// ---- traps: witnesses of rare branches and of every defect found ----

func st(act string, S []string, c, v, nm string) Step {
	return Step{Act: act, S: S, C: c, V: v, Nm: nm, O: "nil", K: "nil"}
}

var (
	sA  = []string{"ALPHA"}
	sAC = []string{"ALPHA", "CMT"}
)

func mint(o string, m int64) Step {
	return Step{Act: "mint", S: sA, C: "nil", V: "nil", Nm: "nil", O: o, K: "nil", Amt: m}
}
func put2(S []string, c, v, nm, c2, v2, nm2 string) Step {
	return Step{Act: "put2", S: S, C: c, V: v, Nm: nm, C2: c2, V2: v2, Nm2: nm2, O: "nil", K: "nil"}
}
func setc(k string, v int64) Step {
	return Step{Act: "setConfig", S: sA, C: "nil", V: "nil", Nm: "nil", O: "nil", K: k, Amt: v}
}

// registry life cycle: re-put live, delete missing, put after delete, name reuse after delete, taken name
func trapLifecycle(n int) *Scenario {
	return &Scenario{N: n, Scale: 0, Src: "trap:lifecycle", Steps: []Step{
		st("delete", sA, "c1", "nil", "nil"), // missing
		st("delete", []string{}, "c0", "nil", "nil"),
		st("put", sA, "c1", "a", "nil"),
		st("put", sA, "c1", "b", "nil"), // re-put live with another descriptor
		st("setEACL", sA, "c1", "a", "nil"),
		{Act: "setEACL", S: sA, C: "c1", V: "b", Nm: "nil", Kb: true, O: "nil", K: "nil"}, // key of another length
		{Act: "put", S: sA, C: "c2", V: "a", Nm: "nil", Kb: true, O: "nil", K: "nil"},
		{Act: "put", S: sA, C: "c2", V: "b", Nm: "nil", Kb: true, O: "nil", K: "nil"},
		{Act: "setEACL", S: sA, C: "c1", V: "b", Nm: "nil", Rb: true, O: "nil", K: "nil"}, // the same table bytes again, re-signed
		{Act: "setEACL", S: sA, C: "c1", V: "a", Nm: "nil", Rb: true, O: "nil", K: "nil"}, // and once more as another variant
		st("put", sA, "c2", "a", "n1"),
		st("put", sA, "c3", "a", "n1"), // taken
		st("put", sA, "c2", "a", "n1"), // same container, same name: taken as well
		{Act: "put", S: sA, C: "c4", V: "b", Nm: "nil", Meta: true, O: "nil", K: "nil"},
		st("put", sA, "c2", "b", "nil"), // unnamed re-put of a named container keeps the alias
		st("delete", []string{"X"}, "c2", "nil", "nil"),
		st("delete", sA, "c2", "nil", "nil"),
		st("put", sA, "c2", "a", "nil"), // replay
		st("put", sA, "c3", "a", "n1"),  // name reuse after deletion
		st("setEACL", sA, "c2", "a", "nil"),
		st("delete", sA, "c4", "nil", "nil"),
		st("delete", sA, "c1", "nil", "nil"),
		st("delete", sA, "c1", "nil", "nil"),
		st("put", sA, "c5", "a", "n2"),
		st("delete", sA, "c3", "nil", "nil"),
		st("delete", sA, "c5", "nil", "nil"),
	}}
}

// alias domain registered in advance by the committee / by a stranger; foreign TXT record
func trapPreRegistered(n int) *Scenario {
	return &Scenario{N: n, Scale: 0, Src: "trap:preregistered", Steps: []Step{
		{Act: "nnsReg", S: []string{"CMT"}, C: "nil", V: "nil", Nm: "n1", O: "cmt", K: "nil"},
		{Act: "nnsReg", S: []string{"X"}, C: "nil", V: "nil", Nm: "n2", O: "x", K: "nil"},
		{Act: "nnsReg", S: []string{"CMT"}, C: "nil", V: "nil", Nm: "n1", O: "cmt", K: "nil"}, // false
		st("put", sA, "c1", "a", "n2"),  // stranger owns the domain
		st("put", sA, "c1", "a", "n1"),  // committee-owned: needs the committee witness for addRecord (n = 3, 7)
		st("put", sAC, "c1", "a", "n1"), // fine
		st("delete", sA, "c1", "nil", "nil"),
		st("delete", sAC, "c1", "nil", "nil"),
		{Act: "nnsAdd", S: []string{"CMT"}, C: "nil", V: "nil", Nm: "n1", O: "nil", K: "nil"},
		st("put", sAC, "c2", "a", "n1"), // taken by the foreign record
		{Act: "nnsAdd", S: []string{"X"}, C: "nil", V: "nil", Nm: "n2", O: "nil", K: "nil"},
		{Act: "nnsAdd", S: []string{"X"}, C: "nil", V: "nil", Nm: "n3", O: "nil", K: "nil"},
	}}
}

// witness of DESIGN 5.4 row 9: re-putNamed of a live container under a second name
func trapSecondName(n int) *Scenario {
	return &Scenario{N: n, Scale: 0, Src: "trap:secondname", Steps: []Step{
		st("put", sA, "c1", "a", "n1"),
		st("put", sA, "c1", "a", "n2"),
		st("delete", sA, "c1", "nil", "nil"),
		st("put", sA, "c2", "a", "n1"), // the first name can never be reused
		st("put", sA, "c2", "a", "n2"),
	}}
}

// fee boundaries: owner balance at F*N-1 / F*N / F*N+1, fee changes between puts, fee 0
func trapFees(n int, scale int) *Scenario {
	N := int64(n)
	return &Scenario{N: n, Scale: scale, Src: "trap:fees", Steps: []Step{
		st("put", sA, "c1", "a", "nil"), // both fees 0
		setc("fee", 3), setc("afee", 2),
		mint("o1", 3*N-1),
		st("put", sA, "c1", "b", "nil"), // one short
		mint("o1", 1),
		st("put", []string{"CMT"}, "c1", "b", "nil"), // exact, but only the committee signs
		st("put", sA, "c1", "b", "nil"),              // exact
		mint("o1", 5*N+1),
		st("put", sA, "c2", "a", "n1"), // one above
		st("put", sA, "c2", "a", "nil"),
		mint("o2", 5*N-1),
		st("put", sA, "c3", "a", "n2"), // alias fee missing
		st("put", sA, "c3", "a", "nil"),
		setc("fee", 0),
		st("put", sA, "c4", "a", "n2"), // only the alias fee
		setc("afee", 0),
		st("put", sA, "c4", "b", "nil"),
		setc("fee", 7),
		st("put", sA, "c5", "a", "nil"), // oa (an Alphabet node's account) has nothing
		mint("oa", 7*N),
		st("put", sA, "c5", "a", "nil"),
		st("delete", sA, "c5", "nil", "nil"),
		mint("oa", 7*N),
		st("put", sA, "c5", "a", "nil"), // tombstoned: nothing is charged
	}}
}

// overlapping roles and shared blocks: the owner is an Alphabet node's standard account (net -F*N + F), two puts of
// different owners in one block, an owner left with exactly F*N by the earlier put of the block, an owner whose put
// is only affordable thanks to the fee share credited earlier in the same block
func trapOverlap(n, scale int) *Scenario {
	N := int64(n)
	sc := &Scenario{N: n, Scale: scale, Src: "trap:overlap"}
	add := func(s ...Step) { sc.Steps = append(sc.Steps, s...) }
	boa := int64(0) // predicted balance of oa's account (= account of node aIdx(n))
	land := func(target int64) { // mint oa up to target (it cannot be lowered)
		if target > boa {
			add(mint("oa", target-boa))
			boa = target
		}
	}
	add(setc("fee", 3), setc("afee", 2))
	// oa can pay only thanks to the share of o1's fee credited by the first transaction of the block
	land(3*N - 3)
	add(mint("o1", 3*N))
	add(put2(sA, "c1", "a", "nil", "c5", "a", "nil"))
	boa += 3 - 3*N + 3
	// the other order: oa's put comes first and is one share short
	land(3*N - 3)
	add(mint("o1", 3*N))
	add(put2(sA, "c5", "a", "nil", "c1", "a", "nil"))
	boa += 3
	// oa alone: one short, exact (it keeps its own share), exact for a named container
	land(3*N - 1)
	add(st("put", sA, "c5", "a", "nil"))
	if boa >= 3*N {
		boa += 3 - 3*N
	}
	land(3 * N)
	add(st("put", sA, "c5", "b", "nil"))
	boa += 3 - 3*N
	land(5 * N)
	add(st("put", sA, "c5", "b", "n1"))
	boa += 5 - 5*N
	// two containers of different ordinary owners in one block
	add(mint("o1", 3*N), mint("o2", 3*N+1))
	add(put2(sA, "c1", "a", "nil", "c3", "a", "nil"))
	// one owner, two containers: exactly 2*F*N (the second put finds exactly F*N), then one short for the second
	add(mint("o1", 6*N))
	add(put2(sA, "c1", "b", "nil", "c2", "a", "nil"))
	add(mint("o1", 6*N-1))
	add(put2(sA, "c1", "a", "nil", "c2", "b", "nil"))
	add(put2([]string{"CMT"}, "c1", "a", "nil", "c2", "b", "nil"))
	// same name twice in one block: the second finds it taken
	add(mint("o1", 5*N), mint("o2", 5*N))
	add(put2(sA, "c2", "a", "n2", "c4", "a", "n2"))
	// fee 0: nothing moves, also for the node owner
	add(setc("fee", 0), setc("afee", 0))
	add(put2(sA, "c5", "a", "nil", "c4", "a", "n3"))
	return sc
}

func TestDrive(t *testing.T) {
	out := os.Getenv("VERIF_OUT")
	if out == "" {
		t.Skip("VERIF_OUT not set")
	}
	if os.Getenv("VERIF_FAMMODE") == "roster" {
		driveRoster(t, out)
		return
	}
	seed, _ := strconv.ParseInt(os.Getenv("VERIF_SEED"), 10, 64)
	nrand, _ := strconv.Atoi(os.Getenv("VERIF_NRAND"))
	shard, _ := strconv.Atoi(os.Getenv("VERIF_SHARD"))
	nshard, _ := strconv.Atoi(os.Getenv("VERIF_NSHARD"))
	if nshard == 0 {
		nshard = 1
	}
	var scs []*Scenario
	if p := os.Getenv("VERIF_SCEN"); p != "" {
		data, err := os.ReadFile(p)
		require.NoError(t, err)
		require.NoError(t, json.Unmarshal(data, &scs))
	}
	ns := []int{1, 3, 4, 7}
	for i, sc := range scs {
		if sc.N == 0 {
			sc.N = ns[i%len(ns)]
		}
		if sc.Src == "" {
			sc.Src = "tlc"
			sc.Scale = i % len(scales)
		}
	}
	if os.Getenv("VERIF_NOTRAPS") == "" {
		for _, n := range ns {
			scs = append(scs, trapLifecycle(n), trapPreRegistered(n), trapSecondName(n), trapFees(n, n%len(scales)),
				trapOverlap(n, (n+1)%len(scales)))
		}
	}
	r := rand.New(rand.NewSource(seed*7919 + 17))
	for i := 0; i < nrand; i++ {
		scs = append(scs, randScenario(r))
	}
	rec := chain.NewRecorder(t, out)
	for i, sc := range scs {
		if i%nshard != shard {
			continue
		}
		runScenario(t, rec, i, sc, seed)
	}
	rec.Close()
	stats, _ := json.Marshal(map[string]any{"lines": rec.N, "scenarios": len(scs), "acts": rec.Acts})
	fmt.Println("DRIVER-STATS " + string(stats))
}
