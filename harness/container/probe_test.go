package container

import (
	"crypto/elliptic"
	"crypto/sha256"
	"fmt"
	"math/big"
	"testing"

	"github.com/mr-tron/base58"
	"github.com/nspcc-dev/neo-go/pkg/encoding/address"
	"github.com/nspcc-dev/neo-go/pkg/neotest"
	"github.com/nspcc-dev/neo-go/pkg/util"

	"verif/harness/chain"
)

func ownerID(h util.Uint160) []byte {
	o, _ := base58.Decode(address.Uint160ToString(h))
	return o
}

func TestProbe(t *testing.T) {
	for _, n := range []int{1, 3, 4, 7} {
		c := chain.New(t, n, 5)
		nns := c.DeployNNS()
		nm := c.DeployNetmap("ContainerFee", int64(3), "ContainerAliasFee", int64(2))
		bal := c.DeployBalance()
		c.DeployNeoFSID()
		r := c.TryDeploy(c.Compile("container"), nil)
		fmt.Println("n", n, "deploy container:", r.Res(), r.Fault)
		_ = nns
		_ = nm
		_ = bal
	}
}

func TestProbe2(t *testing.T) {
	n := 3
	c := chain.New(t, n, 5)
	nns := c.DeployNNS()
	c.DeployNetmap("ContainerFee", int64(3), "ContainerAliasFee", int64(2))
	bal := c.DeployBalance()
	c.DeployNeoFSID()
	ctr := c.Compile("container")
	tx := c.E.NewDeployTxBy(t, c.E.Validator, ctr, nil)
	_ = tx
	cn := deployContainer(c)
	u := c.NewUser("u1", 0)
	A := []neotest.Signer{c.Alpha}
	r := c.Run(bal, A, "mint", u.ScriptHash(), int64(1000), []byte("m"))
	fmt.Println("mint", r.Res(), r.Fault)
	blob := make([]byte, 60)
	copy(blob[6:], ownerID(u.ScriptHash()))
	id := sha256.Sum256(blob)
	pub := chain.Pub(u)
	r = c.Run(cn, A, "putNamed", blob, make([]byte, 64), pub, []byte{}, "n1", "")
	fmt.Println("putNamed n1", r.Res(), r.Fault, len(r.Events))
	r = c.Run(cn, A, "putNamed", blob, make([]byte, 64), pub, []byte{}, "n2", "")
	fmt.Println("putNamed n2", r.Res(), r.Fault)
	st, err := c.Call(nns, "getRecords", "n1.container", 16)
	fmt.Println("n1", st, err)
	r = c.Run(cn, A, "delete", id[:], make([]byte, 64), []byte{})
	fmt.Println("delete", r.Res(), r.Fault)
	st, err = c.Call(nns, "getRecords", "n1.container", 16)
	fmt.Println("n1 after delete", chain.ItemJSON(st[0]), err)
	st, err = c.Call(nns, "getRecords", "n2.container", 16)
	fmt.Println("n2 after delete", chain.ItemJSON(st[0]), err)
	st, err = c.Call(nns, "getRecords", "n3.container", 16)
	fmt.Println("n3 (never)", st, err)
	st, err = c.Call(nns, "resolve", "n3.container", 16)
	fmt.Println("n3 resolve (never)", st, err)
	bal0, _ := c.Call(bal, "balanceOf", u.ScriptHash())
	fmt.Println("bal", chain.ItemJSON(bal0[0]))

	// roster
	var pubs []any
	var privs []*chainKey
	for i := 0; i < 3; i++ {
		k := chain.DetKey(1, fmt.Sprintf("node%d", i))
		privs = append(privs, &chainKey{k.PublicKey().Bytes(), k.Sign})
		pubs = append(pubs, k.PublicKey().Bytes())
	}
	r = c.Run(cn, A, "addNextEpochNodes", id[:], 0, pubs)
	fmt.Println("add", r.Res(), r.Fault)
	r = c.Run(cn, A, "commitContainerListUpdate", id[:], []byte{2})
	fmt.Println("commit", r.Res(), r.Fault)
	msg := []byte("hello")
	s0 := privs[0].sign(msg)
	s1 := privs[1].sign(msg)
	st, err = c.Call(cn, "verifyPlacementSignatures", id[:], msg, []any{[]any{s0, s1}})
	fmt.Println("honest", chain.ItemJSON(st[0]), err)
	st, err = c.Call(cn, "verifyPlacementSignatures", id[:], msg, []any{[]any{s0, s0}})
	fmt.Println("dup", chain.ItemJSON(st[0]), err)
	st, err = c.Call(cn, "verifyPlacementSignatures", id[:], msg, []any{[]any{s0, malleate(s0)}})
	fmt.Println("mal", chain.ItemJSON(st[0]), err)
	st, err = c.Call(cn, "verifyPlacementSignatures", id[:], msg, []any{[]any{s0, s0[:63]}})
	fmt.Println("junk", st, err)
	st, err = c.Call(cn, "replicasNumbers", id[:])
	fmt.Println("reps", chain.ItemJSON(st[0]), err)
}

type chainKey struct {
	pub  []byte
	sign func([]byte) []byte
}

func malleate(sig []byte) []byte {
	n := elliptic.P256().Params().N
	s := new(big.Int).SetBytes(sig[32:])
	s.Sub(n, s)
	out := make([]byte, 64)
	copy(out, sig[:32])
	s.FillBytes(out[32:])
	return out
}
