package container

import (
	"fmt"
	"testing"

	"github.com/nspcc-dev/neo-go/pkg/neotest"
)

func TestProbeShapes(t *testing.T) {
	w := newWorld(t, 3, 0, 5)
	A := []neotest.Signer{w.c.Alpha}
	v := w.vars["a"]
	for _, pl := range []int{0, 32, 33, 34, 65} {
		pub := make([]byte, pl)
		if pl >= 33 {
			copy(pub, v.pub)
		}
		r := w.c.Run(w.cn, A, "put", w.blob["c1"], v.sig, pub, v.token)
		fmt.Println("put pub len", pl, "token nonempty:", r.Res(), r.Fault)
		r = w.c.Run(w.cn, A, "put", w.blob["c2"], v.sig, pub, []byte{})
		fmt.Println("put pub len", pl, "token empty:", r.Res(), r.Fault)
		e := w.evars["a"]
		r = w.c.Run(w.cn, A, "setEACL", w.eaclBlob("c1", "a"), e.sig, pub, e.token)
		fmt.Println("setEACL pub len", pl, r.Res(), r.Fault)
	}
	for _, sl := range []int{0, 63, 65} {
		r := w.c.Run(w.cn, A, "put", w.blob["c3"], make([]byte, sl), v.pub, v.token)
		fmt.Println("put sig len", sl, r.Res(), r.Fault)
		r = w.c.Run(w.cn, A, "delete", w.cid["c3"], make([]byte, sl), []byte{1, 2})
		fmt.Println("delete sig len", sl, r.Res(), r.Fault)
	}
	r := w.c.Run(w.cn, A, "putNamed", w.blob["c4"], v.sig, v.pub, v.token, "alias-n1", "container")
	fmt.Println("putNamed zone=container", r.Res(), r.Fault)
	st, err := w.c.Call(w.cn, "alias", w.cid["c4"])
	fmt.Println(st, err)
	r = w.c.Run(w.cn, A, "put", w.blob["c5"], nil, v.pub, nil)
	fmt.Println("put null sig/token", r.Res(), r.Fault)
	rw := &rworld{world: w, rcid: map[string][]byte{"c1": w.cid["c1"]}, rname: map[string]string{}, sigmem: map[string][]byte{}}
	keyPool()
	r = w.c.Run(w.cn, A, "addNextEpochNodes", w.cid["c1"], 0, nil)
	fmt.Println("add nil keys", r.Res(), r.Fault)
	r = w.c.Run(w.cn, A, "addNextEpochNodes", w.cid["c1"], 0, []any{pool[0].PublicKey().Bytes()})
	fmt.Println("add 1 key", r.Res(), r.Fault)
	r = w.c.Run(w.cn, A, "commitContainerListUpdate", w.cid["c1"], []any{1})
	fmt.Println("commit replicas as array", r.Res(), r.Fault)
	st, err = w.c.Call(w.cn, "replicasNumbers", w.cid["c1"])
	fmt.Println(st, err)
	sg := rw.sigBytes("c1", RSig{1, "m1", "ok"})
	st, err = w.c.Call(w.cn, "verifyPlacementSignatures", w.cid["c1"], rw.msg("c1", "m1"), []any{nil})
	fmt.Println("verify inner nil", st, err)
	st, err = w.c.Call(w.cn, "verifyPlacementSignatures", w.cid["c1"], rw.msg("c1", "m1"), nil)
	fmt.Println("verify outer nil", st, err)
	st, err = w.c.Call(w.cn, "verifyPlacementSignatures", w.cid["c1"], rw.msg("c1", "m1"), []any{[]any{sg}})
	fmt.Println("verify ok", st, err)
	st, err = w.c.Call(w.cn, "verifyPlacementSignatures", w.cid["c1"], []byte{}, []any{[]any{sg}})
	fmt.Println("verify empty msg", st, err)
	r = w.c.Run(w.cn, A, "commitContainerListUpdate", w.cid["c1"], []byte{0})
	fmt.Println("commit rep 0", r.Res(), r.Fault)
}
