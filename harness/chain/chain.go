// Package chain builds in-process neo-go ledgers with generated committees of
// any size and drives the contracts compiled from the repository working tree.
//
// It is the conformance side of the TLA+ specifications under /verif/spec:
// every step executed here is one transaction (or one block of several
// transactions) on the real VM with real witness verification, and what is
// recorded after the step is the observable state projected into model values.
package chain

import (
	"crypto/sha256"
	"encoding/binary"
	"encoding/hex"
	"encoding/json"
	"fmt"
	"os"
	"path/filepath"
	"slices"
	"sort"
	"testing"
	"time"

	"github.com/nspcc-dev/neo-go/pkg/config"
	"github.com/nspcc-dev/neo-go/pkg/core"
	"github.com/nspcc-dev/neo-go/pkg/core/block"
	"github.com/nspcc-dev/neo-go/pkg/core/interop/storage"
	"github.com/nspcc-dev/neo-go/pkg/core/native/nativenames"
	"github.com/nspcc-dev/neo-go/pkg/core/state"
	corestorage "github.com/nspcc-dev/neo-go/pkg/core/storage"
	"github.com/nspcc-dev/neo-go/pkg/core/transaction"
	"github.com/nspcc-dev/neo-go/pkg/crypto/keys"
	"github.com/nspcc-dev/neo-go/pkg/neotest"
	"github.com/nspcc-dev/neo-go/pkg/smartcontract"
	"github.com/nspcc-dev/neo-go/pkg/smartcontract/callflag"
	"github.com/nspcc-dev/neo-go/pkg/smartcontract/manifest"
	"github.com/nspcc-dev/neo-go/pkg/smartcontract/nef"
	"github.com/nspcc-dev/neo-go/pkg/smartcontract/trigger"
	"github.com/nspcc-dev/neo-go/pkg/util"
	"github.com/nspcc-dev/neo-go/pkg/vm/stackitem"
	"github.com/nspcc-dev/neo-go/pkg/wallet"
	"github.com/stretchr/testify/require"
	"go.uber.org/zap"
)

// RepoRoot is the repository whose working tree is compiled and driven.
func RepoRoot() string {
	if r := os.Getenv("VERIF_REPO"); r != "" {
		return r
	}
	return "/repo"
}

// Chain is an in-process ledger with an n-key committee (validators = committee).
type Chain struct {
	T       testing.TB
	E       *neotest.Executor
	BC      *core.Blockchain
	N       int
	Privs   []*keys.PrivateKey // committee keys in the order the ledger reports them (sorted)
	Alpha   neotest.Signer     // 2n/3+1 multi-signature account ("the Alphabet")
	Cmt     neotest.Signer     // n/2+1 multi-signature account ("the committee")
	Half    neotest.Signer     // n/2 of n multi-signature account: one signature short of the committee (nil for n < 2)
	Members []neotest.Signer   // one single-key signer per committee member
	Payer   neotest.Signer     // funded account that pays all fees and has no role

	userSeq int
	seed    int64
}

// DetKey derives a private key deterministically from (seed, label).
func DetKey(seed int64, label string) *keys.PrivateKey {
	for ctr := 0; ; ctr++ {
		h := sha256.Sum256([]byte(fmt.Sprintf("verif|%d|%s|%d", seed, label, ctr)))
		k, err := keys.NewPrivateKeyFromBytes(h[:])
		if err == nil {
			return k
		}
	}
}

func multi(t testing.TB, privs []*keys.PrivateKey, m int) neotest.Signer {
	pubs := make(keys.PublicKeys, len(privs))
	for i := range privs {
		pubs[i] = privs[i].PublicKey()
	}
	accs := make([]*wallet.Account, len(privs))
	for i := range privs {
		accs[i] = wallet.NewAccountFromPrivateKey(privs[i])
		require.NoError(t, accs[i].ConvertMultisig(m, slices.Clone(pubs)))
	}
	return neotest.NewMultiSigner(accs...)
}

// New creates a chain with an n-member committee whose keys derive from seed.
func New(t testing.TB, n int, seed int64) *Chain {
	privs := make([]*keys.PrivateKey, n)
	for i := range privs {
		privs[i] = DetKey(seed, fmt.Sprintf("committee%d", i))
	}
	// the ledger sorts committee keys; keep our view in the same order
	sort.Slice(privs, func(i, j int) bool { return privs[i].PublicKey().Cmp(privs[j].PublicKey()) < 0 })
	hexPubs := make([]string, n)
	for i := range privs {
		hexPubs[i] = hex.EncodeToString(privs[i].PublicKey().Bytes())
	}
	cfg := config.Blockchain{ProtocolConfiguration: config.ProtocolConfiguration{
		Magic: 42, MaxTraceableBlocks: 2000000, TimePerBlock: 15 * time.Second,
		StandbyCommittee: hexPubs, ValidatorsCount: uint32(n), VerifyTransactions: true,
		P2PSigExtensions: true,
	}}
	bc, err := core.NewBlockchain(corestorage.NewMemoryStore(), cfg, zap.NewNop())
	require.NoError(t, err)
	go bc.Run()
	t.Cleanup(bc.Close)
	val := multi(t, privs, smartcontract.GetDefaultHonestNodeCount(n))
	c := &Chain{T: t, BC: bc, N: n, Privs: privs, seed: seed,
		Alpha: multi(t, privs, n*2/3+1), Cmt: multi(t, privs, n/2+1)}
	c.E = neotest.NewExecutor(t, bc, val, c.Cmt)
	if n >= 2 {
		c.Half = multi(t, privs, n/2)
	}
	for i := range privs {
		c.Members = append(c.Members, neotest.NewSingleSigner(wallet.NewAccountFromPrivateKey(privs[i])))
	}
	c.Payer = c.NewUser("payer", 10_000_000_0000_0000)
	return c
}

// NewUser creates a deterministic single-key account and funds it with GAS.
func (c *Chain) NewUser(label string, gas int64) neotest.Signer {
	c.userSeq++
	k := DetKey(c.seed, fmt.Sprintf("user|%s|%d", label, c.userSeq))
	s := neotest.NewSingleSigner(wallet.NewAccountFromPrivateKey(k))
	if gas > 0 {
		c.FundGAS(s.ScriptHash(), gas)
	}
	return s
}

// FundGAS sends native GAS from the validators' account.
func (c *Chain) FundGAS(to util.Uint160, amount int64) {
	t := c.T
	e := c.E
	tx := e.NewTx(t, []neotest.Signer{e.Validator}, e.NativeHash(t, nativenames.Gas), "transfer",
		e.Validator.ScriptHash(), to, amount, nil)
	e.AddNewBlock(t, tx)
	e.CheckHalt(t, tx.Hash())
}

// FundNEO sends native NEO from the validators' account.
func (c *Chain) FundNEO(to util.Uint160, amount int64) {
	t := c.T
	e := c.E
	tx := e.NewTx(t, []neotest.Signer{e.Validator}, e.NativeHash(t, nativenames.Neo), "transfer",
		e.Validator.ScriptHash(), to, amount, nil)
	e.AddNewBlock(t, tx)
	e.CheckHalt(t, tx.Hash())
}

// Pub returns the compressed public key bytes of a single signer.
func Pub(s neotest.Signer) []byte {
	return s.(neotest.SingleSigner).Account().PublicKey().Bytes()
}

// Priv returns the private key of a single signer.
func Priv(s neotest.Signer) *keys.PrivateKey {
	return s.(neotest.SingleSigner).Account().PrivateKey()
}

// Compile compiles contracts/<name> of the repository working tree. The
// contract hash is recomputed for this chain's deployer (neotest caches the
// compilation result including the hash of the first sender).
//
// With VERIF_ARTIFACTS=embedded the shipped contract.nef/manifest.json of the
// working tree are used instead (differential replay of C15).
func (c *Chain) Compile(name string) *neotest.Contract {
	dir := filepath.Join(RepoRoot(), "contracts", name)
	if os.Getenv("VERIF_ARTIFACTS") == "embedded" {
		return c.Embedded(name)
	}
	return c.CompileDir(dir)
}

// Embedded loads contracts/<name>/contract.nef and manifest.json of the working tree.
func (c *Chain) Embedded(name string) *neotest.Contract {
	dir := filepath.Join(RepoRoot(), "contracts", name)
	nb, err := os.ReadFile(filepath.Join(dir, "contract.nef"))
	require.NoError(c.T, err)
	ne, err := nef.FileFromBytes(nb)
	require.NoError(c.T, err)
	mb, err := os.ReadFile(filepath.Join(dir, "manifest.json"))
	require.NoError(c.T, err)
	m := new(manifest.Manifest)
	require.NoError(c.T, json.Unmarshal(mb, m))
	return &neotest.Contract{
		Hash:     state.CreateContractHash(c.E.Validator.ScriptHash(), ne.Checksum, m.Name),
		NEF:      &ne,
		Manifest: m,
	}
}

// CompileDir compiles an arbitrary contract directory holding config.yml.
func (c *Chain) CompileDir(dir string) *neotest.Contract {
	c0 := neotest.CompileFile(c.T, c.E.Validator.ScriptHash(), dir, filepath.Join(dir, "config.yml"))
	c1 := *c0
	c1.Hash = state.CreateContractHash(c.E.Validator.ScriptHash(), c0.NEF.Checksum, c0.Manifest.Name)
	return &c1
}

// Deploy deploys a contract from the validators' account and requires HALT.
func (c *Chain) Deploy(ctr *neotest.Contract, data any) {
	c.E.DeployContractBy(c.T, c.E.Validator, ctr, data)
}

// TryDeploy deploys and reports the outcome instead of failing the test.
func (c *Chain) TryDeploy(ctr *neotest.Contract, data any) *Result {
	tx := c.E.NewDeployTxBy(c.T, c.E.Validator, ctr, data)
	c.E.AddNewBlock(c.T, tx)
	return c.result(tx)
}

// Result is the outcome of one transaction.
type Result struct {
	Tx     *transaction.Transaction
	Halt   bool
	Fault  string
	Stack  []stackitem.Item
	Events []state.NotificationEvent
	Height uint32 // index of the block that contains the transaction
	SysFee int64
	NetFee int64
}

// Res returns "HALT" or "FAULT".
func (r *Result) Res() string {
	if r.Halt {
		return "HALT"
	}
	return "FAULT"
}

func (c *Chain) result(tx *transaction.Transaction) *Result {
	aer := c.E.GetTxExecResult(c.T, tx.Hash())
	_, h := c.E.GetTransaction(c.T, tx.Hash())
	return &Result{Tx: tx, Halt: aer.VMState.HasFlag(1), Fault: aer.FaultException, Stack: aer.Stack,
		Events: aer.Events, Height: h, SysFee: tx.SystemFee, NetFee: tx.NetworkFee}
}

// Dedup removes signers with equal script hashes (the Alphabet and the
// committee accounts coincide for n in {1,4}; neo-go rejects duplicates).
func Dedup(signers []neotest.Signer) []neotest.Signer {
	seen := map[util.Uint160]bool{}
	var out []neotest.Signer
	for _, s := range signers {
		if s == nil || seen[s.ScriptHash()] {
			continue
		}
		seen[s.ScriptHash()] = true
		out = append(out, s)
	}
	return out
}

// Tx builds a signed transaction calling method of contract h. The fee payer
// is always the first signer; extra are the witnesses under test.
func (c *Chain) Tx(h util.Uint160, extra []neotest.Signer, method string, args ...any) *transaction.Transaction {
	script, err := smartcontract.CreateCallScript(h, method, args...)
	require.NoError(c.T, err)
	return c.ScriptTx(script, extra)
}

// ScriptTx builds a signed transaction from a raw script.
func (c *Chain) ScriptTx(script []byte, extra []neotest.Signer) *transaction.Transaction {
	t := c.T
	e := c.E
	signers := Dedup(append([]neotest.Signer{c.Payer}, extra...))
	tx := transaction.New(script, 0)
	tx.Nonce = neotest.Nonce()
	tx.ValidUntilBlock = e.Chain.BlockHeight() + 1
	for _, acc := range signers {
		tx.Signers = append(tx.Signers, transaction.Signer{Account: acc.ScriptHash(), Scopes: transaction.Global})
	}
	neotest.AddNetworkFee(t, e.Chain, tx, signers...)
	v, _ := e.TestInvoke(tx)
	// margin: several transactions of one block see each other's effects
	tx.SystemFee = v.GasConsumed()*2 + 1_0000_0000
	for _, acc := range signers {
		require.NoError(t, acc.SignTx(e.Chain.GetConfig().Magic, tx))
	}
	return tx
}

// Run executes one transaction in its own block.
func (c *Chain) Run(h util.Uint160, extra []neotest.Signer, method string, args ...any) *Result {
	tx := c.Tx(h, extra, method, args...)
	c.E.AddNewBlock(c.T, tx)
	return c.result(tx)
}

// RunAt executes one transaction in its own block with the given timestamp (ms).
func (c *Chain) RunAt(ts uint64, h util.Uint160, extra []neotest.Signer, method string, args ...any) *Result {
	tx := c.Tx(h, extra, method, args...)
	c.AddBlockAt(ts, tx)
	return c.result(tx)
}

// RunBlock puts several prepared transactions into one block.
func (c *Chain) RunBlock(txs ...*transaction.Transaction) []*Result {
	c.E.AddNewBlock(c.T, txs...)
	out := make([]*Result, len(txs))
	for i, tx := range txs {
		out[i] = c.result(tx)
	}
	return out
}

// AddBlockAt adds a block with an explicit timestamp (must exceed the previous one).
func (c *Chain) AddBlockAt(ts uint64, txs ...*transaction.Transaction) *block.Block {
	b := c.E.NewUnsignedBlock(c.T, txs...)
	b.Timestamp = ts
	c.E.SignBlock(b)
	require.NoError(c.T, c.E.Chain.AddBlock(b))
	return b
}

// Skip adds k empty blocks.
func (c *Chain) Skip(k int) {
	for i := 0; i < k; i++ {
		c.E.AddNewBlock(c.T)
	}
}

// Height is the current block height.
func (c *Chain) Height() uint32 { return c.E.Chain.BlockHeight() }

// TopTime is the timestamp of the top block (ms).
func (c *Chain) TopTime() uint64 { return c.E.TopBlock(c.T).Timestamp }

// Call performs a test invocation (no signers) and returns the result stack.
func (c *Chain) Call(h util.Uint160, method string, args ...any) ([]stackitem.Item, error) {
	return c.CallAs(h, nil, method, args...)
}

// CallAs performs a test invocation with the given signers (Global scope).
func (c *Chain) CallAs(h util.Uint160, signers []neotest.Signer, method string, args ...any) ([]stackitem.Item, error) {
	script, err := smartcontract.CreateCallScript(h, method, args...)
	if err != nil {
		return nil, err
	}
	e := c.E
	tx := transaction.New(script, 0)
	tx.Nonce = neotest.Nonce()
	tx.ValidUntilBlock = e.Chain.BlockHeight() + 1
	for _, acc := range Dedup(signers) {
		tx.Signers = append(tx.Signers, transaction.Signer{Account: acc.ScriptHash(), Scopes: transaction.Global})
	}
	b := e.NewUnsignedBlock(c.T, tx)
	ic, err := e.Chain.GetTestVM(trigger.Application, tx, b)
	if err != nil {
		return nil, err
	}
	defer ic.Finalize()
	ic.VM.LoadWithFlags(tx.Script, callflag.All)
	err = ic.VM.Run()
	if err != nil {
		return nil, err
	}
	items := ic.VM.Estack().ToArray()
	// expand iterators while the context is alive
	for i, it := range items {
		items[i] = expand(it)
	}
	return items, nil
}

// CallRaw is Call without the in-place expansion of iterators: an iterator result is
// returned as an Interop item holding the expanded values (what an RPC session would traverse).
func (c *Chain) CallRaw(h util.Uint160, method string, args ...any) ([]stackitem.Item, []bool, error) {
	items, err := c.Call(h, method, args...)
	if err != nil {
		return nil, nil, err
	}
	// Call has replaced iterators by arrays; find out which results were iterators
	wasIter := make([]bool, len(items))
	script, err := smartcontract.CreateCallScript(h, method, args...)
	if err != nil {
		return nil, nil, err
	}
	tx := transaction.New(script, 0)
	tx.ValidUntilBlock = c.E.Chain.BlockHeight() + 1
	b := c.E.NewUnsignedBlock(c.T, tx)
	ic, err := c.E.Chain.GetTestVM(trigger.Application, tx, b)
	if err != nil {
		return nil, nil, err
	}
	defer ic.Finalize()
	ic.VM.LoadWithFlags(tx.Script, callflag.All)
	if err = ic.VM.Run(); err != nil {
		return nil, nil, err
	}
	for i, it := range ic.VM.Estack().ToArray() {
		if it.Type() == stackitem.InteropT {
			if _, ok := it.Value().(*storage.Iterator); ok && i < len(wasIter) {
				wasIter[i] = true
			}
		}
	}
	return items, wasIter, nil
}

func expand(it stackitem.Item) stackitem.Item {
	if it.Type() != stackitem.InteropT {
		return it
	}
	iter, ok := it.Value().(*storage.Iterator)
	if !ok {
		return it
	}
	var arr []stackitem.Item
	for iter.Next() {
		arr = append(arr, iter.Value())
	}
	return stackitem.NewArray(arr)
}

// Storage returns the raw storage of a deployed contract, hex(key) -> value.
func (c *Chain) Storage(h util.Uint160) map[string][]byte {
	cs := c.E.Chain.GetContractState(h)
	require.NotNil(c.T, cs, "contract not deployed")
	out := map[string][]byte{}
	c.E.Chain.SeekStorage(cs.ID, nil, func(k, v []byte) bool {
		out[hex.EncodeToString(k)] = slices.Clone(v)
		return true
	})
	return out
}

// StorageDigest hashes the raw storage of the given contracts.
func (c *Chain) StorageDigest(hs ...util.Uint160) string {
	hh := sha256.New()
	for _, h := range hs {
		cs := c.E.Chain.GetContractState(h)
		if cs == nil {
			continue
		}
		var l [4]byte
		c.E.Chain.SeekStorage(cs.ID, nil, func(k, v []byte) bool {
			binary.LittleEndian.PutUint32(l[:], uint32(len(k)))
			hh.Write(l[:])
			hh.Write(k)
			binary.LittleEndian.PutUint32(l[:], uint32(len(v)))
			hh.Write(l[:])
			hh.Write(v)
			return true
		})
		hh.Write(h[:])
	}
	return hex.EncodeToString(hh.Sum(nil))
}

// GAS returns the native GAS balance.
func (c *Chain) GAS(a util.Uint160) int64 {
	return c.E.Chain.GetUtilityTokenBalance(a).Int64()
}

// NEO returns the native NEO balance.
func (c *Chain) NEO(a util.Uint160) int64 {
	b, _ := c.E.Chain.GetGoverningTokenBalance(a)
	return b.Int64()
}
