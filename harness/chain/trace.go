package chain

import (
	"bufio"
	"encoding/hex"
	"encoding/json"
	"math/big"
	"os"
	"strconv"
	"testing"

	"github.com/nspcc-dev/neo-go/pkg/vm/stackitem"
	"github.com/stretchr/testify/require"
)

// Rec is one ndjson line of a recorded trace.
type Rec map[string]any

// Recorder appends records to an ndjson file and to an in-memory list.
type Recorder struct {
	t    testing.TB
	f    *os.File
	w    *bufio.Writer
	N    int
	Acts map[string]int // action|result counters (vacuity guard)
}

// NewRecorder creates/truncates path.
func NewRecorder(t testing.TB, path string) *Recorder {
	f, err := os.Create(path)
	require.NoError(t, err)
	r := &Recorder{t: t, f: f, w: bufio.NewWriterSize(f, 1<<20), Acts: map[string]int{}}
	t.Cleanup(func() { r.Close() })
	return r
}

// Emit writes one record.
func (r *Recorder) Emit(rec Rec) {
	b, err := json.Marshal(rec)
	require.NoError(r.t, err)
	r.w.Write(b)
	r.w.WriteByte('\n')
	r.N++
	if a, ok := rec["act"].(string); ok {
		res, _ := rec["res"].(string)
		r.Acts[a+"|"+res]++
	}
}

// Close flushes the file.
func (r *Recorder) Close() {
	if r.f != nil {
		r.w.Flush()
		r.f.Close()
		r.f = nil
	}
}

// Int converts an integer stack item into a JSON number when it fits into
// TLC's 32-bit integers and into the string "big:<decimal>" otherwise.
func Int(b *big.Int) any {
	if b.IsInt64() {
		v := b.Int64()
		if v > -(1<<31) && v < (1<<31) {
			return v
		}
	}
	return "big:" + b.String()
}

// ItemJSON projects a stack item into plain JSON values: integers as numbers
// (see Int), byte strings as lowercase hex, booleans, "null", arrays/structs
// as lists, maps as lists of [key,value].
func ItemJSON(it stackitem.Item) any {
	switch it.Type() {
	case stackitem.AnyT:
		return "null"
	case stackitem.BooleanT:
		b, _ := it.TryBool()
		return b
	case stackitem.IntegerT:
		b, _ := it.TryInteger()
		return Int(b)
	case stackitem.ByteArrayT, stackitem.BufferT:
		b, _ := it.TryBytes()
		return hex.EncodeToString(b)
	case stackitem.ArrayT, stackitem.StructT:
		arr := it.Value().([]stackitem.Item)
		out := make([]any, len(arr))
		for i := range arr {
			out[i] = ItemJSON(arr[i])
		}
		return out
	case stackitem.MapT:
		m := it.Value().([]stackitem.MapElement)
		out := make([]any, len(m))
		for i := range m {
			out[i] = []any{ItemJSON(m[i].Key), ItemJSON(m[i].Value)}
		}
		return out
	default:
		return "interop"
	}
}

// ItemBig returns the integer value of an item (byte strings are decoded as
// VM integers), or nil.
func ItemBig(it stackitem.Item) *big.Int {
	b, err := it.TryInteger()
	if err != nil {
		return nil
	}
	return b
}

// ItemBytes returns the bytes of an item or nil for Null / non-byte items.
func ItemBytes(it stackitem.Item) []byte {
	if it.Type() == stackitem.AnyT {
		return nil
	}
	b, err := it.TryBytes()
	if err != nil {
		return nil
	}
	return b
}

// Itoa is strconv.Itoa.
func Itoa(i int) string { return strconv.Itoa(i) }
