package chain

import (
	"time"

	"github.com/nspcc-dev/neo-go/pkg/neotest"
	"github.com/nspcc-dev/neo-go/pkg/util"
	"github.com/stretchr/testify/require"
)

// MsPerYear as used by the NNS contract.
const MsPerYear = int64(365 * 24 * time.Hour / time.Millisecond)

// FS holds the hashes of the FS-chain contracts deployed on a Chain.
type FS struct {
	NNS, Netmap, Balance, Container, NeoFSID, Proxy, Reputation, Audit, Alphabet util.Uint160
}

// DeployNNS deploys the NNS contract (it gets id 1) with the "neofs" TLD.
func (c *Chain) DeployNNS() util.Uint160 {
	ctr := c.Compile("nns")
	c.Deploy(ctr, []any{[]any{[]any{"neofs", "ops@nspcc.io"}}})
	return ctr.Hash
}

// RegNNS registers <name>.neofs with a TXT record naming contract h.
func (c *Chain) RegNNS(name string, h util.Uint160) {
	nnsHash, err := c.E.Chain.GetContractScriptHash(1)
	require.NoError(c.T, err)
	r := c.Run(nnsHash, []neotest.Signer{c.Cmt}, "register", name+".neofs", c.Cmt.ScriptHash(), "ops@nspcc.ru",
		int64(3600), int64(600), int64(10*MsPerYear), int64(3600))
	require.True(c.T, r.Halt, "nns register %s: %s", name, r.Fault)
	r = c.Run(nnsHash, []neotest.Signer{c.Cmt}, "addRecord", name+".neofs", 16, h.StringLE())
	require.True(c.T, r.Halt, "nns addRecord %s: %s", name, r.Fault)
}

// DeployNetmap deploys Netmap with the given config key/value pairs.
func (c *Chain) DeployNetmap(config ...any) util.Uint160 {
	ctr := c.Compile("netmap")
	args := []any{false, util.Uint160{}, util.Uint160{}, []any{}, config}
	c.Deploy(ctr, args)
	c.RegNNS("netmap", ctr.Hash)
	return ctr.Hash
}

// DeployBalance deploys Balance (subscribes itself for new epochs in Netmap).
func (c *Chain) DeployBalance() util.Uint160 {
	ctr := c.Compile("balance")
	c.Deploy(ctr, []any{false, util.Uint160{}, util.Uint160{}})
	c.RegNNS("balance", ctr.Hash)
	return ctr.Hash
}

// DeployNeoFSID deploys NeoFSID.
func (c *Chain) DeployNeoFSID() util.Uint160 {
	ctr := c.Compile("neofsid")
	c.Deploy(ctr, []any{false, util.Uint160{}, util.Uint160{}})
	c.RegNNS("neofsid", ctr.Hash)
	return ctr.Hash
}

// DeployProxy deploys Proxy.
func (c *Chain) DeployProxy() util.Uint160 {
	ctr := c.Compile("proxy")
	c.Deploy(ctr, nil)
	c.RegNNS("proxy", ctr.Hash)
	return ctr.Hash
}

// DeployContainer deploys Container with hashes resolved through NNS.
func (c *Chain) DeployContainer() util.Uint160 {
	ctr := c.Compile("container")
	c.Deploy(ctr, nil)
	c.RegNNS("container", ctr.Hash)
	return ctr.Hash
}

// DeployReputation deploys Reputation.
func (c *Chain) DeployReputation() util.Uint160 {
	ctr := c.Compile("reputation")
	c.Deploy(ctr, []any{false})
	c.RegNNS("reputation", ctr.Hash)
	return ctr.Hash
}

// DeployAudit deploys Audit.
func (c *Chain) DeployAudit() util.Uint160 {
	ctr := c.Compile("audit")
	c.Deploy(ctr, []any{false})
	c.RegNNS("audit", ctr.Hash)
	return ctr.Hash
}
