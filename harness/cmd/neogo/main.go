// Command neogo is the `neo-go contract ...` command group of the pinned
// neo-go release built from the module cache (the full CLI cannot be built
// offline: the consensus library is not cached).  It is used to regenerate
// contract.nef / manifest.json / rpcbinding.go exactly as the repository's
// Makefile does.  Build with
//   -ldflags "-X github.com/nspcc-dev/neo-go/pkg/config.Version=0.107.0"
package main

import (
	"fmt"
	"os"

	"github.com/nspcc-dev/neo-go/cli/smartcontract"
	"github.com/nspcc-dev/neo-go/pkg/config"
	"github.com/urfave/cli/v2"
)

func main() {
	app := cli.NewApp()
	app.Name = "neo-go"
	app.Version = config.Version
	app.Commands = smartcontract.NewCommands()
	if err := app.Run(os.Args); err != nil {
		fmt.Fprintln(os.Stderr, err)
		os.Exit(1)
	}
}
