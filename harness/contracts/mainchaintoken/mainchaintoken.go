// Package mainchaintoken is a helper contract for the conformance harness of the
// MainChain family: it plays a foreign NEP-17 token that notifies a receiver of
// a payment, so that the "accept nothing but GAS" guards of the NeoFS, Proxy,
// Processing and Alphabet contracts see a calling contract other than native
// GAS/NEO.
package mainchaintoken

import (
	"github.com/nspcc-dev/neo-go/pkg/interop"
	"github.com/nspcc-dev/neo-go/pkg/interop/contract"
)

// Pay calls to.onNEP17Payment(from, amount, data) the way a NEP-17 token does after a transfer.
func Pay(to interop.Hash160, from interop.Hash160, amount int, data any) {
	contract.Call(to, "onNEP17Payment", contract.All, from, amount, data)
}
