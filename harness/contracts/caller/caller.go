// Package caller is a helper contract for the conformance harness: it calls
// Balance.transfer so that the "calling contract is the holder" branch of the
// authorisation check can be reached, both legitimately (from = this
// contract) and as an attacker (from = somebody else).
package caller

import (
	"github.com/nspcc-dev/neo-go/pkg/interop"
	"github.com/nspcc-dev/neo-go/pkg/interop/contract"
)

// Transfer forwards to balance.transfer and returns its result.
func Transfer(balance interop.Hash160, from, to []byte, amount int) bool {
	return contract.Call(balance, "transfer", contract.All, from, to, amount, nil).(bool)
}

// OnNEP11Payment lets the contract own NNS names.
func OnNEP11Payment(from interop.Hash160, amount int, tokenID []byte, data any) {
}

// OnNEP17Payment lets the contract receive tokens.
func OnNEP17Payment(from interop.Hash160, amount int, data any) {
}
