// Package shell is a helper contract for the conformance harness of property
// C16 (contract upgrade): it stores arbitrary key/value pairs on request and
// forwards `update(nef, manifest, data)` VERBATIM to the native Management
// contract. Deploying it under the manifest name of a NeoFS contract, filling
// it with a synthetic storage in one of the old layouts and then updating it
// TO the contract compiled from the working tree runs the real
// `_deploy(data, isUpdate=true)` migration code with any version argument and
// any prior storage contents.
package shell

import (
	"github.com/nspcc-dev/neo-go/pkg/interop"
	"github.com/nspcc-dev/neo-go/pkg/interop/contract"
	"github.com/nspcc-dev/neo-go/pkg/interop/native/management"
	"github.com/nspcc-dev/neo-go/pkg/interop/storage"
)

// Put stores one item.
func Put(key, value []byte) {
	storage.Put(storage.GetContext(), key, value)
}

// PutMany stores several items in one invocation.
func PutMany(keys [][]byte, values [][]byte) {
	ctx := storage.GetContext()
	for i := range keys {
		storage.Put(ctx, keys[i], values[i])
	}
}

// Delete removes one item.
func Delete(key []byte) {
	storage.Delete(storage.GetContext(), key)
}

// Update forwards its arguments to management.update without touching them
// and without any witness check of its own (the gate of the real contracts is
// exercised on the real contracts).
func Update(nef []byte, manifest []byte, data any) {
	contract.Call(interop.Hash160(management.Hash), "update", contract.All, nef, manifest, data)
}

// OnNEP17Payment lets the shell hold GAS (the Alphabet migration distributes it).
func OnNEP17Payment(from interop.Hash160, amount int, data any) {
}
