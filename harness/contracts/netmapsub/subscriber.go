// Package netmapsub is a helper contract of the Netmap conformance harness: a
// probe subscriber for Netmap's new-epoch fan-out. NewEpoch(e) reports the call
// to the shared journal contract (harness/contracts/netmapjournal) whose hash
// is given at deployment; SetReject(true) makes every following NewEpoch
// panic, so that "a subscriber rejects the call" is reachable. The same
// executable is deployed several times under different manifest names.
package netmapsub

import (
	"github.com/nspcc-dev/neo-go/pkg/interop"
	"github.com/nspcc-dev/neo-go/pkg/interop/contract"
	"github.com/nspcc-dev/neo-go/pkg/interop/storage"
)

// nolint:deadcode,unused
func _deploy(data any, isUpdate bool) {
	if isUpdate {
		return
	}
	args := data.([]any)
	storage.Put(storage.GetContext(), "journal", args[0].(interop.Hash160))
}

// NewEpoch is the callback invoked by Netmap's newEpoch.
func NewEpoch(epoch int) {
	ctx := storage.GetContext()
	if storage.Get(ctx, "reject") != nil {
		panic("subscriber rejects the epoch")
	}
	j := storage.Get(ctx, "journal").(interop.Hash160)
	contract.Call(j, "add", contract.All, epoch)
}

// SetReject switches rejection of the following NewEpoch calls on or off.
func SetReject(on bool) {
	ctx := storage.GetContext()
	if on {
		storage.Put(ctx, "reject", 1)
	} else {
		storage.Delete(ctx, "reject")
	}
}
