// Package accesssub is a helper contract of the Access family (C03): a contract
// with a `newEpoch(epoch)` method and nothing else, used as a fresh argument of
// netmap.subscribeForNewEpoch (a contract can be subscribed only once).
package accesssub

// NewEpoch accepts the tick and does nothing.
func NewEpoch(epoch int) {
}
