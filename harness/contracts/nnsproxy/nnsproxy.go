// Package nnsproxy is a helper contract of the NNS conformance harness: it
// forwards an arbitrary call, so that a contract can be the owner/admin of a
// name (CheckWitness of a contract hash succeeds only for the calling
// contract), and it accepts NEP-11 tokens.
package nnsproxy

import (
	"github.com/nspcc-dev/neo-go/pkg/interop"
	"github.com/nspcc-dev/neo-go/pkg/interop/contract"
)

// Call forwards to target.method(args...) and returns its result.
func Call(target interop.Hash160, method string, args []any) any {
	return contract.Call(target, method, contract.All, args...)
}

// OnNEP11Payment lets the contract own NNS names.
func OnNEP11Payment(from interop.Hash160, amount int, tokenID []byte, data any) {
}
