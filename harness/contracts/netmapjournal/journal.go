// Package netmapjournal is a helper contract of the Netmap conformance
// harness: one shared, append-only journal of the newEpoch callbacks that the
// probe subscribers (harness/contracts/netmapsub) receive from the Netmap
// contract. Every entry records a global sequence number, the calling
// contract and the epoch argument, so that the ORDER of calls across
// subscribers and "exactly once" are observable from the raw storage. A
// FAULTed tick leaves no entry (transaction atomicity).
package netmapjournal

import (
	"github.com/nspcc-dev/neo-go/pkg/interop/native/std"
	"github.com/nspcc-dev/neo-go/pkg/interop/runtime"
	"github.com/nspcc-dev/neo-go/pkg/interop/storage"
)

// Add appends (sequence number, calling contract, epoch).
func Add(epoch int) {
	ctx := storage.GetContext()
	n := 0
	if v := storage.Get(ctx, "n"); v != nil {
		n = v.(int)
	}
	storage.Put(ctx, "j"+std.Itoa10(n), std.Serialize([]any{n, runtime.GetCallingScriptHash(), epoch}))
	storage.Put(ctx, "n", n+1)
}
