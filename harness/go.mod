module verif/harness

go 1.23

toolchain go1.23.5

require (
	github.com/google/uuid v1.6.0
	github.com/mr-tron/base58 v1.2.0
	github.com/nspcc-dev/neo-go v0.107.0
	github.com/nspcc-dev/neo-go/pkg/interop v0.0.0-20240729160116-d8e3e57f88f2
	github.com/nspcc-dev/neofs-contract v0.0.0
	github.com/stretchr/testify v1.9.0
	github.com/urfave/cli/v2 v2.27.4
	go.uber.org/zap v1.27.0
	gopkg.in/yaml.v3 v3.0.1
	pgregory.net/rapid v1.3.0
)

require (
	github.com/antlr/antlr4/runtime/Go/antlr/v4 v4.0.0-20221202181307-76fa05c21b12 // indirect
	github.com/beorn7/perks v1.0.1 // indirect
	github.com/bits-and-blooms/bitset v1.14.2 // indirect
	github.com/cespare/xxhash/v2 v2.3.0 // indirect
	github.com/consensys/bavard v0.1.13 // indirect
	github.com/consensys/gnark-crypto v0.14.0 // indirect
	github.com/cpuguy83/go-md2man/v2 v2.0.4 // indirect
	github.com/davecgh/go-spew v1.1.1 // indirect
	github.com/decred/dcrd/dcrec/secp256k1/v4 v4.3.0 // indirect
	github.com/golang/protobuf v1.5.3 // indirect
	github.com/golang/snappy v0.0.1 // indirect
	github.com/gorilla/websocket v1.5.3 // indirect
	github.com/hashicorp/golang-lru/v2 v2.0.7 // indirect
	github.com/holiman/uint256 v1.3.1 // indirect
	github.com/mmcloughlin/addchain v0.4.0 // indirect
	github.com/munnerz/goautoneg v0.0.0-20191010083416-a7dc8b61c822 // indirect
	github.com/nspcc-dev/go-ordered-json v0.0.0-20240830112754-291b000d1f3b // indirect
	github.com/nspcc-dev/hrw/v2 v2.0.1 // indirect
	github.com/nspcc-dev/neofs-api-go/v2 v2.14.1-0.20240305074711-35bc78d84dc4 // indirect
	github.com/nspcc-dev/neofs-sdk-go v1.0.0-rc.12 // indirect
	github.com/nspcc-dev/rfc6979 v0.2.3 // indirect
	github.com/nspcc-dev/tzhash v1.7.2 // indirect
	github.com/pierrec/lz4 v2.6.1+incompatible // indirect
	github.com/pmezard/go-difflib v1.0.0 // indirect
	github.com/prometheus/client_golang v1.20.2 // indirect
	github.com/prometheus/client_model v0.6.1 // indirect
	github.com/prometheus/common v0.55.0 // indirect
	github.com/prometheus/procfs v0.15.1 // indirect
	github.com/russross/blackfriday/v2 v2.1.0 // indirect
	github.com/syndtr/goleveldb v1.0.1-0.20210305035536-64b5b1c73954 // indirect
	github.com/twmb/murmur3 v1.1.8 // indirect
	github.com/xrash/smetrics v0.0.0-20240521201337-686a1a2994c1 // indirect
	go.etcd.io/bbolt v1.3.11 // indirect
	go.uber.org/multierr v1.11.0 // indirect
	golang.org/x/crypto v0.26.0 // indirect
	golang.org/x/exp v0.0.0-20240823005443-9b4947da3948 // indirect
	golang.org/x/mod v0.20.0 // indirect
	golang.org/x/net v0.28.0 // indirect
	golang.org/x/sync v0.8.0 // indirect
	golang.org/x/sys v0.24.0 // indirect
	golang.org/x/term v0.23.0 // indirect
	golang.org/x/text v0.17.0 // indirect
	golang.org/x/tools v0.24.0 // indirect
	google.golang.org/genproto/googleapis/rpc v0.0.0-20240221002015-b0ce06bbee7c // indirect
	google.golang.org/grpc v1.62.0 // indirect
	google.golang.org/protobuf v1.34.2 // indirect
	rsc.io/tmplfunc v0.0.3 // indirect
)

replace github.com/nspcc-dev/neofs-contract => /repo
