// Package deployh is the conformance harness of property C13 (deploy/).
//
// helpers_test.go: TestDrive evaluates the REAL pure helpers of /repo/deploy
// (exported by deploy/export_verif.go under the `verif` build tag) on the table
// enumerated by TLC (spec/DeployHelpersMC.tla) and on seeded random 64/32-bit
// values, and records one ndjson line per evaluation for spec/DeployTrace.tla.
// Numbers that do not fit TLC's 32-bit integers are written as Big: base-10^4
// limbs, most significant first (the representation of spec/DeployHelpers.tla).
package deployh

import (
	"crypto/sha256"
	"encoding/base64"
	"encoding/json"
	"fmt"
	"math"
	"math/rand"
	"os"
	"testing"

	"github.com/nspcc-dev/neo-go/pkg/core/transaction"
	"github.com/nspcc-dev/neo-go/pkg/neorpc/result"
	"github.com/nspcc-dev/neo-go/pkg/util"
	"github.com/nspcc-dev/neofs-contract/deploy"
	"github.com/stretchr/testify/require"

	"verif/harness/chain"
)

// HelperCase is one line of the TLC table.
type HelperCase struct {
	Act    string `json:"act"`
	Amount uint64 `json:"amount"`
	N      int    `json:"n"`
	H      uint32 `json:"h"`
}

func limbs(x uint64) []int {
	if x == 0 {
		return []int{0}
	}
	var out []int
	for x > 0 {
		out = append([]int{int(x % 10000)}, out...)
		x /= 10000
	}
	return out
}

func ints(b []byte) []int {
	out := make([]int, len(b))
	for i := range b {
		out[i] = int(b[i])
	}
	return out
}

type helperDriver struct {
	t   *testing.T
	rec *chain.Recorder
	tid int
	l   int
}

func (d *helperDriver) begin(src string) {
	d.tid++
	d.l = 0
	d.emit(chain.Rec{"act": "reset", "kind": "helpers", "src": src, "res": ""})
}

func (d *helperDriver) emit(r chain.Rec) {
	r["t"] = d.tid
	r["l"] = d.l
	d.l++
	if _, ok := r["res"]; !ok {
		r["res"] = "HALT"
	}
	d.rec.Emit(r)
}

func (d *helperDriver) divide(amount uint64, n int) {
	calls := [][]any{}
	deploy.VerifDivideFundsEvenly(amount, n, func(ind int, a uint64) {
		calls = append(calls, []any{ind, limbs(a)})
	})
	d.emit(chain.Rec{"act": "divide", "amount": limbs(amount), "n": n, "calls": calls})
}

func (d *helperDriver) window(h uint32) {
	mod := deploy.VerifTransactionModifier(func() uint32 { return h })
	tx := transaction.New([]byte{0x40}, 0)
	tx.Nonce, tx.ValidUntilBlock = 7, 7
	err := mod(&result.Invoke{State: "HALT"}, tx)
	require.NoError(d.t, err)
	// a FAULTed test invocation must be refused and leave the transaction alone
	tx2 := transaction.New([]byte{0x40}, 0)
	tx2.Nonce, tx2.ValidUntilBlock = 7, 7
	err2 := mod(&result.Invoke{State: "FAULT", FaultException: "x"}, tx2)
	d.emit(chain.Rec{"act": "window", "h": limbs(uint64(h)), "nonce": limbs(uint64(tx.Nonce)), "vub": limbs(uint64(tx.ValidUntilBlock)),
		"faultRefused": err2 != nil && tx2.Nonce == 7 && tx2.ValidUntilBlock == 7})
}

func sum4(b []byte) []byte {
	h := sha256.Sum256(b)
	return h[:4]
}

func (d *helperDriver) codec(sender util.Uint160, vub, nonce uint32, rnd *rand.Rand) {
	x := deploy.VerifSharedTxData{Sender: sender, ValidUntilBlock: vub, Nonce: nonce}
	b := x.Bytes()
	s := x.EncodeToString()
	raw, errB := base64.StdEncoding.DecodeString(s)
	dec, err := deploy.VerifDecodeSharedTxData(s)
	d.emit(chain.Rec{"act": "codec", "sender": ints(sender.BytesBE()), "vub": limbs(uint64(vub)), "nonce": limbs(uint64(nonce)),
		"bytes": ints(b), "strIsB64OfBytes": errB == nil && string(raw) == string(b),
		"dec": map[string]any{"ok": err == nil, "sender": ints(dec.Sender.BytesBE()), "vub": limbs(uint64(dec.ValidUntilBlock)),
			"nonce": limbs(uint64(dec.Nonce))}})
	// checksum: independent SHA-256 over the recorded bytes
	sum := sum4(b)
	data := make([]byte, rnd.Intn(70))
	rnd.Read(data)
	un := x.UnshiftChecksum(append([]byte(nil), data...))
	ok, rest := x.ShiftChecksum(append([]byte(nil), un...))
	d.emit(chain.Rec{"act": "cksum", "sum": ints(sum), "data": ints(data), "un": ints(un),
		"back": map[string]any{"ok": ok, "rest": ints(rest)}})
	// refusals: every single-bit corruption of the checksum prefix, truncations, a payload made for other shared data
	rej := func(kind string, arg []byte) {
		ok, rest := x.ShiftChecksum(append([]byte(nil), arg...))
		d.emit(chain.Rec{"act": "ckrej", "kind": kind, "sum": ints(sum), "arg": ints(arg), "out": map[string]any{"ok": ok, "rest": ints(rest)}})
	}
	for bit := 0; bit < 32; bit++ {
		c := append([]byte(nil), un...)
		c[bit/8] ^= 1 << (bit % 8)
		rej("bit", c)
	}
	for k := 0; k < 4; k++ {
		rej("short", un[:k])
	}
	other := deploy.VerifSharedTxData{Sender: sender, ValidUntilBlock: vub, Nonce: nonce}
	switch rnd.Intn(3) {
	case 0:
		other.Nonce ^= 1 << rnd.Intn(32)
	case 1:
		other.ValidUntilBlock ^= 1 << rnd.Intn(32)
	default:
		other.Sender[rnd.Intn(20)] ^= 1 << rnd.Intn(8)
	}
	rej("other", other.UnshiftChecksum(append([]byte(nil), data...)))
	if len(data) > 0 { // corruption of the payload only: must still be accepted (the checksum covers the shared data, not the payload)
		c := append([]byte(nil), un...)
		c[4+rnd.Intn(len(data))] ^= 0x10
		rej("payload", c)
	}
}

func (d *helperDriver) declen(k int, rnd *rand.Rand) {
	b := make([]byte, k)
	rnd.Read(b)
	dec, err := deploy.VerifDecodeSharedTxData(base64.StdEncoding.EncodeToString(b))
	r := chain.Rec{"act": "declen", "len": k, "ok": err == nil, "b64": true}
	if err == nil {
		r["same"] = string(dec.Bytes()) == string(b)
	} else {
		r["same"] = false
	}
	d.emit(r)
}

// TestDrive: helpers part of the C13 check.
func TestDrive(t *testing.T) {
	out := os.Getenv("VERIF_OUT")
	if out == "" {
		t.Skip("VERIF_OUT not set")
	}
	seed := int64(1)
	fmt.Sscan(os.Getenv("VERIF_SEED"), &seed)
	nrand := 2000
	fmt.Sscan(os.Getenv("VERIF_NRAND"), &nrand)
	var table []HelperCase
	if p := os.Getenv("VERIF_SCEN"); p != "" {
		b, err := os.ReadFile(p)
		require.NoError(t, err)
		require.NoError(t, json.Unmarshal(b, &table))
	}
	d := &helperDriver{t: t, rec: chain.NewRecorder(t, out)}
	rnd := rand.New(rand.NewSource(seed))

	// 1. TLC's table
	d.begin("tlc:divide")
	for _, c := range table {
		if c.Act == "divide" {
			d.divide(c.Amount, c.N)
		}
	}
	d.begin("tlc:window")
	for _, c := range table {
		if c.Act == "window" {
			d.window(c.H)
		}
	}
	// 2. edges and seeded random values beyond what TLC can enumerate
	d.begin("rand:divide")
	edgesA := []uint64{0, 1, 2, math.MaxUint64, math.MaxUint64 - 1, 1 << 63, 1<<63 - 1, 1 << 32, 1<<32 - 1, 100_000_000, 9999, 10000, 10001, 99999999, 100000000}
	for _, a := range edgesA {
		for _, n := range []int{1, 2, 3, 4, 5, 6, 7, 8, 9, 41} {
			d.divide(a, n)
		}
	}
	for i := 0; i < nrand; i++ {
		n := 1 + rnd.Intn(9)
		if rnd.Intn(10) == 0 {
			n = 1 + rnd.Intn(64)
		}
		var a uint64
		switch rnd.Intn(5) {
		case 0:
			a = rnd.Uint64()
		case 1:
			a = rnd.Uint64() >> uint(rnd.Intn(64))
		case 2: // a multiple of n, +-1
			a = (rnd.Uint64()/uint64(n))*uint64(n) + uint64(rnd.Intn(3)) - 1
		case 3:
			a = uint64(rnd.Intn(3 * n))
		default:
			a = math.MaxUint64 - uint64(rnd.Intn(1000))
		}
		d.divide(a, n)
	}
	d.begin("rand:window")
	for _, h := range []uint32{0, 1, 99, 100, 101, 199, 200, math.MaxUint32, math.MaxUint32 - 1, math.MaxUint32 - 94, math.MaxUint32 - 95, math.MaxUint32 - 96,
		math.MaxUint32 - 100, math.MaxUint32 - 194, math.MaxUint32 - 195, math.MaxUint32 - 196, math.MaxUint32 - 200, math.MaxUint32 - 295, math.MaxUint32 - 296, 1 << 31, 1<<31 - 1, 1<<31 + 99} {
		d.window(h)
	}
	for h := uint64(math.MaxUint32) - 1300; h <= math.MaxUint32; h++ {
		d.window(uint32(h))
	}
	for i := 0; i < nrand; i++ {
		var h uint32
		switch rnd.Intn(3) {
		case 0:
			h = rnd.Uint32()
		case 1:
			h = (rnd.Uint32()/100)*100 + uint32(rnd.Intn(3)) - 1
		default:
			h = rnd.Uint32() >> uint(rnd.Intn(32))
		}
		d.window(h)
	}
	d.begin("rand:codec")
	edgesU := []uint32{0, 1, 255, 256, 65535, 65536, 1<<24 - 1, 1 << 24, math.MaxUint32, math.MaxUint32 - 1, 0x01020304, 0x80000000, 0x7fffffff}
	for _, v := range edgesU {
		for _, n := range edgesU {
			var s util.Uint160
			rnd.Read(s[:])
			d.codec(s, v, n, rnd)
		}
	}
	d.codec(util.Uint160{}, 0, 0, rnd)
	var ff util.Uint160
	for i := range ff {
		ff[i] = 0xff
	}
	d.codec(ff, math.MaxUint32, math.MaxUint32, rnd)
	for i := 0; i < nrand/10; i++ {
		var s util.Uint160
		rnd.Read(s[:])
		d.codec(s, rnd.Uint32(), rnd.Uint32(), rnd)
	}
	d.begin("rand:declen")
	for k := 0; k <= 60; k++ {
		d.declen(k, rnd)
	}
	// not base64 at all
	for _, s := range []string{"*", "AAA", "====", "AAAAAAAAAAAAAAAAAAAAAAAAAAAAAAAAAAAAA*==", " "} {
		_, err := deploy.VerifDecodeSharedTxData(s)
		d.emit(chain.Rec{"act": "declen", "len": -1, "ok": err == nil, "b64": false, "same": false})
	}
	require.Equal(t, 28, deploy.VerifSharedTxDataLen)

	d.rec.Close()
	st, _ := json.Marshal(map[string]any{"lines": d.rec.N, "scenarios": d.tid, "acts": d.rec.Acts})
	fmt.Println("DRIVER-STATS " + string(st))
}
