package deployh

// e2e_test.go: TestE2E runs the unmodified deploy.Deploy once per committee member
// against one shared in-process chain (net.go), under a schedule (start order, paused
// members, members absent during the Notary bootstrap, cancellation and restart), and
// records the chain projection after every block in which it changed as ndjson for
// spec/DeployTrace.tla.  One scenario per OS process (VERIF_E2E = scenario file).

import (
	"context"
	"encoding/json"
	"errors"
	"fmt"
	"os"
	"regexp"
	"sort"
	"strings"
	"sync"
	"testing"
	"time"

	"github.com/nspcc-dev/neo-go/pkg/core/native/noderoles"
	"github.com/nspcc-dev/neo-go/pkg/core/state"
	"github.com/nspcc-dev/neo-go/pkg/crypto/hash"
	"github.com/nspcc-dev/neo-go/pkg/crypto/keys"
	"github.com/nspcc-dev/neo-go/pkg/encoding/address"
	"github.com/nspcc-dev/neo-go/pkg/rpcclient/invoker"
	"github.com/nspcc-dev/neo-go/pkg/rpcclient/unwrap"
	"github.com/nspcc-dev/neo-go/pkg/smartcontract"
	"github.com/nspcc-dev/neo-go/pkg/util"
	"github.com/nspcc-dev/neo-go/pkg/vm/stackitem"
	"github.com/nspcc-dev/neo-go/pkg/wallet"
	"github.com/nspcc-dev/neofs-contract/contracts"
	"github.com/nspcc-dev/neofs-contract/deploy"
	"github.com/stretchr/testify/require"
	"go.uber.org/zap"
	"go.uber.org/zap/zapcore"

	"verif/harness/chain"
)

// MemberPlan is the schedule of one committee member.
type MemberPlan struct {
	Start       int      `json:"start"`       // chain height at which deploy.Deploy is launched
	AfterNotary bool     `json:"afterNotary"` // launched only once the Notary role is designated (absent during bootstrap)
	AfterBoot   int      `json:"afterBoot"`   // > 0: launched that many blocks after the leader's shared data record appeared
	Pauses      [][2]int `json:"pauses"`      // [from, k]: new-block notifications withheld while from <= height < from+k
	Cancels     [][2]int `json:"cancels"`     // [b, b2]: context cancelled at height b, fresh run started at height b2
	// relative to the block in which the leader's shared transaction data record first appeared (bootAt):
	CancelAfterBoot []int  `json:"cancelAfterBoot"` // [d1, d2]: context cancelled at bootAt+d1, fresh run started at bootAt+d2
	PauseAfterBoot  []int  `json:"pauseAfterBoot"`  // [d1, k]: new-block notifications withheld while bootAt+d1 <= height < bootAt+d1+k
	// relative to the block in which the Notary role was first seen designated to the whole committee (notaryAt):
	CancelAfterNotary []int `json:"cancelAfterNotary"` // [d1, d2]: context cancelled at notaryAt+d1, fresh run started at notaryAt+d2
	Losses          []Loss `json:"losses"`          // lossy delivery: the k-th submission of a class is acknowledged but never reaches the node
}

// Loss drops the K-th (1-based) submission of class Cls ("tx:deploy", "tx:register", "tx:designate", "tx:transfer" = notary
// deposit, "nr:transfer", "nr:designate", "nr:deploy", "nr:candidate", "nr:update", ...) of one member, counted over all its runs
// of the main phase; co-signatures of other members' notary requests count as submissions of the "nr:" class.
type Loss struct {
	Cls string `json:"cls"`
	K   int    `json:"k"`
}

// E2EScenario is one end-to-end run.
type E2EScenario struct {
	N       int          `json:"n"`
	Seed    int64        `json:"seed"`
	Budget  int          `json:"budget"`  // block budget of the main phase
	BlockMs int          `json:"blockMs"` // wall time per block (and the members' polling interval)
	Members []MemberPlan `json:"members"`
	Rerun   bool         `json:"rerun"` // run all members again on the finished chain
	Goal    string       `json:"goal"`  // "all" (default): every run returns; "notary": stop once the Notary role is designated
	Src     string       `json:"src"`
	ID      int          `json:"id"`
}

const (
	stagnationStop = 440 // blocks without any change of the abstract projection: > 3 lifetimes (120) of the shared data
	rerunBudget    = 400
)

var sysByManifest = map[string]string{
	"NameService": "nns", "NeoFS Notary Proxy": "proxy", "NeoFS Audit": "audit", "NeoFS Netmap": "netmap",
	"NeoFS Balance": "balance", "NeoFS Reputation": "reputation", "NeoFS ID": "neofsid", "NeoFS Container": "container",
	"NeoFS Alphabet": "alphabet",
}

type glag struct{}

func (glag) Size() int                  { return 41 }
func (glag) LetterByIndex(i int) string { return fmt.Sprintf("letter%d", i) }

type member struct {
	idx         int
	plan        MemberPlan
	bc          *MemberBC
	cancel      context.CancelFunc
	ret         chan error
	state       string // off | run | paused | down | done | err
	errText     string
	runs        int
	sent        map[string]int // accumulated over finished runs of the phase
	rej         map[string]int
	cancels     int // how many entries of plan.Cancels were applied
	paused      bool
	subm        map[string]int // submissions per class over all runs of the main phase (lossy delivery)
	lost        int
	lossy       bool
	bootApplied bool
	notaryApplied bool
}

type world struct {
	t        *testing.T
	sc       E2EScenario
	net      *Net
	fs       map[string]contracts.Contract // by manifest name
	nefSum   map[string]uint32             // system name -> supplied NEF checksum
	members  []*member
	obsInv   *invoker.Invoker
	rec      *chain.Recorder
	l        int
	cmtAcc   util.Uint160
	valAcc   util.Uint160
	logDir   string
	lastKey  string
	lastEmit int
	fwSince  int
	fwTotal  int
	prevFw   int
	notaryAt int // height at which the Notary role was first seen designated to the whole committee (-1: not yet)
	bootAt   int // height at which the shared transaction data record was first seen (-1: not yet)
}

func addMap(dst, src map[string]int) {
	for k, v := range src {
		dst[k] += v
	}
}

func (w *world) prm(i int, bc deploy.Blockchain) deploy.Prm {
	cp := func(name string) deploy.CommonDeployPrm {
		c, ok := w.fs[name]
		require.True(w.t, ok, name)
		return deploy.CommonDeployPrm{NEF: c.NEF, Manifest: c.Manifest}
	}
	var prm deploy.Prm
	prm.Logger = zap.NewNop()
	if w.logDir != "" {
		f, err := os.OpenFile(fmt.Sprintf("%s/member%d.log", w.logDir, i), os.O_CREATE|os.O_APPEND|os.O_WRONLY, 0o644)
		require.NoError(w.t, err)
		enc := zap.NewDevelopmentEncoderConfig()
		prm.Logger = zap.New(zapcore.NewCore(zapcore.NewConsoleEncoder(enc), zapcore.AddSync(f), zapcore.DebugLevel))
	}
	prm.Blockchain = bc
	prm.LocalAccount = wallet.NewAccountFromPrivateKey(w.net.Privs[i])
	prm.ValidatorMultiSigAccount = w.net.ValidatorAccount(i)
	prm.NNS.Common = cp("NameService")
	prm.NNS.SystemEmail = "nonexistent@nspcc.io"
	prm.AlphabetContract.Common = cp("NeoFS Alphabet")
	prm.AuditContract.Common = cp("NeoFS Audit")
	prm.BalanceContract.Common = cp("NeoFS Balance")
	prm.ContainerContract.Common = cp("NeoFS Container")
	prm.NeoFSIDContract.Common = cp("NeoFS ID")
	prm.NetmapContract.Common = cp("NeoFS Netmap")
	prm.NetmapContract.Config = deploy.NetworkConfiguration{MaxObjectSize: 1 << 20, EpochDuration: 240, ContainerFee: 1000, ContainerAliasFee: 500}
	prm.ProxyContract.Common = cp("NeoFS Notary Proxy")
	prm.ReputationContract.Common = cp("NeoFS Reputation")
	prm.Glagolitsa = glag{}
	return prm
}

func (w *world) launch(m *member) {
	m.bc = NewMemberBC(w.net.Client())
	if m.lossy {
		var mu sync.Mutex
		m.bc.Drop = func(key string) bool {
			mu.Lock()
			defer mu.Unlock()
			m.subm[key]++
			for _, l := range m.plan.Losses {
				if l.Cls == key && l.K == m.subm[key] {
					return true
				}
			}
			return false
		}
	}
	ctx, cancel := context.WithCancel(context.Background())
	m.cancel = cancel
	m.ret = make(chan error, 1)
	m.state = "run"
	m.runs++
	prm := w.prm(m.idx, m.bc)
	ret := m.ret
	go func() { ret <- deploy.Deploy(ctx, prm) }()
}

// collect folds the counters of the member's current wrapper into the accumulated ones.
func (m *member) counters() (map[string]int, map[string]int) {
	s, r := map[string]int{}, map[string]int{}
	addMap(s, m.sent)
	addMap(r, m.rej)
	if m.bc != nil {
		cs, cr := m.bc.Counters()
		addMap(s, cs)
		addMap(r, cr)
	}
	return s, r
}

func (m *member) lostNow() int {
	if m.bc != nil {
		return m.lost + m.bc.Lost()
	}
	return m.lost
}

func (m *member) retire() {
	if m.bc != nil {
		m.lost += m.bc.Lost()
		cs, cr := m.bc.Counters()
		addMap(m.sent, cs)
		addMap(m.rej, cr)
		m.bc = nil
	}
}

var reHex = regexp.MustCompile(`[0-9a-fA-F]{16,}`)

func cleanErr(err error) string {
	s := reHex.ReplaceAllString(err.Error(), "#")
	if len(s) > 160 {
		s = s[:160]
	}
	return strings.Map(func(r rune) rune {
		if r == '|' || r == '"' || r == '\\' || r < 32 || r > 126 {
			return '.'
		}
		return r
	}, s)
}

// ---------------------------------------------------------------- projection

func (w *world) roleIdx(role noderoles.Role) ([]int, int) {
	ks, _, err := w.net.BC.GetDesignatedByRole(role)
	require.NoError(w.t, err)
	idx := []int{}
	extra := 0
	for _, k := range ks {
		found := false
		for i, p := range w.net.Pubs {
			if p.Equal(k) {
				idx = append(idx, i)
				found = true
			}
		}
		if !found {
			extra++
		}
	}
	sort.Ints(idx)
	return idx, extra
}

func (w *world) nnsHash() (util.Uint160, bool) {
	h, err := w.net.BC.GetContractScriptHash(1)
	if err != nil {
		return util.Uint160{}, false
	}
	return h, true
}

// records returns the state of an NNS domain: "none" (no such name), "norec", "rec", "err" and its TXT records.
func (w *world) records(nns util.Uint160, name string) (string, []string) {
	const txt = 16
	arr, err := unwrap.Array(w.obsInv.Call(nns, "getRecords", name, txt))
	if err != nil {
		var ex unwrap.Exception
		if errors.As(err, &ex) && strings.Contains(string(ex), "token not found") {
			return "none", nil
		}
		// Null result: no records
		it, err2 := unwrap.Item(w.obsInv.Call(nns, "getRecords", name, txt))
		if err2 == nil {
			if _, ok := it.(stackitem.Null); ok {
				return "norec", nil
			}
		}
		return "err", nil
	}
	var out []string
	for _, it := range arr {
		b, err := it.TryBytes()
		if err != nil {
			return "err", nil
		}
		out = append(out, string(b))
	}
	if len(out) == 0 {
		return "norec", nil
	}
	return "rec", out
}

func wholeGAS(w *world, acc util.Uint160) int64 {
	return w.net.BC.GetUtilityTokenBalance(acc).Int64() / 1_0000_0000
}

func neoOf(w *world, acc util.Uint160) int64 {
	b, _ := w.net.BC.GetGoverningTokenBalance(acc)
	return b.Int64()
}

type contractInfo struct {
	ID   int32  `json:"id"`
	Sys  string `json:"sys"`  // system name or "?<manifest name>"
	Hash string `json:"hash"` // little-endian hex, the format of the NNS records
	Ok   bool   `json:"ok"`   // NEF checksum equals the supplied executable's
	Dep  int    `json:"dep"`  // committee index of the deployer, -1 unknown
	Upd  int    `json:"upd"`  // update counter
}

func (w *world) observe() (chain.Rec, string) {
	bc := w.net.BC
	obs := chain.Rec{"h": int(bc.BlockHeight())}
	ntr, ntrX := w.roleIdx(noderoles.P2PNotary)
	alp, alpX := w.roleIdx(noderoles.NeoFSAlphabet)
	obs["notary"], obs["notaryX"], obs["alpha"], obs["alphaX"] = ntr, ntrX, alp, alpX
	// contracts by id
	cs := []contractInfo{}
	byHash := map[string]contractInfo{}
	var proxy util.Uint160
	alphaAcc := make([]util.Uint160, w.sc.N)
	alphaSet := make([]bool, w.sc.N)
	for id := int32(1); ; id++ {
		h, err := bc.GetContractScriptHash(id)
		if err != nil {
			break
		}
		st := bc.GetContractState(h)
		if st == nil {
			continue
		}
		ci := contractInfo{ID: id, Hash: h.StringLE(), Dep: -1, Upd: int(st.UpdateCounter)}
		if sys, ok := sysByManifest[st.Manifest.Name]; ok {
			ci.Sys = sys
			ci.Ok = st.NEF.Checksum == w.nefSum[sys]
		} else {
			ci.Sys = "?" + st.Manifest.Name
		}
		for i, p := range w.net.Pubs {
			if state.CreateContractHash(p.GetScriptHash(), st.NEF.Checksum, st.Manifest.Name).Equals(h) {
				ci.Dep = i
			}
		}
		if ci.Sys == "proxy" {
			proxy = h
		}
		cs = append(cs, ci)
		byHash[ci.Hash] = ci
	}
	obs["contracts"] = cs
	// NNS
	neofs := []chain.Rec{}
	boot := []chain.Rec{}
	nnsNames := 0
	if nns, ok := w.nnsHash(); ok {
		doms := []string{"proxy", "audit", "netmap", "balance", "reputation", "neofsid", "container"}
		for i := 0; i < w.sc.N; i++ {
			doms = append(doms, fmt.Sprintf("alphabet%d", i))
		}
		for _, d := range doms {
			st, recs := w.records(nns, d+".neofs")
			want, idx := d, -1
			if strings.HasPrefix(d, "alphabet") {
				want = "alphabet"
				fmt.Sscanf(d, "alphabet%d", &idx)
			}
			r := chain.Rec{"dom": d, "want": want, "idx": idx, "st": st, "n": len(recs), "hash": "", "sys": "", "dep": -1, "ok": false}
			if len(recs) > 0 {
				// the two historical formats accepted by deploy: LE hex script hash or Neo address
				var a util.Uint160
				var err error
				if a, err = util.Uint160DecodeStringLE(recs[0]); err != nil {
					a, err = address.StringToUint160(recs[0])
				}
				if err != nil {
					r["sys"] = "undecodable"
				} else {
					r["hash"] = a.StringLE()
					if ci, ok := byHash[a.StringLE()]; ok {
						r["sys"], r["dep"], r["ok"] = ci.Sys, ci.Dep, ci.Ok
						if strings.HasPrefix(d, "alphabet") && ci.Sys == "alphabet" {
							var k int
							fmt.Sscanf(d, "alphabet%d", &k)
							alphaAcc[k], alphaSet[k] = a, true
						}
					} else {
						r["sys"] = "missing"
					}
				}
			}
			neofs = append(neofs, r)
		}
		bdoms := []string{"tx"}
		for i := 0; i < w.sc.N; i++ {
			bdoms = append(bdoms, fmt.Sprint(i))
		}
		for _, d := range bdoms {
			st, recs := w.records(nns, "designate-committee-notary-"+d+".bootstrap")
			if d == "tx" && st == "rec" && w.bootAt < 0 {
				w.bootAt = int(bc.BlockHeight())
			}
			idx := -1
			fmt.Sscanf(d, "%d", &idx)
			boot = append(boot, chain.Rec{"dom": d, "idx": idx, "st": st, "n": len(recs)})
		}
		bc.SeekStorage(1, []byte{0x21}, func(k, v []byte) bool { nnsNames++; return true })
	}
	obs["neofs"], obs["boot"], obs["nnsNames"] = neofs, boot, nnsNames
	// funds
	gm, ga, na := []int64{}, []int64{}, []int64{}
	for i := range w.net.Pubs {
		gm = append(gm, wholeGAS(w, w.net.Pubs[i].GetScriptHash()))
		if alphaSet[i] {
			ga = append(ga, wholeGAS(w, alphaAcc[i]))
			na = append(na, neoOf(w, alphaAcc[i]))
		} else {
			ga = append(ga, -1)
			na = append(na, -1)
		}
	}
	var gp int64 = -1
	if !proxy.Equals(util.Uint160{}) {
		gp = wholeGAS(w, proxy)
	}
	obs["gas"] = chain.Rec{"val": wholeGAS(w, w.valAcc), "cmt": wholeGAS(w, w.cmtAcc), "proxy": gp, "m": gm, "a": ga}
	obs["neo"] = chain.Rec{"val": neoOf(w, w.valAcc), "cmt": neoOf(w, w.cmtAcc), "a": na}
	// candidates
	cand := 0
	if cands, err := bc.GetEnrollments(); err == nil {
		for _, c := range cands {
			for _, p := range w.net.Pubs {
				if p.Equal(c.Key) {
					cand++
				}
			}
		}
	}
	obs["cand"] = cand
	// the number of records of a bootstrap domain is not part of the key: a signer that appends instead of replacing
	// makes it grow without getting anywhere
	bootKey := []string{}
	for _, b := range boot {
		bootKey = append(bootKey, fmt.Sprint(b["dom"], b["st"]))
	}
	key, _ := json.Marshal([]any{ntr, ntrX, alp, alpX, cs, neofs, bootKey, nnsNames, cand, gp > 0, neoOf(w, w.cmtAcc) > 0})
	return obs, string(key)
}

func d4(sent map[string]int) chain.Rec {
	out := chain.Rec{"deploy": 0, "update": 0, "register": 0, "designate": 0}
	for k, v := range sent {
		cls := k[strings.Index(k, ":")+1:]
		for _, c := range strings.Split(cls, "+") {
			if _, ok := out[c]; ok {
				out[c] = out[c].(int) + v
			}
		}
	}
	return out
}

func (w *world) memRecs() ([]chain.Rec, string) {
	out := []chain.Rec{}
	key := ""
	for _, m := range w.members {
		s, r := m.counters()
		st := m.state
		if st == "run" && m.paused {
			st = "paused"
		}
		badSig := 0
		for k, v := range r {
			if strings.HasPrefix(k, "tx:designate:") && strings.HasSuffix(k, ":invalidsig") { // -508: a witness does not verify
				badSig += v
			}
		}
		out = append(out, chain.Rec{"st": st, "runs": m.runs, "err": m.errText, "sent": s, "rej": r, "d4": d4(s), "badDesignate": badSig,
			"lost": m.lostNow()})
		key += fmt.Sprintf("%s/%d/%d/%d;", st, m.runs, badSig, m.lostNow())
	}
	return out, key
}

func (w *world) fundsRefusals() int {
	tot := 0
	for _, m := range w.members {
		_, r := m.counters()
		for k, v := range r {
			if strings.HasSuffix(k, ":funds") {
				tot += v
			}
		}
	}
	return tot
}

func (w *world) emit(act string, extra chain.Rec, force bool) bool {
	obs, okey := w.observe()
	mem, mkey := w.memRecs()
	fw := w.fundsRefusals()
	w.fwSince += fw - w.fwTotal
	w.fwTotal = fw
	h := obs["h"].(int)
	key := okey + "|" + mkey
	changed := key != w.lastKey
	if !force && !changed && !(w.fwSince > 0 && h-w.lastEmit >= 25) {
		return false
	}
	r := chain.Rec{"t": w.sc.ID, "l": w.l, "act": act, "res": "HALT", "h": h, "obs": obs, "mem": mem, "fw": w.fwSince, "n": w.sc.N}
	for k, v := range extra {
		r[k] = v
	}
	w.l++
	w.rec.Emit(r)
	w.lastKey, w.lastEmit, w.fwSince = key, h, 0
	return changed
}

// ---------------------------------------------------------------- run

func (w *world) notaryDesignated() bool {
	idx, _ := w.roleIdx(noderoles.P2PNotary)
	return len(idx) == w.sc.N
}

// phase runs the block loop until every member's latest run returned, a run failed, the budget is
// exhausted or the abstract projection has not changed for stagnationStop blocks.
func (w *world) phase(budget int, schedule bool) (why string, lastChange int) {
	start := int(w.net.BC.BlockHeight())
	lastChange = start
	w.fwTotal, w.prevFw, w.fwSince = w.fundsRefusals(), w.fundsRefusals(), 0
	for {
		h := int(w.net.BC.BlockHeight())
		// schedule
		for _, m := range w.members {
			if schedule && w.bootAt >= 0 && !m.bootApplied { // resolve the boot-relative entries once
				m.bootApplied = true
				if len(m.plan.CancelAfterBoot) == 2 {
					m.plan.Cancels = append(m.plan.Cancels, [2]int{w.bootAt + m.plan.CancelAfterBoot[0], w.bootAt + m.plan.CancelAfterBoot[1]})
				}
				if len(m.plan.PauseAfterBoot) == 2 {
					m.plan.Pauses = append(m.plan.Pauses, [2]int{w.bootAt + m.plan.PauseAfterBoot[0], m.plan.PauseAfterBoot[1]})
				}
			}
			if schedule && w.notaryAt < 0 && w.notaryDesignated() {
				w.notaryAt = h
			}
			if schedule && w.notaryAt >= 0 && !m.notaryApplied { // resolve the Notary-relative entries once
				m.notaryApplied = true
				if len(m.plan.CancelAfterNotary) == 2 {
					m.plan.Cancels = append(m.plan.Cancels, [2]int{w.notaryAt + m.plan.CancelAfterNotary[0], w.notaryAt + m.plan.CancelAfterNotary[1]})
				}
			}
			p := m.plan
			if !schedule {
				p = MemberPlan{}
			}
			if m.state == "off" && m.runs == 0 && h-start >= p.Start && (!p.AfterNotary || w.notaryDesignated()) &&
				(p.AfterBoot <= 0 || (w.bootAt >= 0 && h >= w.bootAt+p.AfterBoot)) {
				w.launch(m)
			}
			if m.cancels < len(p.Cancels) {
				c := p.Cancels[m.cancels]
				if m.state == "run" && h >= c[0] {
					m.cancel()
					select {
					case <-m.ret:
					case <-time.After(20 * time.Second):
						w.t.Fatalf("member %d did not return after cancellation", m.idx)
					}
					m.retire()
					m.state = "down"
				} else if m.state == "done" && h >= c[0] {
					m.cancels++ // nothing left to cancel
				}
				if m.state == "down" && h >= c[1] {
					m.cancels++
					w.launch(m)
				}
			}
			paused := false
			for _, ps := range p.Pauses {
				if h >= ps[0] && h < ps[0]+ps[1] {
					paused = true
				}
			}
			if m.bc != nil && paused != m.paused {
				m.bc.SetPaused(paused)
			}
			m.paused = paused && m.bc != nil
		}
		// returns
		allDone := true
		failed := false
		for _, m := range w.members {
			if m.state == "run" {
				select {
				case err := <-m.ret:
					m.retire()
					if err == nil {
						m.state = "done"
					} else {
						m.state, m.errText = "err", cleanErr(err)
						failed = true
					}
				default:
				}
			}
			if m.state != "done" {
				allDone = false
			}
		}
		if failed {
			return "error", lastChange
		}
		if allDone || (schedule && w.sc.Goal == "notary" && w.notaryDesignated()) {
			return "done", lastChange
		}
		if h-start >= budget {
			return "budget", lastChange
		}
		if h-lastChange >= stagnationStop {
			return "stagnant", lastChange
		}
		time.Sleep(time.Duration(w.net.BlockMs) * time.Millisecond)
		w.net.Block()
		fwNow := w.fundsRefusals()
		_, nnsThere := w.nnsHash()
		fwHappened := fwNow != w.prevFw && !nnsThere // saving for the first deployment out of the block rewards
		w.prevFw = fwNow
		if w.emit("block", nil, false) || fwHappened {
			lastChange = int(w.net.BC.BlockHeight())
		}
	}
}

func TestE2E(t *testing.T) {
	path := os.Getenv("VERIF_E2E")
	if path == "" {
		t.Skip("VERIF_E2E not set")
	}
	var sc E2EScenario
	b, err := os.ReadFile(path)
	require.NoError(t, err)
	require.NoError(t, json.Unmarshal(b, &sc))
	if sc.BlockMs == 0 {
		sc.BlockMs = 30
	}
	if sc.Budget == 0 {
		sc.Budget = 1500
	}
	if sc.Goal == "" {
		sc.Goal = "all"
	}
	for len(sc.Members) < sc.N {
		sc.Members = append(sc.Members, MemberPlan{})
	}
	for i := range sc.Members { // JSON null is not a TLA+ value
		if sc.Members[i].Pauses == nil {
			sc.Members[i].Pauses = [][2]int{}
		}
		if sc.Members[i].Cancels == nil {
			sc.Members[i].Cancels = [][2]int{}
		}
		if sc.Members[i].Losses == nil {
			sc.Members[i].Losses = []Loss{}
		}
		if sc.Members[i].CancelAfterBoot == nil {
			sc.Members[i].CancelAfterBoot = []int{}
		}
		if sc.Members[i].PauseAfterBoot == nil {
			sc.Members[i].PauseAfterBoot = []int{}
		}
		if sc.Members[i].CancelAfterNotary == nil {
			sc.Members[i].CancelAfterNotary = []int{}
		}
	}
	t0 := time.Now()
	w := &world{t: t, sc: sc, fs: map[string]contracts.Contract{}, nefSum: map[string]uint32{}, logDir: os.Getenv("VERIF_E2E_LOGDIR"), bootAt: -1, notaryAt: -1}
	fs, err := contracts.GetFS()
	require.NoError(t, err)
	for _, c := range fs {
		w.fs[c.Manifest.Name] = c
		w.nefSum[sysByManifest[c.Manifest.Name]] = c.NEF.Checksum
	}
	w.net = NewNet(t, sc.N, sc.Seed, sc.BlockMs)
	w.obsInv = invoker.New(w.net.Client(), nil)
	w.rec = chain.NewRecorder(t, os.Getenv("VERIF_OUT"))
	cmtScript, err := smartcontract.CreateMajorityMultiSigRedeemScript(keys.PublicKeys(w.net.Pubs).Copy())
	require.NoError(t, err)
	w.cmtAcc = hash.Hash160(cmtScript)
	w.valAcc = w.net.ValidatorAccount(0).ScriptHash()
	for i := 0; i < sc.N; i++ {
		w.members = append(w.members, &member{idx: i, plan: sc.Members[i], state: "off", sent: map[string]int{}, rej: map[string]int{},
			subm: map[string]int{}, lossy: len(sc.Members[i].Losses) > 0})
	}
	w.emit("reset", chain.Rec{"kind": "e2e", "seed": sc.Seed, "src": sc.Src, "plan": sc.Members, "budget": sc.Budget,
		"cmtIsVal": w.cmtAcc.Equals(w.valAcc), "res": ""}, true)

	why, lastChange := w.phase(sc.Budget, true)
	if why == "done" {
		for i := 0; i < 3; i++ { // let the pool drain
			time.Sleep(time.Duration(sc.BlockMs) * time.Millisecond)
			w.net.Block()
			w.emit("block", nil, false)
		}
	}
	absent := []int{}
	for _, m := range w.members {
		if m.plan.AfterNotary {
			absent = append(absent, m.idx)
		}
	}
	h := int(w.net.BC.BlockHeight())
	lostTotal := 0
	for _, m := range w.members {
		lostTotal += m.lostNow()
	}
	w.emit("end", chain.Rec{"why": why, "done": why == "done", "goal": sc.Goal, "stag": h - lastChange, "absent": absent, "lostTotal": lostTotal,
		"notaryOk": w.notaryDesignated(), "badBlocks": w.net.BadBlk, "wall": int(time.Since(t0).Seconds())}, true)
	fmt.Printf("E2E n=%d src=%s why=%s height=%d stag=%d lost=%d wall=%.1fs\n", sc.N, sc.Src, why, h, h-lastChange, lostTotal, time.Since(t0).Seconds())

	if why == "done" && sc.Rerun && sc.Goal == "all" {
		for _, m := range w.members {
			m.state, m.runs, m.sent, m.rej, m.errText, m.lossy, m.lost = "off", 0, map[string]int{}, map[string]int{}, "", false, 0
		}
		why2, lc := w.phase(rerunBudget, false)
		h := int(w.net.BC.BlockHeight())
		w.emit("rerun", chain.Rec{"why": why2, "done": why2 == "done", "stag": h - lc}, true)
		fmt.Printf("E2E rerun why=%s height=%d\n", why2, h)
	}
	w.rec.Close()
	st, _ := json.Marshal(map[string]any{"lines": w.rec.N, "scenarios": 1, "acts": w.rec.Acts})
	fmt.Println("DRIVER-STATS " + string(st))
	// the process ends here without tearing the network down (see net.go)
}
