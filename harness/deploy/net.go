package deployh

// net.go: a complete single-node Neo network in one process - core.Blockchain on a
// memory store with P2PSigExtensions, network.Server (started, never connected),
// the real services/notary module and services/rpcsrv reached through
// rpcclient.NewInternal.  There is no consensus service (dbft is not in the module
// cache): blocks are produced by the harness from the node's mempool and signed
// with the validators' multi-signature built from the generated committee keys,
// which is equivalent for the ledger.

import (
	"context"
	"encoding/hex"
	"fmt"
	"path/filepath"
	"slices"
	"sort"
	"testing"
	"time"

	"github.com/nspcc-dev/neo-go/pkg/config"
	"github.com/nspcc-dev/neo-go/pkg/core"
	"github.com/nspcc-dev/neo-go/pkg/core/block"
	"github.com/nspcc-dev/neo-go/pkg/core/storage"
	"github.com/nspcc-dev/neo-go/pkg/core/transaction"
	"github.com/nspcc-dev/neo-go/pkg/crypto/keys"
	"github.com/nspcc-dev/neo-go/pkg/encoding/fixedn"
	"github.com/nspcc-dev/neo-go/pkg/neotest"
	"github.com/nspcc-dev/neo-go/pkg/network"
	"github.com/nspcc-dev/neo-go/pkg/rpcclient"
	"github.com/nspcc-dev/neo-go/pkg/services/notary"
	"github.com/nspcc-dev/neo-go/pkg/services/rpcsrv"
	"github.com/nspcc-dev/neo-go/pkg/smartcontract"
	"github.com/nspcc-dev/neo-go/pkg/wallet"
	"github.com/stretchr/testify/require"
	"go.uber.org/zap"

	"verif/harness/chain"
)

// Net is the in-process network shared by all committee members of one run.
type Net struct {
	T       testing.TB
	N       int
	BlockMs int
	BC      *core.Blockchain
	Srv     *network.Server
	RPC     *rpcsrv.Server
	E       *neotest.Executor
	Privs   []*keys.PrivateKey // sorted by public key: index = committee index used by deploy.Deploy
	Pubs    keys.PublicKeys
	ValM    int // validators' multi-signature threshold
	BadBlk  int // blocks that had to be re-built without transactions
}

// NewNet starts the network with an n-key committee derived from seed.
func NewNet(t testing.TB, n int, seed int64, blockMs int) *Net {
	dir := t.TempDir()
	privs := make([]*keys.PrivateKey, n)
	for i := range privs {
		privs[i] = chain.DetKey(seed, fmt.Sprintf("committee%d", i))
	}
	sort.Slice(privs, func(i, j int) bool { return privs[i].PublicKey().Cmp(privs[j].PublicKey()) < 0 })
	pubs := make(keys.PublicKeys, n)
	hexPubs := make([]string, n)
	for i := range privs {
		pubs[i] = privs[i].PublicKey()
		hexPubs[i] = hex.EncodeToString(pubs[i].Bytes())
	}
	// the node's Notary service may act for any committee member: its wallet holds all keys
	wPath := filepath.Join(dir, "notary.json")
	w, err := wallet.NewWallet(wPath)
	require.NoError(t, err)
	w.Scrypt = keys.ScryptParams{N: 2, R: 1, P: 1}
	for i := range privs {
		acc := wallet.NewAccountFromPrivateKey(privs[i])
		require.NoError(t, acc.Encrypt("pass", w.Scrypt))
		w.AddAccount(acc)
	}
	require.NoError(t, w.Save())

	cfg := config.Config{
		ProtocolConfiguration: config.ProtocolConfiguration{
			Magic:                           56753,
			MaxTraceableBlocks:              200000,
			TimePerBlock:                    time.Duration(blockMs) * time.Millisecond,
			StandbyCommittee:                hexPubs,
			ValidatorsCount:                 uint32(n),
			VerifyTransactions:              true,
			P2PSigExtensions:                true,
			P2PNotaryRequestPayloadPoolSize: 1000,
			MemPoolSize:                     5000,
		},
		ApplicationConfiguration: config.ApplicationConfiguration{
			P2P: config.P2P{Addresses: []string{"127.0.0.1:0"}, DialTimeout: time.Second, ProtoTickInterval: time.Second,
				PingInterval: 30 * time.Second, PingTimeout: 90 * time.Second, MaxPeers: 10, AttemptConnPeers: 1, MinPeers: 0},
			RPC: config.RPC{
				BasicService:           config.BasicService{Enabled: true},
				MaxGasInvoke:           fixedn.Fixed8FromInt64(200),
				SessionEnabled:         true,
				SessionExpirationTime:  60,
				SessionPoolSize:        1000,
				MaxIteratorResultItems: 100,
				MaxFindResultItems:     100,
				MaxNEP11Tokens:         100,
				MaxWebSocketClients:    64,
			},
			P2PNotary: config.P2PNotary{Enabled: true, UnlockWallet: config.Wallet{Path: wPath, Password: "pass"}},
		},
	}
	log := zap.NewNop()
	bc, err := core.NewBlockchain(storage.NewMemoryStore(), cfg.Blockchain(), log)
	require.NoError(t, err)
	go bc.Run()

	srvCfg, err := network.NewServerConfig(cfg)
	require.NoError(t, err)
	srv, err := network.NewServer(srvCfg, bc, bc.GetStateSyncModule(), log)
	require.NoError(t, err)
	ntr, err := notary.NewNotary(notary.Config{MainCfg: cfg.ApplicationConfiguration.P2PNotary, Chain: bc, Log: log}, srv.Net,
		srv.GetNotaryPool(), func(tx *transaction.Transaction) error { return srv.RelayTxn(tx) })
	require.NoError(t, err)
	srv.AddService(ntr)
	bc.SetNotary(ntr)
	errCh := make(chan error, 10)
	rpcSrv := rpcsrv.New(bc, cfg.ApplicationConfiguration.RPC, srv, nil, log, errCh)
	srv.AddService(rpcSrv)
	srv.Start() // must be started, otherwise RelayTxn blocks after 64 transactions
	rpcSrv.Start()
	// no orderly shutdown: cancelling rpcclient.Internal contexts trips a double close inside the RPC
	// server; every end-to-end run lives in its own OS process and simply exits.

	m := smartcontract.GetDefaultHonestNodeCount(n)
	vaccs := make([]*wallet.Account, n)
	for i := range privs {
		vaccs[i] = wallet.NewAccountFromPrivateKey(privs[i])
		require.NoError(t, vaccs[i].ConvertMultisig(m, slices.Clone(pubs)))
	}
	val := neotest.NewMultiSigner(vaccs...)
	return &Net{T: t, N: n, BlockMs: blockMs, BC: bc, Srv: srv, RPC: rpcSrv, E: neotest.NewExecutor(t, bc, val, val),
		Privs: privs, Pubs: pubs, ValM: m}
}

// Client opens a new in-process RPC client. Its context is never cancelled.
func (n *Net) Client() *rpcclient.Internal {
	cl, err := rpcclient.NewInternal(context.Background(), n.RPC.RegisterLocal)
	require.NoError(n.T, err)
	require.NoError(n.T, cl.Init())
	return cl
}

// ValidatorAccount returns a fresh validators' multi-signature account holding member i's key.
func (n *Net) ValidatorAccount(i int) *wallet.Account {
	acc := wallet.NewAccountFromPrivateKey(n.Privs[i])
	require.NoError(n.T, acc.ConvertMultisig(n.ValM, slices.Clone(n.Pubs)))
	return acc
}

func (n *Net) nextTs() uint64 {
	ts := uint64(time.Now().UnixMilli())
	if h, err := n.BC.GetHeader(n.BC.CurrentBlockHash()); err == nil && h.Timestamp >= ts {
		ts = h.Timestamp + 1
	}
	return ts
}

// Block produces one block from the verified transactions of the mempool.
func (n *Net) Block() *block.Block {
	txs := n.BC.GetMemPool().GetVerifiedTransactions()
	if len(txs) > 200 {
		txs = txs[:200]
	}
	b := n.E.NewUnsignedBlock(n.T, txs...)
	b.Timestamp = n.nextTs()
	n.E.SignBlock(b)
	if err := n.BC.AddBlock(b); err != nil {
		// a transaction became invalid between pooling and block assembly: produce an empty block instead
		n.BadBlk++
		b = n.E.NewUnsignedBlock(n.T)
		b.Timestamp = n.nextTs()
		n.E.SignBlock(b)
		require.NoError(n.T, n.BC.AddBlock(b))
	}
	return b
}
