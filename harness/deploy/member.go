package deployh

// member.go: the deploy.Blockchain implementation handed to one run of deploy.Deploy.
// It is a thin wrapper around an in-process RPC client that
//   - counts and classifies every transaction and notary request the member submits
//     (and every submission the node refuses),
//   - gates the delivery of new-block notifications (the scheduler's handle on the
//     member's relative speed: a paused member does not see the chain advance).

import (
	"errors"
	"sort"
	"strings"
	"sync"

	"github.com/nspcc-dev/neo-go/pkg/core/block"
	"github.com/nspcc-dev/neo-go/pkg/core/transaction"
	"github.com/nspcc-dev/neo-go/pkg/neorpc"
	"github.com/nspcc-dev/neo-go/pkg/neorpc/result"
	"github.com/nspcc-dev/neo-go/pkg/network/payload"
	"github.com/nspcc-dev/neo-go/pkg/rpcclient"
	"github.com/nspcc-dev/neo-go/pkg/util"
	"github.com/nspcc-dev/neo-go/pkg/vm"
	"github.com/nspcc-dev/neo-go/pkg/vm/opcode"
)

var methodClass = map[string]string{
	"deploy":            "deploy",
	"update":            "update",
	"register":          "register",
	"registerTLD":       "register",
	"addRecord":         "register",
	"setRecord":         "register",
	"designateAsRole":   "designate",
	"transfer":          "transfer",
	"registerCandidate": "candidate",
	"setRegisterPrice":  "candidate",
	"vote":              "vote",
}

// Classify returns the sorted set of action classes a script performs, e.g. "register" or
// "candidate" ("other" if it calls none of the known methods).
func Classify(script []byte) string {
	set := map[string]bool{}
	ctx := vm.NewContext(script)
	for ctx.NextIP() < len(script) {
		op, prm, err := ctx.Next()
		if err != nil {
			break
		}
		if op == opcode.PUSHDATA1 || op == opcode.PUSHDATA2 {
			if c, ok := methodClass[string(prm)]; ok {
				set[c] = true
			}
		}
	}
	if len(set) == 0 {
		return "other"
	}
	var out []string
	for c := range set {
		out = append(out, c)
	}
	sort.Strings(out)
	return strings.Join(out, "+")
}

func errClass(err error) string {
	switch {
	case errors.Is(err, neorpc.ErrInvalidSignature):
		return "invalidsig"
	case errors.Is(err, neorpc.ErrVerificationFailed):
		return "verification"
	case errors.Is(err, neorpc.ErrInsufficientFunds):
		return "funds"
	case errors.Is(err, neorpc.ErrAlreadyExists), errors.Is(err, neorpc.ErrAlreadyInPool):
		return "duplicate"
	case errors.Is(err, neorpc.ErrExpiredTransaction):
		return "expired"
	default:
		return "othererr"
	}
}

// MemberBC implements deploy.Blockchain for one run of one member.
type MemberBC struct {
	*rpcclient.Internal

	mu     sync.Mutex
	sent   map[string]int // "tx:<class>" / "nr:<class>" accepted by the node
	rej    map[string]int // "tx:<class>:<error class>" refused by the node
	paused bool
	held   []*block.Block
	out    chan *block.Block

	// Drop, if set, is asked for every submission (class key "tx:<class>" / "nr:<class>"); when it answers true the
	// submission is acknowledged to the member but never forwarded to the node (lossy delivery).
	Drop func(key string) bool
	lost map[string]int
}

func NewMemberBC(cl *rpcclient.Internal) *MemberBC {
	return &MemberBC{Internal: cl, sent: map[string]int{}, rej: map[string]int{}, lost: map[string]int{}}
}

func (m *MemberBC) dropped(c string) bool {
	if m.Drop == nil || !m.Drop(c) {
		return false
	}
	m.mu.Lock()
	m.sent[c]++
	m.lost[c]++
	m.mu.Unlock()
	return true
}

// Lost returns the number of submissions that were acknowledged but not forwarded.
func (m *MemberBC) Lost() int {
	m.mu.Lock()
	defer m.mu.Unlock()
	n := 0
	for _, v := range m.lost {
		n += v
	}
	return n
}

func (m *MemberBC) SendRawTransaction(tx *transaction.Transaction) (util.Uint256, error) {
	c := "tx:" + Classify(tx.Script)
	if m.dropped(c) {
		return tx.Hash(), nil
	}
	h, err := m.Internal.SendRawTransaction(tx)
	m.mu.Lock()
	if err == nil {
		m.sent[c]++
	} else {
		m.rej[c+":"+errClass(err)]++
	}
	m.mu.Unlock()
	return h, err
}

func (m *MemberBC) SubmitP2PNotaryRequest(req *payload.P2PNotaryRequest) (util.Uint256, error) {
	c := "nr:" + Classify(req.MainTransaction.Script)
	if m.dropped(c) {
		return req.FallbackTransaction.Hash(), nil // what the node answers (notary.Actor compares it)
	}
	h, err := m.Internal.SubmitP2PNotaryRequest(req)
	m.mu.Lock()
	if err == nil {
		m.sent[c]++
	} else {
		m.rej[c+":"+errClass(err)]++
	}
	m.mu.Unlock()
	return h, err
}

// Counters returns copies of the submission counters.
func (m *MemberBC) Counters() (map[string]int, map[string]int) {
	m.mu.Lock()
	defer m.mu.Unlock()
	s, r := map[string]int{}, map[string]int{}
	for k, v := range m.sent {
		s[k] = v
	}
	for k, v := range m.rej {
		r[k] = v
	}
	return s, r
}

// SetPaused withholds (true) or releases (false) new-block notifications.
func (m *MemberBC) SetPaused(p bool) {
	m.mu.Lock()
	m.paused = p
	if !p {
		m.flush()
	}
	m.mu.Unlock()
}

func (m *MemberBC) flush() {
	for len(m.held) > 0 && m.out != nil {
		select {
		case m.out <- m.held[0]:
			m.held = m.held[1:]
		default:
			return
		}
	}
}

func (m *MemberBC) SubscribeToNewBlocks() (<-chan *block.Block, error) {
	src := make(chan *block.Block, 256)
	if _, err := m.ReceiveBlocks(nil, src); err != nil {
		return nil, err
	}
	out := make(chan *block.Block, 8192)
	m.mu.Lock()
	m.out = out
	m.mu.Unlock()
	go func() { // the client's dispatcher blocks on a full receiver: always drain
		for b := range src {
			m.mu.Lock()
			m.held = append(m.held, b)
			if !m.paused {
				m.flush()
			}
			m.mu.Unlock()
		}
	}()
	return out, nil
}

func (m *MemberBC) SubscribeToNotaryRequests() (<-chan *result.NotaryRequestEvent, error) {
	src := make(chan *result.NotaryRequestEvent, 256)
	if _, err := m.ReceiveNotaryRequests(nil, src); err != nil {
		return nil, err
	}
	out := make(chan *result.NotaryRequestEvent, 65536)
	go func() {
		for ev := range src {
			select {
			case out <- ev:
			default: // reader gone (finished or cancelled run): drop
			}
		}
	}()
	return out, nil
}
