package mainchain

import (
	"encoding/json"
	"math/rand"
	"testing"

	"verif/harness/chain"
)

func driveGas(t *testing.T, rec *chain.Recorder, raw []json.RawMessage, traps bool, nrand int, r *rand.Rand, seed int64, shard, nshard int) int {
	return 0
}
